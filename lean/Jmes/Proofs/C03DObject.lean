/-
  C03D — checked mirrors of the remaining small indexing sites of the evaluator:

  * object.go `fromItems` (`ia[0]`, `ia[1]`), `items` / `keys` / `values` (`make([]any, len(m))`, `r[i] = …`);
  * compare.go `equal`, array branch (`y[i]` after the length test);
  * evaluator.go multi-select list (`make([]any, len(node.Fields))`, `results[i] = result`).

  Same conventions as `Jmes/Proofs/C03DString.lean`: every Go indexing / `make` goes through a checked primitive of
  `Jmes/Proofs/C03DChecked.lean`; `…C_eq` says the checked mirror equals the model function, i.e. the checks never fire.
-/
import Jmes.Proofs.C03DChecked
namespace Jmes.C03D.ObjGo
open Jmes Jmes.C03D

/-! ## the pattern `r := make([]any, len(xs)); for i, x := range xs { …; r[i] = p }` -/

/-- the loop `for i, x := range xs { p, err := g(x); if err != nil { return nil, err }; r[i] = p }` -/
def fillLoopC {α} (g : α → Res Val) : List α → List Val → Int → Res (List Val)
  | [], r, _ => .ok r
  | x :: xs, r, i => do
    let p ← g x
    let r ← set? r i p
    fillLoopC g xs r (i + 1)

/-- `r := make([]any, len(xs))` followed by the loop.
    Go sites: object.go:126/:129 (`items`), :145/:148 (`keys`), :182/:185 (`values`);
    evaluator.go:728/:735 and :744/:751 (multi-select list); array.go:264/:271 (`mapArray`). -/
def fillC {α} (g : α → Res Val) (xs : List α) : Res (List Val) := do
  let r ← make? xs.length
  fillLoopC g xs r 0

/-- the unchecked reading of the same loop: collect the results, stop at the first failure -/
def mapAllG {α} (g : α → Res Val) : List α → Res (List Val)
  | [] => .ok []
  | x :: xs => do
    let p ← g x
    let rest ← mapAllG g xs
    pure (p :: rest)

/-- writing the first free slot of a partly filled slice -/
theorem set_fill (pre : List Val) (m : Nat) (x : Val) (hm : 1 ≤ m) :
    (pre ++ List.replicate m Val.null).set pre.length x = (pre ++ [x]) ++ List.replicate (m - 1) Val.null := by
  obtain ⟨m', rfl⟩ : ∃ m', m = m' + 1 := ⟨m - 1, by omega⟩
  rw [List.set_append_right _ _ (Nat.le_refl _)]
  simp [List.replicate_succ]

/-- the loop writes `r[i]` only below `len(r)`: with `m ≥ len(xs)` free slots it fills them in order -/
theorem fillLoopC_eq {α} (g : α → Res Val) : ∀ (xs : List α) (pre : List Val) (m : Nat), xs.length ≤ m →
    fillLoopC g xs (pre ++ List.replicate m Val.null) pre.length
      = (mapAllG g xs >>= fun ys => Res.ok (pre ++ ys ++ List.replicate (m - xs.length) Val.null)) := by
  intro xs
  induction xs with
  | nil => intro pre m _; simp [fillLoopC, mapAllG]
  | cons x xs ih =>
    intro pre m hm
    simp only [List.length_cons] at hm
    unfold fillLoopC mapAllG
    cases hx : g x with
    | ok p =>
      simp only [Res.ok_bind]
      rw [set?_ok _ _ _ (by omega) (by simp; omega)]
      simp only [Res.ok_bind, Int.toNat_natCast]
      rw [set_fill pre m p (by omega)]
      have := ih (pre ++ [p]) (m - 1) (by omega)
      simp only [List.length_append, List.length_cons, List.length_nil] at this
      have e : ((pre.length : Int) + 1) = ((pre.length + (0 + 1) : Nat) : Int) := by omega
      rw [e, this]
      cases mapAllG g xs with
      | ok ys =>
        simp only [Res.ok_bind, Res.pure_eq, List.length_cons, List.append_assoc, List.cons_append, List.nil_append]
        have e1 : m - 1 - xs.length = m - (xs.length + 1) := by omega
        rw [e1]
      | err c => rfl
      | panic w => rfl
      | nondet => rfl
      | unmodelled w => rfl
    | err c => rfl
    | panic w => rfl
    | nondet => rfl
    | unmodelled w => rfl

/-- `make([]any, len(xs))` and every `r[i] = p` are in range: the filled slice is the list of results -/
theorem fillC_eq {α} (g : α → Res Val) (xs : List α) (hfit : (xs.length : Int) ≤ makeLimit) :
    fillC g xs = mapAllG g xs := by
  unfold fillC
  rw [make?_ok _ (by omega) hfit]
  simp only [Res.ok_bind, Int.toNat_natCast]
  have := fillLoopC_eq g xs [] xs.length (Nat.le_refl _)
  simp only [List.nil_append, List.length_nil, Int.natCast_zero] at this
  rw [this]
  cases mapAllG g xs with
  | ok ys => simp
  | err c => rfl
  | panic w => rfl
  | nondet => rfl
  | unmodelled w => rfl

/-- for a body that cannot fail the collected results are the `map` -/
theorem mapAllG_pure {α} (h : α → Val) : ∀ xs : List α, mapAllG (fun x => Res.ok (h x)) xs = .ok (xs.map h) := by
  intro xs
  induction xs with
  | nil => rfl
  | cons x xs ih => simp [mapAllG, ih]

example : fillC (fun x : Nat => Res.ok (Val.num (.int .i64 x))) [1, 2]
    = .ok [.num (.int .i64 1), .num (.int .i64 2)] := rfl
/-- a slice allocated one element too short makes the loop panic (the mirror really checks `r[i]`) -/
example : fillLoopC (fun x : Nat => Res.ok (Val.num (.int .i64 x))) [1, 2] [.null] 0 = .panic idxMsg := rfl

/-! ## `items`, `keys`, `values` -/

/-- `keys` (object.go:136-152). Go sites: :145 `make([]any, len(m))`, :148 `r[i] = k`. -/
def keysC (v : Val) : Res Val :=
  match v with
  | .obj kvs => do
    let r ← fillC (fun kv : Bytes × Val => Res.ok (Val.str kv.1)) kvs
    pure (.arr .enum r)
  | _ => errType

/-- `values` (object.go:173-190). Go sites: :182 `make([]any, len(m))`, :185 `r[i] = v`. -/
def valuesC (v : Val) : Res Val :=
  match v with
  | .obj kvs => do
    let r ← fillC (fun kv : Bytes × Val => Res.ok kv.2) kvs
    pure (.arr .enum r)
  | _ => errType

/-- `items` (object.go:117-134). Go sites: :126 `make([]any, len(m))`, :129 `r[i] = []any{k, v}`. -/
def itemsC (v : Val) : Res Val :=
  match v with
  | .obj kvs => do
    let r ← fillC (fun kv : Bytes × Val => Res.ok (Val.arr .plain [Val.str kv.1, kv.2])) kvs
    pure (.arr .enum r)
  | _ => errType

/-- the object (if the value is one) has at most `makeLimit` members -/
def ObjFits (v : Val) : Prop := ∀ kvs, v = .obj kvs → (kvs.length : Int) ≤ makeLimit

/-- `keys(obj)`: allocation and the `r[i] = k` writes are in range -/
theorem keysC_eq (v : Val) (hfit : ObjFits v) : keysC v = keys v := by
  cases v with
  | obj kvs =>
    simp only [keysC, keys]
    rw [fillC_eq _ _ (hfit kvs rfl), mapAllG_pure]
    rfl
  | _ => rfl

/-- `values(obj)` -/
theorem valuesC_eq (v : Val) (hfit : ObjFits v) : valuesC v = values v := by
  cases v with
  | obj kvs =>
    simp only [valuesC, values]
    rw [fillC_eq _ _ (hfit kvs rfl), mapAllG_pure]
    rfl
  | _ => rfl

/-- `items(obj)` -/
theorem itemsC_eq (v : Val) (hfit : ObjFits v) : itemsC v = items v := by
  cases v with
  | obj kvs =>
    simp only [itemsC, items]
    rw [fillC_eq _ _ (hfit kvs rfl), mapAllG_pure]
    rfl
  | _ => rfl

example : keysC (.obj [([0x61], .null), ([0x62], .bool true)]) = .ok (.arr .enum [.str [0x61], .str [0x62]]) := rfl
example : ObjFits (.obj [([0x61], .null)]) := by intro kvs h; injection h with h; subst h; decide

/-! ## `fromItems` -/

/-- the loop of `fromItems` (object.go:89-112). `guardLen = false` drops `if len(ia) != 2 { return …lengthError }`
    (object.go:98). The `enum2` test is the model's marker for a map-ordered pair; it is consulted AFTER the checked
    `ia[0]` / `ia[1]` (whose success depends on `len(ia)` only), so that a deleted guard panics on map-ordered pairs too.
    Go sites: object.go:104 `ia[0]`, :107 `ia[0]` (error message only), :111 `ia[1]`. -/
def fromItemsLoopG (guardLen : Bool) : List Val → List (Bytes × Val) → Res (List (Bytes × Val))
  | [], acc => .ok acc
  | .arr t ia :: rest, acc =>
    if guardLen && (ia.length : Int) ≠ 2 then errValue
    else do
      let k ← idx? ia 0                                     -- k, ok := ia[0].(string)
      match k with
      | .str s => do
        let v ← idx? ia 1                                   -- r[k] = ia[1]
        if enum2 t ia then .nondet                          -- (model marker, after the checked reads)
        else fromItemsLoopG guardLen rest (objInsert s v acc)
      | _ => do
        let _ ← idx? ia 0                                   -- reflect.TypeOf(ia[0]) of the error value
        if enum2 t ia then .nondet else errValue
  | _ :: _, _ => errType

/-- `ia[0]` and `ia[1]` are in range because of the length test before them -/
theorem fromItemsLoopC_eq : ∀ (xs : List Val) (acc : List (Bytes × Val)),
    fromItemsLoopG true xs acc = fromItemsLoop xs acc := by
  intro xs
  induction xs with
  | nil => intro acc; rfl
  | cons x xs ih =>
    intro acc
    cases x with
    | arr t ia =>
      unfold fromItemsLoopG fromItemsLoop
      rcases ia with _ | ⟨k, _ | ⟨v, _ | ⟨w, r⟩⟩⟩
      · rfl
      · rfl
      · simp only [Bool.true_and, List.length_cons, List.length_nil]
        split
        · rename_i h; simp at h
        · have h0 : idx? [k, v] 0 = .ok k := rfl
          have h1 : idx? [k, v] 1 = .ok v := rfl
          cases k <;> simp only [h0, h1, Res.ok_bind] <;> split <;> first | rfl | exact ih _
      · simp only [Bool.true_and, List.length_cons]
        rw [if_pos (by simp; omega)]
    | _ => rfl

/-- `fromItems` (object.go:79-115) with the checked loop -/
def fromItemsG (guardLen : Bool) (v : Val) : Res Val :=
  match v with
  | .arr t xs =>
    match fromItemsLoopG guardLen xs [] with
    | .ok kvs => if enum2 t xs && hasDupKeys (xs.filterMap pairKey) then .nondet else .ok (.obj kvs)
    | .err cs => if enum2 t xs then .err (Cat.dedup (cs ++ [Cat.invalidType, Cat.invalidValue])) else .err cs
    | .panic w => .panic w
    | .nondet => .nondet
    | .unmodelled w => .unmodelled w
  | _ => errType

/-- the Go function as it is (guard present) -/
def fromItemsC := fromItemsG true

/-- `from_items(a)`: no pair access can panic, whatever the shape of the elements -/
theorem fromItemsC_eq (v : Val) : fromItemsC v = fromItems v := by
  cases v with
  | arr t xs =>
    simp only [fromItemsC, fromItemsG, fromItems, fromItemsLoopC_eq]
    cases fromItemsLoop xs [] <;> rfl
  | _ => rfl

example : fromItemsC (.arr .plain [.arr .plain [.str [0x61], .bool true]]) = .ok (.obj [([0x61], .bool true)]) := rfl
example : fromItemsC (.arr .plain [.arr .plain [.str [0x61]]]) = errValue := rfl
/-- **Guard deletion** — without `if len(ia) != 2` (object.go:98) `from_items([[]])` panics at `ia[0]`, and
    `from_items([['a']])` at `ia[1]` -/
example : fromItemsG false (.arr .plain [.arr .plain []]) = .panic idxMsg := rfl
example : fromItemsG false (.arr .plain [.arr .plain [.str [0x61]]]) = .panic idxMsg := rfl
/-- … also when the outer array is map-ordered (`from_items(values(@))`): the reads are checked before any marker -/
example : fromItemsG false (.arr .enum [.arr .plain [.str [0x61]], .arr .plain []]) = .panic idxMsg := rfl

/-! ## `equal`, array branch -/

/-- `for i, xi := range x { if !equal(xi, y[i]) { return false } }; return true` (compare.go:71-77); `eq` stands for the
    recursive call. Go site: compare.go:72 `y[i]`. -/
def equalArrLoopC (eq : Val → Val → Bool) : List Val → List Val → Int → Res Bool
  | [], _, _ => .ok true
  | xi :: xs, ys, i => do
    let yi ← idx? ys i
    if !eq xi yi then .ok false else equalArrLoopC eq xs ys (i + 1)

/-- the array branch of `equal` (compare.go:65-79); `guardLen = false` drops `if len(x) != len(y) { return false }`
    (compare.go:67) -/
def equalArrG (guardLen : Bool) (eq : Val → Val → Bool) (xs ys : List Val) : Res Bool :=
  if guardLen && (xs.length : Int) ≠ ys.length then .ok false else equalArrLoopC eq xs ys 0

/-- with equal lengths `y[i]` is in range at every round and the loop computes `equalL` -/
theorem equalArrLoopC_eq : ∀ (xs ys pre : List Val), xs.length = ys.length →
    equalArrLoopC equal xs (pre ++ ys) pre.length = .ok (equalL xs ys) := by
  intro xs
  induction xs with
  | nil =>
    intro ys pre h
    cases ys with
    | nil => simp [equalArrLoopC, equalL]
    | cons y ys => simp at h
  | cons x xs ih =>
    intro ys pre h
    cases ys with
    | nil => simp at h
    | cons y ys =>
      simp only [List.length_cons] at h
      unfold equalArrLoopC
      rw [idx?_ok_nat _ _ (by simp) Val.null]
      simp only [Res.ok_bind, List.getD_eq_getElem?_getD, List.getElem?_append_right (Nat.le_refl _),
        Nat.sub_self, List.getElem?_cons_zero, Option.getD_some]
      rw [equalL]
      cases hxy : equal x y with
      | false => simp
      | true =>
        simp only [Bool.not_true, Bool.false_eq_true, if_false, Bool.true_and]
        have := ih ys (pre ++ [y]) (by omega)
        simp only [List.length_append, List.length_cons, List.length_nil, List.append_assoc, List.cons_append,
          List.nil_append] at this
        have e : ((pre.length : Int) + 1) = ((pre.length + (0 + 1) : Nat) : Int) := by omega
        rw [e, this]

/-- arrays of different lengths are not equal in the model either -/
theorem equalL_length_ne : ∀ (xs ys : List Val), xs.length ≠ ys.length → equalL xs ys = false := by
  intro xs
  induction xs with
  | nil => intro ys h; cases ys with
    | nil => simp at h
    | cons y ys => simp [equalL]
  | cons x xs ih => intro ys h; cases ys with
    | nil => simp [equalL]
    | cons y ys =>
      simp only [List.length_cons] at h
      rw [equalL, ih ys (by omega)]; simp

/-- `[…] == […]`: `y[i]` is in range because the lengths were compared first; the result is the model's `equalL` -/
theorem equalArrC_eq (xs ys : List Val) : equalArrG true equal xs ys = .ok (equalL xs ys) := by
  unfold equalArrG
  by_cases h : xs.length = ys.length
  · have : ¬ ((xs.length : Int) ≠ (ys.length : Int)) := by omega
    simp only [Bool.true_and]
    rw [if_neg (fun hd => this (of_decide_eq_true hd))]
    have := equalArrLoopC_eq xs ys [] h
    simpa using this
  · have : ((xs.length : Int) ≠ (ys.length : Int)) := by omega
    simp only [Bool.true_and]
    rw [if_pos (decide_eq_true this), equalL_length_ne xs ys h]

example : equalArrG true equal [.bool true, .null] [.bool true, .null] = .ok true := rfl
example : equalArrG true equal [.bool true, .null] [.bool true] = .ok false := rfl
/-- **Guard deletion** — without the length test (compare.go:67) `` `[true, null]` == `[true]` `` panics at `y[1]` -/
example : equalArrG false equal [.bool true, .null] [.bool true] = .panic idxMsg := rfl

/-! ## multi-select list -/

/-- the model's `ievalList` is the generic collect-until-failure loop over `ieval` -/
theorem ievalList_mapAllG (root : Val) (cur : Val) (env : Env) : ∀ ns : List INode,
    ievalList root ns cur env = mapAllG (fun n => ieval root n cur env) ns := by
  intro ns
  induction ns with
  | nil => simp [ievalList, mapAllG]
  | cons n ns ih => simp only [ievalList, mapAllG, ih]

/-- `results := make([]any, len(node.Fields)); for i, field := range node.Fields { …; results[i] = result }`
    (evaluator.go:728-738 and :744-754), with the evaluation of a field as the model's `ieval`:
    the checked loop is the model's `ievalList` -/
theorem selectListC_eq (root : Val) (ns : List INode) (cur : Val) (env : Env)
    (hfit : (ns.length : Int) ≤ makeLimit) :
    fillC (fun n => ieval root n cur env) ns = ievalList root ns cur env := by
  rw [fillC_eq _ _ hfit, ievalList_mapAllG]

example : fillC (fun n => ieval .null n (.bool true) []) [.current, .lit .null] = .ok [.bool true, .null] :=
  selectListC_eq _ _ _ _ (by decide)

/-- `case *parser.SelectArrayNode` (evaluator.go:718-738) as a whole; `ev n v` stands for `e.evaluate(n, v, variables)`.
    Go statements: :719 `child, err := e.evaluate(node.Child, current, variables)`, :724 `if child == nil { return nil, nil }`
    (BEFORE the allocation: on a nil child nothing is allocated or evaluated), :728 `make([]any, len(node.Fields))`,
    :729-736 the loop with :735 `results[i] = result` (→ `fillC`). -/
def selectArrayC (ev : INode → Val → Res Val) (c : INode) (fs : List INode) (cur : Val) : Res Val := do
  let child ← ev c cur                                      -- child, err := e.evaluate(node.Child, …)
  if child.isNull then pure .null                           -- if child == nil { return nil, nil }
  else do
    let results ← fillC (fun f => ev f child) fs            -- results := make(…); for i, field := range … { … }
    pure (.arr .plain results)                              -- return results, nil

/-- `case *parser.SelectArrayCurrentNode` (evaluator.go:739-754): :740 `if current == nil { return nil, nil }`, then
    :744 `make([]any, len(node.Fields))` and the loop -/
def selectArrayCurrentC (ev : INode → Val → Res Val) (fs : List INode) (cur : Val) : Res Val :=
  if cur.isNull then pure .null                             -- if current == nil { return nil, nil }
  else do
    let results ← fillC (fun f => ev f cur) fs
    pure (.arr .plain results)

/-- **the multi-select-list node with a child** evaluates as its checked mirror (nil test, allocation, writes):
    nothing panics when the node has at most `makeLimit` fields -/
theorem selectArrayC_eq (root : Val) (c : INode) (fs : List INode) (cur : Val) (env : Env)
    (hfit : (fs.length : Int) ≤ makeLimit) :
    selectArrayC (fun n v => ieval root n v env) c fs cur = ieval root (.selectArray c fs) cur env := by
  rw [ieval]
  unfold selectArrayC
  apply Res.bind_congr; intro a
  split
  · rfl
  · rw [selectListC_eq root fs a env hfit]

/-- the same for the child-less form `[a, b]` on the current value -/
theorem selectArrayCurrentC_eq (root : Val) (fs : List INode) (cur : Val) (env : Env)
    (hfit : (fs.length : Int) ≤ makeLimit) :
    selectArrayCurrentC (fun n v => ieval root n v env) fs cur = ieval root (.selectArrayCurrent fs) cur env := by
  rw [ieval]
  unfold selectArrayCurrentC
  split
  · rfl
  · rw [selectListC_eq root fs cur env hfit]

/-- **on a nil child Go returns before `make`**: no allocation, no field is evaluated — for ANY field list (also one
    longer than the allocation limit) and any evaluator -/
theorem selectArrayCurrentC_null (ev : INode → Val → Res Val) (fs : List INode) :
    selectArrayCurrentC ev fs .null = .ok .null := rfl
/-- the same with a child that evaluates to nil -/
theorem selectArrayC_null (ev : INode → Val → Res Val) (c : INode) (fs : List INode) (cur : Val)
    (h : ev c cur = .ok .null) : selectArrayC ev c fs cur = .ok .null := by
  unfold selectArrayC; rw [h]; rfl

example : selectArrayCurrentC (fun n v => ieval .null n v []) [.current, .lit .null] (.bool true)
    = .ok (.arr .plain [.bool true, .null]) := rfl
example : selectArrayC (fun n v => ieval .null n v []) (.field [0x61]) [.current] (.obj []) = .ok .null := rfl

end Jmes.C03D.ObjGo
