/-
  Helper for C08B: on nodes whose calls have the right argument count (`ArityOK`, true of every parsed node) and that
  do not call `to_string`, the evaluator never reports evaluation-failed.  This is the semantic form of "the catch-all
  arm of `applyFn` is never taken": that arm and `to_string` are the only sources of the category.

  Same walk as `ieval_rt` (`Proofs/C08BLemmas.lean`), with the hypothesis on the node threaded through, and without the
  instance `HasF pe`.
-/
import Jmes.Proofs.C08BLemmas
import Jmes.Proofs.C08BArity
namespace Jmes.RtErr
open Jmes

/-- `bind`, remembering where the value came from -/
theorem Sat.bind_of {pe : List Cat → Prop} {α β} {x : Res α} {f : α → Res β} (hx : Sat pe x)
    (hf : ∀ a, x = .ok a → Sat pe (f a)) : Sat pe (x >>= f) := by
  cases x with
  | ok a => exact hf a rfl
  | err cs => exact hx
  | panic w => exact hx.elim
  | nondet => trivial
  | unmodelled w => trivial

/-- the node is not a call of `to_string` -/
def INode.notToString : INode → Bool
  | .call .toString _ => false
  | _ => true

/-- the per-node requirement: right argument count, not `to_string` -/
def qNode (n : INode) : Bool := INode.arityHead n && INode.notToString n

section
set_option linter.unusedSectionVars false
set_option linter.unusedVariables false
variable {pe : List Cat → Prop} [HasT pe] [HasV pe] [HasN pe] [HasU pe] [PeMore pe]

/-- a builtin other than `to_string`, on an argument list of its arity: no evaluation-failed -/
theorem applyFn_rt' (f : Fn) (args : List Val) (hf : f ≠ .toString) (hl : args.length = fnArity f) :
    Sat pe (applyFn f args) := by
  cases f <;>
    (rcases args with _ | ⟨a, _ | ⟨b, _ | ⟨c, _ | ⟨d, _ | ⟨e, r⟩⟩⟩⟩⟩ <;>
      first
        | (simp only [fnArity, List.length_cons, List.length_nil] at hl; omega)
        | exact absurd rfl hf
        | exact Sat.ok _
        | apply numAbs_rt | apply numAvg_rt | apply numCeil_rt | apply contains_rt | apply endsWith_rt
        | apply findFirst_rt | apply findBetween_rt | apply findFrom_rt | apply findLast_rt
        | apply numFloor_rt | apply fromItems_rt | apply items_rt | apply join_rt | apply keys_rt
        | apply length_rt | apply lower_rt | apply arrayMax_rt | apply arrayMin_rt
        | apply padLeft_rt | apply padRight_rt | apply padSpaceLeft_rt | apply padSpaceRight_rt
        | apply replace_rt | apply replaceCount_rt | apply reverse_rt | apply sortArray_rt
        | apply split_rt | apply splitCount_rt | apply startsWith_rt | apply numSum_rt
        | apply trim_rt | apply trimLeft_rt | apply trimRight_rt
        | apply trimSpace_rt | apply trimSpaceLeft_rt | apply trimSpaceRight_rt
        | apply typeName_rt | apply upper_rt | apply values_rt)

theorem ievalList_len (root : Val) : ∀ (ns : List INode) (cur : Val) (env : Env) (vs : List Val),
    ievalList root ns cur env = .ok vs → vs.length = ns.length
  | [], _, _, vs, h => by simp only [ievalList] at h; cases h; rfl
  | n :: ns, cur, env, vs, h => by
    simp only [ievalList] at h
    cases h1 : ieval root n cur env with
    | ok v =>
      cases h2 : ievalList root ns cur env with
      | ok vs' =>
        rw [h1, h2] at h
        cases h
        simp only [List.length_cons, ievalList_len root ns cur env vs' h2]
      | err c => rw [h1, h2] at h; cases h
      | panic w => rw [h1, h2] at h; cases h
      | nondet => rw [h1, h2] at h; cases h
      | unmodelled w => rw [h1, h2] at h; cases h
    | err c => rw [h1] at h; cases h
    | panic w => rw [h1] at h; cases h
    | nondet => rw [h1] at h; cases h
    | unmodelled w => rw [h1] at h; cases h

/-- extract the hypothesis on a sub-node -/
local macro "sub" h:ident : term => `(by simp only [INode.all, INode.allL, INode.allF, Bool.and_eq_true] at $h:ident; simp only [$h:ident])

local macro "ev_case" : tactic => `(tactic| (
  simp only [ieval]
  rt_auto [applyBinOp_rt, index_rt, slice_rt, sliceStep_rt, zipArgs_rt,
    filterArray_rt, filterAndProjectArray_rt, flattenAndProjectArray_rt, projectArray_rt, projectObject_rt,
    groupBy_rt, mapArray_rt, arrayMaxBy_rt, arrayMinBy_rt, sortArrayBy_rt]))

mutual
theorem ieval_rt' (root : Val) : (n : INode) → n.all qNode = true → (cur : Val) → (env : Env) →
    Sat pe (ieval root n cur env)
  | .lit v, h, cur, env => by ev_case
  | .current, h, cur, env => by ev_case
  | .root, h, cur, env => by ev_case
  | .field k, h, cur, env => by ev_case
  | .variable name, h, cur, env => by ev_case
  | .binop op l r, h, cur, env => by have hl := ieval_rt' root l (sub h); have hr := ieval_rt' root r (sub h); ev_case
  | .and l r, h, cur, env => by have hl := ieval_rt' root l (sub h); have hr := ieval_rt' root r (sub h); ev_case
  | .or l r, h, cur, env => by have hl := ieval_rt' root l (sub h); have hr := ieval_rt' root r (sub h); ev_case
  | .not c, h, cur, env => by have hc := ieval_rt' root c (sub h); ev_case
  | .negate c, h, cur, env => by have hc := ieval_rt' root c (sub h); ev_case
  | .assertNumber c, h, cur, env => by have hc := ieval_rt' root c (sub h); ev_case
  | .call f args, h, cur, env => by
    have hargs := ievalList_rt' root args (sub h) cur env
    have hf : f ≠ .toString ∧ args.length = fnArity f := by
      simp only [INode.all, Bool.and_eq_true, qNode, INode.arityHead, beq_iff_eq] at h
      refine ⟨fun hf => ?_, h.1.1⟩
      subst hf
      simp [INode.notToString] at h
    simp only [ieval]
    refine Sat.bind_of hargs fun vs hvs => ?_
    exact applyFn_rt' f vs hf.1 (by rw [ievalList_len root args cur env vs hvs, hf.2])
  | .defineVariables vars child, h, cur, env => by have hvars := ievalFields_rt' root vars (sub h); have hchild := ieval_rt' root child (sub h); ev_case
  | .filter c f, h, cur, env => by have hc := ieval_rt' root c (sub h); have hf := ieval_rt' root f (sub h); ev_case
  | .filterCurrent f, h, cur, env => by have hf := ieval_rt' root f (sub h); ev_case
  | .filterAndProject l f r, h, cur, env => by have hl := ieval_rt' root l (sub h); have hf := ieval_rt' root f (sub h); have hr := ieval_rt' root r (sub h); ev_case
  | .filterAndProjectCurrent f c, h, cur, env => by have hf := ieval_rt' root f (sub h); have hc := ieval_rt' root c (sub h); ev_case
  | .flatten c, h, cur, env => by have hc := ieval_rt' root c (sub h); ev_case
  | .flattenCurrent, h, cur, env => by ev_case
  | .flattenAndProject l r, h, cur, env => by have hl := ieval_rt' root l (sub h); have hr := ieval_rt' root r (sub h); ev_case
  | .flattenAndProjectCurrent c, h, cur, env => by have hc := ieval_rt' root c (sub h); ev_case
  | .index c i, h, cur, env => by have hc := ieval_rt' root c (sub h); ev_case
  | .indexCurrent i, h, cur, env => by ev_case
  | .smallIndexCurrent i, h, cur, env => by ev_case
  | .objectValues c, h, cur, env => by have hc := ieval_rt' root c (sub h); ev_case
  | .objectValuesCurrent, h, cur, env => by ev_case
  | .pipe l r, h, cur, env => by have hl := ieval_rt' root l (sub h); have hr := ieval_rt' root r (sub h); ev_case
  | .projectArray l r, h, cur, env => by have hl := ieval_rt' root l (sub h); have hr := ieval_rt' root r (sub h); ev_case
  | .projectArrayCurrent c, h, cur, env => by have hc := ieval_rt' root c (sub h); ev_case
  | .projectObject l r, h, cur, env => by have hl := ieval_rt' root l (sub h); have hr := ieval_rt' root r (sub h); ev_case
  | .projectObjectCurrent c, h, cur, env => by have hc := ieval_rt' root c (sub h); ev_case
  | .pruneArray c, h, cur, env => by have hc := ieval_rt' root c (sub h); ev_case
  | .pruneArrayCurrent, h, cur, env => by ev_case
  | .selectArray c fs, h, cur, env => by have hc := ieval_rt' root c (sub h); have hfs := ievalList_rt' root fs (sub h); ev_case
  | .selectArrayCurrent fs, h, cur, env => by have hfs := ievalList_rt' root fs (sub h); ev_case
  | .selectArraySingle c f, h, cur, env => by have hc := ieval_rt' root c (sub h); have hf := ieval_rt' root f (sub h); ev_case
  | .selectArraySingleCurrent f, h, cur, env => by have hf := ieval_rt' root f (sub h); ev_case
  | .selectObject c fs, h, cur, env => by have hc := ieval_rt' root c (sub h); have hfs := ievalFields_rt' root fs (sub h); ev_case
  | .selectObjectCurrent fs, h, cur, env => by have hfs := ievalFields_rt' root fs (sub h); ev_case
  | .selectObjectSingle c k f, h, cur, env => by have hc := ieval_rt' root c (sub h); have hf := ieval_rt' root f (sub h); ev_case
  | .selectObjectSingleCurrent k f, h, cur, env => by have hf := ieval_rt' root f (sub h); ev_case
  | .slice c a b, h, cur, env => by have hc := ieval_rt' root c (sub h); ev_case
  | .sliceCurrent a b, h, cur, env => by ev_case
  | .sliceStep c a b s, h, cur, env => by have hc := ieval_rt' root c (sub h); ev_case
  | .sliceStepCurrent a b s, h, cur, env => by ev_case
  | .groupBy a e, h, cur, env => by have ha := ieval_rt' root a (sub h); have he := ieval_rt' root e (sub h); ev_case
  | .map e a, h, cur, env => by have he := ieval_rt' root e (sub h); have ha := ieval_rt' root a (sub h); ev_case
  | .maxBy a e, h, cur, env => by have ha := ieval_rt' root a (sub h); have he := ieval_rt' root e (sub h); ev_case
  | .minBy a e, h, cur, env => by have ha := ieval_rt' root a (sub h); have he := ieval_rt' root e (sub h); ev_case
  | .sortBy a e, h, cur, env => by have ha := ieval_rt' root a (sub h); have he := ieval_rt' root e (sub h); ev_case
  | .merge args, h, cur, env => by have hargs := ievalMerge_rt' root args (sub h); ev_case
  | .notNull args, h, cur, env => by have hargs := ievalNotNull_rt' root args (sub h); ev_case
  | .zip args, h, cur, env => by have hargs := ievalZip_rt' root args (sub h); ev_case
theorem ievalList_rt' (root : Val) : (ns : List INode) → INode.allL qNode ns = true → (cur : Val) → (env : Env) →
    Sat pe (ievalList root ns cur env)
  | [], h, cur, env => Sat.ok _
  | n :: ns, h, cur, env => by
    have h1 := ieval_rt' root n (sub h); have h2 := ievalList_rt' root ns (sub h)
    simp only [ievalList]; rt_auto
theorem ievalFields_rt' (root : Val) : (fs : List (Bytes × INode)) → INode.allF qNode fs = true → (cur : Val) →
    (env : Env) → Sat pe (ievalFields root fs cur env)
  | [], h, cur, env => Sat.ok _
  | (k, n) :: rest, h, cur, env => by
    simp only [ievalFields]
    exact combineUnordered_rt k (ievalFields_rt' root rest (sub h) cur env) (ieval_rt' root n (sub h) cur env)
theorem ievalMerge_rt' (root : Val) : (ns : List INode) → INode.allL qNode ns = true → (cur : Val) → (env : Env) →
    (acc : List (Bytes × Val)) → Sat pe (ievalMerge root ns cur env acc)
  | [], h, cur, env, acc => Sat.ok _
  | n :: ns, h, cur, env, acc => by
    have h1 := ieval_rt' root n (sub h); have h2 := ievalMerge_rt' root ns (sub h)
    simp only [ievalMerge]; rt_auto [h2]
theorem ievalNotNull_rt' (root : Val) : (ns : List INode) → INode.allL qNode ns = true → (cur : Val) → (env : Env) →
    Sat pe (ievalNotNull root ns cur env)
  | [], h, cur, env => Sat.ok _
  | n :: ns, h, cur, env => by
    have h1 := ieval_rt' root n (sub h); have h2 := ievalNotNull_rt' root ns (sub h)
    simp only [ievalNotNull]; rt_auto
theorem ievalZip_rt' (root : Val) : (ns : List INode) → INode.allL qNode ns = true → (cur : Val) → (env : Env) →
    Sat pe (ievalZip root ns cur env)
  | [], h, cur, env => Sat.ok _
  | n :: ns, h, cur, env => by
    have h1 := ieval_rt' root n (sub h); have h2 := ievalZip_rt' root ns (sub h)
    simp only [ievalZip]; rt_auto
end

end

end Jmes.RtErr
