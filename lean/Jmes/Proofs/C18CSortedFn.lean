/-
  Helper for C18C (re-reading a marshalled result): the representation invariant of Go maps in the model — every
  object inside a value has strictly increasing keys (`C18CR.Sorted`) — is preserved by every value-level operation
  of the evaluator and by every builtin function.  The evaluator-level closure is in `C18CSorted.lean`.
  (Skeleton: `Jmes/Proofs/NoFloat.lean`, which proves the same closure for `Val.NoFloat`.)
-/
import Jmes.Proofs.NoFloat
import Jmes.Proofs.C18CRoundtrip
import Jmes.Proofs.C15BLemmas
import Jmes.Proofs.C20BClosureLemmas
namespace Jmes.C18CS
open Jmes Jmes.C18CR

/-! ## `Sorted` by membership -/

/-- `SortedL` is "every element is `Sorted`" -/
theorem SortedL_iff : ∀ {xs : List Val}, SortedL xs ↔ ∀ x ∈ xs, Sorted x
  | [] => by simp [SortedL]
  | x :: xs => by simp [SortedL, SortedL_iff (xs := xs)]

/-- `SortedF` is "every member value is `Sorted`" -/
theorem SortedF_iff : ∀ {kvs : List (Bytes × Val)}, SortedF kvs ↔ ∀ k x, (k, x) ∈ kvs → Sorted x
  | [] => by simp [SortedF]
  | (k, x) :: kvs => by
    simp only [SortedF, SortedF_iff (kvs := kvs), List.mem_cons, Prod.mk.injEq]
    constructor
    · rintro ⟨h1, h2⟩ k' x' (⟨_, rfl⟩ | hm)
      · exact h1
      · exact h2 k' x' hm
    · intro h
      exact ⟨h k x (Or.inl ⟨rfl, rfl⟩), fun k' x' hm => h k' x' (Or.inr hm)⟩

example : SortedL [.null, .obj []] := SortedL_iff.mpr (by simp [Sorted, SortedF, KeySorted])
example : SortedF [([0x61], .null)] := SortedF_iff.mpr (by simp [Sorted])

@[simp] theorem sorted_null : Sorted .null := by simp [Sorted]
@[simp] theorem sorted_bool (b : Bool) : Sorted (.bool b) := by simp [Sorted]
@[simp] theorem sorted_str (s : Bytes) : Sorted (.str s) := by simp [Sorted]
@[simp] theorem sorted_num (n : Num) : Sorted (.num n) := by simp [Sorted]
@[simp] theorem sorted_foreign (t : Nat) : Sorted (.foreign t) := by simp [Sorted]
/-- an array is `Sorted` iff its elements are -/
theorem sorted_arr {t : ATag} {xs : List Val} : Sorted (.arr t xs) ↔ ∀ x ∈ xs, Sorted x := by
  simp [Sorted, SortedL_iff]
/-- an object is `Sorted` iff its keys strictly increase and its member values are `Sorted` -/
theorem sorted_obj {kvs : List (Bytes × Val)} :
    Sorted (.obj kvs) ↔ KeySorted kvs ∧ ∀ k x, (k, x) ∈ kvs → Sorted x := by
  simp [Sorted, SortedF_iff]
@[simp] theorem sorted_arr_nil (t : ATag) : Sorted (.arr t []) := by simp [sorted_arr]
@[simp] theorem sorted_obj_nil : Sorted (.obj []) := by simp [sorted_obj, KeySorted]

example : Sorted (.arr .plain [.null, .obj [([0x61], .null)]]) := by
  simp [sorted_arr, sorted_obj, KeySorted]
/-- the keys are not increasing: not `Sorted` -/
example : ¬ Sorted (.obj [([0x62], .null), ([0x61], .null)]) := by
  simp only [sorted_obj, KeySorted, not_and]; intro h; exact absurd h (by decide)

/-! ## value level -/
theorem getD_sd {xs : List Val} (h : ∀ x ∈ xs, Sorted x) (n : Nat) : Sorted (xs.getD n .null) := by
  rw [List.getD_eq_getElem?_getD]
  cases hx : xs[n]? with
  | none => simp
  | some x => simp; exact h x (List.mem_of_getElem? hx)

/-- a member of a `Sorted` object (or `null`) is `Sorted` -/
theorem field_sd {v : Val} (k : Bytes) (h : Sorted v) : Sorted (field k v) := by
  unfold field
  split
  · next kvs =>
    cases hl : objLookup k kvs with
    | none => simp
    | some x => simp; exact (sorted_obj.mp h).2 k x (objLookup_mem hl)
  · simp
example : Sorted (field [0x61] (.obj [([0x61], .obj [])])) := field_sd _ (by simp [sorted_obj, KeySorted])

/-- an element of a `Sorted` array is `Sorted` -/
theorem index_sd {v w : Val} {i : Int} (h : Sorted v) (hw : index v i = .ok w) : Sorted w := by
  cases v with
  | arr t xs =>
    simp only [index] at hw
    generalize (if i < 0 then i + (xs.length : Int) else i) = j at hw
    by_cases h1 : j < 0 ∨ j ≥ (xs.length : Int)
    · simp only [h1, if_true, Res.ok.injEq] at hw; subst hw; simp
    · simp only [h1, if_false] at hw
      by_cases h2 : enum2 t xs = true
      · simp [h2] at hw
      · simp only [h2, if_false, Res.ok.injEq, Bool.false_eq_true] at hw
        subst hw; exact getD_sd (sorted_arr.mp h) _
  | _ => simp only [index, Res.ok.injEq] at hw; subst hw; simp
example : ∀ w, index (.arr .plain [.obj []]) 0 = .ok w → Sorted w := fun _ h => index_sd (by simp [sorted_arr]) h

/-- the elements picked by a stepped slice are elements of the list -/
theorem pickStep_sd {xs : List Val} (h : ∀ x ∈ xs, Sorted x) (step : Int) : ∀ (n : Nat) (start : Int),
    ∀ y ∈ pickStep xs start step n, Sorted y
  | 0, _ => by simp [pickStep]
  | n + 1, start => by
    intro y hy
    simp only [pickStep, List.mem_cons] at hy
    rcases hy with rfl | hy
    · exact getD_sd h _
    · exact pickStep_sd h step n _ y hy

/-- a slice of a `Sorted` array (or of a string) is `Sorted` -/
theorem slice_sd {v w : Val} {a b : Int} (h : Sorted v) (hw : slice v a b = .ok w) : Sorted w := by
  unfold slice at hw
  split at hw
  · next t xs =>
    split at hw
    · cases hw; simp [sorted_arr]
    · split at hw
      · cases hw; simp [sorted_arr]
      · split at hw
        · simp at hw
        · cases hw
          rw [sorted_arr]
          intro x hx
          exact sorted_arr.mp h x (List.mem_of_mem_drop (List.mem_of_mem_take hx))
  · split at hw <;> (cases hw; simp)
  · cases hw; simp

/-- a stepped slice of a `Sorted` array (or of a string) is `Sorted` -/
theorem sliceStep_sd {v w : Val} {a b s : Int} (h : Sorted v) (hw : sliceStep v a b s = .ok w) : Sorted w := by
  unfold sliceStep at hw
  split at hw
  · next t xs =>
    split at hw
    · cases hw; simp [sorted_arr]
    · split at hw
      · simp at hw
      · cases hw
        rw [sorted_arr]
        exact pickStep_sd (sorted_arr.mp h) _ _ _
  · simp only at hw
    split at hw
    · cases hw; simp
    · split at hw <;> (cases hw; simp)
  · cases hw; simp

/-- dropping the nulls of a `Sorted` array keeps it `Sorted` -/
theorem pruneArray_sd {v : Val} (h : Sorted v) : Sorted (pruneArray v) := by
  unfold pruneArray
  split
  · next t xs =>
    split
    · rw [sorted_arr]; intro x hx; exact sorted_arr.mp h x (List.mem_filter.mp hx).1
    · exact h
  · simp


/-- `f` maps `Sorted` values to `Sorted` values -/
def SDfun (f : Val → Res Val) : Prop := ∀ x, Sorted x → ∀ v, f x = .ok v → Sorted v

/-- projecting with a `Sorted`-preserving function, nulls dropped -/
theorem mapPrune_sd {f : Val → Res Val} (hf : SDfun f) : ∀ {xs r : List Val}, (∀ x ∈ xs, Sorted x) →
    mapPrune f xs = .ok r → ∀ y ∈ r, Sorted y
  | [], r, _, h => by simp [mapPrune] at h; subst h; simp
  | x :: xs, r, hx, h => by
    simp only [mapPrune, Res.bind_eq_ok, Res.pure_eq, Res.ok.injEq] at h
    obtain ⟨p, hp, rest, hrest, hr⟩ := h
    have ih := mapPrune_sd hf (fun y hy => hx y (List.mem_cons_of_mem _ hy)) hrest
    have hpn := hf x (hx x (List.mem_cons_self ..)) p hp
    subst hr
    intro y hy
    split at hy
    · exact ih y hy
    · rcases List.mem_cons.mp hy with rfl | hy
      · exact hpn
      · exact ih y hy

/-- mapping with a `Sorted`-preserving function -/
theorem mapAll_sd {f : Val → Res Val} (hf : SDfun f) : ∀ {xs r : List Val}, (∀ x ∈ xs, Sorted x) →
    mapAll f xs = .ok r → ∀ y ∈ r, Sorted y
  | [], r, _, h => by simp [mapAll] at h; subst h; simp
  | x :: xs, r, hx, h => by
    simp only [mapAll, Res.bind_eq_ok, Res.pure_eq, Res.ok.injEq] at h
    obtain ⟨p, hp, rest, hrest, hr⟩ := h
    have ih := mapAll_sd hf (fun y hy => hx y (List.mem_cons_of_mem _ hy)) hrest
    have hpn := hf x (hx x (List.mem_cons_self ..)) p hp
    subst hr
    intro y hy
    rcases List.mem_cons.mp hy with rfl | hy
    · exact hpn
    · exact ih y hy

/-- filtering, then projecting with a `Sorted`-preserving function -/
theorem filterMapPrune_sd {c f : Val → Res Val} (hf : SDfun f) : ∀ {xs r : List Val}, (∀ x ∈ xs, Sorted x) →
    filterMapPrune c f xs = .ok r → ∀ y ∈ r, Sorted y
  | [], r, _, h => by simp [filterMapPrune] at h; subst h; simp
  | x :: xs, r, hx, h => by
    simp only [filterMapPrune, Res.bind_eq_ok] at h
    obtain ⟨b, hb, h⟩ := h
    have hx' : ∀ y ∈ xs, Sorted y := fun y hy => hx y (List.mem_cons_of_mem _ hy)
    split at h
    · simp only [Res.bind_eq_ok, Res.pure_eq, Res.ok.injEq] at h
      obtain ⟨p, hp, rest, hrest, hr⟩ := h
      have ih := filterMapPrune_sd hf hx' hrest
      have hpn := hf x (hx x (List.mem_cons_self ..)) p hp
      subst hr
      intro y hy
      split at hy
      · exact ih y hy
      · rcases List.mem_cons.mp hy with rfl | hy
        · exact hpn
        · exact ih y hy
    · exact filterMapPrune_sd hf hx' h

/-- `x[*].f` preserves `Sorted` -/
theorem projectArray_sd {f : Val → Res Val} (hf : SDfun f) {v w : Val} (h : Sorted v)
    (hw : projectArray f v = .ok w) : Sorted w := by
  unfold projectArray at hw
  split at hw
  · next t xs =>
    rw [widen_eq_ok] at hw
    simp only [Res.bind_eq_ok, Res.pure_eq, Res.ok.injEq] at hw
    obtain ⟨r, hr, rfl⟩ := hw
    exact sorted_arr.mpr (mapPrune_sd hf (sorted_arr.mp h) hr)
  · cases hw; simp
example : ∀ w, projectArray (fun v => .ok v) (.arr .plain [.obj []]) = .ok w → Sorted w :=
  fun _ h => projectArray_sd (fun _ hx _ hv => by cases hv; exact hx) (by simp [sorted_arr]) h

/-- `map(&f, x)` preserves `Sorted` -/
theorem mapArray_sd {f : Val → Res Val} (hf : SDfun f) {v w : Val} (h : Sorted v)
    (hw : mapArray f v = .ok w) : Sorted w := by
  unfold mapArray at hw
  split at hw
  · next t xs =>
    rw [widen_eq_ok] at hw
    simp only [Res.bind_eq_ok, Res.pure_eq, Res.ok.injEq] at hw
    obtain ⟨r, hr, rfl⟩ := hw
    exact sorted_arr.mpr (mapAll_sd hf (sorted_arr.mp h) hr)
  · simp [errType] at hw

/-- `x[?c].f` preserves `Sorted` -/
theorem filterAndProjectArray_sd {c f : Val → Res Val} (hf : SDfun f) {v w : Val} (h : Sorted v)
    (hw : filterAndProjectArray c f v = .ok w) : Sorted w := by
  unfold filterAndProjectArray at hw
  split at hw
  · next t xs =>
    rw [widen_eq_ok] at hw
    simp only [Res.bind_eq_ok, Res.pure_eq, Res.ok.injEq] at hw
    obtain ⟨r, hr, rfl⟩ := hw
    exact sorted_arr.mpr (filterMapPrune_sd hf (sorted_arr.mp h) hr)
  · cases hw; simp

/-- one level of flattening keeps the elements `Sorted` -/
theorem flattenForProject_sd : ∀ {xs : List Val}, (∀ x ∈ xs, Sorted x) → ∀ y ∈ flattenForProject xs, Sorted y
  | [], _ => by simp [flattenForProject]
  | x :: xs, hx => by
    have ih := flattenForProject_sd (fun y hy => hx y (List.mem_cons_of_mem _ hy))
    have h0 := hx x (List.mem_cons_self ..)
    intro y hy
    cases x with
    | arr t ys =>
      simp only [flattenForProject, List.mem_append] at hy
      rcases hy with hy | hy
      · exact sorted_arr.mp h0 y hy
      · exact ih y hy
    | _ =>
      simp only [flattenForProject, List.mem_cons] at hy
      rcases hy with rfl | hy
      · exact h0
      · exact ih y hy

/-- `x[].f` preserves `Sorted` -/
theorem flattenAndProjectArray_sd {f : Val → Res Val} (hf : SDfun f) {v w : Val} (h : Sorted v)
    (hw : flattenAndProjectArray f v = .ok w) : Sorted w := by
  unfold flattenAndProjectArray at hw
  split at hw
  · next t xs =>
    rw [widen_eq_ok] at hw
    simp only [Res.bind_eq_ok, Res.pure_eq, Res.ok.injEq] at hw
    obtain ⟨r, hr, rfl⟩ := hw
    exact sorted_arr.mpr (mapPrune_sd hf (flattenForProject_sd (sorted_arr.mp h)) hr)
  · cases hw; simp

/-- the member values of a `Sorted` object are `Sorted` -/
theorem obj_values_sd {kvs : List (Bytes × Val)} (h : Sorted (.obj kvs)) : ∀ x ∈ kvs.map Prod.snd, Sorted x := by
  intro x hx
  obtain ⟨⟨k, x'⟩, hm, rfl⟩ := List.mem_map.mp hx
  exact (sorted_obj.mp h).2 k x' hm

/-- `x.*.f` preserves `Sorted` -/
theorem projectObject_sd {f : Val → Res Val} (hf : SDfun f) {v w : Val} (h : Sorted v)
    (hw : projectObject f v = .ok w) : Sorted w := by
  unfold projectObject at hw
  split at hw
  · next kvs =>
    simp only at hw
    rw [widen_eq_ok] at hw
    simp only [Res.bind_eq_ok, Res.pure_eq, Res.ok.injEq] at hw
    obtain ⟨r, hr, rfl⟩ := hw
    exact sorted_arr.mpr (mapPrune_sd hf (obj_values_sd h) hr)
  · cases hw; simp


/-! groups -/
def GroupsSD (gs : List (Bytes × List Val)) : Prop := ∀ k g, (k, g) ∈ gs → ∀ x ∈ g, Sorted x

/-- adding an element to a group keeps the group elements `Sorted` -/
theorem groupInsert_sd {s : Bytes} {v : Val} (hv : Sorted v) : ∀ {gs : List (Bytes × List Val)}, GroupsSD gs →
    GroupsSD (groupInsert s v gs)
  | [], _ => by
    intro k g hm x hx
    simp only [groupInsert, List.mem_singleton, Prod.mk.injEq] at hm
    obtain ⟨_, rfl⟩ := hm
    simp at hx; subst hx; exact hv
  | (k', g') :: rest, h => by
    have hrest : GroupsSD rest := fun k g hm => h k g (List.mem_cons_of_mem _ hm)
    have hhead := h k' g' (List.mem_cons_self ..)
    intro k g hm x hx
    simp only [groupInsert] at hm
    split at hm
    · rcases List.mem_cons.mp hm with e | hm
      · cases e
        rcases List.mem_append.mp hx with hx | hx
        · exact hhead x hx
        · simp at hx; subst hx; exact hv
      · exact hrest k g hm x hx
    · split at hm
      · rcases List.mem_cons.mp hm with e | hm
        · cases e; simp at hx; subst hx; exact hv
        · exact h k g hm x hx
      · rcases List.mem_cons.mp hm with e | hm
        · cases e; exact hhead x hx
        · exact groupInsert_sd hv hrest k g hm x hx

/-- the loop of `group_by` keeps the group elements `Sorted` -/
theorem groupLoop_sd {f : Val → Res Val} : ∀ {xs : List Val} {acc r : List (Bytes × List Val)},
    (∀ x ∈ xs, Sorted x) → GroupsSD acc → groupLoop f xs acc = .ok r → GroupsSD r
  | [], acc, r, _, hacc, h => by simp [groupLoop] at h; subst h; exact hacc
  | x :: xs, acc, r, hx, hacc, h => by
    simp only [groupLoop, Res.bind_eq_ok] at h
    obtain ⟨rv, _, h⟩ := h
    split at h
    · exact groupLoop_sd (fun y hy => hx y (List.mem_cons_of_mem _ hy))
        (groupInsert_sd (hx x (List.mem_cons_self ..)) hacc) h
    · simp [errType] at h

/-- **`group_by` builds a `Sorted` object**: the groups are kept key-sorted by `groupInsert` (`C20B.groupLoop_sorted`), and each group is an array of elements of the argument -/
theorem groupBy_sd {f : Val → Res Val} {v w : Val} (h : Sorted v) (hw : groupBy f v = .ok w) : Sorted w := by
  unfold groupBy at hw
  split at hw
  · next t xs =>
    split at hw
    · cases hw; simp
    · rw [widen_eq_ok] at hw
      simp only [Res.bind_eq_ok, Res.pure_eq, Res.ok.injEq] at hw
      obtain ⟨gs, hgs, rfl⟩ := hw
      have := groupLoop_sd (sorted_arr.mp h) (fun _ _ hm => by simp at hm) hgs
      have hs : C20B.GSorted gs := C20B.groupLoop_sorted (by simp [C20B.GSorted]) hgs
      rw [sorted_obj]
      refine ⟨?_, ?_⟩
      · unfold KeySorted
        rw [List.pairwise_map]
        exact hs
      intro k x hm
      obtain ⟨⟨k', g⟩, hm', e⟩ := List.mem_map.mp hm
      cases e
      exact sorted_arr.mpr (this k' g hm')
  · simp [errType] at hw
/-- `group_by([{"k":"b"}, {"k":"a"}], &k)`: the groups come out in key order `a`, `b` -/
example : groupBy (fun v => .ok (field [0x6B] v))
      (.arr .plain [.obj [([0x6B], .str [0x62])], .obj [([0x6B], .str [0x61])]]) =
    .ok (.obj [([0x61], .arr .plain [.obj [([0x6B], .str [0x61])]]), ([0x62], .arr .plain [.obj [([0x6B], .str [0x62])]])]) :=
  rfl
example : ∀ w, groupBy (fun v => .ok (field [0x6B] v))
      (.arr .plain [.obj [([0x6B], .str [0x62])], .obj [([0x6B], .str [0x61])]]) = .ok w → Sorted w :=
  fun _ h => groupBy_sd (by simp [sorted_arr, sorted_obj, KeySorted]) h

/-! max_by / min_by / sort_by -/

theorem arrayPickBy_sd {better : Key → Key → Bool} {f : Val → Res Val} {v w : Val} (h : Sorted v)
    (hw : arrayPickBy better f v = .ok w) : Sorted w := by
  unfold arrayPickBy at hw
  split at hw
  · next t xs =>
    split at hw
    · cases hw; simp
    · next x0 rest =>
      rw [widen_eq_ok] at hw
      simp only [Res.bind_eq_ok] at hw
      obtain ⟨ks, _, hw⟩ := hw
      split at hw
      · cases hw; simp
      · next k0 krest _ =>
        split at hw
        · simp at hw
        · cases hw
          have hall := sorted_arr.mp h
          rcases pickBy_mem better (rest.zip krest) x0 k0 with e | ⟨p, hp, e⟩
          · rw [e]; exact hall x0 (List.mem_cons_self ..)
          · rw [e]; exact hall p.1 (List.mem_cons_of_mem _ (List.of_mem_zip (show (p.1, p.2) ∈ rest.zip krest from hp)).1)
  · simp [errType] at hw

/-- `sort_by` permutes the elements of the array -/
theorem sortArrayBy_sd {f : Val → Res Val} {v w : Val} (h : Sorted v)
    (hw : sortArrayBy f v = .ok w) : Sorted w := by
  unfold sortArrayBy at hw
  split at hw
  · next t xs =>
    split at hw
    · cases hw; exact h
    · rw [widen_eq_ok] at hw
      simp only [Res.bind_eq_ok] at hw
      obtain ⟨ks, _, hw⟩ := hw
      split at hw
      · simp at hw
      · cases hw
        rw [sorted_arr]
        intro x hx
        simp only [sortByKeys] at hx
        obtain ⟨p, hp, rfl⟩ := List.mem_map.mp hx
        have := List.mem_mergeSort.mp hp
        exact sorted_arr.mp h p.1 (List.of_mem_zip (show (p.1, p.2) ∈ xs.zip ks from this)).1
  · simp [errType] at hw

/-! objects -/
theorem objInsert_sd {k : Bytes} {v : Val} (hv : Sorted v) : ∀ {acc : List (Bytes × Val)},
    (∀ k' x, (k', x) ∈ acc → Sorted x) → ∀ k' x, (k', x) ∈ objInsert k v acc → Sorted x
  | [], _ => by
    intro k' x hm
    simp only [objInsert, List.mem_singleton, Prod.mk.injEq] at hm
    obtain ⟨_, rfl⟩ := hm; exact hv
  | (k0, v0) :: rest, h => by
    intro k' x hm
    simp only [objInsert] at hm
    split at hm
    · rcases List.mem_cons.mp hm with e | hm
      · cases e; exact hv
      · exact h k' x (List.mem_cons_of_mem _ hm)
    · split at hm
      · rcases List.mem_cons.mp hm with e | hm
        · cases e; exact hv
        · exact h k' x hm
      · rcases List.mem_cons.mp hm with e | hm
        · cases e; exact h k0 v0 (List.mem_cons_self ..)
        · exact objInsert_sd hv (fun k'' x' hm' => h k'' x' (List.mem_cons_of_mem _ hm')) k' x hm
example : ∀ k x, (k, x) ∈ objInsert [0x61] (.obj []) [([0x62], .null)] → Sorted x :=
  objInsert_sd (by simp) (by simp)

/-- inserting all members of one object into another keeps the member values `Sorted` -/
theorem foldl_objInsert_sd : ∀ {kvs acc : List (Bytes × Val)}, (∀ k x, (k, x) ∈ kvs → Sorted x) →
    (∀ k x, (k, x) ∈ acc → Sorted x) →
    ∀ k x, (k, x) ∈ kvs.foldl (fun a kv => objInsert kv.1 kv.2 a) acc → Sorted x
  | [], acc, _, hacc => by simpa using hacc
  | (k0, v0) :: rest, acc, hk, hacc => by
    simp only [List.foldl_cons]
    exact foldl_objInsert_sd (fun k x hm => hk k x (List.mem_cons_of_mem _ hm))
      (objInsert_sd (hk k0 v0 (List.mem_cons_self ..)) hacc)

/-- the member values assembled by a multi-select hash are `Sorted` -/
theorem combineUnordered_sd {acc : Res (List (Bytes × Val))} {k : Bytes} {r : Res Val} {out : List (Bytes × Val)}
    (hacc : ∀ kvs, acc = .ok kvs → ∀ k x, (k, x) ∈ kvs → Sorted x) (hr : ∀ v, r = .ok v → Sorted v)
    (h : combineUnordered acc k r = .ok out) : ∀ k x, (k, x) ∈ out → Sorted x := by
  cases acc <;> cases r <;> simp [combineUnordered] at h
  subst h
  exact objInsert_sd (hr _ rfl) (hacc _ rfl)

/-! zip -/
theorem zipArgs_sd : ∀ {vs : List Val} {cols : List (List Val)}, (∀ v ∈ vs, Sorted v) → zipArgs vs = .ok cols →
    ∀ c ∈ cols, ∀ x ∈ c, Sorted x
  | [], cols, _, h => by simp [zipArgs] at h; subst h; simp
  | .arr t xs :: rest, cols, hv, h => by
    simp only [zipArgs, Res.bind_eq_ok] at h
    obtain ⟨cols', hc, h⟩ := h
    split at h
    · simp at h
    · simp only [Res.pure_eq, Res.ok.injEq] at h
      subst h
      have ih := zipArgs_sd (fun v hv' => hv v (List.mem_cons_of_mem _ hv')) hc
      intro c hc'
      rcases List.mem_cons.mp hc' with rfl | hc'
      · exact sorted_arr.mp (hv _ (List.mem_cons_self ..))
      · exact ih c hc'
  | .null :: _, _, _, h => by simp [zipArgs, errType] at h
  | .bool _ :: _, _, _, h => by simp [zipArgs, errType] at h
  | .str _ :: _, _, _, h => by simp [zipArgs, errType] at h
  | .num _ :: _, _, _, h => by simp [zipArgs, errType] at h
  | .obj _ :: _, _, _, h => by simp [zipArgs, errType] at h
  | .foreign _ :: _, _, _, h => by simp [zipArgs, errType] at h

/-- the rows of `zip` are arrays of elements of its arguments -/
theorem zipRows_sd : ∀ (n : Nat) {cols : List (List Val)}, (∀ c ∈ cols, ∀ x ∈ c, Sorted x) →
    ∀ y ∈ zipRows n cols, Sorted y
  | 0, _, _ => by simp [zipRows]
  | n + 1, cols, h => by
    intro y hy
    simp only [zipRows, List.mem_cons] at hy
    rcases hy with rfl | hy
    · rw [sorted_arr]
      intro x hx
      obtain ⟨c, hc, rfl⟩ := List.mem_map.mp hx
      cases c with
      | nil => simp
      | cons a c' => exact h _ hc a (List.mem_cons_self ..)
    · refine zipRows_sd n ?_ y hy
      intro c hc x hx
      obtain ⟨c0, hc0, rfl⟩ := List.mem_map.mp hc
      exact h c0 hc0 x (List.mem_of_mem_tail hx)


/-- an array of strings is `Sorted` -/
theorem strsToArr_sd (ss : List Bytes) : Sorted (strsToArr ss) := by
  unfold strsToArr
  rw [sorted_arr]
  intro x hx
  obtain ⟨s, _, rfl⟩ := List.mem_map.mp hx
  simp

/-- a rune index (a number or null) is `Sorted` -/
theorem runeIndexVal_sd (s : Bytes) (n : Nat) : Sorted (runeIndexVal s n) := by simp [runeIndexVal]

/-- a string is `Sorted` -/
theorem strVal_sd (s : String) : Sorted (strVal s) := by simp [strVal]

set_option hygiene false in
/-- (tactic) peel binds / matches off a hypothesis `hw : … = .ok w` and close the leaves -/
macro "sd_leaves" : tactic => `(tactic|
  (repeat' (first
     | (simp only [Res.bind_eq_ok, Res.pure_eq] at hw)
     | (obtain ⟨_, _, hw⟩ := hw)
     | (split at hw))
   all_goals (first
     | (simp [errType, errValue] at hw; done)
     | ((try simp only [Res.ok.injEq] at hw); (try subst hw);
        first | (simp; done) | (simp [sorted_arr]; done) | exact strsToArr_sd _ | exact runeIndexVal_sd _ _ | exact strVal_sd _ | assumption))))

/-- the result of `startsWith` is `Sorted` (a string, number, boolean, null, or an array of such) -/
theorem startsWith_sd {a b w : Val} (hw : startsWith a b = .ok w) : Sorted w := by
  unfold startsWith at hw; sd_leaves
/-- the result of `endsWith` is `Sorted` (a string, number, boolean, null, or an array of such) -/
theorem endsWith_sd {a b w : Val} (hw : endsWith a b = .ok w) : Sorted w := by
  unfold endsWith at hw; sd_leaves
/-- the result of `findFirst` is `Sorted` (a string, number, boolean, null, or an array of such) -/
theorem findFirst_sd {a b w : Val} (hw : findFirst a b = .ok w) : Sorted w := by
  unfold findFirst at hw; sd_leaves
/-- the result of `findLast` is `Sorted` (a string, number, boolean, null, or an array of such) -/
theorem findLast_sd {a b w : Val} (hw : findLast a b = .ok w) : Sorted w := by
  unfold findLast at hw; sd_leaves
/-- the result of `findFrom` is `Sorted` (a string, number, boolean, null, or an array of such) -/
theorem findFrom_sd {l : Bool} {a b c w : Val} (hw : findFrom l a b c = .ok w) : Sorted w := by
  unfold findFrom at hw; sd_leaves
/-- the result of `findBetween` is `Sorted` (a string, number, boolean, null, or an array of such) -/
theorem findBetween_sd {l : Bool} {a b c d w : Val} (hw : findBetween l a b c d = .ok w) : Sorted w := by
  unfold findBetween at hw; sd_leaves
/-- the result of `join` is `Sorted` (a string, number, boolean, null, or an array of such) -/
theorem join_sd {a b w : Val} (hw : join a b = .ok w) : Sorted w := by
  unfold join at hw; sd_leaves
/-- padding returns the original string or a new string -/
theorem padWith_sd {l : Bool} {s : Bytes} {n : Int} {p : Bytes} {orig w : Val} (ho : Sorted orig)
    (hw : padWith l s n p orig = .ok w) : Sorted w := by
  unfold padWith at hw; sd_leaves
/-- the result of `padLeft` is `Sorted` (a string, number, boolean, null, or an array of such) -/
theorem padLeft_sd {a b c w : Val} (ha : Sorted a) (hw : padLeft a b c = .ok w) : Sorted w := by
  unfold padLeft at hw
  simp only [Res.bind_eq_ok] at hw
  obtain ⟨_, _, _, _, _, _, hw⟩ := hw
  exact padWith_sd ha hw
/-- the result of `padRight` is `Sorted` (a string, number, boolean, null, or an array of such) -/
theorem padRight_sd {a b c w : Val} (ha : Sorted a) (hw : padRight a b c = .ok w) : Sorted w := by
  unfold padRight at hw
  simp only [Res.bind_eq_ok] at hw
  obtain ⟨_, _, _, _, _, _, hw⟩ := hw
  exact padWith_sd ha hw
/-- the result of `padSpaceLeft` is `Sorted` (a string, number, boolean, null, or an array of such) -/
theorem padSpaceLeft_sd {a b w : Val} (ha : Sorted a) (hw : padSpaceLeft a b = .ok w) : Sorted w := by
  unfold padSpaceLeft at hw
  simp only [Res.bind_eq_ok] at hw
  obtain ⟨_, _, _, _, hw⟩ := hw
  exact padWith_sd ha hw
/-- the result of `padSpaceRight` is `Sorted` (a string, number, boolean, null, or an array of such) -/
theorem padSpaceRight_sd {a b w : Val} (ha : Sorted a) (hw : padSpaceRight a b = .ok w) : Sorted w := by
  unfold padSpaceRight at hw
  simp only [Res.bind_eq_ok] at hw
  obtain ⟨_, _, _, _, hw⟩ := hw
  exact padWith_sd ha hw
/-- the result of `replace` is `Sorted` (a string, number, boolean, null, or an array of such) -/
theorem replace_sd {a b c w : Val} (hw : replace a b c = .ok w) : Sorted w := by
  unfold replace at hw; sd_leaves
/-- the result of `replaceCount` is `Sorted` (a string, number, boolean, null, or an array of such) -/
theorem replaceCount_sd {a b c d w : Val} (hw : replaceCount a b c d = .ok w) : Sorted w := by
  unfold replaceCount at hw; sd_leaves
/-- the result of `split` is `Sorted` (a string, number, boolean, null, or an array of such) -/
theorem split_sd {a b w : Val} (hw : split a b = .ok w) : Sorted w := by
  unfold split at hw; sd_leaves
/-- the result of `splitCount` is `Sorted` (a string, number, boolean, null, or an array of such) -/
theorem splitCount_sd {a b c w : Val} (hw : splitCount a b c = .ok w) : Sorted w := by
  unfold splitCount at hw; sd_leaves
/-- the result of `trim` is `Sorted` (a string, number, boolean, null, or an array of such) -/
theorem trim_sd {a b w : Val} (hw : trim a b = .ok w) : Sorted w := by
  unfold trim at hw; sd_leaves
/-- the result of `trimLeft` is `Sorted` (a string, number, boolean, null, or an array of such) -/
theorem trimLeft_sd {a b w : Val} (hw : trimLeft a b = .ok w) : Sorted w := by
  unfold trimLeft at hw; sd_leaves
/-- the result of `trimRight` is `Sorted` (a string, number, boolean, null, or an array of such) -/
theorem trimRight_sd {a b w : Val} (hw : trimRight a b = .ok w) : Sorted w := by
  unfold trimRight at hw; sd_leaves
/-- the result of `trimSpace` is `Sorted` (a string, number, boolean, null, or an array of such) -/
theorem trimSpace_sd {a w : Val} (hw : trimSpace a = .ok w) : Sorted w := by
  unfold trimSpace at hw; sd_leaves
/-- the result of `trimSpaceLeft` is `Sorted` (a string, number, boolean, null, or an array of such) -/
theorem trimSpaceLeft_sd {a w : Val} (hw : trimSpaceLeft a = .ok w) : Sorted w := by
  unfold trimSpaceLeft at hw; sd_leaves
/-- the result of `trimSpaceRight` is `Sorted` (a string, number, boolean, null, or an array of such) -/
theorem trimSpaceRight_sd {a w : Val} (hw : trimSpaceRight a = .ok w) : Sorted w := by
  unfold trimSpaceRight at hw; sd_leaves
/-- the result of `caseMap` is `Sorted` (a string, number, boolean, null, or an array of such) -/
theorem caseMap_sd {f : Nat → Option Nat} {s : Bytes} {w : Val} (hw : caseMap f s = .ok w) : Sorted w := by
  unfold caseMap at hw; sd_leaves
/-- the result of `lower` is `Sorted` (a string, number, boolean, null, or an array of such) -/
theorem lower_sd {a w : Val} (hw : lower a = .ok w) : Sorted w := by
  unfold lower at hw
  split at hw
  · exact caseMap_sd hw
  · simp [errType] at hw
/-- the result of `upper` is `Sorted` (a string, number, boolean, null, or an array of such) -/
theorem upper_sd {a w : Val} (hw : upper a = .ok w) : Sorted w := by
  unfold upper at hw
  split at hw
  · exact caseMap_sd hw
  · simp [errType] at hw
/-- the result of `length` is `Sorted` (a string, number, boolean, null, or an array of such) -/
theorem length_sd {a w : Val} (hw : length a = .ok w) : Sorted w := by
  unfold length at hw; sd_leaves
/-- the result of `typeName` is `Sorted` (a string, number, boolean, null, or an array of such) -/
theorem typeName_sd {a w : Val} (hw : typeName a = .ok w) : Sorted w := by
  unfold typeName at hw; sd_leaves
/-- the result of `toStringV` is `Sorted` (a string, number, boolean, null, or an array of such) -/
theorem toStringV_sd {a w : Val} (hw : toStringV a = .ok w) : Sorted w := by
  unfold toStringV at hw; sd_leaves
/-- the result of `contains` is `Sorted` (a string, number, boolean, null, or an array of such) -/
theorem contains_sd {a b w : Val} (hw : contains a b = .ok w) : Sorted w := by
  unfold contains at hw; sd_leaves
/-- `keys` returns an array of strings -/
theorem keys_sd {a w : Val} (hw : keys a = .ok w) : Sorted w := by
  unfold keys at hw
  split at hw
  · cases hw
    rw [sorted_arr]; intro x hx
    obtain ⟨_, _, rfl⟩ := List.mem_map.mp hx; simp
  · simp [errType] at hw


/-- `values` returns the member values of a `Sorted` object -/
theorem values_sd {a w : Val} (h : Sorted a) (hw : values a = .ok w) : Sorted w := by
  unfold values at hw
  split at hw
  · cases hw
    rw [sorted_arr]; intro x hx
    obtain ⟨⟨k, x'⟩, hm, rfl⟩ := List.mem_map.mp hx
    exact (sorted_obj.mp h).2 k x' hm
  · simp [errType] at hw

/-- `items` returns the `[key, value]` pairs of a `Sorted` object -/
theorem items_sd {a w : Val} (h : Sorted a) (hw : items a = .ok w) : Sorted w := by
  unfold items at hw
  split at hw
  · cases hw
    rw [sorted_arr]; intro x hx
    obtain ⟨⟨k, x'⟩, hm, rfl⟩ := List.mem_map.mp hx
    rw [sorted_arr]; intro y hy
    simp only [List.mem_cons, List.not_mem_nil, or_false] at hy
    rcases hy with hy | hy
    · subst hy; simp
    · subst hy; exact (sorted_obj.mp h).2 k _ hm
  · simp [errType] at hw
example : ∀ w, items (.obj [([0x61], .obj [])]) = .ok w → Sorted w :=
  fun _ h => items_sd (by simp [sorted_obj, KeySorted]) h

/-- the loop of `from_items` keeps the member values `Sorted` -/
theorem fromItemsLoop_sd : ∀ {xs : List Val} {acc r : List (Bytes × Val)}, (∀ x ∈ xs, Sorted x) →
    (∀ k x, (k, x) ∈ acc → Sorted x) → fromItemsLoop xs acc = .ok r → ∀ k x, (k, x) ∈ r → Sorted x
  | [], acc, r, _, hacc, h => by simp [fromItemsLoop] at h; subst h; exact hacc
  | .arr t ia :: xs, acc, r, hx, hacc, h => by
    have hx' : ∀ y ∈ xs, Sorted y := fun y hy => hx y (List.mem_cons_of_mem _ hy)
    have h0 := hx _ (List.mem_cons_self ..)
    simp only [fromItemsLoop] at h
    split at h
    · next k v =>
      split at h
      · simp at h
      · split at h
        · next s =>
          have hv : Sorted v := sorted_arr.mp h0 v (by simp)
          exact fromItemsLoop_sd hx' (objInsert_sd hv hacc) h
        · simp [errValue] at h
    · simp [errValue] at h
  | .null :: _, _, _, _, _, h => by simp [fromItemsLoop, errType] at h
  | .bool _ :: _, _, _, _, _, h => by simp [fromItemsLoop, errType] at h
  | .str _ :: _, _, _, _, _, h => by simp [fromItemsLoop, errType] at h
  | .num _ :: _, _, _, _, _, h => by simp [fromItemsLoop, errType] at h
  | .obj _ :: _, _, _, _, _, h => by simp [fromItemsLoop, errType] at h
  | .foreign _ :: _, _, _, _, _, h => by simp [fromItemsLoop, errType] at h

/-- the loop of `from_items` keeps its accumulator key-sorted: it only ever uses `objInsert` -/
theorem fromItemsLoop_ks : ∀ {xs : List Val} {acc r : List (Bytes × Val)}, KeySorted acc →
    fromItemsLoop xs acc = .ok r → KeySorted r
  | [], acc, r, hacc, h => by simp [fromItemsLoop] at h; subst h; exact hacc
  | .arr t ia :: xs, acc, r, hacc, h => by
    simp only [fromItemsLoop] at h
    split at h
    · next k v =>
      split at h
      · simp at h
      · split at h
        · exact fromItemsLoop_ks (KeySorted_objInsert _ _ hacc) h
        · simp [errValue] at h
    · simp [errValue] at h
  | .null :: _, _, _, _, h => by simp [fromItemsLoop, errType] at h
  | .bool _ :: _, _, _, _, h => by simp [fromItemsLoop, errType] at h
  | .str _ :: _, _, _, _, h => by simp [fromItemsLoop, errType] at h
  | .num _ :: _, _, _, _, h => by simp [fromItemsLoop, errType] at h
  | .obj _ :: _, _, _, _, h => by simp [fromItemsLoop, errType] at h
  | .foreign _ :: _, _, _, _, h => by simp [fromItemsLoop, errType] at h

/-- **`from_items` builds a `Sorted` object**: members are added with `objInsert` -/
theorem fromItems_sd {a w : Val} (h : Sorted a) (hw : fromItems a = .ok w) : Sorted w := by
  unfold fromItems at hw
  split at hw
  · next t xs =>
    split at hw
    · next kvs hl =>
      split at hw
      · simp at hw
      · cases hw
        exact sorted_obj.mpr ⟨fromItemsLoop_ks List.Pairwise.nil hl, fromItemsLoop_sd (sorted_arr.mp h) (by simp) hl⟩
    · split at hw <;> simp at hw
    · simp at hw
    · simp at hw
    · simp at hw
  · simp [errType] at hw
/-- `from_items([["b", 1], ["a", 2], ["b", 3]])`: key order, last wins -/
example : fromItems (.arr .plain [.arr .plain [.str [0x62], .bool true], .arr .plain [.str [0x61], .null],
      .arr .plain [.str [0x62], .bool false]]) = .ok (.obj [([0x61], .null), ([0x62], .bool false)]) := rfl
example : ∀ w, fromItems (.arr .plain [.arr .plain [.str [0x62], .bool true], .arr .plain [.str [0x61], .null]]) = .ok w →
    Sorted w := fun _ h => fromItems_sd (by simp [sorted_arr]) h

/-- `reverse` permutes the elements (or returns a string) -/
theorem reverse_sd {a w : Val} (h : Sorted a) (hw : reverse a = .ok w) : Sorted w := by
  unfold reverse at hw
  split at hw
  · cases hw; simp
  · cases hw
    rw [sorted_arr]; intro x hx
    exact sorted_arr.mp h x (List.mem_reverse.mp hx)
  · simp [errType] at hw

/-- `to_array` returns the array itself or a one-element array -/
theorem toArray_sd {a : Val} (h : Sorted a) : Sorted (toArray a) := by
  unfold toArray
  split
  · exact h
  · rw [sorted_arr]; intro x hx; simp at hx; subst hx; exact h
example : Sorted (toArray (.obj [])) := toArray_sd (by simp)

/-- `sort` permutes the elements of the array -/
theorem sortArray_sd {a w : Val} (h : Sorted a) (hw : sortArray a = .ok w) : Sorted w := by
  unfold sortArray at hw
  split at hw
  · next t xs =>
    split at hw
    · cases hw; exact h
    · split at hw
      · cases hw
        rw [sorted_arr]; intro x hx
        obtain ⟨_, _, rfl⟩ := List.mem_map.mp hx; simp
      · simp [errType] at hw
    · split at hw
      · next ds _ =>
        simp only at hw
        split at hw
        · simp at hw
        · cases hw
          rw [sorted_arr]; intro x hx
          obtain ⟨p, hp, rfl⟩ := List.mem_map.mp hx
          have := List.mem_mergeSort.mp hp
          exact sorted_arr.mp h p.1 (List.of_mem_zip (show (p.1, p.2) ∈ xs.zip ds from this)).1
      · simp [errType] at hw
  · simp [errType] at hw


/-! numbers: the results are numbers (or null), trivially `Sorted` -/
theorem checkD_sd {r : Dec} {w : Val} (hw : checkD r = .ok w) : Sorted w := by
  unfold checkD at hw; sd_leaves
/-- the result of `checkF` is `Sorted` (a string, number, boolean, null, or an array of such) -/
theorem checkF_sd {r : F64} {w : Val} (hw : checkF r = .ok w) : Sorted w := by
  unfold checkF at hw; sd_leaves
/-- the result of `arith` is `Sorted` (a string, number, boolean, null, or an array of such) -/
theorem arith_sd {fop : F64 → F64 → F64} {dop : Dec → Dec → Dec} {x y w : Val}
    (hw : arith fop dop x y = .ok w) : Sorted w := by
  unfold arith at hw
  split at hw
  · exact checkF_sd hw
  · split at hw
    · simp [errType] at hw
    · split at hw
      · simp [errType] at hw
      · exact checkD_sd hw
/-- the result of `numAbs` is `Sorted` (a string, number, boolean, null, or an array of such) -/
theorem numAbs_sd {x w : Val} (hw : numAbs x = .ok w) : Sorted w := by
  unfold numAbs at hw; sd_leaves
/-- the result of `numCeil` is `Sorted` (a string, number, boolean, null, or an array of such) -/
theorem numCeil_sd {x w : Val} (hw : numCeil x = .ok w) : Sorted w := by
  unfold numCeil at hw; sd_leaves
/-- the result of `numFloor` is `Sorted` (a string, number, boolean, null, or an array of such) -/
theorem numFloor_sd {x w : Val} (hw : numFloor x = .ok w) : Sorted w := by
  unfold numFloor at hw; sd_leaves
/-- the result of `negateVal` is `Sorted` (a string, number, boolean, null, or an array of such) -/
theorem negateVal_sd (x : Val) : Sorted (negateVal x) := by
  unfold negateVal
  split
  · simp
  · split
    · simp
    · split <;> simp
/-- the result of `numSum` is `Sorted` (a string, number, boolean, null, or an array of such) -/
theorem numSum_sd {x w : Val} (hw : numSum x = .ok w) : Sorted w := by
  unfold numSum at hw
  split at hw
  · split at hw
    · simp [errType] at hw
    · split at hw
      · exact checkD_sd hw
      · simp at hw
  · simp [errType] at hw
/-- the result of `numAvg` is `Sorted` (a string, number, boolean, null, or an array of such) -/
theorem numAvg_sd {x w : Val} (hw : numAvg x = .ok w) : Sorted w := by
  unfold numAvg at hw
  split at hw
  · split at hw
    · cases hw; simp
    · split at hw
      · simp [errType] at hw
      · split at hw
        · exact checkD_sd hw
        · simp at hw
  · simp [errType] at hw
/-- the result of `toNumber` is `Sorted` (a string, number, boolean, null, or an array of such) -/
theorem toNumber_sd (x : Val) : Sorted (toNumber x) := by
  unfold toNumber
  split
  · simp
  · split
    · split <;> simp
    · simp
  · simp
/-- the result of `arrayMax` is `Sorted` (a string, number, boolean, null, or an array of such) -/
theorem arrayMax_sd {x w : Val} (hw : arrayMax x = .ok w) : Sorted w := by
  unfold arrayMax at hw; sd_leaves
/-- the result of `arrayMin` is `Sorted` (a string, number, boolean, null, or an array of such) -/
theorem arrayMin_sd {x w : Val} (hw : arrayMin x = .ok w) : Sorted w := by
  unfold arrayMin at hw; sd_leaves

/-- comparisons give booleans (or null), arithmetic gives numbers: always `Sorted` -/
theorem applyBinOp_sd {op : BinOp} {x y v : Val} (h : applyBinOp op x y = .ok v) : Sorted v := by
  cases op
  case eq | ne =>
    simp only [applyBinOp, Res.bind_eq_ok, Res.pure_eq, Res.ok.injEq] at h
    obtain ⟨_, _, rfl⟩ := h; simp
  case lt | le | gt | ge =>
    simp only [applyBinOp, less, lessOrEqual, greater, greaterOrEqual, cmpOp, Res.ok.injEq] at h
    subst h
    split
    · simp
    · split <;> simp
  all_goals exact arith_sd h
example : ∀ v, applyBinOp .eq (.obj []) .null = .ok v → Sorted v := fun _ h => applyBinOp_sd h

/-- **every builtin function of the function table maps `Sorted` arguments to a `Sorted` result** -/
theorem applyFn_sd {f : Fn} {args : List Val} {w : Val} (ha : ∀ a ∈ args, Sorted a) (hw : applyFn f args = .ok w) :
    Sorted w := by
  have h0 : ∀ {a : Val} {l : List Val}, args = a :: l → Sorted a := fun e => ha _ (e ▸ List.mem_cons_self ..)
  unfold applyFn at hw
  split at hw
  · exact numAbs_sd hw
  · exact numAvg_sd hw
  · exact numCeil_sd hw
  · exact contains_sd hw
  · exact endsWith_sd hw
  · exact findFirst_sd hw
  · exact findBetween_sd hw
  · exact findFrom_sd hw
  · exact findLast_sd hw
  · exact findBetween_sd hw
  · exact findFrom_sd hw
  · exact numFloor_sd hw
  · exact fromItems_sd (h0 rfl) hw
  · exact items_sd (h0 rfl) hw
  · exact join_sd hw
  · exact keys_sd hw
  · exact length_sd hw
  · exact lower_sd hw
  · exact arrayMax_sd hw
  · exact arrayMin_sd hw
  · exact padLeft_sd (h0 rfl) hw
  · exact padRight_sd (h0 rfl) hw
  · exact padSpaceLeft_sd (h0 rfl) hw
  · exact padSpaceRight_sd (h0 rfl) hw
  · exact replace_sd hw
  · exact replaceCount_sd hw
  · exact reverse_sd (h0 rfl) hw
  · exact sortArray_sd (h0 rfl) hw
  · exact split_sd hw
  · exact splitCount_sd hw
  · exact startsWith_sd hw
  · exact numSum_sd hw
  · cases hw; exact toArray_sd (h0 rfl)
  · cases hw; exact toNumber_sd _
  · exact toStringV_sd hw
  · exact trim_sd hw
  · exact trimLeft_sd hw
  · exact trimRight_sd hw
  · exact trimSpace_sd hw
  · exact trimSpaceLeft_sd hw
  · exact trimSpaceRight_sd hw
  · exact typeName_sd hw
  · exact upper_sd hw
  · exact values_sd (h0 rfl) hw
  · simp at hw
example : ∀ w, applyFn .values [.obj [([0x61], .obj [])]] = .ok w → Sorted w :=
  fun _ h => applyFn_sd (by simp [sorted_obj, KeySorted]) h
example : ∀ w, applyFn .toArray [.obj [([0x61], .obj [])]] = .ok w → Sorted w :=
  fun _ h => applyFn_sd (by simp [sorted_obj, KeySorted]) h

/-! ## objects that are BUILT: the accumulator invariant -/

/-- the member list of a `Sorted` object: strictly increasing keys, `Sorted` member values -/
def ObjSD (kvs : List (Bytes × Val)) : Prop := KeySorted kvs ∧ ∀ k x, (k, x) ∈ kvs → Sorted x

/-- `ObjSD` is exactly `Sorted` of the object -/
theorem objSD_iff {kvs : List (Bytes × Val)} : ObjSD kvs ↔ Sorted (.obj kvs) := sorted_obj.symm

/-- the result of `objSD_nil` is `Sorted` (a string, number, boolean, null, or an array of such) -/
theorem objSD_nil : ObjSD [] := ⟨List.Pairwise.nil, by simp⟩

/-- **`objInsert`** (the only way the evaluator and the decoder add a member to an object) keeps the invariant -/
theorem objInsert_objSD {k : Bytes} {v : Val} (hv : Sorted v) {acc : List (Bytes × Val)} (h : ObjSD acc) :
    ObjSD (objInsert k v acc) :=
  ⟨KeySorted_objInsert k v h.1, objInsert_sd hv h.2⟩

example : ObjSD (objInsert [0x61] .null [([0x62], .null)]) := objInsert_objSD (by simp) ⟨by simp [KeySorted], by simp⟩

/-- `merge`'s inner loop: inserting all the members of one argument (whose own order is irrelevant) -/
theorem foldl_objInsert_objSD {kvs acc : List (Bytes × Val)} (hk : ∀ k x, (k, x) ∈ kvs → Sorted x)
    (h : ObjSD acc) : ObjSD (kvs.foldl (fun a kv => objInsert kv.1 kv.2 a) acc) :=
  ⟨keySorted_foldInsert kvs acc h.1, foldl_objInsert_sd hk h.2⟩

example : ObjSD ([(([0x62] : Bytes), Val.null), ([0x61], .null)].foldl (fun a kv => objInsert kv.1 kv.2 a) []) :=
  foldl_objInsert_objSD (by rintro k x h; simp at h; rcases h with ⟨_, rfl⟩ | ⟨_, rfl⟩ <;> simp) objSD_nil

/-- a multi-select hash / a `let` assembles its members with `objInsert` -/
theorem combineUnordered_objSD {acc : Res (List (Bytes × Val))} {k : Bytes} {r : Res Val} {out : List (Bytes × Val)}
    (hacc : ∀ kvs, acc = .ok kvs → ObjSD kvs) (hr : ∀ v, r = .ok v → Sorted v)
    (h : combineUnordered acc k r = .ok out) : ObjSD out := by
  obtain ⟨kvs, v, rfl, rfl, rfl⟩ := (combineUnordered_ok_iff _ _ _ _).mp h
  exact objInsert_objSD (hr _ rfl) (hacc _ rfl)

example : ∀ out, combineUnordered (.ok [([0x62], .null)]) [0x61] (.ok .null) = .ok out → ObjSD out :=
  fun _ h => combineUnordered_objSD (fun _ e => by cases e; exact ⟨by simp [KeySorted], by simp⟩)
    (fun _ e => by cases e; simp) h

end Jmes.C18CS
