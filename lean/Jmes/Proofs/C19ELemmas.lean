/-
  Helpers for C19E: which sub-evaluations does ONE RUN of the evaluator start, and where does its error come from?

  The run semantics is `ievalO π` (Proofs/C15BOracle.lean): the evaluator with Go's map iteration orders given by the
  oracle `π`; it has no `widen`, nothing is tagged `enum`, and the first failure met is the outcome.

  Part 1: configurations `Cfg` (oracle, node, current value, scope), the one-step relation `Sub` ("evaluating `c`
          starts the evaluation of `c'` — in this run"), its closure `Evaluated`.
          `Sub` has 18 constructors.  The only premises that mention the evaluator say that a sub-evaluation which was
          started EARLIER IN THE SAME RUN returned a value (`Cfg.Yields`): the left operand before the right one, the
          earlier arguments before a later one, the earlier elements of a loop before a later one, the members that the
          run's order puts first before a later member.
  Part 2: the loops of the run (`mapPruneO`, `mapAllO`, `filterLoopO`, `filterMapPruneO`, `keysOfO`, `groupLoopO`),
          member lists and `firstFailure`: forward and inversion lemmas.
  Part 3: `Sub.fails`: the failure of a started sub-evaluation IS the failure of the run (forward).
  Part 4: `blame`: an undefined-variable category in the error of a run comes from a started evaluation of a
          reference without a binding (backward), by mutual structural recursion.
-/
import Jmes.Proofs.C19CLemmas
import Jmes.Proofs.C15BOracle
import Jmes.Proofs.C15CErrLoops
namespace Jmes.C19E
open Jmes
open Jmes.C19C (bind_err_cases bind_ok_cases)

/-! ## Part 1: configurations, `Sub`, `Evaluated` -/

/-- one evaluation in a run: `evaluate(n, cur, env)` with the iteration orders `π` -/
structure Cfg where
  π : Oracle
  n : INode
  cur : Val
  env : Env

/-- its outcome -/
def Cfg.out (root : Val) (c : Cfg) : Res Val := ievalO c.π root c.n c.cur c.env

/-- it returns the value `a` -/
abbrev Cfg.Yields (root : Val) (c : Cfg) (a : Val) : Prop := c.out root = .ok a

/-- the sub-expression that every node of this kind evaluates FIRST, on its own current value and in its own scope
    (the left operand; the operand of a unary operator; the expression a projection, filter, index, slice, multi-select
    or `sort_by`/`map`/… is applied to) -/
def headOf : INode → Option INode
  | .binop _ l _ | .and l _ | .or l _ | .not l | .negate l | .assertNumber l
  | .filter l _ | .filterAndProject l _ _ | .flatten l | .flattenAndProject l _ | .index l _ | .objectValues l
  | .pipe l _ | .projectArray l _ | .projectObject l _ | .pruneArray l | .selectArray l _ | .selectArraySingle l _
  | .selectObject l _ | .selectObjectSingle l _ _ | .slice l _ _ | .sliceStep l _ _ _ | .groupBy l _ | .map _ l
  | .maxBy l _ | .minBy l _ | .sortBy l _ => some l
  | _ => none

/-- **the value a node works on** once its first sub-expression is evaluated: the value of that sub-expression, or —
    for the forms written without one (`[*]`, `[?…]`, `[…]`, `{…}` … at the start of a right-hand side; Go has a
    separate `…Current` node type for each) — the current value itself -/
def Subject (root : Val) (c : Cfg) (a : Val) : Prop :=
  match headOf c.n with
  | some l => Cfg.Yields root ⟨c.π.sub 0, l, c.cur, c.env⟩ a
  | none => a = c.cur

/-- the loops that evaluate one sub-expression on every element -/
inductive LoopKind where
  /-- `l[*] r`, `l[a:b] r` -/
  | proj
  /-- `l[] r` -/
  | flat
  /-- `l.* r` -/
  | obj
  /-- `l[?f]` -/
  | filt
  /-- `map(&e, l)` -/
  | mapE
  /-- `sort_by(l, &e)`, `max_by`, `min_by` -/
  | keys
  /-- `group_by(l, &e)` -/
  | group

/-- the loop of a node and the sub-expression it evaluates on the elements -/
def loopOf : INode → Option (LoopKind × INode)
  | .projectArray _ r | .projectArrayCurrent r => some (.proj, r)
  | .flattenAndProject _ r | .flattenAndProjectCurrent r => some (.flat, r)
  | .projectObject _ r | .projectObjectCurrent r => some (.obj, r)
  | .filter _ f | .filterCurrent f => some (.filt, f)
  | .map e _ => some (.mapE, e)
  | .sortBy _ e | .maxBy _ e | .minBy _ e => some (.keys, e)
  | .groupBy _ e => some (.group, e)
  | _ => none

/-- the elements the loop ranges over, in the order of this run: the elements of an array; for `[]` the array
    flattened one level; for `.*` the member values of an object in the order the oracle gives at this point.
    Anything else: no elements. -/
def LoopKind.elems (π : Oracle) : LoopKind → Val → List Val
  | .obj, .obj kvs => ((π.sub 1).members kvs).map Prod.snd
  | .obj, _ => []
  | .flat, .arr _ xs => flattenForProject xs
  | _, .arr _ xs => xs
  | _, _ => []

/-- where the sub-oracles of the elements start (`.*` uses one more for the member order) -/
def LoopKind.off : LoopKind → Nat
  | .obj => 2
  | _ => 1

/-- the sub-expression returns a value on every element of `pre` (element `j` runs with the sub-oracle `i + j`) -/
def AllOkO (g : Nat → Val → Res Val) : Nat → List Val → Prop
  | _, [] => True
  | i, x :: xs => (∃ v, g i x = .ok v) ∧ AllOkO g (i + 1) xs

/-- … a string on every element of `pre` (`group_by` stops at the first key that is not a string) -/
def AllStrO (g : Nat → Val → Res Val) : Nat → List Val → Prop
  | _, [] => True
  | i, x :: xs => (∃ s, g i x = .ok (.str s)) ∧ AllStrO g (i + 1) xs

/-- filter projection: on every element of `pre` the predicate returns a value and, where that value is true, so does
    the right-hand side -/
def AllOkO2 (c f : Nat → Val → Res Val) : Nat → List Val → Prop
  | _, [] => True
  | i, x :: xs => (∃ b, c i x = .ok b ∧ (isTrue b = true → ∃ v, f i x = .ok v)) ∧ AllOkO2 c f (i + 1) xs

theorem allOkO_iff (g : Nat → Val → Res Val) : ∀ (i : Nat) (pre : List Val),
    AllOkO g i pre ↔ ∀ (j : Nat) (h : j < pre.length), ∃ v, g (i + j) pre[j] = .ok v
  | _, [] => by simp [AllOkO]
  | i, x :: xs => by
    simp only [AllOkO, allOkO_iff g (i + 1) xs]
    constructor
    · rintro ⟨h0, h1⟩ j hj
      cases j with
      | zero => exact h0
      | succ j =>
        have := h1 j (by simpa using hj)
        simpa [Nat.add_assoc, Nat.add_comm 1 j] using this
    · intro h
      refine ⟨h 0 (Nat.zero_lt_succ _), fun j hj => ?_⟩
      have := h (j + 1) (by simpa using hj)
      simpa [Nat.add_assoc, Nat.add_comm 1 j] using this

/-- what the loop needs of the elements before the one it is at: the sub-expression evaluated on each of them (and
    returned a key of the right type for `sort_by`/`max_by`/`min_by`, a string for `group_by`) -/
def LoopKind.okPre : LoopKind → (Nat → Val → Res Val) → List Val → Prop
  | .keys, g, pre => ∃ ks, keysOfO g pre = .ok ks
  | .group, g, pre => AllStrO g 0 pre
  | _, g, pre => AllOkO g 0 pre

/-- the predicate and the right-hand side of a filter projection `l[?f] r` -/
def fapOf : INode → Option (INode × INode)
  | .filterAndProject _ f r | .filterAndProjectCurrent f r => some (f, r)
  | _ => none

/-- the member of a one-member multi-select (Go has four node types for them) -/
def singleOf : INode → Option INode
  | .selectArraySingle _ f | .selectObjectSingle _ _ f | .selectArraySingleCurrent f
  | .selectObjectSingleCurrent _ f => some f
  | _ => none

/-- the members of a multi-select list -/
def listOf : INode → Option (List INode)
  | .selectArray _ fs | .selectArrayCurrent fs => some fs
  | _ => none

/-- the members of a multi-select hash -/
def hashOf : INode → Option (List (Bytes × INode))
  | .selectObject _ fs | .selectObjectCurrent fs => some fs
  | _ => none

/-- **`SeqAt root P π ns cur env c`**: `c` is the evaluation of a member of the list `ns` (arguments of a function,
    members of a multi-select list) which are evaluated one after the other on `cur`; every member before it returned a
    value that lets the loop go on (`P`: any value for arguments and list members; an object for `merge`; `null` for
    `not_null`; an array for `zip`) -/
inductive SeqAt (root : Val) (P : Val → Prop) : Oracle → List INode → Val → Env → Cfg → Prop
  | here {π n ns cur env} : SeqAt root P π (n :: ns) cur env ⟨π.sub 0, n, cur, env⟩
  | next {π n ns cur env v c} : Cfg.Yields root ⟨π.sub 0, n, cur, env⟩ v → P v → SeqAt root P (π.sub 1) ns cur env c →
      SeqAt root P π (n :: ns) cur env c

/-- **`MemAt π fs cur env k c`**: `c` is the evaluation of the member written under the key `k` in the member list
    `fs` of a multi-select hash or a `let` (all of them on `cur`, in the scope `env`) -/
inductive MemAt : Oracle → List (Bytes × INode) → Val → Env → Bytes → Cfg → Prop
  | here {π k n rest cur env} : MemAt π ((k, n) :: rest) cur env k ⟨π.sub 0, n, cur, env⟩
  | next {π kn rest cur env k c} : MemAt (π.sub 1) rest cur env k c → MemAt π (kn :: rest) cur env k c

/-- **`RunsFirst root os k c`**: in the order `os` in which this run goes through the members (key, outcome), the member
    `k` with the outcome of `c` comes at a point where every member before it has returned a value -/
def RunsFirst (root : Val) (os : List (Bytes × Res Val)) (k : Bytes) (c : Cfg) : Prop :=
  ∃ pre post, os = pre ++ (k, c.out root) :: post ∧ ∀ p ∈ pre, ∃ v, p.2 = .ok v

/-- **`Sub root c c'`: in this run, evaluating `c` starts the evaluation `c'`** (one level down).  The scope `env` is
    handed down unchanged everywhere except into the body of a `let`. -/
inductive Sub (root : Val) : Cfg → Cfg → Prop
  /-- the first sub-expression: always evaluated, on the same value, in the same scope -/
  | head {π n cur env l} : headOf n = some l → Sub root ⟨π, n, cur, env⟩ ⟨π.sub 0, l, cur, env⟩
  /-- the right operand of an arithmetic / comparison operator, once the left one has a value -/
  | binopR {π op l r cur env a} : Cfg.Yields root ⟨π.sub 0, l, cur, env⟩ a →
      Sub root ⟨π, .binop op l r, cur, env⟩ ⟨π.sub 1, r, cur, env⟩
  /-- `l && r`: `r` when `l` is true -/
  | andR {π l r cur env a} : Cfg.Yields root ⟨π.sub 0, l, cur, env⟩ a → isTrue a = true →
      Sub root ⟨π, .and l r, cur, env⟩ ⟨π.sub 1, r, cur, env⟩
  /-- `l || r`: `r` when `l` is false -/
  | orR {π l r cur env a} : Cfg.Yields root ⟨π.sub 0, l, cur, env⟩ a → isTrue a = false →
      Sub root ⟨π, .or l r, cur, env⟩ ⟨π.sub 1, r, cur, env⟩
  /-- `l | r`: `r` on the value of `l` -/
  | pipeR {π l r cur env a} : Cfg.Yields root ⟨π.sub 0, l, cur, env⟩ a →
      Sub root ⟨π, .pipe l r, cur, env⟩ ⟨π.sub 1, r, a, env⟩
  /-- a slice of a string is handed to the right-hand side as a whole -/
  | projStr {π l r cur env s} : Cfg.Yields root ⟨π.sub 0, l, cur, env⟩ (.str s) → l.isSlice = true →
      Sub root ⟨π, .projectArray l r, cur, env⟩ ⟨π.sub 1, r, .str s, env⟩
  /-- the one-member forms `l.[e]`, `l.{k: e}`: the member, on the value of `l` when it is not null; written without a
      left operand (`[e]`, `{k: e}`): on the current value whatever it is (known finding KF10) -/
  | single {π n cur env a f} : singleOf n = some f → Subject root ⟨π, n, cur, env⟩ a →
      (headOf n ≠ none → a.isNull = false) → Sub root ⟨π, n, cur, env⟩ ⟨π.sub 1, f, a, env⟩
  /-- an argument of an eager builtin -/
  | callArg {π f args cur env c} : SeqAt root (fun _ => True) (π.sub 0) args cur env c →
      Sub root ⟨π, .call f args, cur, env⟩ c
  /-- a member of a multi-select list, on a non-null value -/
  | listMem {π n cur env a fs c} : listOf n = some fs → Subject root ⟨π, n, cur, env⟩ a → a.isNull = false →
      SeqAt root (fun _ => True) (π.sub 1) fs a env c → Sub root ⟨π, n, cur, env⟩ c
  /-- an argument of `merge`: the earlier ones are objects -/
  | mergeArg {π args cur env c} : SeqAt root (fun v => ∃ kvs, v = .obj kvs) π args cur env c →
      Sub root ⟨π, .merge args, cur, env⟩ c
  /-- an argument of `not_null`: the earlier ones are null -/
  | notNullArg {π args cur env c} : SeqAt root (fun v => v.isNull = true) π args cur env c →
      Sub root ⟨π, .notNull args, cur, env⟩ c
  /-- an argument of `zip`: the earlier ones are arrays -/
  | zipArg {π args cur env c} : SeqAt root (fun v => ∃ t xs, v = .arr t xs) π args cur env c →
      Sub root ⟨π, .zip args, cur, env⟩ c
  /-- a binding expression of a `let`: on the let's current value, in the let's OWN scope, when the run gets to it -/
  | letBind {π vars child cur env k c} : MemAt (π.sub 1) vars cur env k c →
      RunsFirst root ((π.sub 0).order (ievalMembersO (π.sub 1) root vars cur env)) k c →
      Sub root ⟨π, .defineVariables vars child, cur, env⟩ c
  /-- the body of a `let`: on the same value, in the scope extended by the bindings `bs` -/
  | letBody {π vars child cur env bs} :
      firstFailure ((π.sub 0).order (ievalMembersO (π.sub 1) root vars cur env)) [] = .ok bs →
      Sub root ⟨π, .defineVariables vars child, cur, env⟩ ⟨π.sub 2, child, cur, bs ++ env⟩
  /-- a member of a multi-select hash, on a non-null value, when the run gets to it -/
  | hashMem {π n cur env a fs k c} : hashOf n = some fs → Subject root ⟨π, n, cur, env⟩ a → a.isNull = false →
      MemAt (π.sub 2) fs a env k c → RunsFirst root ((π.sub 1).order (ievalMembersO (π.sub 2) root fs a env)) k c →
      Sub root ⟨π, n, cur, env⟩ c
  /-- **loops**: the sub-expression `r` (right-hand side of a projection, predicate of a filter, `&e` of
      `map`/`sort_by`/…) on the element `y`, in the scope of the node, once the elements before `y` are done -/
  | elem {π n cur env a kind r pre y post} : loopOf n = some (kind, r) → Subject root ⟨π, n, cur, env⟩ a →
      kind.elems π a = pre ++ y :: post →
      kind.okPre (fun i v => ievalO (π.sub (i + kind.off)) root r v env) pre →
      Sub root ⟨π, n, cur, env⟩ ⟨π.sub (pre.length + kind.off), r, y, env⟩
  /-- filter projection `l[?f] r`: the predicate on the element `y` -/
  | fapPred {π n cur env f r t xs pre y post} : fapOf n = some (f, r) → Subject root ⟨π, n, cur, env⟩ (.arr t xs) →
      xs = pre ++ y :: post →
      AllOkO2 (fun i v => ievalO ((π.sub 1).sub i) root f v env) (fun i v => ievalO ((π.sub 2).sub i) root r v env) 0 pre →
      Sub root ⟨π, n, cur, env⟩ ⟨(π.sub 1).sub pre.length, f, y, env⟩
  /-- … and the right-hand side on `y` when the predicate is true of it -/
  | fapRhs {π n cur env f r t xs pre y post b} : fapOf n = some (f, r) → Subject root ⟨π, n, cur, env⟩ (.arr t xs) →
      xs = pre ++ y :: post →
      AllOkO2 (fun i v => ievalO ((π.sub 1).sub i) root f v env) (fun i v => ievalO ((π.sub 2).sub i) root r v env) 0 pre →
      Cfg.Yields root ⟨(π.sub 1).sub pre.length, f, y, env⟩ b → isTrue b = true →
      Sub root ⟨π, n, cur, env⟩ ⟨(π.sub 2).sub pre.length, r, y, env⟩

/-- **`Evaluated root c c'`: the run of `c` starts the evaluation `c'`** (at any depth) -/
inductive Evaluated (root : Val) : Cfg → Cfg → Prop
  | refl (c : Cfg) : Evaluated root c c
  | step {c c' c'' : Cfg} : Sub root c c' → Evaluated root c' c'' → Evaluated root c c''

theorem Evaluated.single {root : Val} {c c' : Cfg} (h : Sub root c c') : Evaluated root c c' := .step h (.refl _)

theorem Evaluated.trans {root : Val} {c c' c'' : Cfg} (h : Evaluated root c c') (h' : Evaluated root c' c'') :
    Evaluated root c c'' := by
  induction h with
  | refl => exact h'
  | step s _ ih => exact .step s (ih h')

/-- a reference `$x` evaluated in a scope that has no binding for `x` -/
def Unbound (c : Cfg) (x : Bytes) : Prop := c.n = .variable x ∧ c.env.get x = none

/-! examples (non-vacuity of the relation) -/

/-- `@ | $x`: the left operand is started unconditionally, the right one once the left one has a value, on that value -/
example (π : Oracle) (d : Val) : Sub d ⟨π, .pipe .current (.variable [0x24, 0x78]), d, []⟩ ⟨π.sub 0, .current, d, []⟩ :=
  .head rfl
example (π : Oracle) (d : Val) :
    Sub d ⟨π, .pipe .current (.variable [0x24, 0x78]), d, []⟩ ⟨π.sub 1, .variable [0x24, 0x78], d, []⟩ :=
  .pipeR (a := d) rfl
/-- `[*].$x` on `[1, 2]`: the right-hand side on the second element, after it returned a value on the first — here it
    does not (`$x` is unbound), so the premise about the prefix fails and only the first element is visited -/
example (π : Oracle) (a b : Val) :
    Sub (.arr .plain [a, b]) ⟨π, .projectArrayCurrent (.variable [0x24, 0x78]), .arr .plain [a, b], []⟩
      ⟨π.sub 1, .variable [0x24, 0x78], a, []⟩ :=
  .elem (kind := .proj) (a := .arr .plain [a, b]) (pre := []) (post := [b]) rfl rfl rfl trivial
example (a : Val) : ¬ AllOkO (fun _ v => ievalO Oracle.keyOrder a (.variable [0x24, 0x78]) v []) 0 [a] := by
  rintro ⟨⟨v, hv⟩, _⟩
  cases hv
/-- with `$x` bound both elements are visited -/
example (π : Oracle) (a b v : Val) :
    Sub (.arr .plain [a, b]) ⟨π, .projectArrayCurrent (.variable [0x24, 0x78]), .arr .plain [a, b], [([0x24, 0x78], v)]⟩
      ⟨π.sub 2, .variable [0x24, 0x78], b, [([0x24, 0x78], v)]⟩ :=
  .elem (kind := .proj) (a := .arr .plain [a, b]) (pre := [a]) (post := []) rfl rfl rfl
    ⟨⟨v, by simp [ievalO, Env.get, objLookup]⟩, trivial⟩
/-- two levels: `!(@ | $x)` -/
example (π : Oracle) (d : Val) :
    Evaluated d ⟨π, .not (.pipe .current (.variable [0x24, 0x78])), d, []⟩
      ⟨(π.sub 0).sub 1, .variable [0x24, 0x78], d, []⟩ :=
  .step (.head rfl) (.step (.pipeR (a := d) rfl) (.refl _))
example (π : Oracle) (d : Val) : Unbound ⟨π, .variable [0x24, 0x78], d, []⟩ [0x24, 0x78] := ⟨rfl, rfl⟩

/-! ## Part 2: the loops of a run -/

section loops
variable {g c f : Nat → Val → Res Val} {cs : List Cat}

theorem shift_idx {P : Nat → Prop} {i n : Nat} (h : P (i + (n + 1))) : P (i + 1 + n) := by
  rwa [Nat.add_assoc, Nat.add_comm 1 n]

theorem shift_idx' {P : Nat → Prop} {i n : Nat} (h : P (i + 1 + n)) : P (i + (n + 1)) := by
  rwa [Nat.add_assoc, Nat.add_comm 1 n] at h

theorem mapPruneO_fwd {y : Val} (post : List Val) : ∀ (pre : List Val) (i : Nat), AllOkO g i pre →
    g (i + pre.length) y = .err cs → mapPruneO g i (pre ++ y :: post) = .err cs
  | [], i, _, hy => by
    simp only [List.nil_append, mapPruneO, List.length_nil, Nat.add_zero] at hy ⊢
    rw [hy]; rfl
  | x :: pre, i, ⟨⟨v, hv⟩, hp⟩, hy => by
    have ih := mapPruneO_fwd post pre (i + 1) hp (shift_idx (P := fun k => g k y = .err cs) hy)
    simp only [List.cons_append, mapPruneO, hv, Res.ok_bind, ih]; rfl

theorem mapPruneO_bwd : ∀ (xs : List Val) (i : Nat), mapPruneO g i xs = .err cs →
    ∃ pre y post, xs = pre ++ y :: post ∧ AllOkO g i pre ∧ g (i + pre.length) y = .err cs
  | [], i, h => by simp [mapPruneO] at h
  | x :: xs, i, h => by
    simp only [mapPruneO] at h
    rcases bind_err_cases h with h1 | ⟨v, h1, h2⟩
    · exact ⟨[], x, xs, rfl, trivial, h1⟩
    · rcases bind_err_cases h2 with h3 | ⟨rest, _, h4⟩
      · obtain ⟨pre, y, post, rfl, hp, hy⟩ := mapPruneO_bwd xs (i + 1) h3
        exact ⟨x :: pre, y, post, rfl, ⟨⟨v, h1⟩, hp⟩, shift_idx' (P := fun k => g k y = .err cs) hy⟩
      · cases h4

theorem mapAllO_fwd {y : Val} (post : List Val) : ∀ (pre : List Val) (i : Nat), AllOkO g i pre →
    g (i + pre.length) y = .err cs → mapAllO g i (pre ++ y :: post) = .err cs
  | [], i, _, hy => by
    simp only [List.nil_append, mapAllO, List.length_nil, Nat.add_zero] at hy ⊢
    rw [hy]; rfl
  | x :: pre, i, ⟨⟨v, hv⟩, hp⟩, hy => by
    have ih := mapAllO_fwd post pre (i + 1) hp (shift_idx (P := fun k => g k y = .err cs) hy)
    simp only [List.cons_append, mapAllO, hv, Res.ok_bind, ih]; rfl

theorem mapAllO_bwd : ∀ (xs : List Val) (i : Nat), mapAllO g i xs = .err cs →
    ∃ pre y post, xs = pre ++ y :: post ∧ AllOkO g i pre ∧ g (i + pre.length) y = .err cs
  | [], i, h => by simp [mapAllO] at h
  | x :: xs, i, h => by
    simp only [mapAllO] at h
    rcases bind_err_cases h with h1 | ⟨v, h1, h2⟩
    · exact ⟨[], x, xs, rfl, trivial, h1⟩
    · rcases bind_err_cases h2 with h3 | ⟨rest, _, h4⟩
      · obtain ⟨pre, y, post, rfl, hp, hy⟩ := mapAllO_bwd xs (i + 1) h3
        exact ⟨x :: pre, y, post, rfl, ⟨⟨v, h1⟩, hp⟩, shift_idx' (P := fun k => g k y = .err cs) hy⟩
      · cases h4

theorem filterLoopO_fwd {y : Val} (post : List Val) : ∀ (pre : List Val) (i : Nat), AllOkO g i pre →
    g (i + pre.length) y = .err cs → filterLoopO g i (pre ++ y :: post) = .err cs
  | [], i, _, hy => by
    simp only [List.nil_append, filterLoopO, List.length_nil, Nat.add_zero] at hy ⊢
    rw [hy]; rfl
  | x :: pre, i, ⟨⟨v, hv⟩, hp⟩, hy => by
    have ih := filterLoopO_fwd post pre (i + 1) hp (shift_idx (P := fun k => g k y = .err cs) hy)
    simp only [List.cons_append, filterLoopO, hv, Res.ok_bind, ih]; rfl

theorem filterLoopO_bwd : ∀ (xs : List Val) (i : Nat), filterLoopO g i xs = .err cs →
    ∃ pre y post, xs = pre ++ y :: post ∧ AllOkO g i pre ∧ g (i + pre.length) y = .err cs
  | [], i, h => by simp [filterLoopO] at h
  | x :: xs, i, h => by
    simp only [filterLoopO] at h
    rcases bind_err_cases h with h1 | ⟨v, h1, h2⟩
    · exact ⟨[], x, xs, rfl, trivial, h1⟩
    · rcases bind_err_cases h2 with h3 | ⟨rest, _, h4⟩
      · obtain ⟨pre, y, post, rfl, hp, hy⟩ := filterLoopO_bwd xs (i + 1) h3
        exact ⟨x :: pre, y, post, rfl, ⟨⟨v, h1⟩, hp⟩, shift_idx' (P := fun k => g k y = .err cs) hy⟩
      · cases h4

/-- one more element that gets through -/
theorem filterMapPruneO_cons_ok {x b : Val} (xs : List Val) (i : Nat) (hc : c i x = .ok b)
    (hf : isTrue b = true → ∃ v, f i x = .ok v) (h : filterMapPruneO c f (i + 1) xs = .err cs) :
    filterMapPruneO c f i (x :: xs) = .err cs := by
  simp only [filterMapPruneO, hc, Res.ok_bind]
  cases hb : isTrue b with
  | false => simpa using h
  | true =>
    obtain ⟨v, hv⟩ := hf hb
    simp only [if_true, hv, Res.ok_bind, h]; rfl

theorem filterMapPruneO_fwd_pred {y : Val} (post : List Val) : ∀ (pre : List Val) (i : Nat), AllOkO2 c f i pre →
    c (i + pre.length) y = .err cs → filterMapPruneO c f i (pre ++ y :: post) = .err cs
  | [], i, _, hy => by
    simp only [List.nil_append, filterMapPruneO, List.length_nil, Nat.add_zero] at hy ⊢
    rw [hy]; rfl
  | x :: pre, i, ⟨⟨b, hb, hf⟩, hp⟩, hy =>
    filterMapPruneO_cons_ok _ i hb hf
      (filterMapPruneO_fwd_pred post pre (i + 1) hp (shift_idx (P := fun k => c k y = .err cs) hy))

theorem filterMapPruneO_fwd_rhs {y b : Val} (post : List Val) (hb : isTrue b = true) : ∀ (pre : List Val) (i : Nat),
    AllOkO2 c f i pre → c (i + pre.length) y = .ok b → f (i + pre.length) y = .err cs →
    filterMapPruneO c f i (pre ++ y :: post) = .err cs
  | [], i, _, hc, hy => by
    simp only [List.nil_append, filterMapPruneO, List.length_nil, Nat.add_zero] at hc hy ⊢
    simp only [hc, Res.ok_bind, hb, if_true, hy]; rfl
  | x :: pre, i, ⟨⟨b', hb', hf⟩, hp⟩, hc, hy =>
    filterMapPruneO_cons_ok _ i hb' hf
      (filterMapPruneO_fwd_rhs post hb pre (i + 1) hp (shift_idx (P := fun k => c k y = .ok b) hc)
        (shift_idx (P := fun k => f k y = .err cs) hy))

theorem filterMapPruneO_bwd : ∀ (xs : List Val) (i : Nat), filterMapPruneO c f i xs = .err cs →
    ∃ pre y post, xs = pre ++ y :: post ∧ AllOkO2 c f i pre ∧
      (c (i + pre.length) y = .err cs ∨
        ∃ b, c (i + pre.length) y = .ok b ∧ isTrue b = true ∧ f (i + pre.length) y = .err cs)
  | [], i, h => by simp [filterMapPruneO] at h
  | x :: xs, i, h => by
    simp only [filterMapPruneO] at h
    rcases bind_err_cases h with h1 | ⟨b, h1, h2⟩
    · exact ⟨[], x, xs, rfl, trivial, .inl h1⟩
    · have key : ∀ (hf : isTrue b = true → ∃ v, f i x = .ok v), filterMapPruneO c f (i + 1) xs = .err cs →
          ∃ pre y post, x :: xs = pre ++ y :: post ∧ AllOkO2 c f i pre ∧
            (c (i + pre.length) y = .err cs ∨
              ∃ b, c (i + pre.length) y = .ok b ∧ isTrue b = true ∧ f (i + pre.length) y = .err cs) := by
        intro hf h3
        obtain ⟨pre, y, post, e, hp, hy⟩ := filterMapPruneO_bwd xs (i + 1) h3
        refine ⟨x :: pre, y, post, by rw [e]; rfl, ⟨⟨b, h1, hf⟩, hp⟩, ?_⟩
        rcases hy with hy | ⟨b', hc', hb', hy⟩
        · exact .inl (shift_idx' (P := fun k => c k y = .err cs) hy)
        · exact .inr ⟨b', shift_idx' (P := fun k => c k y = .ok b') hc', hb',
            shift_idx' (P := fun k => f k y = .err cs) hy⟩
      cases hb : isTrue b with
      | false =>
        simp only [hb, Bool.false_eq_true, if_false] at h2
        exact key (fun h => by rw [hb] at h; cases h) h2
      | true =>
        simp only [hb, if_true] at h2
        rcases bind_err_cases h2 with h3 | ⟨p, h3, h4⟩
        · exact ⟨[], x, xs, rfl, trivial, .inr ⟨b, h1, hb, h3⟩⟩
        · rcases bind_err_cases h4 with h5 | ⟨rest, _, h6⟩
          · exact key (fun _ => ⟨p, h3⟩) h5
          · cases h6

abbrev uv : Cat := Cat.undefinedVariable

theorem keyOfVal_no_uv {b : Bool} {rv : Val} (h : keyOfVal b rv = .err cs) : uv ∉ cs := by
  have : NoUV (keyOfVal b rv) := by unfold keyOfVal; uv_auto
  exact this.err_pe h

theorem modeOf_no_uv {v : Val} (h : Jmes.C15C.modeOf v = .err cs) : uv ∉ cs := by
  have : NoUV (Jmes.C15C.modeOf v) := by unfold Jmes.C15C.modeOf; uv_auto
  exact this.err_pe h

theorem keysFromO_fwd (b : Bool) {y : Val} (post : List Val) : ∀ (pre : List Val) (i : Nat) (ks : List Key),
    keysFromO g b i pre = .ok ks → g (i + pre.length) y = .err cs → keysFromO g b i (pre ++ y :: post) = .err cs
  | [], i, _, _, hy => by
    simp only [List.nil_append, List.length_nil, Nat.add_zero] at hy ⊢
    rw [keysFromO_cons, hy]; rfl
  | x :: pre, i, ks, h, hy => by
    rw [keysFromO_cons] at h
    obtain ⟨rv, h1, h⟩ := bind_ok_cases h
    obtain ⟨k, h2, h⟩ := bind_ok_cases h
    obtain ⟨rest, h3, _⟩ := bind_ok_cases h
    have ih := keysFromO_fwd b post pre (i + 1) rest h3 (shift_idx (P := fun k => g k y = .err cs) hy)
    rw [List.cons_append, keysFromO_cons, h1, Res.ok_bind, h2, Res.ok_bind, ih]; rfl

theorem keysFromO_bwd (b : Bool) (hu : uv ∈ cs) : ∀ (xs : List Val) (i : Nat), keysFromO g b i xs = .err cs →
    ∃ pre y post, xs = pre ++ y :: post ∧ (∃ ks, keysFromO g b i pre = .ok ks) ∧ g (i + pre.length) y = .err cs
  | [], i, h => by simp [keysFromO] at h
  | x :: xs, i, h => by
    rw [keysFromO_cons] at h
    rcases bind_err_cases h with h1 | ⟨rv, h1, h2⟩
    · exact ⟨[], x, xs, rfl, ⟨[], rfl⟩, h1⟩
    · rcases bind_err_cases h2 with h3 | ⟨k, h3, h4⟩
      · exact absurd hu (keyOfVal_no_uv h3)
      · rcases bind_err_cases h4 with h5 | ⟨rest, _, h6⟩
        · obtain ⟨pre, y, post, rfl, ⟨ks, hk⟩, hy⟩ := keysFromO_bwd b hu xs (i + 1) h5
          refine ⟨x :: pre, y, post, rfl, ⟨k :: ks, ?_⟩, shift_idx' (P := fun k => g k y = .err cs) hy⟩
          rw [keysFromO_cons, h1, Res.ok_bind, h3, Res.ok_bind, hk]; rfl
        · cases h6

theorem keysOfO_fwd {y : Val} (post : List Val) : ∀ (pre : List Val) (ks : List Key),
    keysOfO g pre = .ok ks → g pre.length y = .err cs → keysOfO g (pre ++ y :: post) = .err cs
  | [], _, _, hy => by
    simp only [List.nil_append, List.length_nil, keysOfO] at hy ⊢
    rw [hy]; rfl
  | x :: pre, ks, h, hy => by
    rw [Jmes.C15C.keysOfO_eq] at h
    obtain ⟨first, h1, h⟩ := bind_ok_cases h
    obtain ⟨b, h2, h⟩ := bind_ok_cases h
    have := keysFromO_fwd b post (x :: pre) 0 ks h (by simpa using hy)
    rw [List.cons_append, Jmes.C15C.keysOfO_eq, h1, Res.ok_bind, h2, Res.ok_bind]
    exact this

theorem keysOfO_bwd (hu : uv ∈ cs) : ∀ (xs : List Val), keysOfO g xs = .err cs →
    ∃ pre y post, xs = pre ++ y :: post ∧ (∃ ks, keysOfO g pre = .ok ks) ∧ g pre.length y = .err cs
  | [], h => by simp [keysOfO] at h
  | x :: xs, h => by
    rw [Jmes.C15C.keysOfO_eq] at h
    rcases bind_err_cases h with h1 | ⟨first, h1, h2⟩
    · exact ⟨[], x, xs, rfl, ⟨[], rfl⟩, h1⟩
    · rcases bind_err_cases h2 with h3 | ⟨b, h3, h4⟩
      · exact absurd hu (modeOf_no_uv h3)
      · obtain ⟨pre, y, post, e, ⟨ks, hk⟩, hy⟩ := keysFromO_bwd b hu (x :: xs) 0 h4
        refine ⟨pre, y, post, e, ?_, by simpa using hy⟩
        cases pre with
        | nil => exact ⟨[], rfl⟩
        | cons x' pre' =>
          have hx : x' = x := by simp only [List.cons_append, List.cons.injEq] at e; exact e.1.symm
          subst hx
          exact ⟨ks, by rw [Jmes.C15C.keysOfO_eq, h1, Res.ok_bind, h3, Res.ok_bind]; exact hk⟩

theorem groupLoopO_fwd {y : Val} (post : List Val) : ∀ (pre : List Val) (i : Nat) (acc : List (Bytes × List Val)),
    AllStrO g i pre → g (i + pre.length) y = .err cs → groupLoopO g i (pre ++ y :: post) acc = .err cs
  | [], i, acc, _, hy => by
    simp only [List.nil_append, groupLoopO, List.length_nil, Nat.add_zero] at hy ⊢
    rw [hy]; rfl
  | x :: pre, i, acc, ⟨⟨s, hs⟩, hp⟩, hy => by
    have ih := groupLoopO_fwd post pre (i + 1) (groupInsert s x acc) hp (shift_idx (P := fun k => g k y = .err cs) hy)
    simp only [List.cons_append, groupLoopO, hs, Res.ok_bind, ih]

theorem groupLoopO_bwd (hu : uv ∈ cs) : ∀ (xs : List Val) (i : Nat) (acc : List (Bytes × List Val)),
    groupLoopO g i xs acc = .err cs →
    ∃ pre y post, xs = pre ++ y :: post ∧ AllStrO g i pre ∧ g (i + pre.length) y = .err cs
  | [], i, acc, h => by simp [groupLoopO] at h
  | x :: xs, i, acc, h => by
    simp only [groupLoopO] at h
    rcases bind_err_cases h with h1 | ⟨rv, h1, h2⟩
    · exact ⟨[], x, xs, rfl, trivial, h1⟩
    · cases rv with
      | str s =>
        obtain ⟨pre, y, post, rfl, hp, hy⟩ := groupLoopO_bwd hu xs (i + 1) _ h2
        exact ⟨x :: pre, y, post, rfl, ⟨⟨s, h1⟩, hp⟩, shift_idx' (P := fun k => g k y = .err cs) hy⟩
      | _ => exact absurd hu ((uv_errType (α := List (Bytes × List Val))).err_pe h2)

end loops

/-! ### members of a hash / `let`, in the order of the run -/

theorem firstFailure_fwd {k : Bytes} {cs : List Cat} (post : List (Bytes × Res Val)) :
    ∀ (pre : List (Bytes × Res Val)) (acc : List (Bytes × Val)), (∀ p ∈ pre, ∃ v, p.2 = .ok v) →
      firstFailure (pre ++ (k, .err cs) :: post) acc = .err cs
  | [], acc, _ => rfl
  | (k', r) :: pre, acc, h => by
    obtain ⟨v, hv⟩ := h (k', r) (by simp)
    simp only at hv
    subst hv
    simp only [List.cons_append, firstFailure, Res.ok_bind]
    exact firstFailure_fwd post pre _ fun p hp => h p (List.mem_cons_of_mem _ hp)

theorem firstFailure_bwd {cs : List Cat} : ∀ (os : List (Bytes × Res Val)) (acc : List (Bytes × Val)),
    firstFailure os acc = .err cs →
    ∃ pre k post, os = pre ++ (k, .err cs) :: post ∧ ∀ p ∈ pre, ∃ v, p.2 = .ok v
  | [], acc, h => by simp [firstFailure] at h
  | (k, r) :: os, acc, h => by
    simp only [firstFailure] at h
    rcases bind_err_cases h with h1 | ⟨v, h1, h2⟩
    · subst h1
      exact ⟨[], k, os, rfl, fun _ hp => by cases hp⟩
    · obtain ⟨pre, k', post, rfl, hp⟩ := firstFailure_bwd os _ h2
      refine ⟨(k, r) :: pre, k', post, rfl, fun p hm => ?_⟩
      rcases List.mem_cons.mp hm with rfl | hm
      · exact ⟨v, h1⟩
      · exact hp p hm

theorem mem_members {root : Val} {k : Bytes} {r : Res Val} : ∀ (fs : List (Bytes × INode)) (π : Oracle) (cur : Val) (env : Env),
    (k, r) ∈ ievalMembersO π root fs cur env → ∃ c, MemAt π fs cur env k c ∧ c.out root = r ∧ (k, c.n) ∈ fs
  | [], π, cur, env, h => by simp [ievalMembersO] at h
  | (k', n) :: rest, π, cur, env, h => by
    simp only [ievalMembersO, List.mem_cons, Prod.mk.injEq] at h
    rcases h with ⟨rfl, rfl⟩ | h
    · exact ⟨_, .here, rfl, List.mem_cons_self⟩
    · obtain ⟨c, hm, ho, hn⟩ := mem_members rest (π.sub 1) cur env h
      exact ⟨c, .next hm, ho, List.mem_cons_of_mem _ hn⟩

theorem MemAt.mem_members {root : Val} {π : Oracle} {fs : List (Bytes × INode)} {cur : Val} {env : Env} {k : Bytes}
    {c : Cfg} (h : MemAt π fs cur env k c) : (k, c.out root) ∈ ievalMembersO π root fs cur env := by
  induction h with
  | here => simp [ievalMembersO, Cfg.out]
  | next _ ih => simp only [ievalMembersO, List.mem_cons]; exact .inr ih

theorem MemAt.shape {π : Oracle} {fs : List (Bytes × INode)} {cur : Val} {env : Env} {k : Bytes}
    {c : Cfg} (h : MemAt π fs cur env k c) : (k, c.n) ∈ fs ∧ c.cur = cur ∧ c.env = env := by
  induction h with
  | here => exact ⟨List.mem_cons_self, rfl, rfl⟩
  | next _ ih => exact ⟨List.mem_cons_of_mem _ ih.1, ih.2⟩

/-- the run's pass over the members fails with the failure of a member it gets to -/
theorem members_fwd {root : Val} {os : List (Bytes × Res Val)} {k : Bytes} {c : Cfg} {cs : List Cat}
    (h : RunsFirst root os k c) (hc : c.out root = .err cs) (acc : List (Bytes × Val)) :
    firstFailure os acc = .err cs := by
  obtain ⟨pre, post, rfl, hp⟩ := h
  rw [hc]
  exact firstFailure_fwd post pre acc hp

/-- … and conversely -/
theorem members_bwd {root : Val} {π π' : Oracle} {fs : List (Bytes × INode)} {cur : Val} {env : Env} {cs : List Cat}
    {acc : List (Bytes × Val)} (h : firstFailure (π'.order (ievalMembersO π root fs cur env)) acc = .err cs) :
    ∃ k c, MemAt π fs cur env k c ∧ RunsFirst root (π'.order (ievalMembersO π root fs cur env)) k c ∧
      c.out root = .err cs ∧ (k, c.n) ∈ fs := by
  obtain ⟨pre, k, post, e, hp⟩ := firstFailure_bwd _ _ h
  have hm : (k, Res.err cs) ∈ ievalMembersO π root fs cur env :=
    (Oracle.order_perm _ _).mem_iff.mp (by rw [e]; simp)
  obtain ⟨c, hc, ho, hn⟩ := mem_members fs π cur env hm
  exact ⟨k, c, hc, ⟨pre, post, by rw [ho]; exact e, hp⟩, ho, hn⟩

/-! ### ordered member lists -/

section seq
variable {root : Val} {cs : List Cat}

theorem SeqAt.shape {P : Val → Prop} {π : Oracle} {ns : List INode} {cur : Val} {env : Env} {c : Cfg}
    (h : SeqAt root P π ns cur env c) : c.n ∈ ns ∧ c.cur = cur ∧ c.env = env := by
  induction h with
  | here => exact ⟨List.mem_cons_self, rfl, rfl⟩
  | next _ _ _ ih => exact ⟨List.mem_cons_of_mem _ ih.1, ih.2⟩

theorem SeqAt.mono {P Q : Val → Prop} (hPQ : ∀ v, P v → Q v) {π : Oracle} {ns : List INode} {cur : Val} {env : Env}
    {c : Cfg} (h : SeqAt root P π ns cur env c) : SeqAt root Q π ns cur env c := by
  induction h with
  | here => exact .here
  | next hy hp _ ih => exact .next hy (hPQ _ hp) ih

theorem ievalListO_fwd {π : Oracle} {ns : List INode} {cur : Val} {env : Env} {c : Cfg}
    (h : SeqAt root (fun _ => True) π ns cur env c) (hc : c.out root = .err cs) :
    ievalListO π root ns cur env = .err cs := by
  induction h with
  | here => simp only [Cfg.out] at hc; simp only [ievalListO, hc]; rfl
  | next hy _ _ ih =>
    simp only [Cfg.Yields, Cfg.out] at hy
    simp only [ievalListO, hy, Res.ok_bind, ih hc]; rfl

theorem ievalListO_bwd : ∀ (ns : List INode) (π : Oracle) (cur : Val) (env : Env),
    ievalListO π root ns cur env = .err cs →
    ∃ c, SeqAt root (fun _ => True) π ns cur env c ∧ c.out root = .err cs
  | [], π, cur, env, h => by simp [ievalListO] at h
  | n :: ns, π, cur, env, h => by
    simp only [ievalListO] at h
    rcases bind_err_cases h with h1 | ⟨v, h1, h2⟩
    · exact ⟨_, .here, h1⟩
    · rcases bind_err_cases h2 with h3 | ⟨vs, _, h4⟩
      · obtain ⟨c, hs, hc⟩ := ievalListO_bwd ns (π.sub 1) cur env h3
        exact ⟨c, .next h1 trivial hs, hc⟩
      · cases h4

theorem ievalMergeO_fwd {π : Oracle} {ns : List INode} {cur : Val} {env : Env} {c : Cfg}
    (h : SeqAt root (fun v => ∃ kvs, v = .obj kvs) π ns cur env c) (hc : c.out root = .err cs) :
    ∀ acc, ievalMergeO π root ns cur env acc = .err cs := by
  induction h with
  | here => intro acc; simp only [Cfg.out] at hc; simp only [ievalMergeO, hc]; rfl
  | next hy hp _ ih =>
    intro acc
    obtain ⟨kvs, rfl⟩ := hp
    simp only [Cfg.Yields, Cfg.out] at hy
    simp only [ievalMergeO, hy, Res.ok_bind, ih hc]

theorem ievalMergeO_bwd (hu : uv ∈ cs) : ∀ (ns : List INode) (π : Oracle) (cur : Val) (env : Env) (acc : List (Bytes × Val)),
    ievalMergeO π root ns cur env acc = .err cs →
    ∃ c, SeqAt root (fun v => ∃ kvs, v = .obj kvs) π ns cur env c ∧ c.out root = .err cs
  | [], π, cur, env, acc, h => by simp [ievalMergeO] at h
  | n :: ns, π, cur, env, acc, h => by
    simp only [ievalMergeO] at h
    rcases bind_err_cases h with h1 | ⟨v, h1, h2⟩
    · exact ⟨_, .here, h1⟩
    · cases v with
      | obj kvs =>
        obtain ⟨c, hs, hc⟩ := ievalMergeO_bwd hu ns (π.sub 1) cur env _ h2
        exact ⟨c, .next h1 ⟨kvs, rfl⟩ hs, hc⟩
      | _ => exact absurd hu ((uv_errType (α := List (Bytes × Val))).err_pe h2)

theorem ievalNotNullO_fwd {π : Oracle} {ns : List INode} {cur : Val} {env : Env} {c : Cfg}
    (h : SeqAt root (fun v => v.isNull = true) π ns cur env c) (hc : c.out root = .err cs) :
    ievalNotNullO π root ns cur env = .err cs := by
  induction h with
  | here => simp only [Cfg.out] at hc; simp only [ievalNotNullO, hc]; rfl
  | next hy hp _ ih =>
    simp only [Cfg.Yields, Cfg.out] at hy
    simp only [ievalNotNullO, hy, Res.ok_bind, hp, if_true, ih hc]

theorem ievalNotNullO_bwd : ∀ (ns : List INode) (π : Oracle) (cur : Val) (env : Env),
    ievalNotNullO π root ns cur env = .err cs →
    ∃ c, SeqAt root (fun v => v.isNull = true) π ns cur env c ∧ c.out root = .err cs
  | [], π, cur, env, h => by simp [ievalNotNullO] at h
  | n :: ns, π, cur, env, h => by
    simp only [ievalNotNullO] at h
    rcases bind_err_cases h with h1 | ⟨v, h1, h2⟩
    · exact ⟨_, .here, h1⟩
    · cases hn : v.isNull with
      | true =>
        simp only [hn, if_true] at h2
        obtain ⟨c, hs, hc⟩ := ievalNotNullO_bwd ns (π.sub 1) cur env h2
        exact ⟨c, .next h1 hn hs, hc⟩
      | false => simp only [hn, Bool.false_eq_true, if_false] at h2; cases h2

theorem ievalZipO_fwd {π : Oracle} {ns : List INode} {cur : Val} {env : Env} {c : Cfg}
    (h : SeqAt root (fun v => ∃ t xs, v = .arr t xs) π ns cur env c) (hc : c.out root = .err cs) :
    ievalZipO π root ns cur env = .err cs := by
  induction h with
  | here => simp only [Cfg.out] at hc; simp only [ievalZipO, hc]; rfl
  | next hy hp _ ih =>
    obtain ⟨t, xs, rfl⟩ := hp
    simp only [Cfg.Yields, Cfg.out] at hy
    simp only [ievalZipO, hy, Res.ok_bind, ih hc]; rfl

theorem ievalZipO_bwd (hu : uv ∈ cs) : ∀ (ns : List INode) (π : Oracle) (cur : Val) (env : Env),
    ievalZipO π root ns cur env = .err cs →
    ∃ c, SeqAt root (fun v => ∃ t xs, v = .arr t xs) π ns cur env c ∧ c.out root = .err cs
  | [], π, cur, env, h => by simp [ievalZipO] at h
  | n :: ns, π, cur, env, h => by
    simp only [ievalZipO] at h
    rcases bind_err_cases h with h1 | ⟨v, h1, h2⟩
    · exact ⟨_, .here, h1⟩
    · cases v with
      | arr t xs =>
        simp only at h2
        rcases bind_err_cases h2 with h3 | ⟨vs, _, h4⟩
        · obtain ⟨c, hs, hc⟩ := ievalZipO_bwd hu ns (π.sub 1) cur env h3
          exact ⟨c, .next h1 ⟨t, xs, rfl⟩ hs, hc⟩
        · cases h4
      | _ => exact absurd hu ((uv_errType (α := List Val)).err_pe h2)

end seq

/-! ### the value-level loops of the run -/

section wrappers
variable {g c f : Nat → Val → Res Val} {cs : List Cat}

theorem zero_idx {P : Nat → Prop} {n : Nat} (h : P n) : P (0 + n) := by rwa [Nat.zero_add]
theorem zero_idx' {P : Nat → Prop} {n : Nat} (h : P (0 + n)) : P n := by rwa [Nat.zero_add] at h

theorem projectArrayO_fwd {t : ATag} {pre post : List Val} {y : Val} (hp : AllOkO g 0 pre)
    (hy : g pre.length y = .err cs) : projectArrayO g (.arr t (pre ++ y :: post)) = .err cs := by
  simp only [projectArrayO, mapPruneO_fwd post pre 0 hp (zero_idx (P := fun k => g k y = .err cs) hy)]; rfl

theorem projectArrayO_bwd {v : Val} (h : projectArrayO g v = .err cs) :
    ∃ t pre y post, v = .arr t (pre ++ y :: post) ∧ AllOkO g 0 pre ∧ g pre.length y = .err cs := by
  cases v with
  | arr t xs =>
    simp only [projectArrayO] at h
    rcases bind_err_cases h with h1 | ⟨_, _, h2⟩
    · obtain ⟨pre, y, post, rfl, hp, hy⟩ := mapPruneO_bwd xs 0 h1
      exact ⟨t, pre, y, post, rfl, hp, zero_idx' (P := fun k => g k y = .err cs) hy⟩
    · cases h2
  | _ => cases h

theorem flattenAndProjectArrayO_fwd {t : ATag} {xs pre post : List Val} {y : Val}
    (e : flattenForProject xs = pre ++ y :: post) (hp : AllOkO g 0 pre)
    (hy : g pre.length y = .err cs) : flattenAndProjectArrayO g (.arr t xs) = .err cs := by
  simp only [flattenAndProjectArrayO, e, mapPruneO_fwd post pre 0 hp (zero_idx (P := fun k => g k y = .err cs) hy)]; rfl

theorem flattenAndProjectArrayO_bwd {v : Val} (h : flattenAndProjectArrayO g v = .err cs) :
    ∃ t xs pre y post, v = .arr t xs ∧ flattenForProject xs = pre ++ y :: post ∧ AllOkO g 0 pre ∧
      g pre.length y = .err cs := by
  cases v with
  | arr t xs =>
    simp only [flattenAndProjectArrayO] at h
    rcases bind_err_cases h with h1 | ⟨_, _, h2⟩
    · obtain ⟨pre, y, post, e, hp, hy⟩ := mapPruneO_bwd _ 0 h1
      exact ⟨t, xs, pre, y, post, rfl, e, hp, zero_idx' (P := fun k => g k y = .err cs) hy⟩
    · cases h2
  | _ => cases h

theorem projectObjectO_fwd {π : Oracle} {kvs : List (Bytes × Val)} {pre post : List Val} {y : Val}
    (e : (π.members kvs).map Prod.snd = pre ++ y :: post) (hp : AllOkO g 0 pre)
    (hy : g pre.length y = .err cs) : projectObjectO π g (.obj kvs) = .err cs := by
  simp only [projectObjectO, e, mapPruneO_fwd post pre 0 hp (zero_idx (P := fun k => g k y = .err cs) hy)]; rfl

theorem projectObjectO_bwd {π : Oracle} {v : Val} (h : projectObjectO π g v = .err cs) :
    ∃ kvs pre y post, v = .obj kvs ∧ (π.members kvs).map Prod.snd = pre ++ y :: post ∧ AllOkO g 0 pre ∧
      g pre.length y = .err cs := by
  cases v with
  | obj kvs =>
    simp only [projectObjectO] at h
    rcases bind_err_cases h with h1 | ⟨_, _, h2⟩
    · obtain ⟨pre, y, post, e, hp, hy⟩ := mapPruneO_bwd _ 0 h1
      exact ⟨kvs, pre, y, post, rfl, e, hp, zero_idx' (P := fun k => g k y = .err cs) hy⟩
    · cases h2
  | _ => cases h

theorem filterArrayO_fwd {t : ATag} {pre post : List Val} {y : Val} (hp : AllOkO g 0 pre)
    (hy : g pre.length y = .err cs) : filterArrayO g (.arr t (pre ++ y :: post)) = .err cs := by
  simp only [filterArrayO, filterLoopO_fwd post pre 0 hp (zero_idx (P := fun k => g k y = .err cs) hy)]; rfl

theorem filterArrayO_bwd {v : Val} (h : filterArrayO g v = .err cs) :
    ∃ t pre y post, v = .arr t (pre ++ y :: post) ∧ AllOkO g 0 pre ∧ g pre.length y = .err cs := by
  cases v with
  | arr t xs =>
    simp only [filterArrayO] at h
    rcases bind_err_cases h with h1 | ⟨_, _, h2⟩
    · obtain ⟨pre, y, post, rfl, hp, hy⟩ := filterLoopO_bwd xs 0 h1
      exact ⟨t, pre, y, post, rfl, hp, zero_idx' (P := fun k => g k y = .err cs) hy⟩
    · cases h2
  | _ => cases h

theorem mapArrayO_fwd {t : ATag} {pre post : List Val} {y : Val} (hp : AllOkO g 0 pre)
    (hy : g pre.length y = .err cs) : mapArrayO g (.arr t (pre ++ y :: post)) = .err cs := by
  simp only [mapArrayO, mapAllO_fwd post pre 0 hp (zero_idx (P := fun k => g k y = .err cs) hy)]; rfl

theorem mapArrayO_bwd {v : Val} (hu : uv ∈ cs) (h : mapArrayO g v = .err cs) :
    ∃ t pre y post, v = .arr t (pre ++ y :: post) ∧ AllOkO g 0 pre ∧ g pre.length y = .err cs := by
  cases v with
  | arr t xs =>
    simp only [mapArrayO] at h
    rcases bind_err_cases h with h1 | ⟨_, _, h2⟩
    · obtain ⟨pre, y, post, rfl, hp, hy⟩ := mapAllO_bwd xs 0 h1
      exact ⟨t, pre, y, post, rfl, hp, zero_idx' (P := fun k => g k y = .err cs) hy⟩
    · cases h2
  | _ => exact absurd hu ((uv_errType (α := Val)).err_pe h)

theorem sortArrayByO_fwd {t : ATag} {pre post : List Val} {y : Val} {ks : List Key} (hp : keysOfO g pre = .ok ks)
    (hy : g pre.length y = .err cs) : sortArrayByO g (.arr t (pre ++ y :: post)) = .err cs := by
  have : (pre ++ y :: post).isEmpty = false := by cases pre <;> rfl
  simp only [sortArrayByO, this, Bool.false_eq_true, if_false, keysOfO_fwd post pre ks hp hy]; rfl

theorem sortArrayByO_bwd {v : Val} (hu : uv ∈ cs) (h : sortArrayByO g v = .err cs) :
    ∃ t pre y post, v = .arr t (pre ++ y :: post) ∧ (∃ ks, keysOfO g pre = .ok ks) ∧ g pre.length y = .err cs := by
  cases v with
  | arr t xs =>
    simp only [sortArrayByO] at h
    split at h
    · cases h
    · rcases bind_err_cases h with h1 | ⟨_, _, h2⟩
      · obtain ⟨pre, y, post, rfl, hp, hy⟩ := keysOfO_bwd hu xs h1
        exact ⟨t, pre, y, post, rfl, hp, hy⟩
      · cases h2
  | _ => exact absurd hu ((uv_errType (α := Val)).err_pe h)

theorem arrayPickByO_fwd (better : Key → Key → Bool) {t : ATag} {pre post : List Val} {y : Val} {ks : List Key}
    (hp : keysOfO g pre = .ok ks) (hy : g pre.length y = .err cs) :
    arrayPickByO better g (.arr t (pre ++ y :: post)) = .err cs := by
  have hk := keysOfO_fwd post pre ks hp hy
  cases pre with
  | nil => simp only [List.nil_append] at hk ⊢; simp only [arrayPickByO, hk]; rfl
  | cons x pre => simp only [List.cons_append] at hk ⊢; simp only [arrayPickByO, hk]; rfl

theorem arrayPickByO_bwd (better : Key → Key → Bool) {v : Val} (hu : uv ∈ cs) (h : arrayPickByO better g v = .err cs) :
    ∃ t pre y post, v = .arr t (pre ++ y :: post) ∧ (∃ ks, keysOfO g pre = .ok ks) ∧ g pre.length y = .err cs := by
  cases v with
  | arr t xs =>
    cases xs with
    | nil => cases h
    | cons x0 rest =>
      simp only [arrayPickByO] at h
      rcases bind_err_cases h with h1 | ⟨ks, _, h2⟩
      · obtain ⟨pre, y, post, e, hp, hy⟩ := keysOfO_bwd hu _ h1
        exact ⟨t, pre, y, post, by rw [e], hp, hy⟩
      · cases ks <;> cases h2
  | _ => exact absurd hu ((uv_errType (α := Val)).err_pe h)

theorem groupByO_fwd {t : ATag} {pre post : List Val} {y : Val} (hp : AllStrO g 0 pre)
    (hy : g pre.length y = .err cs) : groupByO g (.arr t (pre ++ y :: post)) = .err cs := by
  have : (pre ++ y :: post).isEmpty = false := by cases pre <;> rfl
  simp only [groupByO, this, Bool.false_eq_true, if_false,
    groupLoopO_fwd post pre 0 [] hp (zero_idx (P := fun k => g k y = .err cs) hy)]; rfl

theorem groupByO_bwd {v : Val} (hu : uv ∈ cs) (h : groupByO g v = .err cs) :
    ∃ t pre y post, v = .arr t (pre ++ y :: post) ∧ AllStrO g 0 pre ∧ g pre.length y = .err cs := by
  cases v with
  | arr t xs =>
    simp only [groupByO] at h
    split at h
    · cases h
    · rcases bind_err_cases h with h1 | ⟨_, _, h2⟩
      · obtain ⟨pre, y, post, rfl, hp, hy⟩ := groupLoopO_bwd hu xs 0 [] h1
        exact ⟨t, pre, y, post, rfl, hp, zero_idx' (P := fun k => g k y = .err cs) hy⟩
      · cases h2
  | _ => exact absurd hu ((uv_errType (α := Val)).err_pe h)

theorem filterAndProjectArrayO_fwd_pred {t : ATag} {pre post : List Val} {y : Val} (hp : AllOkO2 c f 0 pre)
    (hy : c pre.length y = .err cs) : filterAndProjectArrayO c f (.arr t (pre ++ y :: post)) = .err cs := by
  simp only [filterAndProjectArrayO,
    filterMapPruneO_fwd_pred post pre 0 hp (zero_idx (P := fun k => c k y = .err cs) hy)]; rfl

theorem filterAndProjectArrayO_fwd_rhs {t : ATag} {pre post : List Val} {y b : Val} (hp : AllOkO2 c f 0 pre)
    (hc : c pre.length y = .ok b) (hb : isTrue b = true) (hy : f pre.length y = .err cs) :
    filterAndProjectArrayO c f (.arr t (pre ++ y :: post)) = .err cs := by
  simp only [filterAndProjectArrayO,
    filterMapPruneO_fwd_rhs post hb pre 0 hp (zero_idx (P := fun k => c k y = .ok b) hc)
      (zero_idx (P := fun k => f k y = .err cs) hy)]; rfl

theorem filterAndProjectArrayO_bwd {v : Val} (h : filterAndProjectArrayO c f v = .err cs) :
    ∃ t pre y post, v = .arr t (pre ++ y :: post) ∧ AllOkO2 c f 0 pre ∧
      (c pre.length y = .err cs ∨ ∃ b, c pre.length y = .ok b ∧ isTrue b = true ∧ f pre.length y = .err cs) := by
  cases v with
  | arr t xs =>
    simp only [filterAndProjectArrayO] at h
    rcases bind_err_cases h with h1 | ⟨_, _, h2⟩
    · obtain ⟨pre, y, post, rfl, hp, hy⟩ := filterMapPruneO_bwd xs 0 h1
      refine ⟨t, pre, y, post, rfl, hp, ?_⟩
      rcases hy with hy | ⟨b, hc, hb, hy⟩
      · exact .inl (zero_idx' (P := fun k => c k y = .err cs) hy)
      · exact .inr ⟨b, zero_idx' (P := fun k => c k y = .ok b) hc, hb, zero_idx' (P := fun k => f k y = .err cs) hy⟩
    · cases h2
  | _ => cases h

theorem applyFnO_no_uv (π : Oracle) (fn : Fn) (args : List Val) (h : applyFnO π fn args = .err cs) : uv ∉ cs := by
  have : NoUV (applyFnO π fn args) := by
    unfold applyFnO
    split
    · unfold keysO; uv_auto
    · unfold valuesO; uv_auto
    · unfold itemsO; uv_auto
    · exact applyFn_uv _ _
  exact this.err_pe h

end wrappers

/-! ## Part 3: forward — the failure of a started sub-evaluation is the failure of the run -/

section fwd
variable {root : Val} {cs : List Cat}

theorem head_fails {π : Oracle} {n l : INode} {cur : Val} {env : Env} (h : headOf n = some l)
    (hc : ievalO (π.sub 0) root l cur env = .err cs) : ievalO π root n cur env = .err cs := by
  cases n <;> simp only [headOf, Option.some.injEq, reduceCtorEq] at h <;> subst h <;>
    simp only [ievalO, hc, Res.err_bind]

theorem elem_fails {π : Oracle} {n r : INode} {cur a y : Val} {env : Env} {kind : LoopKind} {pre post : List Val}
    (hl : loopOf n = some (kind, r)) (hs : Subject root ⟨π, n, cur, env⟩ a) (he : kind.elems π a = pre ++ y :: post)
    (hp : kind.okPre (fun i v => ievalO (π.sub (i + kind.off)) root r v env) pre)
    (hc : ievalO (π.sub (pre.length + kind.off)) root r y env = .err cs) : ievalO π root n cur env = .err cs := by
  cases n <;> simp only [loopOf, Option.some.injEq, Prod.mk.injEq, reduceCtorEq] at hl <;> obtain ⟨rfl, rfl⟩ := hl <;>
    simp only [Subject, headOf, Cfg.Yields, Cfg.out] at hs <;>
    simp only [LoopKind.okPre, LoopKind.off] at hp hc
  case filter c f =>
    cases a <;> simp only [LoopKind.elems, reduceCtorEq, List.nil_eq, List.append_eq_nil_iff, and_false] at he
    subst he
    simp only [ievalO, hs, Res.ok_bind]
    exact filterArrayO_fwd hp hc
  case filterCurrent f =>
    subst hs
    cases a <;> simp only [LoopKind.elems, reduceCtorEq, List.nil_eq, List.append_eq_nil_iff, and_false] at he
    subst he
    simp only [ievalO]
    exact filterArrayO_fwd hp hc
  case flattenAndProject l r =>
    cases a <;> simp only [LoopKind.elems, reduceCtorEq, List.nil_eq, List.append_eq_nil_iff, and_false] at he
    simp only [ievalO, hs, Res.ok_bind]
    exact flattenAndProjectArrayO_fwd he hp hc
  case flattenAndProjectCurrent r =>
    subst hs
    cases a <;> simp only [LoopKind.elems, reduceCtorEq, List.nil_eq, List.append_eq_nil_iff, and_false] at he
    simp only [ievalO]
    exact flattenAndProjectArrayO_fwd he hp hc
  case projectArray l r =>
    cases a <;> simp only [LoopKind.elems, reduceCtorEq, List.nil_eq, List.append_eq_nil_iff, and_false] at he
    subst he
    simp only [ievalO, hs, Res.ok_bind]
    exact projectArrayO_fwd hp hc
  case projectArrayCurrent r =>
    subst hs
    cases a <;> simp only [LoopKind.elems, reduceCtorEq, List.nil_eq, List.append_eq_nil_iff, and_false] at he
    subst he
    simp only [ievalO]
    exact projectArrayO_fwd hp hc
  case projectObject l r =>
    cases a <;> simp only [LoopKind.elems, reduceCtorEq, List.nil_eq, List.append_eq_nil_iff, and_false] at he
    simp only [ievalO, hs, Res.ok_bind]
    exact projectObjectO_fwd he hp hc
  case projectObjectCurrent r =>
    subst hs
    cases a <;> simp only [LoopKind.elems, reduceCtorEq, List.nil_eq, List.append_eq_nil_iff, and_false] at he
    simp only [ievalO]
    exact projectObjectO_fwd he hp hc
  case groupBy l e =>
    cases a <;> simp only [LoopKind.elems, reduceCtorEq, List.nil_eq, List.append_eq_nil_iff, and_false] at he
    subst he
    simp only [ievalO, hs, Res.ok_bind]
    exact groupByO_fwd hp hc
  case map e l =>
    cases a <;> simp only [LoopKind.elems, reduceCtorEq, List.nil_eq, List.append_eq_nil_iff, and_false] at he
    subst he
    simp only [ievalO, hs, Res.ok_bind]
    exact mapArrayO_fwd hp hc
  case maxBy l e =>
    cases a <;> simp only [LoopKind.elems, reduceCtorEq, List.nil_eq, List.append_eq_nil_iff, and_false] at he
    subst he
    obtain ⟨ks, hp⟩ := hp
    simp only [ievalO, hs, Res.ok_bind]
    exact arrayPickByO_fwd _ hp hc
  case minBy l e =>
    cases a <;> simp only [LoopKind.elems, reduceCtorEq, List.nil_eq, List.append_eq_nil_iff, and_false] at he
    subst he
    obtain ⟨ks, hp⟩ := hp
    simp only [ievalO, hs, Res.ok_bind]
    exact arrayPickByO_fwd _ hp hc
  case sortBy l e =>
    cases a <;> simp only [LoopKind.elems, reduceCtorEq, List.nil_eq, List.append_eq_nil_iff, and_false] at he
    subst he
    obtain ⟨ks, hp⟩ := hp
    simp only [ievalO, hs, Res.ok_bind]
    exact sortArrayByO_fwd hp hc

/-- **The first failure is the outcome.**  If the run of `c` starts the evaluation `c'` and `c'` fails with the error
    `cs`, the run of `c` fails with the error `cs`: nothing is evaluated after a failure, and nothing is added to it. -/
theorem Sub.fails {c c' : Cfg} (h : Sub root c c') (hc : c'.out root = .err cs) : c.out root = .err cs := by
  cases h with
  | head hh => exact head_fails hh hc
  | binopR hy =>
    simp only [Cfg.Yields, Cfg.out] at hy hc ⊢
    simp only [ievalO, hy, Res.ok_bind, hc, Res.err_bind]
  | andR hy ht =>
    simp only [Cfg.Yields, Cfg.out] at hy hc ⊢
    simp only [ievalO, hy, Res.ok_bind, ht, Bool.not_true, Bool.false_eq_true, if_false, hc]
  | orR hy ht =>
    simp only [Cfg.Yields, Cfg.out] at hy hc ⊢
    simp only [ievalO, hy, Res.ok_bind, ht, Bool.false_eq_true, if_false, hc]
  | pipeR hy =>
    simp only [Cfg.Yields, Cfg.out] at hy hc ⊢
    simp only [ievalO, hy, Res.ok_bind, hc]
  | projStr hy hs =>
    simp only [Cfg.Yields, Cfg.out] at hy hc ⊢
    simp only [ievalO, hy, Res.ok_bind, hs, if_true, hc]
  | @single π n cur env a f hl hs hn =>
    simp only [Cfg.out] at hc ⊢
    cases n <;> simp only [singleOf, Option.some.injEq, reduceCtorEq] at hl <;> subst hl <;>
      simp only [Subject, headOf, Cfg.Yields, Cfg.out] at hs
    · have hn := hn (by simp [headOf])
      simp only [ievalO, hs, Res.ok_bind, hn, Bool.false_eq_true, if_false, hc, Res.err_bind]
    · subst hs; simp only [ievalO, hc, Res.err_bind]
    · have hn := hn (by simp [headOf])
      simp only [ievalO, hs, Res.ok_bind, hn, Bool.false_eq_true, if_false, hc, Res.err_bind]
    · subst hs; simp only [ievalO, hc, Res.err_bind]
  | callArg hs =>
    simp only [Cfg.out] at ⊢
    simp only [ievalO, ievalListO_fwd hs hc, Res.err_bind]
  | @listMem π n cur env a fs c' hl hs hn hq =>
    have hq' := ievalListO_fwd hq hc
    simp only [Cfg.out] at ⊢
    cases n <;> simp only [listOf, Option.some.injEq, reduceCtorEq] at hl <;> subst hl <;>
      simp only [Subject, headOf, Cfg.Yields, Cfg.out] at hs
    · simp only [ievalO, hs, Res.ok_bind, hn, Bool.false_eq_true, if_false, hq', Res.err_bind]
    · subst hs
      simp only [ievalO, hn, Bool.false_eq_true, if_false, hq', Res.err_bind]
  | mergeArg hs =>
    simp only [Cfg.out] at ⊢
    simp only [ievalO, ievalMergeO_fwd hs hc, Res.err_bind]
  | notNullArg hs =>
    simp only [Cfg.out] at ⊢
    simp only [ievalO, ievalNotNullO_fwd hs hc]
  | zipArg hs =>
    simp only [Cfg.out] at ⊢
    simp only [ievalO, ievalZipO_fwd hs hc, Res.err_bind]
  | letBind _ hr =>
    simp only [Cfg.out] at ⊢
    simp only [ievalO, members_fwd hr hc, Res.err_bind]
  | letBody hb =>
    simp only [Cfg.out] at hc ⊢
    simp only [ievalO, hb, Res.ok_bind, hc]
  | @hashMem π n cur env a fs k c' hl hs hn _ hr =>
    have hq' := members_fwd hr hc []
    simp only [Cfg.out] at ⊢
    cases n <;> simp only [hashOf, Option.some.injEq, reduceCtorEq] at hl <;> subst hl <;>
      simp only [Subject, headOf, Cfg.Yields, Cfg.out] at hs
    · simp only [ievalO, hs, Res.ok_bind, hn, Bool.false_eq_true, if_false, hq', Res.err_bind]
    · subst hs
      simp only [ievalO, hn, Bool.false_eq_true, if_false, hq', Res.err_bind]
  | elem hl hs he hp => exact elem_fails hl hs he hp hc
  | @fapPred π n cur env f r t xs pre y post hl hs he hp =>
    simp only [Cfg.out] at hc ⊢
    subst he
    have := filterAndProjectArrayO_fwd_pred (t := t) (post := post) hp hc
    cases n <;> simp only [fapOf, Option.some.injEq, Prod.mk.injEq, reduceCtorEq] at hl <;> obtain ⟨rfl, rfl⟩ := hl <;>
      simp only [Subject, headOf, Cfg.Yields, Cfg.out] at hs
    · simp only [ievalO, hs, Res.ok_bind]; exact this
    · subst hs; simp only [ievalO]; exact this
  | @fapRhs π n cur env f r t xs pre y post b hl hs he hp hy hb =>
    simp only [Cfg.Yields, Cfg.out] at hc hy ⊢
    subst he
    have := filterAndProjectArrayO_fwd_rhs (t := t) (post := post) hp hy hb hc
    cases n <;> simp only [fapOf, Option.some.injEq, Prod.mk.injEq, reduceCtorEq] at hl <;> obtain ⟨rfl, rfl⟩ := hl <;>
      simp only [Subject, headOf, Cfg.Yields, Cfg.out] at hs
    · simp only [ievalO, hs, Res.ok_bind]; exact this
    · subst hs; simp only [ievalO]; exact this

theorem Evaluated.fails {c c' : Cfg} (h : Evaluated root c c') (hc : c'.out root = .err cs) : c.out root = .err cs := by
  induction h with
  | refl => exact hc
  | step s _ ih => exact s.fails (ih hc)

end fwd

/-! ## Part 4: backward — an undefined-variable error of a run comes from a reference the run evaluated -/

/-- the run of `c` evaluates a reference that has no binding in the scope it is evaluated in -/
def Blames (root : Val) (c : Cfg) : Prop := ∃ c' x, Evaluated root c c' ∧ Unbound c' x

theorem Blames.sub {root : Val} {c c' : Cfg} (h : Sub root c c') (hb : Blames root c') : Blames root c := by
  obtain ⟨c'', x, he, hx⟩ := hb
  exact ⟨c'', x, .step h he, hx⟩

def Back (root : Val) (n : INode) : Prop :=
  ∀ π cur env cs, ievalO π root n cur env = .err cs → uv ∈ cs → Blames root ⟨π, n, cur, env⟩

def BackAll (root : Val) (ns : List INode) : Prop := ∀ n ∈ ns, Back root n
def BackFields (root : Val) (fs : List (Bytes × INode)) : Prop := ∀ p ∈ fs, Back root p.2

section back
variable {root : Val}

theorem Back.at {m : INode} (ih : Back root m) (c : Cfg) (hn : c.n = m) {cs : List Cat} (hc : c.out root = .err cs)
    (hu : uv ∈ cs) : Blames root c := by
  cases c with
  | mk π n cur env =>
    simp only at hn
    subst hn
    exact ih π cur env cs hc hu

theorem back_leaf {n : INode} (h : ∀ π cur env, NoUV (ievalO π root n cur env)) : Back root n :=
  fun π cur env _ hc hu => absurd hu ((h π cur env).err_pe hc)

theorem back_variable (y : Bytes) : Back root (.variable y) := by
  intro π cur env cs h hu
  simp only [ievalO] at h
  cases hg : env.get y with
  | some v => rw [hg] at h; cases h
  | none => exact ⟨_, y, .refl _, rfl, hg⟩

/-- first sub-expression, then whatever `F` does with its value -/
theorem back_head {n l : INode} (hh : headOf n = some l) (F : Oracle → Val → Env → Val → Res Val)
    (hn : ∀ π cur env, ievalO π root n cur env = (ievalO (π.sub 0) root l cur env >>= F π cur env))
    (hF : ∀ π cur env a cs, ievalO (π.sub 0) root l cur env = .ok a → F π cur env a = .err cs → uv ∈ cs →
      Blames root ⟨π, n, cur, env⟩)
    (ih : Back root l) : Back root n := by
  intro π cur env cs h hu
  rw [hn] at h
  rcases bind_err_cases h with h1 | ⟨a, h1, h2⟩
  · exact Blames.sub (.head hh) (ih _ _ _ _ h1 hu)
  · exact hF π cur env a cs h1 h2 hu

/-- … when `F` is a function of values that never reports undefined-variable -/
theorem back_strict {n l : INode} (hh : headOf n = some l) (F : Oracle → Val → Env → Val → Res Val)
    (hn : ∀ π cur env, ievalO π root n cur env = (ievalO (π.sub 0) root l cur env >>= F π cur env))
    (hF : ∀ π cur env a, NoUV (F π cur env a)) (ih : Back root l) : Back root n :=
  back_head hh F hn (fun π cur env a _ _ h2 hu => absurd hu ((hF π cur env a).err_pe h2)) ih

theorem blames_seq {P : Val → Prop} {π : Oracle} {ns : List INode} {cur : Val} {env : Env} {c c0 : Cfg} {cs : List Cat}
    (ih : BackAll root ns) (hs : SeqAt root P π ns cur env c) (hsub : Sub root c0 c) (hc : c.out root = .err cs)
    (hu : uv ∈ cs) : Blames root c0 :=
  Blames.sub hsub ((ih c.n hs.shape.1).at c rfl hc hu)

theorem blames_mem {fs : List (Bytes × INode)} {k : Bytes} {c c0 : Cfg}
    {cs : List Cat} (ih : BackFields root fs) (hm : (k, c.n) ∈ fs) (hsub : Sub root c0 c) (hc : c.out root = .err cs)
    (hu : uv ∈ cs) : Blames root c0 :=
  Blames.sub hsub ((ih (k, c.n) hm).at c rfl hc hu)

theorem back_binop {op : BinOp} {l r : INode} (ihl : Back root l) (ihr : Back root r) : Back root (.binop op l r) :=
  back_head rfl (fun π cur env a => ievalO (π.sub 1) root r cur env >>= fun b => applyBinOp op a b)
    (fun _ _ _ => by simp only [ievalO])
    (fun π cur env a cs h1 h2 hu => by
      rcases bind_err_cases h2 with h3 | ⟨b, _, h4⟩
      · exact Blames.sub (.binopR h1) (ihr _ _ _ _ h3 hu)
      · exact absurd hu ((applyBinOp_uv op a b).err_pe h4)) ihl

theorem back_and {l r : INode} (ihl : Back root l) (ihr : Back root r) : Back root (.and l r) :=
  back_head rfl (fun π cur env a => if !isTrue a then pure a else ievalO (π.sub 1) root r cur env)
    (fun _ _ _ => by simp only [ievalO])
    (fun π cur env a cs h1 h2 hu => by
      cases ht : isTrue a with
      | false => simp only [ht, Bool.not_false, if_true] at h2; cases h2
      | true =>
        simp only [ht, Bool.not_true, Bool.false_eq_true, if_false] at h2
        exact Blames.sub (.andR h1 ht) (ihr _ _ _ _ h2 hu)) ihl

theorem back_or {l r : INode} (ihl : Back root l) (ihr : Back root r) : Back root (.or l r) :=
  back_head rfl (fun π cur env a => if isTrue a then pure a else ievalO (π.sub 1) root r cur env)
    (fun _ _ _ => by simp only [ievalO])
    (fun π cur env a cs h1 h2 hu => by
      cases ht : isTrue a with
      | true => simp only [ht, if_true] at h2; cases h2
      | false =>
        simp only [ht, Bool.false_eq_true, if_false] at h2
        exact Blames.sub (.orR h1 ht) (ihr _ _ _ _ h2 hu)) ihl

theorem back_pipe {l r : INode} (ihl : Back root l) (ihr : Back root r) : Back root (.pipe l r) :=
  back_head rfl (fun π _ env a => ievalO (π.sub 1) root r a env)
    (fun _ _ _ => by simp only [ievalO])
    (fun π cur env a cs h1 h2 hu => Blames.sub (.pipeR h1) (ihr _ _ _ _ h2 hu)) ihl

theorem back_call {fn : Fn} {args : List INode} (ih : BackAll root args) : Back root (.call fn args) := by
  intro π cur env cs h hu
  simp only [ievalO] at h
  rcases bind_err_cases h with h1 | ⟨vs, _, h2⟩
  · obtain ⟨c, hs, hc⟩ := ievalListO_bwd _ _ _ _ h1
    exact blames_seq ih hs (.callArg hs) hc hu
  · exact absurd hu (applyFnO_no_uv _ _ _ h2)

theorem back_merge {args : List INode} (ih : BackAll root args) : Back root (.merge args) := by
  intro π cur env cs h hu
  simp only [ievalO] at h
  rcases bind_err_cases h with h1 | ⟨vs, _, h2⟩
  · obtain ⟨c, hs, hc⟩ := ievalMergeO_bwd hu _ _ _ _ _ h1
    exact blames_seq ih hs (.mergeArg hs) hc hu
  · cases h2

theorem back_notNull {args : List INode} (ih : BackAll root args) : Back root (.notNull args) := by
  intro π cur env cs h hu
  simp only [ievalO] at h
  obtain ⟨c, hs, hc⟩ := ievalNotNullO_bwd _ _ _ _ h
  exact blames_seq ih hs (.notNullArg hs) hc hu

theorem back_zip {args : List INode} (ih : BackAll root args) : Back root (.zip args) := by
  intro π cur env cs h hu
  simp only [ievalO] at h
  rcases bind_err_cases h with h1 | ⟨vs, _, h2⟩
  · obtain ⟨c, hs, hc⟩ := ievalZipO_bwd hu _ _ _ _ h1
    exact blames_seq ih hs (.zipArg hs) hc hu
  · rcases bind_err_cases h2 with h3 | ⟨cols, _, h4⟩
    · exact absurd hu ((zipArgs_uv vs).err_pe h3)
    · split at h4 <;> cases h4

theorem back_defineVariables {vars : List (Bytes × INode)} {child : INode} (ihv : BackFields root vars)
    (ihc : Back root child) : Back root (.defineVariables vars child) := by
  intro π cur env cs h hu
  simp only [ievalO] at h
  rcases bind_err_cases h with h1 | ⟨bs, h1, h2⟩
  · obtain ⟨k, c, hm, hr, hc, hn⟩ := members_bwd h1
    exact blames_mem ihv hn (.letBind hm hr) hc hu
  · exact Blames.sub (.letBody h1) (ihc _ _ _ _ h2 hu)

/-- the part of a multi-select list after its left operand -/
theorem blames_list {π : Oracle} {n : INode} {cur a : Val} {env : Env} {fs : List INode} {cs : List Cat}
    (hl : listOf n = some fs) (hs : Subject root ⟨π, n, cur, env⟩ a) (ih : BackAll root fs)
    (h : (if a.isNull then pure Val.null else do
        let vs ← ievalListO (π.sub 1) root fs a env
        pure (Val.arr .plain vs)) = Res.err cs) (hu : uv ∈ cs) : Blames root ⟨π, n, cur, env⟩ := by
  cases hn : a.isNull with
  | true => simp only [hn, if_true] at h; cases h
  | false =>
    simp only [hn, Bool.false_eq_true, if_false] at h
    rcases bind_err_cases h with h1 | ⟨vs, _, h2⟩
    · obtain ⟨c, hq, hc⟩ := ievalListO_bwd _ _ _ _ h1
      exact blames_seq ih hq (.listMem hl hs hn hq) hc hu
    · cases h2

theorem back_selectArray {c : INode} {fs : List INode} (ihc : Back root c) (ih : BackAll root fs) :
    Back root (.selectArray c fs) :=
  back_head rfl (fun π _ env a => if a.isNull then pure Val.null else do
        let vs ← ievalListO (π.sub 1) root fs a env
        pure (Val.arr .plain vs))
    (fun _ _ _ => by simp only [ievalO])
    (fun π cur env a cs h1 h2 hu => blames_list rfl (by simpa [Subject, headOf, Cfg.Yields, Cfg.out] using h1) ih h2 hu) ihc

theorem back_selectArrayCurrent {fs : List INode} (ih : BackAll root fs) : Back root (.selectArrayCurrent fs) := by
  intro π cur env cs h hu
  simp only [ievalO] at h
  exact blames_list (a := cur) rfl rfl ih h hu

theorem blames_hash {π : Oracle} {n : INode} {cur a : Val} {env : Env} {fs : List (Bytes × INode)} {cs : List Cat}
    (hl : hashOf n = some fs) (hs : Subject root ⟨π, n, cur, env⟩ a) (ih : BackFields root fs)
    (h : (if a.isNull then pure Val.null else do
        let kvs ← firstFailure ((π.sub 1).order (ievalMembersO (π.sub 2) root fs a env)) []
        pure (Val.obj kvs)) = Res.err cs) (hu : uv ∈ cs) : Blames root ⟨π, n, cur, env⟩ := by
  cases hn : a.isNull with
  | true => simp only [hn, if_true] at h; cases h
  | false =>
    simp only [hn, Bool.false_eq_true, if_false] at h
    rcases bind_err_cases h with h1 | ⟨vs, _, h2⟩
    · obtain ⟨k, c, hm, hr, hc, hmem⟩ := members_bwd h1
      exact blames_mem ih hmem (.hashMem hl hs hn hm hr) hc hu
    · cases h2

theorem back_selectObject {c : INode} {fs : List (Bytes × INode)} (ihc : Back root c) (ih : BackFields root fs) :
    Back root (.selectObject c fs) :=
  back_head rfl (fun π _ env a => if a.isNull then pure Val.null else do
        let kvs ← firstFailure ((π.sub 1).order (ievalMembersO (π.sub 2) root fs a env)) []
        pure (Val.obj kvs))
    (fun _ _ _ => by simp only [ievalO])
    (fun π cur env a cs h1 h2 hu => blames_hash rfl (by simpa [Subject, headOf, Cfg.Yields, Cfg.out] using h1) ih h2 hu) ihc

theorem back_selectObjectCurrent {fs : List (Bytes × INode)} (ih : BackFields root fs) :
    Back root (.selectObjectCurrent fs) := by
  intro π cur env cs h hu
  simp only [ievalO] at h
  exact blames_hash (a := cur) rfl rfl ih h hu

theorem back_selectArraySingle {c f : INode} (ihc : Back root c) (ihf : Back root f) :
    Back root (.selectArraySingle c f) :=
  back_head rfl (fun π _ env a => if a.isNull then pure Val.null else do
        let v ← ievalO (π.sub 1) root f a env
        pure (Val.arr .plain [v]))
    (fun _ _ _ => by simp only [ievalO])
    (fun π cur env a cs h1 h2 hu => by
      cases hn : a.isNull with
      | true => simp only [hn, if_true] at h2; cases h2
      | false =>
        simp only [hn, Bool.false_eq_true, if_false] at h2
        rcases bind_err_cases h2 with h3 | ⟨v, _, h4⟩
        · exact Blames.sub (.single rfl h1 (fun _ => hn)) (ihf _ _ _ _ h3 hu)
        · cases h4) ihc

theorem back_selectObjectSingle {c f : INode} {k : Bytes} (ihc : Back root c) (ihf : Back root f) :
    Back root (.selectObjectSingle c k f) :=
  back_head rfl (fun π _ env a => if a.isNull then pure Val.null else do
        let v ← ievalO (π.sub 1) root f a env
        pure (Val.obj [(k, v)]))
    (fun _ _ _ => by simp only [ievalO])
    (fun π cur env a cs h1 h2 hu => by
      cases hn : a.isNull with
      | true => simp only [hn, if_true] at h2; cases h2
      | false =>
        simp only [hn, Bool.false_eq_true, if_false] at h2
        rcases bind_err_cases h2 with h3 | ⟨v, _, h4⟩
        · exact Blames.sub (.single rfl h1 (fun _ => hn)) (ihf _ _ _ _ h3 hu)
        · cases h4) ihc

theorem back_selectArraySingleCurrent {f : INode} (ihf : Back root f) : Back root (.selectArraySingleCurrent f) := by
  intro π cur env cs h hu
  simp only [ievalO] at h
  rcases bind_err_cases h with h3 | ⟨v, _, h4⟩
  · exact Blames.sub (.single (a := cur) rfl rfl (fun h => absurd rfl h)) (ihf _ _ _ _ h3 hu)
  · cases h4

theorem back_selectObjectSingleCurrent {k : Bytes} {f : INode} (ihf : Back root f) :
    Back root (.selectObjectSingleCurrent k f) := by
  intro π cur env cs h hu
  simp only [ievalO] at h
  rcases bind_err_cases h with h3 | ⟨v, _, h4⟩
  · exact Blames.sub (.single (a := cur) rfl rfl (fun h => absurd rfl h)) (ihf _ _ _ _ h3 hu)
  · cases h4

/-! ### loops -/

theorem blames_elem {π : Oracle} {n r : INode} {cur a y : Val} {env : Env} {kind : LoopKind} {pre post : List Val}
    {cs : List Cat} (hl : loopOf n = some (kind, r)) (hs : Subject root ⟨π, n, cur, env⟩ a)
    (he : kind.elems π a = pre ++ y :: post)
    (hp : kind.okPre (fun i v => ievalO (π.sub (i + kind.off)) root r v env) pre)
    (hy : ievalO (π.sub (pre.length + kind.off)) root r y env = .err cs) (hu : uv ∈ cs) (ih : Back root r) :
    Blames root ⟨π, n, cur, env⟩ :=
  Blames.sub (.elem hl hs he hp) (ih _ _ _ _ hy hu)

theorem back_filter {c f : INode} (ihc : Back root c) (ihf : Back root f) : Back root (.filter c f) :=
  back_head rfl (fun π _ env a => filterArrayO (fun i v => ievalO (π.sub (i + 1)) root f v env) a)
    (fun _ _ _ => by simp only [ievalO])
    (fun π cur env a cs h1 h2 hu => by
      obtain ⟨t, pre, y, post, rfl, hp, hy⟩ := filterArrayO_bwd h2
      exact blames_elem (kind := .filt) rfl h1 rfl hp hy hu ihf) ihc

theorem back_filterCurrent {f : INode} (ihf : Back root f) : Back root (.filterCurrent f) := by
  intro π cur env cs h hu
  simp only [ievalO] at h
  obtain ⟨t, pre, y, post, rfl, hp, hy⟩ := filterArrayO_bwd h
  exact blames_elem (kind := .filt) rfl rfl rfl hp hy hu ihf

theorem back_projectArray {l r : INode} (ihl : Back root l) (ihr : Back root r) : Back root (.projectArray l r) :=
  back_head rfl (fun π _ env a => match a with
      | .str _ =>
        if l.isSlice then ievalO (π.sub 1) root r a env
        else projectArrayO (fun i v => ievalO (π.sub (i + 1)) root r v env) a
      | _ => projectArrayO (fun i v => ievalO (π.sub (i + 1)) root r v env) a)
    (fun _ _ _ => by simp only [ievalO]; rfl)
    (fun π cur env a cs h1 h2 hu => by
      have harr : projectArrayO (fun i v => ievalO (π.sub (i + 1)) root r v env) a = .err cs →
          Blames root ⟨π, .projectArray l r, cur, env⟩ := by
        intro h3
        obtain ⟨t, pre, y, post, rfl, hp, hy⟩ := projectArrayO_bwd h3
        exact blames_elem (kind := .proj) rfl h1 rfl hp hy hu ihr
      cases a with
      | str s =>
        cases hs : l.isSlice with
        | true =>
          simp only [hs, if_true] at h2
          exact Blames.sub (.projStr h1 hs) (ihr _ _ _ _ h2 hu)
        | false =>
          simp only [hs, Bool.false_eq_true, if_false] at h2
          exact harr h2
      | _ => exact harr h2) ihl

theorem back_projectArrayCurrent {r : INode} (ihr : Back root r) : Back root (.projectArrayCurrent r) := by
  intro π cur env cs h hu
  simp only [ievalO] at h
  obtain ⟨t, pre, y, post, rfl, hp, hy⟩ := projectArrayO_bwd h
  exact blames_elem (kind := .proj) rfl rfl rfl hp hy hu ihr

theorem back_flattenAndProject {l r : INode} (ihl : Back root l) (ihr : Back root r) :
    Back root (.flattenAndProject l r) :=
  back_head rfl (fun π _ env a => flattenAndProjectArrayO (fun i v => ievalO (π.sub (i + 1)) root r v env) a)
    (fun _ _ _ => by simp only [ievalO])
    (fun π cur env a cs h1 h2 hu => by
      obtain ⟨t, xs, pre, y, post, rfl, e, hp, hy⟩ := flattenAndProjectArrayO_bwd h2
      exact blames_elem (kind := .flat) rfl h1 e hp hy hu ihr) ihl

theorem back_flattenAndProjectCurrent {r : INode} (ihr : Back root r) : Back root (.flattenAndProjectCurrent r) := by
  intro π cur env cs h hu
  simp only [ievalO] at h
  obtain ⟨t, xs, pre, y, post, rfl, e, hp, hy⟩ := flattenAndProjectArrayO_bwd h
  exact blames_elem (kind := .flat) rfl rfl e hp hy hu ihr

theorem back_projectObject {l r : INode} (ihl : Back root l) (ihr : Back root r) : Back root (.projectObject l r) :=
  back_head rfl (fun π _ env a => projectObjectO (π.sub 1) (fun i v => ievalO (π.sub (i + 2)) root r v env) a)
    (fun _ _ _ => by simp only [ievalO])
    (fun π cur env a cs h1 h2 hu => by
      obtain ⟨kvs, pre, y, post, rfl, e, hp, hy⟩ := projectObjectO_bwd h2
      exact blames_elem (kind := .obj) rfl h1 e hp hy hu ihr) ihl

theorem back_projectObjectCurrent {r : INode} (ihr : Back root r) : Back root (.projectObjectCurrent r) := by
  intro π cur env cs h hu
  simp only [ievalO] at h
  obtain ⟨kvs, pre, y, post, rfl, e, hp, hy⟩ := projectObjectO_bwd h
  exact blames_elem (kind := .obj) rfl rfl e hp hy hu ihr

theorem back_map {e a : INode} (iha : Back root a) (ihe : Back root e) : Back root (.map e a) :=
  back_head rfl (fun π _ env v => mapArrayO (fun i x => ievalO (π.sub (i + 1)) root e x env) v)
    (fun _ _ _ => by simp only [ievalO])
    (fun π cur env v cs h1 h2 hu => by
      obtain ⟨t, pre, y, post, rfl, hp, hy⟩ := mapArrayO_bwd hu h2
      exact blames_elem (kind := .mapE) rfl h1 rfl hp hy hu ihe) iha

theorem back_groupBy {a e : INode} (iha : Back root a) (ihe : Back root e) : Back root (.groupBy a e) :=
  back_head rfl (fun π _ env v => groupByO (fun i x => ievalO (π.sub (i + 1)) root e x env) v)
    (fun _ _ _ => by simp only [ievalO])
    (fun π cur env v cs h1 h2 hu => by
      obtain ⟨t, pre, y, post, rfl, hp, hy⟩ := groupByO_bwd hu h2
      exact blames_elem (kind := .group) rfl h1 rfl hp hy hu ihe) iha

theorem back_sortBy {a e : INode} (iha : Back root a) (ihe : Back root e) : Back root (.sortBy a e) :=
  back_head rfl (fun π _ env v => sortArrayByO (fun i x => ievalO (π.sub (i + 1)) root e x env) v)
    (fun _ _ _ => by simp only [ievalO])
    (fun π cur env v cs h1 h2 hu => by
      obtain ⟨t, pre, y, post, rfl, hp, hy⟩ := sortArrayByO_bwd hu h2
      exact blames_elem (kind := .keys) rfl h1 rfl hp hy hu ihe) iha

theorem back_maxBy {a e : INode} (iha : Back root a) (ihe : Back root e) : Back root (.maxBy a e) :=
  back_head rfl (fun π _ env v => arrayPickByO Key.gtMax (fun i x => ievalO (π.sub (i + 1)) root e x env) v)
    (fun _ _ _ => by simp only [ievalO])
    (fun π cur env v cs h1 h2 hu => by
      obtain ⟨t, pre, y, post, rfl, hp, hy⟩ := arrayPickByO_bwd _ hu h2
      exact blames_elem (kind := .keys) rfl h1 rfl hp hy hu ihe) iha

theorem back_minBy {a e : INode} (iha : Back root a) (ihe : Back root e) : Back root (.minBy a e) :=
  back_head rfl (fun π _ env v => arrayPickByO Key.ltMin (fun i x => ievalO (π.sub (i + 1)) root e x env) v)
    (fun _ _ _ => by simp only [ievalO])
    (fun π cur env v cs h1 h2 hu => by
      obtain ⟨t, pre, y, post, rfl, hp, hy⟩ := arrayPickByO_bwd _ hu h2
      exact blames_elem (kind := .keys) rfl h1 rfl hp hy hu ihe) iha

theorem blames_fap {π : Oracle} {n f r : INode} {cur a : Val} {env : Env} {cs : List Cat}
    (hl : fapOf n = some (f, r)) (hs : Subject root ⟨π, n, cur, env⟩ a) (ihf : Back root f) (ihr : Back root r)
    (h : filterAndProjectArrayO (fun i v => ievalO ((π.sub 1).sub i) root f v env)
      (fun i v => ievalO ((π.sub 2).sub i) root r v env) a = .err cs) (hu : uv ∈ cs) :
    Blames root ⟨π, n, cur, env⟩ := by
  obtain ⟨t, pre, y, post, rfl, hp, hy⟩ := filterAndProjectArrayO_bwd h
  rcases hy with hy | ⟨b, hc, hb, hy⟩
  · exact Blames.sub (.fapPred hl hs rfl hp) (ihf _ _ _ _ hy hu)
  · exact Blames.sub (.fapRhs hl hs rfl hp hc hb) (ihr _ _ _ _ hy hu)

theorem back_filterAndProject {l f r : INode} (ihl : Back root l) (ihf : Back root f) (ihr : Back root r) :
    Back root (.filterAndProject l f r) :=
  back_head rfl (fun π _ env a => filterAndProjectArrayO (fun i v => ievalO ((π.sub 1).sub i) root f v env)
      (fun i v => ievalO ((π.sub 2).sub i) root r v env) a)
    (fun _ _ _ => by simp only [ievalO])
    (fun π cur env a cs h1 h2 hu => blames_fap rfl h1 ihf ihr h2 hu) ihl

theorem back_filterAndProjectCurrent {f r : INode} (ihf : Back root f) (ihr : Back root r) :
    Back root (.filterAndProjectCurrent f r) := by
  intro π cur env cs h hu
  simp only [ievalO] at h
  exact blames_fap (a := cur) rfl rfl ihf ihr h hu

/-! ### the theorem -/

mutual
/-- **Backward.**  If a run fails and undefined-variable is among the categories of its error, the run evaluated a
    reference `$x` in a scope without a binding for `x`. -/
theorem blame (root : Val) : (n : INode) → Back root n
  | .lit _ => back_leaf fun _ _ _ => by simp only [ievalO]; exact Sat.ok _
  | .current => back_leaf fun _ _ _ => by simp only [ievalO]; exact Sat.ok _
  | .root => back_leaf fun _ _ _ => by simp only [ievalO]; exact Sat.ok _
  | .field _ => back_leaf fun _ _ _ => by simp only [ievalO]; exact Sat.ok _
  | .variable y => back_variable y
  | .binop _ l r => back_binop (blame root l) (blame root r)
  | .and l r => back_and (blame root l) (blame root r)
  | .or l r => back_or (blame root l) (blame root r)
  | .not c => back_strict rfl (fun _ _ _ a => pure (.bool (!isTrue a))) (fun _ _ _ => by simp only [ievalO])
      (fun _ _ _ _ => Sat.pure _) (blame root c)
  | .negate c => back_strict rfl (fun _ _ _ a => pure (negateVal a)) (fun _ _ _ => by simp only [ievalO])
      (fun _ _ _ _ => Sat.pure _) (blame root c)
  | .assertNumber c => back_strict rfl (fun _ _ _ a => pure (if isNumber a then a else .null))
      (fun _ _ _ => by simp only [ievalO]) (fun _ _ _ _ => Sat.pure _) (blame root c)
  | .call _ args => back_call (blameAll root args)
  | .defineVariables vars child => back_defineVariables (blameFields root vars) (blame root child)
  | .filter c f => back_filter (blame root c) (blame root f)
  | .filterCurrent f => back_filterCurrent (blame root f)
  | .filterAndProject l f r => back_filterAndProject (blame root l) (blame root f) (blame root r)
  | .filterAndProjectCurrent f r => back_filterAndProjectCurrent (blame root f) (blame root r)
  | .flatten c => back_strict rfl (fun _ _ _ a => pure (Jmes.flatten a)) (fun _ _ _ => by simp only [ievalO])
      (fun _ _ _ _ => Sat.pure _) (blame root c)
  | .flattenCurrent => back_leaf fun _ _ _ => by simp only [ievalO]; exact Sat.ok _
  | .flattenAndProject l r => back_flattenAndProject (blame root l) (blame root r)
  | .flattenAndProjectCurrent r => back_flattenAndProjectCurrent (blame root r)
  | .index c i => back_strict rfl (fun _ _ _ a => Jmes.index a i) (fun _ _ _ => by simp only [ievalO])
      (fun _ _ _ a => index_uv a i) (blame root c)
  | .indexCurrent i => back_leaf fun _ cur _ => by simp only [ievalO]; exact index_uv cur i
  | .smallIndexCurrent i => back_leaf fun _ cur _ => by simp only [ievalO]; exact index_uv cur i
  | .objectValues c => back_strict rfl (fun π _ _ a => pure (objectValuesO (π.sub 1) a))
      (fun _ _ _ => by simp only [ievalO]) (fun _ _ _ _ => Sat.pure _) (blame root c)
  | .objectValuesCurrent => back_leaf fun _ _ _ => by simp only [ievalO]; exact Sat.ok _
  | .pipe l r => back_pipe (blame root l) (blame root r)
  | .projectArray l r => back_projectArray (blame root l) (blame root r)
  | .projectArrayCurrent r => back_projectArrayCurrent (blame root r)
  | .projectObject l r => back_projectObject (blame root l) (blame root r)
  | .projectObjectCurrent r => back_projectObjectCurrent (blame root r)
  | .pruneArray c => back_strict rfl (fun _ _ _ a => pure (Jmes.pruneArray a)) (fun _ _ _ => by simp only [ievalO])
      (fun _ _ _ _ => Sat.pure _) (blame root c)
  | .pruneArrayCurrent => back_leaf fun _ _ _ => by simp only [ievalO]; exact Sat.ok _
  | .selectArray c fs => back_selectArray (blame root c) (blameAll root fs)
  | .selectArrayCurrent fs => back_selectArrayCurrent (blameAll root fs)
  | .selectArraySingle c f => back_selectArraySingle (blame root c) (blame root f)
  | .selectArraySingleCurrent f => back_selectArraySingleCurrent (blame root f)
  | .selectObject c fs => back_selectObject (blame root c) (blameFields root fs)
  | .selectObjectCurrent fs => back_selectObjectCurrent (blameFields root fs)
  | .selectObjectSingle c _ f => back_selectObjectSingle (blame root c) (blame root f)
  | .selectObjectSingleCurrent _ f => back_selectObjectSingleCurrent (blame root f)
  | .slice c a b => back_strict rfl (fun _ _ _ v => Jmes.slice v a b) (fun _ _ _ => by simp only [ievalO])
      (fun _ _ _ v => slice_uv v a b) (blame root c)
  | .sliceCurrent a b => back_leaf fun _ cur _ => by simp only [ievalO]; exact slice_uv cur a b
  | .sliceStep c a b s => back_strict rfl (fun _ _ _ v => Jmes.sliceStep v a b s) (fun _ _ _ => by simp only [ievalO])
      (fun _ _ _ v => sliceStep_uv v a b s) (blame root c)
  | .sliceStepCurrent a b s => back_leaf fun _ cur _ => by simp only [ievalO]; exact sliceStep_uv cur a b s
  | .groupBy a e => back_groupBy (blame root a) (blame root e)
  | .map e a => back_map (blame root a) (blame root e)
  | .maxBy a e => back_maxBy (blame root a) (blame root e)
  | .minBy a e => back_minBy (blame root a) (blame root e)
  | .sortBy a e => back_sortBy (blame root a) (blame root e)
  | .merge args => back_merge (blameAll root args)
  | .notNull args => back_notNull (blameAll root args)
  | .zip args => back_zip (blameAll root args)
theorem blameAll (root : Val) : (ns : List INode) → BackAll root ns
  | [] => fun _ h => by cases h
  | n :: ns => fun m hm => by
    rcases List.mem_cons.mp hm with h | h
    · exact h ▸ blame root n
    · exact blameAll root ns m h
theorem blameFields (root : Val) : (fs : List (Bytes × INode)) → BackFields root fs
  | [] => fun _ h => by cases h
  | (k, n) :: fs => fun p hp => by
    rcases List.mem_cons.mp hp with h | h
    · exact h ▸ blame root n
    · exact blameFields root fs p h
end

end back

/-! ## Part 5: scope -/

section scope
variable {root : Val}

/-- **The scope is handed down unchanged by every construct** — operators, pipes, projections, filters, multi-selects,
    function arguments and `&e` arguments, the binding expressions of a `let` — **except into the body of a `let`**,
    where the new bindings are put in front of it. -/
theorem Sub.scope {c c' : Cfg} (h : Sub root c c') :
    c'.env = c.env ∨
    ∃ vars child bs, c.n = .defineVariables vars child ∧ c' = ⟨c.π.sub 2, child, c.cur, bs ++ c.env⟩ ∧
      firstFailure ((c.π.sub 0).order (ievalMembersO (c.π.sub 1) root vars c.cur c.env)) [] = .ok bs := by
  cases h with
  | letBody hb => exact .inr ⟨_, _, _, rfl, rfl, hb⟩
  | callArg hs | listMem _ _ _ hs | mergeArg hs | notNullArg hs | zipArg hs => exact .inl hs.shape.2.2
  | letBind hm _ | hashMem _ _ _ hm _ => exact .inl hm.shape.2.2
  | _ => exact .inl rfl

/-- a step only ever puts bindings in front of the scope -/
theorem Sub.scope_prefix {c c' : Cfg} (h : Sub root c c') : ∃ bs, c'.env = bs ++ c.env := by
  rcases h.scope with e | ⟨_, _, bs, _, rfl, _⟩
  · exact ⟨[], e⟩
  · exact ⟨bs, rfl⟩

theorem Evaluated.scope_prefix {c c' : Cfg} (h : Evaluated root c c') : ∃ bs, c'.env = bs ++ c.env := by
  induction h with
  | refl => exact ⟨[], rfl⟩
  | step s _ ih =>
    obtain ⟨b1, e1⟩ := s.scope_prefix
    obtain ⟨b2, e2⟩ := ih
    exact ⟨b2 ++ b1, by rw [e2, e1, List.append_assoc]⟩

/-- a name that is bound stays bound in everything the run evaluates below (possibly to a value of an inner `let`) -/
theorem Evaluated.stays_bound {c c' : Cfg} (h : Evaluated root c c') {x : Bytes} (hx : c.env.get x ≠ none) :
    c'.env.get x ≠ none := by
  obtain ⟨bs, e⟩ := h.scope_prefix
  rw [e, Env.get_append]
  cases objLookup x bs with
  | some v => simp
  | none => simpa using hx

/-- what the steps out of a `let` are -/
theorem Sub.let_inv {π : Oracle} {vars : List (Bytes × INode)} {child : INode} {cur : Val} {env : Env} {c' : Cfg}
    (h : Sub root ⟨π, .defineVariables vars child, cur, env⟩ c') :
    (∃ k, MemAt (π.sub 1) vars cur env k c' ∧
      RunsFirst root ((π.sub 0).order (ievalMembersO (π.sub 1) root vars cur env)) k c') ∨
    (∃ bs, firstFailure ((π.sub 0).order (ievalMembersO (π.sub 1) root vars cur env)) [] = .ok bs ∧
      c' = ⟨π.sub 2, child, cur, bs ++ env⟩) := by
  cases h with
  | letBind hm hr => exact .inl ⟨_, hm, hr⟩
  | letBody hb => exact .inr ⟨_, hb, rfl⟩
  | head hh => simp [headOf] at hh
  | single hl => simp [singleOf] at hl
  | listMem hl => simp [listOf] at hl
  | hashMem hl => simp [hashOf] at hl
  | elem hl => simp [loopOf] at hl
  | fapPred hl => simp [fapOf] at hl
  | fapRhs hl => simp [fapOf] at hl

theorem members_keys (root : Val) : ∀ (fs : List (Bytes × INode)) (π : Oracle) (cur : Val) (env : Env),
    (ievalMembersO π root fs cur env).map Prod.fst = fs.map Prod.fst
  | [], _, _, _ => rfl
  | (k, n) :: rest, π, cur, env => by
    simp only [ievalMembersO, List.map_cons, members_keys root rest]

theorem firstFailure_ok_lookup {bs : List (Bytes × Val)} (x : Bytes) : ∀ (os : List (Bytes × Res Val)) (acc : List (Bytes × Val)),
    firstFailure os acc = .ok bs → x ∈ os.map Prod.fst ∨ objLookup x acc ≠ none → objLookup x bs ≠ none
  | [], acc, h, hx => by
    simp only [firstFailure, Res.ok.injEq] at h
    subst h
    simpa using hx
  | (k, r) :: os, acc, h, hx => by
    simp only [firstFailure] at h
    obtain ⟨v, _, h2⟩ := bind_ok_cases h
    refine firstFailure_ok_lookup x os _ h2 ?_
    rw [objLookup_objInsert]
    by_cases e : x = k
    · right; simp [e]
    · simp only [List.map_cons, List.mem_cons, e, false_or] at hx
      simpa [e] using hx

/-- the bindings a `let` puts in front of the scope bind every name written in it -/
theorem let_binds {π π' : Oracle} {vars : List (Bytes × INode)} {cur : Val} {env : Env} {bs : List (Bytes × Val)}
    (hb : firstFailure (π'.order (ievalMembersO π root vars cur env)) [] = .ok bs) {x : Bytes}
    (hx : x ∈ vars.map Prod.fst) : objLookup x bs ≠ none := by
  refine firstFailure_ok_lookup x _ _ hb (.inl ?_)
  have hp := (Oracle.order_perm π' (ievalMembersO π root vars cur env)).map Prod.fst
  rw [hp.mem_iff, members_keys]
  exact hx

end scope

end Jmes.C19E
