/-
  Helper for property C14, fourth round: congruence "up to declining".

  `sum`, `avg` and `sort` are not congruent for the outcome relation `RR` of `C14BLemmas.lean`: on a map-ordered
  array (or, for `sort`, on a tie between equal numbers of different spelling) the model answers `.nondet`
  ("declines") after a test that looks at the spellings, so one side may decline while the other answers a value.
  This file sets up the weaker outcome relations under which these builtins ARE congruent, and re-proves the
  congruence of every higher-order helper of the evaluator for them:

    * `RN R r r'`   — either side is `.nondet`, or `RR R r r'`  (the relation asked for);
    * `RNW R r r'`  — either side is `.nondet`, or both sides are a panic / unmodelled outcome (possibly not the same
                      one), or `RR R r r'`.

  Every helper that takes element functions (`projectArray`, …, `groupBy`) preserves both (`…_rn`, `…_rnw`; proved
  once for the family `RNG w`, `RN = RNG false`, `RNW = RNG true`).  `combineUnordered` (multi-select hashes, `let`
  bindings) preserves `RNW` but NOT `RN`: it lets a panic / unmodelled outcome of one field win over a `.nondet`
  of another field, so "left declines / right panics" in one field and "both unmodelled" in another combine to
  "left unmodelled / right panics" (`combineUnordered_rn_false` below; `C14ENondet2.lean` has the counterexample at
  the level of `evaluate`).  The structural induction is therefore carried out for `RNW` (`C14ENondet2.lean`).
-/
import Jmes.Proofs.C14ELemmas
namespace Jmes
namespace C14E
open C14 C14B

/-! ## 1. the relations -/

/-- either run declines (`.nondet`), or the outcomes are related -/
def RN {α β : Type} (R : α → β → Prop) (r : Res α) (r' : Res β) : Prop :=
  r = .nondet ∨ r' = .nondet ∨ RR R r r'

/-- the outcome is a panic or an `unmodelled` -/
def Bad {α : Type} : Res α → Prop
  | .panic _ => True
  | .unmodelled _ => True
  | _ => False

/-- the family: either run declines, or (when `w`) both runs end in a panic / unmodelled outcome, or related -/
def RNG (w : Bool) {α β : Type} (R : α → β → Prop) (r : Res α) (r' : Res β) : Prop :=
  r = .nondet ∨ r' = .nondet ∨ (w = true ∧ Bad r ∧ Bad r') ∨ RR R r r'

/-- either run declines, or both runs end in a panic / unmodelled outcome (not necessarily the same), or the outcomes
    are related.  In particular: a value or an error on one side means the related value / the same error on the
    other side, or `.nondet` there. -/
abbrev RNW {α β : Type} (R : α → β → Prop) (r : Res α) (r' : Res β) : Prop := RNG true R r r'

section
variable {w : Bool} {α β γ δ : Type} {R : α → β → Prop} {S : γ → δ → Prop}

theorem rn_iff_rng {r : Res α} {r' : Res β} : RN R r r' ↔ RNG false R r r' := by
  simp [RN, RNG]

theorem RN.toG {r : Res α} {r' : Res β} (h : RN R r r') : RNG w R r r' := by
  rcases h with h | h | h
  · exact .inl h
  · exact .inr (.inl h)
  · exact .inr (.inr (.inr h))

theorem RN.ofG {r : Res α} {r' : Res β} (h : RNG false R r r') : RN R r r' := rn_iff_rng.mpr h

theorem RN.of_rr {r : Res α} {r' : Res β} (h : RR R r r') : RN R r r' := .inr (.inr h)

theorem RNG.of_rr {r : Res α} {r' : Res β} (h : RR R r r') : RNG w R r r' := .inr (.inr (.inr h))

theorem RNG.ok' {a : α} {b : β} (h : R a b) : RNG w R (.ok a) (.ok b) := RNG.of_rr h

theorem RNG.nl {r' : Res β} : RNG w R (.nondet : Res α) r' := .inl rfl

theorem RNG.nr {r : Res α} : RNG w R r (.nondet : Res β) := .inr (.inl rfl)

theorem RNG.of_false {r : Res α} {r' : Res β} (h : RNG false R r r') : RNG w R r r' := (RN.ofG h).toG

/-- `RNW` is `RN` when one of the two outcomes is not a panic / unmodelled -/
theorem RN.of_rnw {r : Res α} {r' : Res β} (h : RNW R r r') (hb : ¬ (Bad r ∧ Bad r')) : RN R r r' := by
  rcases h with h | h | h | h
  · exact .inl h
  · exact .inr (.inl h)
  · exact absurd h.2 hb
  · exact .inr (.inr h)

/-- two settled outcomes (values or errors) in `RNG` are related outright -/
theorem RNG.rr_of_settled {r : Res α} {r' : Res β} (h : RNG w R r r') (h1 : unsOf r = false) (h2 : unsOf r' = false) :
    RR R r r' := by
  cases r <;> cases r' <;> simp only [unsOf, Bool.true_eq_false] at h1 h2 <;>
    (rcases h with h | h | h | h <;> first | exact h | (simp at h; done) | (simp [Bad] at h; done))

theorem RNG.bind {x : Res α} {y : Res β} {f : α → Res γ} {g : β → Res δ} (h : RNG w R x y)
    (hf : ∀ a b, R a b → RNG w S (f a) (g b)) : RNG w S (x >>= f) (y >>= g) := by
  rcases h with h | h | h | h
  · subst h; exact .inl rfl
  · subst h; exact .inr (.inl rfl)
  · obtain ⟨hw, h1, h2⟩ := h
    cases x <;> simp only [Bad] at h1 <;> cases y <;> simp only [Bad] at h2 <;>
      exact .inr (.inr (.inl ⟨hw, by simp [Bad], by simp [Bad]⟩))
  · cases x <;> cases y <;> simp only [RR] at h <;>
      simp only [Res.ok_bind, Res.err_bind, Res.panic_bind, Res.nondet_bind, Res.unmodelled_bind]
    · exact hf _ _ h
    all_goals first | exact .inl rfl | exact RNG.of_rr (by simpa only [RR] using h)

theorem RN.bind {x : Res α} {y : Res β} {f : α → Res γ} {g : β → Res δ} (h : RN R x y)
    (hf : ∀ a b, R a b → RN S (f a) (g b)) : RN S (x >>= f) (y >>= g) :=
  RN.ofG (RNG.bind h.toG (fun a b hab => (hf a b hab).toG))

theorem RNG.mono {R' : α → β → Prop} {r : Res α} {r' : Res β} (h : RNG w R r r') (hR : ∀ a b, R a b → R' a b) :
    RNG w R' r r' := by
  rcases h with h | h | h | h
  · exact .inl h
  · exact .inr (.inl h)
  · exact .inr (.inr (.inl h))
  · exact .inr (.inr (.inr (h.mono hR)))

theorem rg_errType : RNG w R (errType : Res α) (errType : Res β) := RNG.of_rr rr_errType

end

-- `RN.bind`: left declines, right fails
example : RN (fun (a b : Nat) => a = b) ((.nondet : Res Nat) >>= fun n => .ok (n + 1))
    ((.err [Cat.invalidType] : Res Nat) >>= fun n => .ok (n + 1)) :=
  RN.bind (R := fun (a b : Nat) => a = b) (.inl rfl) (fun a b hab => .inr (.inr (by subst hab; simp [RR])))

-- `RNW` is strictly weaker than `RN` …
example : RNW (fun (a b : Nat) => a = b) (.panic "a") (.unmodelled "b") ∧
    ¬ RN (fun (a b : Nat) => a = b) (.panic "a") (.unmodelled "b") := by
  simp [RNG, RN, Bad, RR]

-- … but still relates a value only to the related value or to a decline
example : ¬ RNW (fun (a b : Nat) => a = b) (.ok 1) (.panic "b") ∧ ¬ RNW (fun (a b : Nat) => a = b) (.ok 1) (.ok 2) ∧
    ¬ RNW (fun (a b : Nat) => a = b) (.ok 1) (.err []) := by
  simp [RNG, Bad, RR]

section
variable {nf : Bool} {w : Bool}

/-- `f` and `f'` map related values to outcomes related up to declining -/
def FRG (w : Bool) (nf : Bool) (f f' : Val → Res Val) : Prop := ∀ x x', VR nf x x' → RNG w (VR nf) (f x) (f' x')

/-! ## 2. `widen` -/

theorem flatMap_errs_settled {g g' : Val → List Cat} {u u' : Val → Bool}
    (hg : ∀ x x', VR nf x x' → u x = false → u' x' = false → g x = g' x') :
    ∀ {xs xs' : List Val}, VRL nf xs xs' → xs.any u = false → xs'.any u' = false → xs.flatMap g = xs'.flatMap g'
  | [], [], _, _, _ => rfl
  | [], _ :: _, h, _, _ => by simp [VRL] at h
  | _ :: _, [], h, _, _ => by simp [VRL] at h
  | x :: xs, x' :: xs', h, h1, h2 => by
    simp only [VRL] at h
    simp only [List.any_cons, Bool.or_eq_false_iff] at h1 h2
    simp only [List.flatMap_cons, hg x x' h.1 h1.1 h2.1, flatMap_errs_settled hg h.2 h1.2 h2.2]

/-- `widen` preserves `RNG`: on a map-ordered array with an error outcome it inspects the outcome of every element
    function on every element; an element with an unsettled outcome on one side makes that side `.nondet`; if all are
    settled on both sides they are related outright and contribute the same categories. -/
theorem widen_rg {α β : Type} {R : α → β → Prop} {t : ATag} {xs xs' : List Val} {fs fs' : List (Val → Res Val)}
    {extra : List Cat} {r : Res α} {r' : Res β} (hx : VRL nf xs xs')
    (herr : ∀ x x', VR nf x x' → fs.any (fun f => unsOf (f x)) = false → fs'.any (fun f => unsOf (f x')) = false →
      fs.flatMap (fun f => errsOf (f x)) = fs'.flatMap (fun f => errsOf (f x')))
    (h : RNG w R r r') : RNG w R (widen t xs fs extra r) (widen t xs' fs' extra r') := by
  rcases h with h | h | h | h
  · subst h; exact .inl (by simp only [widen_def])
  · subst h; exact .inr (.inl (by simp only [widen_def]))
  · obtain ⟨hw, h1, h2⟩ := h
    cases r <;> simp only [Bad] at h1 <;> cases r' <;> simp only [Bad] at h2 <;> simp only [widen_def] <;>
      exact .inr (.inr (.inl ⟨hw, by simp [Bad], by simp [Bad]⟩))
  · cases r <;> cases r' <;> simp only [RR] at h <;> simp only [widen_def] <;> try exact RNG.of_rr h
    subst h
    rw [← enum2_vrl t hx]
    by_cases he : enum2 t xs = true
    · simp only [he, if_true]
      by_cases u1 : (xs.any fun x => fs.any fun f => unsOf (f x)) = true
      · simp only [u1, if_true]; exact .inl rfl
      · by_cases u2 : (xs'.any fun x => fs'.any fun f => unsOf (f x)) = true
        · simp only [u2, if_true]; exact .inr (.inl rfl)
        · simp only [u1, u2]
          simp only [Bool.not_eq_true] at u1 u2
          rw [flatMap_errs_settled herr hx u1 u2]
          exact RNG.of_rr (by simp [RR])
    · simp only [he]; exact RNG.of_rr (by simp [RR])

theorem widen1_rg {α β : Type} {R : α → β → Prop} {t : ATag} {xs xs' : List Val} {f f' : Val → Res Val}
    {extra : List Cat} {r : Res α} {r' : Res β} (hx : VRL nf xs xs') (hf : FRG w nf f f')
    (h : RNG w R r r') : RNG w R (widen t xs [f] extra r) (widen t xs' [f'] extra r') := by
  refine widen_rg hx (fun x x' hxx u1 u2 => ?_) h
  simp only [List.any_cons, List.any_nil, Bool.or_false] at u1 u2
  simp only [List.flatMap_cons, List.flatMap_nil, List.append_nil]
  exact errs_of_rr ((hf x x' hxx).rr_of_settled u1 u2)

theorem widen2_rg {α β : Type} {R : α → β → Prop} {t : ATag} {xs xs' : List Val} {c c' f f' : Val → Res Val}
    {extra : List Cat} {r : Res α} {r' : Res β} (hx : VRL nf xs xs') (hc : FRG w nf c c') (hf : FRG w nf f f')
    (h : RNG w R r r') : RNG w R (widen t xs [c, f] extra r) (widen t xs' [c', f'] extra r') := by
  refine widen_rg hx (fun x x' hxx u1 u2 => ?_) h
  simp only [List.any_cons, List.any_nil, Bool.or_false, Bool.or_eq_false_iff] at u1 u2
  simp only [List.flatMap_cons, List.flatMap_nil, List.append_nil]
  rw [errs_of_rr ((hc x x' hxx).rr_of_settled u1.1 u2.1), errs_of_rr ((hf x x' hxx).rr_of_settled u1.2 u2.2)]

/-! ## 3. the projection loops -/

theorem mapPrune_rg {f f' : Val → Res Val} (hf : FRG w nf f f') : ∀ {xs xs' : List Val}, VRL nf xs xs' →
    RNG w (VRL nf) (mapPrune f xs) (mapPrune f' xs')
  | [], [], _ => by simp only [mapPrune]; exact RNG.ok' vrl_nil
  | [], _ :: _, h => by simp [VRL] at h
  | _ :: _, [], h => by simp [VRL] at h
  | x :: xs, x' :: xs', h => by
    simp only [VRL] at h
    simp only [mapPrune]
    refine RNG.bind (hf x x' h.1) (fun p p' hp => RNG.bind (mapPrune_rg hf h.2) (fun r r' hr => ?_))
    simp only [Res.pure_eq, isNull_vr hp]
    split
    · exact RNG.ok' hr
    · exact RNG.ok' (vrl_cons hp hr)

theorem mapAll_rg {f f' : Val → Res Val} (hf : FRG w nf f f') : ∀ {xs xs' : List Val}, VRL nf xs xs' →
    RNG w (VRL nf) (mapAll f xs) (mapAll f' xs')
  | [], [], _ => by simp only [mapAll]; exact RNG.ok' vrl_nil
  | [], _ :: _, h => by simp [VRL] at h
  | _ :: _, [], h => by simp [VRL] at h
  | x :: xs, x' :: xs', h => by
    simp only [VRL] at h
    simp only [mapAll]
    exact RNG.bind (hf x x' h.1) (fun p p' hp => RNG.bind (mapAll_rg hf h.2) (fun r r' hr => RNG.ok' (vrl_cons hp hr)))

theorem filterMapPrune_rg {c c' f f' : Val → Res Val} (hc : FRG w nf c c') (hf : FRG w nf f f') :
    ∀ {xs xs' : List Val}, VRL nf xs xs' → RNG w (VRL nf) (filterMapPrune c f xs) (filterMapPrune c' f' xs')
  | [], [], _ => by simp only [filterMapPrune]; exact RNG.ok' vrl_nil
  | [], _ :: _, h => by simp [VRL] at h
  | _ :: _, [], h => by simp [VRL] at h
  | x :: xs, x' :: xs', h => by
    simp only [VRL] at h
    simp only [filterMapPrune]
    refine RNG.bind (hc x x' h.1) (fun b b' hb => ?_)
    rw [isTrue_vr hb]
    split
    · refine RNG.bind (hf x x' h.1) (fun p p' hp => RNG.bind (filterMapPrune_rg hc hf h.2) (fun r r' hr => ?_))
      simp only [Res.pure_eq, isNull_vr hp]
      split
      · exact RNG.ok' hr
      · exact RNG.ok' (vrl_cons hp hr)
    · exact filterMapPrune_rg hc hf h.2

/-- `e[*].f`-style projection of an array: congruent up to declining when the element function is -/
theorem projectArray_rg {f f' : Val → Res Val} (hf : FRG w nf f f') {v v' : Val} (h : VR nf v v') :
    RNG w (VR nf) (projectArray f v) (projectArray f' v') := by
  cases v <;> cases v' <;> simp only [VR] at h <;> try (simp only [projectArray]; exact RNG.ok' vr_null)
  next t xs u ys =>
  obtain ⟨rfl, h⟩ := h
  simp only [projectArray]
  exact widen1_rg h hf (RNG.bind (mapPrune_rg hf h) (fun r r' hr => RNG.ok' (vr_arr hr)))

theorem mapArray_rg {f f' : Val → Res Val} (hf : FRG w nf f f') {v v' : Val} (h : VR nf v v') :
    RNG w (VR nf) (mapArray f v) (mapArray f' v') := by
  cases v <;> cases v' <;> simp only [VR] at h <;> try (simp only [mapArray]; exact rg_errType)
  next t xs u ys =>
  obtain ⟨rfl, h⟩ := h
  simp only [mapArray]
  exact widen1_rg h hf (RNG.bind (mapAll_rg hf h) (fun r r' hr => RNG.ok' (vr_arr hr)))

theorem filterAndProjectArray_rg {c c' f f' : Val → Res Val} (hc : FRG w nf c c') (hf : FRG w nf f f') {v v' : Val}
    (h : VR nf v v') : RNG w (VR nf) (filterAndProjectArray c f v) (filterAndProjectArray c' f' v') := by
  cases v <;> cases v' <;> simp only [VR] at h <;> try (simp only [filterAndProjectArray]; exact RNG.ok' vr_null)
  next t xs u ys =>
  obtain ⟨rfl, h⟩ := h
  simp only [filterAndProjectArray]
  exact widen2_rg h hc hf (RNG.bind (filterMapPrune_rg hc hf h) (fun r r' hr => RNG.ok' (vr_arr hr)))

theorem flattenAndProjectArray_rg {f f' : Val → Res Val} (hf : FRG w nf f f') {v v' : Val} (h : VR nf v v') :
    RNG w (VR nf) (flattenAndProjectArray f v) (flattenAndProjectArray f' v') := by
  cases v <;> cases v' <;> simp only [VR] at h <;> try (simp only [flattenAndProjectArray]; exact RNG.ok' vr_null)
  next t xs u ys =>
  obtain ⟨rfl, h⟩ := h
  simp only [flattenAndProjectArray, flattenTag_vrl t h]
  have hfl := flattenForProject_vrl h
  exact widen1_rg (vrl_append hfl (vrl_cons vr_null (vrl_cons vr_null vrl_nil))) hf
    (RNG.bind (mapPrune_rg hf hfl) (fun r r' hr => RNG.ok' (vr_arr hr)))

theorem projectObject_rg {f f' : Val → Res Val} (hf : FRG w nf f f') {v v' : Val} (h : VR nf v v') :
    RNG w (VR nf) (projectObject f v) (projectObject f' v') := by
  cases v <;> cases v' <;> simp only [VR] at h <;> try (simp only [projectObject]; exact RNG.ok' vr_null)
  next xs ys =>
  simp only [projectObject]
  exact widen1_rg (vrf_values h) hf (RNG.bind (mapPrune_rg hf (vrf_values h)) (fun r r' hr => RNG.ok' (vr_arr hr)))

/-! ## 4. keys: `sort_by`, `max_by`, `min_by` -/

theorem keysFrom_rg {f f' : Val → Res Val} (hf : FRG w nf f f') (isStr : Bool) : ∀ {xs xs' : List Val}, VRL nf xs xs' →
    RNG w (L2 KR) (keysFrom f isStr xs) (keysFrom f' isStr xs')
  | [], [], _ => by simp only [keysFrom]; exact RNG.ok' l2_nil
  | [], _ :: _, h => by simp [VRL] at h
  | _ :: _, [], h => by simp [VRL] at h
  | x :: xs, x' :: xs', h => by
    simp only [VRL] at h
    simp only [keysFrom]
    refine RNG.bind (hf x x' h.1) (fun rv rv' hrv => RNG.bind (R := KR) ?_
      (fun k k' hk => RNG.bind (keysFrom_rg hf isStr h.2) (fun r r' hr => RNG.ok' (l2_cons hk hr))))
    cases isStr
    · simp only [Bool.false_eq_true, if_false]
      rcases toDecimal_equiv (vr_equiv _ _ hrv) with ⟨e1, e2⟩ | ⟨d, d', e1, e2, e3⟩
      · simp only [e1, e2]; exact rg_errType
      · simp only [e1, e2]; exact RNG.ok' (by simp only [KR]; exact e3)
    · simp only [if_true]
      cases rv <;> cases rv' <;> simp only [VR] at hrv <;> try exact rg_errType
      subst hrv
      exact RNG.ok' (by simp [KR])

theorem keysOf_rg {f f' : Val → Res Val} (hf : FRG w nf f f') : ∀ {xs xs' : List Val}, VRL nf xs xs' →
    RNG w (L2 KR) (keysOf f xs) (keysOf f' xs')
  | [], [], _ => by simp only [keysOf]; exact RNG.ok' l2_nil
  | [], _ :: _, h => by simp [VRL] at h
  | _ :: _, [], h => by simp [VRL] at h
  | x :: xs, x' :: xs', h => by
    simp only [VRL] at h
    simp only [keysOf]
    refine RNG.bind (hf x x' h.1) (fun first first' hfi => ?_)
    have hnum : ∀ (a a' : Val), VR nf a a' → (∀ s, a ≠ .str s) → (∀ s, a' ≠ .str s) →
        RNG w (L2 KR)
          (match toDecimal a with
            | none => errType
            | some d => do let rest ← keysFrom f false xs; pure (Key.n d :: rest))
          (match toDecimal a' with
            | none => errType
            | some d => do let rest ← keysFrom f' false xs'; pure (Key.n d :: rest)) := by
      intro a a' haa _ _
      rcases toDecimal_equiv (vr_equiv _ _ haa) with ⟨e1, e2⟩ | ⟨d, d', e1, e2, e3⟩
      · simp only [e1, e2]; exact rg_errType
      · simp only [e1, e2]
        exact RNG.bind (keysFrom_rg hf false h.2) (fun r r' hr => RNG.ok' (l2_cons (by simp only [KR]; exact e3) hr))
    cases first <;> cases first' <;> simp only [VR] at hfi
    · exact hnum .null .null vr_null (by simp) (by simp)
    · next b b' => exact hnum (.bool b) (.bool b') (by simp only [VR]; exact hfi) (by simp) (by simp)
    · subst hfi
      exact RNG.bind (keysFrom_rg hf true h.2) (fun r r' hr => RNG.ok' (l2_cons (by simp [KR]) hr))
    · next a a' => exact hnum (.num a) (.num a') (by simp only [VR]; exact hfi) (by simp) (by simp)
    · next t a u a' => exact hnum (.arr t a) (.arr u a') (by simp only [VR]; exact hfi) (by simp) (by simp)
    · next a a' => exact hnum (.obj a) (.obj a') (by simp only [VR]; exact hfi) (by simp) (by simp)
    · next a a' => exact hnum (.foreign a) (.foreign a') (by simp only [VR]; exact hfi) (by simp) (by simp)

theorem arrayPickBy_rg {better : Key → Key → Bool} (hb : BetterOK better) {f f' : Val → Res Val} (hf : FRG w nf f f')
    {v v' : Val} (h : VR nf v v') : RNG w (VR nf) (arrayPickBy better f v) (arrayPickBy better f' v') := by
  cases v <;> cases v' <;> simp only [VR] at h <;> try (simp only [arrayPickBy]; exact rg_errType)
  next t xs u ys =>
  obtain ⟨rfl, h⟩ := h
  cases xs with
  | nil => cases ys with
    | nil => simp only [arrayPickBy]; exact RNG.ok' vr_null
    | cons _ _ => simp [VRL] at h
  | cons x0 rest => cases ys with
    | nil => simp [VRL] at h
    | cons y0 rest' =>
      simp only [arrayPickBy]
      refine widen1_rg h hf (RNG.bind (keysOf_rg hf h) (fun ks ks' hks => ?_))
      cases ks with
      | nil => cases ks' with
        | nil => exact RNG.ok' vr_null
        | cons _ _ => simp [L2] at hks
      | cons k0 krest => cases ks' with
        | nil => simp [L2] at hks
        | cons k0' krest' =>
          simp only [enum2_vrl t h, uniqueExtremum_kr hb hks]
          simp only [VRL] at h
          simp only [L2] at hks
          split
          · exact RNG.nl
          · exact RNG.ok' (pickBy_vr hb h.2 hks.2 h.1 hks.1)

theorem arrayMaxBy_rg {f f' : Val → Res Val} (hf : FRG w nf f f') {v v' : Val} (h : VR nf v v') :
    RNG w (VR nf) (arrayMaxBy f v) (arrayMaxBy f' v') :=
  arrayPickBy_rg (fun _ _ _ _ ha hb => key_gtMax_kr ha hb) hf h

theorem arrayMinBy_rg {f f' : Val → Res Val} (hf : FRG w nf f f') {v v' : Val} (h : VR nf v v') :
    RNG w (VR nf) (arrayMinBy f v) (arrayMinBy f' v') :=
  arrayPickBy_rg (fun _ _ _ _ ha hb => key_ltMin_kr ha hb) hf h

theorem sortArrayBy_rg {f f' : Val → Res Val} (hf : FRG w nf f f') {v v' : Val} (h : VR nf v v') :
    RNG w (VR nf) (sortArrayBy f v) (sortArrayBy f' v') := by
  cases v <;> cases v' <;> simp only [VR] at h <;> try (simp only [sortArrayBy]; exact rg_errType)
  next t xs u ys =>
  obtain ⟨rfl, h⟩ := h
  simp only [sortArrayBy]
  have he : xs.isEmpty = ys.isEmpty := by
    have := vrl_length h
    cases xs <;> cases ys <;> simp at this <;> rfl
  rw [he]
  split
  · exact RNG.ok' (vr_arr h)
  · refine widen1_rg h hf (RNG.bind (keysOf_rg hf h) (fun ks ks' hks => ?_))
    simp only [enum2_vrl t h, keysDistinct_kr hks]
    split
    · exact RNG.nl
    · exact RNG.ok' (vr_arr (sortByKeys_vrl h hks))

/-! ## 5. `group_by` -/

theorem groupLoop_rg {f f' : Val → Res Val} (hf : FRG w nf f f') :
    ∀ {xs xs' : List Val} {acc acc' : List (Bytes × List Val)},
      VRL nf xs xs' → L2 (GR nf) acc acc' → RNG w (L2 (GR nf)) (groupLoop f xs acc) (groupLoop f' xs' acc')
  | [], [], _, _, _, ha => by simp only [groupLoop]; exact RNG.ok' ha
  | [], _ :: _, _, _, h, _ => by simp [VRL] at h
  | _ :: _, [], _, _, h, _ => by simp [VRL] at h
  | x :: xs, x' :: xs', acc, acc', h, ha => by
    simp only [VRL] at h
    simp only [groupLoop]
    refine RNG.bind (hf x x' h.1) (fun rv rv' hrv => ?_)
    cases rv <;> cases rv' <;> simp only [VR] at hrv <;> try exact rg_errType
    subst hrv
    exact groupLoop_rg hf h.2 (groupInsert_gr h.1 ha)

theorem groupBy_rg {f f' : Val → Res Val} (hf : FRG w nf f f') {v v' : Val} (h : VR nf v v') :
    RNG w (VR nf) (groupBy f v) (groupBy f' v') := by
  cases v <;> cases v' <;> simp only [VR] at h <;> try (simp only [groupBy]; exact rg_errType)
  next t xs u ys =>
  obtain ⟨rfl, h⟩ := h
  simp only [groupBy]
  have he : xs.isEmpty = ys.isEmpty := by
    have := vrl_length h
    cases xs <;> cases ys <;> simp at this <;> rfl
  rw [he]
  split
  · exact RNG.ok' vr_null
  · exact widen1_rg h hf (RNG.bind (groupLoop_rg hf h l2_nil) (fun gs gs' hgs => RNG.ok' (vr_obj (groups_vrf _ hgs))))

/-! ## 6. multi-select hashes: `combineUnordered` -/

/-- `combineUnordered` preserves `RNW` … -/
theorem combineUnordered_rnw {acc acc' : Res (List (Bytes × Val))} {r r' : Res Val} (k : Bytes)
    (h1 : RNW (VRF nf) acc acc') (h2 : RNW (VR nf) r r') :
    RNW (VRF nf) (combineUnordered acc k r) (combineUnordered acc' k r') := by
  by_cases s1 : unsOf acc = false ∧ unsOf acc' = false ∧ unsOf r = false ∧ unsOf r' = false
  · exact RNG.of_rr (combineUnordered_rr k (h1.rr_of_settled s1.1 s1.2.1) (h2.rr_of_settled s1.2.2.1 s1.2.2.2))
  · -- some outcome is unsettled: both combinations are unsettled, and a `.nondet` input that does not come out as
    -- `.nondet` was overridden by a panic / unmodelled outcome, which the other side shares or overrides likewise
    cases acc <;> cases acc' <;> cases r <;> cases r' <;>
      simp only [unsOf, Bool.true_eq_false, and_self, and_true, and_false, not_true_eq_false,
        not_false_eq_true] at s1 <;>
      simp only [combineUnordered] <;>
      first
        | exact RNG.nl
        | exact RNG.nr
        | exact .inr (.inr (.inl ⟨rfl, True.intro, True.intro⟩))
        | (exfalso; rcases h1 with h | h | h | h <;> simp [Bad, RR] at h; done)
        | (exfalso; rcases h2 with h | h | h | h <;> simp [Bad, RR] at h; done)

end

/-- … but not `RN`: the second field declines on the left and is unmodelled on the right; the first field is
    unmodelled (for another reason) on both sides.  `combineUnordered` lets an unmodelled outcome win over `.nondet`,
    and the accumulated outcome over the new one. -/
theorem combineUnordered_rn_false :
    RN (VRF true) (.nondet : Res (List (Bytes × Val))) (.unmodelled "u1") ∧
    RN (VR true) (.unmodelled "u2" : Res Val) (.unmodelled "u2") ∧
    ¬ RN (VRF true) (combineUnordered .nondet [0x61] (.unmodelled "u2"))
        (combineUnordered (.unmodelled "u1") [0x61] (.unmodelled "u2")) := by
  refine ⟨.inl rfl, .inr (.inr (by simp [RR])), ?_⟩
  simp only [combineUnordered]
  rintro (h | h | h)
  · cases h
  · cases h
  · simp [RR] at h

-- `combineUnordered_rnw` on that input: both combinations are unmodelled
example : RNW (VRF true) (combineUnordered .nondet [0x61] (.unmodelled "u2"))
    (combineUnordered (.unmodelled "u1") [0x61] (.unmodelled "u2")) :=
  combineUnordered_rnw [0x61] RNG.nl (RNG.of_rr (by simp [RR]))

/-! ## 7. the helpers for `RN` itself

  Every higher-order helper preserves the relation asked for, `RN` (the `w = false` instance of the above); only
  `combineUnordered` does not. -/

section
variable {nf : Bool}

/-- `f` and `f'` map related values to outcomes that are related unless either side declines -/
abbrev FRN (nf : Bool) (f f' : Val → Res Val) : Prop := ∀ x x', VR nf x x' → RN (VR nf) (f x) (f' x')

theorem FRN.toG {f f' : Val → Res Val} (hf : FRN nf f f') : FRG false nf f f' := fun x x' h => (hf x x' h).toG

theorem widen1_rn {α β : Type} {R : α → β → Prop} {t : ATag} {xs xs' : List Val} {f f' : Val → Res Val}
    {extra : List Cat} {r : Res α} {r' : Res β} (hx : VRL nf xs xs') (hf : FRN nf f f')
    (h : RN R r r') : RN R (widen t xs [f] extra r) (widen t xs' [f'] extra r') :=
  RN.ofG (widen1_rg hx hf.toG h.toG)

theorem widen2_rn {α β : Type} {R : α → β → Prop} {t : ATag} {xs xs' : List Val} {c c' f f' : Val → Res Val}
    {extra : List Cat} {r : Res α} {r' : Res β} (hx : VRL nf xs xs') (hc : FRN nf c c') (hf : FRN nf f f')
    (h : RN R r r') : RN R (widen t xs [c, f] extra r) (widen t xs' [c', f'] extra r') :=
  RN.ofG (widen2_rg hx hc.toG hf.toG h.toG)

theorem projectArray_rn {f f' : Val → Res Val} (hf : FRN nf f f') {v v' : Val} (h : VR nf v v') :
    RN (VR nf) (projectArray f v) (projectArray f' v') := RN.ofG (projectArray_rg hf.toG h)

theorem mapArray_rn {f f' : Val → Res Val} (hf : FRN nf f f') {v v' : Val} (h : VR nf v v') :
    RN (VR nf) (mapArray f v) (mapArray f' v') := RN.ofG (mapArray_rg hf.toG h)

theorem filterAndProjectArray_rn {c c' f f' : Val → Res Val} (hc : FRN nf c c') (hf : FRN nf f f') {v v' : Val}
    (h : VR nf v v') : RN (VR nf) (filterAndProjectArray c f v) (filterAndProjectArray c' f' v') :=
  RN.ofG (filterAndProjectArray_rg hc.toG hf.toG h)

theorem flattenAndProjectArray_rn {f f' : Val → Res Val} (hf : FRN nf f f') {v v' : Val} (h : VR nf v v') :
    RN (VR nf) (flattenAndProjectArray f v) (flattenAndProjectArray f' v') :=
  RN.ofG (flattenAndProjectArray_rg hf.toG h)

theorem projectObject_rn {f f' : Val → Res Val} (hf : FRN nf f f') {v v' : Val} (h : VR nf v v') :
    RN (VR nf) (projectObject f v) (projectObject f' v') := RN.ofG (projectObject_rg hf.toG h)

theorem arrayMaxBy_rn {f f' : Val → Res Val} (hf : FRN nf f f') {v v' : Val} (h : VR nf v v') :
    RN (VR nf) (arrayMaxBy f v) (arrayMaxBy f' v') := RN.ofG (arrayMaxBy_rg hf.toG h)

theorem arrayMinBy_rn {f f' : Val → Res Val} (hf : FRN nf f f') {v v' : Val} (h : VR nf v v') :
    RN (VR nf) (arrayMinBy f v) (arrayMinBy f' v') := RN.ofG (arrayMinBy_rg hf.toG h)

theorem sortArrayBy_rn {f f' : Val → Res Val} (hf : FRN nf f f') {v v' : Val} (h : VR nf v v') :
    RN (VR nf) (sortArrayBy f v) (sortArrayBy f' v') := RN.ofG (sortArrayBy_rg hf.toG h)

theorem groupBy_rn {f f' : Val → Res Val} (hf : FRN nf f f') {v v' : Val} (h : VR nf v v') :
    RN (VR nf) (groupBy f v) (groupBy f' v') := RN.ofG (groupBy_rg hf.toG h)

/-- `combineUnordered` preserves `RN` when no outcome involved is a panic / unmodelled -/
theorem combineUnordered_rn {acc acc' : Res (List (Bytes × Val))} {r r' : Res Val} (k : Bytes)
    (h1 : RN (VRF nf) acc acc') (h2 : RN (VR nf) r r') (ha : ¬ Bad acc) (ha' : ¬ Bad acc') (hr : ¬ Bad r)
    (hr' : ¬ Bad r') : RN (VRF nf) (combineUnordered acc k r) (combineUnordered acc' k r') := by
  refine RN.of_rnw (combineUnordered_rnw k h1.toG h2.toG) ?_
  cases acc <;> simp only [Bad, not_true_eq_false] at ha <;> cases acc' <;> simp only [Bad, not_true_eq_false] at ha' <;>
    cases r <;> simp only [Bad, not_true_eq_false] at hr <;> cases r' <;> simp only [Bad, not_true_eq_false] at hr' <;>
    simp [combineUnordered, Bad]

end

-- `combineUnordered_rn`: the first field declines on the left, the second is an error on both sides
example : RN (VRF true) (combineUnordered .nondet [0x61] (.err [Cat.invalidType]))
    (combineUnordered (.ok []) [0x61] (.err [Cat.invalidType])) :=
  combineUnordered_rn [0x61] (.inl rfl) (.inr (.inr (by simp [RR]))) (by simp [Bad]) (by simp [Bad]) (by simp [Bad])
    (by simp [Bad])

/-- a map-ordered array of two ones, the first spelled `1` resp. `1.000…0` (34 digits): `sum` answers on the left,
    declines on the right (it cannot show the sum order-independent) -/
def exEnum : Val := .arr .enum [.num (.dec (.fin false 1 0)), .num (.dec (.fin false 1 0))]
def exEnum' : Val := .arr .enum [.num (.dec (.fin false (10 ^ 33) (-33))), .num (.dec (.fin false 1 0))]

example : (match numSum exEnum, numSum exEnum' with
    | .ok (.num (.dec (.fin false 2 0))), .nondet => true | _, _ => false) = true := by decide

end C14E
end Jmes
