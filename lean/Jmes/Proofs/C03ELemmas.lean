/-
  Helper for C03E: an invariant of the parser.

  Every slice / index node built by `Parser.parse` carries Go `int` (int64) bounds, and every stepped slice a non-zero
  Go `int` step.  (Go: parser.go `index` reads the numbers with `strconv.Atoi`, which fails on a literal outside int64;
  a missing bound is `math.MaxInt` / `math.MinInt`; a zero step is the error `invalid-slice-step`.)

  The proof follows `Proofs/C08BArity.lean` (`Post`, one statement per function of the mutual block, induction on the
  fuel).  The new ingredient is `indexP_ok`: the three phases of the bracket specifier (`C04.startPhase`, `C04.stopPhase`,
  `C04.stepPhase`) are followed keeping the facts "`start` is an int64", "`stop` is an int64", obtained from
  `C09.parseInt64_in_range` at each `atoi`.
-/
import Jmes.Proofs.C08BArity
import Jmes.Properties.C04
import Jmes.Properties.C09
namespace Jmes.C03E
open Parser ParserLits Invar

/-- a Go `int` (int64) -/
def in64 (i : Int) : Bool := decide (-2 ^ 63 ≤ i ∧ i ≤ 2 ^ 63 - 1)

/-- per-node requirement: slice bounds and indices are int64, a slice step is a non-zero int64 -/
def sliceHead : INode → Bool
  | .sliceStep _ a b st => in64 a && in64 b && in64 st && decide (st ≠ 0)
  | .sliceStepCurrent a b st => in64 a && in64 b && in64 st && decide (st ≠ 0)
  | .slice _ a b => in64 a && in64 b
  | .sliceCurrent a b => in64 a && in64 b
  | .index _ i => in64 i
  | .indexCurrent i => in64 i
  | _ => true

/-- every slice / index node inside `n` satisfies `sliceHead` -/
def SliceOK (n : INode) : Bool := n.all sliceHead

example : sliceHead (.sliceStepCurrent 0 5 2) = true := by decide
example : sliceHead (.sliceStepCurrent 0 5 0) = false := by decide
example : sliceHead (.indexCurrent (2 ^ 63)) = false := by decide
example : SliceOK (.slice (.sliceStepCurrent 0 5 0) 1 2) = false := by decide

abbrev AL (n : INode) : Prop := n.all sliceHead = true
abbrev ALL (ns : List INode) : Prop := INode.allL sliceHead ns = true
abbrev ALF (fs : List (Bytes × INode)) : Prop := INode.allF sliceHead fs = true
abbrev ALO (o : Option INode) : Prop := ∀ n, o = some n → AL n

/-! ### the bracket specifier -/

/-- the default bounds `math.MaxInt`, `math.MinInt` are int64 -/
theorem in64_max : in64 indexP.MaxIntP = true := by decide
theorem in64_min : in64 indexP.MinIntP = true := by decide
/-- the default start `0` is an int64 -/
theorem in64_zero : in64 0 = true := by decide

/-- `strconv.Atoi` succeeds only on an int64 -/
theorem atoiP_ok : Post (fun i => in64 i = true) C04.atoiP := by
  simp only [C04.atoiP]
  refine Post.bind (Post.any _) fun v _ => ?_
  split
  · next i hi =>
    refine Post.pure ?_
    have := C09.parseInt64_in_range _ _ hi
    simp only [MinInt, MaxInt] at this
    simp only [in64, decide_eq_true_eq]
    omega
  · exact Post.fail

example : ∀ s i s', C04.atoiP s = .ok (i, s') → in64 i = true := atoiP_ok

/-- a slice node over a well-formed child with int64 bounds is well formed -/
theorem AL_slice {c : INode} {a b : Int} (hc : AL c) (ha : in64 a = true) (hb : in64 b = true) : AL (.slice c a b) := by
  simp only [AL, INode.all, sliceHead, Bool.and_eq_true]; exact ⟨⟨ha, hb⟩, hc⟩
theorem AL_sliceCurrent {a b : Int} (ha : in64 a = true) (hb : in64 b = true) : AL (.sliceCurrent a b) := by
  simp only [AL, INode.all, sliceHead, Bool.and_eq_true]; exact ⟨ha, hb⟩
/-- a stepped slice node over a well-formed child with int64 bounds and a non-zero int64 step is well formed -/
theorem AL_sliceStep {c : INode} {a b st : Int} (hc : AL c) (ha : in64 a = true) (hb : in64 b = true)
    (hs : in64 st = true) (h0 : ¬ st = 0) : AL (.sliceStep c a b st) := by
  simp only [AL, INode.all, sliceHead, Bool.and_eq_true, decide_eq_true_eq]; exact ⟨⟨⟨⟨ha, hb⟩, hs⟩, h0⟩, hc⟩
theorem AL_sliceStepCurrent {a b st : Int} (ha : in64 a = true) (hb : in64 b = true)
    (hs : in64 st = true) (h0 : ¬ st = 0) : AL (.sliceStepCurrent a b st) := by
  simp only [AL, INode.all, sliceHead, Bool.and_eq_true, decide_eq_true_eq]; exact ⟨⟨⟨ha, hb⟩, hs⟩, h0⟩
/-- an index node over a well-formed child with an int64 index is well formed -/
theorem AL_index {c : INode} {i : Int} (hc : AL c) (hi : in64 i = true) : AL (.index c i) := by
  simp only [AL, INode.all, sliceHead, Bool.and_eq_true]; exact ⟨hi, hc⟩
theorem AL_indexCurrent {i : Int} (hi : in64 i = true) : AL (.indexCurrent i) := by
  simp only [AL, INode.all, sliceHead]; exact hi
theorem AL_smallIndexCurrent (k : Nat) : AL (.smallIndexCurrent k) := rfl

/-- an int64 fact from the context or one of the three constants -/
macro "in64_close" : tactic => `(tactic| first
  | assumption | exact in64_max | exact in64_min | exact in64_zero)

/-- follow one phase of `indexP`: keep the value of every `atoi`, forget the other binds (reducible transparency, so
    that the tail call to the next phase is not unfolded) -/
macro "phase_auto" : tactic => `(tactic| with_reducible repeat' (first
  | exact Post.fail
  | exact Post.fail_bind
  | exact Post.pure (AL_slice (by assumption) (by in64_close) (by in64_close))
  | exact Post.pure (AL_sliceCurrent (by in64_close) (by in64_close))
  | exact Post.pure (AL_sliceStep (by assumption) (by in64_close) (by in64_close) (by in64_close) (by assumption))
  | exact Post.pure (AL_sliceStepCurrent (by in64_close) (by in64_close) (by in64_close) (by assumption))
  | exact Post.pure (AL_index (by assumption) (by in64_close))
  | exact Post.pure (AL_indexCurrent (by in64_close))
  | exact Post.pure (AL_smallIndexCurrent _)
  | exact absurd True.intro (by assumption)
  | (refine Post.bind atoiP_ok fun _ _ => ?_)
  | (refine Post.bind (Post.any _) fun _ _ => ?_)
  | (refine Post.ite (fun _ => ?_) (fun _ => ?_))))

/-- after `start:stop:` — with int64 `start`, `stop`, the node built is well formed -/
theorem stepPhase_ok (child : Option INode) (h : ALO child) (hs hp : Bool) (start stop : Int)
    (h1 : in64 start = true) (h2 : in64 stop = true) :
    Post (fun p => AL p.1) (C04.stepPhase child hs hp start stop) := by
  cases child with
  | none =>
    simp only [C04.stepPhase, C04.mkSliceP]
    phase_auto
  | some c =>
    have hc : AL c := h c rfl
    simp only [C04.stepPhase, C04.mkSliceP]
    phase_auto

/-- after `start:` — with an int64 `start`, the node built is well formed -/
theorem stopPhase_ok (child : Option INode) (h : ALO child) (hs : Bool) (start : Int) (h1 : in64 start = true) :
    Post (fun p => AL p.1) (C04.stopPhase child hs start) := by
  cases child with
  | none =>
    simp only [C04.stopPhase, C04.mkSliceP]
    repeat' (first
      | (with_reducible exact stepPhase_ok _ h _ _ _ _ (by in64_close) (by in64_close))
      | phase_auto)
  | some c =>
    have hc : AL c := h c rfl
    simp only [C04.stopPhase, C04.mkSliceP]
    repeat' (first
      | (with_reducible exact stepPhase_ok _ h _ _ _ _ (by in64_close) (by in64_close))
      | phase_auto)

/-- the whole bracket specifier -/
theorem startPhase_ok (child : Option INode) (h : ALO child) : Post (fun p => AL p.1) (C04.startPhase child) := by
  cases child with
  | none =>
    simp only [C04.startPhase]
    repeat' (first
      | (with_reducible exact stopPhase_ok _ h _ _ (by in64_close))
      | phase_auto)
  | some c =>
    have hc : AL c := h c rfl
    simp only [C04.startPhase]
    repeat' (first
      | (with_reducible exact stopPhase_ok _ h _ _ (by in64_close))
      | phase_auto)

/-- **`parser.index` builds only int64 bounds and non-zero int64 steps** -/
theorem indexP_ok (child : Option INode) (h : ALO child) : Post (fun p => AL p.1) (indexP child) := by
  rw [C04.indexP_eq]; exact startPhase_ok child h

/-! ### the parser -/

theorem ALL_snoc {acc : List INode} {a : INode} (h : ALL acc) (ha : AL a) : ALL (acc ++ [a]) := by
  simp only [ALL, allL_snoc, Bool.and_eq_true]; exact ⟨h, ha⟩

theorem ALF_assocInsert {k : Bytes} {v : INode} (hv : AL v) : ∀ {fs : List (Bytes × INode)}, ALF fs →
    ALF (assocInsert k v fs)
  | [], _ => by simp only [ALF, assocInsert, INode.allF, Bool.and_eq_true]; exact ⟨hv, trivial⟩
  | (k', v') :: rest, h => by
    simp only [ALF, INode.allF, Bool.and_eq_true] at h
    simp only [assocInsert]
    split
    · simp only [ALF, INode.allF, Bool.and_eq_true]; exact ⟨hv, h.2⟩
    · split
      · simp only [ALF, INode.allF, Bool.and_eq_true]; exact ⟨hv, h.1, h.2⟩
      · simp only [ALF, INode.allF, Bool.and_eq_true]; exact ⟨h.1, ALF_assocInsert hv h.2⟩

/-- what the builtin table must guarantee: the node built from well-formed arguments is well formed -/
def SpecOK : ArgSpec → Prop
  | .fixed _ _ mk => ∀ args, ALL args → AL (mk args)
  | .varArg mk => ∀ args, ALL args → AL (mk args)
  | .expArg mk => ∀ a b, AL a → AL b → AL (mk a b)
  | .mapArg mk => ∀ a b, AL a → AL b → AL (mk a b)

theorem AL_call (f : Fn) {args : List INode} (h : ALL args) : AL (.call f args) := by
  simp only [AL, INode.all, Bool.and_eq_true]; exact ⟨rfl, h⟩

/-- the builtin table never builds a slice or index node itself -/
theorem builtin_ok : ∀ e ∈ builtinTable, SpecOK e.2 := by
  simp only [builtinTable, List.forall_mem_cons]
  repeat' apply And.intro
  all_goals first
    | (intro args h; exact AL_call _ h)
    | (intro args h; show AL (if _ then _ else _); split <;> exact AL_call _ h)
    | (intro args h; show AL (match _ with | 2 => _ | 3 => _ | _ => _); split <;> exact AL_call _ h)
    | (intro args h; simp only [AL, INode.all, Bool.and_eq_true]; exact ⟨rfl, h⟩)
    | (intro a b ha hb; simp only [AL, INode.all, Bool.and_eq_true]; exact ⟨⟨rfl, ha⟩, hb⟩)
    | (intro a b ha hb; simp only [AL, INode.all, Bool.and_eq_true]; exact ⟨⟨rfl, hb⟩, ha⟩)
    | (intro x hx; cases hx)

theorem lookupBuiltin_ok {name : Bytes} {spec : ArgSpec} (h : lookupBuiltin name = some spec) : SpecOK spec := by
  simp only [lookupBuiltin, Option.map_eq_some_iff] at h
  obtain ⟨e, he, rfl⟩ := h
  exact builtin_ok e (List.mem_of_find?_eq_some he)

/-- the thirteen statements proved together by induction on the fuel -/
structure PIH (fuel : Nat) : Prop where
  expression : ∀ prec, Post AL (expression fuel prec)
  exprLoop : ∀ node prec, AL node → Post AL (exprLoop fuel node prec)
  filterP : Post AL (filterP fuel)
  fnArgs : ∀ mn mx acc, ALL acc → Post ALL (fnArgs fuel mn mx acc)
  fnVarArgs : ∀ acc, ALL acc → Post ALL (fnVarArgs fuel acc)
  function : Post AL (function fuel)
  letP : ∀ vars, ALF vars → Post AL (letP fuel vars)
  primaryExpression : Post AL (primaryExpression fuel)
  projection : ∀ prec, Post ALO (projection fuel prec)
  selectArray : ∀ child, ALO child → Post AL (selectArray fuel child)
  selectArrayLoop : ∀ child fields, ALO child → ALL fields → Post AL (selectArrayLoop fuel child fields)
  selectObject : ∀ child, ALO child → Post AL (selectObject fuel child)
  selectObjectLoop : ∀ child fields, ALO child → ALF fields → Post AL (selectObjectLoop fuel child fields)

theorem ALO_none : ALO none := fun _ h => by cases h
theorem ALO_some {n : INode} (h : AL n) : ALO (some n) := fun _ e => by cases e; exact h

theorem all_getD {o : Option INode} (h : ∀ n, o = some n → INode.all sliceHead n = true) :
    INode.all sliceHead (o.getD .current) = true := by
  cases o with
  | none => rfl
  | some n => exact h n rfl

theorem allF_assocInsert {k : Bytes} {v : INode} {fs : List (Bytes × INode)}
    (hv : v.all sliceHead = true) (h : INode.allF sliceHead fs = true) :
    INode.allF sliceHead (assocInsert k v fs) = true :=
  ALF_assocInsert hv h

theorem AL_lit (v : Val) : AL (.lit v) := rfl

/-- close an `AL`/`ALL`/`ALF`/`ALO` goal from the hypotheses in scope -/
macro "al_close" : tactic => `(tactic| first
  | assumption
  | exact ALO_none
  | exact ALO_some (by assumption)
  | rfl
  | (simp_all [AL, ALL, ALF, ALO, INode.all, INode.allL, INode.allF, sliceHead, all_getD, allL_snoc, allF_assocInsert]; done)
  | (split <;> simp_all [AL, ALL, ALF, ALO, INode.all, INode.allL, INode.allF, sliceHead, all_getD, allL_snoc, allF_assocInsert]; done))

theorem fixed_ok {name : Bytes} {mn mx : Nat} {mk : List INode → INode}
    (h : lookupBuiltin name = some (.fixed mn mx mk)) {args : List INode} (ha : ALL args) : AL (mk args) :=
  lookupBuiltin_ok h args ha
theorem varArg_ok {name : Bytes} {mk : List INode → INode}
    (h : lookupBuiltin name = some (.varArg mk)) {args : List INode} (ha : ALL args) : AL (mk args) :=
  lookupBuiltin_ok h args ha
theorem expArg_ok {name : Bytes} {mk : INode → INode → INode}
    (h : lookupBuiltin name = some (.expArg mk)) {a b : INode} (ha : AL a) (hb : AL b) : AL (mk a b) :=
  lookupBuiltin_ok h a b ha hb
theorem mapArg_ok {name : Bytes} {mk : INode → INode → INode}
    (h : lookupBuiltin name = some (.mapArg mk)) {a b : INode} (ha : AL a) (hb : AL b) : AL (mk a b) :=
  lookupBuiltin_ok h a b ha hb

/-- follow one function of the mutual block (reducible transparency: a failing alternative fails fast) -/
macro "post_auto" ih:ident : tactic => `(tactic| with_reducible repeat' (first
  | exact Post.fail
  | exact Post.fail_bind
  | (refine Post.bind (PIH.expression $ih _) fun _ _ => ?_)
  | (refine Post.bind (PIH.projection $ih _) fun _ _ => ?_)
  | (refine Post.bind (PIH.filterP $ih) fun _ _ => ?_)
  | (refine Post.bind (PIH.primaryExpression $ih) fun _ _ => ?_)
  | (refine Post.bind (PIH.exprLoop $ih _ _ (by al_close)) fun _ _ => ?_)
  | (refine Post.bind (PIH.selectObject $ih _ (by al_close)) fun _ _ => ?_)
  | (refine Post.bind (PIH.selectArray $ih _ (by al_close)) fun _ _ => ?_)
  | (refine Post.bind (PIH.fnArgs $ih _ _ _ rfl) fun _ _ => ?_)
  | (refine Post.bind (PIH.fnVarArgs $ih _ rfl) fun _ _ => ?_)
  | (refine Post.bind (indexP_ok _ (by al_close)) fun _ _ => ?_)
  | exact PIH.expression $ih _
  | exact PIH.function $ih
  | exact PIH.exprLoop $ih _ _ (by al_close)
  | exact PIH.selectObject $ih _ (by al_close)
  | exact PIH.selectArray $ih _ (by al_close)
  | exact PIH.letP $ih _ (by al_close)
  | exact PIH.letP $ih _ (ALF_assocInsert (by assumption) (by assumption))
  | exact PIH.fnArgs $ih _ _ _ (ALL_snoc (by assumption) (by assumption))
  | exact PIH.fnVarArgs $ih _ (ALL_snoc (by assumption) (by assumption))
  | exact PIH.selectArrayLoop $ih _ _ (by assumption) (by al_close)
  | exact PIH.selectArrayLoop $ih _ _ (by assumption) (ALL_snoc (by assumption) (by assumption))
  | exact PIH.selectObjectLoop $ih _ _ (by assumption) (by al_close)
  | exact PIH.selectObjectLoop $ih _ _ (by assumption) (ALF_assocInsert (by assumption) (by assumption))
  | exact Post.pure (ALL_snoc (by assumption) (by assumption))
  | exact Post.pure (AL_lit _)
  | exact Post.pure (fixed_ok (by assumption) (by assumption))
  | exact Post.pure (varArg_ok (by assumption) (by assumption))
  | exact Post.pure (expArg_ok (by assumption) (by assumption) (by assumption))
  | exact Post.pure (mapArg_ok (by assumption) (by assumption) (by assumption))
  | (refine Post.bind (Post.any _) fun _ _ => ?_)
  | (refine Post.ite (fun _ => ?_) (fun _ => ?_))
  | split
  | (refine Post.pure ?_; al_close)))

theorem step_expression {fuel : Nat} (ih : PIH fuel) (prec : Nat) : Post AL (expression (fuel+1) prec) := by
  simp only [expression]
  post_auto ih

theorem step_exprLoop {fuel : Nat} (ih : PIH fuel) (node : INode) (prec : Nat) (hn : AL node) :
    Post AL (exprLoop (fuel+1) node prec) := by
  simp only [exprLoop]
  post_auto ih

theorem step_filterP {fuel : Nat} (ih : PIH fuel) : Post AL (filterP (fuel+1)) := by
  simp only [filterP]
  post_auto ih

theorem step_fnArgs {fuel : Nat} (ih : PIH fuel) (mn mx : Nat) (acc : List INode) (ha : ALL acc) :
    Post ALL (fnArgs (fuel+1) mn mx acc) := by
  simp only [fnArgs]
  post_auto ih

theorem step_fnVarArgs {fuel : Nat} (ih : PIH fuel) (acc : List INode) (ha : ALL acc) :
    Post ALL (fnVarArgs (fuel+1) acc) := by
  simp only [fnVarArgs]
  post_auto ih

theorem step_function {fuel : Nat} (ih : PIH fuel) : Post AL (function (fuel+1)) := by
  simp only [function]
  post_auto ih

theorem step_letP {fuel : Nat} (ih : PIH fuel) (vars : List (Bytes × INode)) (hv : ALF vars) :
    Post AL (letP (fuel+1) vars) := by
  simp only [letP]
  post_auto ih

theorem step_primaryExpression {fuel : Nat} (ih : PIH fuel) : Post AL (primaryExpression (fuel+1)) := by
  simp only [primaryExpression]
  refine Post.bind (Post.any _) fun _ _ => ?_
  split <;> post_auto ih

theorem step_projection {fuel : Nat} (ih : PIH fuel) (prec : Nat) : Post ALO (projection (fuel+1) prec) := by
  simp only [projection]
  post_auto ih

theorem step_selectArray {fuel : Nat} (ih : PIH fuel) (child : Option INode) (hc : ALO child) :
    Post AL (selectArray (fuel+1) child) := by
  simp only [selectArray]
  post_auto ih

theorem step_selectArrayLoop {fuel : Nat} (ih : PIH fuel) (child : Option INode) (fields : List INode) (hc : ALO child)
    (hf : ALL fields) : Post AL (selectArrayLoop (fuel+1) child fields) := by
  simp only [selectArrayLoop]
  post_auto ih

theorem step_selectObject {fuel : Nat} (ih : PIH fuel) (child : Option INode) (hc : ALO child) :
    Post AL (selectObject (fuel+1) child) := by
  simp only [selectObject]
  post_auto ih

theorem step_selectObjectLoop {fuel : Nat} (ih : PIH fuel) (child : Option INode) (fields : List (Bytes × INode))
    (hc : ALO child) (hf : ALF fields) : Post AL (selectObjectLoop (fuel+1) child fields) := by
  simp only [selectObjectLoop]
  post_auto ih

/-- the thirteen statements hold at every fuel -/
theorem pih : ∀ fuel, PIH fuel
  | 0 => by
    constructor <;> intros <;>
      simp only [expression, exprLoop, filterP, fnArgs, fnVarArgs, function, letP, primaryExpression, projection,
        selectArray, selectArrayLoop, selectObject, selectObjectLoop] <;> exact Post.fail
  | fuel + 1 =>
    have ih := pih fuel
    ⟨step_expression ih, step_exprLoop ih, step_filterP ih, step_fnArgs ih, step_fnVarArgs ih, step_function ih,
      step_letP ih, step_primaryExpression ih, step_projection ih, step_selectArray ih, step_selectArrayLoop ih,
      step_selectObject ih, step_selectObjectLoop ih⟩

/-- **every slice / index node of a parsed expression has int64 bounds, and every slice step is a non-zero int64** -/
theorem parse_sliceOK {expr : Bytes} {n : INode} (h : Parser.parse expr = .ok n) : n.all sliceHead = true := by
  unfold Parser.parse at h
  simp only [] at h
  split at h
  · cases h
  · next st _ =>
    split at h
    · next n' s' hr =>
      cases h
      have hp : Post AL (do
          let node ← expression (fuelFor (lexAll expr).1.length) 1
          if (← currType) != .end then Parser.fail .unexpectedToken
          return node : PM INode) := by
        refine Post.bind ((pih _).expression _) fun node hn => ?_
        refine Post.bind (Post.any _) fun _ _ => ?_
        refine Post.ite (fun _ => ?_) (fun _ => ?_)
        · exact Post.fail_bind
        · exact Post.pure hn
      exact hp st n s' hr
    · cases h

/-- **the same for a compiled expression** (`compile` is `Parser.parse`) -/
theorem compile_sliceOK {expr : Bytes} {n : INode} (h : compile expr = .ok n) : n.all sliceHead = true :=
  parse_sliceOK h

/-- `SliceOK` form -/
theorem compile_SliceOK {expr : Bytes} {n : INode} (h : compile expr = .ok n) : SliceOK n = true :=
  parse_sliceOK h

/-! ### examples -/

/-- `a[1:2:0]` does not compile: the zero step is rejected -/
example : compile [0x61, 0x5B, 0x31, 0x3A, 0x32, 0x3A, 0x30, 0x5D] = .error .invalidSliceStep := C04.w_slice_step_zero

/-- `a[::-1]` compiles to a stepped slice whose missing bounds are `math.MaxInt`, `math.MinInt` -/
example : (match compile [0x61, 0x5B, 0x3A, 0x3A, 0x2D, 0x31, 0x5D] with
    | .ok (.projectArray (.sliceStep (.field _) a b st) .current) => a == 2 ^ 63 - 1 && b == -2 ^ 63 && st == -1
    | _ => false) = true := by decide +kernel
example : ∀ n, compile [0x61, 0x5B, 0x3A, 0x3A, 0x2D, 0x31, 0x5D] = .ok n → n.all sliceHead = true :=
  fun _ h => compile_sliceOK h

/-- `a[9223372036854775808]` (2^63) does not compile -/
example : (match compile [0x61, 0x5B, 0x39, 0x32, 0x32, 0x33, 0x33, 0x37, 0x32, 0x30, 0x33, 0x36, 0x38, 0x35, 0x34, 0x37,
      0x37, 0x35, 0x38, 0x30, 0x38, 0x5D] with
    | .error .invalidIndex => true | _ => false) = true := by decide +kernel

/-! ### consequences: weaker per-node requirements -/

/-- a per-node requirement implied by another one holds at every sub-node where the other does -/
theorem all_mono {p q : INode → Bool} (h : ∀ m, p m = true → q m = true) (n : INode) (hn : n.all p = true) :
    n.all q = true := by
  have e : p = fun m => p m && q m := by
    funext m
    cases hp : p m
    · rfl
    · rw [h m hp]; rfl
  rw [e, INode.all_and, Bool.and_eq_true] at hn
  exact hn.2

/-- the slice clause of `C11C`'s `renHead`: the step is non-zero and at least `math.MinInt` -/
def stepHead : INode → Bool
  | .sliceStep _ _ _ s => decide (s ≠ 0 ∧ -2 ^ 63 ≤ s)
  | .sliceStepCurrent _ _ s => decide (s ≠ 0 ∧ -2 ^ 63 ≤ s)
  | _ => true

theorem stepHead_of_sliceHead (m : INode) (h : sliceHead m = true) : stepHead m = true := by
  cases m <;> first
    | rfl
    | (simp only [sliceHead, in64, Bool.and_eq_true, decide_eq_true_eq] at h
       simp only [stepHead, decide_eq_true_eq]
       exact ⟨h.2, h.1.2.1⟩)

/-- **every stepped slice of a compiled expression has a non-zero step ≥ `math.MinInt`** (what `C11C.RenOK` asks of
    slice nodes) -/
theorem compile_stepHead {expr : Bytes} {n : INode} (h : compile expr = .ok n) :
    n.all (fun m => match m with
      | .sliceStep _ _ _ s => decide (s ≠ 0 ∧ -2 ^ 63 ≤ s)
      | .sliceStepCurrent _ _ s => decide (s ≠ 0 ∧ -2 ^ 63 ≤ s)
      | _ => true) = true :=
  all_mono (fun m hm => by
    have := stepHead_of_sliceHead m hm
    cases m <;> first | rfl | exact this) n (compile_sliceOK h)

example : ∀ n, compile [0x61, 0x5B, 0x3A, 0x3A, 0x2D, 0x31, 0x5D] = .ok n → n.all stepHead = true :=
  fun n h => all_mono stepHead_of_sliceHead n (compile_sliceOK h)

end Jmes.C03E
