/-
  Helper lemmas for property C14 (representation independence of numbers): the decimal observers of the
  evaluator (`Cmp`, `Int64`, …) are functions of the *value* of a decimal, and every Go representation of a
  number (`json.Number`, the integer kinds, `float64`/`float32`, `decimal128.Decimal`) that holds a value exactly
  is converted by `toDecimal` to a decimal of that value.
-/
import Jmes.Proofs.Equal
import Jmes.Proofs.Order
import Jmes.Proofs.DecExact
namespace Jmes

/-! ### `Dec.cmp` is a function of the two values -/
namespace Dec

theorem cmp_eq_compare {a b : Dec} (ha : a ≠ .nan) (hb : b ≠ .nan) : cmp a b = some (compare a b) := by
  cases a with
  | nan => exact absurd rfl ha
  | inf n => cases b with
    | nan => exact absurd rfl hb
    | inf m => simp [compare, cmp]
    | fin m c e => simp [compare, cmp]
  | fin n c e => cases b with
    | nan => exact absurd rfl hb
    | inf m => simp [compare, cmp]
    | fin m c' e' => simp [compare, cmp]

theorem ne_nan_of_cmp_left {a b : Dec} {r : Int} (h : cmp a b = some r) : a ≠ .nan := by
  intro e; subst e; simp [cmp_nan_left] at h

theorem ne_nan_of_cmp_right {a b : Dec} {r : Int} (h : cmp a b = some r) : b ≠ .nan := by
  intro e; subst e; simp [cmp_nan_right] at h

theorem lexcmp_eq_zero {p q : Int × Int} (h : lexcmp p q = 0) : p = q := by
  unfold lexcmp at h
  obtain ⟨p1, p2⟩ := p
  obtain ⟨q1, q2⟩ := q
  simp only at h
  split at h
  · omega
  · split at h
    · omega
    · split at h
      · omega
      · split at h
        · next h1 h2 _ h4 =>
          have : p1 = q1 := by omega
          rw [this, h4]
        · omega

/-- equal values have the same sort key -/
theorem key_eq_of_cmp_zero {a a' : Dec} (h : cmp a a' = some 0) (m : Int) (h1 : m ≤ expo a) (h2 : m ≤ expo a') :
    key m a = key m a' := by
  have hc := cmp_eq_compare (ne_nan_of_cmp_left h) (ne_nan_of_cmp_right h)
  rw [h] at hc
  have h0 : compare a a' = 0 := by simpa using hc.symm
  rw [compare_eq_key a a' m h1 h2] at h0
  exact lexcmp_eq_zero h0

/-- **`Cmp` respects equality of values** in both arguments -/
theorem cmp_congr {a a' b b' : Dec} (ha : cmp a a' = some 0) (hb : cmp b b' = some 0) : cmp a b = cmp a' b' := by
  have na := ne_nan_of_cmp_left ha
  have na' := ne_nan_of_cmp_right ha
  have nb := ne_nan_of_cmp_left hb
  have nb' := ne_nan_of_cmp_right hb
  rw [cmp_eq_compare na nb, cmp_eq_compare na' nb']
  let m := min (min (expo a) (expo a')) (min (expo b) (expo b'))
  have e1 : m ≤ expo a := by omega
  have e2 : m ≤ expo a' := by omega
  have e3 : m ≤ expo b := by omega
  have e4 : m ≤ expo b' := by omega
  rw [compare_eq_key a b m e1 e3, compare_eq_key a' b' m e2 e4,
    key_eq_of_cmp_zero ha m e1 e2, key_eq_of_cmp_zero hb m e3 e4]

theorem compare_congr {a a' b b' : Dec} (ha : cmp a a' = some 0) (hb : cmp b b' = some 0) :
    compare a b = compare a' b' := by
  have h := cmp_congr ha hb
  rw [cmp_eq_compare (ne_nan_of_cmp_left ha) (ne_nan_of_cmp_left hb),
    cmp_eq_compare (ne_nan_of_cmp_right ha) (ne_nan_of_cmp_right hb)] at h
  exact Option.some.inj h

theorem equal_congr {a a' b b' : Dec} (ha : cmp a a' = some 0) (hb : cmp b b' = some 0) :
    Dec.equal a b = Dec.equal a' b' := by simp only [Dec.equal, cmp_congr ha hb]
theorem less_congr {a a' b b' : Dec} (ha : cmp a a' = some 0) (hb : cmp b b' = some 0) :
    Dec.less a b = Dec.less a' b' := by simp only [Dec.less, cmp_congr ha hb]
theorem greater_congr {a a' b b' : Dec} (ha : cmp a a' = some 0) (hb : cmp b b' = some 0) :
    Dec.greater a b = Dec.greater a' b' := by simp only [Dec.greater, cmp_congr ha hb]
theorem lessEq_congr {a a' b b' : Dec} (ha : cmp a a' = some 0) (hb : cmp b b' = some 0) :
    Dec.lessEq a b = Dec.lessEq a' b' := by simp only [Dec.lessEq, less_congr ha hb, equal_congr ha hb]
theorem greaterEq_congr {a a' b b' : Dec} (ha : cmp a a' = some 0) (hb : cmp b b' = some 0) :
    Dec.greaterEq a b = Dec.greaterEq a' b' := by
  simp only [Dec.greaterEq, greater_congr ha hb, equal_congr ha hb]

/-! ### `normalize` and `ofInt` keep the value -/

theorem cmp_normalize (n : Bool) (c : Nat) (e : Int) : cmp (normalize (.fin n c e)) (.fin n c e) = some 0 := by
  by_cases hc : c = 0
  · subst hc
    rw [normalize_zero]
    simp only [cmp, Option.some.injEq]
    rw [cmpFin_eq_zero_iff]
    simp [sval]
  · obtain ⟨c', k, h1, h2, _⟩ := normalize_spec n c e hc
    rw [h1]
    simp only [cmp, Option.some.injEq]
    rw [cmpFin_eq_zero_iff_value _ _ _ _ _ _ e (by omega) (by omega)]
    simp only [sval, pow10]
    have : (e + (k : Int) - e).toNat = k := by omega
    rw [this, ← h2]
    simp

theorem cmp_normalize' (n : Bool) (c : Nat) (e : Int) : cmp (.fin n c e) (normalize (.fin n c e)) = some 0 :=
  cmp_zero_symm (cmp_normalize n c e)

theorem cmp_ofInt (i : Int) : cmp (ofInt i) (.fin (decide (i < 0)) i.natAbs 0) = some 0 := by
  unfold ofInt
  split
  · next h =>
    subst h
    simp [cmp, cmpFin_self]
  · exact cmp_normalize _ _ _

/-- zero compares equal whatever its sign and exponent -/
theorem cmp_zero_zero (n1 n2 : Bool) (e1 e2 : Int) : cmp (.fin n1 0 e1) (.fin n2 0 e2) = some 0 := by
  simp only [cmp, Option.some.injEq]
  rw [cmpFin_eq_zero_iff]
  simp [sval]

/-! ### `Int64` / `decToInt` are functions of the value (for coefficients within the format) -/

/-- the coefficient is within the format (`≤ MAXSIG`): true of every decimal the library produces -/
def Bounded : Dec → Prop
  | .fin _ c _ => c ≤ MAXSIG
  | _ => True

def Int64Range (i : Int) : Prop := -(2 ^ 63 : Int) ≤ i ∧ i ≤ 2 ^ 63 - 1

def int64Mag (c : Nat) (e : Int) : Nat :=
  if e < 0 then c / pow10 (-e).toNat else
    if e > 40 then (if c = 0 then 0 else 2 ^ 64) else c * pow10 e.toNat

def int64Sign (n : Bool) (m : Nat) : Int64Result :=
  if n then (if m > 2 ^ 63 then .notOk else .ok (-(m : Int)))
  else (if m > 2 ^ 63 - 1 then .notOk else .ok m)

theorem int64_fin (n : Bool) (c : Nat) (e : Int) :
    int64 (.fin n c e) = if e < -35 then .ok 0 else int64Sign n (int64Mag c e) := rfl

theorem int64Sign_range {n : Bool} {m : Nat} {i : Int} (h : int64Sign n m = .ok i) : Int64Range i := by
  unfold Int64Range
  unfold int64Sign at h
  cases n
  · simp only [Bool.false_eq_true, if_false] at h
    split at h
    · cases h
    · cases h; omega
  · simp only [if_true] at h
    split at h
    · cases h
    · cases h; omega

theorem int64_range {d : Dec} {i : Int} (h : d.int64 = .ok i) : Int64Range i := by
  cases d with
  | nan => simp [int64] at h
  | inf n => simp [int64] at h
  | fin n c e =>
    rw [int64_fin] at h
    split at h
    · cases h; unfold Int64Range; omega
    · exact int64Sign_range h

theorem int64Sign_ne_panic (n : Bool) (m : Nat) : int64Sign n m ≠ .panic := by
  unfold int64Sign
  cases n <;> simp <;> split <;> simp

theorem int64_ne_panic {d : Dec} (h : d ≠ .nan) : d.int64 ≠ .panic := by
  cases d with
  | nan => exact absurd rfl h
  | inf n => simp [int64]
  | fin n c e =>
    rw [int64_fin]
    split
    · simp
    · exact int64Sign_ne_panic _ _

theorem decToInt_cases (d : Dec) : decToInt d = .notInt ∨ ∃ i, decToInt d = .int i := by
  unfold decToInt
  split
  · exact .inl rfl
  · next hn =>
    have hne : d ≠ .nan := by intro e; subst e; simp [isNaN] at hn
    cases h : int64 d with
    | panic => exact absurd h (int64_ne_panic hne)
    | notOk => exact .inl rfl
    | ok i =>
      simp only
      split
      · exact .inr ⟨i, rfl⟩
      · exact .inl rfl

/-- what `decToInt d = i` says: `i` fits an `int64` and `d` has the value `i` -/
theorem decToInt_int {d : Dec} {i : Int} (h : decToInt d = .int i) : Int64Range i ∧ cmp (ofInt i) d = some 0 := by
  unfold decToInt at h
  split at h
  · cases h
  · cases h2 : d.int64 with
    | panic => simp [h2] at h
    | notOk => simp [h2] at h
    | ok j =>
      simp only [h2] at h
      split at h
      · next he =>
        cases h
        exact ⟨int64_range h2, equal_iff.mp he⟩
      · cases h

theorem pow10_ge {a b : Nat} (h : a ≤ b) : 10 ^ a ≤ 10 ^ b := Nat.pow_le_pow_right (by decide) h

theorem int64Sign_of {n : Bool} {i : Int} (hr : Int64Range i) (hs : (n = true → i ≤ 0) ∧ (n = false → 0 ≤ i)) :
    int64Sign n i.natAbs = .ok i := by
  unfold Int64Range at hr
  unfold int64Sign
  cases n
  · have := hs.2 rfl
    simp only [Bool.false_eq_true, if_false]
    have h3 : ¬ (i.natAbs > 2 ^ 63 - 1) := by omega
    simp only [h3, if_false]
    congr 1; omega
  · have := hs.1 rfl
    simp only [if_true]
    have h3 : ¬ (i.natAbs > 2 ^ 63) := by omega
    simp only [h3, if_false]
    congr 1; omega

/-- the converse: a decimal within the format whose value is the `int64` `i` converts to `i` -/
theorem int64_of_value {n : Bool} {c : Nat} {e : Int} {i : Int} (hc : c ≤ MAXSIG) (hr : Int64Range i)
    (h : cmpFin (decide (i < 0)) i.natAbs 0 n c e = 0) : int64 (.fin n c e) = .ok i := by
  have hr' := hr
  unfold Int64Range at hr'
  rw [cmpFin_eq_zero_iff_value _ _ _ _ _ _ (min 0 e) (by omega) (by omega)] at h
  simp only [sval, pow10] at h
  rw [int64_fin]
  by_cases he : e < 0
  · have hm : min 0 e = e := by omega
    rw [hm] at h
    have h1 : (e - e).toNat = 0 := by omega
    have h2 : ((0 : Int) - e).toNat = (-e).toNat := by omega
    rw [h1, h2] at h
    simp only [Nat.pow_zero, Nat.mul_one] at h
    have hP : 0 < 10 ^ (-e).toNat := Nat.pow_pos (by decide)
    have hmag : int64Mag c e = c / 10 ^ (-e).toNat := by simp [int64Mag, he, pow10]
    rw [hmag]
    generalize hPd : 10 ^ (-e).toNat = P at h hP
    -- |i| * P = c with agreeing signs
    have habs : i.natAbs * P = c := by
      have : ((i.natAbs * P : Nat) : Int) = (c : Int) ∨ ((i.natAbs * P : Nat) : Int) = -(c : Int) := by
        revert h; cases n <;> by_cases hi : i < 0 <;> simp [hi] <;> omega
      omega
    by_cases h35 : e < -35
    · simp only [h35, if_true]
      have : 10 ^ 36 ≤ P := by rw [← hPd]; exact pow10_ge (by omega)
      have hM : MAXSIG < 10 ^ 36 := by decide
      have : i.natAbs = 0 := by
        apply Classical.byContradiction
        intro hne
        have : P ≤ i.natAbs * P := Nat.le_mul_of_pos_left _ (Nat.pos_of_ne_zero hne)
        omega
      have : i = 0 := by omega
      rw [this]
    · simp only [h35, if_false]
      have hdiv : c / P = i.natAbs := by rw [← habs]; exact Nat.mul_div_cancel _ hP
      rw [hdiv]
      apply int64Sign_of hr
      by_cases hi0 : i = 0
      · subst hi0; simp
      · have hpos : 0 < i.natAbs * P := Nat.mul_pos (by omega) hP
        rw [← habs] at h
        revert h; cases n <;> by_cases hi : i < 0 <;> simp [hi] <;> omega
  · have hm : min 0 e = 0 := by omega
    rw [hm] at h
    have h1 : ((0 : Int) - 0).toNat = 0 := by omega
    have h2 : (e - 0).toNat = e.toNat := by omega
    rw [h1, h2] at h
    simp only [Nat.pow_zero, Nat.mul_one] at h
    have hP : 0 < 10 ^ e.toNat := Nat.pow_pos (by decide)
    have hmag : int64Mag c e = if e > 40 then (if c = 0 then 0 else 2 ^ 64) else c * 10 ^ e.toNat := by
      simp [int64Mag, he, pow10]
    rw [hmag]
    generalize hPd : 10 ^ e.toNat = P at h hP
    have habs : i.natAbs = c * P := by
      have : ((i.natAbs : Nat) : Int) = ((c * P : Nat) : Int) ∨ ((i.natAbs : Nat) : Int) = -((c * P : Nat) : Int) := by
        revert h; cases n <;> by_cases hi : i < 0 <;> simp [hi] <;> omega
      omega
    have hsign : (n = true → i ≤ 0) ∧ (n = false → 0 ≤ i) := by
      revert h; cases n <;> by_cases hi : i < 0 <;> simp [hi] <;> intro h <;> omega
    have h35 : ¬ (e < -35) := by omega
    simp only [h35, if_false]
    have hm' : (if e > 40 then (if c = 0 then 0 else 2 ^ 64) else c * P) = i.natAbs := by
      split
      · next h40 =>
        split
        · next hc0 => rw [habs, hc0]; simp
        · next hc0 =>
          exfalso
          have : 10 ^ 41 ≤ P := by rw [← hPd]; exact pow10_ge (by omega)
          have : P ≤ c * P := Nat.le_mul_of_pos_left _ (Nat.pos_of_ne_zero hc0)
          have : (2:Nat) ^ 63 < 10 ^ 41 := by decide
          omega
      · exact habs.symm
    rw [hm']
    exact int64Sign_of hr hsign

theorem decToInt_of_value {d : Dec} {i : Int} (hb : d.Bounded) (hr : Int64Range i) (h : cmp (ofInt i) d = some 0) :
    decToInt d = .int i := by
  cases d with
  | nan => simp [cmp_nan_right] at h
  | inf n =>
    have := cmp_zero_trans (cmp_zero_symm (cmp_ofInt i)) h
    cases n <;> simp [cmp] at this
  | fin n c e =>
    have h' := cmp_zero_trans (cmp_zero_symm (cmp_ofInt i)) h
    simp only [cmp, Option.some.injEq] at h'
    have := int64_of_value hb hr h'
    simp only [decToInt, isNaN, Bool.false_eq_true, if_false, this]
    simp [equal_iff.mpr h]

/-- **`decToInt` depends on the value only** -/
theorem decToInt_congr {d d' : Dec} (hb : d.Bounded) (hb' : d'.Bounded) (h : cmp d d' = some 0) :
    decToInt d = decToInt d' := by
  rcases decToInt_cases d with h1 | ⟨i, h1⟩
  · rcases decToInt_cases d' with h2 | ⟨j, h2⟩
    · rw [h1, h2]
    · have ⟨hr, hv⟩ := decToInt_int h2
      have := decToInt_of_value hb hr (cmp_zero_trans hv (cmp_zero_symm h))
      rw [h1] at this; cases this
  · have ⟨hr, hv⟩ := decToInt_int h1
    rw [h1, decToInt_of_value hb' hr (cmp_zero_trans hv h)]

/-! ### every decimal the library produces is `Bounded` -/

theorem dropHigh_le : ∀ (fuel c : Nat) (e : Int) (dg : Nat) (st : Bool), c < 10 ^ fuel →
    (dropHigh fuel c e dg st).1 ≤ MAXSIG
  | 0, c, e, dg, st, h => by simp at h; subst h; simp [dropHigh]
  | fuel + 1, c, e, dg, st, h => by
    unfold dropHigh
    split
    · apply dropHigh_le fuel
      rw [Nat.pow_succ] at h; omega
    · next hgt => simp only; omega

theorem dropLow_le : ∀ (fuel c : Nat) (e : Int) (dg : Nat) (st : Bool), (dropLow fuel c e dg st).1 ≤ c
  | 0, c, e, dg, st => by simp [dropLow]
  | fuel + 1, c, e, dg, st => by
    unfold dropLow
    split
    · simp only
      split
      · simp
      · exact Nat.le_trans (dropLow_le fuel _ _ _ _) (Nat.div_le_self _ _)
    · simp

theorem scaleUp_le : ∀ (fuel c : Nat) (e : Int), c ≤ MAXSIG → (scaleUp fuel c e).1 ≤ MAXSIG
  | 0, c, e, h => by simpa [scaleUp] using h
  | fuel + 1, c, e, h => by
    unfold scaleUp
    split
    · next hc => exact scaleUp_le fuel _ _ hc.2.1
    · simpa using h

theorem roundEven_le : ∀ (fuel c : Nat) (e : Int) (dg : Nat) (st : Bool), c ≤ MAXSIG →
    (roundEven fuel c e dg st).1 ≤ MAXSIG
  | 0, c, e, dg, st, h => by simpa [roundEven] using h
  | fuel + 1, c, e, dg, st, h => by
    unfold roundEven
    simp only
    repeat' split
    all_goals first
      | exact roundEven_le fuel _ _ _ _ (Nat.le_trans (Nat.div_le_self _ _) h)
      | (simp only; omega)

theorem lt_pow10_log2 (c : Nat) : c < 10 ^ (Nat.log2 (c + 1) + 2) := by
  have h1 : c + 1 < 2 ^ (Nat.log2 (c + 1) + 1) := Nat.lt_log2_self
  have h2 : 2 ^ (Nat.log2 (c + 1) + 1) ≤ 10 ^ (Nat.log2 (c + 1) + 1) := Nat.pow_le_pow_left (by decide) _
  have h3 : 10 ^ (Nat.log2 (c + 1) + 1) ≤ 10 ^ (Nat.log2 (c + 1) + 2) := pow10_ge (by omega)
  omega

theorem normalize_bounded {d : Dec} (h : d.Bounded) : (normalize d).Bounded := by
  cases d with
  | nan => exact h
  | inf n => exact h
  | fin n c e =>
    by_cases hc : c = 0
    · subst hc; rw [normalize_zero]; simp [Bounded]
    · obtain ⟨c', k, h1, h2, _⟩ := normalize_spec n c e hc
      rw [h1]
      simp only [Bounded] at h ⊢
      have : c' ≤ c' * 10 ^ k := Nat.le_mul_of_pos_right _ (Nat.pow_pos (by decide))
      omega

/-- the part of `reduce` after the digits have been dropped -/
def reduceTail (neg : Bool) (r3 : Nat × Int × Nat × Bool) : Dec :=
  if (roundEven 3 (scaleUp 40 r3.1 r3.2.1).1 (scaleUp 40 r3.1 r3.2.1).2 r3.2.2.1 r3.2.2.2).2 > EMAX then Dec.inf neg
  else normalize (.fin neg (roundEven 3 (scaleUp 40 r3.1 r3.2.1).1 (scaleUp 40 r3.1 r3.2.1).2 r3.2.2.1 r3.2.2.2).1
    (roundEven 3 (scaleUp 40 r3.1 r3.2.1).1 (scaleUp 40 r3.1 r3.2.1).2 r3.2.2.1 r3.2.2.2).2)

def reduceLow (r1 : Nat × Int × Nat × Bool) : Nat × Int × Nat × Bool :=
  dropLow (min ((EMIN - r1.2.1).toNat + 1) 60) r1.1 r1.2.1 r1.2.2.1 r1.2.2.2

seal dropHigh dropLow scaleUp roundEven normalize in
theorem reduce_eq (neg : Bool) (c : Nat) (e : Int) (st : Bool) :
    reduce neg c e st = if c = 0 ∧ ¬ st then .fin neg 0 0 else
      reduceTail neg (if (reduceLow (dropHigh (Nat.log2 (c + 1) + 2) c e 0 st)).2.1 < EMIN then (0, EMIN, 0, true)
        else reduceLow (dropHigh (Nat.log2 (c + 1) + 2) c e 0 st)) := rfl

theorem reduceTail_bounded (neg : Bool) (r3 : Nat × Int × Nat × Bool) (h3 : r3.1 ≤ MAXSIG) :
    (reduceTail neg r3).Bounded := by
  have h4 := scaleUp_le 40 r3.1 r3.2.1 h3
  have h5 := roundEven_le 3 _ (scaleUp 40 r3.1 r3.2.1).2 r3.2.2.1 r3.2.2.2 h4
  unfold reduceTail
  split
  · simp [Bounded]
  · exact normalize_bounded (d := .fin _ _ _) h5

theorem reduce_bounded (neg : Bool) (c : Nat) (e : Int) (st : Bool) : (reduce neg c e st).Bounded := by
  rw [reduce_eq]
  split
  · simp [Bounded]
  · apply reduceTail_bounded
    have h1 := dropHigh_le (Nat.log2 (c + 1) + 2) c e 0 st (lt_pow10_log2 c)
    generalize dropHigh (Nat.log2 (c + 1) + 2) c e 0 st = r1 at h1 ⊢
    have h2 : (reduceLow r1).1 ≤ MAXSIG := Nat.le_trans (dropLow_le _ r1.1 r1.2.1 r1.2.2.1 r1.2.2.2) h1
    generalize reduceLow r1 = r2 at h2 ⊢
    by_cases hlt : r2.2.1 < EMIN
    · rw [if_pos hlt]; exact Nat.zero_le _
    · rw [if_neg hlt]; exact h2

theorem ofInt_bounded {i : Int} (h : i.natAbs ≤ MAXSIG) : (ofInt i).Bounded := by
  unfold ofInt
  split
  · simp [Bounded]
  · exact normalize_bounded h

theorem ofBinary_bounded (n : Bool) (m : Nat) (x : Int) : (ofBinary n m x).Bounded := by
  unfold ofBinary
  split
  · simp [Bounded]
  · split <;> exact reduce_bounded ..

theorem parseFinish_bounded {s : PState} {neg : Bool} {d : Dec} (h : parseFinish s neg = .ok d) : d.Bounded := by
  unfold parseFinish at h
  by_cases h1 : (!s.caneof) = true
  · simp [h1] at h
  · simp only [h1] at h
    by_cases h2 : s.c = 0
    · simp only [h2, if_true] at h; cases h; simp [Bounded]
    · simp only [h2, if_false] at h
      by_cases h3 : s.maxexp = true
      · simp only [h3, if_true] at h
        by_cases h4 : s.eneg = true
        · simp only [h4, if_true] at h; cases h; simp [Bounded]
        · simp only [h4] at h; cases h
      · simp only [h3] at h
        generalize ((if s.eneg then -(s.exp : Int) else s.exp) - s.nfrac) = e at h
        by_cases h5 : e > EMAX + 39
        · simp only [h5, if_true] at h; cases h
        · simp only [h5, if_false] at h
          by_cases h6 : e < EMIN - 39
          · simp only [h6, if_true] at h; cases h; simp [Bounded]
          · simp only [h6, if_false] at h
            have hb := reduce_bounded neg s.c e s.sticky
            generalize reduce neg s.c e s.sticky = r at h hb
            cases r with
            | nan => cases h; exact hb
            | inf n => cases h
            | fin n c e => cases h; exact hb

theorem parseNumber_bounded {t : Bytes} {neg sep : Bool} {d : Dec} (h : parseNumber t neg sep = .ok d) : d.Bounded := by
  rw [parseNumber_eq] at h
  split at h
  · cases h
  · exact parseFinish_bounded h

theorem parse_bounded {t : Bytes} {d : Dec} (h : parse t = .ok d) : d.Bounded := by
  unfold parse at h
  cases t with
  | nil => cases h
  | cons b0 rest0 =>
    simp only at h
    generalize (if b0 = 0x2B then (false, rest0) else if b0 = 0x2D then (true, rest0) else (false, b0 :: rest0)) = p at h
    obtain ⟨neg, ds⟩ := p
    simp only at h
    by_cases h1 : ds.isEmpty = true
    · simp [h1] at h
    · simp only [h1] at h
      by_cases h2 : ds.map lowerByte = [0x69, 0x6E, 0x66]
      · simp only [h2, if_true] at h; cases h; simp [Bounded]
      · simp only [h2] at h
        by_cases h3 : ds.map lowerByte = [0x6E, 0x61, 0x6E]
        · simp only [h3, if_true] at h; cases h; simp [Bounded]
        · simp only [h3] at h
          by_cases h4 : ds.map lowerByte = [0x69, 0x6E, 0x66, 0x69, 0x6E, 0x69, 0x74, 0x79]
          · simp only [h4, if_true] at h; cases h; simp [Bounded]
          · simp only [h4] at h
            exact parseNumber_bounded h

/-! ### integer-valued decimals -/

/-- the integer `(-1)^n · v` -/
def intVal (n : Bool) (v : Nat) : Int := if n then -(v : Int) else v

theorem cmpFin_int_iff (i : Int) (n : Bool) (v : Nat) :
    cmpFin (decide (i < 0)) i.natAbs 0 n v 0 = 0 ↔ i = intVal n v := by
  rw [cmpFin_eq_zero_iff]
  simp only [sval, pow10, intVal]
  have : ((0 : Int) - min 0 0).toNat = 0 := by omega
  rw [this]
  simp only [Nat.pow_zero, Nat.mul_one]
  cases n <;> by_cases hi : i < 0 <;> simp [hi] <;> omega

theorem cmp_ofInt_fin_iff (i : Int) (n : Bool) (v : Nat) : cmp (ofInt i) (.fin n v 0) = some 0 ↔ i = intVal n v := by
  rw [← cmpFin_int_iff]
  constructor
  · intro h
    have := cmp_zero_trans (cmp_zero_symm (cmp_ofInt i)) h
    simpa [cmp] using this
  · intro h
    exact cmp_zero_trans (cmp_ofInt i) (by simpa [cmp] using h)

theorem ofInt_ne_nan (i : Int) : ofInt i ≠ .nan := ne_nan_of_cmp_left (cmp_ofInt i)

theorem cmp_ofInt_ofInt_iff (i j : Int) : cmp (ofInt i) (ofInt j) = some 0 ↔ i = j := by
  constructor
  · intro h
    have := (cmp_ofInt_fin_iff i _ _).mp (cmp_zero_trans h (cmp_ofInt j))
    rw [this]; unfold intVal; by_cases hj : j < 0 <;> simp [hj] <;> omega
  · intro h; subst h; exact cmp_self (ofInt_ne_nan i)

/-- `decToInt` of a decimal (within the format) whose value is the integer `j` -/
theorem decToInt_of_int_value {d : Dec} {j : Int} (hb : d.Bounded) (hv : cmp (ofInt j) d = some 0) :
    decToInt d = if -(2 ^ 63 : Int) ≤ j ∧ j ≤ 2 ^ 63 - 1 then .int j else .notInt := by
  split
  · next hr => exact decToInt_of_value hb hr hv
  · next hr =>
    rcases decToInt_cases d with h | ⟨i, h⟩
    · exact h
    · have ⟨hr', hv'⟩ := decToInt_int h
      have := (cmp_ofInt_ofInt_iff i j).mp (cmp_zero_trans hv' (cmp_zero_symm hv))
      subst this
      exact absurd hr' hr

theorem decToInt_ofInt {j : Int} (hb : j.natAbs ≤ MAXSIG) :
    decToInt (ofInt j) = if -(2 ^ 63 : Int) ≤ j ∧ j ≤ 2 ^ 63 - 1 then .int j else .notInt :=
  decToInt_of_int_value (ofInt_bounded hb) (cmp_self (ofInt_ne_nan j))

theorem decToInt_normalize_int (n : Bool) (v : Nat) (hb : v ≤ MAXSIG) :
    decToInt (normalize (.fin n v 0)) =
      if -(2 ^ 63 : Int) ≤ intVal n v ∧ intVal n v ≤ 2 ^ 63 - 1 then .int (intVal n v) else .notInt :=
  decToInt_of_int_value (normalize_bounded (d := .fin n v 0) hb)
    (cmp_zero_trans ((cmp_ofInt_fin_iff _ n v).mpr rfl) (cmp_normalize' n v 0))

end Dec

/-! ### `json.Number`: `strconv.ParseInt` agrees with the decimal reading -/

theorem parseInt64_digits {neg : Bool} {d : Bytes} {i : Int}
    (h : (if d.isEmpty then none
     else if d.all Dec.isDigit then
       (if neg then (if Dec.dval 0 d > 2 ^ 63 then none else some (-(Dec.dval 0 d : Int)))
        else (if Dec.dval 0 d > 2 ^ 63 - 1 then none else some (Dec.dval 0 d : Int)))
     else none) = some i) :
    d ≠ [] ∧ (∀ x ∈ d, Dec.isDigit x = true) ∧ i = Dec.intVal neg (Dec.dval 0 d) ∧ Dec.Int64Range i := by
  unfold Dec.Int64Range Dec.intVal
  cases d with
  | nil => simp at h
  | cons b ds =>
    simp only [List.isEmpty_cons, Bool.false_eq_true, if_false] at h
    by_cases hd : (b :: ds).all Dec.isDigit = true
    · have hd' : ∀ x ∈ b :: ds, Dec.isDigit x = true := by simpa using hd
      simp only [hd, if_true] at h
      refine ⟨by simp, hd', ?_⟩
      cases neg
      · simp only [Bool.false_eq_true, if_false] at h ⊢
        split at h
        · cases h
        · cases h; exact ⟨rfl, by omega, by omega⟩
      · simp only [if_true] at h ⊢
        split at h
        · cases h
        · cases h; exact ⟨rfl, by omega, by omega⟩
    · simp only [hd, Bool.false_eq_true, if_false] at h
      cases h

theorem parseInt64_some {t : Bytes} {i : Int} (h : parseInt64 t = some i) :
    ∃ (neg : Bool) (b : Nat) (ds : Bytes), (∀ x ∈ b :: ds, Dec.isDigit x = true) ∧
      (t = b :: ds ∧ neg = false ∨ t = 0x2B :: b :: ds ∧ neg = false ∨ t = 0x2D :: b :: ds ∧ neg = true) ∧
      i = Dec.intVal neg (Dec.dval 0 (b :: ds)) ∧ Dec.Int64Range i := by
  unfold parseInt64 at h
  split at h
  next x neg d heq =>
  have ⟨h1, h2, h3, h4⟩ := parseInt64_digits (neg := neg) (d := d) h
  cases d with
  | nil => exact absurd rfl h1
  | cons b ds =>
    refine ⟨neg, b, ds, h2, ?_, h3, h4⟩
    split at heq
    · cases heq; exact .inr (.inl ⟨rfl, rfl⟩)
    · cases heq; exact .inr (.inr ⟨rfl, rfl⟩)
    · cases heq; exact .inl ⟨rfl, rfl⟩

theorem Dec.parse_plus_digit_head (b : Nat) (rest : Bytes) (hb : Dec.isDigit b = true) :
    Dec.parse (0x2B :: b :: rest) = Dec.parseNumber (b :: rest) false true := by
  have hb' := (Dec.isDigit_iff b).mp hb
  have hl : Dec.lowerByte b = b := by simp [Dec.lowerByte]; omega
  have h3 : b ≠ 0x69 := by omega
  have h4 : b ≠ 0x6E := by omega
  simp [Dec.parse, hl, h3, h4]

/-- a run of digits (value within the format) is read exactly -/
theorem Dec.parseNumber_int_text (neg : Bool) (b : Nat) (ds : Bytes) (hd : ∀ x ∈ b :: ds, Dec.isDigit x = true)
    (hv : Dec.dval 0 (b :: ds) ≤ Dec.MAXSIG) :
    Dec.parseNumber (b :: ds) neg true = .ok (Dec.normalize (.fin neg (Dec.dval 0 (b :: ds)) 0)) := by
  have := Dec.parseNumber_mant (b :: ds) (Dec.dval 0 (b :: ds)) 0 false neg true
    (Dec.prun_int true b ds hd (Nat.le_trans hv Dec.MAXSIG_le_PFULL)) hv (by decide) (by decide)
  simpa using this

theorem Dec.two63_le_MAXSIG : 2 ^ 63 ≤ Dec.MAXSIG := by decide
theorem Dec.two64_le_MAXSIG : 2 ^ 64 ≤ Dec.MAXSIG := by decide

/-- when `strconv.ParseInt` accepts the text of a `json.Number`, `decimal128.Parse` reads the same integer -/
theorem jnum_parseInt64 {t : Bytes} {i : Int} (h : parseInt64 t = some i) :
    ∃ d, Dec.parse t = .ok d ∧ decToInt d = .int i ∧ Dec.cmp (Dec.ofInt i) d = some 0 := by
  obtain ⟨neg, b, ds, hd, ht, hi, hr⟩ := parseInt64_some h
  have hr' := hr
  unfold Dec.Int64Range at hr'
  have hv : Dec.dval 0 (b :: ds) ≤ Dec.MAXSIG := by
    have := Dec.two63_le_MAXSIG
    rw [hi] at hr'
    unfold Dec.intVal at hr'
    cases neg <;> simp at hr' <;> omega
  have hb : Dec.isDigit b = true := hd b (List.mem_cons_self ..)
  have hp : Dec.parse t = .ok (Dec.normalize (.fin neg (Dec.dval 0 (b :: ds)) 0)) := by
    rcases ht with ⟨rfl, rfl⟩ | ⟨rfl, rfl⟩ | ⟨rfl, rfl⟩
    · rw [Dec.parse_digit_head b ds hb, Dec.parseNumber_int_text false b ds hd hv]
    · rw [Dec.parse_plus_digit_head b ds hb, Dec.parseNumber_int_text false b ds hd hv]
    · rw [Dec.parse_minus_digit_head b ds hb, Dec.parseNumber_int_text true b ds hd hv]
  refine ⟨_, hp, ?_, ?_⟩
  · rw [Dec.decToInt_normalize_int neg _ hv, ← hi, if_pos hr']
  · rw [hi]
    exact Dec.cmp_zero_trans ((Dec.cmp_ofInt_fin_iff _ neg _).mpr rfl) (Dec.cmp_normalize' neg _ 0)

theorem F64.toDec_bounded (f : F64) : f.toDec.Bounded := by
  cases f with
  | nan => simp [F64.toDec, Dec.Bounded]
  | inf n => simp [F64.toDec, Dec.Bounded]
  | fin n m e => exact Dec.ofBinary_bounded n m e


/-! ### binary floats whose value is exactly representable as a decimal -/
namespace F64

/-- the invariant of the model's floats: the significand is odd, or the value is zero (`m = 0 ∧ e = 0`) -/
def Odd : F64 → Prop
  | .fin _ m e => m % 2 = 1 ∨ (m = 0 ∧ e = 0)
  | _ => True

/-- the conversion to decimal128 is exact: `m·2^e` (resp. `m·5^(-e)·10^e`) fits the format -/
def DecExact : F64 → Prop
  | .fin _ m e => (0 ≤ e → m * 2 ^ e.toNat ≤ Dec.MAXSIG) ∧ (e < 0 → m * 5 ^ (-e).toNat ≤ Dec.MAXSIG ∧ Dec.EMIN ≤ e)
  | _ => True

theorem toDec_nonneg_exp (n : Bool) (m : Nat) (e : Int) (he : 0 ≤ e) (hx : m * 2 ^ e.toNat ≤ Dec.MAXSIG) :
    toDec (.fin n m e) = Dec.normalize (.fin n (m * 2 ^ e.toNat) 0) := by
  simp only [toDec, Dec.ofBinary]
  by_cases hm : m = 0
  · subst hm; simp [Dec.normalize_zero]
  · simp only [hm, if_false, ge_iff_le, he, if_true]
    exact Dec.reduce_exact n _ 0 hx (by decide) (by decide)

theorem toDec_neg_exp (n : Bool) (m : Nat) (e : Int) (he : e < 0) (hx : m * 5 ^ (-e).toNat ≤ Dec.MAXSIG)
    (hlo : Dec.EMIN ≤ e) : toDec (.fin n m e) = Dec.normalize (.fin n (m * 5 ^ (-e).toNat) e) := by
  simp only [toDec, Dec.ofBinary]
  by_cases hm : m = 0
  · subst hm; simp [Dec.normalize_zero]
  · have : ¬ (e ≥ 0) := by omega
    simp only [hm, if_false, this]
    exact Dec.reduce_exact n _ e hx hlo (by unfold Dec.EMAX; omega)

/-- the float holding the integer `(-1)^n·v` exactly: its decimal has that value -/
theorem toDec_value_int (n : Bool) (m : Nat) (e : Int) (he : 0 ≤ e) (hx : m * 2 ^ e.toNat ≤ Dec.MAXSIG) :
    Dec.cmp (Dec.ofInt (Dec.intVal n (m * 2 ^ e.toNat))) (toDec (.fin n m e)) = some 0 := by
  rw [toDec_nonneg_exp n m e he hx]
  exact Dec.cmp_zero_trans ((Dec.cmp_ofInt_fin_iff _ n _).mpr rfl) (Dec.cmp_normalize' n _ 0)

theorem pow2_cancel {m a b : Nat} (h : m * 2 ^ a = 2 ^ b) (hodd : m % 2 = 1) : m = 1 ∧ a = b := by
  have hab : a ≤ b := by
    apply Nat.le_of_not_lt
    intro hlt
    have : 2 ^ a = 2 ^ b * 2 ^ (a - b) := by rw [← Nat.pow_add]; congr 1; omega
    rw [this, ← Nat.mul_assoc, Nat.mul_comm m, Nat.mul_assoc] at h
    have hp : 0 < 2 ^ b := Nat.pow_pos (by decide)
    have h1 : m * 2 ^ (a - b) = 1 := Nat.eq_of_mul_eq_mul_left hp (by rw [h]; simp)
    have : 2 ^ (a - b) = 2 * 2 ^ (a - b - 1) := by rw [← Nat.pow_succ']; congr 1; omega
    rw [this] at h1
    have : m * (2 * 2 ^ (a - b - 1)) = 2 * (m * 2 ^ (a - b - 1)) := by
      rw [← Nat.mul_assoc, Nat.mul_comm m 2, Nat.mul_assoc]
    omega
  have hb : 2 ^ b = 2 ^ (b - a) * 2 ^ a := by rw [← Nat.pow_add]; congr 1; omega
  rw [hb] at h
  have hm : m = 2 ^ (b - a) := Nat.eq_of_mul_eq_mul_right (Nat.pow_pos (by decide)) h
  by_cases hz : b - a = 0
  · rw [hz] at hm; exact ⟨by simpa using hm, by omega⟩
  · have : 2 ^ (b - a) = 2 * 2 ^ (b - a - 1) := by rw [← Nat.pow_succ']; congr 1; omega
    omega

/-- **the float branch of `toInt` agrees with the decimal branch** on floats that convert exactly, except at the
    single value `2^63` (where Go's float→int conversion on amd64 yields `-2^63`) -/
theorem toInt_eq_decToInt (f : F64) (hodd : f.Odd) (hex : f.DecExact) (hne : f ≠ .fin false 1 63) :
    (match f.toInt with | some i => ToInt.int i | none => ToInt.notInt) = decToInt f.toDec := by
  cases f with
  | nan => simp [toInt, toDec, decToInt, Dec.isNaN]
  | inf n => simp [toInt, toDec, decToInt, Dec.isNaN, Dec.int64]
  | fin n m e =>
    simp only [Odd] at hodd
    simp only [DecExact] at hex
    by_cases he : e < 0
    · -- a proper dyadic fraction: not an integer
      have hm : m % 2 = 1 := by omega
      obtain ⟨hx, hlo⟩ := hex.2 he
      rw [toDec_neg_exp n m e he hx hlo]
      simp only [toInt, he, if_true]
      rcases Dec.decToInt_cases (Dec.normalize (.fin n (m * 5 ^ (-e).toNat) e)) with h | ⟨i, h⟩
      · rw [h]
      · exfalso
        have ⟨_, hv⟩ := Dec.decToInt_int h
        have h2 := Dec.cmp_zero_trans (Dec.cmp_zero_trans (Dec.cmp_zero_symm (Dec.cmp_ofInt i)) hv) (Dec.cmp_normalize n _ e)
        simp only [Dec.cmp, Option.some.injEq] at h2
        rw [Dec.cmpFin_eq_zero_iff_value _ _ _ _ _ _ e (by omega) (by omega)] at h2
        simp only [Dec.sval, Dec.pow10] at h2
        have h1 : ((0 : Int) - e).toNat = (-e).toNat := by omega
        have h0 : (e - e).toNat = 0 := by omega
        rw [h1, h0] at h2
        simp only [Nat.pow_zero, Nat.mul_one] at h2
        obtain ⟨k, hk⟩ : ∃ k, (-e).toNat = k + 1 := ⟨(-e).toNat - 1, by omega⟩
        rw [hk] at h2
        have h10 : (10 : Nat) ^ (k + 1) = 2 * 2 ^ k * 5 ^ (k + 1) := by
          rw [show (10 : Nat) = 2 * 5 from rfl, Nat.mul_pow, Nat.pow_succ' (n := k)]
        have habs : i.natAbs * 10 ^ (k + 1) = m * 5 ^ (k + 1) := by
          have : ((i.natAbs * 10 ^ (k + 1) : Nat) : Int) = ((m * 5 ^ (k + 1) : Nat) : Int) ∨
              ((i.natAbs * 10 ^ (k + 1) : Nat) : Int) = -((m * 5 ^ (k + 1) : Nat) : Int) := by
            revert h2; cases n <;> by_cases hi : i < 0 <;> simp [hi] <;> omega
          omega
        rw [h10, ← Nat.mul_assoc] at habs
        have := Nat.eq_of_mul_eq_mul_right (Nat.pow_pos (by decide)) habs
        have : i.natAbs * (2 * 2 ^ k) = 2 * (i.natAbs * 2 ^ k) := by
          rw [← Nat.mul_assoc, Nat.mul_comm i.natAbs 2, Nat.mul_assoc]
        omega
    · have he' : 0 ≤ e := by omega
      have hx := hex.1 he'
      have hv := toDec_value_int n m e he' hx
      rw [Dec.decToInt_of_int_value (toDec_bounded _) hv]
      simp only [toInt, he, if_false]
      have hP : 0 < 2 ^ e.toNat := Nat.pow_pos (by decide)
      by_cases h63 : e > 63
      · simp only [h63, if_true]
        have hm : m % 2 = 1 := by omega
        have : 2 ^ 64 ≤ 2 ^ e.toNat := Nat.pow_le_pow_right (by decide) (by omega)
        have : 2 ^ e.toNat ≤ m * 2 ^ e.toNat := Nat.le_mul_of_pos_left _ (by omega)
        have hbig : 2 ^ 64 ≤ m * 2 ^ e.toNat := by omega
        generalize m * 2 ^ e.toNat = v at hbig ⊢
        rw [if_neg]
        unfold Dec.intVal
        cases n <;> simp <;> omega
      · simp only [h63, if_false]
        generalize hV : m * 2 ^ e.toNat = v at *
        unfold Dec.intVal
        cases n
        · simp only [Bool.false_eq_true, if_false]
          by_cases h1 : v ≥ 2 ^ 63
          · simp only [h1, if_true]; rw [if_neg]; omega
          · simp only [h1, if_false]; rw [if_pos]; omega
        · simp only [if_true]
          by_cases h1 : v > 2 ^ 63
          · simp only [h1, if_true]; rw [if_neg]; omega
          · simp only [h1, if_false]; rw [if_pos]; omega

end F64

/-! ### numbers: well-formed representations, and `toInt` through the decimal -/

/-- the Go integer kind can hold `v` -/
def IntKind.InRange : IntKind → Int → Prop
  | .i8, v => -(2 ^ 7 : Int) ≤ v ∧ v < 2 ^ 7
  | .i16, v => -(2 ^ 15 : Int) ≤ v ∧ v < 2 ^ 15
  | .i32, v => -(2 ^ 31 : Int) ≤ v ∧ v < 2 ^ 31
  | .i64, v => -(2 ^ 63 : Int) ≤ v ∧ v < 2 ^ 63
  | .int, v => -(2 ^ 63 : Int) ≤ v ∧ v < 2 ^ 63
  | .u8, v => 0 ≤ v ∧ v < 2 ^ 8
  | .u16, v => 0 ≤ v ∧ v < 2 ^ 16
  | .u32, v => 0 ≤ v ∧ v < 2 ^ 32
  | .u64, v => 0 ≤ v ∧ v < 2 ^ 64
  | .uint, v => 0 ≤ v ∧ v < 2 ^ 64

theorem IntKind.InRange.natAbs_lt {k : IntKind} {v : Int} (h : k.InRange v) : v.natAbs < 2 ^ 64 := by
  cases k <;> simp only [IntKind.InRange] at h <;> omega

/-- a float as Go can hold it and whose conversion to decimal128 is exact, `2^63` excluded -/
def F64.Good (f : F64) : Prop := f.Odd ∧ f.DecExact ∧ f ≠ .fin false 1 63

/-- a number as a Go program can hold it (integer within its kind, decimal coefficient within the format,
    normalised float), every intermediate conversion being exact -/
def Num.Good : Num → Prop
  | .jnum _ => True
  | .dec d => d.Bounded
  | .int k v => k.InRange v
  | .f64 f => f.Good
  | .f32 f => f.Good

theorem toDecimal_bounded {a : Num} {d : Dec} (hg : a.Good) (h : toDecimal (.num a) = some d) : d.Bounded := by
  cases a with
  | jnum t =>
    simp only [toDecimal] at h
    split at h
    · next hp => cases h; exact Dec.parse_bounded hp
    · cases h
  | dec d' => simp only [toDecimal] at h; cases h; exact hg
  | int k v =>
    simp only [toDecimal] at h; cases h
    have := IntKind.InRange.natAbs_lt (show k.InRange v from hg)
    exact Dec.ofInt_bounded (by have := Dec.two64_le_MAXSIG; omega)
  | f64 f => simp only [toDecimal] at h; cases h; exact F64.toDec_bounded f
  | f32 f => simp only [toDecimal] at h; cases h; exact F64.toDec_bounded f

/-- **`toInt` is `decToInt` of the decimal value**, whatever the representation -/
theorem toInt_eq_decToInt {a : Num} {d : Dec} (hg : a.Good) (h : toDecimal (.num a) = some d) :
    toInt (.num a) = decToInt d := by
  cases a with
  | jnum t =>
    simp only [toDecimal] at h
    split at h
    · next d' hp =>
      cases h
      simp only [toInt]
      cases hi : parseInt64 t with
      | none => simp only [hp]
      | some i =>
        obtain ⟨d'', hp', hd, _⟩ := jnum_parseInt64 hi
        rw [hp] at hp'; cases hp'
        simp only [hd]
    · cases h
  | dec d' => simp only [toDecimal] at h; cases h; rfl
  | int k v =>
    simp only [toDecimal] at h; cases h
    have hlt := IntKind.InRange.natAbs_lt (show k.InRange v from hg)
    rw [Dec.decToInt_ofInt (by have := Dec.two64_le_MAXSIG; omega)]
    have hg' : k.InRange v := hg
    cases k <;> simp only [IntKind.InRange] at hg' <;> simp only [toInt]
    case u64 =>
      split
      · rw [if_neg (by omega)]
      · rw [if_pos (by omega)]
    case uint =>
      split
      · rw [if_neg (by omega)]
      · rw [if_pos (by omega)]
    all_goals rw [if_pos (by omega)]
  | f64 f => simp only [toDecimal] at h; cases h; exact F64.toInt_eq_decToInt f hg.1 hg.2.1 hg.2.2
  | f32 f => simp only [toDecimal] at h; cases h; exact F64.toInt_eq_decToInt f hg.1 hg.2.1 hg.2.2

/-- two numbers denote the same value: both convert to decimals that compare equal (so neither is NaN) -/
def Num.SameValue (a b : Num) : Prop :=
  ∃ da db, toDecimal (.num a) = some da ∧ toDecimal (.num b) = some db ∧ Dec.cmp da db = some 0

/-- the number converts to a decimal other than NaN (`SameValue a a`) -/
def Num.Valued (a : Num) : Prop := ∃ d, toDecimal (.num a) = some d ∧ d ≠ .nan

theorem Num.SameValue.refl {a : Num} (h : a.Valued) : Num.SameValue a a := by
  obtain ⟨d, h1, h2⟩ := h
  exact ⟨d, d, h1, h1, Dec.cmp_self h2⟩

theorem Num.SameValue.symm {a b : Num} (h : Num.SameValue a b) : Num.SameValue b a := by
  obtain ⟨da, db, h1, h2, h3⟩ := h
  exact ⟨db, da, h2, h1, Dec.cmp_zero_symm h3⟩

theorem Num.SameValue.trans {a b c : Num} (h : Num.SameValue a b) (h' : Num.SameValue b c) : Num.SameValue a c := by
  obtain ⟨da, db, h1, h2, h3⟩ := h
  obtain ⟨db', dc, h4, h5, h6⟩ := h'
  rw [h2] at h4; cases h4
  exact ⟨da, dc, h1, h5, Dec.cmp_zero_trans h3 h6⟩

theorem Num.SameValue.valued_left {a b : Num} (h : Num.SameValue a b) : a.Valued := by
  obtain ⟨da, db, h1, h2, h3⟩ := h
  exact ⟨da, h1, Dec.ne_nan_of_cmp_left h3⟩

theorem Num.SameValue.valued_right {a b : Num} (h : Num.SameValue a b) : b.Valued := h.symm.valued_left

theorem Num.sameValue_self_iff {a : Num} : Num.SameValue a a ↔ a.Valued :=
  ⟨fun h => h.valued_left, Num.SameValue.refl⟩


/-! ### the canonical decimal text of an integer, read back as a `json.Number` -/
namespace Dec

theorem digitsOfAux_spec : ∀ (fuel n : Nat) (acc : List Nat), n < 10 ^ fuel →
    ∃ ds, digitsOfAux fuel n acc = ds ++ acc ∧ (∀ x ∈ ds, isDigit x = true) ∧
      (∀ a0, dval a0 ds = a0 * 10 ^ ds.length + n) ∧ (n ≠ 0 → ds ≠ [])
  | 0, n, acc, h => by
    have : n = 0 := by simpa using h
    subst this
    exact ⟨[], by simp [digitsOfAux], by simp, by simp [dval], by simp⟩
  | fuel + 1, n, acc, h => by
    unfold digitsOfAux
    by_cases hn : n = 0
    · subst hn
      exact ⟨[], by simp, by simp, by simp [dval], by simp⟩
    · simp only [hn, if_false]
      obtain ⟨ds, h1, h2, h3, _⟩ := digitsOfAux_spec fuel (n / 10) ((0x30 + n % 10) :: acc)
        (by rw [Nat.pow_succ] at h; omega)
      refine ⟨ds ++ [0x30 + n % 10], by rw [h1]; simp, ?_, ?_, by simp⟩
      · intro x hx
        rcases List.mem_append.mp hx with hx | hx
        · exact h2 x hx
        · have : x = 0x30 + n % 10 := by simpa using hx
          rw [this, isDigit_iff]; omega
      · intro a0
        rw [dval_append, h3, dval_cons, dval_nil, List.length_append, List.length_singleton, Nat.pow_succ]
        have : 48 + n % 10 - 48 = n % 10 := by omega
        rw [this, Nat.add_mul, Nat.mul_assoc]
        omega

theorem lt_pow10_log2' (n : Nat) : n < 10 ^ (Nat.log2 n + 2) := by
  have h1 : n < 2 ^ (Nat.log2 n + 1) := Nat.lt_log2_self
  have h2 : 2 ^ (Nat.log2 n + 1) ≤ 10 ^ (Nat.log2 n + 1) := Nat.pow_le_pow_left (by decide) _
  have h3 : 10 ^ (Nat.log2 n + 1) ≤ 10 ^ (Nat.log2 n + 2) := pow10_ge (by omega)
  omega

/-- `natToBytes n` is a non-empty run of digits whose value is `n` -/
theorem natToBytes_spec (n : Nat) :
    ∃ b ds, natToBytes n = b :: ds ∧ (∀ x ∈ b :: ds, isDigit x = true) ∧ dval 0 (b :: ds) = n := by
  unfold natToBytes
  by_cases hn : n = 0
  · subst hn; exact ⟨0x30, [], by simp, by simp [isDigit], by simp [dval]⟩
  · simp only [hn, if_false]
    obtain ⟨ds, h1, h2, h3, h4⟩ := digitsOfAux_spec (Nat.log2 n + 2) n [] (lt_pow10_log2' n)
    simp only [List.append_nil] at h1
    cases ds with
    | nil => exact absurd rfl (h4 hn)
    | cons b ds => exact ⟨b, ds, h1, h2, by simpa using h3 0⟩

end Dec

/-- **`json.Number` holding the canonical text of the integer `v`** (as `strconv.Itoa`/`json.Marshal` print it)
    converts to a decimal of value `v` -/
theorem toDecimal_jnum_intToBytes (v : Int) (hv : v.natAbs ≤ Dec.MAXSIG) :
    ∃ d, toDecimal (.num (.jnum (Json.intToBytes v))) = some d ∧ Dec.cmp (Dec.ofInt v) d = some 0 := by
  obtain ⟨b, ds, h1, h2, h3⟩ := Dec.natToBytes_spec v.natAbs
  have hb : Dec.isDigit b = true := h2 b (List.mem_cons_self ..)
  have hv' : Dec.dval 0 (b :: ds) ≤ Dec.MAXSIG := by rw [h3]; exact hv
  refine ⟨Dec.normalize (.fin (decide (v < 0)) v.natAbs 0), ?_, ?_⟩
  · simp only [toDecimal, Json.intToBytes]
    by_cases hneg : v < 0
    · simp only [hneg, if_true, h1, Dec.parse_minus_digit_head b ds hb, Dec.parseNumber_int_text true b ds h2 hv', h3]
      simp
    · simp only [hneg, if_false, h1, Dec.parse_digit_head b ds hb, Dec.parseNumber_int_text false b ds h2 hv', h3]
      simp
  · exact Dec.cmp_zero_trans (Dec.cmp_ofInt v) (Dec.cmp_normalize' _ _ 0)

/-! ### floats built by `F64.mk` -/
namespace F64

theorem stripTwos_spec : ∀ (fuel m : Nat) (e : Int),
    ∃ k : Nat, stripTwos fuel m e = ((stripTwos fuel m e).1, e + k) ∧ m = (stripTwos fuel m e).1 * 2 ^ k
  | 0, m, e => ⟨0, by simp [stripTwos]⟩
  | fuel + 1, m, e => by
    unfold stripTwos
    split
    · next h =>
      obtain ⟨k, h1, h2⟩ := stripTwos_spec fuel (m / 2) (e + 1)
      refine ⟨k + 1, ?_, ?_⟩
      · rw [h1]; simp only [Prod.mk.injEq, true_and]; omega
      · rw [Nat.pow_succ, ← Nat.mul_assoc, ← h2]; omega
    · exact ⟨0, by simp⟩

theorem stripTwos_done : ∀ (fuel m : Nat) (e : Int), m ≠ 0 → m < 2 ^ fuel → (stripTwos fuel m e).1 % 2 = 1
  | 0, m, e, h0, h => by simp at h; omega
  | fuel + 1, m, e, h0, h => by
    unfold stripTwos
    split
    · next hc =>
      apply stripTwos_done fuel (m / 2) (e + 1)
      · omega
      · rw [Nat.pow_succ] at h; omega
    · next hc => simp only; omega

/-- `mk` keeps the value and normalises: `m·2^e = m'·2^(e+k)` with `m'` odd -/
theorem mk_spec (n : Bool) (m : Nat) (e : Int) (hm : m ≠ 0) :
    ∃ m' k : Nat, mk n m e = .fin n m' (e + k) ∧ m = m' * 2 ^ k ∧ m' % 2 = 1 := by
  obtain ⟨k, h1, h2⟩ := stripTwos_spec (Nat.log2 m + 1) m e
  have h3 := stripTwos_done (Nat.log2 m + 1) m e hm Nat.lt_log2_self
  refine ⟨_, k, ?_, h2, h3⟩
  simp only [mk, hm, if_false]
  rw [h1]

theorem mk_odd (n : Bool) (m : Nat) (e : Int) : (mk n m e).Odd := by
  by_cases hm : m = 0
  · subst hm; simp [mk, Odd]
  · obtain ⟨m', k, h1, _, h3⟩ := mk_spec n m e hm
    rw [h1]; exact .inl h3

/-- **the float holding the integer `v`** (`v·2^0`, any `v ≤ MAXSIG`, in particular `v < 2^53`) converts to a
    decimal of value `v` -/
theorem toDec_mk_int (n : Bool) (v : Nat) (hv : v ≤ Dec.MAXSIG) :
    Dec.cmp (Dec.ofInt (Dec.intVal n v)) (toDec (mk n v 0)) = some 0 := by
  by_cases hm : v = 0
  · subst hm
    simp only [mk, if_true, toDec, Dec.ofBinary]
    unfold Dec.intVal
    cases n <;> simp [Dec.ofInt, Dec.cmp_zero_zero]
  · obtain ⟨m', k, h1, h2, _⟩ := mk_spec n v 0 hm
    rw [h1]
    have hk : ((0 : Int) + (k : Int)).toNat = k := by omega
    have := toDec_value_int n m' (0 + k) (by omega) (by rw [hk, ← h2]; exact hv)
    rw [hk, ← h2] at this
    exact this

/-- a dyadic fraction `m·2^(-k)` is the decimal `m·5^k·10^(-k)` -/
theorem toDec_dyadic (n : Bool) (m k : Nat) (hk : 0 < k) (hx : m * 5 ^ k ≤ Dec.MAXSIG) (hlo : k ≤ 6176) :
    Dec.cmp (toDec (.fin n m (-(k : Int)))) (.fin n (m * 5 ^ k) (-(k : Int))) = some 0 := by
  have h1 : (-(-(k : Int))).toNat = k := by omega
  rw [toDec_neg_exp n m (-(k : Int)) (by omega) (by rw [h1]; exact hx) (by unfold Dec.EMIN; omega), h1]
  exact Dec.cmp_normalize _ _ _

end F64

/-! ### decimal arithmetic respects the value of its operands (when the exact result fits the format) -/
namespace Dec

/-- the exact value `c·10^e` fits the format after moving trailing zeros into the exponent -/
def Fits (c : Nat) (e : Int) : Prop :=
  c = 0 ∨ ∃ c0 j : Nat, c = c0 * 10 ^ j ∧ c0 ≠ 0 ∧ c0 ≤ MAXSIG ∧ EMIN ≤ e + j ∧ e + j ≤ EMAX

theorem reduce_of_fits (n : Bool) (c : Nat) (e : Int) (h : Fits c e) :
    reduce n c e false = normalize (.fin n c e) := by
  rcases h with h | ⟨c0, j, h1, h2, h3, h4, h5⟩
  · subst h; simp [reduce, normalize_zero]
  · rw [h1, reduce_zeros n c0 j e h2 h3 h4 h5, normalize_shift]

/-- both not finite (the evaluator reports "not a number" for either), or finite-or-infinite of equal value -/
def Same (a b : Dec) : Prop := (a.isSpecial = true ∧ b.isSpecial = true) ∨ cmp a b = some 0

theorem sval_zero (n : Bool) (e m : Int) : sval n 0 e m = 0 := by simp [sval]

theorem sval_signed (s : Int) (e m : Int) :
    sval (decide (s < 0)) s.natAbs e m = s * ((10 ^ (e - m).toNat : Nat) : Int) := by
  unfold sval pow10
  rw [Int.natCast_mul]
  by_cases h : s < 0
  · simp only [h, decide_true, if_true]
    have : (s.natAbs : Int) = -s := by omega
    rw [this, Int.neg_mul, Int.neg_mul, Int.one_mul, Int.neg_neg]
  · simp only [h, decide_false, Bool.false_eq_true, if_false]
    have : (s.natAbs : Int) = s := by omega
    rw [this]; simp

theorem cmpFin_coeff_zero {n1 c1 e1 n2 c2 e2} (h : cmpFin n1 c1 e1 n2 c2 e2 = 0) : c1 = 0 ↔ c2 = 0 := by
  rw [cmpFin_eq_zero_iff] at h
  simp only [sval, pow10] at h
  have hp1 : 0 < 10 ^ (e1 - min e1 e2).toNat := Nat.pow_pos (by decide)
  have hp2 : 0 < 10 ^ (e2 - min e1 e2).toNat := Nat.pow_pos (by decide)
  generalize 10 ^ (e1 - min e1 e2).toNat = p1 at *
  generalize 10 ^ (e2 - min e1 e2).toNat = p2 at *
  have hz1 : c1 * p1 = 0 ↔ c1 = 0 := by
    constructor
    · intro h; rcases Nat.mul_eq_zero.mp h with h | h <;> omega
    · intro h; simp [h]
  have hz2 : c2 * p2 = 0 ↔ c2 = 0 := by
    constructor
    · intro h; rcases Nat.mul_eq_zero.mp h with h | h <;> omega
    · intro h; simp [h]
  revert h; cases n1 <;> cases n2 <;> simp <;> omega

theorem cmpFin_sign_eq {n1 c1 e1 n2 c2 e2} (h : cmpFin n1 c1 e1 n2 c2 e2 = 0) (hc : c1 ≠ 0) : n1 = n2 := by
  have hc2 : c2 ≠ 0 := fun h2 => hc ((cmpFin_coeff_zero h).mpr h2)
  rw [cmpFin_eq_zero_iff] at h
  simp only [sval, pow10] at h
  have hp1 : 0 < c1 * 10 ^ (e1 - min e1 e2).toNat := Nat.mul_pos (Nat.pos_of_ne_zero hc) (Nat.pow_pos (by decide))
  have hp2 : 0 < c2 * 10 ^ (e2 - min e1 e2).toNat := Nat.mul_pos (Nat.pos_of_ne_zero hc2) (Nat.pow_pos (by decide))
  generalize c1 * 10 ^ (e1 - min e1 e2).toNat = X at h hp1
  generalize c2 * 10 ^ (e2 - min e1 e2).toNat = Y at h hp2
  revert h; cases n1 <;> cases n2 <;> simp <;> omega

/-- absolute values of the scaled coefficients agree -/
theorem cmpFin_abs_eq {n1 c1 e1 n2 c2 e2} (h : cmpFin n1 c1 e1 n2 c2 e2 = 0) (m : Int) (h1 : m ≤ e1) (h2 : m ≤ e2) :
    c1 * 10 ^ (e1 - m).toNat = c2 * 10 ^ (e2 - m).toNat := by
  rw [cmpFin_eq_zero_iff_value _ _ _ _ _ _ m h1 h2] at h
  simp only [sval, pow10] at h
  generalize c1 * 10 ^ (e1 - m).toNat = X at h ⊢
  generalize c2 * 10 ^ (e2 - m).toNat = Y at h ⊢
  revert h; cases n1 <;> cases n2 <;> simp <;> omega

/-! #### addition / subtraction -/

/-- the exact, unrounded sum -/
def addRaw : Dec → Dec → Dec
  | .fin n1 c1 e1, .fin n2 c2 e2 =>
    .fin (decide (sval n1 c1 e1 (min e1 e2) + sval n2 c2 e2 (min e1 e2) < 0))
      (sval n1 c1 e1 (min e1 e2) + sval n2 c2 e2 (min e1 e2)).natAbs (min e1 e2)
  | _, _ => .nan

/-- the exact sum fits the format -/
def AddFits : Dec → Dec → Prop
  | .fin n1 c1 e1, .fin n2 c2 e2 =>
    Fits (sval n1 c1 e1 (min e1 e2) + sval n2 c2 e2 (min e1 e2)).natAbs (min e1 e2)
  | _, _ => True

theorem addFin_raw (n1 : Bool) (c1 : Nat) (e1 : Int) (n2 : Bool) (c2 : Nat) (e2 : Int)
    (hf : AddFits (.fin n1 c1 e1) (.fin n2 c2 e2)) :
    cmp (addFin n1 c1 e1 n2 c2 e2) (addRaw (.fin n1 c1 e1) (.fin n2 c2 e2)) = some 0 := by
  simp only [addRaw]
  simp only [AddFits] at hf
  unfold addFin
  by_cases h1 : c1 = 0
  · subst h1
    simp only [if_true, sval_zero, Int.zero_add]
    by_cases h2 : c2 = 0
    · subst h2; simp only [if_true, sval_zero]; exact cmp_zero_zero ..
    · simp only [h2, if_false]
      refine cmp_zero_trans (cmp_normalize ..) ?_
      simp only [cmp, Option.some.injEq]
      rw [cmpFin_eq_zero_iff_value _ _ _ _ _ _ (min e1 e2) (by omega) (by omega), sval_signed]
      simp
  · simp only [h1, if_false]
    by_cases h2 : c2 = 0
    · subst h2
      simp only [if_true, sval_zero, Int.add_zero]
      refine cmp_zero_trans (cmp_normalize ..) ?_
      simp only [cmp, Option.some.injEq]
      rw [cmpFin_eq_zero_iff_value _ _ _ _ _ _ (min e1 e2) (by omega) (by omega), sval_signed]
      simp
    · simp only [h2, if_false]
      show cmp (if sval n1 c1 e1 (min e1 e2) + sval n2 c2 e2 (min e1 e2) = 0 then Dec.fin false 0 0
        else reduce (decide (sval n1 c1 e1 (min e1 e2) + sval n2 c2 e2 (min e1 e2) < 0))
          (sval n1 c1 e1 (min e1 e2) + sval n2 c2 e2 (min e1 e2)).natAbs (min e1 e2)) _ = some 0
      generalize sval n1 c1 e1 (min e1 e2) + sval n2 c2 e2 (min e1 e2) = s at hf ⊢
      by_cases hs : s = 0
      · subst hs; simp only [if_true]; exact cmp_zero_zero ..
      · simp only [hs, if_false]
        rw [reduce_of_fits _ _ _ hf]
        exact cmp_normalize ..

theorem isSpecial_of_cmp_zero_left {a b : Dec} (h : cmp a b = some 0) (ha : a.isSpecial = true) : a = b := by
  cases a with
  | nan => simp [cmp_nan_left] at h
  | inf n => cases b with
    | nan => simp [cmp] at h
    | inf m => cases n <;> cases m <;> simp [cmp] at h ⊢
    | fin m c e => cases n <;> simp [cmp] at h
  | fin n c e => simp [isSpecial] at ha

theorem fin_of_cmp_zero_fin {n c e} {b : Dec} (h : cmp (.fin n c e) b = some 0) : ∃ n' c' e', b = .fin n' c' e' := by
  cases b with
  | nan => simp [cmp] at h
  | inf m => cases m <;> simp [cmp] at h
  | fin n' c' e' => exact ⟨_, _, _, rfl⟩

theorem addRaw_congr {n1 c1 e1 n2 c2 e2 n1' c1' e1' n2' c2' e2'}
    (ha : cmpFin n1 c1 e1 n1' c1' e1' = 0) (hb : cmpFin n2 c2 e2 n2' c2' e2' = 0) :
    cmp (addRaw (.fin n1 c1 e1) (.fin n2 c2 e2)) (addRaw (.fin n1' c1' e1') (.fin n2' c2' e2')) = some 0 := by
  simp only [addRaw, cmp, Option.some.injEq]
  let m := min (min e1 e2) (min e1' e2')
  have hm1 : m ≤ min e1 e2 := by omega
  have hm2 : m ≤ min e1' e2' := by omega
  rw [cmpFin_eq_zero_iff_value _ _ _ _ _ _ m hm1 hm2, sval_signed, sval_signed, Int.add_mul, Int.add_mul,
    ← sval_shift n1 c1 e1 (min e1 e2) m hm1 (by omega), ← sval_shift n2 c2 e2 (min e1 e2) m hm1 (by omega),
    ← sval_shift n1' c1' e1' (min e1' e2') m hm2 (by omega), ← sval_shift n2' c2' e2' (min e1' e2') m hm2 (by omega),
    (cmpFin_eq_zero_iff_value _ _ _ _ _ _ m (by omega) (by omega)).mp ha,
    (cmpFin_eq_zero_iff_value _ _ _ _ _ _ m (by omega) (by omega)).mp hb]

/-- **`Add` respects the value of its operands** -/
theorem add_congr {a a' b b' : Dec} (ha : cmp a a' = some 0) (hb : cmp b b' = some 0)
    (hf : AddFits a b) (hf' : AddFits a' b') : Same (add a b) (add a' b') := by
  cases a with
  | nan => simp [cmp_nan_left] at ha
  | inf n =>
    have := isSpecial_of_cmp_zero_left ha rfl
    subst this
    cases b with
    | nan => simp [cmp_nan_left] at hb
    | inf m =>
      have := isSpecial_of_cmp_zero_left hb rfl
      subst this
      left; simp only [add]; split <;> exact ⟨rfl, rfl⟩
    | fin m c e =>
      obtain ⟨m', c', e', rfl⟩ := fin_of_cmp_zero_fin hb
      left; exact ⟨rfl, rfl⟩
  | fin n1 c1 e1 =>
    obtain ⟨n1', c1', e1', rfl⟩ := fin_of_cmp_zero_fin ha
    cases b with
    | nan => simp [cmp_nan_left] at hb
    | inf m =>
      have := isSpecial_of_cmp_zero_left hb rfl
      subst this
      left; exact ⟨rfl, rfl⟩
    | fin n2 c2 e2 =>
      obtain ⟨n2', c2', e2', rfl⟩ := fin_of_cmp_zero_fin hb
      right
      simp only [add]
      simp only [cmp, Option.some.injEq] at ha hb
      exact cmp_zero_trans (addFin_raw _ _ _ _ _ _ hf)
        (cmp_zero_trans (addRaw_congr ha hb) (cmp_zero_symm (addFin_raw _ _ _ _ _ _ hf')))

theorem cmpFin_neg {n1 c1 e1 n2 c2 e2} (h : cmpFin n1 c1 e1 n2 c2 e2 = 0) : cmpFin (!n1) c1 e1 (!n2) c2 e2 = 0 := by
  rw [cmpFin_eq_zero_iff] at h ⊢
  rw [sval_neg, sval_neg, h]

/-- **`Sub` respects the value of its operands** (exactness: that of `a + (-b)`) -/
theorem sub_congr {a a' b b' : Dec} (ha : cmp a a' = some 0) (hb : cmp b b' = some 0)
    (hf : AddFits a (neg b)) (hf' : AddFits a' (neg b')) : Same (sub a b) (sub a' b') := by
  cases a with
  | nan => simp [cmp_nan_left] at ha
  | inf n =>
    have := isSpecial_of_cmp_zero_left ha rfl
    subst this
    cases b with
    | nan => simp [cmp_nan_left] at hb
    | inf m =>
      have := isSpecial_of_cmp_zero_left hb rfl
      subst this
      left; simp only [sub]; split <;> exact ⟨rfl, rfl⟩
    | fin m c e =>
      obtain ⟨m', c', e', rfl⟩ := fin_of_cmp_zero_fin hb
      left; exact ⟨rfl, rfl⟩
  | fin n1 c1 e1 =>
    obtain ⟨n1', c1', e1', rfl⟩ := fin_of_cmp_zero_fin ha
    cases b with
    | nan => simp [cmp_nan_left] at hb
    | inf m =>
      have := isSpecial_of_cmp_zero_left hb rfl
      subst this
      left; exact ⟨rfl, rfl⟩
    | fin n2 c2 e2 =>
      obtain ⟨n2', c2', e2', rfl⟩ := fin_of_cmp_zero_fin hb
      right
      simp only [cmp, Option.some.injEq] at ha hb
      have hz1 := cmpFin_coeff_zero ha
      have hz2 := cmpFin_coeff_zero hb
      simp only [sub]
      by_cases h0 : c1 = 0 ∧ c2 = 0
      · have h0' : c1' = 0 ∧ c2' = 0 := ⟨hz1.mp h0.1, hz2.mp h0.2⟩
        simp only [h0, h0', and_self, if_true]; exact cmp_zero_zero ..
      · have h0' : ¬ (c1' = 0 ∧ c2' = 0) := fun h => h0 ⟨hz1.mpr h.1, hz2.mpr h.2⟩
        simp only [h0, h0', if_false]
        simp only [neg] at hf hf'
        exact cmp_zero_trans (addFin_raw _ _ _ _ _ _ hf)
          (cmp_zero_trans (addRaw_congr ha (cmpFin_neg hb)) (cmp_zero_symm (addFin_raw _ _ _ _ _ _ hf')))

/-! #### multiplication -/

/-- the exact product fits the format -/
def MulFits : Dec → Dec → Prop
  | .fin _ c1 e1, .fin _ c2 e2 => Fits (c1 * c2) (e1 + e2)
  | _, _ => True

theorem mul_raw (n1 : Bool) (c1 : Nat) (e1 : Int) (n2 : Bool) (c2 : Nat) (e2 : Int)
    (hf : MulFits (.fin n1 c1 e1) (.fin n2 c2 e2)) :
    cmp (mul (.fin n1 c1 e1) (.fin n2 c2 e2)) (.fin (n1 != n2) (c1 * c2) (e1 + e2)) = some 0 := by
  simp only [mul]
  split
  · next h =>
    have : c1 * c2 = 0 := by rcases h with h | h <;> simp [h]
    rw [this]; exact cmp_zero_zero ..
  · rw [reduce_of_fits _ _ _ hf]; exact cmp_normalize ..

theorem sval_mul (n1 : Bool) (c1 : Nat) (e1 : Int) (n2 : Bool) (c2 : Nat) (e2 m1 m2 : Int) (h1 : m1 ≤ e1) (h2 : m2 ≤ e2) :
    sval (n1 != n2) (c1 * c2) (e1 + e2) (m1 + m2) = sval n1 c1 e1 m1 * sval n2 c2 e2 m2 := by
  unfold sval pow10
  have : (e1 + e2 - (m1 + m2)).toNat = (e1 - m1).toNat + (e2 - m2).toNat := by omega
  rw [this, Nat.pow_add, Nat.mul_mul_mul_comm, Int.natCast_mul]
  generalize ((c1 * 10 ^ (e1 - m1).toNat : Nat) : Int) = X
  generalize ((c2 * 10 ^ (e2 - m2).toNat : Nat) : Int) = Y
  cases n1 <;> cases n2 <;> simp [Int.mul_neg, Int.neg_mul]

theorem mulRaw_congr {n1 c1 e1 n2 c2 e2 n1' c1' e1' n2' c2' e2'}
    (ha : cmpFin n1 c1 e1 n1' c1' e1' = 0) (hb : cmpFin n2 c2 e2 n2' c2' e2' = 0) :
    cmp (.fin (n1 != n2) (c1 * c2) (e1 + e2)) (.fin (n1' != n2') (c1' * c2') (e1' + e2')) = some 0 := by
  simp only [cmp, Option.some.injEq]
  rw [cmpFin_eq_zero_iff_value _ _ _ _ _ _ (min e1 e1' + min e2 e2') (by omega) (by omega),
    sval_mul _ _ _ _ _ _ _ _ (by omega) (by omega), sval_mul _ _ _ _ _ _ _ _ (by omega) (by omega),
    (cmpFin_eq_zero_iff_value _ _ _ _ _ _ (min e1 e1') (by omega) (by omega)).mp ha,
    (cmpFin_eq_zero_iff_value _ _ _ _ _ _ (min e2 e2') (by omega) (by omega)).mp hb]

/-- **`Mul` respects the value of its operands** -/
theorem mul_congr {a a' b b' : Dec} (ha : cmp a a' = some 0) (hb : cmp b b' = some 0)
    (hf : MulFits a b) (hf' : MulFits a' b') : Same (mul a b) (mul a' b') := by
  cases a with
  | nan => simp [cmp_nan_left] at ha
  | inf n =>
    have := isSpecial_of_cmp_zero_left ha rfl
    subst this
    cases b with
    | nan => simp [cmp_nan_left] at hb
    | inf m =>
      have := isSpecial_of_cmp_zero_left hb rfl
      subst this
      left; exact ⟨rfl, rfl⟩
    | fin m c e =>
      obtain ⟨m', c', e', rfl⟩ := fin_of_cmp_zero_fin hb
      left; simp only [mul]; constructor <;> split <;> rfl
  | fin n1 c1 e1 =>
    obtain ⟨n1', c1', e1', rfl⟩ := fin_of_cmp_zero_fin ha
    cases b with
    | nan => simp [cmp_nan_left] at hb
    | inf m =>
      have := isSpecial_of_cmp_zero_left hb rfl
      subst this
      left; simp only [mul]; constructor <;> split <;> rfl
    | fin n2 c2 e2 =>
      obtain ⟨n2', c2', e2', rfl⟩ := fin_of_cmp_zero_fin hb
      right
      simp only [cmp, Option.some.injEq] at ha hb
      exact cmp_zero_trans (mul_raw _ _ _ _ _ _ hf)
        (cmp_zero_trans (mulRaw_congr ha hb) (cmp_zero_symm (mul_raw _ _ _ _ _ _ hf')))

/-! #### integer division and remainder (`QuoRem`) -/

/-- aligned coefficients of a finite pair -/
def alignL (c1 : Nat) (e1 e2 : Int) : Nat := c1 * pow10 (e1 - min e1 e2).toNat
def alignR (c2 : Nat) (e1 e2 : Int) : Nat := c2 * pow10 (e2 - min e1 e2).toNat

/-- the exact integer quotient fits the format -/
def IDivFits : Dec → Dec → Prop
  | .fin _ c1 e1, .fin _ c2 e2 => Fits (alignL c1 e1 e2 / alignR c2 e1 e2) 0
  | _, _ => True

/-- the exact remainder fits the format -/
def ModFits : Dec → Dec → Prop
  | .fin _ c1 e1, .fin _ c2 e2 => Fits (alignL c1 e1 e2 % alignR c2 e1 e2) (min e1 e2)
  | _, _ => True

theorem quoRem_fin (n1 : Bool) (c1 : Nat) (e1 : Int) (n2 : Bool) (c2 : Nat) (e2 : Int) (h1 : c1 ≠ 0) (h2 : c2 ≠ 0) :
    quoRem (.fin n1 c1 e1) (.fin n2 c2 e2) =
      (reduce (n1 != n2) (alignL c1 e1 e2 / alignR c2 e1 e2) 0,
       reduce n1 (alignL c1 e1 e2 % alignR c2 e1 e2) (min e1 e2)) := by
  simp [quoRem, h1, h2, alignL, alignR]

/-- aligning two equal-valued pairs gives proportional coefficients -/
theorem align_prop {n1 c1 e1 n2 c2 e2 n1' c1' e1' n2' c2' e2'}
    (ha : cmpFin n1 c1 e1 n1' c1' e1' = 0) (hb : cmpFin n2 c2 e2 n2' c2' e2' = 0) :
    ∃ P P' : Nat, 0 < P ∧ 0 < P' ∧ alignL c1 e1 e2 * P = alignL c1' e1' e2' * P' ∧
      alignR c2 e1 e2 * P = alignR c2' e1' e2' * P' ∧
      P = 10 ^ (min e1 e2 - min (min e1 e2) (min e1' e2')).toNat ∧
      P' = 10 ^ (min e1' e2' - min (min e1 e2) (min e1' e2')).toNat := by
  refine ⟨_, _, Nat.pow_pos (by decide), Nat.pow_pos (by decide), ?_, ?_, rfl, rfl⟩
  · have := cmpFin_abs_eq ha (min (min e1 e2) (min e1' e2')) (by omega) (by omega)
    unfold alignL pow10
    rw [Nat.mul_assoc, Nat.mul_assoc, ← Nat.pow_add, ← Nat.pow_add]
    have h1 : (e1 - min e1 e2).toNat + (min e1 e2 - min (min e1 e2) (min e1' e2')).toNat =
        (e1 - min (min e1 e2) (min e1' e2')).toNat := by omega
    have h2 : (e1' - min e1' e2').toNat + (min e1' e2' - min (min e1 e2) (min e1' e2')).toNat =
        (e1' - min (min e1 e2) (min e1' e2')).toNat := by omega
    rw [h1, h2]; exact this
  · have := cmpFin_abs_eq hb (min (min e1 e2) (min e1' e2')) (by omega) (by omega)
    unfold alignR pow10
    rw [Nat.mul_assoc, Nat.mul_assoc, ← Nat.pow_add, ← Nat.pow_add]
    have h1 : (e2 - min e1 e2).toNat + (min e1 e2 - min (min e1 e2) (min e1' e2')).toNat =
        (e2 - min (min e1 e2) (min e1' e2')).toNat := by omega
    have h2 : (e2' - min e1' e2').toNat + (min e1' e2' - min (min e1 e2) (min e1' e2')).toNat =
        (e2' - min (min e1 e2) (min e1' e2')).toNat := by omega
    rw [h1, h2]; exact this

/-- special-value and zero cases shared by `//` and `%` -/
theorem quoRem_congr_aux {a a' b b' : Dec} (ha : cmp a a' = some 0) (hb : cmp b b' = some 0)
    (sel : Dec × Dec → Dec) (hsel : sel = Prod.fst ∨ sel = Prod.snd)
    (main : ∀ n1 c1 e1 n2 c2 e2 n1' c1' e1' n2' c2' e2', a = .fin n1 c1 e1 → b = .fin n2 c2 e2 →
      a' = .fin n1' c1' e1' → b' = .fin n2' c2' e2' → c1 ≠ 0 → c2 ≠ 0 → c1' ≠ 0 → c2' ≠ 0 →
      Same (sel (quoRem a b)) (sel (quoRem a' b'))) :
    Same (sel (quoRem a b)) (sel (quoRem a' b')) := by
  cases a with
  | nan => simp [cmp_nan_left] at ha
  | inf n =>
    have := isSpecial_of_cmp_zero_left ha rfl
    subst this
    cases b with
    | nan => simp [cmp_nan_left] at hb
    | inf m =>
      have := isSpecial_of_cmp_zero_left hb rfl
      subst this
      left; rcases hsel with rfl | rfl <;> exact ⟨rfl, rfl⟩
    | fin m c e =>
      obtain ⟨m', c', e', rfl⟩ := fin_of_cmp_zero_fin hb
      left; rcases hsel with rfl | rfl <;> exact ⟨rfl, rfl⟩
  | fin n1 c1 e1 =>
    obtain ⟨n1', c1', e1', rfl⟩ := fin_of_cmp_zero_fin ha
    cases b with
    | nan => simp [cmp_nan_left] at hb
    | inf m =>
      have := isSpecial_of_cmp_zero_left hb rfl
      subst this
      right
      simp only [cmp, Option.some.injEq] at ha
      rcases hsel with rfl | rfl
      · simp only [quoRem]; exact cmp_zero_zero ..
      · simp only [quoRem]
        exact cmp_zero_trans (cmp_normalize ..) (cmp_zero_trans (by simpa [cmp] using ha) (cmp_normalize' ..))
    | fin n2 c2 e2 =>
      obtain ⟨n2', c2', e2', rfl⟩ := fin_of_cmp_zero_fin hb
      have ha' := ha
      have hb' := hb
      simp only [cmp, Option.some.injEq] at ha' hb'
      have hz1 := cmpFin_coeff_zero ha'
      have hz2 := cmpFin_coeff_zero hb'
      by_cases h2 : c2 = 0
      · have h2' := hz2.mp h2
        subst h2; subst h2'
        left
        by_cases h1 : c1 = 0
        · have h1' := hz1.mp h1
          subst h1; subst h1'
          rcases hsel with rfl | rfl <;> exact ⟨rfl, rfl⟩
        · have h1' : c1' ≠ 0 := fun h => h1 (hz1.mpr h)
          rcases hsel with rfl | rfl <;> simp [quoRem, h1, h1', isSpecial]
      · have h2' : c2' ≠ 0 := fun h => h2 (hz2.mpr h)
        by_cases h1 : c1 = 0
        · have h1' := hz1.mp h1
          subst h1; subst h1'
          right
          rcases hsel with rfl | rfl <;> simp only [quoRem, h2, h2', if_false, if_true] <;> exact cmp_zero_zero ..
        · have h1' : c1' ≠ 0 := fun h => h1 (hz1.mpr h)
          exact main _ _ _ _ _ _ _ _ _ _ _ _ rfl rfl rfl rfl h1 h2 h1' h2'

/-- **`//` respects the value of its operands** -/
theorem idiv_congr {a a' b b' : Dec} (ha : cmp a a' = some 0) (hb : cmp b b' = some 0)
    (hf : IDivFits a b) (hf' : IDivFits a' b') : Same (quoRem a b).1 (quoRem a' b').1 := by
  apply quoRem_congr_aux ha hb Prod.fst (.inl rfl)
  intro n1 c1 e1 n2 c2 e2 n1' c1' e1' n2' c2' e2' ea eb ea' eb' h1 h2 h1' h2'
  subst ea; subst eb; subst ea'; subst eb'
  simp only [cmp, Option.some.injEq] at ha hb
  simp only [IDivFits] at hf hf'
  right
  rw [quoRem_fin _ _ _ _ _ _ h1 h2, quoRem_fin _ _ _ _ _ _ h1' h2', reduce_of_fits _ _ _ hf, reduce_of_fits _ _ _ hf']
  obtain ⟨P, P', hP, hP', hA, hB, _, _⟩ := align_prop ha hb
  have hq : alignL c1 e1 e2 / alignR c2 e1 e2 = alignL c1' e1' e2' / alignR c2' e1' e2' := by
    rw [← Nat.mul_div_mul_right _ _ hP, hA, hB, Nat.mul_div_mul_right _ _ hP']
  rw [hq, cmpFin_sign_eq ha h1, cmpFin_sign_eq hb h2]
  exact cmp_self (by cases h : normalize (.fin (n1' != n2') (alignL c1' e1' e2' / alignR c2' e1' e2') 0) <;>
    simp_all [normalize] <;> split at h <;> simp at h)

/-- **`%` respects the value of its operands** -/
theorem mod_congr {a a' b b' : Dec} (ha : cmp a a' = some 0) (hb : cmp b b' = some 0)
    (hf : ModFits a b) (hf' : ModFits a' b') : Same (quoRem a b).2 (quoRem a' b').2 := by
  apply quoRem_congr_aux ha hb Prod.snd (.inr rfl)
  intro n1 c1 e1 n2 c2 e2 n1' c1' e1' n2' c2' e2' ea eb ea' eb' h1 h2 h1' h2'
  subst ea; subst eb; subst ea'; subst eb'
  simp only [cmp, Option.some.injEq] at ha hb
  simp only [ModFits] at hf hf'
  right
  rw [quoRem_fin _ _ _ _ _ _ h1 h2, quoRem_fin _ _ _ _ _ _ h1' h2', reduce_of_fits _ _ _ hf, reduce_of_fits _ _ _ hf']
  obtain ⟨P, P', hP, hP', hA, hB, eP, eP'⟩ := align_prop ha hb
  have hr : alignL c1 e1 e2 % alignR c2 e1 e2 * P = alignL c1' e1' e2' % alignR c2' e1' e2' * P' := by
    rw [← Nat.mul_mod_mul_right, hA, hB, Nat.mul_mod_mul_right]
  refine cmp_zero_trans (cmp_normalize ..) (cmp_zero_trans ?_ (cmp_normalize' ..))
  simp only [cmp, Option.some.injEq]
  rw [cmpFin_eq_zero_iff_value _ _ _ _ _ _ (min (min e1 e2) (min e1' e2')) (by omega) (by omega)]
  simp only [sval, pow10]
  rw [← eP, ← eP', hr, cmpFin_sign_eq ha h1]

/-! #### division -/

/-- the quotient is exact (the scaled dividend is a multiple of the divisor's coefficient) and fits the format -/
def QuoFits : Dec → Dec → Prop
  | .fin _ c1 e1, .fin _ c2 e2 =>
    (c1 * 10 ^ (40 + ndigits c2)) % c2 = 0 ∧
      Fits ((c1 * 10 ^ (40 + ndigits c2)) / c2) (e1 - e2 - ((40 + ndigits c2 : Nat) : Int))
  | _, _ => True

theorem quo_raw (n1 : Bool) (c1 : Nat) (e1 : Int) (n2 : Bool) (c2 : Nat) (e2 : Int) (h1 : c1 ≠ 0) (h2 : c2 ≠ 0)
    (hf : QuoFits (.fin n1 c1 e1) (.fin n2 c2 e2)) :
    cmp (quo (.fin n1 c1 e1) (.fin n2 c2 e2))
      (.fin (n1 != n2) ((c1 * 10 ^ (40 + ndigits c2)) / c2) (e1 - e2 - ((40 + ndigits c2 : Nat) : Int))) = some 0 := by
  simp only [QuoFits] at hf
  simp only [quo, h1, h2, if_false, quoFin, pow10, hf.1, bne_self_eq_false]
  rw [reduce_of_fits _ _ _ hf.2]
  exact cmp_normalize ..

theorem pow_rel {q q' X X' d d' : Nat} (h : q * 10 ^ X = q' * 10 ^ X') (hd : d + X' = d' + X) :
    q * 10 ^ d = q' * 10 ^ d' := by
  have hp : 0 < 10 ^ X' := Nat.pow_pos (by decide)
  apply Nat.eq_of_mul_eq_mul_right hp
  rw [Nat.mul_assoc, ← Nat.pow_add, hd, Nat.pow_add, ← Nat.mul_assoc, Nat.mul_right_comm, h,
    Nat.mul_right_comm]

theorem quoRaw_congr {n1 c1 e1 n2 c2 e2 n1' c1' e1' n2' c2' e2'} {q q' k k' : Nat}
    (ha : cmpFin n1 c1 e1 n1' c1' e1' = 0) (hb : cmpFin n2 c2 e2 n2' c2' e2' = 0)
    (h1 : c1 ≠ 0) (h2 : c2 ≠ 0) (hq : q * c2 = c1 * 10 ^ k) (hq' : q' * c2' = c1' * 10 ^ k') :
    cmp (.fin (n1 != n2) q (e1 - e2 - (k : Int))) (.fin (n1' != n2') q' (e1' - e2' - (k' : Int))) = some 0 := by
  have hC1 := cmpFin_abs_eq ha (min e1 e1') (by omega) (by omega)
  have hC2 := cmpFin_abs_eq hb (min e2 e2') (by omega) (by omega)
  generalize ha1 : (e1 - min e1 e1').toNat = a1 at hC1
  generalize ha1' : (e1' - min e1 e1').toNat = a1' at hC1
  generalize ha2 : (e2 - min e2 e2').toNat = a2 at hC2
  generalize ha2' : (e2' - min e2 e2').toNat = a2' at hC2
  -- q·10^(a1+k'+a2') = q'·10^(a1'+k+a2)
  have hX : q * 10 ^ (a1 + k' + a2') = q' * 10 ^ (a1' + k + a2) := by
    have hpos : 0 < c2 * 10 ^ a2 := Nat.mul_pos (Nat.pos_of_ne_zero h2) (Nat.pow_pos (by decide))
    apply Nat.eq_of_mul_eq_mul_right hpos
    have l : q * 10 ^ (a1 + k' + a2') * (c2 * 10 ^ a2) = (c1 * 10 ^ a1) * 10 ^ (k + k' + a2 + a2') := by
      calc q * 10 ^ (a1 + k' + a2') * (c2 * 10 ^ a2)
          = (q * c2) * (10 ^ (a1 + k' + a2') * 10 ^ a2) := by rw [Nat.mul_mul_mul_comm]
        _ = (c1 * 10 ^ k) * (10 ^ (a1 + k' + a2') * 10 ^ a2) := by rw [hq]
        _ = c1 * (10 ^ k * (10 ^ (a1 + k' + a2') * 10 ^ a2)) := by rw [Nat.mul_assoc]
        _ = c1 * (10 ^ a1 * 10 ^ (k + k' + a2 + a2')) := by
            rw [← Nat.pow_add, ← Nat.pow_add, ← Nat.pow_add]; congr 2; omega
        _ = (c1 * 10 ^ a1) * 10 ^ (k + k' + a2 + a2') := by rw [Nat.mul_assoc]
    have r : q' * 10 ^ (a1' + k + a2) * (c2 * 10 ^ a2) = (c1' * 10 ^ a1') * 10 ^ (k + k' + a2 + a2') := by
      calc q' * 10 ^ (a1' + k + a2) * (c2 * 10 ^ a2)
          = q' * 10 ^ (a1' + k + a2) * (c2' * 10 ^ a2') := by rw [hC2]
        _ = (q' * c2') * (10 ^ (a1' + k + a2) * 10 ^ a2') := by rw [Nat.mul_mul_mul_comm]
        _ = (c1' * 10 ^ k') * (10 ^ (a1' + k + a2) * 10 ^ a2') := by rw [hq']
        _ = c1' * (10 ^ k' * (10 ^ (a1' + k + a2) * 10 ^ a2')) := by rw [Nat.mul_assoc]
        _ = c1' * (10 ^ a1' * 10 ^ (k + k' + a2 + a2')) := by
            rw [← Nat.pow_add, ← Nat.pow_add, ← Nat.pow_add]; congr 2; omega
        _ = (c1' * 10 ^ a1') * 10 ^ (k + k' + a2 + a2') := by rw [Nat.mul_assoc]
    rw [l, r, hC1]
  simp only [cmp, Option.some.injEq]
  rw [cmpFin_eq_zero_iff]
  simp only [sval, pow10]
  rw [cmpFin_sign_eq ha h1, cmpFin_sign_eq hb h2]
  congr 2
  exact pow_rel hX (by omega)

/-- **`Quo` respects the value of its operands** (when both quotients are exact) -/
theorem quo_congr {a a' b b' : Dec} (ha : cmp a a' = some 0) (hb : cmp b b' = some 0)
    (hf : QuoFits a b) (hf' : QuoFits a' b') : Same (quo a b) (quo a' b') := by
  cases a with
  | nan => simp [cmp_nan_left] at ha
  | inf n =>
    have := isSpecial_of_cmp_zero_left ha rfl
    subst this
    cases b with
    | nan => simp [cmp_nan_left] at hb
    | inf m =>
      have := isSpecial_of_cmp_zero_left hb rfl
      subst this
      left; exact ⟨rfl, rfl⟩
    | fin m c e =>
      obtain ⟨m', c', e', rfl⟩ := fin_of_cmp_zero_fin hb
      left; exact ⟨rfl, rfl⟩
  | fin n1 c1 e1 =>
    obtain ⟨n1', c1', e1', rfl⟩ := fin_of_cmp_zero_fin ha
    cases b with
    | nan => simp [cmp_nan_left] at hb
    | inf m =>
      have := isSpecial_of_cmp_zero_left hb rfl
      subst this
      right; simp only [quo]; exact cmp_zero_zero ..
    | fin n2 c2 e2 =>
      obtain ⟨n2', c2', e2', rfl⟩ := fin_of_cmp_zero_fin hb
      simp only [cmp, Option.some.injEq] at ha hb
      have hz1 := cmpFin_coeff_zero ha
      have hz2 := cmpFin_coeff_zero hb
      by_cases h2 : c2 = 0
      · have h2' := hz2.mp h2
        subst h2; subst h2'
        left
        by_cases h1 : c1 = 0
        · have h1' := hz1.mp h1
          subst h1; subst h1'
          exact ⟨rfl, rfl⟩
        · have h1' : c1' ≠ 0 := fun h => h1 (hz1.mpr h)
          simp [quo, h1, h1', isSpecial]
      · have h2' : c2' ≠ 0 := fun h => h2 (hz2.mpr h)
        right
        by_cases h1 : c1 = 0
        · have h1' := hz1.mp h1
          subst h1; subst h1'
          simp only [quo, h2, h2', if_false, if_true]; exact cmp_zero_zero ..
        · have h1' : c1' ≠ 0 := fun h => h1 (hz1.mpr h)
          refine cmp_zero_trans (quo_raw _ _ _ _ _ _ h1 h2 hf)
            (cmp_zero_trans ?_ (cmp_zero_symm (quo_raw _ _ _ _ _ _ h1' h2' hf')))
          simp only [QuoFits] at hf hf'
          exact quoRaw_congr ha hb h1 h2 (Nat.div_mul_cancel (Nat.dvd_of_mod_eq_zero hf.1))
            (Nat.div_mul_cancel (Nat.dvd_of_mod_eq_zero hf'.1))

end Dec

/-! ### binary64 arithmetic on small integers is exact (the float path of the arithmetic operators) -/
namespace F64

theorem strip_unique2 : ∀ (a b m' m'' : Nat), m' % 2 = 1 → m'' % 2 = 1 → m' * 2 ^ a = m'' * 2 ^ b → a = b ∧ m' = m''
  | 0, 0, m', m'', _, _, h => by simpa using h
  | 0, b + 1, m', m'', h1, _, h => by
    rw [Nat.pow_succ, ← Nat.mul_assoc] at h; simp at h; omega
  | a + 1, 0, m', m'', _, h2, h => by
    rw [Nat.pow_succ, ← Nat.mul_assoc] at h; simp at h; omega
  | a + 1, b + 1, m', m'', h1, h2, h => by
    rw [Nat.pow_succ, Nat.pow_succ, ← Nat.mul_assoc, ← Nat.mul_assoc] at h
    have := strip_unique2 a b m' m'' h1 h2 (Nat.eq_of_mul_eq_mul_right (by decide) h)
    omega

theorem mk_of (n : Bool) (m m' k : Nat) (e : Int) (hodd : m' % 2 = 1) (h : m = m' * 2 ^ k) :
    mk n m e = .fin n m' (e + k) := by
  have hm : m ≠ 0 := by
    intro h0; rw [h0] at h
    have : 0 < m' * 2 ^ k := Nat.mul_pos (by omega) (Nat.pow_pos (by decide))
    omega
  obtain ⟨m'', k', h1, h2, h3⟩ := mk_spec n m e hm
  have := strip_unique2 k' k m'' m' h3 hodd (h2.symm.trans h)
  rw [h1, this.1, this.2]

/-- powers of two may be moved between significand and exponent -/
theorem mk_shift (n : Bool) (m j : Nat) (e : Int) : mk n (m * 2 ^ j) (e - j) = mk n m e := by
  by_cases hm : m = 0
  · subst hm; simp [mk]
  · obtain ⟨m', k, h1, h2, h3⟩ := mk_spec n m e hm
    rw [h1, mk_of n (m * 2 ^ j) m' (k + j) (e - j) h3 (by rw [h2, Nat.pow_add, Nat.mul_assoc])]
    congr 1; omega

theorem log2_one : Nat.log2 1 = 0 := by decide

/-- **`roundPos` is exact on integers that fit in 53 bits** -/
theorem roundPos_exact (neg : Bool) (num : Nat) (h0 : num ≠ 0) (h : num < 2 ^ 53) :
    roundPos neg num 1 = mk neg num 0 := by
  have hL : Nat.log2 num < 53 := (Nat.log2_lt h0).mpr h
  have hlo : 2 ^ Nat.log2 num ≤ num := Nat.log2_self_le h0
  have hhi : num < 2 ^ (Nat.log2 num + 1) := Nat.lt_log2_self
  unfold roundPos
  simp only [h0, if_false, log2_one]
  generalize Nat.log2 num = L at hL hlo hhi ⊢
  -- the scaled significand
  have hq1 : 2 ^ 52 ≤ num * 2 ^ (52 - L) := by
    have : 2 ^ 52 = 2 ^ L * 2 ^ (52 - L) := by rw [← Nat.pow_add]; congr 1; omega
    rw [this]; exact Nat.mul_le_mul_right _ hlo
  have hq2 : num * 2 ^ (52 - L) < 2 ^ 53 := by
    have : 2 ^ 53 = 2 ^ (L + 1) * 2 ^ (52 - L) := by rw [← Nat.pow_add]; congr 1; omega
    rw [this]; exact Nat.mul_lt_mul_of_pos_right hhi (Nat.pow_pos (by decide))
  have he0 : (if ((L : Int) - ((0 : Nat) : Int) - 52) < -1074 then (-1074 : Int) else (L : Int) - ((0 : Nat) : Int) - 52)
      = (L : Int) - 52 := by
    rw [if_neg (by omega)]; omega
  have hfix : fixExp 6 num 1 ((L : Int) - 52) = (L : Int) - 52 := by
    unfold fixExp
    simp only
    by_cases hge : (L : Int) - 52 ≥ 0
    · have hL52 : L = 52 := by omega
      subst hL52
      simp only [hge, if_true]
      have : ((52 : Nat) : Int) - 52 = 0 := by omega
      rw [this]
      simp only [Int.toNat_zero, Nat.pow_zero, Nat.mul_one, Nat.div_one]
      simp only [Nat.sub_self, Nat.pow_zero, Nat.mul_one] at hq1 hq2
      rw [if_neg (by omega), if_neg (by omega)]
    · simp only [hge, if_false, Nat.div_one]
      have : (-((L : Int) - 52)).toNat = 52 - L := by omega
      rw [this, if_neg (by omega), if_neg (by omega)]
  rw [he0, hfix]
  by_cases hge : (L : Int) - 52 ≥ 0
  · have hL52 : L = 52 := by omega
    subst hL52
    have : ((52 : Nat) : Int) - 52 = 0 := by omega
    rw [this]
    simp [Nat.mod_one]
  · have hneg : (-((L : Int) - 52)).toNat = 52 - L := by omega
    simp only [hge, if_false, hneg, Nat.div_one, Nat.mod_one]
    have h1 : ¬ (2 * 0 > 1 ∨ 2 * 0 = 1 ∧ num * 2 ^ (52 - L) % 2 = 1) := by omega
    simp only [h1, if_false]
    rw [if_neg (by omega), if_neg (by omega)]
    have := mk_shift neg num (52 - L) 0
    have h2 : (0 : Int) - ((52 - L : Nat) : Int) = (L : Int) - 52 := by omega
    rw [h2] at this
    exact this

/-- the float holding the integer `a` -/
def ofInt (a : Int) : F64 := mk (decide (a < 0)) a.natAbs 0

theorem ofInt_zero : ofInt 0 = .fin false 0 0 := by simp [ofInt, mk]

theorem ofInt_spec (a : Int) (ha : a ≠ 0) :
    ∃ m k : Nat, ofInt a = .fin (decide (a < 0)) m (k : Int) ∧ a.natAbs = m * 2 ^ k ∧ m % 2 = 1 := by
  obtain ⟨m, k, h1, h2, h3⟩ := mk_spec (decide (a < 0)) a.natAbs 0 (by omega)
  exact ⟨m, k, by rw [ofInt, h1]; simp, h2, h3⟩

theorem toDec_ofInt (a : Int) (ha : a.natAbs ≤ Dec.MAXSIG) : Dec.cmp (Dec.ofInt a) (toDec (ofInt a)) = some 0 := by
  have := toDec_mk_int (decide (a < 0)) a.natAbs ha
  have hv : Dec.intVal (decide (a < 0)) a.natAbs = a := by
    unfold Dec.intVal; by_cases h : a < 0 <;> simp [h] <;> omega
  rw [hv] at this
  exact this

theorem two53_le_MAXSIG : 2 ^ 53 ≤ Dec.MAXSIG := by decide

/-- sign and magnitude of an integer as the model's floats carry them -/
theorem signed_natAbs (s : Int) : Dec.intVal (decide (s < 0)) s.natAbs = s := by
  unfold Dec.intVal; by_cases h : s < 0 <;> simp [h] <;> omega

/-- **exactness bridge, `+`**: the binary64 sum of two integers whose sum fits in 53 bits is the float holding the
    exact sum -/
theorem add_ofInt (a b : Int) (h : (a + b).natAbs < 2 ^ 53) : add (ofInt a) (ofInt b) = ofInt (a + b) := by
  by_cases ha : a = 0
  · subst ha
    by_cases hb : b = 0
    · subst hb; simp [ofInt_zero, add, addFin]
    · obtain ⟨m, k, h1, h2, h3⟩ := ofInt_spec b hb
      simp only [Int.zero_add] at h ⊢
      rw [ofInt_zero, h1]
      have hm : m ≠ 0 := by omega
      simp only [add, addFin, hm, and_false, if_false]
      have hmin : min (0 : Int) (k : Int) = 0 := by omega
      simp only [hmin]
      have h00 : ((0 : Int) - 0).toNat = 0 := by omega
      have hk0 : ((k : Int) - 0).toNat = k := by omega
      simp only [h00, hk0, Nat.pow_zero, Nat.mul_one, Int.natCast_zero, Int.mul_zero, Int.zero_add,
        ← h2]
      have hs : (if decide (b < 0) = true then (-1 : Int) else 1) * (b.natAbs : Int) = b := by
        by_cases hb' : b < 0 <;> simp [hb'] <;> omega
      rw [hs]
      simp only [hb, if_false, ge_iff_le, Int.le_refl, if_true, Int.toNat_zero, Nat.pow_zero, Nat.mul_one]
      rw [roundPos_exact _ _ (by omega) h]; exact h1
  · obtain ⟨m1, k1, ha1, ha2, ha3⟩ := ofInt_spec a ha
    by_cases hb : b = 0
    · subst hb
      simp only [Int.add_zero] at h ⊢
      rw [ofInt_zero, ha1]
      have hm : m1 ≠ 0 := by omega
      simp only [add, addFin, hm, false_and, if_false]
      have hmin : min (k1 : Int) (0 : Int) = 0 := by omega
      simp only [hmin]
      have h00 : ((0 : Int) - 0).toNat = 0 := by omega
      have hk0 : ((k1 : Int) - 0).toNat = k1 := by omega
      simp only [h00, hk0, Nat.pow_zero, Nat.mul_one, Int.natCast_zero, Int.mul_zero, Int.add_zero,
        ← ha2]
      have hs : (if decide (a < 0) = true then (-1 : Int) else 1) * (a.natAbs : Int) = a := by
        by_cases ha' : a < 0 <;> simp [ha'] <;> omega
      rw [hs]
      simp only [ha, if_false, ge_iff_le, Int.le_refl, if_true, Int.toNat_zero, Nat.pow_zero, Nat.mul_one]
      rw [roundPos_exact _ _ (by omega) h]; exact ha1
    · obtain ⟨m2, k2, hb1, hb2, hb3⟩ := ofInt_spec b hb
      rw [ha1, hb1]
      have hm1 : m1 ≠ 0 := by omega
      simp only [add, addFin, hm1, false_and, if_false]
      -- value at the common exponent e = min k1 k2: (a + b) = s * 2^e
      generalize he : min (k1 : Int) (k2 : Int) = e
      have he0 : 0 ≤ e := by omega
      have hs1 : (if decide (a < 0) = true then (-1 : Int) else 1) * ((m1 * 2 ^ ((k1 : Int) - e).toNat : Nat) : Int) *
          ((2 ^ e.toNat : Nat) : Int) = a := by
        rw [Int.mul_assoc, ← Int.natCast_mul, Nat.mul_assoc, ← Nat.pow_add]
        have : ((k1 : Int) - e).toNat + e.toNat = k1 := by omega
        rw [this, ← ha2]
        by_cases ha' : a < 0 <;> simp [ha'] <;> omega
      have hs2 : (if decide (b < 0) = true then (-1 : Int) else 1) * ((m2 * 2 ^ ((k2 : Int) - e).toNat : Nat) : Int) *
          ((2 ^ e.toNat : Nat) : Int) = b := by
        rw [Int.mul_assoc, ← Int.natCast_mul, Nat.mul_assoc, ← Nat.pow_add]
        have : ((k2 : Int) - e).toNat + e.toNat = k2 := by omega
        rw [this, ← hb2]
        by_cases hb' : b < 0 <;> simp [hb'] <;> omega
      generalize (if decide (a < 0) = true then (-1 : Int) else 1) * ((m1 * 2 ^ ((k1 : Int) - e).toNat : Nat) : Int) = A
        at hs1 ⊢
      generalize (if decide (b < 0) = true then (-1 : Int) else 1) * ((m2 * 2 ^ ((k2 : Int) - e).toNat : Nat) : Int) = B
        at hs2 ⊢
      have hsum : (A + B) * ((2 ^ e.toNat : Nat) : Int) = a + b := by rw [Int.add_mul, hs1, hs2]
      have hP : (0 : Int) < ((2 ^ e.toNat : Nat) : Int) := Int.natCast_pos.mpr (Nat.pow_pos (by decide))
      by_cases hz : A + B = 0
      · have : a + b = 0 := by rw [← hsum, hz, Int.zero_mul]
        simp only [hz, if_true, this, ofInt_zero]
      · simp only [hz, if_false, ge_iff_le, he0, if_true]
        have hne : a + b ≠ 0 := by
          intro h0; rw [h0] at hsum
          rcases Int.mul_eq_zero.mp hsum with h | h <;> omega
        have hsign : decide (A + B < 0) = decide (a + b < 0) := by
          have : A + B < 0 ↔ a + b < 0 := by
            rw [← hsum]
            constructor
            · intro h; exact Int.mul_neg_of_neg_of_pos h hP
            · intro h
              apply Classical.byContradiction
              intro hn
              have : 0 ≤ (A + B) * ((2 ^ e.toNat : Nat) : Int) := Int.mul_nonneg (by omega) (by omega)
              omega
          simp only [this]
        have habs : (A + B).natAbs * 2 ^ e.toNat = (a + b).natAbs := by
          rw [← hsum, Int.natAbs_mul, Int.natAbs_natCast]
        rw [hsign, habs, roundPos_exact _ _ (by omega) h]; rfl

theorem neg_ofInt (b : Int) (hb : b ≠ 0) : neg (ofInt b) = ofInt (-b) := by
  obtain ⟨m, k, h1, h2, h3⟩ := mk_spec (decide (b < 0)) b.natAbs 0 (by omega)
  have e1 : ofInt b = .fin (decide (b < 0)) m (0 + k) := h1
  have e2 : ofInt (-b) = .fin (decide (-b < 0)) m (0 + k) := by
    unfold ofInt
    rw [Int.natAbs_neg]
    exact mk_of _ _ m k 0 h3 h2
  rw [e1, e2]
  simp only [neg]
  congr 1
  by_cases h : b < 0
  · simp [h]; omega
  · simp [h]; omega

theorem add_ofInt_negzero (a : Int) (h : a.natAbs < 2 ^ 53) : add (ofInt a) (.fin true 0 0) = ofInt a := by
  by_cases ha : a = 0
  · subst ha; simp [ofInt_zero, add, addFin]
  · obtain ⟨m1, k1, ha1, ha2, ha3⟩ := ofInt_spec a ha
    rw [ha1]
    have hm : m1 ≠ 0 := by omega
    simp only [add, addFin, hm, false_and, if_false]
    have hmin : min (k1 : Int) (0 : Int) = 0 := by omega
    simp only [hmin]
    have h00 : ((0 : Int) - 0).toNat = 0 := by omega
    have hk0 : ((k1 : Int) - 0).toNat = k1 := by omega
    simp only [h00, hk0, Nat.pow_zero, Nat.mul_one, Int.natCast_zero, Int.mul_zero, Int.add_zero, ← ha2]
    have hs : (if decide (a < 0) = true then (-1 : Int) else 1) * (a.natAbs : Int) = a := by
      by_cases ha' : a < 0 <;> simp [ha'] <;> omega
    rw [hs]
    simp only [ha, if_false, ge_iff_le, Int.le_refl, if_true, Int.toNat_zero, Nat.pow_zero, Nat.mul_one]
    rw [roundPos_exact _ _ (by omega) h]; exact ha1

/-- **exactness bridge, `-`** -/
theorem sub_ofInt (a b : Int) (h : (a - b).natAbs < 2 ^ 53) : sub (ofInt a) (ofInt b) = ofInt (a - b) := by
  unfold sub
  by_cases hb : b = 0
  · subst hb
    simp only [Int.sub_zero] at h ⊢
    rw [ofInt_zero]
    exact add_ofInt_negzero a h
  · rw [neg_ofInt b hb, Int.sub_eq_add_neg]
    exact add_ofInt a (-b) (by rw [← Int.sub_eq_add_neg]; exact h)

/-- **exactness bridge, `*`** (non-zero factors; a zero factor gives `±0`, see `mul_ofInt_value`) -/
theorem mul_ofInt (a b : Int) (ha : a ≠ 0) (hb : b ≠ 0) (h : (a * b).natAbs < 2 ^ 53) :
    mul (ofInt a) (ofInt b) = ofInt (a * b) := by
  obtain ⟨m1, k1, ha1, ha2, ha3⟩ := ofInt_spec a ha
  obtain ⟨m2, k2, hb1, hb2, hb3⟩ := ofInt_spec b hb
  rw [ha1, hb1]
  have hm1 : m1 ≠ 0 := by omega
  have hm2 : m2 ≠ 0 := by omega
  have he : ((k1 : Int) + (k2 : Int)) ≥ 0 := by omega
  simp only [mul, hm1, hm2, or_self, if_false, he, if_true]
  have hk : ((k1 : Int) + (k2 : Int)).toNat = k1 + k2 := by omega
  have hprod : m1 * m2 * 2 ^ (k1 + k2) = (a * b).natAbs := by
    rw [Int.natAbs_mul, ha2, hb2, Nat.pow_add, Nat.mul_mul_mul_comm]
  rw [hk, hprod, roundPos_exact _ _ (by
    have := Int.mul_ne_zero ha hb
    omega) h]
  unfold ofInt
  congr 1
  have hab : a * b < 0 ↔ ((a < 0) ≠ (b < 0)) := by
    constructor
    · intro hlt
      by_cases h1 : a < 0 <;> by_cases h2 : b < 0 <;> simp [h1, h2]
      · have : 0 < a * b := Int.mul_pos_of_neg_of_neg h1 h2
        omega
      · have : 0 ≤ a * b := Int.mul_nonneg (by omega) (by omega)
        omega
    · intro hne
      by_cases h1 : a < 0 <;> by_cases h2 : b < 0 <;> simp [h1, h2] at hne
      · exact Int.mul_neg_of_neg_of_pos h1 (by omega)
      · exact Int.mul_neg_of_pos_of_neg (by omega) h2
  by_cases h1 : a < 0 <;> by_cases h2 : b < 0 <;> simp [h1, h2] at hab ⊢ <;> omega

/-- the binary64 product of two integers whose product fits in 53 bits (in particular `|a|, |b| < 2^26`) has the
    value of the exact product -/
theorem mul_ofInt_value (a b : Int) (h : (a * b).natAbs < 2 ^ 53) :
    Dec.cmp (Dec.ofInt (a * b)) (toDec (mul (ofInt a) (ofInt b))) = some 0 := by
  by_cases ha : a = 0
  · subst ha
    rw [ofInt_zero, Int.zero_mul]
    cases hb : ofInt b with
    | nan => unfold ofInt mk at hb; split at hb <;> cases hb
    | inf n => unfold ofInt mk at hb; split at hb <;> cases hb
    | fin n m e =>
      simp only [mul, true_or, if_true, toDec, Dec.ofBinary]
      exact Dec.cmp_zero_zero ..
  · by_cases hb : b = 0
    · subst hb
      rw [ofInt_zero, Int.mul_zero]
      cases ha' : ofInt a with
      | nan => unfold ofInt mk at ha'; split at ha' <;> cases ha'
      | inf n => unfold ofInt mk at ha'; split at ha' <;> cases ha'
      | fin n m e =>
        simp only [mul, or_true, if_true, toDec, Dec.ofBinary]
        exact Dec.cmp_zero_zero ..
    · rw [mul_ofInt a b ha hb h]
      exact toDec_ofInt _ (by have := two53_le_MAXSIG; omega)

theorem natAbs_mul_lt_of_lt_two26 {a b : Int} (ha : a.natAbs < 2 ^ 26) (hb : b.natAbs < 2 ^ 26) :
    (a * b).natAbs < 2 ^ 53 := by
  rw [Int.natAbs_mul]
  have : a.natAbs * b.natAbs ≤ 2 ^ 26 * 2 ^ 26 := Nat.mul_le_mul (by omega) (by omega)
  have : (2 : Nat) ^ 26 * 2 ^ 26 < 2 ^ 53 := by decide
  omega

end F64
end Jmes
