/-
  Helper lemmas for property C14 (representation independence of numbers): the decimal observers of the
  evaluator (`Cmp`, `Int64`, …) are functions of the *value* of a decimal, and every Go representation of a
  number (`json.Number`, the integer kinds, `float64`/`float32`, `decimal128.Decimal`) that holds a value exactly
  is converted by `toDecimal` to a decimal of that value.
-/
import Jmes.Proofs.Equal
import Jmes.Proofs.Order
import Jmes.Proofs.DecExact
namespace Jmes

/-! ### `Dec.cmp` is a function of the two values -/
namespace Dec

theorem cmp_eq_compare {a b : Dec} (ha : a ≠ .nan) (hb : b ≠ .nan) : cmp a b = some (compare a b) := by
  cases a with
  | nan => exact absurd rfl ha
  | inf n => cases b with
    | nan => exact absurd rfl hb
    | inf m => simp [compare, cmp]
    | fin m c e => simp [compare, cmp]
  | fin n c e => cases b with
    | nan => exact absurd rfl hb
    | inf m => simp [compare, cmp]
    | fin m c' e' => simp [compare, cmp]

theorem ne_nan_of_cmp_left {a b : Dec} {r : Int} (h : cmp a b = some r) : a ≠ .nan := by
  intro e; subst e; simp [cmp_nan_left] at h

theorem ne_nan_of_cmp_right {a b : Dec} {r : Int} (h : cmp a b = some r) : b ≠ .nan := by
  intro e; subst e; simp [cmp_nan_right] at h

theorem lexcmp_eq_zero {p q : Int × Int} (h : lexcmp p q = 0) : p = q := by
  unfold lexcmp at h
  obtain ⟨p1, p2⟩ := p
  obtain ⟨q1, q2⟩ := q
  simp only at h
  split at h
  · omega
  · split at h
    · omega
    · split at h
      · omega
      · split at h
        · next h1 h2 _ h4 =>
          have : p1 = q1 := by omega
          rw [this, h4]
        · omega

/-- equal values have the same sort key -/
theorem key_eq_of_cmp_zero {a a' : Dec} (h : cmp a a' = some 0) (m : Int) (h1 : m ≤ expo a) (h2 : m ≤ expo a') :
    key m a = key m a' := by
  have hc := cmp_eq_compare (ne_nan_of_cmp_left h) (ne_nan_of_cmp_right h)
  rw [h] at hc
  have h0 : compare a a' = 0 := by simpa using hc.symm
  rw [compare_eq_key a a' m h1 h2] at h0
  exact lexcmp_eq_zero h0

/-- **`Cmp` respects equality of values** in both arguments -/
theorem cmp_congr {a a' b b' : Dec} (ha : cmp a a' = some 0) (hb : cmp b b' = some 0) : cmp a b = cmp a' b' := by
  have na := ne_nan_of_cmp_left ha
  have na' := ne_nan_of_cmp_right ha
  have nb := ne_nan_of_cmp_left hb
  have nb' := ne_nan_of_cmp_right hb
  rw [cmp_eq_compare na nb, cmp_eq_compare na' nb']
  let m := min (min (expo a) (expo a')) (min (expo b) (expo b'))
  have e1 : m ≤ expo a := by omega
  have e2 : m ≤ expo a' := by omega
  have e3 : m ≤ expo b := by omega
  have e4 : m ≤ expo b' := by omega
  rw [compare_eq_key a b m e1 e3, compare_eq_key a' b' m e2 e4,
    key_eq_of_cmp_zero ha m e1 e2, key_eq_of_cmp_zero hb m e3 e4]

theorem compare_congr {a a' b b' : Dec} (ha : cmp a a' = some 0) (hb : cmp b b' = some 0) :
    compare a b = compare a' b' := by
  have h := cmp_congr ha hb
  rw [cmp_eq_compare (ne_nan_of_cmp_left ha) (ne_nan_of_cmp_left hb),
    cmp_eq_compare (ne_nan_of_cmp_right ha) (ne_nan_of_cmp_right hb)] at h
  exact Option.some.inj h

theorem equal_congr {a a' b b' : Dec} (ha : cmp a a' = some 0) (hb : cmp b b' = some 0) :
    Dec.equal a b = Dec.equal a' b' := by simp only [Dec.equal, cmp_congr ha hb]
theorem less_congr {a a' b b' : Dec} (ha : cmp a a' = some 0) (hb : cmp b b' = some 0) :
    Dec.less a b = Dec.less a' b' := by simp only [Dec.less, cmp_congr ha hb]
theorem greater_congr {a a' b b' : Dec} (ha : cmp a a' = some 0) (hb : cmp b b' = some 0) :
    Dec.greater a b = Dec.greater a' b' := by simp only [Dec.greater, cmp_congr ha hb]
theorem lessEq_congr {a a' b b' : Dec} (ha : cmp a a' = some 0) (hb : cmp b b' = some 0) :
    Dec.lessEq a b = Dec.lessEq a' b' := by simp only [Dec.lessEq, less_congr ha hb, equal_congr ha hb]
theorem greaterEq_congr {a a' b b' : Dec} (ha : cmp a a' = some 0) (hb : cmp b b' = some 0) :
    Dec.greaterEq a b = Dec.greaterEq a' b' := by
  simp only [Dec.greaterEq, greater_congr ha hb, equal_congr ha hb]

/-! ### `normalize` and `ofInt` keep the value -/

theorem cmp_normalize (n : Bool) (c : Nat) (e : Int) : cmp (normalize (.fin n c e)) (.fin n c e) = some 0 := by
  by_cases hc : c = 0
  · subst hc
    rw [normalize_zero]
    simp only [cmp, Option.some.injEq]
    rw [cmpFin_eq_zero_iff]
    simp [sval]
  · obtain ⟨c', k, h1, h2, _⟩ := normalize_spec n c e hc
    rw [h1]
    simp only [cmp, Option.some.injEq]
    rw [cmpFin_eq_zero_iff_value _ _ _ _ _ _ e (by omega) (by omega)]
    simp only [sval, pow10]
    have : (e + (k : Int) - e).toNat = k := by omega
    rw [this, ← h2]
    simp

theorem cmp_normalize' (n : Bool) (c : Nat) (e : Int) : cmp (.fin n c e) (normalize (.fin n c e)) = some 0 :=
  cmp_zero_symm (cmp_normalize n c e)

theorem cmp_ofInt (i : Int) : cmp (ofInt i) (.fin (decide (i < 0)) i.natAbs 0) = some 0 := by
  unfold ofInt
  split
  · next h =>
    subst h
    simp [cmp, cmpFin_self]
  · exact cmp_normalize _ _ _

/-- zero compares equal whatever its sign and exponent -/
theorem cmp_zero_zero (n1 n2 : Bool) (e1 e2 : Int) : cmp (.fin n1 0 e1) (.fin n2 0 e2) = some 0 := by
  simp only [cmp, Option.some.injEq]
  rw [cmpFin_eq_zero_iff]
  simp [sval]

/-! ### `Int64` / `decToInt` are functions of the value (for coefficients within the format) -/

/-- the coefficient is within the format (`≤ MAXSIG`): true of every decimal the library produces -/
def Bounded : Dec → Prop
  | .fin _ c _ => c ≤ MAXSIG
  | _ => True

def Int64Range (i : Int) : Prop := -(2 ^ 63 : Int) ≤ i ∧ i ≤ 2 ^ 63 - 1

def int64Mag (c : Nat) (e : Int) : Nat :=
  if e < 0 then c / pow10 (-e).toNat else
    if e > 40 then (if c = 0 then 0 else 2 ^ 64) else c * pow10 e.toNat

def int64Sign (n : Bool) (m : Nat) : Int64Result :=
  if n then (if m > 2 ^ 63 then .notOk else .ok (-(m : Int)))
  else (if m > 2 ^ 63 - 1 then .notOk else .ok m)

theorem int64_fin (n : Bool) (c : Nat) (e : Int) :
    int64 (.fin n c e) = if e < -35 then .ok 0 else int64Sign n (int64Mag c e) := rfl

theorem int64Sign_range {n : Bool} {m : Nat} {i : Int} (h : int64Sign n m = .ok i) : Int64Range i := by
  unfold Int64Range
  unfold int64Sign at h
  cases n
  · simp only [Bool.false_eq_true, if_false] at h
    split at h
    · cases h
    · cases h; omega
  · simp only [if_true] at h
    split at h
    · cases h
    · cases h; omega

theorem int64_range {d : Dec} {i : Int} (h : d.int64 = .ok i) : Int64Range i := by
  cases d with
  | nan => simp [int64] at h
  | inf n => simp [int64] at h
  | fin n c e =>
    rw [int64_fin] at h
    split at h
    · cases h; unfold Int64Range; omega
    · exact int64Sign_range h

theorem int64Sign_ne_panic (n : Bool) (m : Nat) : int64Sign n m ≠ .panic := by
  unfold int64Sign
  cases n <;> simp <;> split <;> simp

theorem int64_ne_panic {d : Dec} (h : d ≠ .nan) : d.int64 ≠ .panic := by
  cases d with
  | nan => exact absurd rfl h
  | inf n => simp [int64]
  | fin n c e =>
    rw [int64_fin]
    split
    · simp
    · exact int64Sign_ne_panic _ _

theorem decToInt_cases (d : Dec) : decToInt d = .notInt ∨ ∃ i, decToInt d = .int i := by
  unfold decToInt
  split
  · exact .inl rfl
  · next hn =>
    have hne : d ≠ .nan := by intro e; subst e; simp [isNaN] at hn
    cases h : int64 d with
    | panic => exact absurd h (int64_ne_panic hne)
    | notOk => exact .inl rfl
    | ok i =>
      simp only
      split
      · exact .inr ⟨i, rfl⟩
      · exact .inl rfl

/-- what `decToInt d = i` says: `i` fits an `int64` and `d` has the value `i` -/
theorem decToInt_int {d : Dec} {i : Int} (h : decToInt d = .int i) : Int64Range i ∧ cmp (ofInt i) d = some 0 := by
  unfold decToInt at h
  split at h
  · cases h
  · cases h2 : d.int64 with
    | panic => simp [h2] at h
    | notOk => simp [h2] at h
    | ok j =>
      simp only [h2] at h
      split at h
      · next he =>
        cases h
        exact ⟨int64_range h2, equal_iff.mp he⟩
      · cases h

theorem pow10_ge {a b : Nat} (h : a ≤ b) : 10 ^ a ≤ 10 ^ b := Nat.pow_le_pow_right (by decide) h

theorem int64Sign_of {n : Bool} {i : Int} (hr : Int64Range i) (hs : (n = true → i ≤ 0) ∧ (n = false → 0 ≤ i)) :
    int64Sign n i.natAbs = .ok i := by
  unfold Int64Range at hr
  unfold int64Sign
  cases n
  · have := hs.2 rfl
    simp only [Bool.false_eq_true, if_false]
    have h3 : ¬ (i.natAbs > 2 ^ 63 - 1) := by omega
    simp only [h3, if_false]
    congr 1; omega
  · have := hs.1 rfl
    simp only [if_true]
    have h3 : ¬ (i.natAbs > 2 ^ 63) := by omega
    simp only [h3, if_false]
    congr 1; omega

/-- the converse: a decimal within the format whose value is the `int64` `i` converts to `i` -/
theorem int64_of_value {n : Bool} {c : Nat} {e : Int} {i : Int} (hc : c ≤ MAXSIG) (hr : Int64Range i)
    (h : cmpFin (decide (i < 0)) i.natAbs 0 n c e = 0) : int64 (.fin n c e) = .ok i := by
  have hr' := hr
  unfold Int64Range at hr'
  rw [cmpFin_eq_zero_iff_value _ _ _ _ _ _ (min 0 e) (by omega) (by omega)] at h
  simp only [sval, pow10] at h
  rw [int64_fin]
  by_cases he : e < 0
  · have hm : min 0 e = e := by omega
    rw [hm] at h
    have h1 : (e - e).toNat = 0 := by omega
    have h2 : ((0 : Int) - e).toNat = (-e).toNat := by omega
    rw [h1, h2] at h
    simp only [Nat.pow_zero, Nat.mul_one] at h
    have hP : 0 < 10 ^ (-e).toNat := Nat.pow_pos (by decide)
    have hmag : int64Mag c e = c / 10 ^ (-e).toNat := by simp [int64Mag, he, pow10]
    rw [hmag]
    generalize hPd : 10 ^ (-e).toNat = P at h hP
    -- |i| * P = c with agreeing signs
    have habs : i.natAbs * P = c := by
      have : ((i.natAbs * P : Nat) : Int) = (c : Int) ∨ ((i.natAbs * P : Nat) : Int) = -(c : Int) := by
        revert h; cases n <;> by_cases hi : i < 0 <;> simp [hi] <;> omega
      omega
    by_cases h35 : e < -35
    · simp only [h35, if_true]
      have : 10 ^ 36 ≤ P := by rw [← hPd]; exact pow10_ge (by omega)
      have hM : MAXSIG < 10 ^ 36 := by decide
      have : i.natAbs = 0 := by
        apply Classical.byContradiction
        intro hne
        have : P ≤ i.natAbs * P := Nat.le_mul_of_pos_left _ (Nat.pos_of_ne_zero hne)
        omega
      have : i = 0 := by omega
      rw [this]
    · simp only [h35, if_false]
      have hdiv : c / P = i.natAbs := by rw [← habs]; exact Nat.mul_div_cancel _ hP
      rw [hdiv]
      apply int64Sign_of hr
      by_cases hi0 : i = 0
      · subst hi0; simp
      · have hpos : 0 < i.natAbs * P := Nat.mul_pos (by omega) hP
        rw [← habs] at h
        revert h; cases n <;> by_cases hi : i < 0 <;> simp [hi] <;> omega
  · have hm : min 0 e = 0 := by omega
    rw [hm] at h
    have h1 : ((0 : Int) - 0).toNat = 0 := by omega
    have h2 : (e - 0).toNat = e.toNat := by omega
    rw [h1, h2] at h
    simp only [Nat.pow_zero, Nat.mul_one] at h
    have hP : 0 < 10 ^ e.toNat := Nat.pow_pos (by decide)
    have hmag : int64Mag c e = if e > 40 then (if c = 0 then 0 else 2 ^ 64) else c * 10 ^ e.toNat := by
      simp [int64Mag, he, pow10]
    rw [hmag]
    generalize hPd : 10 ^ e.toNat = P at h hP
    have habs : i.natAbs = c * P := by
      have : ((i.natAbs : Nat) : Int) = ((c * P : Nat) : Int) ∨ ((i.natAbs : Nat) : Int) = -((c * P : Nat) : Int) := by
        revert h; cases n <;> by_cases hi : i < 0 <;> simp [hi] <;> omega
      omega
    have hsign : (n = true → i ≤ 0) ∧ (n = false → 0 ≤ i) := by
      revert h; cases n <;> by_cases hi : i < 0 <;> simp [hi] <;> intro h <;> omega
    have h35 : ¬ (e < -35) := by omega
    simp only [h35, if_false]
    have hm' : (if e > 40 then (if c = 0 then 0 else 2 ^ 64) else c * P) = i.natAbs := by
      split
      · next h40 =>
        split
        · next hc0 => rw [habs, hc0]; simp
        · next hc0 =>
          exfalso
          have : 10 ^ 41 ≤ P := by rw [← hPd]; exact pow10_ge (by omega)
          have : P ≤ c * P := Nat.le_mul_of_pos_left _ (Nat.pos_of_ne_zero hc0)
          have : (2:Nat) ^ 63 < 10 ^ 41 := by decide
          omega
      · exact habs.symm
    rw [hm']
    exact int64Sign_of hr hsign

theorem decToInt_of_value {d : Dec} {i : Int} (hb : d.Bounded) (hr : Int64Range i) (h : cmp (ofInt i) d = some 0) :
    decToInt d = .int i := by
  cases d with
  | nan => simp [cmp_nan_right] at h
  | inf n =>
    have := cmp_zero_trans (cmp_zero_symm (cmp_ofInt i)) h
    cases n <;> simp [cmp] at this
  | fin n c e =>
    have h' := cmp_zero_trans (cmp_zero_symm (cmp_ofInt i)) h
    simp only [cmp, Option.some.injEq] at h'
    have := int64_of_value hb hr h'
    simp only [decToInt, isNaN, Bool.false_eq_true, if_false, this]
    simp [equal_iff.mpr h]

/-- **`decToInt` depends on the value only** -/
theorem decToInt_congr {d d' : Dec} (hb : d.Bounded) (hb' : d'.Bounded) (h : cmp d d' = some 0) :
    decToInt d = decToInt d' := by
  rcases decToInt_cases d with h1 | ⟨i, h1⟩
  · rcases decToInt_cases d' with h2 | ⟨j, h2⟩
    · rw [h1, h2]
    · have ⟨hr, hv⟩ := decToInt_int h2
      have := decToInt_of_value hb hr (cmp_zero_trans hv (cmp_zero_symm h))
      rw [h1] at this; cases this
  · have ⟨hr, hv⟩ := decToInt_int h1
    rw [h1, decToInt_of_value hb' hr (cmp_zero_trans hv h)]

/-! ### every decimal the library produces is `Bounded` -/

theorem dropHigh_le : ∀ (fuel c : Nat) (e : Int) (dg : Nat) (st : Bool), c < 10 ^ fuel →
    (dropHigh fuel c e dg st).1 ≤ MAXSIG
  | 0, c, e, dg, st, h => by simp at h; subst h; simp [dropHigh]
  | fuel + 1, c, e, dg, st, h => by
    unfold dropHigh
    split
    · apply dropHigh_le fuel
      rw [Nat.pow_succ] at h; omega
    · next hgt => simp only; omega

theorem dropLow_le : ∀ (fuel c : Nat) (e : Int) (dg : Nat) (st : Bool), (dropLow fuel c e dg st).1 ≤ c
  | 0, c, e, dg, st => by simp [dropLow]
  | fuel + 1, c, e, dg, st => by
    unfold dropLow
    split
    · simp only
      split
      · simp
      · exact Nat.le_trans (dropLow_le fuel _ _ _ _) (Nat.div_le_self _ _)
    · simp

theorem scaleUp_le : ∀ (fuel c : Nat) (e : Int), c ≤ MAXSIG → (scaleUp fuel c e).1 ≤ MAXSIG
  | 0, c, e, h => by simpa [scaleUp] using h
  | fuel + 1, c, e, h => by
    unfold scaleUp
    split
    · next hc => exact scaleUp_le fuel _ _ hc.2.1
    · simpa using h

theorem roundEven_le : ∀ (fuel c : Nat) (e : Int) (dg : Nat) (st : Bool), c ≤ MAXSIG →
    (roundEven fuel c e dg st).1 ≤ MAXSIG
  | 0, c, e, dg, st, h => by simpa [roundEven] using h
  | fuel + 1, c, e, dg, st, h => by
    unfold roundEven
    simp only
    repeat' split
    all_goals first
      | exact roundEven_le fuel _ _ _ _ (Nat.le_trans (Nat.div_le_self _ _) h)
      | (simp only; omega)

theorem lt_pow10_log2 (c : Nat) : c < 10 ^ (Nat.log2 (c + 1) + 2) := by
  have h1 : c + 1 < 2 ^ (Nat.log2 (c + 1) + 1) := Nat.lt_log2_self
  have h2 : 2 ^ (Nat.log2 (c + 1) + 1) ≤ 10 ^ (Nat.log2 (c + 1) + 1) := Nat.pow_le_pow_left (by decide) _
  have h3 : 10 ^ (Nat.log2 (c + 1) + 1) ≤ 10 ^ (Nat.log2 (c + 1) + 2) := pow10_ge (by omega)
  omega

theorem normalize_bounded {d : Dec} (h : d.Bounded) : (normalize d).Bounded := by
  cases d with
  | nan => exact h
  | inf n => exact h
  | fin n c e =>
    by_cases hc : c = 0
    · subst hc; rw [normalize_zero]; simp [Bounded]
    · obtain ⟨c', k, h1, h2, _⟩ := normalize_spec n c e hc
      rw [h1]
      simp only [Bounded] at h ⊢
      have : c' ≤ c' * 10 ^ k := Nat.le_mul_of_pos_right _ (Nat.pow_pos (by decide))
      omega

/-- the part of `reduce` after the digits have been dropped -/
def reduceTail (neg : Bool) (r3 : Nat × Int × Nat × Bool) : Dec :=
  if (roundEven 3 (scaleUp 40 r3.1 r3.2.1).1 (scaleUp 40 r3.1 r3.2.1).2 r3.2.2.1 r3.2.2.2).2 > EMAX then Dec.inf neg
  else normalize (.fin neg (roundEven 3 (scaleUp 40 r3.1 r3.2.1).1 (scaleUp 40 r3.1 r3.2.1).2 r3.2.2.1 r3.2.2.2).1
    (roundEven 3 (scaleUp 40 r3.1 r3.2.1).1 (scaleUp 40 r3.1 r3.2.1).2 r3.2.2.1 r3.2.2.2).2)

def reduceLow (r1 : Nat × Int × Nat × Bool) : Nat × Int × Nat × Bool :=
  dropLow (min ((EMIN - r1.2.1).toNat + 1) 60) r1.1 r1.2.1 r1.2.2.1 r1.2.2.2

theorem reduce_eq (neg : Bool) (c : Nat) (e : Int) (st : Bool) :
    reduce neg c e st = if c = 0 ∧ ¬ st then .fin neg 0 0 else
      reduceTail neg (if (reduceLow (dropHigh (Nat.log2 (c + 1) + 2) c e 0 st)).2.1 < EMIN then (0, EMIN, 0, true)
        else reduceLow (dropHigh (Nat.log2 (c + 1) + 2) c e 0 st)) := rfl

theorem reduceTail_bounded (neg : Bool) (r3 : Nat × Int × Nat × Bool) (h3 : r3.1 ≤ MAXSIG) :
    (reduceTail neg r3).Bounded := by
  have h4 := scaleUp_le 40 r3.1 r3.2.1 h3
  have h5 := roundEven_le 3 _ (scaleUp 40 r3.1 r3.2.1).2 r3.2.2.1 r3.2.2.2 h4
  unfold reduceTail
  split
  · simp [Bounded]
  · exact normalize_bounded (d := .fin _ _ _) h5

theorem reduce_bounded (neg : Bool) (c : Nat) (e : Int) (st : Bool) : (reduce neg c e st).Bounded := by
  rw [reduce_eq]
  split
  · simp [Bounded]
  · apply reduceTail_bounded
    have h1 := dropHigh_le (Nat.log2 (c + 1) + 2) c e 0 st (lt_pow10_log2 c)
    generalize dropHigh (Nat.log2 (c + 1) + 2) c e 0 st = r1 at h1 ⊢
    have h2 : (reduceLow r1).1 ≤ MAXSIG := Nat.le_trans (dropLow_le _ r1.1 r1.2.1 r1.2.2.1 r1.2.2.2) h1
    generalize reduceLow r1 = r2 at h2 ⊢
    by_cases hlt : r2.2.1 < EMIN
    · rw [if_pos hlt]; exact Nat.zero_le _
    · rw [if_neg hlt]; exact h2

theorem ofInt_bounded {i : Int} (h : i.natAbs ≤ MAXSIG) : (ofInt i).Bounded := by
  unfold ofInt
  split
  · simp [Bounded]
  · exact normalize_bounded h

theorem ofBinary_bounded (n : Bool) (m : Nat) (x : Int) : (ofBinary n m x).Bounded := by
  unfold ofBinary
  split
  · simp [Bounded]
  · split <;> exact reduce_bounded ..

theorem parseFinish_bounded {s : PState} {neg : Bool} {d : Dec} (h : parseFinish s neg = .ok d) : d.Bounded := by
  unfold parseFinish at h
  by_cases h1 : (!s.caneof) = true
  · simp [h1] at h
  · simp only [h1] at h
    by_cases h2 : s.c = 0
    · simp only [h2, if_true] at h; cases h; simp [Bounded]
    · simp only [h2, if_false] at h
      by_cases h3 : s.maxexp = true
      · simp only [h3, if_true] at h
        by_cases h4 : s.eneg = true
        · simp only [h4, if_true] at h; cases h; simp [Bounded]
        · simp only [h4] at h; cases h
      · simp only [h3] at h
        generalize ((if s.eneg then -(s.exp : Int) else s.exp) - s.nfrac) = e at h
        by_cases h5 : e > EMAX + 39
        · simp only [h5, if_true] at h; cases h
        · simp only [h5, if_false] at h
          by_cases h6 : e < EMIN - 39
          · simp only [h6, if_true] at h; cases h; simp [Bounded]
          · simp only [h6, if_false] at h
            have hb := reduce_bounded neg s.c e s.sticky
            generalize reduce neg s.c e s.sticky = r at h hb
            cases r with
            | nan => cases h; exact hb
            | inf n => cases h
            | fin n c e => cases h; exact hb

theorem parseNumber_bounded {t : Bytes} {neg sep : Bool} {d : Dec} (h : parseNumber t neg sep = .ok d) : d.Bounded := by
  rw [parseNumber_eq] at h
  split at h
  · cases h
  · exact parseFinish_bounded h

theorem parse_bounded {t : Bytes} {d : Dec} (h : parse t = .ok d) : d.Bounded := by
  unfold parse at h
  cases t with
  | nil => cases h
  | cons b0 rest0 =>
    simp only at h
    generalize (if b0 = 0x2B then (false, rest0) else if b0 = 0x2D then (true, rest0) else (false, b0 :: rest0)) = p at h
    obtain ⟨neg, ds⟩ := p
    simp only at h
    by_cases h1 : ds.isEmpty = true
    · simp [h1] at h
    · simp only [h1] at h
      by_cases h2 : ds.map lowerByte = [0x69, 0x6E, 0x66]
      · simp only [h2, if_true] at h; cases h; simp [Bounded]
      · simp only [h2] at h
        by_cases h3 : ds.map lowerByte = [0x6E, 0x61, 0x6E]
        · simp only [h3, if_true] at h; cases h; simp [Bounded]
        · simp only [h3] at h
          by_cases h4 : ds.map lowerByte = [0x69, 0x6E, 0x66, 0x69, 0x6E, 0x69, 0x74, 0x79]
          · simp only [h4, if_true] at h; cases h; simp [Bounded]
          · simp only [h4] at h
            exact parseNumber_bounded h

end Dec

theorem F64.toDec_bounded (f : F64) : f.toDec.Bounded := by
  cases f with
  | nan => simp [F64.toDec, Dec.Bounded]
  | inf n => simp [F64.toDec, Dec.Bounded]
  | fin n m e => exact Dec.ofBinary_bounded n m e

end Jmes
