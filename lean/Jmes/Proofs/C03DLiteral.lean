/-
  C03D (parser literal decoders) — checked mirrors of /repo/internal/parser/parser.go:2111-2336:
  `parseJSONLiteral` (head), `parseQuotedIdentifier`, `parseStringLiteral`.

  The model (`Jmes/Model/Literal.lean`) renders `s[1:len(s)-1]`, `v[0]`, `v[1:]`, `v[:i]`, `v[i+1:]`, `v[1:5]`, `v[5:]`,
  `v[2:6]`, `v[6:]`, `v[j]` with pattern matching / `List.drop` / `List.take`, so it cannot exhibit an index or slice
  panic.  Here every one of these Go expressions goes through a checked primitive of `Jmes/Proofs/C03DChecked.lean`
  (`idx?`, `slice?`, `sliceFrom?`, `sliceTo?`: `.panic …` out of bounds) and the theorems `parseStringLiteralC_eq`,
  `parseQuotedIdentifierC_eq`, `parseJSONLiteralC_eq` say: for EVERY token `s` with `2 ≤ len(s)` (any bytes) the checks
  never fire and the result is the model's.  `2 ≤ len(s)` is what the lexer guarantees for the three delimited token
  types (`lexToken_delim_length`, `lexAll_delim_length`); without it `s[1:len(s)-1]` does panic (examples below).
  The two `b.Grow(len(v))` (parser.go:2201, :2308) go through `grow?` (panics iff the count is negative) at the place
  where Go has them — after the guard, before `b.WriteString(v[:i])`; they cannot panic (`grow_len_no_panic`).

  Library calls taken as total functions: `strings.IndexByte` (`indexByte`, answers -1 or a position),
  `strings.ReplaceAll` (the model's `unescapeBackticks`), `strings.Builder` (append; `Grow`: `grow?`), `utf16.IsSurrogate`,
  `utf16.DecodeRune`, `(*Builder).WriteRune` (the model's `Json.isSurrogate`, `Json.utf16Decode`, `encodeRune`),
  `json.Unmarshal` / `json.Decoder` (the model's `Json.decode`).

  The Go loops `for { … }` of the two decoders have no bound of their own; the mirrors give them `len(v) + 1`
  iterations and answer `.unmodelled fuelMsg` if that were not enough — the theorems exclude it.
-/
import Jmes.Proofs.C03DChecked
import Jmes.Proofs.Lex
namespace Jmes.C03D.LitGo
open Jmes Jmes.C03D

/-- what a mirror answers when its loop fuel runs out (never happens: see the theorems) -/
def fuelMsg : String := "literal decoder loop fuel exhausted"

/-! ## `strings.IndexByte` -/

/-- `strings.IndexByte(v, c)`: the position of the first byte `c`, or -1 (library call, total) -/
def indexByte (c : Nat) : Bytes → Int
  | [] => -1
  | b :: t => if b = c then 0 else (if indexByte c t = -1 then -1 else indexByte c t + 1)

example : indexByte 0x5C [0x61, 0x5C, 0x62, 0x5C] = 1 := by decide
example : indexByte 0x5C [0x61, 0x62] = -1 := by decide

/-- `IndexByte` answers -1 or a position inside the string -/
theorem indexByte_range (c : Nat) : ∀ v : Bytes, indexByte c v = -1 ∨ (0 ≤ indexByte c v ∧ indexByte c v < v.length)
  | [] => Or.inl rfl
  | b :: t => by
    have ih := indexByte_range c t
    unfold indexByte
    simp only [List.length_cons]
    split
    · right; omega
    · split
      · left; rfl
      · right; omega

example : 0 ≤ indexByte 0x5C [0x61, 0x5C] ∧ indexByte 0x5C [0x61, 0x5C] < 2 := by decide

/-! ## `s[1:len(s)-1]` -/

/-- parser.go:2112 / :2188 / :2299 `s[1 : len(s)-1]` -/
def stripC (s : Bytes) : Res Bytes := slice? s 1 ((s.length : Int) - 1)

/-- for a token of at least two bytes (opening and closing delimiter) the slice is in range and is the model's
    `stripDelims` -/
theorem stripC_eq (s : Bytes) (h : 2 ≤ s.length) : stripC s = .ok (stripDelims s) := by
  unfold stripC stripDelims
  rw [slice?_ok s 1 _ (by omega) (by omega) (by omega)]
  have e : ((s.length : Int) - 1 - 1).toNat = s.length - 2 := by omega
  rw [e]; rfl

example : stripC [0x27, 0x61, 0x27] = .ok [0x61] := rfl
/-- a 1-byte "token" (only the opening quote): `s[1:0]` panics — the hypothesis `2 ≤ len(s)` is necessary -/
example : stripC [0x27] = .panic sliceMsg := rfl
/-- the empty string: `s[1:-1]` panics -/
example : stripC [] = .panic sliceMsg := rfl

/-! ## the recurring statement group `i := strings.IndexByte(v, '\\'); if i == -1 || i+1 == len(v) {…}; …v[:i]; v = v[i+1:]` -/

/-- `i := strings.IndexByte(v, '\\'); if i == -1 || i+1 == len(v) { ⟨none⟩ }; pre := v[:i]; v = v[i+1:]; ⟨some (pre, v)⟩`.
    `gl = false` drops the second disjunct `i+1 == len(v)` of the guard (for the demonstrations below).
    Go sites: parser.go:2195-2204 (`v[:i]` :2202, `v[i+1:]` :2204), :2286-2294 (`v[:i]` :2293, `v[i+1:]` :2294),
    :2300-2311 (`v[:i]` :2309, `v[i+1:]` :2311), :2324-2334 (`v[:i]` :2333, `v[i+1:]` :2334). -/
def splitC (gl : Bool) (v : Bytes) : Res (Option (Bytes × Bytes)) :=
  let i := indexByte 0x5C v
  if i = -1 || (gl && i + 1 = (v.length : Int)) then pure none
  else do
    let pre ← sliceTo? v i
    let post ← sliceFrom? v (i + 1)
    pure (some (pre, post))

/-- the model's `splitAtBackslash` in terms of `IndexByte`: either the Go guard `i == -1 || i+1 == len(v)` holds and
    the model answers `none`, or `i` is a position with `i+1 < len(v)` and the model answers `(acc ++ v[:i], v[i+1:])` -/
theorem split_spec : ∀ (v acc : Bytes),
    ((indexByte 0x5C v = -1 ∨ indexByte 0x5C v + 1 = (v.length : Int)) ∧ splitAtBackslash v acc = none) ∨
    (∃ k : Nat, indexByte 0x5C v = (k : Int) ∧ k + 1 < v.length ∧
      splitAtBackslash v acc = some (acc ++ v.take k, v.drop (k + 1)))
  | [], acc => Or.inl ⟨Or.inl rfl, rfl⟩
  | [b], acc => by
    left
    refine ⟨?_, rfl⟩
    unfold indexByte
    split
    · right; rfl
    · left; rfl
  | b :: c :: t, acc => by
    have ih := split_spec (c :: t) (acc ++ [b])
    have hr := indexByte_range 0x5C (c :: t)
    unfold splitAtBackslash
    by_cases hb : b = 0x5C
    · right
      refine ⟨0, ?_, by simp, ?_⟩
      · unfold indexByte; rw [if_pos hb]; rfl
      · rw [if_pos hb]; simp
    · rw [if_neg hb]
      have e : indexByte 0x5C (b :: c :: t)
          = if indexByte 0x5C (c :: t) = -1 then -1 else indexByte 0x5C (c :: t) + 1 := by
        conv => lhs; unfold indexByte
        rw [if_neg hb]
      rcases ih with ⟨hg, hn⟩ | ⟨k, hk, hlt, hs⟩
      · left
        refine ⟨?_, hn⟩
        rw [e]
        rcases hg with hg | hg
        · left; rw [if_pos hg]
        · right
          have : indexByte 0x5C (c :: t) ≠ -1 := by
            simp only [List.length_cons] at hg; omega
          rw [if_neg this]
          simp only [List.length_cons] at hg ⊢
          omega
      · right
        refine ⟨k + 1, ?_, by simp only [List.length_cons] at hlt ⊢; omega, ?_⟩
        · rw [e, if_neg (by omega), hk]; omega
        · rw [hs]; simp

example : splitAtBackslash [0x61, 0x5C, 0x62] [] = some ([0x61], [0x62]) := by decide

/-- the statement group never slices out of range, and computes the model's `splitAtBackslash` -/
theorem splitC_eq (v : Bytes) : splitC true v = .ok (splitAtBackslash v []) := by
  unfold splitC
  rcases split_spec v [] with ⟨hg, hn⟩ | ⟨k, hk, hlt, hs⟩
  · rw [hn]
    simp only [Bool.true_and]
    rw [if_pos (by simpa using hg)]
    rfl
  · rw [hs]
    simp only [Bool.true_and, hk]
    rw [if_neg (by simp; omega)]
    have e : ((k : Int) + 1) = ((k + 1 : Nat) : Int) := by omega
    rw [sliceTo?_ok_nat v k (by omega), e, sliceFrom?_ok_nat v (k + 1) (by omega)]
    rfl

example : splitC true [0x61, 0x5C, 0x62] = .ok (some ([0x61], [0x62])) := rfl
/-- a trailing backslash: `i+1 == len(v)`, nothing to unescape -/
example : splitC true [0x61, 0x5C] = .ok none := rfl
/-- without the disjunct `i+1 == len(v)` a trailing backslash leaves `v = v[i+1:] = ""` behind (no panic yet: the next
    statement `switch v[0]` of the callers panics, see the guard deletions below) -/
example : splitC false [0x61, 0x5C] = .ok (some ([0x61], [])) := rfl

/-- after the split the rest is non-empty and at least two bytes shorter than `v` -/
theorem split_post (v acc pre post : Bytes) (h : splitAtBackslash v acc = some (pre, post)) :
    post ≠ [] ∧ post.length + 1 ≤ v.length := by
  rcases split_spec v acc with ⟨_, hn⟩ | ⟨k, _, hlt, hs⟩
  · rw [hn] at h; cases h
  · rw [hs] at h
    injection h with h
    injection h with _ h2
    subst h2
    constructor
    · intro h0
      have := congrArg List.length h0
      rw [List.length_drop] at this
      simp at this; omega
    · rw [List.length_drop]; omega

example : ([0x62] : Bytes) ≠ [] ∧ ([0x62] : Bytes).length + 1 ≤ ([0x61, 0x5C, 0x62] : Bytes).length :=
  split_post [0x61, 0x5C, 0x62] [] [0x61] [0x62] (by decide)

/-! ## `var b strings.Builder; b.Grow(len(v))` (parser.go:2200-2201, :2307-2308) -/

/-- `b.Grow(len(v))` (parser.go:2201 in `parseQuotedIdentifier`, :2308 in `parseStringLiteral`) CANNOT panic: `Grow(n)`
    panics iff `n < 0` (`grow?_panic_iff`), and the argument is a `len(…)` (`grow?_len`) -/
theorem grow_len_no_panic (v : Bytes) : grow? (v.length : Int) = .ok () := grow?_len v

example : grow? (([0x61, 0x5C, 0x62] : Bytes).length : Int) = .ok () := grow?_len _
/-- a `Grow` with a negative count does panic: the primitive is not vacuous -/
example : grow? (-1) = .panic growMsg := rfl

/-- the FIRST occurrence of the statement group in both decoders (parser.go:2195-2204, :2300-2311) has
    `var b strings.Builder; b.Grow(len(v))` between the guard and `b.WriteString(v[:i])`; the mirrors
    `parseQuotedIdentifierG`, `parseStringLiteralG` write it out statement by statement.  This lemma folds it back
    into `splitC` (whatever `gl` is, and whatever follows: `d` on the guard's return, `k pre post` otherwise):
    the `Grow` is `.ok ()` and disappears. -/
theorem split_grow_fold {β} (gl : Bool) (v : Bytes) (d : Res β) (k : Bytes → Bytes → Res β) :
    (if indexByte 0x5C v = -1 || (gl && indexByte 0x5C v + 1 = (v.length : Int)) then d
     else do
       grow? (v.length : Int)
       let pre ← sliceTo? v (indexByte 0x5C v)
       let post ← sliceFrom? v (indexByte 0x5C v + 1)
       k pre post)
    = (do
       let sp ← splitC gl v
       match sp with
       | none => d
       | some (pre, post) => k pre post) := by
  unfold splitC
  simp only []
  split
  · rfl
  · rw [grow?_len]
    simp only [Res.ok_bind]
    cases sliceTo? v (indexByte 0x5C v) <;> cases sliceFrom? v (indexByte 0x5C v + 1) <;> rfl

/-! ## `parseStringLiteral` (parser.go:2298-2336) -/

/-- the `for { … }` loop of `parseStringLiteral` (parser.go:2312-2335); first argument: iterations left, `v`, `b` as in Go.
    Go sites: :2313 `v[0]` (switch), :2320 `v[0]` (`b.WriteByte(v[0])`), :2323 `v[1:]`, :2333 `v[:i]`, :2334 `v[i+1:]`
    (the last two in `splitC`). -/
def stringLoopC (gl : Bool) : Nat → Bytes → Bytes → Res Bytes
  | 0, _, _ => .unmodelled fuelMsg
  | k + 1, v, b => do
    let c ← idx? v 0                                        -- :2313 switch v[0]
    let b ← (if c = 0x27 then pure (b ++ [0x27])            -- :2314 case '\''
             else if c = 0x5C then pure (b ++ [0x5C])       -- :2316 case '\\'
             else do                                        -- :2318 default
               let c' ← idx? v 0                            -- :2320 v[0]
               pure ((b ++ [0x5C]) ++ [c']))
    let v ← sliceFrom? v 1                                  -- :2323 v = v[1:]
    let sp ← splitC gl v                                    -- :2324-2334
    match sp with
    | none => pure (b ++ v)                                 -- :2326 b.WriteString(v); return
    | some (pre, post) => stringLoopC gl k post (b ++ pre)

/-- `parseStringLiteral` (parser.go:2298-2336), transliterated; the result is the `Value` of the `StringNode`.
    `gl = false` drops `|| i+1 == len(v)` from both guards (:2301, :2325).
    Go sites: :2299 `s[1 : len(s)-1]`, :2308 `b.Grow(len(v))` (`grow?`: panics iff the count is negative — it is a
    `len`, `grow_len_no_panic`), :2309 `v[:i]`, :2311 `v[i+1:]` (the statement group of `splitC`, written out here
    because the `Grow` stands between its guard and its slices: `split_grow_fold`), and the sites of `stringLoopC`. -/
def parseStringLiteralG (gl : Bool) (s : Bytes) : Res Bytes := do
  let v ← stripC s                                          -- :2299
  let i := indexByte 0x5C v                                 -- :2300 i := strings.IndexByte(v, '\\')
  if i = -1 || (gl && i + 1 = (v.length : Int)) then pure v -- :2301-2305
  else do
    grow? (v.length : Int)                                  -- :2307-2308 var b strings.Builder; b.Grow(len(v))
    let pre ← sliceTo? v i                                  -- :2309 b.WriteString(v[:i])
    let post ← sliceFrom? v (i + 1)                         -- :2311 v = v[i+1:]
    stringLoopC gl (v.length + 1) post pre                  -- :2312-2335 for { … }

/-- the Go function as it is -/
def parseStringLiteralC := parseStringLiteralG true

/-- `v[0]` of a non-empty `v` -/
theorem idx0_cons {α} (c : α) (t : List α) : idx? (c :: t) 0 = .ok c := by
  simp [idx?]

example : idx? ([] : Bytes) 0 = .panic idxMsg := rfl

/-- `v[1]` of a `v` with two bytes or more -/
theorem idx1_cons {α} (c d : α) (t : List α) : idx? (c :: d :: t) 1 = .ok d := by
  have := idx?_ok_nat (c :: d :: t) 1 (by simp) d
  simpa using this

example : idx? ([0x61] : Bytes) 1 = .panic idxMsg := rfl

/-- `v[1:]` of a non-empty `v` -/
theorem from1_cons {α} (c : α) (t : List α) : sliceFrom? (c :: t) 1 = .ok t := by
  have := sliceFrom?_ok_nat (c :: t) 1 (by simp)
  simpa using this

/-- the loop reads `v[0]` only of a non-empty `v`, slices within bounds and stops before the iteration budget runs
    out: it computes the model's `stringLiteralLoop` -/
theorem stringLoopC_eq : ∀ (k : Nat) (v b : Bytes), v ≠ [] → v.length ≤ k →
    stringLoopC true k v b = .ok (stringLiteralLoop k v b) := by
  intro k
  induction k with
  | zero =>
    intro v b hne hk
    exact absurd (List.eq_nil_of_length_eq_zero (by omega)) hne
  | succ k ih =>
    intro v b hne hk
    match v, hne, hk with
    | c :: t, _, hk =>
      unfold stringLoopC stringLiteralLoop
      rw [idx0_cons]
      simp only [Res.ok_bind]
      have hb : (if c = 0x27 then (pure (b ++ [0x27]) : Res Bytes) else if c = 0x5C then pure (b ++ [0x5C])
                  else pure ((b ++ [0x5C]) ++ [c]))
          = .ok (if c = 0x27 then b ++ [0x27] else if c = 0x5C then b ++ [0x5C] else b ++ [0x5C, c]) := by
        split
        · rfl
        · split
          · rfl
          · simp
      rw [hb]
      simp only [Res.ok_bind]
      rw [from1_cons]
      simp only [Res.ok_bind]
      rw [splitC_eq]
      simp only [Res.ok_bind]
      cases hs : splitAtBackslash t [] with
      | none => rfl
      | some p =>
        obtain ⟨pre, post⟩ := p
        obtain ⟨hp1, hp2⟩ := split_post t [] pre post hs
        simp only [List.length_cons] at hk
        exact ih post _ hp1 (by omega)

example : stringLoopC true 5 [0x27, 0x61] [0x62] = .ok [0x62, 0x27, 0x61] := rfl

/-- `parseStringLiteral`: for every token of at least two bytes (whatever its bytes) no index or slice expression
    panics, nor does `b.Grow(len(v))`, the loop terminates, and the result is the model's.  `2 ≤ len(s)` is established by the lexer
    (lexer.go:487-515 `stringLiteral`: the token spans the opening `'` and the closing `'`), see
    `lexToken_delim_length`. -/
theorem parseStringLiteralC_eq (s : Bytes) (h : 2 ≤ s.length) :
    parseStringLiteralC s = .ok (parseStringLiteral s) := by
  unfold parseStringLiteralC parseStringLiteralG parseStringLiteral
  rw [stripC_eq s h]
  simp only [Res.ok_bind]
  refine (split_grow_fold true (stripDelims s) _ _).trans ?_
  rw [splitC_eq]
  simp only [Res.ok_bind]
  cases hs : splitAtBackslash (stripDelims s) [] with
  | none => rfl
  | some p =>
    obtain ⟨pre, post⟩ := p
    obtain ⟨hp1, hp2⟩ := split_post _ [] pre post hs
    exact stringLoopC_eq _ post pre hp1 (by omega)

/-- `'a\'b\\c\d'` ↦ `a'b\c\d` -/
example : parseStringLiteralC [0x27, 0x61, 0x5C, 0x27, 0x62, 0x5C, 0x5C, 0x63, 0x5C, 0x64, 0x27]
    = .ok [0x61, 0x27, 0x62, 0x5C, 0x63, 0x5C, 0x64] := rfl
/-- `'a\'`: as a byte string (the lexer would not end the token here) — the trailing backslash is kept -/
example : parseStringLiteralC [0x27, 0x61, 0x5C, 0x27] = .ok [0x61, 0x5C] := rfl
/-- a 1-byte token: `s[1:0]` panics — the hypothesis `2 ≤ len(s)` cannot be dropped -/
example : parseStringLiteralC [0x27] = .panic sliceMsg := rfl

/-- **Guard deletion A** — without `|| i+1 == len(v)` (parser.go:2301) the token `'a\'` as a byte string (stripped:
    `a\`, a trailing backslash) sets `v = v[i+1:] = ""` and panics at `switch v[0]` (parser.go:2313). -/
example : parseStringLiteralG false [0x27, 0x61, 0x5C, 0x27] = .panic idxMsg := rfl
/-- the same inside the loop (parser.go:2325): `'\\\'` as a byte string (stripped: `\\\`) -/
example : parseStringLiteralG false [0x27, 0x5C, 0x5C, 0x5C, 0x27] = .panic idxMsg := rfl

/-! ## `parseQuotedIdentifier` (parser.go:2187-2296) -/

/-- `for j := 0; j < len(v); j++ { if v[j] < 0x20 { return "", err } }` (parser.go:2189-2193); first argument:
    iterations left, then `j`.  Answers `true` for the error return.
    Go sites: :2190 `v[j]`. -/
def ctrlLoopC (v : Bytes) : Nat → Int → Res Bool
  | 0, _ => .unmodelled fuelMsg
  | k + 1, j =>
    if j < (v.length : Int) then do                          -- :2189 j < len(v)
      let c ← idx? v j                                       -- :2190 v[j]
      if c < 0x20 then pure true else ctrlLoopC v k (j + 1)
    else pure false

/-- `v[j]` is read only for `j < len(v)`: the loop computes `any (· < 0x20)` of the rest -/
theorem ctrlLoopC_eq (v : Bytes) : ∀ (k j : Nat), j ≤ v.length → v.length - j < k →
    ctrlLoopC v k (j : Int) = .ok ((v.drop j).any (· < 0x20)) := by
  intro k
  induction k with
  | zero => intro j _ h; omega
  | succ k ih =>
    intro j hj hk
    unfold ctrlLoopC
    by_cases hlt : j < v.length
    · rw [if_pos (by omega), idx?_ok_nat v j hlt 0]
      simp only [Res.ok_bind]
      have hd : v.drop j = v.getD j 0 :: v.drop (j + 1) := by
        rw [List.getD_eq_getElem?_getD, List.getElem?_eq_getElem hlt]
        simp
      rw [hd, List.any_cons]
      by_cases hc : v.getD j 0 < 0x20
      · rw [if_pos hc, decide_eq_true hc]; rfl
      · rw [if_neg hc, decide_eq_false hc, Bool.false_or]
        have e : ((j : Int) + 1) = ((j + 1 : Nat) : Int) := by omega
        rw [e, ih (j + 1) (by omega) (by omega)]
    · rw [if_neg (by omega)]
      have : v.drop j = [] := List.drop_eq_nil_of_le (by omega)
      rw [this]; rfl

example : ctrlLoopC [0x61, 0x1F] 3 0 = .ok true := rfl
example : ctrlLoopC [0x61, 0x62] 3 0 = .ok false := rfl

/-- the body of `for _, c := range v[1:5] { … r = r*16 + … }` (parser.go:2237-2247, :2261-2271): a `range` loop over
    the slice, no indexing; `none` = the `else { return "", err }` exit.  (Go's `range` over a string yields runes: a
    byte ≥ 0x80 is decoded to a rune ≥ 0x80 or U+FFFD, which is no hex digit — the error exit, as here for the byte
    itself; up to the first such byte the runes are the ASCII bytes.) -/
def hexDigitsC : Bytes → Nat → Option Nat
  | [], r => some r
  | c :: t, r =>
    if 0x30 ≤ c ∧ c ≤ 0x39 then hexDigitsC t (r * 16 + (c - 0x30))
    else if 0x61 ≤ c ∧ c ≤ 0x66 then hexDigitsC t (r * 16 + (c - 0x61 + 10))
    else if 0x41 ≤ c ∧ c ≤ 0x46 then hexDigitsC t (r * 16 + (c - 0x41 + 10))
    else none

/-- one round of the `range` loop is the model's `Json.hexVal` -/
theorem hexDigitsC_cons (c : Nat) (t : Bytes) (r : Nat) :
    hexDigitsC (c :: t) r = match Json.hexVal c with
      | some d => hexDigitsC t (r * 16 + d)
      | none => none := by
  rw [hexDigitsC]
  unfold Json.hexVal
  split
  · rfl
  · split
    · rfl
    · split <;> rfl

/-- the `range` loop over four bytes is the model's `Json.hex4` -/
theorem hexDigitsC_hex4 (a b c d : Nat) (rest : Bytes) :
    Json.hex4 (a :: b :: c :: d :: rest) = (hexDigitsC [a, b, c, d] 0).map (fun r => (r, rest)) := by
  simp only [Json.hex4]
  rw [hexDigitsC_cons]
  cases Json.hexVal a with
  | none => rfl
  | some x =>
    simp only []
    rw [hexDigitsC_cons]
    cases Json.hexVal b with
    | none => rfl
    | some y =>
      simp only []
      rw [hexDigitsC_cons]
      cases Json.hexVal c with
      | none => rfl
      | some z =>
        simp only []
        rw [hexDigitsC_cons]
        cases Json.hexVal d with
        | none => rfl
        | some w => simp [hexDigitsC]

example : hexDigitsC [0x30, 0x30, 0x65, 0x39] 0 = some 0xE9 := by decide
example : hexDigitsC [0x30, 0x30, 0x67, 0x39] 0 = none := by decide

/-- the block `if utf16.IsSurrogate(r) { … }` followed by `b.WriteRune(r)` (parser.go:2251-2281): the second `\uXXXX`
    of a surrogate pair; `v` is the rest after the first escape.  `g6 = false` drops `if len(v) < 6` (:2252).
    Go sites: :2256 `v[0]`, `v[1]` (`v[1]` is evaluated only when `v[0] == '\\'`: short-circuit `||`); :2261 `v[2:6]`;
    :2278 `v[6:]`. -/
def lowSurrogateC (g6 : Bool) (r : Nat) (v b : Bytes) : Res (Option (Bytes × Bytes)) :=
  if g6 && (v.length : Int) < 6 then pure none                                 -- :2252
  else do
    let c0 ← idx? v 0                                                          -- :2256 v[0]
    let bad ← (if c0 ≠ 0x5C then pure true
               else do let c1 ← idx? v 1; pure (decide (c1 ≠ 0x75)))           -- :2256 v[1]
    if bad then pure none                                                      -- :2257
    else do
      let h2 ← slice? v 2 6                                                    -- :2261 v[2:6]
      match hexDigitsC h2 0 with
      | none => pure none                                                      -- :2269
      | some r2 =>
        -- :2273 r = utf16.DecodeRune(r, r2); :2274-2276 (FX28) `if r == unicode.ReplacementChar { return "", err }` —
        -- the two escapes are not a high surrogate followed by a low one
        if Json.utf16Decode r r2 = 0xFFFD then pure none
        else do
          let v ← sliceFrom? v 6                                               -- :2278 v = v[6:]
          pure (some (v, b ++ encodeRune (Json.utf16Decode r r2)))             -- :2281 WriteRune

/-- the `switch v[0] { … }` of the loop of `parseQuotedIdentifier` (parser.go:2206-2284): `none` is the error return,
    `some (v, b)` the state after the switch.  `g5 = false` drops `if len(v) < 5` (:2232), `g6 = false` drops
    `if len(v) < 6` (:2252).
    Go sites: :2206 `v[0]`; `v[1:]` at :2209 :2212 :2215 :2218 :2221 :2224 :2227 :2230; :2237 `v[1:5]`; :2249 `v[5:]`;
    and the sites of `lowSurrogateC` (:2256 `v[0]`, `v[1]`; :2261 `v[2:6]`; :2278 `v[6:]`). -/
def quotedSwitchC (g5 g6 : Bool) (v b : Bytes) : Res (Option (Bytes × Bytes)) := do
  let c ← idx? v 0                                                             -- :2206 switch v[0]
  if c = 0x22 then do let v ← sliceFrom? v 1; pure (some (v, b ++ [0x22]))     -- :2207-2209
  else if c = 0x2F then do let v ← sliceFrom? v 1; pure (some (v, b ++ [0x2F]))  -- :2210-2212
  else if c = 0x5C then do let v ← sliceFrom? v 1; pure (some (v, b ++ [0x5C]))  -- :2213-2215
  else if c = 0x62 then do let v ← sliceFrom? v 1; pure (some (v, b ++ [0x08]))  -- :2216-2218
  else if c = 0x66 then do let v ← sliceFrom? v 1; pure (some (v, b ++ [0x0C]))  -- :2219-2221
  else if c = 0x6E then do let v ← sliceFrom? v 1; pure (some (v, b ++ [0x0A]))  -- :2222-2224
  else if c = 0x72 then do let v ← sliceFrom? v 1; pure (some (v, b ++ [0x0D]))  -- :2225-2227
  else if c = 0x74 then do let v ← sliceFrom? v 1; pure (some (v, b ++ [0x09]))  -- :2228-2230
  else if c = 0x75 then                                                        -- :2231 case 'u'
    if g5 && (v.length : Int) < 5 then pure none                               -- :2232
    else do
      let h ← slice? v 1 5                                                     -- :2237 v[1:5]
      match hexDigitsC h 0 with
      | none => pure none                                                      -- :2245
      | some r => do
        let v ← sliceFrom? v 5                                                 -- :2249 v = v[5:]
        if Json.isSurrogate r then lowSurrogateC g6 r v b                      -- :2251-2279, :2281
        else pure (some (v, b ++ encodeRune r))                                -- :2281
  else pure none                                                               -- :2282 default

/-- the model's rendering of the same switch (what `quotedLoop` does with the first byte `c` of `c :: v`) -/
def quotedSwitch (c : Nat) (v acc : Bytes) : Option (Bytes × Bytes) :=
  if c = 0x22 then some (v, acc ++ [0x22])
  else if c = 0x2F then some (v, acc ++ [0x2F])
  else if c = 0x5C then some (v, acc ++ [0x5C])
  else if c = 0x62 then some (v, acc ++ [0x08])
  else if c = 0x66 then some (v, acc ++ [0x0C])
  else if c = 0x6E then some (v, acc ++ [0x0A])
  else if c = 0x72 then some (v, acc ++ [0x0D])
  else if c = 0x74 then some (v, acc ++ [0x09])
  else if c = 0x75 then
    match Json.hex4 v with
    | none => none
    | some (r, v') =>
      if Json.isSurrogate r then
        match v' with
        | 0x5C :: 0x75 :: v'' =>
          (match Json.hex4 v'' with
           | none => none
           | some (r2, v3) =>
             if Json.utf16Decode r r2 = 0xFFFD then none
             else some (v3, acc ++ encodeRune (Json.utf16Decode r r2)))
        | _ => none
      else some (v', acc ++ encodeRune r)
  else none

/-- `quotedLoop` is: the switch, then the split, then the next round -/
theorem quotedLoop_succ (fuel : Nat) (c : Nat) (v acc : Bytes) :
    quotedLoop (fuel + 1) (c :: v) acc =
      match quotedSwitch c v acc with
      | none => none
      | some (v, acc) =>
        match splitAtBackslash v [] with
        | none => some (acc ++ v)
        | some (pre, post) => quotedLoop fuel post (acc ++ pre) := by
  rw [quotedLoop]
  unfold quotedSwitch
  simp only []
  by_cases h1 : c = 0x22
  · rw [if_pos h1, if_pos h1]; rfl
  rw [if_neg h1, if_neg h1]
  by_cases h2 : c = 0x2F
  · rw [if_pos h2, if_pos h2]; rfl
  rw [if_neg h2, if_neg h2]
  by_cases h3 : c = 0x5C
  · rw [if_pos h3, if_pos h3]; rfl
  rw [if_neg h3, if_neg h3]
  by_cases h4 : c = 0x62
  · rw [if_pos h4, if_pos h4]; rfl
  rw [if_neg h4, if_neg h4]
  by_cases h5 : c = 0x66
  · rw [if_pos h5, if_pos h5]; rfl
  rw [if_neg h5, if_neg h5]
  by_cases h6 : c = 0x6E
  · rw [if_pos h6, if_pos h6]; rfl
  rw [if_neg h6, if_neg h6]
  by_cases h7 : c = 0x72
  · rw [if_pos h7, if_pos h7]; rfl
  rw [if_neg h7, if_neg h7]
  by_cases h8 : c = 0x74
  · rw [if_pos h8, if_pos h8]; rfl
  rw [if_neg h8, if_neg h8]
  by_cases h9 : c = 0x75
  · rw [if_pos h9, if_pos h9]
    cases Json.hex4 v with
    | none => rfl
    | some p =>
      obtain ⟨r, v'⟩ := p
      simp only []
      by_cases hs : Json.isSurrogate r = true
      · rw [if_pos hs, if_pos hs]
        split
        · rename_i v''
          simp only []
          cases Json.hex4 v'' with
          | none => rfl
          | some q =>
            obtain ⟨r2, v3⟩ := q
            simp only []
            by_cases hd : Json.utf16Decode r r2 = 0xFFFD
            · rw [if_pos hd, if_pos hd]
            · rw [if_neg hd, if_neg hd]; rfl
        · rename_i hno
          have e : (match v' with
              | 0x5C :: 0x75 :: v'' =>
                (match Json.hex4 v'' with
                 | none => none
                 | some (r2, v3) =>
                   if Json.utf16Decode r r2 = 0xFFFD then none
                   else some (v3, acc ++ encodeRune (Json.utf16Decode r r2)))
              | _ => (none : Option (Bytes × Bytes))) = none := by
            split
            · exact (hno _ rfl).elim
            · rfl
          rw [e]
      · rw [if_neg hs, if_neg hs]; rfl
  · rw [if_neg h9, if_neg h9]

/-- fewer than four bytes: the model's `hex4` fails (Go: the guards `len(v) < 5` / `len(v) < 6`) -/
theorem hex4_short (t : Bytes) (h : t.length < 4) : Json.hex4 t = none := by
  match t, h with
  | [], _ => rfl
  | [_], _ => rfl
  | [_, _], _ => rfl
  | [_, _, _], _ => rfl
  | _ :: _ :: _ :: _ :: _, h => simp at h; omega

example : Json.hex4 [0x31, 0x32] = none := rfl

/-- `v[1:5]` of a `v` with five bytes or more -/
theorem slice15 (x a b c d : Nat) (rest : Bytes) : slice? (x :: a :: b :: c :: d :: rest) 1 5 = .ok [a, b, c, d] := by
  have := slice?_ok_nat (x :: a :: b :: c :: d :: rest) 1 5 (by omega) (by simp)
  simpa using this

example : slice? ([0x75, 0x31, 0x32] : Bytes) 1 5 = .panic sliceMsg := rfl

/-- `v[5:]` of a `v` with five bytes or more -/
theorem from5 (x a b c d : Nat) (rest : Bytes) : sliceFrom? (x :: a :: b :: c :: d :: rest) 5 = .ok rest := by
  have := sliceFrom?_ok_nat (x :: a :: b :: c :: d :: rest) 5 (by simp)
  simpa using this

/-- `v[2:6]` of a `v` with six bytes or more -/
theorem slice26 (x y a b c d : Nat) (rest : Bytes) :
    slice? (x :: y :: a :: b :: c :: d :: rest) 2 6 = .ok [a, b, c, d] := by
  have := slice?_ok_nat (x :: y :: a :: b :: c :: d :: rest) 2 6 (by omega) (by simp)
  simpa using this

/-- `v[6:]` of a `v` with six bytes or more -/
theorem from6 (x y a b c d : Nat) (rest : Bytes) : sliceFrom? (x :: y :: a :: b :: c :: d :: rest) 6 = .ok rest := by
  have := sliceFrom?_ok_nat (x :: y :: a :: b :: c :: d :: rest) 6 (by simp)
  simpa using this

/-- the model's rendering of the surrogate block -/
def lowSurrogate (r : Nat) (v acc : Bytes) : Option (Bytes × Bytes) :=
  match v with
  | 0x5C :: 0x75 :: v'' =>
    (match Json.hex4 v'' with
     | none => none
     | some (r2, v3) =>
       if Json.utf16Decode r r2 = 0xFFFD then none
       else some (v3, acc ++ encodeRune (Json.utf16Decode r r2)))
  | _ => none

/-- with the guard `len(v) < 6` none of `v[0]`, `v[1]`, `v[2:6]`, `v[6:]` is out of range -/
theorem lowSurrogateC_eq (r : Nat) (v b : Bytes) : lowSurrogateC true r v b = .ok (lowSurrogate r v b) := by
  unfold lowSurrogateC
  simp only [Bool.true_and]
  by_cases hl : (v.length : Int) < 6
  · rw [if_pos (by simpa using hl)]
    unfold lowSurrogate
    split
    · rename_i v''
      rw [hex4_short v'' (by simp only [List.length_cons] at hl; omega)]
      rfl
    · rfl
  · rw [if_neg (by simpa using hl)]
    match v, hl with
    | x :: y :: a :: b' :: c :: d :: rest, _ =>
      rw [idx0_cons]
      simp only [Res.ok_bind]
      by_cases hx : x = 0x5C
      · subst hx
        rw [if_neg (by simp), idx1_cons]
        simp only [Res.ok_bind, Res.pure_eq]
        by_cases hy : y = 0x75
        · subst hy
          rw [if_neg (by simp), slice26]
          simp only [Res.ok_bind]
          unfold lowSurrogate
          simp only []
          rw [hexDigitsC_hex4]
          cases hexDigitsC [a, b', c, d] 0 with
          | none => rfl
          | some r2 =>
            simp only [Option.map_some]
            by_cases hd : Json.utf16Decode r r2 = 0xFFFD
            · rw [if_pos hd, if_pos hd]
            · rw [if_neg hd, if_neg hd, from6]; rfl
        · rw [if_pos (by simpa using hy)]
          unfold lowSurrogate
          split
          · rename_i heq; injection heq with _ heq; injection heq with heq _; exact absurd heq hy
          · rfl
      · rw [if_pos hx]
        simp only [Res.ok_bind, Res.pure_eq, if_true]
        unfold lowSurrogate
        split
        · rename_i heq; injection heq with heq _; exact absurd heq hx
        · rfl
    | [], hl => simp at hl
    | [_], hl => simp at hl
    | [_, _], hl => simp at hl
    | [_, _, _], hl => simp at hl
    | [_, _, _, _], hl => simp at hl
    | [_, _, _, _, _], hl => simp at hl

/-- `😀` after the first escape: rest `\ude00` -/
example : lowSurrogateC true 0xD83D [0x5C, 0x75, 0x64, 0x65, 0x30, 0x30, 0x21] [] = .ok (some ([0x21], [0xF0, 0x9F, 0x98, 0x80])) := rfl

/-- `quotedSwitch` in terms of `lowSurrogate` -/
theorem quotedSwitch_u (v acc : Bytes) :
    quotedSwitch 0x75 v acc = match Json.hex4 v with
      | none => none
      | some (r, v') => if Json.isSurrogate r then lowSurrogate r v' acc else some (v', acc ++ encodeRune r) := by
  unfold quotedSwitch lowSurrogate
  rfl

/-- the switch reads `v[0]` of a non-empty `v` and — thanks to the guards `len(v) < 5`, `len(v) < 6` — never indexes
    or slices out of range: it computes the model's case analysis -/
theorem quotedSwitchC_eq (c : Nat) (t b : Bytes) : quotedSwitchC true true (c :: t) b = .ok (quotedSwitch c t b) := by
  unfold quotedSwitchC
  rw [idx0_cons]
  simp only [Res.ok_bind, from1_cons]
  by_cases h9 : c = 0x75
  · subst h9
    rw [quotedSwitch_u]
    simp only [Bool.true_and, Nat.reduceEqDiff, if_false, if_true]
    by_cases hl : (((0x75 :: t : Bytes).length : Nat) : Int) < 5
    · have : t.length < 4 := by simp only [List.length_cons] at hl; omega
      rw [if_pos (decide_eq_true hl), hex4_short t this]
      rfl
    · rw [if_neg (by simpa using hl)]
      match t, hl with
      | a :: b' :: c :: d :: rest, hl =>
        simp only [slice15, from5, Res.ok_bind, hexDigitsC_hex4]
        cases hexDigitsC [a, b', c, d] 0 with
        | none => rfl
        | some r =>
          simp only [Option.map_some]
          by_cases hs : Json.isSurrogate r = true
          · simp only [hs, if_true, lowSurrogateC_eq]
          · simp only [hs, Bool.false_eq_true, if_false]; rfl
      | [], hl => simp at hl
      | [_], hl => simp at hl
      | [_, _], hl => simp at hl
      | [_, _, _], hl => simp at hl
  · unfold quotedSwitch
    simp only [h9, if_false]
    repeat' split
    all_goals rfl

example : quotedSwitchC true true [0x6E, 0x61] [0x62] = .ok (some ([0x61], [0x62, 0x0A])) := rfl
/-- `é` -/
example : quotedSwitchC true true [0x75, 0x30, 0x30, 0x65, 0x39] [] = .ok (some ([], [0xC3, 0xA9])) := rfl
/-- `\u12`: too short, the error return (guard :2232) -/
example : quotedSwitchC true true [0x75, 0x31, 0x32] [] = .ok none := rfl
/-- `\x`: unknown escape, the error return -/
example : quotedSwitchC true true [0x78] [] = .ok none := rfl

/-- the switch consumes at least one byte -/
theorem quotedSwitch_length (c : Nat) (t acc v' acc' : Bytes) (h : quotedSwitch c t acc = some (v', acc')) :
    v'.length ≤ t.length := by
  have hex : ∀ (w w' : Bytes) (r : Nat), Json.hex4 w = some (r, w') → w'.length ≤ w.length := by
    intro w w' r hw
    match w, hw with
    | a :: b :: c :: d :: rest, hw =>
      rw [hexDigitsC_hex4] at hw
      cases hd : hexDigitsC [a, b, c, d] 0 with
      | none => rw [hd] at hw; cases hw
      | some x =>
        rw [hd] at hw
        simp only [Option.map_some] at hw
        injection hw with hw; injection hw with _ hw
        subst hw; simp only [List.length_cons]; omega
    | [], hw => cases hw
    | [_], hw => cases hw
    | [_, _], hw => cases hw
    | [_, _, _], hw => cases hw
  by_cases h9 : c = 0x75
  · subst h9
    rw [quotedSwitch_u] at h
    cases hh : Json.hex4 t with
    | none => rw [hh] at h; cases h
    | some p =>
      obtain ⟨r, w⟩ := p
      rw [hh] at h
      have h1 := hex t w r hh
      simp only [] at h
      split at h
      · unfold lowSurrogate at h
        split at h
        · rename_i v''
          cases hh2 : Json.hex4 v'' with
          | none => rw [hh2] at h; cases h
          | some q =>
            obtain ⟨r2, w2⟩ := q
            rw [hh2] at h
            have h2 := hex v'' w2 r2 hh2
            simp only [] at h
            split at h
            · cases h
            injection h with h; injection h with h _
            subst h
            simp only [List.length_cons] at h1
            omega
        · cases h
      · injection h with h; injection h with h _
        subst h; exact h1
  · unfold quotedSwitch at h
    simp only [h9, if_false] at h
    repeat' split at h
    all_goals first | (cases h; done) | (injection h with h; injection h with h _; subst h; exact Nat.le_refl _)

example : ([0x61] : Bytes).length ≤ ([0x61] : Bytes).length :=
  quotedSwitch_length 0x6E [0x61] [] [0x61] [0x0A] (by decide)

/-- the `for { … }` loop of `parseQuotedIdentifier` (parser.go:2205-2295); first argument: iterations left, then `v`,
    `b` as in Go; `none` = `return "", &invalidQuotedStringError{s}`.
    Go sites: those of `quotedSwitchC` (:2206-2284) and of `splitC` (:2293 `v[:i]`, :2294 `v[i+1:]`). -/
def quotedLoopC (g5 g6 gl : Bool) : Nat → Bytes → Bytes → Res (Option Bytes)
  | 0, _, _ => .unmodelled fuelMsg
  | k + 1, v, b => do
    let sw ← quotedSwitchC g5 g6 v b                         -- :2206-2284 switch v[0] { … }
    match sw with
    | none => pure none
    | some (v, b) => do
      let sp ← splitC gl v                                   -- :2286-2294
      match sp with
      | none => pure (some (b ++ v))                         -- :2288 b.WriteString(v); return b.String(), nil
      | some (pre, post) => quotedLoopC g5 g6 gl k post (b ++ pre)

/-- `parseQuotedIdentifier` (parser.go:2187-2296), transliterated; `none` = `invalidQuotedStringError`.
    `g5 = false` drops `if len(v) < 5` (:2232), `g6 = false` drops `if len(v) < 6` (:2252), `gl = false` drops
    `|| i+1 == len(v)` (:2196, :2287).
    Go sites: :2188 `s[1 : len(s)-1]`; :2190 `v[j]` (`ctrlLoopC`); :2201 `b.Grow(len(v))` (`grow?`: panics iff the count
    is negative — it is a `len`, `grow_len_no_panic`); :2202 `v[:i]`, :2204 `v[i+1:]` (the statement group of `splitC`,
    written out here because the `Grow` stands between its guard and its slices: `split_grow_fold`); the loop
    (`quotedLoopC`). -/
def parseQuotedIdentifierG (g5 g6 gl : Bool) (s : Bytes) : Res (Option Bytes) := do
  let v ← stripC s                                           -- :2188
  let bad ← ctrlLoopC v (v.length + 1) 0                     -- :2189-2193
  if bad then pure none
  else do
    let i := indexByte 0x5C v                                -- :2195 i := strings.IndexByte(v, '\\')
    if i = -1 || (gl && i + 1 = (v.length : Int)) then pure (some v)  -- :2196-2198
    else do
      grow? (v.length : Int)                                 -- :2200-2201 var b strings.Builder; b.Grow(len(v))
      let pre ← sliceTo? v i                                 -- :2202 b.WriteString(v[:i])
      let post ← sliceFrom? v (i + 1)                        -- :2204 v = v[i+1:]
      quotedLoopC g5 g6 gl (v.length + 1) post pre           -- :2205-2295 for { … }

/-- the Go function as it is -/
def parseQuotedIdentifierC := parseQuotedIdentifierG true true true

/-- every round of the loop starts with a non-empty `v` (so `v[0]` is fine), the guards keep the other accesses in
    range, and the rounds are fewer than the iteration budget: the loop computes the model's `quotedLoop`.  In particular
    the model's defensive cases `quotedLoop 0 _ _` and `quotedLoop _ [] _` are never reached. -/
theorem quotedLoopC_eq : ∀ (k : Nat) (v b : Bytes), v ≠ [] → v.length ≤ k →
    quotedLoopC true true true k v b = .ok (quotedLoop k v b) := by
  intro k
  induction k with
  | zero =>
    intro v b hne hk
    exact absurd (List.eq_nil_of_length_eq_zero (by omega)) hne
  | succ k ih =>
    intro v b hne hk
    match v, hne, hk with
    | c :: t, _, hk =>
      rw [quotedLoopC, quotedLoop_succ, quotedSwitchC_eq]
      simp only [Res.ok_bind]
      cases hsw : quotedSwitch c t b with
      | none => rfl
      | some q =>
        obtain ⟨v', b'⟩ := q
        have hlen := quotedSwitch_length c t b v' b' hsw
        simp only []
        rw [splitC_eq]
        simp only [Res.ok_bind]
        cases hs : splitAtBackslash v' [] with
        | none => rfl
        | some p =>
          obtain ⟨pre, post⟩ := p
          obtain ⟨hp1, hp2⟩ := split_post v' [] pre post hs
          simp only [List.length_cons] at hk
          exact ih post _ hp1 (by omega)

example : quotedLoopC true true true 9 [0x6E, 0x61, 0x5C, 0x74] [0x62] = .ok (some [0x62, 0x0A, 0x61, 0x09]) := rfl

/-- `parseQuotedIdentifier`: for every token of at least two bytes (whatever its bytes) no index or slice expression
    panics, nor does `b.Grow(len(v))`, both loops terminate, and the result is the model's.  `2 ≤ len(s)` is established by the lexer
    (lexer.go:457-485 `quotedIdentifier`: the token spans the opening `"` and the closing `"`), see
    `lexToken_delim_length`. -/
theorem parseQuotedIdentifierC_eq (s : Bytes) (h : 2 ≤ s.length) :
    parseQuotedIdentifierC s = .ok (parseQuotedIdentifier s) := by
  unfold parseQuotedIdentifierC parseQuotedIdentifierG parseQuotedIdentifier
  rw [stripC_eq s h]
  simp only [Res.ok_bind]
  have := ctrlLoopC_eq (stripDelims s) ((stripDelims s).length + 1) 0 (Nat.zero_le _) (by omega)
  simp only [Int.natCast_zero, List.drop_zero] at this
  rw [this]
  simp only [Res.ok_bind]
  split
  · rfl
  · refine (split_grow_fold true (stripDelims s) _ _).trans ?_
    rw [splitC_eq]
    simp only [Res.ok_bind]
    cases hs : splitAtBackslash (stripDelims s) [] with
    | none => rfl
    | some p =>
      obtain ⟨pre, post⟩ := p
      obtain ⟨hp1, hp2⟩ := split_post _ [] pre post hs
      exact quotedLoopC_eq _ post pre hp1 (by omega)

/-- `"a\nbé"` ↦ `a⏎bé` -/
example : parseQuotedIdentifierC [0x22, 0x61, 0x5C, 0x6E, 0x62, 0x5C, 0x75, 0x30, 0x30, 0x65, 0x39, 0x22]
    = .ok (some [0x61, 0x0A, 0x62, 0xC3, 0xA9]) := rfl
/-- `"😀"` ↦ U+1F600 -/
example : parseQuotedIdentifierC
    [0x22, 0x5C, 0x75, 0x64, 0x38, 0x33, 0x64, 0x5C, 0x75, 0x64, 0x65, 0x30, 0x30, 0x22]
    = .ok (some [0xF0, 0x9F, 0x98, 0x80]) := rfl
/-- `"\u12"`: the error return of the guard `len(v) < 5` -/
example : parseQuotedIdentifierC [0x22, 0x5C, 0x75, 0x31, 0x32, 0x22] = .ok none := rfl
/-- `"\ud83d\u12"`: the error return of the guard `len(v) < 6` -/
example : parseQuotedIdentifierC [0x22, 0x5C, 0x75, 0x64, 0x38, 0x33, 0x64, 0x5C, 0x75, 0x31, 0x32, 0x22] = .ok none := rfl
/-- FX28: `"\ud83d\u0041"` (a high surrogate followed by an escape that is no low surrogate) and `"\ude00\ud83d"` (low,
    then high): the error return after `utf16.DecodeRune` gave U+FFFD (before the fix: U+FFFD, the second escape swallowed) -/
example : parseQuotedIdentifierC
    [0x22, 0x5C, 0x75, 0x64, 0x38, 0x33, 0x64, 0x5C, 0x75, 0x30, 0x30, 0x34, 0x31, 0x22] = .ok none := rfl
example : parseQuotedIdentifierC
    [0x22, 0x5C, 0x75, 0x64, 0x65, 0x30, 0x30, 0x5C, 0x75, 0x64, 0x38, 0x33, 0x64, 0x22] = .ok none := rfl
/-- a control byte: the error return of the first loop -/
example : parseQuotedIdentifierC [0x22, 0x61, 0x09, 0x22] = .ok none := rfl
/-- a 1-byte token: `s[1:0]` panics — the hypothesis `2 ≤ len(s)` cannot be dropped -/
example : parseQuotedIdentifierC [0x22] = .panic sliceMsg := rfl

/-- **Guard deletion B** — without `if len(v) < 5` (parser.go:2232) the identifier `"\u12"` panics at `v[1:5]`
    (parser.go:2237; `v` is `u12`, 3 bytes). -/
example : parseQuotedIdentifierG false true true [0x22, 0x5C, 0x75, 0x31, 0x32, 0x22] = .panic sliceMsg := rfl
/-- **Guard deletion C** — without `if len(v) < 6` (parser.go:2252) the identifier `"\ud83d"` (a lone high surrogate, nothing
    after it) panics at `v[0]` (parser.go:2256) … -/
example : parseQuotedIdentifierG true false true [0x22, 0x5C, 0x75, 0x64, 0x38, 0x33, 0x64, 0x22] = .panic idxMsg := rfl
/-- … `"\ud83d\"` as a byte string (stripped: `\ud83d\`) at `v[1]` … -/
example : parseQuotedIdentifierG true false true [0x22, 0x5C, 0x75, 0x64, 0x38, 0x33, 0x64, 0x5C, 0x22] = .panic idxMsg := rfl
/-- … and `"\ud83d\u12"` at `v[2:6]` (parser.go:2261). -/
example : parseQuotedIdentifierG true false true
    [0x22, 0x5C, 0x75, 0x64, 0x38, 0x33, 0x64, 0x5C, 0x75, 0x31, 0x32, 0x22] = .panic sliceMsg := rfl
/-- **Guard deletion D** — without `|| i+1 == len(v)` (parser.go:2196) the token `"a\"` as a byte string (stripped: `a\`,
    a trailing backslash) sets `v = ""` and panics at `switch v[0]` (parser.go:2206). -/
example : parseQuotedIdentifierG true true false [0x22, 0x61, 0x5C, 0x22] = .panic idxMsg := rfl

/-! ## `parseJSONLiteral` (parser.go:2111-2185), head -/

/-- `parseJSONLiteral` (parser.go:2111-2185); `none` = `invalidJSONLiteralError`.  `ge = false` drops
    `if len(v) == 0` (:2113).
    The `switch v[0]` (:2117) selects fast paths: `case 'f'` / `case 't'` compare with `"false"` / `"true"` (:2132-2143,
    mirrored); `case '"'` and the number case call `json.Unmarshal` and, like every other input, fall through to the
    general `json.Decoder` (:2146-2184) when that fails — all of this is the model's `Json.decode` (library; not
    mirrored here).
    Go sites: :2112 `s[1:len(s)-1]`, :2117 `v[0]`. -/
def parseJSONLiteralG (ge : Bool) (s : Bytes) : Res (Option Val) := do
  let inner ← stripC s                                       -- :2112 s[1:len(s)-1]
  let v := unescapeBackticks inner                           -- :2112 strings.ReplaceAll
  if ge && (v.length : Int) = 0 then pure none               -- :2113
  else do
    let c ← idx? v 0                                         -- :2117 switch v[0]
    if c = 0x66 ∧ v = [0x66, 0x61, 0x6C, 0x73, 0x65] then pure (some (.bool false))      -- :2132-2137 v == "false"
    else if c = 0x74 ∧ v = [0x74, 0x72, 0x75, 0x65] then pure (some (.bool true))        -- :2138-2143 v == "true"
    else pure (Json.decode v)                                -- :2118-2131, :2146-2184 encoding/json

/-- the Go function as it is -/
def parseJSONLiteralC := parseJSONLiteralG true

/-- `parseJSONLiteral`: for every token of at least two bytes `s[1:len(s)-1]` is in range, and `v[0]` is read only
    after the guard `len(v) == 0`; the result is the model's.  `2 ≤ len(s)` is established by the lexer
    (lexer.go:409-437 `jsonLiteral`: the token spans both backticks), see `lexToken_delim_length`. -/
theorem parseJSONLiteralC_eq (s : Bytes) (h : 2 ≤ s.length) :
    parseJSONLiteralC s = .ok (parseJSONLiteral s) := by
  unfold parseJSONLiteralC parseJSONLiteralG parseJSONLiteral
  rw [stripC_eq s h]
  simp only [Res.ok_bind, Bool.true_and]
  cases hv : unescapeBackticks (stripDelims s) with
  | nil => rfl
  | cons c t =>
    rw [if_neg (by simp; omega), idx0_cons]
    simp only [Res.ok_bind, List.isEmpty_cons, Bool.false_eq_true, if_false]
    split
    · rename_i hc; rw [hc.2]; rfl
    · split
      · rename_i hc; rw [hc.2]; rfl
      · rfl

/-- `` `[1]` `` -/
example : parseJSONLiteralC [0x60, 0x5B, 0x31, 0x5D, 0x60] = .ok (some (.arr .plain [.num (.jnum [0x31])])) := rfl
/-- `` `false` `` -/
example : parseJSONLiteralC [0x60, 0x66, 0x61, 0x6C, 0x73, 0x65, 0x60] = .ok (some (.bool false)) := rfl
/-- ` `` ` (two backticks, empty literal): the error return of the guard `len(v) == 0` -/
example : parseJSONLiteralC [0x60, 0x60] = .ok none := rfl
/-- a 1-byte token: `s[1:0]` panics — the hypothesis `2 ≤ len(s)` cannot be dropped -/
example : parseJSONLiteralC [0x60] = .panic sliceMsg := rfl

/-- **Guard deletion E** — without `if len(v) == 0` (parser.go:2113) the empty literal ` `` ` panics at `switch v[0]`
    (parser.go:2117). -/
example : parseJSONLiteralG false [0x60, 0x60] = .panic idxMsg := rfl

/-! ## the caller side: the lexer's delimited tokens have at least two bytes -/

/-- a delimited token body ends with the closing delimiter: it is not empty -/
theorem delimBody_length {d : Nat} {w : Bytes} (h : Lexical.DelimBody d w) : 1 ≤ w.length := by
  induction h with
  | close => simp
  | esc c w _ _ _ => simp only [List.length_cons]; omega
  | plain c w _ _ _ _ ih => rw [List.length_append]; omega

/-- the three token types whose value is handed to `parseQuotedIdentifier` (parser.go:1813, :2043),
    `parseStringLiteral` (:1832), `parseJSONLiteral` (:1723) -/
def IsDelimType (ty : TokenType) : Prop := ty = .quotedIdentifier ∨ ty = .stringLiteral ∨ ty = .jsonLiteral

/-- **caller side** — every quoted-identifier / string-literal / JSON-literal token the model's lexer step produces
    spans the opening and the closing delimiter: its value has at least two bytes.  (Go: lexer.go:409-437, :457-485,
    :487-515 return `l.expression[start:next]` only after having consumed a closing delimiter after `start + 1`.) -/
theorem lexToken_delim_length {s : Bytes} {t : Token} {n : Nat} (h : lexToken s = .ok (t, n))
    (ht : IsDelimType t.type) : 2 ≤ t.value.length := by
  have hs := (Lex.lexToken_good h).shape
  have key : ∀ d, Lexical.Delimited d t.value → 2 ≤ t.value.length := by
    intro d hd
    obtain ⟨w, hv, hb⟩ := hd
    have := delimBody_length hb
    rw [hv, List.length_cons]; omega
  rcases ht with ht | ht | ht <;> rw [ht] at hs <;> exact key _ hs

example : lexToken [0x27, 0x27, 0x61] = .ok (⟨.stringLiteral, [0x27, 0x27]⟩, 2) := by rfl
example : (2 : Nat) ≤ (⟨.stringLiteral, [0x27, 0x27]⟩ : Token).value.length :=
  lexToken_delim_length (s := [0x27, 0x27, 0x61]) (by rfl) (Or.inr (Or.inl rfl))

/-- the same for every token of the stream the parser pulls (`lexAllAux`, any fuel, also when the stream ends in a
    lexical error) -/
theorem lexAllAux_delim_length : ∀ (fuel : Nat) (s : Bytes) (t : Token), t ∈ (lexAllAux fuel s).1 →
    IsDelimType t.type → 2 ≤ t.value.length
  | 0, s, t => by intro h; simp [lexAllAux] at h
  | fuel + 1, s, t => by
    intro h ht
    unfold lexAllAux at h
    split at h
    · simp only [List.mem_singleton] at h
      subst h
      rcases ht with ht | ht | ht <;> cases ht
    · split at h
      · simp at h
      · rename_i t0 n htok
        simp only [List.mem_cons] at h
        rcases h with h | h
        · subst h; exact lexToken_delim_length htok ht
        · exact lexAllAux_delim_length fuel _ t h ht

/-- **caller side, whole input** — in the token stream of ANY expression (`lexAll`), every quoted-identifier /
    string-literal / JSON-literal token has at least two bytes: the hypothesis `2 ≤ len(s)` of
    `parseStringLiteralC_eq`, `parseQuotedIdentifierC_eq`, `parseJSONLiteralC_eq` holds at every call of the parser -/
theorem lexAll_delim_length (e : Bytes) (t : Token) (h : t ∈ (lexAll e).1) (ht : IsDelimType t.type) :
    2 ≤ t.value.length :=
  lexAllAux_delim_length _ e t h ht

/-- `a.'b'` : the tokens, and the string literal has 3 bytes -/
example : (lexAll [0x61, 0x2E, 0x27, 0x62, 0x27]).1 =
    [⟨.unquotedIdentifier, [0x61]⟩, ⟨.dot, [0x2E]⟩, ⟨.stringLiteral, [0x27, 0x62, 0x27]⟩, ⟨.end, []⟩] := by rfl

/-- no panic in the literal decoders on lexer output: for every token of every expression, the three mirrors succeed
    (with the model's result) on the token types they are called for -/
theorem literal_decoders_no_panic (e : Bytes) (t : Token) (h : t ∈ (lexAll e).1) :
    (t.type = .stringLiteral → parseStringLiteralC t.value = .ok (parseStringLiteral t.value)) ∧
    (t.type = .quotedIdentifier → parseQuotedIdentifierC t.value = .ok (parseQuotedIdentifier t.value)) ∧
    (t.type = .jsonLiteral → parseJSONLiteralC t.value = .ok (parseJSONLiteral t.value)) :=
  ⟨fun ht => parseStringLiteralC_eq _ (lexAll_delim_length e t h (Or.inr (Or.inl ht))),
   fun ht => parseQuotedIdentifierC_eq _ (lexAll_delim_length e t h (Or.inl ht)),
   fun ht => parseJSONLiteralC_eq _ (lexAll_delim_length e t h (Or.inr (Or.inr ht)))⟩

/-- `'it\'s'` lexed and decoded -/
example : parseStringLiteralC [0x27, 0x69, 0x74, 0x5C, 0x27, 0x73, 0x27] = .ok [0x69, 0x74, 0x27, 0x73] := rfl

end Jmes.C03D.LitGo
