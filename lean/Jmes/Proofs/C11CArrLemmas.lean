/-
  C11 (third wave): the structural helpers of the evaluator (field access, index, flatten, the projection loops,
  filter, map, zip) relate the original run and the renamed run (`RR`, see `C11CLemmas`).  None of them looks inside a
  string: they move values around, so the renamed run moves the renamed values the same way.
-/
import Jmes.Proofs.C11CLemmas
namespace Jmes.C11C
open Jmes Jmes.Utf8 Jmes.C11 Jmes.C11S Jmes.C11R Jmes.C11V Jmes.Invar

/-- a value outcome, with the renamed value given explicitly -/
theorem RRV.of_ok {f : Nat → Nat} {a b : Val} (h : RnV f a = true) (e : renV f a = b) : RRV f (.ok a) (.ok b) := by
  subst e; exact RR.ok h

theorem RRL.of_ok {f : Nat → Nat} {a b : List Val} (h : RnVL f a = true) (e : renVL f a = b) :
    RRL f (.ok a) (.ok b) := by
  subst e; exact RR.ok h

theorem RRV.null {f : Nat → Nat} : RRV f (.ok .null) (.ok .null) := RRV.of_ok rfl (renV_null f)

/-- wrap a list outcome into an array -/
theorem RRV.arr {f : Nat → Nat} (t : ATag) {r r' : Res (List Val)} (h : RRL f r r') :
    RRV f (r >>= fun xs => pure (.arr t xs)) (r' >>= fun xs => pure (.arr t xs)) :=
  RR.bind h fun xs hxs => RRV.of_ok (rn_arr.mpr hxs) (renV_arr f t xs)

/-! ## field, index -/

/-- `field`: the renamed key in the renamed object finds the renamed member -/
theorem field_rr {f : Nat → Nat} (hm : Mono f) {k : Bytes} (hk : rnB f k = true) {v : Val} (hv : RnV f v = true) :
    field (renB f k) (renV f v) = renV f (field k v) ∧ RnV f (field k v) = true := by
  cases v with
  | obj kvs =>
    have h := rn_obj.mp hv
    simp only [renV, field]
    rw [objLookup_ren hm hk h]
    cases hl : objLookup k kvs with
    | none => exact ⟨by simp [renV], rfl⟩
    | some x => exact ⟨by simp, rn_objLookup h hl⟩
  | _ => exact ⟨by simp only [renV, field], rfl⟩

theorem getD_renVL (f : Nat → Nat) (xs : List Val) (i : Nat) :
    (renVL f xs).getD i .null = renV f (xs.getD i .null) := by
  rw [renVL_eq_map, List.getD_eq_getElem?_getD, List.getD_eq_getElem?_getD, List.getElem?_map]
  cases xs[i]? with
  | none => simp [renV]
  | some x => simp

theorem index_rr {f : Nat → Nat} {v : Val} (hv : RnV f v = true) (i : Int) :
    RRV f (index v i) (index (renV f v) i) := by
  cases v with
  | arr t xs =>
    have h := rn_arr.mp hv
    simp only [renV, index, renVL_length, enum2_ren]
    repeat' split
    all_goals first
      | exact RRV.null
      | exact RR.nondet
      | exact RRV.of_ok (rn_getD h _) (getD_renVL f xs _).symm
  | _ => simp only [renV, index]; exact RRV.null

/-! ## flatten, prune, object values -/

theorem filter_notNull_ren (f : Nat → Nat) : ∀ ys : List Val,
    (renVL f ys).filter (fun y => !y.isNull) = renVL f (ys.filter (fun y => !y.isNull))
  | [] => by simp only [renVL, List.filter_nil]
  | y :: ys => by
    simp only [renVL, List.filter_cons, isNull_ren]
    split
    · simp only [renVL]; rw [filter_notNull_ren f ys]
    · exact filter_notNull_ren f ys

theorem flattenElems_ren (f : Nat → Nat) : ∀ xs : List Val, flattenElems (renVL f xs) = renVL f (flattenElems xs)
  | [] => by simp only [renVL, flattenElems]
  | x :: xs => by
    cases x <;> simp only [renVL, renV, flattenElems, flattenElems_ren f xs]
    rw [filter_notNull_ren, renVL_append]

theorem rnVL_flattenElems {f : Nat → Nat} : ∀ {xs : List Val}, RnVL f xs = true → RnVL f (flattenElems xs) = true
  | [], _ => rfl
  | x :: xs, h => by
    have h' := rnVL_cons.mp h
    have ih := rnVL_flattenElems h'.2
    cases x with
    | arr t ys => simp only [flattenElems]; exact rnVL_append (rnVL_filter _ (rn_arr.mp h'.1)) ih
    | null => simpa only [flattenElems] using ih
    | _ => simp only [flattenElems]; exact rnVL_cons.mpr ⟨h'.1, ih⟩

theorem flattenForProject_ren (f : Nat → Nat) : ∀ xs : List Val,
    flattenForProject (renVL f xs) = renVL f (flattenForProject xs)
  | [] => by simp only [renVL, flattenForProject]
  | x :: xs => by
    cases x <;> simp only [renVL, renV, flattenForProject, flattenForProject_ren f xs]
    rw [renVL_append]

theorem rnVL_flattenForProject {f : Nat → Nat} : ∀ {xs : List Val}, RnVL f xs = true →
    RnVL f (flattenForProject xs) = true
  | [], _ => rfl
  | x :: xs, h => by
    have h' := rnVL_cons.mp h
    have ih := rnVL_flattenForProject h'.2
    cases x with
    | arr t ys => simp only [flattenForProject]; exact rnVL_append (rn_arr.mp h'.1) ih
    | _ => simp only [flattenForProject]; exact rnVL_cons.mpr ⟨h'.1, ih⟩

theorem flattenTag_ren (f : Nat → Nat) (t : ATag) (xs : List Val) : flattenTag t (renVL f xs) = flattenTag t xs := by
  unfold flattenTag
  rw [enum2_ren]
  have : ∀ (q : Val → Bool), (∀ x, q (renV f x) = q x) → (renVL f xs).any q = xs.any q :=
    fun q hq => any_renVL f q q xs (fun x _ => hq x)
  rw [this]
  intro x
  cases x <;> simp only [renV, enum2_ren]

theorem flatten_rr {f : Nat → Nat} {v : Val} (hv : RnV f v = true) :
    flatten (renV f v) = renV f (flatten v) ∧ RnV f (flatten v) = true := by
  cases v with
  | arr t xs =>
    simp only [renV, flatten]
    rw [flattenTag_ren, flattenElems_ren]
    exact ⟨rfl, rn_arr.mpr (rnVL_flattenElems (rn_arr.mp hv))⟩
  | _ => exact ⟨by simp only [renV, flatten], rfl⟩

theorem any_isNull_ren (f : Nat → Nat) (xs : List Val) : (renVL f xs).any Val.isNull = xs.any Val.isNull :=
  any_renVL f _ _ xs (fun x _ => isNull_ren f x)

theorem pruneArray_rr {f : Nat → Nat} {v : Val} (hv : RnV f v = true) :
    pruneArray (renV f v) = renV f (pruneArray v) ∧ RnV f (pruneArray v) = true := by
  cases v with
  | arr t xs =>
    have h := rn_arr.mp hv
    simp only [renV, pruneArray]
    rw [any_isNull_ren]
    split
    · simp only [renV]; rw [filter_notNull_ren]; exact ⟨rfl, rn_arr.mpr (rnVL_filter _ h)⟩
    · simp only [renV]; exact ⟨trivial, rn_arr.mpr h⟩
  | _ => exact ⟨by simp only [renV, pruneArray], rfl⟩

theorem map_snd_renVF (f : Nat → Nat) (kvs : List (Bytes × Val)) :
    (renVF f kvs).map Prod.snd = renVL f (kvs.map Prod.snd) := by
  rw [renVF_eq_map, renVL_eq_map, List.map_map, List.map_map]; rfl

theorem rnVL_values {f : Nat → Nat} {kvs : List (Bytes × Val)} (h : RnVF f kvs = true) :
    RnVL f (kvs.map Prod.snd) = true :=
  rnVL_iff.mpr fun x hx => by
    obtain ⟨kv, hkv, rfl⟩ := List.mem_map.1 hx
    exact (rnVF_iff.mp h kv hkv).2

theorem objectValues_rr {f : Nat → Nat} {v : Val} (hv : RnV f v = true) :
    objectValues (renV f v) = renV f (objectValues v) ∧ RnV f (objectValues v) = true := by
  cases v with
  | obj kvs =>
    simp only [renV, objectValues]
    rw [map_snd_renVF, filter_notNull_ren]
    exact ⟨rfl, rn_arr.mpr (rnVL_filter _ (rnVL_values (rn_obj.mp hv)))⟩
  | _ => exact ⟨by simp only [renV, objectValues], rfl⟩

/-! ## the loops -/

theorem mapPrune_rr {f : Nat → Nat} {k k' : Val → Res Val} (hk : FnRel f k k') :
    ∀ {xs : List Val}, RnVL f xs = true → RRL f (mapPrune k xs) (mapPrune k' (renVL f xs))
  | [], _ => by simp only [renVL, mapPrune]; exact RRL.of_ok rfl (renVL_nil f)
  | x :: xs, h => by
    have h' := rnVL_cons.mp h
    simp only [renVL, mapPrune]
    refine RR.bind (hk x h'.1) fun p hp => RR.bind (mapPrune_rr hk h'.2) fun rest hrest => ?_
    simp only [isNull_ren]
    split
    · exact RR.pure hrest
    · exact RRL.of_ok (rnVL_cons.mpr ⟨hp, hrest⟩) (renVL_cons f p rest)

theorem mapAll_rr {f : Nat → Nat} {k k' : Val → Res Val} (hk : FnRel f k k') :
    ∀ {xs : List Val}, RnVL f xs = true → RRL f (mapAll k xs) (mapAll k' (renVL f xs))
  | [], _ => by simp only [renVL, mapAll]; exact RRL.of_ok rfl (renVL_nil f)
  | x :: xs, h => by
    have h' := rnVL_cons.mp h
    simp only [renVL, mapAll]
    refine RR.bind (hk x h'.1) fun p hp => RR.bind (mapAll_rr hk h'.2) fun rest hrest => ?_
    exact RRL.of_ok (rnVL_cons.mpr ⟨hp, hrest⟩) (renVL_cons f p rest)

theorem filterLoop_rr {f : Nat → Nat} {c c' : Val → Res Val} (hc : FnRel f c c') :
    ∀ {xs : List Val}, RnVL f xs = true → RRL f (filterLoop c xs) (filterLoop c' (renVL f xs))
  | [], _ => by simp only [renVL, filterLoop]; exact RRL.of_ok rfl (renVL_nil f)
  | x :: xs, h => by
    have h' := rnVL_cons.mp h
    simp only [renVL, filterLoop]
    refine RR.bind (hc x h'.1) fun b hb => RR.bind (filterLoop_rr hc h'.2) fun rest hrest => ?_
    simp only [isNull_ren, isTrue_ren hb]
    split
    · exact RRL.of_ok (rnVL_cons.mpr ⟨h'.1, hrest⟩) (renVL_cons f x rest)
    · exact RR.pure hrest

theorem filterMapPrune_rr {f : Nat → Nat} {c c' k k' : Val → Res Val} (hc : FnRel f c c') (hk : FnRel f k k') :
    ∀ {xs : List Val}, RnVL f xs = true → RRL f (filterMapPrune c k xs) (filterMapPrune c' k' (renVL f xs))
  | [], _ => by simp only [renVL, filterMapPrune]; exact RRL.of_ok rfl (renVL_nil f)
  | x :: xs, h => by
    have h' := rnVL_cons.mp h
    simp only [renVL, filterMapPrune]
    refine RR.bind (hc x h'.1) fun b hb => ?_
    simp only [isTrue_ren hb]
    split
    · refine RR.bind (hk x h'.1) fun p hp => RR.bind (filterMapPrune_rr hc hk h'.2) fun rest hrest => ?_
      simp only [isNull_ren]
      split
      · exact RR.pure hrest
      · exact RRL.of_ok (rnVL_cons.mpr ⟨hp, hrest⟩) (renVL_cons f p rest)
    · exact filterMapPrune_rr hc hk h'.2

/-! ## projections, filters, map -/

theorem projectArray_rr {f : Nat → Nat} {k k' : Val → Res Val} (hk : FnRel f k k') {v : Val} (hv : RnV f v = true) :
    RRV f (projectArray k v) (projectArray k' (renV f v)) := by
  cases v with
  | arr t xs =>
    have h := rn_arr.mp hv
    simp only [renV, projectArray]
    exact widen_rr t h (ps := [(k, k')]) (fun p hp => by simp at hp; subst hp; exact hk) []
      (RRV.arr t.derived (mapPrune_rr hk h))
  | _ => simp only [renV, projectArray]; exact RRV.null

theorem filterArray_rr {f : Nat → Nat} {c c' : Val → Res Val} (hc : FnRel f c c') {v : Val} (hv : RnV f v = true) :
    RRV f (filterArray c v) (filterArray c' (renV f v)) := by
  cases v with
  | arr t xs =>
    have h := rn_arr.mp hv
    simp only [renV, filterArray]
    exact widen_rr t h (ps := [(c, c')]) (fun p hp => by simp at hp; subst hp; exact hc) []
      (RRV.arr t.derived (filterLoop_rr hc h))
  | _ => simp only [renV, filterArray]; exact RRV.null

theorem filterAndProjectArray_rr {f : Nat → Nat} {c c' k k' : Val → Res Val} (hc : FnRel f c c')
    (hk : FnRel f k k') {v : Val} (hv : RnV f v = true) :
    RRV f (filterAndProjectArray c k v) (filterAndProjectArray c' k' (renV f v)) := by
  cases v with
  | arr t xs =>
    have h := rn_arr.mp hv
    simp only [renV, filterAndProjectArray]
    exact widen_rr t h (ps := [(c, c'), (k, k')])
      (fun p hp => by
        simp at hp
        rcases hp with rfl | rfl
        · exact hc
        · exact hk) []
      (RRV.arr t.derived (filterMapPrune_rr hc hk h))
  | _ => simp only [renV, filterAndProjectArray]; exact RRV.null

theorem flattenAndProjectArray_rr {f : Nat → Nat} {k k' : Val → Res Val} (hk : FnRel f k k') {v : Val}
    (hv : RnV f v = true) : RRV f (flattenAndProjectArray k v) (flattenAndProjectArray k' (renV f v)) := by
  cases v with
  | arr t xs =>
    have h := rn_arr.mp hv
    have hfp := rnVL_flattenForProject h
    have hnn : RnVL f (flattenForProject xs ++ [.null, .null]) = true := rnVL_append hfp rfl
    have e : flattenForProject (renVL f xs) ++ [Val.null, Val.null]
        = renVL f (flattenForProject xs ++ [.null, .null]) := by
      rw [renVL_append, flattenForProject_ren]; simp only [renVL, renV]
    simp only [renV, flattenAndProjectArray, flattenTag_ren]
    rw [e, flattenForProject_ren]
    exact widen_rr _ hnn (ps := [(k, k')]) (fun p hp => by simp at hp; subst hp; exact hk) []
      (RRV.arr _ (mapPrune_rr hk hfp))
  | _ => simp only [renV, flattenAndProjectArray]; exact RRV.null

theorem projectObject_rr {f : Nat → Nat} {k k' : Val → Res Val} (hk : FnRel f k k') {v : Val} (hv : RnV f v = true) :
    RRV f (projectObject k v) (projectObject k' (renV f v)) := by
  cases v with
  | obj kvs =>
    have h := rnVL_values (rn_obj.mp hv)
    simp only [renV, projectObject]
    rw [map_snd_renVF]
    exact widen_rr .enum h (ps := [(k, k')]) (fun p hp => by simp at hp; subst hp; exact hk) []
      (RRV.arr .enum (mapPrune_rr hk h))
  | _ => simp only [renV, projectObject]; exact RRV.null

theorem mapArray_rr {f : Nat → Nat} {k k' : Val → Res Val} (hk : FnRel f k k') {v : Val} (hv : RnV f v = true) :
    RRV f (mapArray k v) (mapArray k' (renV f v)) := by
  cases v with
  | arr t xs =>
    have h := rn_arr.mp hv
    simp only [renV, mapArray]
    exact widen_rr t h (ps := [(k, k')]) (fun p hp => by simp at hp; subst hp; exact hk) []
      (RRV.arr t.derived (mapAll_rr hk h))
  | _ => simp only [renV, mapArray]; exact RR.errType

/-! ## zip -/

theorem zipArgs_rr {f : Nat → Nat} : ∀ {vs : List Val}, RnVL f vs = true →
    RR (fun cols : List (List Val) => ∀ c ∈ cols, RnVL f c = true) (List.map (renVL f))
      (zipArgs vs) (zipArgs (renVL f vs))
  | [], _ => by simp only [renVL, zipArgs]; exact RR.ok (fun _ h => by cases h)
  | v :: rest, h => by
    have h' := rnVL_cons.mp h
    cases v with
    | arr t xs =>
      simp only [renVL, renV, zipArgs]
      refine RR.bind (zipArgs_rr h'.2) fun cols hcols => ?_
      rw [enum2_ren]
      split
      · exact RR.nondet
      · exact RR.ok (g := List.map (renVL f)) (a := xs :: cols) (fun c hc => by
          rcases List.mem_cons.1 hc with rfl | hc
          · exact rn_arr.mp h'.1
          · exact hcols c hc)
    | _ => simp only [renVL, renV, zipArgs]; exact RR.errType

theorem zipRows_ren (f : Nat → Nat) : ∀ (n : Nat) (cols : List (List Val)),
    zipRows n (cols.map (renVL f)) = renVL f (zipRows n cols)
  | 0, _ => by simp only [zipRows, renVL]
  | n + 1, cols => by
    simp only [zipRows, renVL, renV, List.map_map]
    rw [← zipRows_ren f n (cols.map List.tail), List.map_map]
    have e1 : (List.map ((fun c => c.headD Val.null) ∘ renVL f) cols)
        = renVL f (List.map (fun c => c.headD Val.null) cols) := by
      rw [renVL_eq_map, List.map_map]
      apply List.map_congr_left
      intro c _
      cases c <;> simp [renVL, renV]
    have e2 : List.map (List.tail ∘ renVL f) cols = List.map (renVL f ∘ List.tail) cols := by
      apply List.map_congr_left
      intro c _
      cases c <;> simp [renVL]
    rw [e1, e2]

theorem rnVL_zipRows {f : Nat → Nat} : ∀ (n : Nat) {cols : List (List Val)}, (∀ c ∈ cols, RnVL f c = true) →
    RnVL f (zipRows n cols) = true
  | 0, _, _ => rfl
  | n + 1, cols, h => by
    simp only [zipRows]
    refine rnVL_cons.mpr ⟨rn_arr.mpr (rnVL_iff.mpr ?_), rnVL_zipRows n ?_⟩
    · intro x hx
      obtain ⟨c, hc, rfl⟩ := List.mem_map.1 hx
      cases c with
      | nil => rfl
      | cons a _ => exact (rnVL_cons.mp (h _ hc)).1
    · intro c hc
      obtain ⟨c0, hc0, rfl⟩ := List.mem_map.1 hc
      cases c0 with
      | nil => rfl
      | cons a t => exact (rnVL_cons.mp (h _ hc0)).2

theorem zipCount_ren (f : Nat → Nat) (c : List Val) (cs : List (List Val)) :
    (cs.map (renVL f)).foldl (fun m x => min m x.length) (renVL f c).length
      = cs.foldl (fun m x => min m x.length) c.length := by
  rw [renVL_length]
  generalize c.length = n
  induction cs generalizing n with
  | nil => rfl
  | cons x xs ih => simp only [List.map_cons, List.foldl_cons, renVL_length]; exact ih _

end Jmes.C11C
