import Jmes.Proofs.JsonGrammar
namespace Jmes.JsonGrammar
open Jmes Jmes.Utf8 Jmes.Lexical Jmes.Json Jmes.Literals
set_option linter.unusedSimpArgs false

/-! ## Completeness of the decoder -/

/-! ### strings -/

theorem jstr_high_strip : ∀ (cs : Bytes) {w : Bytes}, (∀ b ∈ cs, 0x80 ≤ b) → JStrBody (cs ++ w) → JStrBody w
  | [], _, _, h => h
  | c :: cs, w, hc, h => by
    have hc0 := hc c (by simp)
    rw [List.cons_append] at h
    generalize hl : c :: (cs ++ w) = l at h
    cases h with
    | close => simp at hl; omega
    | char c' w' _ _ _ h' =>
      simp at hl
      obtain ⟨rfl, rfl⟩ := hl
      exact jstr_high_strip cs (fun b hb => hc b (by simp [hb])) h'
    | esc => simp at hl; omega
    | uni => simp at hl; omega

theorem jstr_last {b : Bytes} (h : JStrBody b) : ∃ b', b = b' ++ [0x22] := by
  induction h with
  | close => exact ⟨[], rfl⟩
  | char c w _ _ _ _ ih => obtain ⟨b', rfl⟩ := ih; exact ⟨c :: b', rfl⟩
  | esc e w _ _ ih => obtain ⟨b', rfl⟩ := ih; exact ⟨0x5C :: e :: b', rfl⟩
  | uni a b c d w _ _ _ _ _ ih => obtain ⟨b', rfl⟩ := ih; exact ⟨0x5C :: 0x75 :: a :: b :: c :: d :: b', rfl⟩

theorem isHex_hexVal {b : Nat} (h : isHexB b = true) : ∃ v, hexVal b = some v := by
  simp only [isHexB, Bool.or_eq_true, Bool.and_eq_true, decide_eq_true_eq] at h
  unfold hexVal
  split
  · exact ⟨_, rfl⟩
  · split
    · exact ⟨_, rfl⟩
    · split
      · exact ⟨_, rfl⟩
      · omega

theorem hex4_complete {a b c d : Nat} (ha : isHexB a = true) (hb : isHexB b = true) (hc : isHexB c = true)
    (hd : isHexB d = true) (t : Bytes) : ∃ r, hex4 (a :: b :: c :: d :: t) = some (r, t) := by
  obtain ⟨va, ha⟩ := isHex_hexVal ha
  obtain ⟨vb, hb⟩ := isHex_hexVal hb
  obtain ⟨vc, hc⟩ := isHex_hexVal hc
  obtain ⟨vd, hd⟩ := isHex_hexVal hd
  exact ⟨((va * 16 + vb) * 16 + vc) * 16 + vd, by simp [hex4, ha, hb, hc, hd]⟩

/-- the multi-byte rune the decoder reads at a high byte lies inside the string body -/
theorem rune_inside {c : Nat} {w rest : Bytes} (hc : ¬ c < 0x80) (hw : JStrBody (c :: w))
    (hv : ¬ ((decodeRune (c :: (w ++ rest))).1 = RuneError ∧ (decodeRune (c :: (w ++ rest))).2 = 1)) :
    (decodeRune (c :: (w ++ rest))).2 ≤ (c :: w).length ∧ 1 ≤ (decodeRune (c :: (w ++ rest))).2 ∧
    ∀ x ∈ (c :: w).take (decodeRune (c :: (w ++ rest))).2, 0x80 ≤ x := by
  have hhigh := rune_bytes_high hc hv
  obtain ⟨h1, h2, h3⟩ := decodeRune_valid (c :: (w ++ rest)) (by simp) hv
  have hpos : 1 ≤ (decodeRune (c :: (w ++ rest))).2 := by rw [h3]; exact encodeRune_length_pos _
  generalize (decodeRune (c :: (w ++ rest))).2 = sz at *
  obtain ⟨b', hb'⟩ := jstr_last hw
  have hle : sz ≤ (c :: w).length := by
    apply Nat.le_of_not_lt
    intro hlt
    have hmem : (0x22 : Nat) ∈ (c :: (w ++ rest)).take sz := by
      rw [← List.cons_append, hb']
      rw [hb'] at hlt
      have : sz = (b' ++ [0x22]).length + (sz - (b' ++ [0x22]).length) := by omega
      rw [this, List.take_length_add_append]
      simp
    have := hhigh _ hmem
    omega
  refine ⟨hle, hpos, ?_⟩
  intro x hx
  apply hhigh
  have : (c :: (w ++ rest)).take sz = (c :: w).take sz := by
    rw [← List.cons_append, List.take_append_of_le_length hle]
  rw [this]; exact hx


theorem psb_high (f c : Nat) (t acc : Bytes) (h1 : ¬ c < 0x80) :
    parseStringBody (f + 1) (c :: t) acc =
      if (decodeRune (c :: t)).1 = RuneError ∧ (decodeRune (c :: t)).2 = 1 then
        parseStringBody f t (acc ++ encodeRune RuneError)
      else parseStringBody f ((c :: t).drop (decodeRune (c :: t)).2) (acc ++ (c :: t).take (decodeRune (c :: t)).2) := by
  have a1 : ¬ c = 0x22 := by omega
  have a2 : ¬ c < 0x20 := by omega
  have a3 : ¬ c = 0x5C := by omega
  simp only [parseStringBody, a1, a2, a3, h1, if_false]

/-- the byte a two-character escape stands for -/
def escByte (e : Nat) : Nat :=
  if e = 0x62 then 0x08 else if e = 0x66 then 0x0C else if e = 0x6E then 0x0A else if e = 0x72 then 0x0D
  else if e = 0x74 then 0x09 else e

theorem psb_esc_simple (f e : Nat) (t acc : Bytes) (he : e ∈ [0x22, 0x5C, 0x2F, 0x62, 0x66, 0x6E, 0x72, 0x74]) :
    parseStringBody (f + 1) (0x5C :: e :: t) acc = parseStringBody f t (acc ++ [escByte e]) := by
  simp at he
  rcases he with rfl | rfl | rfl | rfl | rfl | rfl | rfl | rfl <;> simp [parseStringBody, escByte]

/-- what the decoder does after `\uXXXX` with value `r` -/
def uniCont (f r : Nat) (t' acc : Bytes) : Option (Bytes × Bytes) :=
  if isSurrogate r then
    match t' with
    | 0x5C :: 0x75 :: t3 =>
      (match hex4 t3 with
       | some (r2, t4) =>
         if utf16Decode r r2 ≠ RuneError then parseStringBody f t4 (acc ++ encodeRune (utf16Decode r r2))
         else parseStringBody f t' (acc ++ encodeRune RuneError)
       | none => none)
    | _ => parseStringBody f t' (acc ++ encodeRune RuneError)
  else parseStringBody f t' (acc ++ encodeRune r)

theorem psb_uni (f : Nat) (t t' acc : Bytes) (r : Nat) (h : hex4 t = some (r, t')) :
    parseStringBody (f + 1) (0x5C :: 0x75 :: t) acc = uniCont f r t' acc := by
  simp only [parseStringBody, h, uniCont]
  rfl


theorem jstr_length_pos {b : Bytes} (h : JStrBody b) : 0 < b.length := by
  cases h <;> simp

theorem parseStringBody_complete : ∀ (n : Nat) (b : Bytes), b.length ≤ n → JStrBody b →
    ∀ (fuel : Nat), b.length ≤ fuel → ∀ (rest acc : Bytes),
      ∃ out, parseStringBody fuel (b ++ rest) acc = some (out, rest)
  | 0, b, hn, hb => by have := jstr_length_pos hb; omega
  | n + 1, b, hn, hb => by
    intro fuel hf rest acc
    have hpos := jstr_length_pos hb
    obtain ⟨f, rfl⟩ : ∃ f, fuel = f + 1 := ⟨fuel - 1, by omega⟩
    cases hb with
    | close => exact ⟨acc, by simp [parseStringBody]⟩
    | char c w h1 h2 h3 hw =>
      simp only [List.length_cons] at hn hf
      rw [List.cons_append]
      by_cases hlo : c < 0x80
      · rw [psb_ascii f c h1 hlo h2 h3]
        exact parseStringBody_complete n w (by omega) hw f (by omega) rest _
      · rw [psb_high f c _ _ hlo]
        split
        · exact parseStringBody_complete n w (by omega) hw f (by omega) rest _
        · rename_i hv
          obtain ⟨i1, i2, i3⟩ := rune_inside hlo (JStrBody.char c w h1 h2 h3 hw) hv
          generalize (decodeRune (c :: (w ++ rest))).2 = sz at *
          have hd : (c :: (w ++ rest)).drop sz = (c :: w).drop sz ++ rest := by
            rw [← List.cons_append, List.drop_append_of_le_length i1]
          have hj : JStrBody ((c :: w).drop sz) := by
            apply jstr_high_strip _ i3
            rw [List.take_append_drop]
            exact JStrBody.char c w h1 h2 h3 hw
          rw [hd]
          have hl : ((c :: w).drop sz).length ≤ n := by simp only [List.length_drop, List.length_cons]; omega
          have hl2 : ((c :: w).drop sz).length ≤ f := by simp only [List.length_drop, List.length_cons]; omega
          exact parseStringBody_complete n _ hl hj f hl2 rest _
    | esc e w he hw =>
      simp only [List.length_cons] at hn hf
      rw [List.cons_append, List.cons_append, psb_esc_simple f e _ _ he]
      exact parseStringBody_complete n w (by omega) hw f (by omega) rest _
    | uni a b c d w ha hb' hc hd hw =>
      simp only [List.length_cons] at hn hf
      obtain ⟨r, hr⟩ := hex4_complete ha hb' hc hd (w ++ rest)
      have e0 : (0x5C :: 0x75 :: a :: b :: c :: d :: w) ++ rest = 0x5C :: 0x75 :: (a :: b :: c :: d :: (w ++ rest)) := rfl
      rw [e0, psb_uni f _ _ _ r hr]
      have cont : ∀ acc', ∃ out, parseStringBody f (w ++ rest) acc' = some (out, rest) :=
        fun acc' => parseStringBody_complete n w (by omega) hw f (by omega) rest acc'
      unfold uniCont
      split
      · -- a surrogate: look at what follows
        cases hw with
        | close => exact cont _
        | char c' w' g1 g2 g3 hw' =>
          rw [List.cons_append] at cont ⊢
          split
          · rename_i t3 heq; simp at heq; omega
          · exact cont _
        | esc e' w' he' hw' =>
          rw [List.cons_append, List.cons_append] at cont ⊢
          split
          · rename_i t3 heq
            simp at heq
            obtain ⟨rfl, _⟩ := heq
            simp at he'
          · exact cont _
        | uni a2 b2 c2 d2 w2 ha2 hb2 hc2 hd2 hw2 =>
          obtain ⟨r2, hr2⟩ := hex4_complete ha2 hb2 hc2 hd2 (w2 ++ rest)
          have e1 : (0x5C :: 0x75 :: a2 :: b2 :: c2 :: d2 :: w2) ++ rest
              = 0x5C :: 0x75 :: (a2 :: b2 :: c2 :: d2 :: (w2 ++ rest)) := rfl
          rw [e1] at cont ⊢
          simp only [hr2]
          split
          · simp only [List.length_cons] at hn hf
            exact parseStringBody_complete n w2 (by omega) hw2 f (by omega) rest _
          · exact cont _
      · exact cont _

end Jmes.JsonGrammar
