/-
  Helper lemmas for property C04, item 7, the other direction: every JSON text of the grammar of
  `Jmes/Spec/Lexical.lean` is accepted by the decoder of `Model/Json.lean`.

  * `parseStringBody_complete` (strings; strong induction on the length, the decoder reads whole runes and surrogate
    pairs where the grammar reads bytes and single `\uXXXX` escapes),
  * `parseNumberTok_complete'` (numbers followed by a delimiter),
  * `completeAt` (values / elements / members, strong induction on the length with explicit fuel and depth budgets),
  * `decode_complete : JsonText s → s.length ≤ maxDepth → (Json.decode s).isSome`, `decode_isSome_iff`.
-/
import Jmes.Proofs.JsonGrammar
namespace Jmes.JsonGrammar
open Jmes Jmes.Utf8 Jmes.Lexical Jmes.Json Jmes.Literals
set_option linter.unusedSimpArgs false

/-! ## Completeness of the decoder -/

/-! ### strings -/

theorem jstr_high_strip : ∀ (cs : Bytes) {w : Bytes}, (∀ b ∈ cs, 0x80 ≤ b) → JStrBody (cs ++ w) → JStrBody w
  | [], _, _, h => h
  | c :: cs, w, hc, h => by
    have hc0 := hc c (by simp)
    rw [List.cons_append] at h
    generalize hl : c :: (cs ++ w) = l at h
    cases h with
    | close => simp at hl; omega
    | char c' w' _ _ _ h' =>
      simp at hl
      obtain ⟨rfl, rfl⟩ := hl
      exact jstr_high_strip cs (fun b hb => hc b (by simp [hb])) h'
    | esc => simp at hl; omega
    | uni => simp at hl; omega

theorem jstr_last {b : Bytes} (h : JStrBody b) : ∃ b', b = b' ++ [0x22] := by
  induction h with
  | close => exact ⟨[], rfl⟩
  | char c w _ _ _ _ ih => obtain ⟨b', rfl⟩ := ih; exact ⟨c :: b', rfl⟩
  | esc e w _ _ ih => obtain ⟨b', rfl⟩ := ih; exact ⟨0x5C :: e :: b', rfl⟩
  | uni a b c d w _ _ _ _ _ ih => obtain ⟨b', rfl⟩ := ih; exact ⟨0x5C :: 0x75 :: a :: b :: c :: d :: b', rfl⟩

theorem isHex_hexVal {b : Nat} (h : isHexB b = true) : ∃ v, hexVal b = some v := by
  simp only [isHexB, Bool.or_eq_true, Bool.and_eq_true, decide_eq_true_eq] at h
  unfold hexVal
  split
  · exact ⟨_, rfl⟩
  · split
    · exact ⟨_, rfl⟩
    · split
      · exact ⟨_, rfl⟩
      · omega

theorem hex4_complete {a b c d : Nat} (ha : isHexB a = true) (hb : isHexB b = true) (hc : isHexB c = true)
    (hd : isHexB d = true) (t : Bytes) : ∃ r, hex4 (a :: b :: c :: d :: t) = some (r, t) := by
  obtain ⟨va, ha⟩ := isHex_hexVal ha
  obtain ⟨vb, hb⟩ := isHex_hexVal hb
  obtain ⟨vc, hc⟩ := isHex_hexVal hc
  obtain ⟨vd, hd⟩ := isHex_hexVal hd
  exact ⟨((va * 16 + vb) * 16 + vc) * 16 + vd, by simp [hex4, ha, hb, hc, hd]⟩

/-- the multi-byte rune the decoder reads at a high byte lies inside the string body -/
theorem rune_inside {c : Nat} {w rest : Bytes} (hc : ¬ c < 0x80) (hw : JStrBody (c :: w))
    (hv : ¬ ((decodeRune (c :: (w ++ rest))).1 = RuneError ∧ (decodeRune (c :: (w ++ rest))).2 = 1)) :
    (decodeRune (c :: (w ++ rest))).2 ≤ (c :: w).length ∧ 1 ≤ (decodeRune (c :: (w ++ rest))).2 ∧
    ∀ x ∈ (c :: w).take (decodeRune (c :: (w ++ rest))).2, 0x80 ≤ x := by
  have hhigh := rune_bytes_high hc hv
  obtain ⟨h1, h2, h3⟩ := decodeRune_valid (c :: (w ++ rest)) (by simp) hv
  have hpos : 1 ≤ (decodeRune (c :: (w ++ rest))).2 := by rw [h3]; exact encodeRune_length_pos _
  generalize (decodeRune (c :: (w ++ rest))).2 = sz at *
  obtain ⟨b', hb'⟩ := jstr_last hw
  have hle : sz ≤ (c :: w).length := by
    apply Nat.le_of_not_lt
    intro hlt
    have hmem : (0x22 : Nat) ∈ (c :: (w ++ rest)).take sz := by
      rw [← List.cons_append, hb']
      rw [hb'] at hlt
      have : sz = (b' ++ [0x22]).length + (sz - (b' ++ [0x22]).length) := by omega
      rw [this, List.take_length_add_append]
      simp
    have := hhigh _ hmem
    omega
  refine ⟨hle, hpos, ?_⟩
  intro x hx
  apply hhigh
  have : (c :: (w ++ rest)).take sz = (c :: w).take sz := by
    rw [← List.cons_append, List.take_append_of_le_length hle]
  rw [this]; exact hx


theorem psb_high (f c : Nat) (t acc : Bytes) (h1 : ¬ c < 0x80) :
    parseStringBody (f + 1) (c :: t) acc =
      if (decodeRune (c :: t)).1 = RuneError ∧ (decodeRune (c :: t)).2 = 1 then
        parseStringBody f t (acc ++ encodeRune RuneError)
      else parseStringBody f ((c :: t).drop (decodeRune (c :: t)).2) (acc ++ (c :: t).take (decodeRune (c :: t)).2) := by
  have a1 : ¬ c = 0x22 := by omega
  have a2 : ¬ c < 0x20 := by omega
  have a3 : ¬ c = 0x5C := by omega
  simp only [parseStringBody, a1, a2, a3, h1, if_false]

/-- the byte a two-character escape stands for -/
def escByte (e : Nat) : Nat :=
  if e = 0x62 then 0x08 else if e = 0x66 then 0x0C else if e = 0x6E then 0x0A else if e = 0x72 then 0x0D
  else if e = 0x74 then 0x09 else e

theorem psb_esc_simple (f e : Nat) (t acc : Bytes) (he : e ∈ [0x22, 0x5C, 0x2F, 0x62, 0x66, 0x6E, 0x72, 0x74]) :
    parseStringBody (f + 1) (0x5C :: e :: t) acc = parseStringBody f t (acc ++ [escByte e]) := by
  simp at he
  rcases he with rfl | rfl | rfl | rfl | rfl | rfl | rfl | rfl <;> simp [parseStringBody, escByte]

/-- what the decoder does after `\uXXXX` with value `r` -/
def uniCont (f r : Nat) (t' acc : Bytes) : Option (Bytes × Bytes) :=
  if isSurrogate r then
    match t' with
    | 0x5C :: 0x75 :: t3 =>
      (match hex4 t3 with
       | some (r2, t4) =>
         if utf16Decode r r2 ≠ RuneError then parseStringBody f t4 (acc ++ encodeRune (utf16Decode r r2))
         else parseStringBody f t' (acc ++ encodeRune RuneError)
       | none => none)
    | _ => parseStringBody f t' (acc ++ encodeRune RuneError)
  else parseStringBody f t' (acc ++ encodeRune r)

theorem psb_uni (f : Nat) (t t' acc : Bytes) (r : Nat) (h : hex4 t = some (r, t')) :
    parseStringBody (f + 1) (0x5C :: 0x75 :: t) acc = uniCont f r t' acc := by
  simp only [parseStringBody, h, uniCont]
  rfl


theorem jstr_length_pos {b : Bytes} (h : JStrBody b) : 0 < b.length := by
  cases h <;> simp

theorem parseStringBody_complete : ∀ (n : Nat) (b : Bytes), b.length ≤ n → JStrBody b →
    ∀ (fuel : Nat), b.length ≤ fuel → ∀ (rest acc : Bytes),
      ∃ out, parseStringBody fuel (b ++ rest) acc = some (out, rest)
  | 0, b, hn, hb => by have := jstr_length_pos hb; omega
  | n + 1, b, hn, hb => by
    intro fuel hf rest acc
    have hpos := jstr_length_pos hb
    obtain ⟨f, rfl⟩ : ∃ f, fuel = f + 1 := ⟨fuel - 1, by omega⟩
    cases hb with
    | close => exact ⟨acc, by simp [parseStringBody]⟩
    | char c w h1 h2 h3 hw =>
      simp only [List.length_cons] at hn hf
      rw [List.cons_append]
      by_cases hlo : c < 0x80
      · rw [psb_ascii f c h1 hlo h2 h3]
        exact parseStringBody_complete n w (by omega) hw f (by omega) rest _
      · rw [psb_high f c _ _ hlo]
        split
        · exact parseStringBody_complete n w (by omega) hw f (by omega) rest _
        · rename_i hv
          obtain ⟨i1, i2, i3⟩ := rune_inside hlo (JStrBody.char c w h1 h2 h3 hw) hv
          generalize (decodeRune (c :: (w ++ rest))).2 = sz at *
          have hd : (c :: (w ++ rest)).drop sz = (c :: w).drop sz ++ rest := by
            rw [← List.cons_append, List.drop_append_of_le_length i1]
          have hj : JStrBody ((c :: w).drop sz) := by
            apply jstr_high_strip _ i3
            rw [List.take_append_drop]
            exact JStrBody.char c w h1 h2 h3 hw
          rw [hd]
          have hl : ((c :: w).drop sz).length ≤ n := by simp only [List.length_drop, List.length_cons]; omega
          have hl2 : ((c :: w).drop sz).length ≤ f := by simp only [List.length_drop, List.length_cons]; omega
          exact parseStringBody_complete n _ hl hj f hl2 rest _
    | esc e w he hw =>
      simp only [List.length_cons] at hn hf
      rw [List.cons_append, List.cons_append, psb_esc_simple f e _ _ he]
      exact parseStringBody_complete n w (by omega) hw f (by omega) rest _
    | uni a b c d w ha hb' hc hd hw =>
      simp only [List.length_cons] at hn hf
      obtain ⟨r, hr⟩ := hex4_complete ha hb' hc hd (w ++ rest)
      have e0 : (0x5C :: 0x75 :: a :: b :: c :: d :: w) ++ rest = 0x5C :: 0x75 :: (a :: b :: c :: d :: (w ++ rest)) := rfl
      rw [e0, psb_uni f _ _ _ r hr]
      have cont : ∀ acc', ∃ out, parseStringBody f (w ++ rest) acc' = some (out, rest) :=
        fun acc' => parseStringBody_complete n w (by omega) hw f (by omega) rest acc'
      unfold uniCont
      split
      · -- a surrogate: look at what follows
        cases hw with
        | close => exact cont _
        | char c' w' g1 g2 g3 hw' =>
          rw [List.cons_append] at cont ⊢
          split
          · rename_i t3 heq; simp at heq; omega
          · exact cont _
        | esc e' w' he' hw' =>
          rw [List.cons_append, List.cons_append] at cont ⊢
          split
          · rename_i t3 heq
            simp at heq
            obtain ⟨rfl, _⟩ := heq
            simp at he'
          · exact cont _
        | uni a2 b2 c2 d2 w2 ha2 hb2 hc2 hd2 hw2 =>
          obtain ⟨r2, hr2⟩ := hex4_complete ha2 hb2 hc2 hd2 (w2 ++ rest)
          have e1 : (0x5C :: 0x75 :: a2 :: b2 :: c2 :: d2 :: w2) ++ rest
              = 0x5C :: 0x75 :: (a2 :: b2 :: c2 :: d2 :: (w2 ++ rest)) := rfl
          rw [e1] at cont ⊢
          simp only [hr2]
          split
          · simp only [List.length_cons] at hn hf
            exact parseStringBody_complete n w2 (by omega) hw2 f (by omega) rest _
          · exact cont _
      · exact cont _


/-! ### numbers followed by something -/

/-- what may follow a number without being absorbed into it -/
def NumDelim (rest : Bytes) : Prop :=
  ∀ b t, rest = b :: t → isDigitB b = false ∧ b ≠ 0x2E ∧ b ≠ 0x65 ∧ b ≠ 0x45

theorem NumDelim.noDigit {rest : Bytes} (h : NumDelim rest) : NoDigitHead rest := fun b t e => (h b t e).1

theorem expPart_complete' {e rest : Bytes} (h : JExp e) (hr : NumDelim rest) : expPart (e ++ rest) = some (e, rest) := by
  rcases h with rfl | ⟨c, sg, ds, rfl, hc, hsg, hds⟩
  · cases rest with
    | nil => rfl
    | cons b t =>
      obtain ⟨_, _, h3, h4⟩ := hr b t rfl
      simp [expPart, h3, h4]
  · obtain ⟨d, t, rfl, hd, ht⟩ := digits_head hds
    have hd' : 0x30 ≤ d ∧ d ≤ 0x39 := by simpa [isDigitB] using hd
    have htd : takeDigits (d :: t ++ rest) = (d :: t, rest) := takeDigits_complete (d :: t) rest hds.2 hr.noDigit
    unfold expPart
    simp only [List.cons_append, hc, if_true]
    rcases hsg with rfl | rfl | rfl
    · simp only [List.nil_append, List.cons_append]
      split
      · rename_i heq; simp at heq; omega
      · rename_i heq; simp at heq; omega
      · simp only [List.cons_append] at htd
        simp [htd]
    · simp only [List.cons_append] at htd
      simp [htd]
    · simp only [List.cons_append] at htd
      simp [htd]

theorem parseNumberTok_complete' {n rest : Bytes} (h : JNumber n) (hr : NumDelim rest) :
    parseNumberTok (n ++ rest) = some (n, rest) := by
  obtain ⟨sg, i, f, e, rfl, hsg, hi, hf, he⟩ := h
  rw [parseNumberTok_stages]
  have hi0 : ∃ d t, i = d :: t ∧ 0x30 ≤ d ∧ d ≤ 0x39 := by
    rcases hi with rfl | ⟨d, ds, rfl, h1, h2, _⟩
    · exact ⟨0x30, [], rfl, by omega, by omega⟩
    · exact ⟨d, ds, rfl, by omega, h2⟩
  have hsign : signPart (sg ++ i ++ f ++ e ++ rest) = (sg, i ++ (f ++ (e ++ rest))) := by
    obtain ⟨d, t, rfl, h1, h2⟩ := hi0
    rcases hsg with rfl | rfl
    · unfold signPart
      simp only [List.nil_append, List.cons_append, List.append_assoc]
      split
      · rename_i heq; simp at heq; omega
      · rfl
    · simp [signPart]
  -- what follows the exponent / the fraction / the integer part does not extend them
  have he_rest : NoDigitHead (e ++ rest) ∧ ∀ t, e ++ rest ≠ 0x2E :: t := by
    rcases he with rfl | ⟨c, sg', ds, rfl, hc, _, _⟩
    · refine ⟨hr.noDigit, ?_⟩
      intro t ht; exact (hr _ _ ht).2.1 rfl
    · refine ⟨?_, ?_⟩
      · intro b t h; simp at h; rcases hc with rfl | rfl <;> (rw [← h.1]; rfl)
      · intro t h; simp at h; rcases hc with rfl | rfl <;> omega
  have hf_rest : NoDigitHead (f ++ (e ++ rest)) := by
    rcases hf with rfl | ⟨ds, rfl, _⟩
    · exact he_rest.1
    · intro b t h; simp at h; rw [← h.1]; rfl
  rw [hsign]
  simp only []
  rw [intPart_complete hi hf_rest]
  simp only []
  rw [fracPart_complete hf he_rest.1 he_rest.2]
  simp only []
  rw [expPart_complete' he hr]


/-! ### values -/

/-- what may follow a value inside a JSON text -/
def Delim (rest : Bytes) : Prop :=
  rest = [] ∨ ∃ c t, rest = c :: t ∧ (isWsB c = true ∨ c = 0x2C ∨ c = 0x5D ∨ c = 0x7D)

theorem Delim.num {rest : Bytes} (h : Delim rest) : NumDelim rest := by
  intro b t e
  rcases h with rfl | ⟨c, t', rfl, hc⟩
  · cases e
  · cases e
    rcases hc with hc | rfl | rfl | rfl
    · simp [isWsB] at hc
      rcases hc with ((rfl | rfl) | rfl) | rfl <;> decide
    all_goals decide

theorem Delim.ws_append {w rest : Bytes} (hw : Ws w) (c : Nat) (hc : c = 0x2C ∨ c = 0x5D ∨ c = 0x7D) :
    Delim (w ++ c :: rest) := by
  cases w with
  | nil => exact Or.inr ⟨c, rest, rfl, Or.inr hc⟩
  | cons b t => exact Or.inr ⟨b, t ++ c :: rest, rfl, Or.inl (hw b (by simp))⟩

theorem skipWs_ws_append : ∀ {w : Bytes} (s : Bytes), Ws w → skipWs (w ++ s) = skipWs s
  | [], _, _ => rfl
  | b :: w, s, hw => by
    have hb : isWs b = true := by rw [isWs_eq]; exact hw b (by simp)
    rw [List.cons_append, skipWs, if_pos hb]
    exact skipWs_ws_append s (fun x hx => hw x (by simp [hx]))

theorem skipWs_cons {c : Nat} (t : Bytes) (hc : isWs c = false) : skipWs (c :: t) = c :: t := by
  simp [skipWs, hc]

theorem parseValue_ws {w : Bytes} (hw : Ws w) (f d : Nat) (s : Bytes) :
    parseValue (f + 1) d (w ++ s) = parseValue (f + 1) d s := by
  rw [parseValue, parseValue, skipWs_ws_append s hw]

theorem parseValue_null (f d : Nat) (rest : Bytes) :
    parseValue (f + 1) d (0x6E :: 0x75 :: 0x6C :: 0x6C :: rest) = some (.null, rest) := by
  simp [parseValue, skipWs, isWs]
theorem parseValue_true (f d : Nat) (rest : Bytes) :
    parseValue (f + 1) d (0x74 :: 0x72 :: 0x75 :: 0x65 :: rest) = some (.bool true, rest) := by
  simp [parseValue, skipWs, isWs]
theorem parseValue_false (f d : Nat) (rest : Bytes) :
    parseValue (f + 1) d (0x66 :: 0x61 :: 0x6C :: 0x73 :: 0x65 :: rest) = some (.bool false, rest) := by
  simp [parseValue, skipWs, isWs]

theorem parseValue_arr (f d : Nat) (t : Bytes) :
    parseValue (f + 1) d (0x5B :: t) =
      if d + 1 > maxDepth then none
      else match skipWs t with
        | 0x5D :: r => some (.arr .plain [], r)
        | _ => (parseElems f (d + 1) t []).map (fun (xs, r) => (Val.arr .plain xs, r)) := by
  simp [parseValue, skipWs, isWs]
  rfl

theorem parseValue_obj (f d : Nat) (t : Bytes) :
    parseValue (f + 1) d (0x7B :: t) =
      if d + 1 > maxDepth then none
      else match skipWs t with
        | 0x7D :: r => some (.obj [], r)
        | _ => (parseMembers f (d + 1) t []).map (fun (kvs, r) => (Val.obj kvs, r)) := by
  simp [parseValue, skipWs, isWs]
  rfl


theorem jnumber_head {n : Bytes} (h : JNumber n) : ∃ b t, n = b :: t ∧ (b = 0x2D ∨ (0x30 ≤ b ∧ b ≤ 0x39)) := by
  obtain ⟨sg, i, f, e, rfl, hsg, hi, _, _⟩ := h
  rcases hsg with rfl | rfl
  · rcases hi with rfl | ⟨d, ds, rfl, h1, h2, _⟩
    · exact ⟨0x30, _, rfl, Or.inr (by omega)⟩
    · exact ⟨d, _, rfl, Or.inr (by omega)⟩
  · exact ⟨0x2D, _, rfl, Or.inl rfl⟩

theorem jvalue_head {p : Bytes} (h : JValue p) :
    ∃ c t, p = c :: t ∧ isWs c = false ∧ c ≠ 0x5D ∧ c ≠ 0x7D := by
  cases h with
  | null => exact ⟨_, _, rfl, by decide, by decide, by decide⟩
  | «true» => exact ⟨_, _, rfl, by decide, by decide, by decide⟩
  | «false» => exact ⟨_, _, rfl, by decide, by decide, by decide⟩
  | num n hn =>
    obtain ⟨b, t, rfl, hb⟩ := jnumber_head hn
    refine ⟨b, t, rfl, ?_, ?_, ?_⟩
    · simp [isWs]; omega
    all_goals omega
  | str b _ => exact ⟨_, _, rfl, by decide, by decide, by decide⟩
  | arrEmpty w _ => exact ⟨_, _, rfl, by decide, by decide, by decide⟩
  | arr es _ => exact ⟨_, _, rfl, by decide, by decide, by decide⟩
  | objEmpty w _ => exact ⟨_, _, rfl, by decide, by decide, by decide⟩
  | obj ms _ => exact ⟨_, _, rfl, by decide, by decide, by decide⟩

theorem jvalue_length_pos {p : Bytes} (h : JValue p) : 0 < p.length := by
  obtain ⟨c, t, rfl, _⟩ := jvalue_head h; simp

/-- the three completeness statements for all texts of length at most `n` -/
structure CompleteAt (n : Nat) : Prop where
  value : ∀ p, p.length ≤ n → JValue p → ∀ fuel depth rest, Delim rest → 2 * p.length + 1 ≤ fuel →
    depth + p.length ≤ maxDepth → ∃ v, parseValue fuel depth (p ++ rest) = some (v, rest)
  elems : ∀ p, p.length ≤ n → JElems p → ∀ fuel depth rest acc, 2 * p.length ≤ fuel →
    depth + p.length ≤ maxDepth → ∃ xs, parseElems fuel depth (p ++ rest) acc = some (xs, rest)
  members : ∀ p, p.length ≤ n → JMembers p → ∀ fuel depth rest acc, 2 * p.length ≤ fuel →
    depth + p.length ≤ maxDepth → ∃ kvs, parseMembers fuel depth (p ++ rest) acc = some (kvs, rest)

theorem skipWs_ws_cons {w : Bytes} (hw : Ws w) (c : Nat) (t : Bytes) (hc : isWs c = false) :
    skipWs (w ++ c :: t) = c :: t := by
  rw [skipWs_ws_append _ hw, skipWs_cons t hc]

theorem completeAt_zero : CompleteAt 0 where
  value := by
    intro p hp h; have := jvalue_length_pos h; omega
  elems := by
    intro p hp h
    cases h <;> simp at hp
  members := by
    intro p hp h
    cases h <;> simp at hp

theorem completeAt_succ (n : Nat) (ih : CompleteAt n) : CompleteAt (n + 1) where
  value := by
    intro p hp h fuel depth rest hrest hfuel hdepth
    obtain ⟨f, rfl⟩ : ∃ f, fuel = f + 1 := ⟨fuel - 1, by omega⟩
    cases h with
    | null => exact ⟨_, parseValue_null f depth rest⟩
    | «true» => exact ⟨_, parseValue_true f depth rest⟩
    | «false» => exact ⟨_, parseValue_false f depth rest⟩
    | num m hm =>
      obtain ⟨b, t, rfl, hb⟩ := jnumber_head hm
      rw [List.cons_append, parseValue_number f depth b _ hb, ← List.cons_append,
        parseNumberTok_complete' hm hrest.num]
      exact ⟨_, rfl⟩
    | str b hb =>
      rw [List.cons_append, parseValue_string]
      obtain ⟨out, ho⟩ := parseStringBody_complete b.length b (Nat.le_refl _) hb ((b ++ rest).length + 1)
        (by simp; omega) rest []
      rw [ho]
      exact ⟨_, rfl⟩
    | arrEmpty w hw =>
      simp only [List.length_cons, List.length_append, List.length_nil] at hdepth
      rw [List.cons_append, parseValue_arr, if_neg (by omega), List.append_assoc]
      have : skipWs (w ++ ([0x5D] ++ rest)) = 0x5D :: rest := skipWs_ws_cons hw 0x5D rest (by decide)
      rw [this]
      exact ⟨_, rfl⟩
    | arr es hes =>
      simp only [List.length_cons] at hdepth hp hfuel
      rw [List.cons_append, parseValue_arr, if_neg (by have := hdepth; omega)]
      obtain ⟨xs, hxs⟩ := ih.elems es (by omega) hes f (depth + 1) rest [] (by omega) (by omega)
      have hne : ∀ r, skipWs (es ++ rest) ≠ 0x5D :: r := by
        intro r
        cases hes with
        | last w1 v w2 hw1 hv hw2 =>
          obtain ⟨c, t, rfl, hc1, hc2, _⟩ := jvalue_head hv
          simp only [List.append_assoc, List.cons_append]
          rw [skipWs_ws_cons hw1 c _ hc1]
          intro h; simp at h; omega
        | cons w1 v w2 q hw1 hv hw2 hq =>
          obtain ⟨c, t, rfl, hc1, hc2, _⟩ := jvalue_head hv
          simp only [List.append_assoc, List.cons_append]
          rw [skipWs_ws_cons hw1 c _ hc1]
          intro h; simp at h; omega
      split
      · rename_i r heq; exact absurd heq (hne r)
      · rw [hxs]; exact ⟨_, rfl⟩
    | objEmpty w hw =>
      simp only [List.length_cons, List.length_append, List.length_nil] at hdepth
      rw [List.cons_append, parseValue_obj, if_neg (by omega), List.append_assoc]
      have : skipWs (w ++ ([0x7D] ++ rest)) = 0x7D :: rest := skipWs_ws_cons hw 0x7D rest (by decide)
      rw [this]
      exact ⟨_, rfl⟩
    | obj ms hms =>
      simp only [List.length_cons] at hdepth hp hfuel
      rw [List.cons_append, parseValue_obj, if_neg (by have := hdepth; omega)]
      obtain ⟨xs, hxs⟩ := ih.members ms (by omega) hms f (depth + 1) rest [] (by omega) (by omega)
      have hne : ∀ r, skipWs (ms ++ rest) ≠ 0x7D :: r := by
        intro r
        cases hms with
        | last w1 k w2 w3 v w4 hw1 hk hw2 hw3 hv hw4 =>
          simp only [List.append_assoc, List.cons_append]
          rw [skipWs_ws_cons hw1 0x22 _ (by decide)]
          intro h; simp at h
        | cons w1 k w2 w3 v w4 q hw1 hk hw2 hw3 hv hw4 hq =>
          simp only [List.append_assoc, List.cons_append]
          rw [skipWs_ws_cons hw1 0x22 _ (by decide)]
          intro h; simp at h
      split
      · rename_i r heq; exact absurd heq (hne r)
      · rw [hxs]; exact ⟨_, rfl⟩
  elems := by
    intro p hp h fuel depth rest acc hfuel hdepth
    cases h with
    | last w1 v w2 hw1 hv hw2 =>
      simp only [List.length_append, List.length_cons, List.length_nil] at hp hfuel hdepth
      have hvpos := jvalue_length_pos hv
      obtain ⟨f, rfl⟩ : ∃ f, fuel = f + 1 := ⟨fuel - 1, by omega⟩
      obtain ⟨g, rfl⟩ : ∃ g, f = g + 1 := ⟨f - 1, by omega⟩
      obtain ⟨val, hval⟩ := ih.value v (by omega) hv (g + 1) depth (w2 ++ 0x5D :: rest)
        (Delim.ws_append hw2 0x5D (Or.inr (Or.inl rfl))) (by omega) (by omega)
      have e : w1 ++ v ++ w2 ++ [0x5D] ++ rest = w1 ++ (v ++ (w2 ++ 0x5D :: rest)) := by simp
      rw [e, parseElems, parseValue_ws hw1, hval]
      simp only []
      rw [skipWs_ws_cons hw2 0x5D rest (by decide)]
      exact ⟨_, rfl⟩
    | cons w1 v w2 q hw1 hv hw2 hq =>
      simp only [List.length_append, List.length_cons] at hp hfuel hdepth
      have hvpos := jvalue_length_pos hv
      obtain ⟨f, rfl⟩ : ∃ f, fuel = f + 1 := ⟨fuel - 1, by omega⟩
      obtain ⟨g, rfl⟩ : ∃ g, f = g + 1 := ⟨f - 1, by omega⟩
      obtain ⟨val, hval⟩ := ih.value v (by omega) hv (g + 1) depth (w2 ++ 0x2C :: (q ++ rest))
        (Delim.ws_append hw2 0x2C (Or.inl rfl)) (by omega) (by omega)
      obtain ⟨xs, hxs⟩ := ih.elems q (by omega) hq (g + 1) depth rest (acc ++ [val]) (by omega) (by omega)
      have e : w1 ++ v ++ w2 ++ 0x2C :: q ++ rest = w1 ++ (v ++ (w2 ++ 0x2C :: (q ++ rest))) := by simp
      rw [e, parseElems, parseValue_ws hw1, hval]
      simp only []
      rw [skipWs_ws_cons hw2 0x2C _ (by decide)]
      exact ⟨_, hxs⟩
  members := by
    intro p hp h fuel depth rest acc hfuel hdepth
    cases h with
    | last w1 k w2 w3 v w4 hw1 hk hw2 hw3 hv hw4 =>
      simp only [List.length_append, List.length_cons, List.length_nil] at hp hfuel hdepth
      have hvpos := jvalue_length_pos hv
      obtain ⟨f, rfl⟩ : ∃ f, fuel = f + 1 := ⟨fuel - 1, by omega⟩
      obtain ⟨g, rfl⟩ : ∃ g, f = g + 1 := ⟨f - 1, by omega⟩
      obtain ⟨val, hval⟩ := ih.value v (by omega) hv (g + 1) depth (w4 ++ 0x7D :: rest)
        (Delim.ws_append hw4 0x7D (Or.inr (Or.inr rfl))) (by omega) (by omega)
      have e : w1 ++ 0x22 :: k ++ w2 ++ 0x3A :: w3 ++ v ++ w4 ++ [0x7D] ++ rest
          = w1 ++ 0x22 :: (k ++ (w2 ++ 0x3A :: (w3 ++ (v ++ (w4 ++ 0x7D :: rest))))) := by simp
      obtain ⟨key, hkey⟩ := parseStringBody_complete k.length k (Nat.le_refl _) hk
        ((k ++ (w2 ++ 0x3A :: (w3 ++ (v ++ (w4 ++ 0x7D :: rest))))).length + 1) (by simp; omega)
        (w2 ++ 0x3A :: (w3 ++ (v ++ (w4 ++ 0x7D :: rest)))) []
      rw [e, parseMembers, skipWs_ws_cons hw1 0x22 _ (by decide)]
      simp only []
      rw [hkey]
      simp only []
      rw [skipWs_ws_cons hw2 0x3A _ (by decide)]
      simp only []
      rw [parseValue_ws hw3, hval]
      simp only []
      rw [skipWs_ws_cons hw4 0x7D rest (by decide)]
      exact ⟨_, rfl⟩
    | cons w1 k w2 w3 v w4 q hw1 hk hw2 hw3 hv hw4 hq =>
      simp only [List.length_append, List.length_cons] at hp hfuel hdepth
      have hvpos := jvalue_length_pos hv
      obtain ⟨f, rfl⟩ : ∃ f, fuel = f + 1 := ⟨fuel - 1, by omega⟩
      obtain ⟨g, rfl⟩ : ∃ g, f = g + 1 := ⟨f - 1, by omega⟩
      obtain ⟨val, hval⟩ := ih.value v (by omega) hv (g + 1) depth (w4 ++ 0x2C :: (q ++ rest))
        (Delim.ws_append hw4 0x2C (Or.inl rfl)) (by omega) (by omega)
      have e : w1 ++ 0x22 :: k ++ w2 ++ 0x3A :: w3 ++ v ++ w4 ++ 0x2C :: q ++ rest
          = w1 ++ 0x22 :: (k ++ (w2 ++ 0x3A :: (w3 ++ (v ++ (w4 ++ 0x2C :: (q ++ rest)))))) := by simp
      obtain ⟨key, hkey⟩ := parseStringBody_complete k.length k (Nat.le_refl _) hk
        ((k ++ (w2 ++ 0x3A :: (w3 ++ (v ++ (w4 ++ 0x2C :: (q ++ rest)))))).length + 1) (by simp; omega)
        (w2 ++ 0x3A :: (w3 ++ (v ++ (w4 ++ 0x2C :: (q ++ rest))))) []
      obtain ⟨xs, hxs⟩ := ih.members q (by omega) hq (g + 1) depth rest (objInsert key val acc) (by omega) (by omega)
      rw [e, parseMembers, skipWs_ws_cons hw1 0x22 _ (by decide)]
      simp only []
      rw [hkey]
      simp only []
      rw [skipWs_ws_cons hw2 0x3A _ (by decide)]
      simp only []
      rw [parseValue_ws hw3, hval]
      simp only []
      rw [skipWs_ws_cons hw4 0x2C _ (by decide)]
      exact ⟨_, hxs⟩

theorem completeAt : ∀ n, CompleteAt n
  | 0 => completeAt_zero
  | n + 1 => completeAt_succ n (completeAt n)


theorem Delim.of_ws {w : Bytes} (hw : Ws w) : Delim w := by
  cases w with
  | nil => exact Or.inl rfl
  | cons b t => exact Or.inr ⟨b, t, rfl, Or.inl (hw b (by simp))⟩

/-- **Completeness of the JSON decoder**: every JSON text (RFC 8259, on bytes) of at most `maxDepth` bytes — hence
    of nesting depth at most `maxDepth` — is accepted. -/
theorem decode_complete {s : Bytes} (h : JsonText s) (hlen : s.length ≤ maxDepth) : (Json.decode s).isSome = true := by
  obtain ⟨w1, v, w2, rfl, hw1, hv, hw2⟩ := h
  simp only [List.length_append] at hlen
  obtain ⟨val, hval⟩ := (completeAt v.length).value v (Nat.le_refl _) hv (2 * (w1 ++ v ++ w2).length + 1 + 1) 0 w2
    (Delim.of_ws hw2) (by simp; omega) (by omega)
  unfold Json.decode
  have e : w1 ++ v ++ w2 = w1 ++ (v ++ w2) := by simp
  rw [show 2 * (w1 ++ v ++ w2).length + 2 = 2 * (w1 ++ v ++ w2).length + 1 + 1 from rfl]
  rw [e] at hval ⊢
  rw [parseValue_ws hw1, hval]
  have : skipWs w2 = [] := by
    have := skipWs_ws_append [] hw2
    rw [List.append_nil] at this
    rw [this]; rfl
  simp [this]

/-- with soundness: on texts of at most `maxDepth` bytes the decoder accepts exactly the JSON texts -/
theorem decode_isSome_iff {s : Bytes} (hlen : s.length ≤ maxDepth) : (Json.decode s).isSome = true ↔ JsonText s := by
  constructor
  · intro h
    cases hd : Json.decode s with
    | none => rw [hd] at h; cases h
    | some v => exact decode_sound hd
  · intro h; exact decode_complete h hlen

end Jmes.JsonGrammar
