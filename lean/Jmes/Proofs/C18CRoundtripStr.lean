/-
  Property C18, third part — strings: what `json.Marshal` writes for a valid UTF-8 string is, between the quotes,
  a string body that DENOTES that string (`C16C.StrDen`): the short escapes, `\u00XX` for the other control
  characters and for `<`, `>`, `&` (Go's HTML escaping), `\u2028` / `\u2029`, everything else raw.
-/
import Jmes.Proofs.C16CDefs
namespace Jmes.C18CR
open Jmes Jmes.Utf8 Jmes.Literals Jmes.C16BL Jmes.C16C

/-- what `appendString` writes for one ASCII byte -/
def escAscii (b : Nat) : Bytes :=
  if b = 0x22 then [0x5C, 0x22]
  else if b = 0x5C then [0x5C, 0x5C]
  else if b = 0x08 then [0x5C, 0x62]
  else if b = 0x0C then [0x5C, 0x66]
  else if b = 0x0A then [0x5C, 0x6E]
  else if b = 0x0D then [0x5C, 0x72]
  else if b = 0x09 then [0x5C, 0x74]
  else if b < 0x20 ∨ b = 0x3C ∨ b = 0x3E ∨ b = 0x26 then Json.u00 b
  else [b]

/-- what `appendString` writes for one scalar value above U+007F -/
def escRune (c : Nat) : Bytes :=
  if c = 0x2028 then [0x5C, 0x75, 0x32, 0x30, 0x32, 0x38]
  else if c = 0x2029 then [0x5C, 0x75, 0x32, 0x30, 0x32, 0x39]
  else encodeRune c

/-- one step of the encoder on an ASCII byte -/
theorem encStringAux_ascii (fuel b : Nat) (t : Bytes) (hb : b < 0x80) :
    Json.encStringAux (fuel + 1) (b :: t) = escAscii b ++ Json.encStringAux fuel t := by
  simp only [Json.encStringAux, hb, if_true, escAscii]

example : Json.encStringAux 2 [0x3C] = escAscii 0x3C ++ Json.encStringAux 1 [] := encStringAux_ascii 1 0x3C [] (by decide)

/-- one step of the encoder on a well-formed multi-byte rune -/
theorem encStringAux_rune (fuel c : Nat) (rest : Bytes) (hs : isScalar c = true) (hc : 0x80 ≤ c) :
    Json.encStringAux (fuel + 1) (encodeRune c ++ rest) = escRune c ++ Json.encStringAux fuel rest := by
  obtain ⟨b0, t, he, _, _⟩ := encodeRune_shape c hs
  have hb0 : 0x80 ≤ b0 := encodeRune_bytes_ge c hc b0 (by rw [he]; exact List.mem_cons_self ..)
  have hd : decodeRune (b0 :: (t ++ rest)) = (c, (encodeRune c).length) := by
    rw [← List.cons_append, ← he]; exact decodeRune_encodeRune c hs rest
  have hlen : (encodeRune c).length ≠ 1 := by
    rcases encodeRune_cases c hs with ⟨h1, _⟩ | ⟨_, _, e⟩ | ⟨_, _, e⟩ | ⟨_, _, e⟩
    · omega
    · rw [e]; simp
    · rw [e]; simp
    · rw [e]; simp
  have hdrop : (b0 :: (t ++ rest)).drop (encodeRune c).length = rest := by
    rw [← List.cons_append, ← he]; exact List.drop_left
  have htake : (b0 :: (t ++ rest)).take (encodeRune c).length = encodeRune c := by
    rw [← List.cons_append, ← he]; exact List.take_left
  have hnb : ¬ b0 < 0x80 := by omega
  rw [he, List.cons_append]
  simp only [Json.encStringAux, hnb, if_false, hd, hlen, and_false, hdrop, htake, escRune]
  by_cases h1 : c = 0x2028
  · simp [h1]
  · by_cases h2 : c = 0x2029
    · simp [h2]
    · simp [h1, h2]

example : Json.encStringAux 1 (encodeRune 0x2028 ++ []) = escRune 0x2028 ++ Json.encStringAux 0 [] :=
  encStringAux_rune 0 0x2028 [] (by decide) (by decide)

/-- the escaped writing of one ASCII byte denotes that byte -/
theorem strDen_escAscii (c : Nat) (hc : c < 0x80) {s w : Bytes} (ih : StrDen s w) :
    StrDen (c :: s) (escAscii c ++ w) := by
  unfold escAscii
  by_cases h1 : c = 0x22
  · subst h1; exact StrDen.short 0x22 0x22 (by decide) ih
  by_cases h2 : c = 0x5C
  · subst h2; exact StrDen.short 0x5C 0x5C (by decide) ih
  by_cases h3 : c = 0x08
  · subst h3; exact StrDen.short 0x62 0x08 (by decide) ih
  by_cases h4 : c = 0x0C
  · subst h4; exact StrDen.short 0x66 0x0C (by decide) ih
  by_cases h5 : c = 0x0A
  · subst h5; exact StrDen.short 0x6E 0x0A (by decide) ih
  by_cases h6 : c = 0x0D
  · subst h6; exact StrDen.short 0x72 0x0D (by decide) ih
  by_cases h7 : c = 0x09
  · subst h7; exact StrDen.short 0x74 0x09 (by decide) ih
  simp only [h1, h2, h3, h4, h5, h6, h7, if_false]
  by_cases h8 : c < 0x20 ∨ c = 0x3C ∨ c = 0x3E ∨ c = 0x26
  · simp only [h8, if_true]
    have := StrDen.uni 0x30 0x30 (Json.hexDigit (c / 16)) (Json.hexDigit (c % 16)) c
      (hex4_u00 c (by omega) []) (by simp [Json.isSurrogate]; omega) ih
    rw [encodeRune_ascii c hc] at this
    exact this
  · simp only [h8, if_false]
    have := StrDen.raw c (isScalar_ascii c hc) (by omega) h1 h2 ih
    rw [encodeRune_ascii c hc] at this
    exact this

example : StrDen [0x26] (escAscii 0x26 ++ []) := strDen_escAscii 0x26 (by decide) .nil

/-- the writing of one scalar value above U+007F denotes it -/
theorem strDen_escRune (c : Nat) (hs : isScalar c = true) (hc : 0x80 ≤ c) {s w : Bytes} (ih : StrDen s w) :
    StrDen (encodeRune c ++ s) (escRune c ++ w) := by
  unfold escRune
  by_cases h1 : c = 0x2028
  · subst h1
    exact StrDen.uni 0x32 0x30 0x32 0x38 0x2028 (by decide) (by decide) ih
  by_cases h2 : c = 0x2029
  · subst h2
    exact StrDen.uni 0x32 0x30 0x32 0x39 0x2029 (by decide) (by decide) ih
  simp only [h1, h2, if_false]
  exact StrDen.raw c hs (by omega) (by omega) (by omega) ih

example : StrDen (encodeRune 0xE9 ++ []) (escRune 0xE9 ++ []) := strDen_escRune 0xE9 (by decide) (by decide) .nil

/-- the encoder's body for a sequence of scalar values denotes its UTF-8 encoding -/
theorem strDen_encStringAux : ∀ (cs : List Nat), Scalars cs → ∀ fuel, cs.length < fuel →
    StrDen (encodeAll cs) (Json.encStringAux fuel (encodeAll cs))
  | [], _, fuel, _ => by
    cases fuel <;> exact StrDen.nil
  | c :: cs, h, fuel, hf => by
    obtain ⟨f, rfl⟩ : ∃ f, fuel = f + 1 := ⟨fuel - 1, by simp at hf; omega⟩
    have ih := strDen_encStringAux cs h.tail f (by simp at hf; omega)
    rw [encodeAll_cons]
    by_cases hc : c < 0x80
    · rw [encodeRune_ascii c hc]
      show StrDen (c :: encodeAll cs) (Json.encStringAux (f + 1) (c :: encodeAll cs))
      rw [encStringAux_ascii f c _ hc]
      exact strDen_escAscii c hc ih
    · rw [encStringAux_rune f c _ h.head (by omega)]
      exact strDen_escRune c h.head (by omega) ih

/-- **Strings**: for valid UTF-8 `s`, `json.Marshal` writes a quote, a body `w`, a quote, and `w` denotes `s`. -/
theorem encString_den (s : Bytes) (hv : validUTF8 s = true) :
    ∃ w, Json.encString s = 0x22 :: (w ++ [0x22]) ∧ StrDen s w := by
  obtain ⟨cs, hcs, rfl⟩ := (validUTF8_iff s).1 hv
  refine ⟨Json.encStringAux ((encodeAll cs).length + 1) (encodeAll cs), by simp [Json.encString], ?_⟩
  exact strDen_encStringAux cs hcs _ (by have := length_le_encodeAll cs; omega)

/-- `a<é` followed by U+2028 is written `a\u003cé\u2028` -/
example : Json.encString [0x61, 0x3C, 0xC3, 0xA9, 0xE2, 0x80, 0xA8]
    = 0x22 :: ([0x61, 0x5C, 0x75, 0x30, 0x30, 0x33, 0x63, 0xC3, 0xA9, 0x5C, 0x75, 0x32, 0x30, 0x32, 0x38] ++ [0x22]) := by
  decide
example : ∃ w, Json.encString [0x61, 0x3C, 0xC3, 0xA9, 0xE2, 0x80, 0xA8] = 0x22 :: (w ++ [0x22]) ∧
    StrDen [0x61, 0x3C, 0xC3, 0xA9, 0xE2, 0x80, 0xA8] w := encString_den _ (by decide)

/-- the string value itself: the marshalled text of a valid UTF-8 string denotes that string -/
theorem den_encString (n : Nat) (s : Bytes) (hv : validUTF8 s = true) : Den n (Json.encString s) (.str s) := by
  obtain ⟨w, he, hw⟩ := encString_den s hv
  rw [he]; exact Den.str n s w hw

example : Den 0 (Json.encString [0x22]) (.str [0x22]) := den_encString 0 _ (by decide)

/-- invalid UTF-8 is NOT round-tripped: the lone byte 0xFF is written `\ufffd`, which reads back as U+FFFD -/
example : Json.encString [0xFF] = [0x22, 0x5C, 0x75, 0x66, 0x66, 0x66, 0x64, 0x22] := by decide

end Jmes.C18CR
