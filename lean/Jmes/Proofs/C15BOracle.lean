/-
  An ORACLE semantics for property C15: the evaluator of Jmes/Model/Eval.lean with Go's map iteration order made an
  explicit parameter.

  The model (`ieval`) is a function: wherever Go ranges over a map it lists the members in key order, tags the
  resulting array `enum`, answers `.nondet` when a later step depends on that order, and reports *all* the
  categories the first failure could have. `ievalO π` is what one concrete run does:

  * `π : Oracle` assigns to every point of the evaluation (a path in the tree of sub-evaluations) a permutation of
    the members of the object being enumerated (`Oracle.mem`) and of the members of a multi-select hash / `let`
    (`Oracle.outs`). Every sub-evaluation gets its own sub-oracle (`Oracle.sub i`), in particular every element of
    a projection, so two enumerations of the same object at different points may use different orders.
  * arrays produced by enumerating an object (`*` on objects, `keys`, `values`, `items`) are PLAIN arrays in the
    oracle's order; nothing is ever tagged `enum`;
  * there is no `widen`: the members of a hash / `let` are evaluated in the oracle's order and the first failure
    is the outcome; projections stop at their first failing element;
  * everything else is the model's own function (`applyFn`, `applyBinOp`, `index`, `slice`, `flatten`, …), which on
    arrays that are not tagged `enum` never consults an order.
-/
import Jmes.Model.Api
namespace Jmes

/-- the iteration orders of one run -/
structure Oracle where
  /-- order in which the members of an object are visited, at evaluation point `p` -/
  mem : List Nat → List (Bytes × Val) → List (Bytes × Val)
  mem_perm : ∀ p l, (mem p l).Perm l
  /-- order in which the members of a multi-select hash / `let` are evaluated, at evaluation point `p`
      (given as a permutation of the members' outcomes: evaluation has no side effects) -/
  outs : List Nat → List (Bytes × Res Val) → List (Bytes × Res Val)
  outs_perm : ∀ p l, (outs p l).Perm l

namespace Oracle
/-- the oracle of the `i`-th sub-evaluation -/
def sub (π : Oracle) (i : Nat) : Oracle where
  mem := fun p => π.mem (i :: p)
  mem_perm := fun p => π.mem_perm (i :: p)
  outs := fun p => π.outs (i :: p)
  outs_perm := fun p => π.outs_perm (i :: p)
def members (π : Oracle) (kvs : List (Bytes × Val)) : List (Bytes × Val) := π.mem [] kvs
def order (π : Oracle) (os : List (Bytes × Res Val)) : List (Bytes × Res Val) := π.outs [] os
theorem members_perm (π : Oracle) (kvs : List (Bytes × Val)) : (π.members kvs).Perm kvs := π.mem_perm [] kvs
theorem order_perm (π : Oracle) (os : List (Bytes × Res Val)) : (π.order os).Perm os := π.outs_perm [] os
/-- the oracle that always follows the listed (key) order -/
def keyOrder : Oracle where
  mem := fun _ l => l
  mem_perm := fun _ l => List.Perm.refl l
  outs := fun _ l => l
  outs_perm := fun _ l => List.Perm.refl l
end Oracle

/-! ### the loops over array elements, each element with its own sub-oracle (index `i`) -/

def mapPruneO (f : Nat → Val → Res Val) : Nat → List Val → Res (List Val)
  | _, [] => .ok []
  | i, x :: xs => do
    let p ← f i x
    let rest ← mapPruneO f (i + 1) xs
    pure (if p.isNull then rest else p :: rest)

def projectArrayO (f : Nat → Val → Res Val) (v : Val) : Res Val :=
  match v with
  | .arr t xs => do
    let r ← mapPruneO f 0 xs
    pure (.arr t.derived r)
  | _ => .ok .null

def filterLoopO (c : Nat → Val → Res Val) : Nat → List Val → Res (List Val)
  | _, [] => .ok []
  | i, x :: xs => do
    let b ← c i x
    let rest ← filterLoopO c (i + 1) xs
    pure (if isTrue b && !x.isNull then x :: rest else rest)

def filterArrayO (c : Nat → Val → Res Val) (v : Val) : Res Val :=
  match v with
  | .arr t xs => do
    let r ← filterLoopO c 0 xs
    pure (.arr t.derived r)
  | _ => .ok .null

def filterMapPruneO (c f : Nat → Val → Res Val) : Nat → List Val → Res (List Val)
  | _, [] => .ok []
  | i, x :: xs => do
    let b ← c i x
    if isTrue b then
      let p ← f i x
      let rest ← filterMapPruneO c f (i + 1) xs
      pure (if p.isNull then rest else p :: rest)
    else filterMapPruneO c f (i + 1) xs

def filterAndProjectArrayO (c f : Nat → Val → Res Val) (v : Val) : Res Val :=
  match v with
  | .arr t xs => do
    let r ← filterMapPruneO c f 0 xs
    pure (.arr t.derived r)
  | _ => .ok .null

def flattenAndProjectArrayO (f : Nat → Val → Res Val) (v : Val) : Res Val :=
  match v with
  | .arr t xs => do
    let r ← mapPruneO f 0 (flattenForProject xs)
    pure (.arr (flattenTag t xs) r)
  | _ => .ok .null

def mapAllO (f : Nat → Val → Res Val) : Nat → List Val → Res (List Val)
  | _, [] => .ok []
  | i, x :: xs => do
    let p ← f i x
    let rest ← mapAllO f (i + 1) xs
    pure (p :: rest)

def mapArrayO (f : Nat → Val → Res Val) (v : Val) : Res Val :=
  match v with
  | .arr t xs => do
    let r ← mapAllO f 0 xs
    pure (.arr t.derived r)
  | _ => errType

def keysFromO (f : Nat → Val → Res Val) (isStr : Bool) : Nat → List Val → Res (List Key)
  | _, [] => .ok []
  | i, x :: xs => do
    let rv ← f i x
    let k ← (if isStr then
        (match rv with
          | .str s => (.ok (Key.s s) : Res Key)
          | _ => errType)
      else
        (match toDecimal rv with
          | some d => .ok (Key.n d)
          | none => errType))
    let rest ← keysFromO f isStr (i + 1) xs
    pure (k :: rest)

def keysOfO (f : Nat → Val → Res Val) : List Val → Res (List Key)
  | [] => .ok []
  | x :: xs => do
    let first ← f 0 x
    match first with
    | .str s => do
      let rest ← keysFromO f true 1 xs
      pure (Key.s s :: rest)
    | _ =>
      match toDecimal first with
      | none => errType
      | some d => do
        let rest ← keysFromO f false 1 xs
        pure (Key.n d :: rest)

/-- `max_by` / `min_by` of one run: the scan in the array's actual order -/
def arrayPickByO (better : Key → Key → Bool) (f : Nat → Val → Res Val) (v : Val) : Res Val :=
  match v with
  | .arr _ xs =>
    match xs with
    | [] => .ok .null
    | x0 :: rest => do
      let ks ← keysOfO f (x0 :: rest)
      match ks with
      | [] => .ok .null
      | k0 :: krest => .ok (pickBy better x0 k0 (rest.zip krest))
  | _ => errType

/-- `sort_by` of one run: the stable sort of the array in its actual order -/
def sortArrayByO (f : Nat → Val → Res Val) (v : Val) : Res Val :=
  match v with
  | .arr _ xs =>
    if xs.isEmpty then .ok v
    else do
      let ks ← keysOfO f xs
      .ok (.arr .plain (sortByKeys xs ks))
  | _ => errType

def groupLoopO (f : Nat → Val → Res Val) : Nat → List Val → List (Bytes × List Val) → Res (List (Bytes × List Val))
  | _, [], acc => .ok acc
  | i, v :: rest, acc => do
    let rv ← f i v
    match rv with
    | .str s => groupLoopO f (i + 1) rest (groupInsert s v acc)
    | _ => errType

def groupByO (f : Nat → Val → Res Val) (v : Val) : Res Val :=
  match v with
  | .arr t xs =>
    if xs.isEmpty then .ok .null
    else do
      let gs ← groupLoopO f 0 xs []
      pure (.obj (gs.map (fun kg => (kg.1, Val.arr t.derived kg.2))))
  | _ => errType

/-! ### enumerating the members of an object in the oracle's order: plain arrays -/

def objectValuesO (π : Oracle) (v : Val) : Val :=
  match v with
  | .obj kvs => .arr .plain (((π.members kvs).map Prod.snd).filter (fun x => !x.isNull))
  | _ => .null

def projectObjectO (π : Oracle) (f : Nat → Val → Res Val) (v : Val) : Res Val :=
  match v with
  | .obj kvs => do
    let r ← mapPruneO f 0 ((π.members kvs).map Prod.snd)
    pure (.arr .plain r)
  | _ => .ok .null

def valuesO (π : Oracle) (v : Val) : Res Val :=
  match v with
  | .obj kvs => .ok (.arr .plain ((π.members kvs).map Prod.snd))
  | _ => errType

def keysO (π : Oracle) (v : Val) : Res Val :=
  match v with
  | .obj kvs => .ok (.arr .plain ((π.members kvs).map (fun kv => Val.str kv.1)))
  | _ => errType

def itemsO (π : Oracle) (v : Val) : Res Val :=
  match v with
  | .obj kvs => .ok (.arr .plain ((π.members kvs).map (fun kv => Val.arr .plain [Val.str kv.1, kv.2])))
  | _ => errType

/-- the eager builtins: the model's functions, except the three that range over a map -/
def applyFnO (π : Oracle) (f : Fn) (args : List Val) : Res Val :=
  match f, args with
  | .keys, [a] => keysO π a
  | .values, [a] => valuesO π a
  | .items, [a] => itemsO π a
  | f, args => applyFn f args

/-- Go's loop over the members of a multi-select hash / `let`, given their outcomes in the order of this run:
    store each value under its key, stop at the first failure -/
def firstFailure : List (Bytes × Res Val) → List (Bytes × Val) → Res (List (Bytes × Val))
  | [], acc => .ok acc
  | (k, r) :: rest, acc => do
    let v ← r
    firstFailure rest (objInsert k v acc)

mutual
/-- `evaluator.evaluate(node, current, variables)` in the run described by `π` -/
def ievalO (π : Oracle) (root : Val) : INode → Val → Env → Res Val
  | .lit v, _, _ => .ok v
  | .current, cur, _ => .ok cur
  | .root, _, _ => .ok root
  | .field k, cur, _ => .ok (field k cur)
  | .variable name, _, env =>
    (match env.get name with
     | some v => .ok v
     | none => .err [Cat.undefinedVariable])
  | .binop op l r, cur, env => do
    let a ← ievalO (π.sub 0) root l cur env
    let b ← ievalO (π.sub 1) root r cur env
    applyBinOp op a b
  | .and l r, cur, env => do
    let a ← ievalO (π.sub 0) root l cur env
    if !isTrue a then pure a else ievalO (π.sub 1) root r cur env
  | .or l r, cur, env => do
    let a ← ievalO (π.sub 0) root l cur env
    if isTrue a then pure a else ievalO (π.sub 1) root r cur env
  | .not c, cur, env => do
    let a ← ievalO (π.sub 0) root c cur env
    pure (.bool (!isTrue a))
  | .negate c, cur, env => do
    let a ← ievalO (π.sub 0) root c cur env
    pure (negateVal a)
  | .assertNumber c, cur, env => do
    let a ← ievalO (π.sub 0) root c cur env
    pure (if isNumber a then a else .null)
  | .call f args, cur, env => do
    let vs ← ievalListO (π.sub 0) root args cur env
    applyFnO (π.sub 1) f vs
  | .defineVariables vars child, cur, env => do
    let bs ← firstFailure ((π.sub 0).order (ievalMembersO (π.sub 1) root vars cur env)) []
    ievalO (π.sub 2) root child cur (bs ++ env)
  | .filter c f, cur, env => do
    let a ← ievalO (π.sub 0) root c cur env
    filterArrayO (fun i v => ievalO (π.sub (i + 1)) root f v env) a
  | .filterCurrent f, cur, env => filterArrayO (fun i v => ievalO (π.sub (i + 1)) root f v env) cur
  | .filterAndProject l f r, cur, env => do
    let a ← ievalO (π.sub 0) root l cur env
    filterAndProjectArrayO (fun i v => ievalO ((π.sub 1).sub i) root f v env)
      (fun i v => ievalO ((π.sub 2).sub i) root r v env) a
  | .filterAndProjectCurrent f c, cur, env =>
    filterAndProjectArrayO (fun i v => ievalO ((π.sub 1).sub i) root f v env)
      (fun i v => ievalO ((π.sub 2).sub i) root c v env) cur
  | .flatten c, cur, env => do
    let a ← ievalO (π.sub 0) root c cur env
    pure (flatten a)
  | .flattenCurrent, cur, _ => .ok (flatten cur)
  | .flattenAndProject l r, cur, env => do
    let a ← ievalO (π.sub 0) root l cur env
    flattenAndProjectArrayO (fun i v => ievalO (π.sub (i + 1)) root r v env) a
  | .flattenAndProjectCurrent c, cur, env =>
    flattenAndProjectArrayO (fun i v => ievalO (π.sub (i + 1)) root c v env) cur
  | .index c i, cur, env => do
    let a ← ievalO (π.sub 0) root c cur env
    index a i
  | .indexCurrent i, cur, _ => index cur i
  | .smallIndexCurrent i, cur, _ => index cur i
  | .objectValues c, cur, env => do
    let a ← ievalO (π.sub 0) root c cur env
    pure (objectValuesO (π.sub 1) a)
  | .objectValuesCurrent, cur, _ => .ok (objectValuesO (π.sub 1) cur)
  | .pipe l r, cur, env => do
    let a ← ievalO (π.sub 0) root l cur env
    ievalO (π.sub 1) root r a env
  | .projectArray l r, cur, env => do
    let a ← ievalO (π.sub 0) root l cur env
    match a with
    | .str _ =>
      if l.isSlice then ievalO (π.sub 1) root r a env
      else projectArrayO (fun i v => ievalO (π.sub (i + 1)) root r v env) a
    | _ => projectArrayO (fun i v => ievalO (π.sub (i + 1)) root r v env) a
  | .projectArrayCurrent c, cur, env => projectArrayO (fun i v => ievalO (π.sub (i + 1)) root c v env) cur
  | .projectObject l r, cur, env => do
    let a ← ievalO (π.sub 0) root l cur env
    projectObjectO (π.sub 1) (fun i v => ievalO (π.sub (i + 2)) root r v env) a
  | .projectObjectCurrent c, cur, env =>
    projectObjectO (π.sub 1) (fun i v => ievalO (π.sub (i + 2)) root c v env) cur
  | .pruneArray c, cur, env => do
    let a ← ievalO (π.sub 0) root c cur env
    pure (pruneArray a)
  | .pruneArrayCurrent, cur, _ => .ok (pruneArray cur)
  | .selectArray c fs, cur, env => do
    let a ← ievalO (π.sub 0) root c cur env
    if a.isNull then pure .null
    else do
      let vs ← ievalListO (π.sub 1) root fs a env
      pure (.arr .plain vs)
  | .selectArrayCurrent fs, cur, env =>
    if cur.isNull then .ok .null
    else do
      let vs ← ievalListO (π.sub 1) root fs cur env
      pure (.arr .plain vs)
  | .selectArraySingle c f, cur, env => do
    let a ← ievalO (π.sub 0) root c cur env
    if a.isNull then pure .null
    else do
      let v ← ievalO (π.sub 1) root f a env
      pure (.arr .plain [v])
  | .selectArraySingleCurrent f, cur, env => do
    let v ← ievalO (π.sub 1) root f cur env
    pure (.arr .plain [v])
  | .selectObject c fs, cur, env => do
    let a ← ievalO (π.sub 0) root c cur env
    if a.isNull then pure .null
    else do
      let kvs ← firstFailure ((π.sub 1).order (ievalMembersO (π.sub 2) root fs a env)) []
      pure (.obj kvs)
  | .selectObjectCurrent fs, cur, env =>
    if cur.isNull then .ok .null
    else do
      let kvs ← firstFailure ((π.sub 1).order (ievalMembersO (π.sub 2) root fs cur env)) []
      pure (.obj kvs)
  | .selectObjectSingle c k f, cur, env => do
    let a ← ievalO (π.sub 0) root c cur env
    if a.isNull then pure .null
    else do
      let v ← ievalO (π.sub 1) root f a env
      pure (.obj [(k, v)])
  | .selectObjectSingleCurrent k f, cur, env => do
    let v ← ievalO (π.sub 1) root f cur env
    pure (.obj [(k, v)])
  | .slice c a b, cur, env => do
    let v ← ievalO (π.sub 0) root c cur env
    slice v a b
  | .sliceCurrent a b, cur, _ => slice cur a b
  | .sliceStep c a b s, cur, env => do
    let v ← ievalO (π.sub 0) root c cur env
    sliceStep v a b s
  | .sliceStepCurrent a b s, cur, _ => sliceStep cur a b s
  | .groupBy a e, cur, env => do
    let v ← ievalO (π.sub 0) root a cur env
    groupByO (fun i x => ievalO (π.sub (i + 1)) root e x env) v
  | .map e a, cur, env => do
    let v ← ievalO (π.sub 0) root a cur env
    mapArrayO (fun i x => ievalO (π.sub (i + 1)) root e x env) v
  | .maxBy a e, cur, env => do
    let v ← ievalO (π.sub 0) root a cur env
    arrayPickByO Key.gtMax (fun i x => ievalO (π.sub (i + 1)) root e x env) v
  | .minBy a e, cur, env => do
    let v ← ievalO (π.sub 0) root a cur env
    arrayPickByO Key.ltMin (fun i x => ievalO (π.sub (i + 1)) root e x env) v
  | .sortBy a e, cur, env => do
    let v ← ievalO (π.sub 0) root a cur env
    sortArrayByO (fun i x => ievalO (π.sub (i + 1)) root e x env) v
  | .merge args, cur, env => do
    let kvs ← ievalMergeO π root args cur env []
    pure (.obj kvs)
  | .notNull args, cur, env => ievalNotNullO π root args cur env
  | .zip args, cur, env => do
    let vs ← ievalZipO π root args cur env
    let cols ← zipArgs vs
    match cols with
    | [] => pure (.arr .plain [])
    | c :: cs =>
      let count := cs.foldl (fun m x => min m x.length) c.length
      pure (.arr .plain (zipRows count cols))
def ievalListO (π : Oracle) (root : Val) : List INode → Val → Env → Res (List Val)
  | [], _, _ => .ok []
  | n :: ns, cur, env => do
    let v ← ievalO (π.sub 0) root n cur env
    let vs ← ievalListO (π.sub 1) root ns cur env
    pure (v :: vs)
/-- the outcomes of the members of a hash / `let`, in syntactic order (evaluation is pure, so computing all of them
    and then scanning them in the oracle's order is what the Go loop does) -/
def ievalMembersO (π : Oracle) (root : Val) : List (Bytes × INode) → Val → Env → List (Bytes × Res Val)
  | [], _, _ => []
  | (k, n) :: rest, cur, env => (k, ievalO (π.sub 0) root n cur env) :: ievalMembersO (π.sub 1) root rest cur env
def ievalMergeO (π : Oracle) (root : Val) : List INode → Val → Env → List (Bytes × Val) → Res (List (Bytes × Val))
  | [], _, _, acc => .ok acc
  | n :: ns, cur, env, acc => do
    let v ← ievalO (π.sub 0) root n cur env
    match v with
    | .obj kvs => ievalMergeO (π.sub 1) root ns cur env (kvs.foldl (fun a kv => objInsert kv.1 kv.2 a) acc)
    | _ => errType
def ievalNotNullO (π : Oracle) (root : Val) : List INode → Val → Env → Res Val
  | [], _, _ => .ok .null
  | n :: ns, cur, env => do
    let v ← ievalO (π.sub 0) root n cur env
    if v.isNull then ievalNotNullO (π.sub 1) root ns cur env else pure v
def ievalZipO (π : Oracle) (root : Val) : List INode → Val → Env → Res (List Val)
  | [], _, _ => .ok []
  | n :: ns, cur, env => do
    let v ← ievalO (π.sub 0) root n cur env
    match v with
    | .arr _ _ => do
      let vs ← ievalZipO (π.sub 1) root ns cur env
      pure (v :: vs)
    | _ => errType
end

/-- `evaluator.Evaluate(node, data)` in the run described by `π` -/
def evaluateO (π : Oracle) (n : INode) (data : Val) : Res Val := ievalO π data n data []

end Jmes
