/-
  C02E — a DECLARATIVE specification of the builtin `replace` (Go: `strings.Replace`), and the proof that the model
  (`stringsReplace`, `replace`, `replaceCount` of Jmes/Model/String.lean) satisfies it and that the specification
  determines the result.

  The specification `Replaced s old new n r` speaks only about list concatenation and "`old` occurs at offset `i`":

  * non-empty `old`: there are gaps `g₀ … g_{k-1}` and a `rest` with
        s = g₀ ++ old ++ g₁ ++ old ++ … ++ g_{k-1} ++ old ++ rest
        r = g₀ ++ new ++ g₁ ++ new ++ … ++ g_{k-1} ++ new ++ rest
    such that (leftmost, non-overlapping) inside every `gᵢ ++ old` there is no occurrence of `old` at an offset
    `< gᵢ.length`, and (first `n` occurrences) either `n = some k`, or `k` is below the count (no count: always)
    and `old` does not occur in `rest` at all;
  * empty `old`: with `ps` the code-point pieces of `s` and `k = min n (ps.length + 1)` (no count: `ps.length + 1`),
    `new` is put in front of each of the first `k` pieces, and after the last piece when `k = ps.length + 1`.

  Main results: `stringsReplace_replaced`, `replaced_unique`, `replaced_iff`, `replace_spec`, `replaceCount_spec`,
  and the corollaries `replaced_count_le`, `replaced_no_occ`, `replaced_zero`.
-/
import Jmes.Properties.C02
import Jmes.Properties.C09
import Jmes.Proofs.Utf8

namespace Jmes.C02EReplace
open Jmes

/-! ### vocabulary -/

/-- `old` occurs in `s` at byte offset `i`: `old` is a prefix of what is left of `s` after dropping `i` bytes -/
def OccAt (old s : Bytes) (i : Nat) : Prop := old <+: s.drop i

/-- `old` does not occur in `s` at any offset -/
def NoOcc (old s : Bytes) : Prop := ∀ i, ¬ OccAt old s i

/-- `g₀ ++ m ++ g₁ ++ m ++ … ++ g_{k-1} ++ m ++ rest`: every gap followed by `m`, then `rest` (plain concatenation) -/
def weave (gaps : List Bytes) (m rest : Bytes) : Bytes := (gaps.map (· ++ m)).flatten ++ rest

/-- the decomposition clause for non-empty `old`:
    `s` is the gaps interleaved with `old` followed by `rest`;
    each occurrence used is the leftmost one of what was left (no occurrence of `old` inside `g ++ old` that starts
    before offset `g.length`);
    and either the count is exhausted (`n = some k`, `k` the number of gaps) or the count is not reached and
    `old` no longer occurs in `rest`. -/
structure Decomp (s old : Bytes) (n : Option Nat) (gaps : List Bytes) (rest : Bytes) : Prop where
  split : s = weave gaps old rest
  leftmost : ∀ g ∈ gaps, ∀ i, i < g.length → ¬ OccAt old (g ++ old) i
  count : n = some gaps.length ∨ ((∀ m, n = some m → gaps.length < m) ∧ NoOcc old rest)

/-- `Replaced` for non-empty `old`: some decomposition of `s`, and `r` is the same gaps interleaved with `new` -/
def ReplacedNE (s old new : Bytes) (n : Option Nat) (r : Bytes) : Prop :=
  ∃ gaps rest, Decomp s old n gaps rest ∧ r = weave gaps new rest

/-- number of insertions for empty `old` in a string of `len` code points: `min n (len + 1)`, no count: `len + 1` -/
def emptyCount (n : Option Nat) (len : Nat) : Nat :=
  match n with
  | none => len + 1
  | some m => min m (len + 1)

/-- `new` put in front of each of the first `k` pieces `ps`; after the last piece too when `k = ps.length + 1`
    (`take` saturates, so `ps.take k = ps.take (min k ps.length)`) -/
def insertBefore (ps : List Bytes) (new : Bytes) (k : Nat) : Bytes :=
  ((ps.take k).map (new ++ ·)).flatten ++ (if k = ps.length + 1 then new else (ps.drop k).flatten)

/-- `Replaced` for empty `old`, on the code-point pieces of `s` (whose concatenation is `s`: `runePieces_flatten`) -/
def ReplacedEmpty (s new : Bytes) (n : Option Nat) (r : Bytes) : Prop :=
  r = insertBefore (runePieces s) new (emptyCount n (runePieces s).length)

/-- **the specification of `replace`**: `r` is `s` with the first `n` (all, if `n = none`) leftmost non-overlapping
    occurrences of `old` replaced by `new` -/
def Replaced (s old new : Bytes) (n : Option Nat) (r : Bytes) : Prop :=
  (old = [] → ReplacedEmpty s new n r) ∧ (old ≠ [] → ReplacedNE s old new n r)

/-! ### small facts about the vocabulary -/

theorem weave_nil (m rest : Bytes) : weave [] m rest = rest := by simp [weave]

theorem weave_cons (g : Bytes) (gs : List Bytes) (m rest : Bytes) :
    weave (g :: gs) m rest = g ++ (m ++ weave gs m rest) := by
  simp [weave, List.append_assoc]

theorem occAt_zero (old s : Bytes) : OccAt old s 0 ↔ old <+: s := by simp [OccAt]

theorem occAt_succ (old : Bytes) (b : Nat) (s : Bytes) (i : Nat) : OccAt old (b :: s) (i + 1) ↔ OccAt old s i := by
  simp [OccAt]

/-- an occurrence in `s` is an occurrence in `s ++ t` -/
theorem OccAt.append_right {old s : Bytes} {i : Nat} (h : OccAt old s i) (t : Bytes) : OccAt old (s ++ t) i := by
  unfold OccAt at *
  rw [List.drop_append]
  exact List.IsPrefix.trans h (List.prefix_append _ _)

/-- `old` occurs in `g ++ old ++ t` at offset `g.length` -/
theorem occAt_after (old g t : Bytes) : OccAt old (g ++ (old ++ t)) g.length := by
  unfold OccAt
  rw [List.drop_left]
  exact List.prefix_append _ _

/-- the other usual reading of "occurs at": `s = a ++ old ++ b` with `a` of length `i` (for non-empty `old`) -/
theorem occAt_iff_split (old s : Bytes) (i : Nat) (hne : old ≠ []) :
    OccAt old s i ↔ ∃ a b, s = a ++ old ++ b ∧ a.length = i := by
  constructor
  · rintro ⟨b, hb⟩
    have hlen : i < s.length := by
      have h1 : (List.drop i s).length = old.length + b.length := by rw [← hb, List.length_append]
      have h2 : 0 < old.length := List.length_pos_iff.mpr hne
      rw [List.length_drop] at h1
      omega
    refine ⟨s.take i, b, ?_, ?_⟩
    · rw [List.append_assoc, hb, List.take_append_drop]
    · rw [List.length_take]; omega
  · rintro ⟨a, b, hs, ha⟩
    subst hs; subst ha
    rw [List.append_assoc]
    exact occAt_after old a b

example : OccAt [0x62, 0x63] [0x61, 0x62, 0x63, 0x61] 1 := ⟨[0x61], rfl⟩
example : ¬ OccAt [0x62, 0x63] [0x61, 0x62, 0x63, 0x61] 2 := by
  unfold OccAt; rw [← List.isPrefixOf_iff_prefix]; decide

/-- nothing non-empty occurs in the empty string -/
theorem noOcc_nil (old : Bytes) (hne : old ≠ []) : NoOcc old [] := by
  intro i h
  unfold OccAt at h
  rw [List.drop_nil] at h
  exact hne (List.prefix_nil.mp h)

/-- `foldr (· ++ ·) []` (the model's concatenation) is `List.flatten` -/
theorem foldr_append_eq_flatten (l : List Bytes) : l.foldr (· ++ ·) [] = l.flatten := by
  induction l with
  | nil => rfl
  | cons a l ih => rw [List.foldr_cons, ih, List.flatten_cons]

/-- the code-point pieces of `s` concatenate to `s` -/
theorem runePieces_flatten (s : Bytes) : (runePieces s).flatten = s := by
  rw [← foldr_append_eq_flatten]
  exact C09.runePiecesAux_join _ s (Nat.le_refl _)

example : runePieces [0x68, 0xC3, 0xA9] = [[0x68], [0xC3, 0xA9]] := by rfl

/-! ### the model satisfies the non-empty clause -/

/-- count 0: nothing is replaced, everything is `rest` -/
theorem decomp_zero (s old : Bytes) : Decomp s old (some 0) [] s :=
  ⟨(weave_nil _ _).symm, (by intro g hg; cases hg), Or.inl rfl⟩

/-- the empty string has no occurrence of a non-empty `old` -/
theorem decomp_nil (old : Bytes) (n : Option Nat) (hne : old ≠ []) (hn : n ≠ some 0) : Decomp [] old n [] [] := by
  refine ⟨(weave_nil _ _).symm, (by intro g hg; cases hg), Or.inr ⟨?_, noOcc_nil old hne⟩⟩
  intro m hm
  cases m with
  | zero => exact absurd hm hn
  | succ m => exact Nat.succ_pos _

/-- the count clause with one more gap in front -/
theorem count_cons {old rest : Bytes} {n : Option Nat} {k : Nat} (hn : n ≠ some 0)
    (h : n.map (· - 1) = some k ∨ ((∀ m, n.map (· - 1) = some m → k < m) ∧ NoOcc old rest)) :
    n = some (k + 1) ∨ ((∀ m, n = some m → k + 1 < m) ∧ NoOcc old rest) := by
  cases n with
  | none =>
    rcases h with h | ⟨_, h2⟩
    · cases h
    · exact Or.inr ⟨(by intro m hm; cases hm), h2⟩
  | some v =>
    have hv : v ≠ 0 := fun h0 => hn (by rw [h0])
    rcases h with h | ⟨h1, h2⟩
    · left
      simp only [Option.map_some, Option.some.injEq] at h
      congr 1; omega
    · right
      refine ⟨?_, h2⟩
      intro m hm
      cases hm
      have := h1 (v - 1) rfl
      omega

/-- … and with the first gap taken away -/
theorem count_tail {old rest : Bytes} {n : Option Nat} {k : Nat}
    (h : n = some (k + 1) ∨ ((∀ m, n = some m → k + 1 < m) ∧ NoOcc old rest)) :
    n ≠ some 0 ∧ (n.map (· - 1) = some k ∨ ((∀ m, n.map (· - 1) = some m → k < m) ∧ NoOcc old rest)) := by
  cases n with
  | none =>
    refine ⟨(by intro h0; cases h0), ?_⟩
    rcases h with h | ⟨_, h2⟩
    · cases h
    · exact Or.inr ⟨(by intro m hm; cases hm), h2⟩
  | some v =>
    rcases h with h | ⟨h1, h2⟩
    · cases h
      exact ⟨(by intro h0; cases h0), Or.inl rfl⟩
    · have hv := h1 v rfl
      refine ⟨?_, Or.inr ⟨?_, h2⟩⟩
      · intro h0; cases h0; omega
      · intro m hm
        simp only [Option.map_some, Option.some.injEq] at hm
        omega

/-- `old` is a prefix: it is replaced, with an empty gap in front -/
theorem decomp_hit {s' old : Bytes} {n : Option Nat} {gaps : List Bytes} {rest : Bytes}
    (hn : n ≠ some 0) (h : Decomp s' old (n.map (· - 1)) gaps rest) :
    Decomp (old ++ s') old n ([] :: gaps) rest := by
  refine ⟨?_, ?_, ?_⟩
  · rw [weave_cons, List.nil_append, ← h.split]
  · intro g hg i hi
    rcases List.mem_cons.mp hg with rfl | hg
    · exact absurd hi (Nat.not_lt_zero _)
    · exact h.leftmost g hg i hi
  · exact count_cons hn h.count

/-- `old` is not a prefix of `b :: t`: `b` joins the first gap (or `rest`, if there is no gap) -/
theorem decomp_miss {b : Nat} {t old : Bytes} {n : Option Nat} {gaps : List Bytes} {rest : Bytes}
    (hn : n ≠ some 0) (hp : ¬ old <+: b :: t) (h : Decomp t old n gaps rest) :
    ∃ gaps' rest', Decomp (b :: t) old n gaps' rest' ∧ ∀ new, weave gaps' new rest' = b :: weave gaps new rest := by
  cases gaps with
  | nil =>
    have ht : t = rest := by rw [h.split, weave_nil]
    subst ht
    refine ⟨[], b :: t, ⟨(weave_nil _ _).symm, (by intro g hg; cases hg), ?_⟩, by intro new; rw [weave_nil, weave_nil]⟩
    rcases h.count with hc | ⟨h1, h2⟩
    · exact absurd hc hn
    · refine Or.inr ⟨h1, ?_⟩
      intro i hi
      cases i with
      | zero => exact hp ((occAt_zero _ _).mp hi)
      | succ i => exact h2 i ((occAt_succ _ _ _ _).mp hi)
  | cons g gs =>
    refine ⟨(b :: g) :: gs, rest, ⟨?_, ?_, h.count⟩, by intro new; rw [weave_cons, weave_cons, List.cons_append]⟩
    · rw [weave_cons, List.cons_append, ← weave_cons, ← h.split]
    · intro g' hg' i hi
      rcases List.mem_cons.mp hg' with rfl | hg'
      · cases i with
        | zero =>
          intro hocc
          apply hp
          have := (occAt_zero _ _).mp (hocc.append_right (weave gs old rest))
          rw [h.split, weave_cons]
          simpa [List.append_assoc] using this
        | succ i =>
          intro hocc
          rw [List.cons_append, occAt_succ] at hocc
          exact h.leftmost g (List.mem_cons_self) i (by simpa using hi) hocc
      · exact h.leftmost g' (List.mem_cons_of_mem _ hg') i hi

/-- **fuel-independent characterisation of the Go loop**: with enough fuel, `replaceAux` returns the gaps of a
    decomposition of `s` interleaved with `new` -/
theorem replaceAux_decomp (old new : Bytes) (hne : old ≠ []) : ∀ (fuel : Nat) (s : Bytes) (n : Option Nat),
    s.length < fuel → ∃ gaps rest, Decomp s old n gaps rest ∧ replaceAux fuel s old new n = weave gaps new rest := by
  intro fuel
  induction fuel with
  | zero => intro s n h; exact absurd h (Nat.not_lt_zero _)
  | succ fuel ih =>
    intro s n hlen
    by_cases hn : n = some 0
    · subst hn
      exact ⟨[], s, decomp_zero s old, by simp [replaceAux, weave_nil]⟩
    · cases s with
      | nil => exact ⟨[], [], decomp_nil old n hne hn, by simp [replaceAux, weave_nil]⟩
      | cons b t =>
        by_cases hp : old.isPrefixOf (b :: t) = true
        · obtain ⟨s', hs'⟩ := List.isPrefixOf_iff_prefix.mp hp
          have hdrop : (b :: t).drop old.length = s' := by rw [← hs', List.drop_left]
          have hl : s'.length < fuel := by
            have h1 : old.length + s'.length = t.length + 1 := by
              rw [← List.length_append, hs', List.length_cons]
            have h2 : 0 < old.length := List.length_pos_iff.mpr hne
            rw [List.length_cons] at hlen
            omega
          obtain ⟨gaps, rest, hd, hr⟩ := ih s' (n.map (· - 1)) hl
          refine ⟨[] :: gaps, rest, ?_, ?_⟩
          · rw [← hs']; exact decomp_hit hn hd
          · simp only [replaceAux, hn, if_false, hp, if_true]
            rw [hdrop, hr, weave_cons, List.nil_append]
        · have hl : t.length < fuel := by rw [List.length_cons] at hlen; omega
          obtain ⟨gaps, rest, hd, hr⟩ := ih t n hl
          have hp' : ¬ old <+: b :: t := fun h => hp (List.isPrefixOf_iff_prefix.mpr h)
          obtain ⟨gaps', rest', hd', hw⟩ := decomp_miss hn hp' hd
          refine ⟨gaps', rest', hd', ?_⟩
          simp only [replaceAux, hn, if_false, hp, Bool.false_eq_true]
          rw [hr, hw]

/-- the model satisfies the clause for non-empty `old` -/
theorem stringsReplace_replacedNE (s old new : Bytes) (n : Option Nat) (hne : old ≠ []) :
    ReplacedNE s old new n (stringsReplace s old new n) := by
  have he : old.isEmpty = false := by cases old with
    | nil => exact absurd rfl hne
    | cons _ _ => rfl
  obtain ⟨gaps, rest, hd, hr⟩ := replaceAux_decomp old new hne (s.length + 1) s n (Nat.lt_succ_self _)
  refine ⟨gaps, rest, hd, ?_⟩
  unfold stringsReplace
  rw [he]
  exact hr

/-! ### the model satisfies the empty clause -/

theorem emptyCount_zero (len : Nat) : emptyCount (some 0) len = 0 := by simp [emptyCount]

theorem emptyCount_succ (n : Option Nat) (len : Nat) (hn : n ≠ some 0) :
    emptyCount n (len + 1) = emptyCount (n.map (· - 1)) len + 1 := by
  cases n with
  | none => rfl
  | some v =>
    have hv : v ≠ 0 := fun h0 => hn (by rw [h0])
    simp only [emptyCount, Option.map_some]
    omega

/-- the Go loop for empty `old` inserts `new` in front of the first `k` pieces (and at the end if `k` allows) -/
theorem replaceEmptyAux_eq (new : Bytes) : ∀ (ps : List Bytes) (n : Option Nat),
    replaceEmptyAux ps new n = insertBefore ps new (emptyCount n ps.length) := by
  intro ps
  induction ps with
  | nil =>
    intro n
    cases n with
    | none => simp [replaceEmptyAux, insertBefore, emptyCount]
    | some v =>
      cases v with
      | zero => simp [replaceEmptyAux, insertBefore, emptyCount]
      | succ v =>
        have : min (v + 1) (0 + 1) = 1 := by omega
        simp [replaceEmptyAux, insertBefore, emptyCount, this]
  | cons p ps ih =>
    intro n
    by_cases hn : n = some 0
    · subst hn
      simp only [replaceEmptyAux, if_true, emptyCount_zero, insertBefore, List.take_zero, List.map_nil,
        List.flatten_nil, List.nil_append, List.drop_zero, List.flatten_cons, foldr_append_eq_flatten]
      rw [if_neg (by simp)]
    · simp only [replaceEmptyAux, hn, if_false, List.length_cons]
      rw [ih, emptyCount_succ n ps.length hn]
      simp only [insertBefore, List.take_succ_cons, List.map_cons, List.flatten_cons, List.drop_succ_cons,
        List.length_cons, Nat.add_right_cancel_iff, List.append_assoc]

/-- the model satisfies the clause for empty `old` -/
theorem stringsReplace_replacedEmpty (s new : Bytes) (n : Option Nat) :
    ReplacedEmpty s new n (stringsReplace s [] new n) := by
  unfold ReplacedEmpty stringsReplace
  simp only [List.isEmpty_nil, if_true]
  exact replaceEmptyAux_eq new _ n

/-! ### 1. the model satisfies the specification -/

/-- **The model's `strings.Replace` satisfies the declarative specification**, for every subject, pattern,
    replacement and count (absent or not). -/
theorem stringsReplace_replaced (s old new : Bytes) (n : Option Nat) :
    Replaced s old new n (stringsReplace s old new n) :=
  ⟨fun h => by subst h; exact stringsReplace_replacedEmpty s new n,
   fun h => stringsReplace_replacedNE s old new n h⟩

/-- "aaaa" / "aa" → "b": "bb" -/
example : Replaced [0x61, 0x61, 0x61, 0x61] [0x61, 0x61] [0x62] none [0x62, 0x62] :=
  stringsReplace_replaced [0x61, 0x61, 0x61, 0x61] [0x61, 0x61] [0x62] none

/-- the same, with the decomposition written out by hand: two empty gaps, empty rest -/
example : ReplacedNE [0x61, 0x61, 0x61, 0x61] [0x61, 0x61] [0x62] none [0x62, 0x62] := by
  refine ⟨[[], []], [], ⟨rfl, ?_, Or.inr ⟨(by intro m hm; cases hm), noOcc_nil _ (by simp)⟩⟩, rfl⟩
  intro g hg i hi
  simp only [List.mem_cons, List.not_mem_nil, or_false, or_self] at hg
  subst hg
  exact absurd hi (Nat.not_lt_zero _)

/-! ### 2. the specification determines the result -/

/-- a decomposition with at least one gap: the count is not 0, `s` starts with the gap and `old`, no earlier
    occurrence, and the remainder is decomposed by the remaining gaps with the count decreased -/
theorem decomp_cons_inv {s old : Bytes} {n : Option Nat} {g : Bytes} {gs : List Bytes} {rest : Bytes}
    (h : Decomp s old n (g :: gs) rest) :
    n ≠ some 0 ∧ s = g ++ (old ++ weave gs old rest) ∧ (∀ i, i < g.length → ¬ OccAt old (g ++ old) i) ∧
      Decomp (weave gs old rest) old (n.map (· - 1)) gs rest := by
  have hc := count_tail h.count
  refine ⟨hc.1, by rw [h.split, weave_cons], h.leftmost g List.mem_cons_self, rfl, ?_, hc.2⟩
  intro g' hg'
  exact h.leftmost g' (List.mem_cons_of_mem _ hg')

/-- the first gap is forced (it ends at the least offset at which `old` occurs): of two ways of writing a string
    as `gap ++ old ++ tail`, the one whose `gap ++ old` has no earlier occurrence has the shorter gap -/
theorem first_gap_le {old g₁ t₁ g₂ t₂ : Bytes} (he : g₁ ++ (old ++ t₁) = g₂ ++ (old ++ t₂))
    (h₂ : ∀ i, i < g₂.length → ¬ OccAt old (g₂ ++ old) i) : g₂.length ≤ g₁.length := by
  apply Nat.le_of_not_lt
  intro hlt
  apply h₂ g₁.length hlt
  unfold OccAt
  have h1 : List.drop g₁.length (g₂ ++ (old ++ t₂)) = old ++ t₁ := by rw [← he, List.drop_left]
  rw [← List.append_assoc, List.drop_append_of_le_length (by rw [List.length_append]; omega)] at h1
  have hp1 : old <+: List.drop g₁.length (g₂ ++ old) ++ t₂ := by rw [h1]; exact List.prefix_append _ _
  refine List.prefix_of_prefix_length_le hp1 (List.prefix_append _ _) ?_
  rw [List.length_drop, List.length_append]
  omega

/-- **a string has at most one decomposition** (for given non-empty `old` and count) -/
theorem decomp_unique (old : Bytes) : ∀ (gaps₁ : List Bytes) (s : Bytes) (n : Option Nat) (gaps₂ : List Bytes)
    (rest₁ rest₂ : Bytes), Decomp s old n gaps₁ rest₁ → Decomp s old n gaps₂ rest₂ →
    gaps₁ = gaps₂ ∧ rest₁ = rest₂ := by
  intro gaps₁
  induction gaps₁ with
  | nil =>
    intro s n gaps₂ rest₁ rest₂ h₁ h₂
    cases gaps₂ with
    | nil =>
      refine ⟨rfl, ?_⟩
      have e₁ := h₁.split
      have e₂ := h₂.split
      rw [weave_nil] at e₁ e₂
      rw [← e₁, ← e₂]
    | cons g gs =>
      exfalso
      obtain ⟨hn, hs, _, _⟩ := decomp_cons_inv h₂
      rcases h₁.count with hc | ⟨_, hno⟩
      · exact hn hc
      · have e₁ := h₁.split
        rw [weave_nil] at e₁
        subst e₁
        apply hno g.length
        rw [hs]
        exact occAt_after _ _ _
  | cons g₁ gs₁ ih =>
    intro s n gaps₂ rest₁ rest₂ h₁ h₂
    obtain ⟨hn₁, hs₁, hl₁, hd₁⟩ := decomp_cons_inv h₁
    cases gaps₂ with
    | nil =>
      exfalso
      rcases h₂.count with hc | ⟨_, hno⟩
      · exact hn₁ hc
      · have e₂ := h₂.split
        rw [weave_nil] at e₂
        subst e₂
        apply hno g₁.length
        rw [hs₁]
        exact occAt_after _ _ _
    | cons g₂ gs₂ =>
      obtain ⟨_, hs₂, hl₂, hd₂⟩ := decomp_cons_inv h₂
      have he : g₁ ++ (old ++ weave gs₁ old rest₁) = g₂ ++ (old ++ weave gs₂ old rest₂) := by rw [← hs₁, ← hs₂]
      have hlen : g₁.length = g₂.length :=
        Nat.le_antisymm (first_gap_le he.symm hl₁) (first_gap_le he hl₂)
      obtain ⟨hg, htl⟩ := List.append_inj he hlen
      have hw : weave gs₁ old rest₁ = weave gs₂ old rest₂ := List.append_cancel_left htl
      rw [← hw] at hd₂
      obtain ⟨hgs, hrest⟩ := ih _ _ gs₂ rest₁ rest₂ hd₁ hd₂
      exact ⟨by rw [hg, hgs], hrest⟩

/-- **The specification determines the result**: two strings that both satisfy `Replaced s old new n` are equal. -/
theorem replaced_unique {s old new : Bytes} {n : Option Nat} {r₁ r₂ : Bytes}
    (h₁ : Replaced s old new n r₁) (h₂ : Replaced s old new n r₂) : r₁ = r₂ := by
  by_cases he : old = []
  · have e₁ := h₁.1 he
    have e₂ := h₂.1 he
    unfold ReplacedEmpty at e₁ e₂
    rw [e₁, e₂]
  · obtain ⟨gaps₁, rest₁, hd₁, hr₁⟩ := h₁.2 he
    obtain ⟨gaps₂, rest₂, hd₂, hr₂⟩ := h₂.2 he
    obtain ⟨hg, hr⟩ := decomp_unique old gaps₁ s n gaps₂ rest₁ rest₂ hd₁ hd₂
    rw [hr₁, hr₂, hg, hr]

/-- **`Replaced` holds of exactly one string, the one the model computes.** -/
theorem replaced_iff (s old new : Bytes) (n : Option Nat) (r : Bytes) :
    Replaced s old new n r ↔ r = stringsReplace s old new n :=
  ⟨fun h => replaced_unique h (stringsReplace_replaced s old new n),
   fun h => by rw [h]; exact stringsReplace_replaced s old new n⟩

/-- "abcabc" / "bc" → "X", at most once: "aXabc" -/
example : Replaced [0x61, 0x62, 0x63, 0x61, 0x62, 0x63] [0x62, 0x63] [0x58] (some 1) [0x61, 0x58, 0x61, 0x62, 0x63] :=
  (replaced_iff _ _ _ _ _).mpr (by rfl)

/-- overlapping occurrences, "aaa" / "aa" → "b": the leftmost one is taken, "ba" … -/
example : Replaced [0x61, 0x61, 0x61] [0x61, 0x61] [0x62] none [0x62, 0x61] :=
  (replaced_iff _ _ _ _ _).mpr (by rfl)

/-- … and "ab" (replacing the occurrence at offset 1) does NOT satisfy the specification -/
example : ¬ Replaced [0x61, 0x61, 0x61] [0x61, 0x61] [0x62] none [0x61, 0x62] := by
  rw [replaced_iff]; decide

/-- neither does replacing nothing, nor does replacing only once when the count allows two -/
example : ¬ Replaced [0x61, 0x61, 0x61, 0x61] [0x61, 0x61] [0x62] (some 2) [0x62, 0x61, 0x61] := by
  rw [replaced_iff]; decide

/-- empty `old`, "hé" → "-h-é-" (é is one piece of two bytes) -/
example : Replaced [0x68, 0xC3, 0xA9] [] [0x2D] none [0x2D, 0x68, 0x2D, 0xC3, 0xA9, 0x2D] :=
  (replaced_iff _ _ _ _ _).mpr (by rfl)

/-- empty `old` with count 2: "-h-é" -/
example : Replaced [0x68, 0xC3, 0xA9] [] [0x2D] (some 2) [0x2D, 0x68, 0x2D, 0xC3, 0xA9] :=
  (replaced_iff _ _ _ _ _).mpr (by rfl)

/-! ### 3. value level: the builtins `replace(s, old, new)` and `replace(s, old, new, count)` -/

/-- **`replace(s, old, new)`** on three strings returns a string `r`, `r` satisfies the specification with no count,
    and it is the only string that does. -/
theorem replace_spec (s old new : Bytes) :
    ∃ r, replace (.str s) (.str old) (.str new) = .ok (.str r) ∧ Replaced s old new none r ∧
      ∀ r', Replaced s old new none r' → r' = r :=
  ⟨stringsReplace s old new none, rfl, stringsReplace_replaced s old new none,
   fun _ h => (replaced_iff s old new none _).mp h⟩

example : replace (.str [0x61, 0x61, 0x61]) (.str [0x61, 0x61]) (.str [0x62]) = .ok (.str [0x62, 0x61]) := by rfl

/-- **`replace(s, old, new, k)`** with a non-negative integer count returns a string `r`, `r` satisfies the
    specification with count `k`, and it is the only string that does. -/
theorem replaceCount_spec (s old new : Bytes) (k : Nat) :
    ∃ r, replaceCount (.str s) (.str old) (.str new) (.num (.int .i64 (k : Int))) = .ok (.str r) ∧
      Replaced s old new (some k) r ∧ ∀ r', Replaced s old new (some k) r' → r' = r := by
  refine ⟨stringsReplace s old new (some k), ?_, stringsReplace_replaced s old new (some k),
    fun _ h => (replaced_iff s old new (some k) _).mp h⟩
  have hk : ¬ ((k : Int) < 0) := by omega
  simp only [replaceCount, C02.strArg_str, C02.intArg_i64, Res.ok_bind, hk, if_false, Int.toNat_natCast, Res.pure_eq]

example : replaceCount (.str [0x61, 0x62, 0x63, 0x61, 0x62, 0x63]) (.str [0x62, 0x63]) (.str [0x58])
    (.num (.int .i64 1)) = .ok (.str [0x61, 0x58, 0x61, 0x62, 0x63]) := by rfl

/-! ### 4. corollaries -/

/-- the number of replacements never exceeds the count -/
theorem decomp_count_le {s old : Bytes} {n : Option Nat} {gaps : List Bytes} {rest : Bytes}
    (h : Decomp s old n gaps rest) (m : Nat) (hm : n = some m) : gaps.length ≤ m := by
  rcases h.count with hc | ⟨h1, _⟩
  · rw [hm] at hc; cases hc; exact Nat.le_refl _
  · exact Nat.le_of_lt (h1 m hm)

/-- **at most `m` replacements**: for non-empty `old` the result of `strings.Replace(s, old, new, m)` is `k ≤ m`
    gaps interleaved with `new`, where `s` is the same gaps interleaved with `old` -/
theorem replaced_count_le (s old new : Bytes) (m : Nat) (hne : old ≠ []) :
    ∃ gaps rest, gaps.length ≤ m ∧ s = weave gaps old rest ∧ stringsReplace s old new (some m) = weave gaps new rest := by
  obtain ⟨gaps, rest, hd, hr⟩ := stringsReplace_replacedNE s old new (some m) hne
  exact ⟨gaps, rest, decomp_count_le hd m rfl, hd.split, hr⟩

example : ∃ gaps rest, gaps.length ≤ 1 ∧ [0x61, 0x62, 0x61, 0x62] = weave gaps [0x62] rest ∧
    stringsReplace [0x61, 0x62, 0x61, 0x62] [0x62] [0x58] (some 1) = weave gaps [0x58] rest :=
  ⟨[[0x61]], [0x61, 0x62], by decide, by rfl, by rfl⟩

/-- **no occurrence, nothing changes**: if non-empty `old` does not occur in `s`, the only string satisfying the
    specification is `s` -/
theorem replaced_no_occ {s old new : Bytes} {n : Option Nat} {r : Bytes} (hne : old ≠ []) (hno : NoOcc old s)
    (h : Replaced s old new n r) : r = s := by
  obtain ⟨gaps, rest, hd, hr⟩ := h.2 hne
  cases gaps with
  | nil => rw [hr, weave_nil, hd.split, weave_nil]
  | cons g gs =>
    exfalso
    obtain ⟨_, hs, _, _⟩ := decomp_cons_inv hd
    apply hno g.length
    rw [hs]
    exact occAt_after _ _ _

/-- … in particular for the model -/
theorem stringsReplace_no_occ (s old new : Bytes) (n : Option Nat) (hne : old ≠ []) (hno : NoOcc old s) :
    stringsReplace s old new n = s :=
  replaced_no_occ hne hno (stringsReplace_replaced s old new n)

example : stringsReplace [0x61, 0x62] [0x63] [0x58] none = [0x61, 0x62] := by
  apply stringsReplace_no_occ _ _ _ _ (by simp)
  intro i
  unfold OccAt
  rw [← List.isPrefixOf_iff_prefix]
  match i with
  | 0 => decide
  | 1 => decide
  | i + 2 => simp

/-- **count 0 replaces nothing** (empty `old` or not): the only string satisfying the specification is `s` -/
theorem replaced_zero {s old new r : Bytes} (h : Replaced s old new (some 0) r) : r = s := by
  by_cases he : old = []
  · have e := h.1 he
    unfold ReplacedEmpty at e
    rw [e, emptyCount_zero]
    simp only [insertBefore, List.take_zero, List.map_nil, List.flatten_nil, List.nil_append, List.drop_zero]
    rw [if_neg (by omega), runePieces_flatten]
  · obtain ⟨gaps, rest, hd, hr⟩ := h.2 he
    have hk := decomp_count_le hd 0 rfl
    have hg : gaps = [] := List.eq_nil_of_length_eq_zero (Nat.le_zero.mp hk)
    subst hg
    rw [hr, weave_nil, hd.split, weave_nil]

/-- … in particular for the model -/
theorem stringsReplace_zero (s old new : Bytes) : stringsReplace s old new (some 0) = s :=
  replaced_zero (stringsReplace_replaced s old new (some 0))

example : stringsReplace [0x68, 0xC3, 0xA9] [] [0x2D] (some 0) = [0x68, 0xC3, 0xA9] := stringsReplace_zero _ _ _

/-- for empty `old`, the number of insertions never exceeds the count either -/
theorem emptyCount_le (m len : Nat) : emptyCount (some m) len ≤ m := by
  simp only [emptyCount]; omega

example : emptyCount (some 2) 5 = 2 ∧ emptyCount (some 9) 2 = 3 ∧ emptyCount none 2 = 3 := ⟨by rfl, by rfl, by rfl⟩

end Jmes.C02EReplace
