/-
  Helper lemmas for `Jmes/Properties/C16B.lean` (literals, second part):

  * one step of `parseQuotedIdentifier` (`contQ`) and of Go's JSON string decoder (`Json.parseStringBody`) on every
    kind of escape: the two-character escapes, `\uXXXX` in either case, surrogate pairs, lone surrogates;
  * byte-level "every backslash is followed by an ASCII byte other than a backtick" (`EscOK`), which every JSON text
    satisfies, and which together with UTF-8 validity gives the `JBody` shape the lexer needs;
  * the JSON decoder on the rendering of a value (`parseValue` on `render w v`), by structural recursion on the value.
-/
import Jmes.Properties.C16
import Jmes.Proofs.JsonComplete
import Jmes.Proofs.Order
namespace Jmes.C16BL
open Jmes Jmes.Utf8 Jmes.Literals Jmes.C16

/-! ## 1. escapes in quoted identifiers and JSON strings -/

/-- the two-character escapes `\" \\ \/ \b \f \n \r \t`: escape letter and the byte it stands for -/
def shortEsc : List (Nat × Nat) :=
  [(0x22, 0x22), (0x5C, 0x5C), (0x2F, 0x2F), (0x62, 0x08), (0x66, 0x0C), (0x6E, 0x0A), (0x72, 0x0D), (0x74, 0x09)]

/-- one two-character escape in a quoted identifier -/
theorem contQ_short (f : Nat) (e b : Nat) (h : (e, b) ∈ shortEsc) (w acc : Bytes) :
    contQ (f + 1) (0x5C :: e :: w) acc = contQ f w (acc ++ [b]) := by
  simp only [shortEsc, List.mem_cons, Prod.mk.injEq, List.not_mem_nil, or_false] at h
  unfold contQ
  rw [split_bs]
  rcases h with ⟨rfl, rfl⟩ | ⟨rfl, rfl⟩ | ⟨rfl, rfl⟩ | ⟨rfl, rfl⟩ | ⟨rfl, rfl⟩ | ⟨rfl, rfl⟩ | ⟨rfl, rfl⟩ | ⟨rfl, rfl⟩ <;>
    simp [quotedLoop] <;> cases splitAtBackslash w [] <;> rfl

/-- one two-character escape in a JSON string -/
theorem psb_short (f : Nat) (e b : Nat) (h : (e, b) ∈ shortEsc) (w acc : Bytes) :
    Json.parseStringBody (f + 1) (0x5C :: e :: w) acc = Json.parseStringBody f w (acc ++ [b]) := by
  simp only [shortEsc, List.mem_cons, Prod.mk.injEq, List.not_mem_nil, or_false] at h
  rcases h with ⟨rfl, rfl⟩ | ⟨rfl, rfl⟩ | ⟨rfl, rfl⟩ | ⟨rfl, rfl⟩ | ⟨rfl, rfl⟩ | ⟨rfl, rfl⟩ | ⟨rfl, rfl⟩ | ⟨rfl, rfl⟩ <;>
    simp [Json.parseStringBody]

/-- a surrogate pair in a quoted identifier: both escapes are consumed, `utf16.DecodeRune` is written
    (FX28: provided the two escapes are a high surrogate followed by a low one, i.e. `utf16.DecodeRune` is not U+FFFD) -/
theorem contQ_pair (f : Nat) (v v' v'' acc : Bytes) (r r2 : Nat)
    (h1 : Json.hex4 v = some (r, 0x5C :: 0x75 :: v')) (hs : Json.isSurrogate r = true)
    (h2 : Json.hex4 v' = some (r2, v'')) (hne : Json.utf16Decode r r2 ≠ 0xFFFD) :
    contQ (f + 1) (0x5C :: 0x75 :: v) acc = contQ f v'' (acc ++ encodeRune (Json.utf16Decode r r2)) := by
  unfold contQ
  rw [split_bs]
  simp [quotedLoop, h1, hs, h2, hne]
  cases splitAtBackslash v'' [] <;> rfl

/-- FX28: a surrogate escape followed by an escape with which it does not form a (high, low) pair: the quoted
    identifier is rejected (before the fix U+FFFD was written and the second escape was swallowed) -/
theorem contQ_unpaired (f : Nat) (v v' v'' acc : Bytes) (r r2 : Nat)
    (h1 : Json.hex4 v = some (r, 0x5C :: 0x75 :: v')) (hs : Json.isSurrogate r = true)
    (h2 : Json.hex4 v' = some (r2, v'')) (he : Json.utf16Decode r r2 = 0xFFFD) :
    contQ (f + 1) (0x5C :: 0x75 :: v) acc = none := by
  unfold contQ
  rw [split_bs]
  simp [quotedLoop, h1, hs, h2, he]

/-- a surrogate that is not followed by another `\u` escape: the quoted identifier is rejected -/
theorem contQ_lone (f : Nat) (v v' acc : Bytes) (r : Nat)
    (h1 : Json.hex4 v = some (r, v')) (hs : Json.isSurrogate r = true)
    (hn : ∀ x, v' ≠ 0x5C :: 0x75 :: x) :
    contQ (f + 1) (0x5C :: 0x75 :: v) acc = none := by
  unfold contQ
  rw [split_bs]
  simp [quotedLoop, h1, hs]

/-- a surrogate pair in a JSON string: a valid pair is consumed; otherwise U+FFFD is written and decoding resumes
    *at the second escape* -/
theorem psb_pair (f : Nat) (v v' v'' acc : Bytes) (r r2 : Nat)
    (h1 : Json.hex4 v = some (r, 0x5C :: 0x75 :: v')) (hs : Json.isSurrogate r = true)
    (h2 : Json.hex4 v' = some (r2, v'')) :
    Json.parseStringBody (f + 1) (0x5C :: 0x75 :: v) acc =
      if Json.utf16Decode r r2 ≠ RuneError then Json.parseStringBody f v'' (acc ++ encodeRune (Json.utf16Decode r r2))
      else Json.parseStringBody f (0x5C :: 0x75 :: v') (acc ++ encodeRune RuneError) := by
  simp [Json.parseStringBody, h1, hs, h2]

/-- a surrogate that is not followed by another `\u` escape in a JSON string: U+FFFD -/
theorem psb_lone (f : Nat) (v v' acc : Bytes) (r : Nat)
    (h1 : Json.hex4 v = some (r, v')) (hs : Json.isSurrogate r = true)
    (hn : ∀ x, v' ≠ 0x5C :: 0x75 :: x) :
    Json.parseStringBody (f + 1) (0x5C :: 0x75 :: v) acc = Json.parseStringBody f v' (acc ++ encodeRune RuneError) := by
  simp [Json.parseStringBody, h1, hs]

/-- four hexadecimal digits are read the same way whatever follows -/
theorem hex4_ext {a b c d r : Nat} (h : Json.hex4 [a, b, c, d] = some (r, [])) (rest : Bytes) :
    Json.hex4 (a :: b :: c :: d :: rest) = some (r, rest) := by
  simp only [Json.hex4] at h ⊢
  split at h
  · rename_i va vb vc vd ha hb hc hd
    simp at h; simp [h]
  · cases h

/-- four hexadecimal digits denote a number below 0x10000 -/
theorem hex4_lt {a b c d r : Nat} (h : Json.hex4 [a, b, c, d] = some (r, [])) : r < 0x10000 := by
  simp only [Json.hex4] at h
  split at h
  · rename_i va vb vc vd ha hb hc hd
    have lt : ∀ {x v : Nat}, Json.hexVal x = some v → v < 16 := by
      intro x v hx
      unfold Json.hexVal at hx
      split at hx
      · simp at hx; omega
      · split at hx
        · simp at hx; omega
        · split at hx
          · simp at hx; omega
          · cases hx
    have := lt ha; have := lt hb; have := lt hc; have := lt hd
    simp at h; omega
  · cases h

/-- hexadecimal digits are ASCII letters and digits: not a quote, a backslash, a backtick, a control character -/
theorem hex4_bytes {a b c d r : Nat} (h : Json.hex4 [a, b, c, d] = some (r, [])) :
    ∀ x ∈ [a, b, c, d], 0x30 ≤ x ∧ x ≤ 0x66 ∧ x ≠ 0x5C ∧ x ≠ 0x60 := by
  simp only [Json.hex4] at h
  split at h
  · rename_i va vb vc vd ha hb hc hd
    have rng : ∀ {x v : Nat}, Json.hexVal x = some v → 0x30 ≤ x ∧ x ≤ 0x66 ∧ x ≠ 0x5C ∧ x ≠ 0x60 := by
      intro x v hx
      unfold Json.hexVal at hx
      split at hx
      · omega
      · split at hx
        · omega
        · split at hx
          · omega
          · cases hx
    intro x hx
    simp at hx
    rcases hx with rfl | rfl | rfl | rfl
    · exact rng ha
    · exact rng hb
    · exact rng hc
    · exact rng hd
  · cases h

/-- the UTF-8 encoding of a rune other than the backslash contains no backslash byte -/
theorem rune_no_bs (c : Nat) (h : c ≠ 0x5C) : ∀ b ∈ encodeRune c, b ≠ 0x5C := by
  intro b hb
  by_cases hc : c < 0x80
  · rw [encodeRune_ascii c hc] at hb; simp at hb; omega
  · have := encodeRune_bytes_ge c (by omega) b hb; omega

/-- bytes other than the backslash are copied by the quoted-identifier loop -/
theorem contQ_plains (fuel : Nat) : ∀ (l : Bytes), (∀ b ∈ l, b ≠ 0x5C) → ∀ (w acc : Bytes),
    contQ fuel (l ++ w) acc = contQ fuel w (acc ++ l)
  | [], _, w, acc => by simp
  | b :: l, h, w, acc => by
    rw [List.cons_append, contQ_plain fuel b (h b (by simp)), contQ_plains fuel l (fun x hx => h x (by simp [hx]))]
    simp

/-- `utf16.DecodeRune` on a (high, low) pair -/
theorem utf16Decode_pair {hi lo : Nat} (h1 : 0xD800 ≤ hi) (h2 : hi < 0xDC00) (h3 : 0xDC00 ≤ lo) (h4 : lo < 0xE000) :
    Json.utf16Decode hi lo = 0x10000 + (hi - 0xD800) * 1024 + (lo - 0xDC00) := by
  unfold Json.utf16Decode
  rw [if_pos ⟨h1, h2, h3, h4⟩]; omega

/-- `utf16.DecodeRune` on a (high, low) pair is a supplementary-plane scalar, in particular not U+FFFD -/
theorem utf16Decode_pair_ne {hi lo : Nat} (h1 : 0xD800 ≤ hi) (h2 : hi < 0xDC00) (h3 : 0xDC00 ≤ lo) (h4 : lo < 0xE000) :
    Json.utf16Decode hi lo ≠ 0xFFFD := by
  rw [utf16Decode_pair h1 h2 h3 h4]; omega

/-- `utf16.DecodeRune` is U+FFFD exactly when its arguments are not a high surrogate followed by a low one -/
theorem utf16Decode_eq_fffd_iff (r r2 : Nat) :
    Json.utf16Decode r r2 = 0xFFFD ↔ ¬ (0xD800 ≤ r ∧ r < 0xDC00 ∧ 0xDC00 ≤ r2 ∧ r2 < 0xE000) := by
  unfold Json.utf16Decode
  by_cases h : 0xD800 ≤ r ∧ r < 0xDC00 ∧ 0xDC00 ≤ r2 ∧ r2 < 0xE000
  · rw [if_pos h]
    constructor
    · intro e; omega
    · intro n; exact absurd h n
  · rw [if_neg h]
    constructor
    · intro _; exact h
    · intro _; rfl

/-! ## 2. an invalid quoted identifier is a syntax error -/

open Jmes.Parser in
/-- a quoted-identifier token that does not decode makes `primaryExpression` fail -/
theorem prim_quoted_invalid (f : Nat) (v : Bytes) (h : parseQuotedIdentifier v = none) :
    (primaryExpression (f+1)).run ⟨⟨.quotedIdentifier, v⟩, ⟨.end, []⟩, [], none⟩
    = .error .invalidQuotedString := by
  rw [primaryExpression]
  simp only [bind, StateT.bind, get, getThe, MonadStateOf.get, StateT.get, pure, Except.pure, StateT.run,
    Except.bind, h]
  rfl

open Jmes.Parser in
/-- an expression consisting of one quoted-identifier token that does not decode is a syntax error -/
theorem search_quoted_invalid (e v : Bytes) (d : Val)
    (hl : lexAll e = ([⟨.quotedIdentifier, v⟩, ⟨.end, []⟩], none)) (h : parseQuotedIdentifier v = none) :
    search e d = .err [.syntax] := by
  unfold search Parser.parse
  rw [hl]
  simp only [List.length_cons, List.length_nil, fuelFor]
  have : (do
        let node ← expression (46 + 2) 1
        if (← currType) != .end then fail .unexpectedToken
        return node : PM INode).run ⟨⟨.quotedIdentifier, v⟩, ⟨.end, []⟩, [], none⟩ = .error .invalidQuotedString := by
    rw [StateT.run_bind, expression]
    show ((primaryExpression (46+1) >>= fun node => exprLoop (46+1) node 1).run _ >>= _) = _
    rw [StateT.run_bind, prim_quoted_invalid 46 v h]
    rfl
  simp only [] at this
  rw [this]
  rfl

/-! ## 3. steps of the JSON decoder on arrays and objects, with whitespace -/

open Jmes.Lexical Jmes.JsonGrammar

open Json in
/-- `parseElems`: a value followed (after white space) by `]` ends the array -/
theorem pe_last {f d : Nat} {s r r' : Bytes} {v : Val} (acc : List Val)
    (h : parseValue f d s = some (v, r)) (hr : skipWs r = 0x5D :: r') :
    parseElems (f + 1) d s acc = some (acc ++ [v], r') := by
  rw [parseElems, h]; simp only [hr]

open Json in
/-- `parseElems`: a value followed (after white space) by `,` — go on with the next element -/
theorem pe_more {f d : Nat} {s r r' : Bytes} {v : Val} (acc : List Val)
    (h : parseValue f d s = some (v, r)) (hr : skipWs r = 0x2C :: r') :
    parseElems (f + 1) d s acc = parseElems f d r' (acc ++ [v]) := by
  rw [parseElems, h]; simp only [hr]

open Json in
/-- `parseMembers`: key, colon, value, then `}` — the object ends -/
theorem pm_last {f d : Nat} {s t k r r1 r2 r3 : Bytes} {v : Val} (acc : List (Bytes × Val))
    (hs : skipWs s = 0x22 :: t) (hk : parseStringBody (t.length + 1) t [] = some (k, r))
    (hc : skipWs r = 0x3A :: r1) (hv : parseValue f d r1 = some (v, r2)) (h2 : skipWs r2 = 0x7D :: r3) :
    parseMembers (f + 1) d s acc = some (objInsert k v acc, r3) := by
  rw [parseMembers, hs]; simp only [hk, hc, hv, h2]

open Json in
/-- `parseMembers`: key, colon, value, then `,` — go on with the next member -/
theorem pm_more {f d : Nat} {s t k r r1 r2 r3 : Bytes} {v : Val} (acc : List (Bytes × Val))
    (hs : skipWs s = 0x22 :: t) (hk : parseStringBody (t.length + 1) t [] = some (k, r))
    (hc : skipWs r = 0x3A :: r1) (hv : parseValue f d r1 = some (v, r2)) (h2 : skipWs r2 = 0x2C :: r3) :
    parseMembers (f + 1) d s acc = parseMembers f d r3 (objInsert k v acc) := by
  rw [parseMembers, hs]; simp only [hk, hc, hv, h2]

/-- inserting a key greater than all present keys appends -/
theorem objInsert_snoc (k : Bytes) (v : Val) : ∀ acc : List (Bytes × Val), (∀ p ∈ acc, bytesLt p.1 k = true) →
    objInsert k v acc = acc ++ [(k, v)]
  | [], _ => rfl
  | (k', v') :: rest, h => by
    have hlt : bytesLt k' k = true := h (k', v') (by simp)
    have hne : k ≠ k' := by
      intro e; subst e; rw [_root_.Jmes.bytesLt_irrefl] at hlt; cases hlt
    have hge : bytesLt k k' = false := Jmes.Utf8.bytesLt_asymm _ _ hlt
    simp only [objInsert, hne, if_false, hge, Bool.false_eq_true, List.cons_append]
    rw [objInsert_snoc k v rest (fun p hp => h p (by simp [hp]))]

/-- the key of a member: Go's decoder reads the JSON text of a valid UTF-8 string back as that string -/
theorem psb_key (k : Bytes) (hk : validUTF8 k = true) (rest : Bytes) :
    Json.parseStringBody ((escQ k ++ 0x22 :: rest).length + 1) (escQ k ++ 0x22 :: rest) [] = some (k, rest) := by
  obtain ⟨cs, hs, rfl⟩ := (validUTF8_iff k).1 hk
  have := psb_escQ cs hs ((escQ (encodeAll cs) ++ 0x22 :: rest).length + 1) [] rest (by simp; omega)
  simpa using this

/-- Go's decoder reads the JSON text of a valid UTF-8 string back as that string, whatever follows -/
theorem parseValue_jsonText (f d : Nat) (s : Bytes) (hs : validUTF8 s = true) (rest : Bytes) :
    Json.parseValue (f + 1) d (jsonText s ++ rest) = some (.str s, rest) := by
  have e : jsonText s ++ rest = 0x22 :: (escQ s ++ 0x22 :: rest) := by simp [jsonText]
  rw [e, Literals.parseValue_string, psb_key s hs rest]
  rfl

/-- a white-space byte cannot continue a number -/
theorem ws_not_numChar {b : Nat} (h : isWsB b = true) : ¬ NumChar b := by
  simp [isWsB] at h
  unfold NumChar
  omega

/-- white space followed by a structural character cannot continue a number -/
theorem stop_ws {w : Bytes} (hw : Ws w) (c : Nat) (hc : ¬ NumChar c) (t : Bytes) : Stop (w ++ c :: t) := by
  cases w with
  | nil => exact Stop.cons hc
  | cons b w' => exact Stop.cons (ws_not_numChar (hw b (by simp)))

/-- a run of white space can stand in a JSON literal -/
theorem ws_jbody : ∀ {w : Bytes}, Ws w → JBody w
  | [], _ => JBody.nil
  | b :: w, h => by
    have hb := h b (by simp)
    simp [isWsB] at hb
    exact JBody.plain1 b (by omega) (by omega) (ws_jbody (fun x hx => h x (by simp [hx])))

/-! ## 4. every JSON text can be written between backticks -/

/-- byte-level shape: every backslash is followed by an ASCII byte other than a backtick (and that byte is skipped) -/
inductive EscOK : Bytes → Prop
  | nil : EscOK []
  | plain (b : Nat) (w : Bytes) : b ≠ 0x5C → EscOK w → EscOK (b :: w)
  | esc (e : Nat) (w : Bytes) : e < 0x80 → e ≠ 0x60 → EscOK w → EscOK (0x5C :: e :: w)

/-- `EscOK` is closed under concatenation -/
theorem EscOK.append {a b : Bytes} (ha : EscOK a) (hb : EscOK b) : EscOK (a ++ b) := by
  induction ha with
  | nil => exact hb
  | plain c w h _ ih => exact EscOK.plain c _ h ih
  | esc e w h1 h2 _ ih => exact EscOK.esc e _ h1 h2 ih

/-- a text without backslashes is `EscOK` -/
theorem EscOK.of_no_bs : ∀ (l : Bytes), (∀ b ∈ l, b ≠ 0x5C) → EscOK l
  | [], _ => EscOK.nil
  | b :: l, h => EscOK.plain b l (h b (by simp)) (EscOK.of_no_bs l (fun x hx => h x (by simp [hx])))

/-- white space is `EscOK` -/
theorem escOK_ws {w : Bytes} (hw : Ws w) : EscOK w :=
  EscOK.of_no_bs w (fun b hb => by have := hw b hb; simp [isWsB] at this; omega)

/-- a hexadecimal digit is not a backslash -/
theorem isHexB_ne {b : Nat} (h : isHexB b = true) : b ≠ 0x5C := by
  simp [isHexB] at h; omega

/-- the inside of a JSON string (grammar `JStrBody`) is `EscOK`: its backslashes start the escapes of RFC 8259, none of which is a backslash-backtick -/
theorem escOK_str {b : Bytes} (h : JStrBody b) : EscOK b := by
  induction h with
  | close => exact EscOK.plain _ _ (by omega) EscOK.nil
  | char c w _ _ h3 _ ih => exact EscOK.plain c w h3 ih
  | esc e w he _ ih =>
    simp only [List.mem_cons, List.not_mem_nil, or_false] at he
    exact EscOK.esc e w (by omega) (by omega) ih
  | uni a b c d w ha hb hc hd _ ih =>
    exact EscOK.esc 0x75 _ (by omega) (by omega)
      (EscOK.plain a _ (isHexB_ne ha) (EscOK.plain b _ (isHexB_ne hb) (EscOK.plain c _ (isHexB_ne hc)
        (EscOK.plain d _ (isHexB_ne hd) ih))))

/-- a JSON number contains no backslash -/
theorem escOK_num {n : Bytes} (h : JNumber n) : EscOK n := by
  have hv := (isValidNumber_iff n).2 h
  exact EscOK.of_no_bs n (fun b hb => (numChars_of_valid n hv b hb).ne_bs)

mutual
/-- a JSON value (grammar `JValue`) is `EscOK` -/
theorem escOK_value : {p : Bytes} → JValue p → EscOK p
  | _, .null => EscOK.of_no_bs _ (by decide)
  | _, .true => EscOK.of_no_bs _ (by decide)
  | _, .false => EscOK.of_no_bs _ (by decide)
  | _, .num n h => escOK_num h
  | _, .str b h => EscOK.plain 0x22 _ (by omega) (escOK_str h)
  | _, .arrEmpty w hw => EscOK.plain 0x5B _ (by omega) (EscOK.append (escOK_ws hw) (EscOK.plain 0x5D _ (by omega) EscOK.nil))
  | _, .arr es h => EscOK.plain 0x5B _ (by omega) (escOK_elems h)
  | _, .objEmpty w hw => EscOK.plain 0x7B _ (by omega) (EscOK.append (escOK_ws hw) (EscOK.plain 0x7D _ (by omega) EscOK.nil))
  | _, .obj ms h => EscOK.plain 0x7B _ (by omega) (escOK_members h)
/-- the elements of a JSON array (grammar `JElems`) are `EscOK` -/
theorem escOK_elems : {p : Bytes} → JElems p → EscOK p
  | _, .last w1 v w2 h1 hv h2 =>
    EscOK.append (EscOK.append (EscOK.append (escOK_ws h1) (escOK_value hv)) (escOK_ws h2)) (EscOK.plain 0x5D _ (by omega) EscOK.nil)
  | _, .cons w1 v w2 rest h1 hv h2 hr =>
    EscOK.append (EscOK.append (EscOK.append (escOK_ws h1) (escOK_value hv)) (escOK_ws h2)) (EscOK.plain 0x2C _ (by omega) (escOK_elems hr))
/-- the members of a JSON object (grammar `JMembers`) are `EscOK` -/
theorem escOK_members : {p : Bytes} → JMembers p → EscOK p
  | _, .last w1 k w2 w3 v w4 h1 hk h2 h3 hv h4 =>
    EscOK.append (EscOK.append (EscOK.append (EscOK.append (EscOK.append
      (EscOK.append (escOK_ws h1) (EscOK.plain 0x22 _ (by omega) (escOK_str hk))) (escOK_ws h2))
      (EscOK.plain 0x3A _ (by omega) (escOK_ws h3))) (escOK_value hv)) (escOK_ws h4))
      (EscOK.plain 0x7D _ (by omega) EscOK.nil)
  | _, .cons w1 k w2 w3 v w4 rest h1 hk h2 h3 hv h4 hr =>
    EscOK.append (EscOK.append (EscOK.append (EscOK.append (EscOK.append
      (EscOK.append (escOK_ws h1) (EscOK.plain 0x22 _ (by omega) (escOK_str hk))) (escOK_ws h2))
      (EscOK.plain 0x3A _ (by omega) (escOK_ws h3))) (escOK_value hv)) (escOK_ws h4))
      (EscOK.plain 0x2C _ (by omega) (escOK_members hr))
end

/-- every JSON text (RFC 8259): a backslash occurs only inside a string, as the first byte of an escape, and the
    escape letter is never a backtick -/
theorem escOK_jsonText {t : Bytes} (h : JsonText t) : EscOK t := by
  obtain ⟨w1, v, w2, rfl, h1, hv, h2⟩ := h
  exact EscOK.append (EscOK.append (escOK_ws h1) (escOK_value hv)) (escOK_ws h2)

/-- inversion of `EscOK` -/
theorem EscOK.inv {l : Bytes} (h : EscOK l) :
    l = [] ∨ (∃ b w, l = b :: w ∧ b ≠ 0x5C ∧ EscOK w) ∨ (∃ e w, l = 0x5C :: e :: w ∧ e < 0x80 ∧ e ≠ 0x60 ∧ EscOK w) := by
  cases h with
  | nil => exact Or.inl rfl
  | plain b w h1 h2 => exact Or.inr (Or.inl ⟨b, w, rfl, h1, h2⟩)
  | esc e w h1 h2 h3 => exact Or.inr (Or.inr ⟨e, w, rfl, h1, h2, h3⟩)

/-- dropping a first byte that is not a backslash -/
theorem EscOK.tail {b : Nat} {w : Bytes} (hb : b ≠ 0x5C) (h : EscOK (b :: w)) : EscOK w := by
  rcases h.inv with h0 | ⟨b', w', e, _, h'⟩ | ⟨e', w', e, _⟩
  · cases h0
  · cases e; exact h'
  · cases e; exact absurd rfl hb

/-- after a first backslash comes an ASCII byte other than a backtick -/
theorem EscOK.esc_inv {t : Bytes} (h : EscOK (0x5C :: t)) : ∃ e w, t = e :: w ∧ e < 0x80 ∧ e ≠ 0x60 ∧ EscOK w := by
  rcases h.inv with h0 | ⟨b', w', e, hb, _⟩ | ⟨e', w', e, h1, h2, h3⟩
  · cases h0
  · cases e; exact absurd rfl hb
  · cases e; exact ⟨e', w', rfl, h1, h2, h3⟩

/-- dropping a prefix without backslashes -/
theorem EscOK.strip : ∀ (l : Bytes) {r : Bytes}, (∀ b ∈ l, b ≠ 0x5C) → EscOK (l ++ r) → EscOK r
  | [], _, _, h => h
  | b :: l, r, hl, h =>
    EscOK.strip l (fun x hx => hl x (by simp [hx])) (EscOK.tail (hl b (by simp)) h)

/-- with UTF-8 validity, the byte-level shape gives the rune-level shape the lexer needs -/
theorem jbody_of_escOK : ∀ (n : Nat) (cs : List Nat), cs.length ≤ n → Scalars cs → EscOK (encodeAll cs) →
    JBody (encodeAll cs) := by
  intro n
  induction n with
  | zero =>
    intro cs hn _ _
    have : cs = [] := List.eq_nil_of_length_eq_zero (by omega)
    subst this; exact JBody.nil
  | succ n ih =>
    intro cs hn hs he
    match cs, hn, hs, he with
    | [], _, _, _ => exact JBody.nil
    | c :: cs, hn, hs, he =>
      simp only [List.length_cons] at hn
      rw [encodeAll_cons] at he ⊢
      by_cases hc : c < 0x80
      · rw [encodeRune_ascii c hc] at he ⊢
        by_cases h5 : c = 0x5C
        · subst h5
          obtain ⟨e, w', heq, h1, h2, h3⟩ := EscOK.esc_inv he
          match cs, hn, hs, heq with
          | [], _, _, heq => simp [encodeAll] at heq
          | c' :: cs', hn, hs, heq =>
            rw [encodeAll_cons] at heq ⊢
            have hc' : c' < 0x80 := by
              apply Nat.lt_of_not_le
              intro hge
              obtain ⟨x, y, hxy⟩ := List.exists_cons_of_ne_nil (encodeRune_ne_nil c')
              have := encodeRune_bytes_ge c' hge x (by rw [hxy]; simp)
              rw [hxy] at heq
              simp at heq
              omega
            rw [encodeRune_ascii c' hc'] at heq ⊢
            simp at heq
            obtain ⟨rfl, rfl⟩ := heq
            simp only [List.length_cons] at hn
            exact JBody.esc1 c' hc' h2 (ih cs' (by omega) hs.tail.tail h3)
        · exact JBody.plain1 c hc h5 (ih cs (by omega) hs.tail (EscOK.tail h5 he))
      · have hge := encodeRune_bytes_ge c (by omega)
        exact JBody.plain c _ hs.head (by omega)
          (ih cs (by omega) hs.tail (EscOK.strip _ (fun b hb => by have := hge b hb; omega) he))

/-- **every JSON text that is valid UTF-8 has the shape `JBody`**: after `btEscape` it can stand between backticks -/
theorem jbody_jsonText {t : Bytes} (h : JsonText t) (hu : validUTF8 t = true) : JBody t := by
  obtain ⟨cs, hs, rfl⟩ := (validUTF8_iff t).1 hu
  exact jbody_of_escOK _ cs (Nat.le_refl _) hs (escOK_jsonText h)

/-! ## non-vacuity: the lemmas above on concrete inputs -/

-- `contQ_short` / `psb_short`: `\n`
example : contQ 3 [0x5C, 0x6E, 0x61] [] = some [0x0A, 0x61] := by decide
example : Json.parseStringBody 4 [0x5C, 0x6E, 0x61, 0x22] [] = some ([0x0A, 0x61], []) := by decide
-- `contQ_pair` / `psb_pair`: `\uD83D\uDE00`
example : contQ 3 [0x5C, 0x75, 0x44, 0x38, 0x33, 0x44, 0x5C, 0x75, 0x44, 0x45, 0x30, 0x30] [] = some [0xF0, 0x9F, 0x98, 0x80] := by
  decide
example : Json.parseStringBody 4 [0x5C, 0x75, 0x44, 0x38, 0x33, 0x44, 0x5C, 0x75, 0x44, 0x45, 0x30, 0x30, 0x22] []
    = some ([0xF0, 0x9F, 0x98, 0x80], []) := by decide
-- `contQ_unpaired` (FX28): `\uD800\u0041` and `\uDC00\uD800` are rejected; JSON strings still read U+FFFD and resume
example : contQ 3 [0x5C, 0x75, 0x44, 0x38, 0x30, 0x30, 0x5C, 0x75, 0x30, 0x30, 0x34, 0x31] [] = none := by decide
example : contQ 3 [0x5C, 0x75, 0x44, 0x43, 0x30, 0x30, 0x5C, 0x75, 0x44, 0x38, 0x30, 0x30] [] = none := by decide
example : Json.parseStringBody 4 [0x5C, 0x75, 0x44, 0x38, 0x30, 0x30, 0x5C, 0x75, 0x30, 0x30, 0x34, 0x31, 0x22] []
    = some ([0xEF, 0xBF, 0xBD, 0x41], []) := by decide
-- `utf16Decode_pair_ne`, `utf16Decode_eq_fffd_iff`
example : Json.utf16Decode 0xDBFF 0xDC00 ≠ 0xFFFD := utf16Decode_pair_ne (by omega) (by omega) (by omega) (by omega)
example : Json.utf16Decode 0xDC00 0xD800 = 0xFFFD := (utf16Decode_eq_fffd_iff _ _).2 (by omega)
-- `contQ_lone` / `psb_lone`: `\uD800x`
example : contQ 3 [0x5C, 0x75, 0x44, 0x38, 0x30, 0x30, 0x78] [] = none := by decide
example : Json.parseStringBody 4 [0x5C, 0x75, 0x44, 0x38, 0x30, 0x30, 0x78, 0x22] [] = some ([0xEF, 0xBF, 0xBD, 0x78], []) := by
  decide
-- `hex4_ext`, `hex4_lt`, `hex4_bytes`: `00E9` and `00e9`
example : Json.hex4 [0x30, 0x30, 0x45, 0x39] = some (0xE9, []) := by decide
example : Json.hex4 [0x30, 0x30, 0x65, 0x39] = some (0xE9, []) := by decide
-- `utf16Decode_pair`
example : Json.utf16Decode 0xD83D 0xDE00 = 0x1F600 := by decide
-- `objInsert_snoc`
example : objInsert [0x62] .null [([0x61], .null)] = [([0x61], .null)] ++ [([0x62], .null)] :=
  objInsert_snoc _ _ _ (by decide)
-- `psb_key` / `parseValue_jsonText`: `"a\"" ,`
example : Json.parseValue 1 0 (jsonText [0x61, 0x22] ++ [0x2C]) = some (.str [0x61, 0x22], [0x2C]) :=
  parseValue_jsonText 0 0 _ (by decide) _
-- `pe_last`, `pe_more`, `pm_last`, `pm_more`: `[1 , 2 ]` and `{"a" : 1 , "b" : 2 }`
example : Json.decode [0x5B, 0x31, 0x20, 0x2C, 0x20, 0x32, 0x20, 0x5D] = some (.arr .plain [.num (.jnum [0x31]), .num (.jnum [0x32])]) := by
  rfl
example : Json.decode [0x7B, 0x22, 0x61, 0x22, 0x20, 0x3A, 0x20, 0x31, 0x20, 0x2C, 0x20, 0x22, 0x62, 0x22, 0x20, 0x3A, 0x20, 0x32, 0x20, 0x7D]
    = some (.obj [([0x61], .num (.jnum [0x31])), ([0x62], .num (.jnum [0x32]))]) := by rfl
-- `stop_ws`, `ws_jbody`, `escOK_ws`
example : Stop ([0x20] ++ 0x2C :: [0x31]) := stop_ws (by unfold Ws; decide) 0x2C (by unfold NumChar; omega) _
-- `EscOK`: `"\n"` is, a text ending in a backslash or with backslash-backtick is not
example : EscOK [0x22, 0x5C, 0x6E, 0x22] :=
  EscOK.plain _ _ (by omega) (EscOK.esc _ _ (by omega) (by omega) (EscOK.plain _ _ (by omega) EscOK.nil))
example : ¬ EscOK [0x5C] := by
  intro h; obtain ⟨e, w, h', _⟩ := h.esc_inv; cases h'
example : ¬ EscOK [0x5C, 0x60] := by
  intro h; obtain ⟨e, w, h', _, h2, _⟩ := h.esc_inv; cases h'; exact h2 rfl
-- `jbody_jsonText`: `["\u00e9é"]`
example : JBody [0x5B, 0x22, 0x5C, 0x75, 0x30, 0x30, 0x65, 0x39, 0xC3, 0xA9, 0x22, 0x5D] :=
  jbody_jsonText (JsonGrammar.decode_sound (v := .arr .plain [.str [0xC3, 0xA9, 0xC3, 0xA9]]) (by rfl)) (by decide)
-- `search_quoted_invalid`: `"\x"`
example : search [0x22, 0x5C, 0x78, 0x22] .null = .err [.syntax] :=
  search_quoted_invalid _ [0x22, 0x5C, 0x78, 0x22] _ (by decide) (by decide)

end Jmes.C16BL
