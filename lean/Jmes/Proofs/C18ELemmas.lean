/-
  Property C18, fourth pass — the NUMBER invariant of the evaluator.

  `C18C.json_result_roundtrip_equal` needs `NumsAll GoodNum r` of the RESULT.  Here is the invariant that the evaluator
  preserves and that implies it:

    * `NF d`   — the decimal is what decimal128 produces: `normalize (.fin neg c e)` with `c ≤ MAXSIG`,
                 `EMIN ≤ e ≤ EMAX` (`Dec.reduce` ends with exactly such a value; `nf_inFormat`: `NF d → DecInFormat d`);
    * `GNum n` — a `json.Number` holding a valid JSON number text that `decimal128.Parse` accepts, an `NF` decimal, a Go
                 integer inside the range of its kind; no binary float;
    * `Gd v`   — every number inside `v` is `GNum`, and there is no foreign Go value (`gd_fin`: `Gd v → v.Fin`,
                 `gd_good`: `Gd v → NumsAll GoodNum v`).

  This file: the decimal part (`reduce_nfs`: every result of `Dec.reduce` is an infinity or `NF`; the closure of
  "special or `NF`" under `+ - * / // %`, of `NF` under `abs`, `neg`, `ceil`, `floor`; the parsers) and the value-level
  lemmas for every number-producing builtin.
-/
import Jmes.Proofs.C18BLemmas
import Jmes.Proofs.C18CRoundtripEq
import Jmes.Proofs.C14BLemmasFloatUn
namespace Jmes.C18E
open Jmes Jmes.C18CR

/-! ## decimals -/

/-- the decimal is a value of the decimal128 format, kept normalised: coefficient at most `MAXSIG`, exponent between
    `EMIN` and `EMAX`, trailing zeros of the coefficient moved into the exponent -/
def NF (d : Dec) : Prop :=
  ∃ neg c e, d = Dec.normalize (.fin neg c e) ∧ c ≤ Dec.MAXSIG ∧ Dec.EMIN ≤ e ∧ e ≤ Dec.EMAX

/-- NaN, an infinity, or `NF`: what the unchecked decimal operations return -/
def NFS (d : Dec) : Prop := d.isSpecial = true ∨ NF d

theorem nf_mk (neg : Bool) (c : Nat) (e : Int) (hc : c ≤ Dec.MAXSIG) (hlo : Dec.EMIN ≤ e) (hhi : e ≤ Dec.EMAX) :
    NF (Dec.normalize (.fin neg c e)) := ⟨neg, c, e, rfl, hc, hlo, hhi⟩

theorem nf_zero (neg : Bool) : NF (.fin neg 0 0) :=
  ⟨neg, 0, 0, by simp [Dec.normalize], by decide, by decide, by decide⟩

example : NF (.fin false 25 (-1)) := ⟨false, 25, -1, by decide, by decide, by decide, by decide⟩

theorem nf_not_special {d : Dec} (h : NF d) : d.isSpecial = false := by
  obtain ⟨n, c, e, rfl, _⟩ := h
  exact C18BL.normalize_fin_special _ _ _

/-- an `NF` decimal is inside the format in the sense of `C18CR.DecInFormat` -/
theorem nf_inFormat {d : Dec} (h : NF d) : DecInFormat d := by
  refine ⟨nf_not_special h, ?_⟩
  obtain ⟨n, c, e, rfl, hc, hlo, hhi⟩ := h
  exact ⟨n, c, e, Dec.normalize_idem _, hc, hlo, hhi⟩

example : DecInFormat (.fin false 25 (-1)) :=
  nf_inFormat ⟨false, 25, -1, by decide, by decide, by decide, by decide⟩

/-- an `NF` decimal is its own normal form -/
theorem nf_normalize {d : Dec} (h : NF d) : Dec.normalize d = d := by
  obtain ⟨n, c, e, rfl, _⟩ := h
  exact Dec.normalize_idem _

theorem nf_neg {d : Dec} (h : NF d) : NF d.neg := by
  obtain ⟨n, c, e, rfl, hc, hlo, hhi⟩ := h
  exact ⟨!n, c, e, (Dec.normalize_neg n c e).symm, hc, hlo, hhi⟩

theorem nf_abs {d : Dec} (h : NF d) : NF d.abs := by
  obtain ⟨n, c, e, rfl, hc, hlo, hhi⟩ := h
  exact ⟨false, c, e, (Dec.normalize_abs n c e).symm, hc, hlo, hhi⟩

/-- the coefficient of an `NF` decimal is at most `MAXSIG` -/
theorem nf_fin_le {n : Bool} {c : Nat} {e : Int} (h : NF (.fin n c e)) : c ≤ Dec.MAXSIG := by
  obtain ⟨n', c', e', h1, hc, _, _⟩ := h
  have hb : (Dec.normalize (.fin n' c' e')).Bounded := Dec.normalize_bounded (d := .fin n' c' e') hc
  rw [← h1] at hb
  exact hb

theorem nfs_of_nf {d : Dec} (h : NF d) : NFS d := Or.inr h
theorem nfs_nan : NFS .nan := Or.inl rfl
theorem nfs_inf (n : Bool) : NFS (.inf n) := Or.inl rfl

theorem nf_of_nfs_fin {n : Bool} {c : Nat} {e : Int} (h : NFS (.fin n c e)) : NF (.fin n c e) := by
  rcases h with h | h
  · simp [Dec.isSpecial] at h
  · exact h

/-- `normalize` of an `NF` value written out as `.fin` -/
theorem nf_normalize_fin {n : Bool} {c : Nat} {e : Int} (h : NF (.fin n c e)) : NF (Dec.normalize (.fin n c e)) := by
  rw [nf_normalize h]; exact h

/-! ### `Dec.reduce` -/

theorem scaleUp_exp_ge : ∀ (fuel c : Nat) (e : Int), Dec.EMIN ≤ e → Dec.EMIN ≤ (Dec.scaleUp fuel c e).2
  | 0, c, e, h => by simpa [Dec.scaleUp] using h
  | fuel + 1, c, e, h => by
    simp only [Dec.scaleUp]
    split
    · next hc =>
      refine scaleUp_exp_ge fuel _ _ ?_
      have : Dec.EMIN ≤ Dec.EMAX := by decide
      omega
    · exact h

theorem roundEven_exp_ge : ∀ (fuel c : Nat) (e : Int) (dg : Nat) (st : Bool), e ≤ (Dec.roundEven fuel c e dg st).2
  | 0, c, e, dg, st => by simp [Dec.roundEven]
  | fuel + 1, c, e, dg, st => by
    simp only [Dec.roundEven]
    have ih := roundEven_exp_ge fuel (c / 10) (e + 1) (c % 10) (st || dg != 0)
    repeat' split
    all_goals first | exact Int.le_refl _ | omega

/-- the tail of `reduce` returns an infinity or an `NF` value -/
theorem reduceTail_nfs (neg : Bool) (r3 : Nat × Int × Nat × Bool) (h3 : r3.1 ≤ Dec.MAXSIG) (he : Dec.EMIN ≤ r3.2.1) :
    NFS (Dec.reduceTail neg r3) := by
  have h4 := Dec.scaleUp_le 40 r3.1 r3.2.1 h3
  have h5 := Dec.roundEven_le 3 _ (Dec.scaleUp 40 r3.1 r3.2.1).2 r3.2.2.1 r3.2.2.2 h4
  have e4 := scaleUp_exp_ge 40 r3.1 r3.2.1 he
  have e5 := roundEven_exp_ge 3 (Dec.scaleUp 40 r3.1 r3.2.1).1 (Dec.scaleUp 40 r3.1 r3.2.1).2 r3.2.2.1 r3.2.2.2
  unfold Dec.reduceTail
  split
  · exact nfs_inf _
  · next hgt => exact nfs_of_nf (nf_mk _ _ _ h5 (by omega) (by omega))

/-- **every result of `Dec.reduce` is an infinity or a normalised value of the format** -/
theorem reduce_nfs (neg : Bool) (c : Nat) (e : Int) (st : Bool) : NFS (Dec.reduce neg c e st) := by
  rw [Dec.reduce_eq]
  split
  · exact nfs_of_nf (nf_zero _)
  · have h1 := Dec.dropHigh_le (Nat.log2 (c + 1) + 2) c e 0 st (Dec.lt_pow10_log2 c)
    generalize Dec.dropHigh (Nat.log2 (c + 1) + 2) c e 0 st = r1 at h1 ⊢
    have h2 : (Dec.reduceLow r1).1 ≤ Dec.MAXSIG :=
      Nat.le_trans (Dec.dropLow_le _ r1.1 r1.2.1 r1.2.2.1 r1.2.2.2) h1
    generalize Dec.reduceLow r1 = r2 at h2 ⊢
    by_cases hlt : r2.2.1 < Dec.EMIN
    · rw [if_pos hlt]; exact reduceTail_nfs _ _ (Nat.zero_le _) (Int.le_refl _)
    · rw [if_neg hlt]; exact reduceTail_nfs _ _ h2 (by omega)

/-- `1/3` rounded to 34 digits is a value of the format -/
example : NFS (Dec.reduce false 1 0 false) := reduce_nfs _ _ _ _

/-- a finite result of `reduce` is `NF` -/
theorem reduce_nf_of_not_special {neg : Bool} {c : Nat} {e : Int} {st : Bool}
    (h : (Dec.reduce neg c e st).isSpecial = false) : NF (Dec.reduce neg c e st) := by
  rcases reduce_nfs neg c e st with h' | h'
  · rw [h] at h'; cases h'
  · exact h'

/-! ### the arithmetic of decimal128 -/

theorem ite_nfs {p : Prop} [Decidable p] {a b : Dec} (ha : NFS a) (hb : NFS b) : NFS (if p then a else b) := by
  split <;> assumption

theorem addFin_nfs (n1 : Bool) (c1 : Nat) (e1 : Int) (n2 : Bool) (c2 : Nat) (e2 : Int)
    (h1 : NF (.fin n1 c1 e1)) (h2 : NF (.fin n2 c2 e2)) : NFS (Dec.addFin n1 c1 e1 n2 c2 e2) := by
  unfold Dec.addFin
  split
  · split
    · exact nfs_of_nf (nf_zero _)
    · exact nfs_of_nf (nf_normalize_fin h2)
  · split
    · exact nfs_of_nf (nf_normalize_fin h1)
    · exact ite_nfs (nfs_of_nf (nf_zero _)) (reduce_nfs _ _ _ _)

/-- `Add` keeps "special or `NF`" -/
theorem add_nfs {a b : Dec} (ha : NFS a) (hb : NFS b) : NFS (a.add b) := by
  cases a with
  | nan => cases b <;> exact nfs_nan
  | inf n =>
    cases b with
    | nan => exact nfs_nan
    | inf m => simp only [Dec.add]; split; exact nfs_inf _; exact nfs_nan
    | fin m c e => exact nfs_inf _
  | fin n c e =>
    cases b with
    | nan => exact nfs_nan
    | inf m => exact nfs_inf _
    | fin m c' e' => exact addFin_nfs _ _ _ _ _ _ (nf_of_nfs_fin ha) (nf_of_nfs_fin hb)

/-- `Sub` keeps "special or `NF`" -/
theorem sub_nfs {a b : Dec} (ha : NFS a) (hb : NFS b) : NFS (a.sub b) := by
  cases a with
  | nan => cases b <;> exact nfs_nan
  | inf n =>
    cases b with
    | nan => exact nfs_nan
    | inf m => simp only [Dec.sub]; split; exact nfs_nan; exact nfs_inf _
    | fin m c e => exact nfs_inf _
  | fin n c e =>
    cases b with
    | nan => exact nfs_nan
    | inf m => exact nfs_inf _
    | fin m c' e' =>
      simp only [Dec.sub]
      split
      · exact nfs_of_nf (nf_zero _)
      · exact addFin_nfs _ _ _ _ _ _ (nf_of_nfs_fin ha) (nf_neg (d := .fin m c' e') (nf_of_nfs_fin hb))

/-- `Mul` returns a special value or an `NF` one, whatever the operands -/
theorem mul_nfs (a b : Dec) : NFS (a.mul b) := by
  cases a with
  | nan => cases b <;> exact nfs_nan
  | inf n =>
    cases b with
    | nan => exact nfs_nan
    | inf m => exact nfs_inf _
    | fin m c e => simp only [Dec.mul]; split; exact nfs_nan; exact nfs_inf _
  | fin n c e =>
    cases b with
    | nan => exact nfs_nan
    | inf m => simp only [Dec.mul]; split; exact nfs_nan; exact nfs_inf _
    | fin m c' e' =>
      simp only [Dec.mul]
      split
      · exact nfs_of_nf (nf_zero _)
      · exact reduce_nfs _ _ _ _

/-- `Quo` returns a special value or an `NF` one, whatever the operands -/
theorem quo_nfs (a b : Dec) : NFS (a.quo b) := by
  cases a with
  | nan => cases b <;> exact nfs_nan
  | inf n =>
    cases b with
    | nan => exact nfs_nan
    | inf m => exact nfs_nan
    | fin m c e => exact nfs_inf _
  | fin n c e =>
    cases b with
    | nan => exact nfs_nan
    | inf m => exact nfs_of_nf (nf_zero _)
    | fin m c' e' =>
      simp only [Dec.quo]
      split
      · split
        · exact nfs_nan
        · exact nfs_inf _
      · split
        · exact nfs_of_nf (nf_zero _)
        · exact reduce_nfs _ _ _ _

/-- the integer quotient of `QuoRem` -/
theorem quoRem_fst_nfs (a b : Dec) : NFS (a.quoRem b).1 := by
  cases a with
  | nan => cases b <;> exact nfs_nan
  | inf n =>
    cases b with
    | nan => exact nfs_nan
    | inf m => exact nfs_nan
    | fin m c e => exact nfs_inf _
  | fin n c e =>
    cases b with
    | nan => exact nfs_nan
    | inf m => exact nfs_of_nf (nf_zero _)
    | fin m c' e' =>
      simp only [Dec.quoRem]
      split
      · split
        · exact nfs_nan
        · exact nfs_inf _
      · split
        · exact nfs_of_nf (nf_zero _)
        · exact reduce_nfs _ _ _ _

/-- the remainder of `QuoRem` (the dividend is passed through when the divisor is infinite) -/
theorem quoRem_snd_nfs {a : Dec} (b : Dec) (ha : NFS a) : NFS (a.quoRem b).2 := by
  cases a with
  | nan => cases b <;> exact nfs_nan
  | inf n =>
    cases b with
    | nan => exact nfs_nan
    | inf m => exact nfs_nan
    | fin m c e => exact nfs_nan
  | fin n c e =>
    cases b with
    | nan => exact nfs_nan
    | inf m => exact nfs_of_nf (nf_normalize_fin (nf_of_nfs_fin ha))
    | fin m c' e' =>
      simp only [Dec.quoRem]
      split
      · split
        · exact nfs_nan
        · exact nfs_nan
      · split
        · exact nfs_of_nf (nf_zero _)
        · exact reduce_nfs _ _ _ _

/-- `1e6144 * 10` overflows: an infinity, which `checkD` then reports as not-a-number -/
example : NFS (Dec.mul (.fin false 1 6144) (.fin false 10 0)) := mul_nfs _ _

theorem ceil_nf {d : Dec} (h : NF d) : NF d.ceil := by
  cases d with
  | nan => exact absurd (nf_not_special h) (by simp [Dec.isSpecial])
  | inf n => exact absurd (nf_not_special h) (by simp [Dec.isSpecial])
  | fin n c e =>
    have hc := nf_fin_le h
    simp only [Dec.ceil]
    split
    · exact nf_zero _
    · split
      · exact nf_normalize_fin h
      · next hne hge =>
        have hq : c / Dec.pow10 (-e).toNat ≤ Dec.MAXSIG := Nat.le_trans (Nat.div_le_self _ _) hc
        have hq1 : c / Dec.pow10 (-e).toNat + 1 ≤ Dec.MAXSIG := by
          have hp : 10 ≤ Dec.pow10 (-e).toNat := by
            unfold Dec.pow10
            have : 1 ≤ (-e).toNat := by omega
            calc 10 = 10 ^ 1 := rfl
              _ ≤ 10 ^ (-e).toNat := Nat.pow_le_pow_right (by decide) this
          have : c / Dec.pow10 (-e).toNat ≤ c / 10 := Nat.div_le_div_left hp (by decide)
          have h2 : c / 10 ≤ Dec.MAXSIG / 10 := Nat.div_le_div_right hc
          have h3 : Dec.MAXSIG / 10 + 1 ≤ Dec.MAXSIG := by decide
          omega
        split
        · exact nf_mk _ _ _ hq (by decide) (by decide)
        · split
          · exact nf_mk _ _ _ hq (by decide) (by decide)
          · exact nf_mk _ _ _ hq1 (by decide) (by decide)

theorem floor_nf {d : Dec} (h : NF d) : NF d.floor := by
  cases d with
  | nan => exact absurd (nf_not_special h) (by simp [Dec.isSpecial])
  | inf n => exact absurd (nf_not_special h) (by simp [Dec.isSpecial])
  | fin n c e =>
    have hc := nf_fin_le h
    simp only [Dec.floor]
    split
    · exact nf_zero _
    · split
      · exact nf_normalize_fin h
      · next hne hge =>
        have hq : c / Dec.pow10 (-e).toNat ≤ Dec.MAXSIG := Nat.le_trans (Nat.div_le_self _ _) hc
        have hq1 : c / Dec.pow10 (-e).toNat + 1 ≤ Dec.MAXSIG := by
          have hp : 10 ≤ Dec.pow10 (-e).toNat := by
            unfold Dec.pow10
            have : 1 ≤ (-e).toNat := by omega
            calc 10 = 10 ^ 1 := rfl
              _ ≤ 10 ^ (-e).toNat := Nat.pow_le_pow_right (by decide) this
          have : c / Dec.pow10 (-e).toNat ≤ c / 10 := Nat.div_le_div_left hp (by decide)
          have h2 : c / 10 ≤ Dec.MAXSIG / 10 := Nat.div_le_div_right hc
          have h3 : Dec.MAXSIG / 10 + 1 ≤ Dec.MAXSIG := by decide
          omega
        split
        · exact nf_mk _ _ _ hq (by decide) (by decide)
        · split
          · exact nf_mk _ _ _ hq1 (by decide) (by decide)
          · exact nf_mk _ _ _ hq (by decide) (by decide)

/-- `ceil(2.5)` is `3` -/
example : NF (Dec.fin false 25 (-1)).ceil :=
  ceil_nf ⟨false, 25, -1, by decide, by decide, by decide, by decide⟩

/-- the decimal of a Go integer (every kind fits: `2^64 ≤ MAXSIG`) -/
theorem ofInt_nf {i : Int} (h : i.natAbs ≤ Dec.MAXSIG) : NF (Dec.ofInt i) := by
  unfold Dec.ofInt
  split
  · exact nf_zero _
  · exact nf_mk _ _ _ h (by decide) (by decide)

example : NF (Dec.ofInt (-42)) := ofInt_nf (by decide)

/-! ### the parsers -/

theorem parseFinish_nf {s : Dec.PState} {neg : Bool} {d : Dec} (h : Dec.parseFinish s neg = .ok d) : NF d := by
  unfold Dec.parseFinish at h
  by_cases h1 : (!s.caneof) = true
  · simp [h1] at h
  · simp only [h1] at h
    by_cases h2 : s.c = 0
    · simp only [h2, if_true] at h; cases h; exact nf_zero _
    · simp only [h2, if_false] at h
      by_cases h3 : s.maxexp = true
      · simp only [h3, if_true] at h
        by_cases h4 : s.eneg = true
        · simp only [h4, if_true] at h; cases h; exact nf_zero _
        · simp only [h4] at h; cases h
      · simp only [h3] at h
        generalize ((if s.eneg then -(s.exp : Int) else s.exp) - s.nfrac) = e at h
        by_cases h5 : e > Dec.EMAX + 39
        · simp only [h5, if_true] at h; cases h
        · simp only [h5, if_false] at h
          by_cases h6 : e < Dec.EMIN - 39
          · simp only [h6, if_true] at h; cases h; exact nf_zero _
          · simp only [h6, if_false] at h
            have hb := reduce_nfs neg s.c e s.sticky
            have hn := C18BL.reduce_ne_nan neg s.c e s.sticky
            generalize Dec.reduce neg s.c e s.sticky = r at h hb hn
            cases r with
            | nan => exact absurd rfl hn
            | inf n => cases h
            | fin n c e => cases h; exact nf_of_nfs_fin hb

/-- an `.ok` result of decimal128's number parser is a normalised value of the format -/
theorem parseNumber_nf {t : Bytes} {neg sep : Bool} {d : Dec} (h : Dec.parseNumber t neg sep = .ok d) : NF d := by
  rw [Dec.parseNumber_eq] at h
  split at h
  · cases h
  · exact parseFinish_nf h

/-- `decimal128.Parse` of a valid JSON number text, when it succeeds, gives a normalised value of the format -/
theorem parse_valid_nf {t : Bytes} {d : Dec} (hv : Json.isValidNumber t = true) (h : Dec.parse t = .ok d) : NF d := by
  obtain ⟨b, r, ht, h1, h2⟩ := C18BL.jnumber_shape ((JsonGrammar.isValidNumber_iff t).mp hv)
  rcases ht with rfl | rfl
  · rw [C18BL.parse_digit h1 h2] at h; exact parseNumber_nf h
  · rw [C18BL.parse_neg_digit h1 h2] at h; exact parseNumber_nf h

/-- `"-2.50"` -/
example : NF (.fin true 25 (-1)) := parse_valid_nf (t := [0x2D, 0x32, 0x2E, 0x35, 0x30]) (by decide) (by decide)

/-- `Decimal.UnmarshalJSON` (used by `to_number`) succeeds only with a normalised value of the format -/
theorem unmarshalJSON_nf {s : Bytes} {r : Dec} (h : Dec.unmarshalJSON s = some r) : NF r := by
  unfold Dec.unmarshalJSON at h
  split at h
  · cases h; exact nf_zero _
  · split at h
    · cases h; exact nf_zero _
    · simp only at h
      split at h
      · next hp => cases h; exact parseNumber_nf hp
      · cases h

/-! ## numbers and values -/

/-- a number as the evaluator holds it, of which `==`, `json.Marshal` and re-reading are well behaved: a `json.Number`
    holding a valid JSON number text that `decimal128.Parse` accepts (`1e99999` is not), a normalised decimal of the
    format, a Go integer inside the range of its kind; no binary float -/
def GNum : Num → Prop
  | .jnum t => Json.isValidNumber t = true ∧ ∃ d, Dec.parse t = .ok d
  | .dec d => NF d
  | .int k v => k.InRange v
  | .f64 _ => False
  | .f32 _ => False

mutual
/-- every number inside the value is `GNum`, and there is no foreign Go value -/
def Gd : Val → Prop
  | .null => True
  | .bool _ => True
  | .str _ => True
  | .num n => GNum n
  | .arr _ xs => GdL xs
  | .obj kvs => GdF kvs
  | .foreign _ => False
/-- … every element -/
def GdL : List Val → Prop
  | [] => True
  | x :: xs => Gd x ∧ GdL xs
/-- … every member value -/
def GdF : List (Bytes × Val) → Prop
  | [] => True
  | (_, x) :: kvs => Gd x ∧ GdF kvs
end

theorem gdL_iff : ∀ {xs : List Val}, GdL xs ↔ ∀ x ∈ xs, Gd x
  | [] => by simp [GdL]
  | x :: xs => by simp [GdL, gdL_iff (xs := xs)]

theorem gdF_iff : ∀ {kvs : List (Bytes × Val)}, GdF kvs ↔ ∀ k x, (k, x) ∈ kvs → Gd x
  | [] => by simp [GdF]
  | (k, x) :: kvs => by
    simp only [GdF, gdF_iff (kvs := kvs), List.mem_cons, Prod.mk.injEq]
    constructor
    · rintro ⟨h1, h2⟩ k' x' (⟨_, rfl⟩ | hm)
      · exact h1
      · exact h2 k' x' hm
    · intro h
      exact ⟨h k x (Or.inl ⟨rfl, rfl⟩), fun k' x' hm => h k' x' (Or.inr hm)⟩

theorem gd_arr {t : ATag} {xs : List Val} : Gd (.arr t xs) ↔ ∀ x ∈ xs, Gd x := by
  simp only [Gd]; exact gdL_iff
theorem gd_obj {kvs : List (Bytes × Val)} : Gd (.obj kvs) ↔ ∀ k x, (k, x) ∈ kvs → Gd x := by
  simp only [Gd]; exact gdF_iff
@[simp] theorem gd_null : Gd .null := by simp [Gd]
@[simp] theorem gd_bool (b : Bool) : Gd (.bool b) := by simp [Gd]
@[simp] theorem gd_str (s : Bytes) : Gd (.str s) := by simp [Gd]
@[simp] theorem gd_f64 (f : F64) : ¬ Gd (.num (.f64 f)) := by simp [Gd, GNum]
@[simp] theorem gd_f32 (f : F64) : ¬ Gd (.num (.f32 f)) := by simp [Gd, GNum]
@[simp] theorem gd_foreign (t : Nat) : ¬ Gd (.foreign t) := by simp [Gd]
theorem gd_dec {d : Dec} : Gd (.num (.dec d)) ↔ NF d := by simp [Gd, GNum]
theorem gd_jnum {t : Bytes} : Gd (.num (.jnum t)) ↔ Json.isValidNumber t = true ∧ ∃ d, Dec.parse t = .ok d := by
  simp [Gd, GNum]
theorem gd_int {k : IntKind} {v : Int} : Gd (.num (.int k v)) ↔ k.InRange v := by simp [Gd, GNum]

/-- `{"a": [1, 2.5e3, null]}` with a decimal `-0.5` and a Go integer beside it -/
example : Gd (.obj [([0x61], .arr .plain [.num (.jnum [0x31]), .num (.jnum [0x32, 0x2E, 0x35, 0x65, 0x33]), .null]),
    ([0x62], .num (.dec (.fin true 5 (-1)))), ([0x63], .num (.int .i64 7))]) := by
  simp only [Gd, GdF, GdL, GNum, and_true]
  refine ⟨⟨⟨by decide, .fin false 1 0, by decide⟩, by decide, .fin false 25 2, by decide⟩,
    ⟨true, 5, -1, by decide, by decide, by decide, by decide⟩, ?_⟩
  simp [IntKind.InRange]

/-- `json.Number("1e99999")`: a valid JSON number that `decimal128.Parse` refuses (range) -/
example : ¬ Gd (.num (.jnum bigNum)) := by
  rw [gd_jnum]
  rintro ⟨_, d, h⟩
  have : Dec.parse bigNum = .range (.inf false) := by decide
  rw [this] at h; cases h

/-- `GNum` implies the hypothesis of the round-trip theorems -/
theorem gnum_good {n : Num} (h : GNum n) : GoodNum n := by
  cases n with
  | jnum t =>
    obtain ⟨hv, d, hd⟩ := h
    refine ⟨d, by simp [toDecimal, hd], ?_⟩
    have := nf_not_special (parse_valid_nf hv hd)
    intro e; subst e; simp [Dec.isSpecial] at this
  | dec d => exact nf_inFormat h
  | int k v => exact h
  | f64 f => exact h
  | f32 f => exact h

mutual
/-- `Gd` implies `NumsAll GoodNum` -/
theorem gd_good : ∀ v : Val, Gd v → NumsAll GoodNum v
  | .null, _ => trivial
  | .bool _, _ => trivial
  | .str _, _ => trivial
  | .num n, h => by simp only [NumsAll]; exact gnum_good (by simpa [Gd] using h)
  | .arr _ xs, h => by simp only [NumsAll]; exact gdL_good xs (by simpa [Gd] using h)
  | .obj kvs, h => by simp only [NumsAll]; exact gdF_good kvs (by simpa [Gd] using h)
  | .foreign _, _ => trivial
theorem gdL_good : ∀ xs : List Val, GdL xs → NumsAllL GoodNum xs
  | [], _ => trivial
  | x :: xs, h => by
    simp only [GdL] at h
    simp only [NumsAllL]; exact ⟨gd_good x h.1, gdL_good xs h.2⟩
theorem gdF_good : ∀ kvs : List (Bytes × Val), GdF kvs → NumsAllF GoodNum kvs
  | [], _ => trivial
  | (_, x) :: kvs, h => by
    simp only [GdF] at h
    simp only [NumsAllF]; exact ⟨gd_good x h.1, gdF_good kvs h.2⟩
end

mutual
/-- `Gd` implies `Val.Fin` (C18B) -/
theorem gd_fin : ∀ v : Val, Gd v → v.Fin = true
  | .null, _ => rfl
  | .bool _, _ => rfl
  | .str _, _ => rfl
  | .num (.jnum t), h => by rw [Val.fin_jnum]; exact (gd_jnum.mp h).1
  | .num (.dec d), h => by rw [Val.fin_dec]; exact nf_not_special (gd_dec.mp h)
  | .num (.int _ _), _ => by simp
  | .num (.f64 _), h => absurd h (gd_f64 _)
  | .num (.f32 _), h => absurd h (gd_f32 _)
  | .arr _ xs, h => by simp only [Val.Fin]; exact gdL_fin xs (by simpa [Gd] using h)
  | .obj kvs, h => by simp only [Val.Fin]; exact gdF_fin kvs (by simpa [Gd] using h)
  | .foreign _, h => absurd h (gd_foreign _)
theorem gdL_fin : ∀ xs : List Val, GdL xs → Val.FinL xs = true
  | [], _ => rfl
  | x :: xs, h => by
    simp only [GdL] at h
    simp only [Val.FinL, Bool.and_eq_true]; exact ⟨gd_fin x h.1, gdL_fin xs h.2⟩
theorem gdF_fin : ∀ kvs : List (Bytes × Val), GdF kvs → Val.FinF kvs = true
  | [], _ => rfl
  | (_, x) :: kvs, h => by
    simp only [GdF] at h
    simp only [Val.FinF, Bool.and_eq_true]; exact ⟨gd_fin x h.1, gdF_fin kvs h.2⟩
end

example : NumsAll GoodNum (.arr .plain [.num (.jnum [0x31]), .str []]) :=
  gd_good _ (by simp only [Gd, GdL, GNum, and_true]; exact ⟨by decide, .fin false 1 0, by decide⟩)

/-! ### the decimal of a `Gd` number -/

/-- the key number lemma: the decimal of a `Gd` number is a normalised value of the format -/
theorem toDecimal_nf {x : Val} {d : Dec} (hx : Gd x) (h : toDecimal x = some d) : NF d := by
  cases x with
  | num n =>
    cases n with
    | f64 f => exact absurd hx (gd_f64 _)
    | f32 f => exact absurd hx (gd_f32 _)
    | jnum t =>
      simp only [toDecimal] at h
      split at h
      · next hp => cases h; exact parse_valid_nf (gd_jnum.mp hx).1 hp
      · cases h
    | dec d' => simp only [toDecimal, Option.some.injEq] at h; subst h; exact gd_dec.mp hx
    | int k v =>
      simp only [toDecimal, Option.some.injEq] at h; subst h
      have := IntKind.InRange.natAbs_lt (gd_int.mp hx)
      exact ofInt_nf (by have := Dec.two64_le_MAXSIG; omega)
  | _ => simp [toDecimal] at h

example : NF (.fin false 1 2) :=
  toDecimal_nf (x := .num (.jnum [0x31, 0x65, 0x32])) (gd_jnum.mpr ⟨by decide, .fin false 1 2, by decide⟩) (by decide)

theorem toFloat_none_gd {x : Val} (h : Gd x) : toFloat x = none := C18BL.toFloat_none_fin (gd_fin x h)

/-- the overflow / NaN check of the arithmetic operators lets only `NF` decimals through -/
theorem checkD_gd {r : Dec} {v : Val} (hr : NFS r) (h : checkD r = .ok v) : Gd v := by
  unfold checkD at h
  split at h
  · simp [errNaN] at h
  · split at h
    · simp [errNaN] at h
    · cases h
      rw [gd_dec]
      rcases hr with hs | hn
      · cases r <;> simp_all [Dec.isInf, Dec.isNaN, Dec.isSpecial]
      · exact hn

/-- `+ - * / // %` on `Gd` operands: the result is a `Gd` decimal -/
theorem arith_gd {fop : F64 → F64 → F64} {dop : Dec → Dec → Dec} {x y v : Val}
    (hd : ∀ a b, NFS a → NFS b → NFS (dop a b))
    (hv : arith fop dop x y = .ok v) (hx : Gd x) (hy : Gd y) : Gd v := by
  unfold arith at hv
  have hf : toFloatPair x y = none := by simp [toFloatPair, toFloat_none_gd hx]
  rw [hf] at hv
  simp only at hv
  split at hv
  · simp [errType] at hv
  · next xd hxd =>
    split at hv
    · simp [errType] at hv
    · next yd hyd =>
      exact checkD_gd (hd _ _ (nfs_of_nf (toDecimal_nf hx hxd)) (nfs_of_nf (toDecimal_nf hy hyd))) hv

/-- `abs` of a `Gd` value is `Gd` -/
theorem numAbs_gd {x v : Val} (h : Gd x) (hv : numAbs x = .ok v) : Gd v := by
  unfold numAbs at hv; rw [toFloat_none_gd h] at hv; simp only at hv
  split at hv
  · simp [errType] at hv
  · next d hd => cases hv; exact gd_dec.mpr (nf_abs (toDecimal_nf h hd))
/-- `ceil` of a `Gd` value is `Gd` -/
theorem numCeil_gd {x v : Val} (h : Gd x) (hv : numCeil x = .ok v) : Gd v := by
  unfold numCeil at hv; rw [toFloat_none_gd h] at hv; simp only at hv
  split at hv
  · simp [errType] at hv
  · next d hd => cases hv; exact gd_dec.mpr (ceil_nf (toDecimal_nf h hd))
/-- `floor` of a `Gd` value is `Gd` -/
theorem numFloor_gd {x v : Val} (h : Gd x) (hv : numFloor x = .ok v) : Gd v := by
  unfold numFloor at hv; rw [toFloat_none_gd h] at hv; simp only at hv
  split at hv
  · simp [errType] at hv
  · next d hd => cases hv; exact gd_dec.mpr (floor_nf (toDecimal_nf h hd))

/-- unary minus of a `Gd` value is `Gd` -/
theorem negateVal_gd {x : Val} (h : Gd x) : Gd (negateVal x) := by
  unfold negateVal; rw [toFloat_none_gd h]; simp only
  split
  · simp
  · next d hd =>
    have := toDecimal_nf h hd
    split
    · exact gd_dec.mpr this
    · exact gd_dec.mpr (nf_neg this)

/-- the running sum of `sum` / `avg` stays "special or `NF`" -/
theorem sumDec_nfs : ∀ {xs : List Val} {acc r : Dec}, (∀ x ∈ xs, Gd x) → NFS acc → sumDec xs acc = some r → NFS r
  | [], acc, r, _, ha, h => by simp only [sumDec, Option.some.injEq] at h; subst h; exact ha
  | x :: xs, acc, r, hx, ha, h => by
    simp only [sumDec] at h
    split at h
    · cases h
    · next d hd =>
      exact sumDec_nfs (fun y hy => hx y (List.mem_cons_of_mem _ hy))
        (add_nfs ha (nfs_of_nf (toDecimal_nf (hx x (List.mem_cons_self ..)) hd))) h

/-- `sum` of a `Gd` array is a `Gd` decimal -/
theorem numSum_gd {x v : Val} (hx : Gd x) (hv : numSum x = .ok v) : Gd v := by
  unfold numSum at hv
  split at hv
  · next t xs =>
    split at hv
    · simp [errType] at hv
    · next r hr =>
      split at hv
      · exact checkD_gd (sumDec_nfs (gd_arr.mp hx) (nfs_of_nf (nf_zero _)) hr) hv
      · simp at hv
  · simp [errType] at hv

/-- `avg` of a `Gd` array is null or a `Gd` decimal (the quotient is rounded into the format whatever the count) -/
theorem numAvg_gd {x v : Val} (hv : numAvg x = .ok v) : Gd v := by
  unfold numAvg at hv
  split at hv
  · split at hv
    · cases hv; simp
    · split at hv
      · simp [errType] at hv
      · split at hv
        · exact checkD_gd (quo_nfs _ _) hv
        · simp at hv
  · simp [errType] at hv

/-- `to_number` of a `Gd` value is `Gd` -/
theorem toNumber_gd {x : Val} (h : Gd x) : Gd (toNumber x) := by
  unfold toNumber
  split
  · exact h
  · split
    · split
      · next d hd => exact gd_dec.mpr (unmarshalJSON_nf hd)
      · simp
    · simp
  · simp

example : Gd (toNumber (.str [0x31, 0x65, 0x33])) := toNumber_gd (by simp)

/-- the decimals of `Gd` elements are `NF` -/
theorem allDecimals_nf : ∀ {xs : List Val} {ds : List Dec}, (∀ x ∈ xs, Gd x) → allDecimals xs = some ds →
    ∀ d ∈ ds, NF d
  | [], ds, _, h => by simp [allDecimals] at h; subst h; simp
  | x :: xs, ds, hx, h => by
    simp only [allDecimals] at h
    split at h
    · cases h
    · next d hd =>
      simp only [Option.map_eq_some_iff] at h
      obtain ⟨ds', hds, rfl⟩ := h
      intro d' hd'
      rcases List.mem_cons.mp hd' with rfl | hd'
      · exact toDecimal_nf (hx x (List.mem_cons_self ..)) hd
      · exact allDecimals_nf (fun y hy => hx y (List.mem_cons_of_mem _ hy)) hds d' hd'

/-- `max` of a `Gd` array is `Gd`: one of the decimals of the elements -/
theorem arrayMax_gd {x v : Val} (hx : Gd x) (hv : arrayMax x = .ok v) : Gd v := by
  unfold arrayMax at hv
  split at hv
  · next t xs =>
    split at hv
    · cases hv; simp
    · split at hv
      · cases hv; simp
      · simp [errType] at hv
    · split at hv
      · next d ds hd =>
        split at hv
        · simp at hv
        · cases hv
          have hall := allDecimals_nf (gd_arr.mp hx) hd
          rw [gd_dec]
          rcases C18BL.maxDec_mem ds d with e | e
          · rw [e]; exact hall d (List.mem_cons_self ..)
          · exact hall _ (List.mem_cons_of_mem _ e)
      · simp [errType] at hv
  · simp [errType] at hv

/-- `min` of a `Gd` array is `Gd` -/
theorem arrayMin_gd {x v : Val} (hx : Gd x) (hv : arrayMin x = .ok v) : Gd v := by
  unfold arrayMin at hv
  split at hv
  · next t xs =>
    split at hv
    · cases hv; simp
    · split at hv
      · cases hv; simp
      · simp [errType] at hv
    · split at hv
      · next d ds hd =>
        split at hv
        · simp at hv
        · cases hv
          have hall := allDecimals_nf (gd_arr.mp hx) hd
          rw [gd_dec]
          rcases C18BL.minDec_mem ds d with e | e
          · rw [e]; exact hall d (List.mem_cons_self ..)
          · exact hall _ (List.mem_cons_of_mem _ e)
      · simp [errType] at hv
  · simp [errType] at hv

end Jmes.C18E
