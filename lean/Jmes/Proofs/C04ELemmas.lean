/-
  C04 (fourth part), helpers: the parser reads its input left to right through a window of two tokens, and what it
  has not pulled cannot influence it.

  `ext r le s` is the parser state `s` with the token list `r` appended to the unread tokens and the pending lexical
  error replaced by `le`.  `Fr x y` ("frame"): whenever `x`, run from a state whose input is CUT (a pending lexical
  error: every pull beyond the unread tokens fails), ends with anything but that lexical error — a result or an error
  of any other kind — then `y`, run from the extended state, ends the same way (same value, same error; the state
  extended likewise).  `frameAt` proves `Fr X X` for the thirteen functions of the mutual block and for `indexP`, by
  induction on the fuel, in the style of `Pratt.Mono` / `ParserInv.PresAt`.

  `parseToks` is `Parser.parse` after the lexer; `parseToks_prefix`: a non-lexical error on a cut prefix is the error
  on every extension of the prefix.
-/
import Jmes.Proofs.Pratt
import Jmes.Proofs.Fuel
namespace Jmes.C04ELemmas
open Jmes Jmes.Parser Jmes.Pratt

/-- `s` with more input behind what is unread, and another pending lexical error -/
def ext (r : List Token) (le : Option LexErr) (s : PState) : PState :=
  { s with rest := s.rest ++ r, lexErr := le }

@[simp] theorem ext_curr (r le s) : (ext r le s).curr = s.curr := rfl
@[simp] theorem ext_next (r le s) : (ext r le s).next = s.next := rfl

/-- the two runs end alike -/
def Rel {α} (r : List Token) (le : Option LexErr) (a b : Except PErr (α × PState)) : Prop :=
  match a with
  | .ok (v, s') => b = .ok (v, ext r le s') ∧ s'.lexErr.isSome = true
  | .error e => b = .error e

/-- the frame property -/
structure Fr {α} (r : List Token) (le : Option LexErr) (x y : PM α) : Prop where
  h : ∀ s, s.lexErr.isSome = true → (∀ e, x s ≠ .error (.lex e)) → Rel r le (x s) (y (ext r le s))

section
variable {r : List Token} {le : Option LexErr}

theorem Fr.pure {α} (a : α) : Fr r le (pure a : PM α) (pure a) := ⟨fun _ hs _ => ⟨rfl, hs⟩⟩
theorem Fr.fail {α} (e : PErr) : Fr r le (Parser.fail e : PM α) (Parser.fail e) := ⟨fun _ _ _ => rfl⟩
theorem Fr.currType : Fr r le Parser.currType Parser.currType := ⟨fun _ hs _ => ⟨rfl, hs⟩⟩
theorem Fr.nextType : Fr r le Parser.nextType Parser.nextType := ⟨fun _ hs _ => ⟨rfl, hs⟩⟩
theorem Fr.currValue : Fr r le Parser.currValue Parser.currValue := ⟨fun _ hs _ => ⟨rfl, hs⟩⟩

theorem Fr.bind {α β} {x y : PM α} {f g : α → PM β} (h1 : Fr r le x y) (h2 : ∀ a, Fr r le (f a) (g a)) :
    Fr r le (x >>= f) (y >>= g) := by
  constructor
  intro s hs hne
  have h1' := h1.h s hs
  rw [bind_run] at hne ⊢
  rw [bind_run]
  cases hx : x s with
  | error e =>
    rw [hx] at hne h1'
    have := h1' (fun e' h => hne e' (by rw [h]))
    simp only [Rel] at this ⊢
    rw [this]
  | ok p =>
    obtain ⟨a, s1⟩ := p
    rw [hx] at hne h1'
    obtain ⟨e1, e2⟩ := h1' (fun e' h => by cases h)
    simp only at hne ⊢
    rw [e1]
    exact (h2 a).h s1 e2 hne

/-- `get`: the two runs see different states, but the continuation only looks at the window -/
theorem Fr.get_bind {α} {f g : PState → PM α} (h : ∀ s, Fr r le (f s) (g (ext r le s))) :
    Fr r le ((get : PM PState) >>= f) ((get : PM PState) >>= g) := by
  constructor
  intro s hs hne
  rw [bind_ok (get_run s)] at hne ⊢
  rw [bind_ok (get_run _)]
  exact (h s).h s hs hne

theorem Fr.ite {α} {c : Prop} [Decidable c] {a a' b b' : PM α} (h1 : Fr r le a a') (h2 : Fr r le b b') :
    Fr r le (if c then a else b) (if c then a' else b') := by
  split <;> assumption

theorem Fr.advance : Fr r le Parser.advance Parser.advance := by
  constructor
  intro s hs hne
  obtain ⟨c, n, rest, l⟩ := s
  cases rest with
  | nil =>
    cases l with
    | none => cases hs
    | some e => exact absurd rfl (hne e)
  | cons t r' => exact ⟨rfl, hs⟩

theorem Fr.advance2 : Fr r le Parser.advance2 Parser.advance2 := by
  constructor
  intro s hs hne
  obtain ⟨c, n, rest, l⟩ := s
  cases rest with
  | nil =>
    cases l with
    | none => cases hs
    | some e => exact absurd rfl (hne e)
  | cons t r' =>
    cases r' with
    | nil =>
      cases l with
      | none => cases hs
      | some e => exact absurd rfl (hne e)
    | cons t' r'' => exact ⟨rfl, hs⟩

theorem Fr.indexP (child : Option INode) : Fr r le (Parser.indexP child) (Parser.indexP child) := by
  unfold Parser.indexP
  repeat (first
    | exact Fr.pure _
    | exact Fr.fail _
    | exact Fr.currType
    | exact Fr.nextType
    | exact Fr.currValue
    | exact Fr.advance
    | exact Fr.advance2
    | apply Fr.bind
    | apply Fr.ite
    | intro _
    | split)

variable (r le) in
/-- all thirteen functions of the mutual block have the frame property at fuel `f` -/
structure FrameAt (f : Nat) : Prop where
  expr : ∀ p, Fr r le (expression f p) (expression f p)
  loop : ∀ n p, Fr r le (exprLoop f n p) (exprLoop f n p)
  filt : Fr r le (filterP f) (filterP f)
  args : ∀ a b c, Fr r le (fnArgs f a b c) (fnArgs f a b c)
  vargs : ∀ a, Fr r le (fnVarArgs f a) (fnVarArgs f a)
  func : Fr r le (function f) (function f)
  letp : ∀ a, Fr r le (letP f a) (letP f a)
  prim : Fr r le (primaryExpression f) (primaryExpression f)
  proj : ∀ p, Fr r le (projection f p) (projection f p)
  sarr : ∀ c, Fr r le (selectArray f c) (selectArray f c)
  sarrl : ∀ c l, Fr r le (selectArrayLoop f c l) (selectArrayLoop f c l)
  sobj : ∀ c, Fr r le (selectObject f c) (selectObject f c)
  sobjl : ∀ c l, Fr r le (selectObjectLoop f c l) (selectObjectLoop f c l)

macro "frame_tac" ih:ident : tactic => `(tactic|
  repeat (first
    | exact Fr.pure _
    | exact Fr.fail _
    | exact Fr.currType
    | exact Fr.nextType
    | exact Fr.currValue
    | exact Fr.advance
    | exact Fr.advance2
    | exact Fr.indexP _
    | exact FrameAt.expr $ih _
    | exact FrameAt.loop $ih _ _
    | exact FrameAt.filt $ih
    | exact FrameAt.args $ih _ _ _
    | exact FrameAt.vargs $ih _
    | exact FrameAt.func $ih
    | exact FrameAt.letp $ih _
    | exact FrameAt.prim $ih
    | exact FrameAt.proj $ih _
    | exact FrameAt.sarr $ih _
    | exact FrameAt.sarrl $ih _ _
    | exact FrameAt.sobj $ih _
    | exact FrameAt.sobjl $ih _ _
    | apply Fr.bind
    | apply Fr.ite
    | intro _
    | split))

theorem frameAt_zero : FrameAt r le 0 where
  expr p := by rw [expression.eq_1]; exact Fr.fail _
  loop n p := by rw [exprLoop.eq_1]; exact Fr.fail _
  filt := by rw [filterP.eq_1]; exact Fr.fail _
  args a b c := by rw [fnArgs.eq_1]; exact Fr.fail _
  vargs a := by rw [fnVarArgs.eq_1]; exact Fr.fail _
  func := by rw [function.eq_1]; exact Fr.fail _
  letp a := by rw [letP.eq_1]; exact Fr.fail _
  prim := by rw [primaryExpression.eq_1]; exact Fr.fail _
  proj p := by rw [projection.eq_1]; exact Fr.fail _
  sarr c := by rw [selectArray.eq_1]; exact Fr.fail _
  sarrl c l := by rw [selectArrayLoop.eq_1]; exact Fr.fail _
  sobj c := by rw [selectObject.eq_1]; exact Fr.fail _
  sobjl c l := by rw [selectObjectLoop.eq_1]; exact Fr.fail _

theorem frameAt_succ (f : Nat) (ih : FrameAt r le f) : FrameAt r le (f + 1) where
  expr p := by rw [expression.eq_2 p f]; frame_tac ih
  loop n p := by rw [exprLoop.eq_2 n p f]; frame_tac ih
  filt := by rw [filterP.eq_2 f]; frame_tac ih
  args a b c := by rw [fnArgs.eq_2 a b c f]; frame_tac ih
  vargs a := by rw [fnVarArgs.eq_2 a f]; frame_tac ih
  func := by rw [function.eq_2 f]; frame_tac ih
  letp a := by rw [letP.eq_2 a f]; frame_tac ih
  prim := by
    rw [primaryExpression.eq_2 f]; apply Fr.get_bind; intro s; dsimp only [ext_curr, ext_next]; frame_tac ih
  proj p := by
    rw [projection.eq_2 p f]; apply Fr.get_bind; intro s; dsimp only [ext_curr, ext_next]; frame_tac ih
  sarr c := by rw [selectArray.eq_2 c f]; frame_tac ih
  sarrl c l := by rw [selectArrayLoop.eq_2 c l f]; frame_tac ih
  sobj c := by rw [selectObject.eq_2 c f]; frame_tac ih
  sobjl c l := by
    rw [selectObjectLoop.eq_2 c l f]; apply Fr.get_bind; intro s; dsimp only [ext_curr, ext_next]; frame_tac ih

theorem frameAt : ∀ f, FrameAt r le f
  | 0 => frameAt_zero
  | f + 1 => frameAt_succ f (frameAt f)

end

/-! ## The top level -/

/-- the top-level block of `Parser.parse` -/
def topBlock (f : Nat) : PM INode := do
  let node ← expression f 1
  if (← currType) != .end then fail .unexpectedToken
  return node

/-- `Parser.parse` after the lexer: the two initial pulls, the top-level block, with the fuel `Parser.parse` gives -/
def parseToks (ts : List Token) (le : Option LexErr) : Except PErr INode :=
  let init : Except PErr PState :=
    match ts with
    | t0 :: t1 :: rest => .ok ⟨t0, t1, rest, le⟩
    | [t0] => (match le with
      | some err => .error (.lex err)
      | none => .ok ⟨t0, ⟨.end, []⟩, [], none⟩)
    | [] => (match le with
      | some err => .error (.lex err)
      | none => .ok ⟨⟨.end, []⟩, ⟨.end, []⟩, [], none⟩)
  match init with
  | .error err => .error err
  | .ok st =>
    match (topBlock (fuelFor ts.length)).run st with
    | .ok (n, _) => .ok n
    | .error err => .error err

theorem parse_eq_parseToks (e : Bytes) : Parser.parse e = parseToks (lexAll e).1 (lexAll e).2 := rfl


theorem topBlock_frame (r : List Token) (le : Option LexErr) (f : Nat) : Fr r le (topBlock f) (topBlock f) := by
  unfold topBlock
  have ih := frameAt (r := r) (le := le) f
  frame_tac ih

theorem topBlock_le {f g : Nat} (h : f ≤ g) : Le (topBlock f) (topBlock g) := by
  unfold topBlock
  exact Le.bind ((mono_le h).expr 1) (fun _ => Le.refl _)

theorem topBlock_nofuel (n : Nat) (st : PState) (h : Fuel.mu st ≤ n) : topBlock (fuelFor n) st ≠ .error .fuel := by
  have := Fuel.top_ok n st h
  intro hc
  unfold Fuel.OK at this
  have hc' : (do
      let node ← expression (fuelFor n) 1
      if (← currType) != .end then fail .unexpectedToken
      return node : PM INode) st = .error .fuel := hc
  rw [hc'] at this
  exact this rfl

/-- **prefix determinacy**: whatever `Parser.parse` answers on a token list whose input is cut behind it (a pending
    lexical error), unless the answer is that lexical error, it answers on every extension of the list -/
theorem parseToks_prefix {pre : List Token} {X : LexErr} {res : Except PErr INode}
    (h : parseToks pre (some X) = res) (hne : ∀ x, res ≠ .error (.lex x)) (r : List Token) (le : Option LexErr) :
    parseToks (pre ++ r) le = res := by
  match pre, h with
  | [], h => exact absurd h.symm (hne X)
  | [_], h => exact absurd h.symm (hne X)
  | t0 :: t1 :: rest, h =>
    subst h
    have hmu : Fuel.mu ⟨t0, t1, rest, some X⟩ ≤ (t0 :: t1 :: rest).length := by
      have := Fuel.tk_le t0; have := Fuel.tk_le t1
      unfold Fuel.mu; simp only [List.length_cons]; omega
    have hnf := topBlock_nofuel _ _ hmu
    have hfr := (topBlock_frame r le (fuelFor (t0 :: t1 :: rest).length)).h ⟨t0, t1, rest, some X⟩ rfl
    have hlen : fuelFor (t0 :: t1 :: rest).length ≤ fuelFor ((t0 :: t1 :: rest) ++ r).length := by
      unfold fuelFor; simp only [List.length_append]; omega
    have hle := (topBlock_le hlen).h (ext r le ⟨t0, t1, rest, some X⟩)
    show (match (topBlock (fuelFor ((t0 :: t1 :: rest) ++ r).length)) (ext r le ⟨t0, t1, rest, some X⟩) with
      | .ok (n, _) => Except.ok n | .error err => .error err) = 
      (match (topBlock (fuelFor (t0 :: t1 :: rest).length)) ⟨t0, t1, rest, some X⟩ with
      | .ok (n, _) => Except.ok n | .error err => .error err)
    cases hx : topBlock (fuelFor (t0 :: t1 :: rest).length) ⟨t0, t1, rest, some X⟩ with
    | error e =>
      have hne' : ∀ x, e ≠ .lex x := fun x hc => hne x (by
        show (match (topBlock (fuelFor (t0 :: t1 :: rest).length)) ⟨t0, t1, rest, some X⟩ with
          | .ok (n, _) => Except.ok n | .error err => .error err) = _
        rw [hx, hc])
      rw [hx] at hfr hnf
      have h1 : topBlock (fuelFor (t0 :: t1 :: rest).length) (ext r le ⟨t0, t1, rest, some X⟩) = .error e :=
        hfr (fun x hc => hne' x (by cases hc; rfl))
      rw [hle (by rw [h1]; exact hnf), h1]
    | ok p =>
      obtain ⟨n, s'⟩ := p
      rw [hx] at hfr
      obtain ⟨h1, _⟩ := hfr (fun x hc => by cases hc)
      rw [hle (by rw [h1]; intro hc; cases hc), h1]

end Jmes.C04ELemmas
