/-
  C10 (third part), helpers: `fullParen` (write every implied pair of parentheses), `strip` (remove every pair of
  parentheses), and the inductions over `PTree` that show that neither changes the node a well-formed tree denotes and
  that `fullParen` of a well-formed tree is well formed.
-/
import Jmes.Properties.C04G
namespace Jmes.C10C
open Jmes Jmes.Parser Jmes.Grammar Jmes.GrammarF0 Jmes.GrammarF2
set_option linter.unusedSimpArgs false

/-! ## Definitions -/

/-- put a tree in parentheses, unless it is in parentheses already -/
def wrap : PTree → PTree
  | .paren t => .paren t
  | t => .paren t

mutual
/-- **`fullParen`**: write the implied parentheses — every operand of every binary operator (`|`, `||`, `&&`, the
    comparisons, the arithmetic operators) and the operand of `!`, of unary `-` and of unary `+` is put in parentheses
    (unless it is in parentheses already), recursively: inside the operands, inside existing parentheses, inside the
    elements of multi-selects, function arguments, `let` bindings and bodies, filter conditions, the operands of `.`,
    brackets and projections and their right-hand sides. -/
def fullParen : PTree → PTree
  | .icur => .icur
  | .atom t => .atom t
  | .paren t => .paren (fullParen t)
  | .not t => .not (wrap (fullParen t))
  | .neg tok t => .neg tok (wrap (fullParen t))
  | .pos t => .pos (wrap (fullParen t))
  | .bin op l r => .bin op (wrap (fullParen l)) (wrap (fullParen r))
  | .dotId l r => .dotId (fullParen l) (fullParen r)
  | .dotList l es => .dotList (fullParen l) (fullParenL es)
  | .dotHash l kvs => .dotHash (fullParen l) (fullParenKVs kvs)
  | .dotStarList l => .dotStarList (fullParen l)
  | .index l n => .index (fullParen l) n
  | .call name args => .call name (fullParenL args)
  | .ref t => .ref (fullParen t)
  | .letIn bs body => .letIn (fullParenKVs bs) (fullParen body)
  | .multiList es => .multiList (fullParenL es)
  | .multiHash kvs => .multiHash (fullParenKVs kvs)
  | .star l rhs => .star (fullParen l) (fullParen rhs)
  | .ostar l rhs => .ostar (fullParen l) (fullParen rhs)
  | .flat l rhs => .flat (fullParen l) (fullParen rhs)
  | .filt l c rhs => .filt (fullParen l) (fullParen c) (fullParen rhs)
  | .slice l a b c rhs => .slice (fullParen l) a b c (fullParen rhs)
def fullParenL : List PTree → List PTree
  | [] => []
  | e :: es => fullParen e :: fullParenL es
def fullParenKVs : List (Token × PTree) → List (Token × PTree)
  | [] => []
  | (k, e) :: rest => (k, fullParen e) :: fullParenKVs rest
end

mutual
/-- **`strip`**: remove every pair of parentheses (the result need not be well formed: `(a + b) * c` becomes the
    ill-formed tree "`*` with a looser left operand") -/
def strip : PTree → PTree
  | .icur => .icur
  | .atom t => .atom t
  | .paren t => strip t
  | .not t => .not (strip t)
  | .neg tok t => .neg tok (strip t)
  | .pos t => .pos (strip t)
  | .bin op l r => .bin op (strip l) (strip r)
  | .dotId l r => .dotId (strip l) (strip r)
  | .dotList l es => .dotList (strip l) (stripL es)
  | .dotHash l kvs => .dotHash (strip l) (stripKVs kvs)
  | .dotStarList l => .dotStarList (strip l)
  | .index l n => .index (strip l) n
  | .call name args => .call name (stripL args)
  | .ref t => .ref (strip t)
  | .letIn bs body => .letIn (stripKVs bs) (strip body)
  | .multiList es => .multiList (stripL es)
  | .multiHash kvs => .multiHash (stripKVs kvs)
  | .star l rhs => .star (strip l) (strip rhs)
  | .ostar l rhs => .ostar (strip l) (strip rhs)
  | .flat l rhs => .flat (strip l) (strip rhs)
  | .filt l c rhs => .filt (strip l) (strip c) (strip rhs)
  | .slice l a b c rhs => .slice (strip l) a b c (strip rhs)
def stripL : List PTree → List PTree
  | [] => []
  | e :: es => strip e :: stripL es
def stripKVs : List (Token × PTree) → List (Token × PTree)
  | [] => []
  | (k, e) :: rest => (k, strip e) :: stripKVs rest
end

/-! ## `wrap` -/

theorem wrap_cases (t : PTree) : (∃ u, t = .paren u ∧ wrap t = t) ∨ wrap t = .paren t := by
  cases t <;> first | exact Or.inr rfl | exact Or.inl ⟨_, rfl, rfl⟩

theorem erase_wrap (t : PTree) : erase (wrap t) = erase t := by
  rcases wrap_cases t with ⟨u, rfl, h⟩ | h <;> rw [h] <;> rfl

theorem isIcur_wrap (t : PTree) : (wrap t).isIcur = false := by
  rcases wrap_cases t with ⟨u, rfl, h⟩ | h <;> rw [h] <;> rfl

theorem llevel_wrap (t : PTree) : llevel (wrap t) = top := by
  rcases wrap_cases t with ⟨u, rfl, h⟩ | h <;> rw [h] <;> rfl

theorem rlevel_wrap (t : PTree) : rlevel (wrap t) = top := by
  rcases wrap_cases t with ⟨u, rfl, h⟩ | h <;> rw [h] <;> rfl

theorem wp_wrap {t : PTree} (h : wp false t = true) : wp false (wrap t) = true := by
  rcases wrap_cases t with ⟨u, rfl, h'⟩ | h' <;> rw [h']
  · exact h
  · simp only [wp, Bool.not_false, Bool.true_and, h]

theorem strip_wrap (t : PTree) : strip (wrap t) = strip t := by
  rcases wrap_cases t with ⟨u, rfl, h⟩ | h <;> rw [h]
  rw [strip]

/-! ## Lists -/

theorem fullParenL_eq_map : ∀ es : List PTree, fullParenL es = es.map fullParen
  | [] => rfl
  | e :: es => by rw [fullParenL, fullParenL_eq_map es]; rfl

theorem fullParenKVs_eq_map : ∀ kvs : List (Token × PTree), fullParenKVs kvs = kvs.map fun kv => (kv.1, fullParen kv.2)
  | [] => rfl
  | (k, e) :: rest => by rw [fullParenKVs, fullParenKVs_eq_map rest]; rfl

theorem stripL_eq_map : ∀ es : List PTree, stripL es = es.map strip
  | [] => rfl
  | e :: es => by rw [stripL, stripL_eq_map es]; rfl

theorem stripKVs_eq_map : ∀ kvs : List (Token × PTree), stripKVs kvs = kvs.map fun kv => (kv.1, strip kv.2)
  | [] => rfl
  | (k, e) :: rest => by rw [stripKVs, stripKVs_eq_map rest]; rfl

theorem eraseL_congr (f : PTree → PTree) : ∀ {es : List PTree}, (∀ e ∈ es, erase (f e) = erase e) →
    eraseL (es.map f) = eraseL es
  | [], _ => rfl
  | e :: es, h => by
    simp only [List.map_cons, eraseL]
    rw [h e (by simp), eraseL_congr f fun x hx => h x (by simp [hx])]

theorem eraseKVs_congr (key : Token → Bytes) (f : PTree → PTree) : ∀ {kvs : List (Token × PTree)},
    (∀ kv ∈ kvs, erase (f kv.2) = erase kv.2) → eraseKVs key (kvs.map fun kv => (kv.1, f kv.2)) = eraseKVs key kvs
  | [], _ => rfl
  | (k, e) :: rest, h => by
    simp only [List.map_cons, eraseKVs]
    rw [h (k, e) (by simp), eraseKVs_congr key f fun x hx => h x (by simp [hx])]

/-! ## `fullParen`: the node is unchanged (no well-formedness needed) -/

theorem isIcur_fullParen (t : PTree) : (fullParen t).isIcur = t.isIcur := by
  cases t <;> simp only [fullParen, PTree.isIcur]

theorem optNode_fullParen {l : PTree} (h : erase (fullParen l) = erase l) :
    optNode (fullParen l) (erase (fullParen l)) = optNode l (erase l) := by
  simp only [optNode, isIcur_fullParen, h]

theorem erase_fullParen : ∀ t, erase (fullParen t) = erase t := by
  apply PTree.ind
  · rfl
  · intro t; rfl
  · intro t ht; simp only [fullParen, erase, ht]
  · intro t ht; simp only [fullParen, erase, erase_wrap, ht]
  · intro tok t ht; simp only [fullParen, erase, erase_wrap, ht]
  · intro t ht; simp only [fullParen, erase, erase_wrap, ht]
  · intro op l r hl hr; simp only [fullParen, erase, erase_wrap, hl, hr]
  · intro l r hl hr; simp only [fullParen, erase, optNode_fullParen hl, hr]
  · intro l es hl hes
    simp only [fullParen, erase, optNode_fullParen hl, fullParenL_eq_map, eraseL_congr fullParen hes]
  · intro l kvs hl hes
    simp only [fullParen, erase, optNode_fullParen hl, fullParenKVs_eq_map, eraseKVs_congr _ fullParen hes]
  · intro l hl; simp only [fullParen, erase, optNode_fullParen hl]
  · intro l n hl; simp only [fullParen, erase, optNode_fullParen hl]
  · intro name args hargs
    simp only [fullParen, erase, fullParenL_eq_map, eraseL_congr fullParen hargs]
  · intro t ht; simp only [fullParen, erase, ht]
  · intro bs body hbs hb
    simp only [fullParen, erase, fullParenKVs_eq_map, eraseKVs_congr _ fullParen hbs, hb]
  · intro es hes; simp only [fullParen, erase, fullParenL_eq_map, eraseL_congr fullParen hes]
  · intro kvs hes; simp only [fullParen, erase, fullParenKVs_eq_map, eraseKVs_congr _ fullParen hes]
  · intro l rhs hl hr; simp only [fullParen, erase, optNode_fullParen hl, optNode_fullParen hr]
  · intro l rhs hl hr; simp only [fullParen, erase, optNode_fullParen hl, optNode_fullParen hr]
  · intro l rhs hl hr; simp only [fullParen, erase, optNode_fullParen hl, optNode_fullParen hr]
  · intro l c rhs hl hc hr; simp only [fullParen, erase, optNode_fullParen hl, hc, optNode_fullParen hr]
  · intro l a b c rhs hl hr; simp only [fullParen, erase, optNode_fullParen hl, optNode_fullParen hr]

/-- `fullParen` only adds parentheses -/
theorem strip_fullParen : ∀ t, strip (fullParen t) = strip t := by
  apply PTree.ind
  · rfl
  · intro t; rfl
  · intro t ht; simp only [fullParen, strip, ht]
  · intro t ht; simp only [fullParen, strip, strip_wrap, ht]
  · intro tok t ht; simp only [fullParen, strip, strip_wrap, ht]
  · intro t ht; simp only [fullParen, strip, strip_wrap, ht]
  · intro op l r hl hr; simp only [fullParen, strip, strip_wrap, hl, hr]
  · intro l r hl hr; simp only [fullParen, strip, hl, hr]
  · intro l es hl hes
    simp only [fullParen, strip, hl, fullParenL_eq_map, stripL_eq_map, List.map_map]
    congr 1; exact List.map_congr_left hes
  · intro l kvs hl hes
    simp only [fullParen, strip, hl, fullParenKVs_eq_map, stripKVs_eq_map, List.map_map]
    congr 1; exact List.map_congr_left fun kv hkv => by simp only [Function.comp, hes kv hkv]
  · intro l hl; simp only [fullParen, strip, hl]
  · intro l n hl; simp only [fullParen, strip, hl]
  · intro name args hargs
    simp only [fullParen, strip, fullParenL_eq_map, stripL_eq_map, List.map_map]
    congr 1; exact List.map_congr_left hargs
  · intro t ht; simp only [fullParen, strip, ht]
  · intro bs body hbs hb
    simp only [fullParen, strip, hb, fullParenKVs_eq_map, stripKVs_eq_map, List.map_map]
    congr 1; exact List.map_congr_left fun kv hkv => by simp only [Function.comp, hbs kv hkv]
  · intro es hes
    simp only [fullParen, strip, fullParenL_eq_map, stripL_eq_map, List.map_map]
    congr 1; exact List.map_congr_left hes
  · intro kvs hes
    simp only [fullParen, strip, fullParenKVs_eq_map, stripKVs_eq_map, List.map_map]
    congr 1; exact List.map_congr_left fun kv hkv => by simp only [Function.comp, hes kv hkv]
  · intro l rhs hl hr; simp only [fullParen, strip, hl, hr]
  · intro l rhs hl hr; simp only [fullParen, strip, hl, hr]
  · intro l rhs hl hr; simp only [fullParen, strip, hl, hr]
  · intro l c rhs hl hc hr; simp only [fullParen, strip, hl, hc, hr]
  · intro l a b c rhs hl hr; simp only [fullParen, strip, hl, hr]

/-! ## `fullParen` of a well-formed tree is well formed -/

theorem head?_append_ne {α} {a : List α} (b : List α) (h : a ≠ []) : (a ++ b).head? = a.head? := by
  cases a with
  | nil => exact absurd rfl h
  | cons x xs => rfl

theorem flat_ne_nil {b : Bool} {t : PTree} (h : t.isIcur = false) : Grammar.flat b t ≠ [] := by
  cases t
  case icur => cases h
  case ostar l rhs =>
    simp only [Grammar.flat]
    split
    · split <;> simp
    · simp
  all_goals simp [Grammar.flat]

theorem rlevel_le_top : ∀ t, rlevel t ≤ top := by
  apply PTree.ind
  case h_not => intro t _; simp only [rlevel, top, lvlNot]; omega
  case h_neg => intro tok t _; simp only [rlevel, top, lvlMul]; omega
  case h_pos => intro t _; simp only [rlevel, top, lvlMul]; omega
  case h_bin => intro op l r _ hr; simp only [rlevel]; simp only [top] at hr ⊢; omega
  case h_dotId => intro l r _ hr; simp only [rlevel, top, lvlDot]; omega
  all_goals (intros; simp only [rlevel, top, lvlLet, lvlProj]; try omega)

theorem rlevel_fullParen : ∀ t, rlevel t ≤ rlevel (fullParen t) := by
  apply PTree.ind
  case h_not => intro t _; have := rlevel_le_top t; simp only [fullParen, rlevel, rlevel_wrap] at this ⊢; omega
  case h_neg => intro tok t _; have := rlevel_le_top t; simp only [fullParen, rlevel, rlevel_wrap] at this ⊢; omega
  case h_pos => intro t _; have := rlevel_le_top t; simp only [fullParen, rlevel, rlevel_wrap] at this ⊢; omega
  case h_bin => intro op l r _ _; have := rlevel_le_top r; simp only [fullParen, rlevel, rlevel_wrap] at this ⊢; omega
  case h_dotId => intro l r _ hr; simp only [fullParen, rlevel]; omega
  all_goals (intros; simp only [fullParen, rlevel]; exact Nat.le_refl _)

/-- the statement proved by induction: in primary position always, in right-hand-side position when no binary operator
    is on the left spine (which `WellPrec` guarantees for every right-hand side) -/
def Q (t : PTree) : Prop := ∀ b, wp b t = true → (b = true → lvlMul < llevel t) →
  wp b (fullParen t) = true ∧ llevel t ≤ llevel (fullParen t) ∧
    (lvlMul < llevel t → (Grammar.flat b (fullParen t)).head? = (Grammar.flat b t).head?)

/-- `Q`, and `Q` of what is under an `&` -/
def P (x : PTree) : Prop := Q x ∧ ∀ t, x = .ref t → Q t

theorem pr_of_q {t : PTree} (h : Q t) (hn : ∀ x, t ≠ .ref x) : P t := ⟨h, fun x hx => absurd hx (hn x)⟩

theorem left_ok {b : Bool} {l : PTree} {X : Bool} {lvl L : Nat} (hl : Q l)
    (h : (if l.isIcur = true then X else wp b l && decide (lvl ≤ rlevel l)) = true)
    (hb : b = true → lvlMul < lmin L l (llevel l)) :
    (if (fullParen l).isIcur = true then X else wp b (fullParen l) && decide (lvl ≤ rlevel (fullParen l))) = true ∧
    lmin L l (llevel l) ≤ lmin L (fullParen l) (llevel (fullParen l)) ∧
    (lvlMul < lmin L l (llevel l) → ∀ Y Y' : List Token, Y'.head? = Y.head? →
       (Grammar.flat b (fullParen l) ++ Y').head? = (Grammar.flat b l ++ Y).head?) := by
  rcases left_cases h with ⟨rfl, hX⟩ | ⟨hi, hw, hle⟩
  · refine ⟨by simp only [fullParen, PTree.isIcur, if_true, hX], Nat.le_refl _, ?_⟩
    intro _ Y Y' hY
    simpa only [fullParen, Grammar.flat, List.nil_append] using hY
  · have hi' : (fullParen l).isIcur = false := by rw [isIcur_fullParen, hi]
    have hlm : ∀ x, lmin L l x = min L x := fun x => lmin_of_ne hi L x
    have hlm' : ∀ x, lmin L (fullParen l) x = min L x := fun x => lmin_of_ne hi' L x
    obtain ⟨q1, q2, q3⟩ := hl b hw (fun hb' => by have := hb hb'; rw [hlm] at this; omega)
    refine ⟨?_, ?_, ?_⟩
    · simp only [hi', Bool.false_eq_true, if_false, q1, Bool.true_and, decide_eq_true_eq]
      exact Nat.le_trans hle (rlevel_fullParen l)
    · rw [hlm, hlm']; omega
    · intro h7 Y Y' _
      rw [hlm] at h7
      rw [head?_append_ne _ (flat_ne_nil hi'), head?_append_ne _ (flat_ne_nil hi)]
      exact q3 (by omega)

theorem rhs_ok {rhs : PTree} (hr : Q rhs)
    (h : (rhs.isIcur || (wp true rhs && decide (lvlProj < llevel rhs))) = true) :
    ((fullParen rhs).isIcur || (wp true (fullParen rhs) && decide (lvlProj < llevel (fullParen rhs)))) = true := by
  cases hi : rhs.isIcur
  · simp only [hi, Bool.false_or, Bool.and_eq_true, decide_eq_true_eq] at h
    have h9 : lvlMul < llevel rhs := by have := h.2; simp only [lvlProj, lvlMul] at *; omega
    obtain ⟨q1, q2, _⟩ := hr true h.1 (fun _ => h9)
    simp only [isIcur_fullParen, hi, Bool.false_or, q1, Bool.true_and, decide_eq_true_eq]
    exact Nat.lt_of_lt_of_le h.2 q2
  · simp only [isIcur_fullParen, hi, Bool.true_or]

theorem wpL_fullParen : ∀ {es : List PTree}, (∀ e ∈ es, P e) → wpL es = true → wpL (fullParenL es) = true
  | [], _, _ => rfl
  | e :: es, hp, h => by
    simp only [wpL, Bool.and_eq_true] at h
    simp only [fullParenL, wpL, Bool.and_eq_true]
    exact ⟨((hp e (by simp)).1 false h.1 (fun hb => by cases hb)).1,
      wpL_fullParen (fun x hx => hp x (by simp [hx])) h.2⟩

theorem wpKVs_fullParen {ok : Token → Bool} : ∀ {kvs : List (Token × PTree)}, (∀ kv ∈ kvs, P kv.2) →
    wpKVs ok kvs = true → wpKVs ok (fullParenKVs kvs) = true
  | [], _, _ => rfl
  | (k, e) :: rest, hp, h => by
    simp only [wpKVs, Bool.and_eq_true] at h
    simp only [fullParenKVs, wpKVs, Bool.and_eq_true]
    exact ⟨⟨h.1.1, ((hp (k, e) (by simp)).1 false h.1.2 (fun hb => by cases hb)).1⟩,
      wpKVs_fullParen (fun x hx => hp x (by simp [hx])) h.2⟩

theorem isRef_fullParen (t : PTree) : (fullParen t).isRef = t.isRef := by
  cases t <;> simp only [fullParen, PTree.isRef]

theorem unref_fullParen (t : PTree) : unref (fullParen t) = fullParen (unref t) := by
  cases t <;> simp only [fullParen, unref]

theorem wpArgs_fullParen : ∀ {es : List PTree}, (∀ e ∈ es, P e) → wpArgs es = true → wpArgs (fullParenL es) = true
  | [], _, _ => rfl
  | e :: es, hp, h => by
    rw [wpArgs_cons, Bool.and_eq_true] at h
    rw [fullParenL, wpArgs_cons, Bool.and_eq_true, unref_fullParen]
    refine ⟨?_, wpArgs_fullParen (fun x hx => hp x (by simp [hx])) h.2⟩
    have he := hp e (by simp)
    cases hr : e.isRef
    · rw [unref_of_not hr] at h ⊢
      exact (he.1 false h.1 (fun hb => by cases hb)).1
    · obtain ⟨x, rfl⟩ := isRef_eq hr
      exact (he.2 x rfl false h.1 (fun hb => by cases hb)).1

theorem argsOK_map (f : PTree → PTree) (hf : ∀ x, (f x).isRef = x.isRef) (spec : ArgSpec) (args : List PTree) :
    argsOK spec (args.map f) = argsOK spec args := by
  cases spec with
  | fixed mn mx mk => simp only [argsOK, List.length_map, List.all_map, Function.comp_def, hf]
  | varArg mk => simp only [argsOK, List.length_map, List.all_map, Function.comp_def, hf]
  | expArg mk =>
    match args with
    | [] => rfl
    | [_] => rfl
    | [a, e] => simp only [List.map, argsOK, hf]
    | _ :: _ :: _ :: _ => rfl
  | mapArg mk =>
    match args with
    | [] => rfl
    | [_] => rfl
    | [a, e] => simp only [List.map, argsOK, hf]
    | _ :: _ :: _ :: _ => rfl

theorem isEmpty_fullParenL (es : List PTree) : (fullParenL es).isEmpty = es.isEmpty := by
  cases es <;> rfl

theorem isEmpty_fullParenKVs (kvs : List (Token × PTree)) : (fullParenKVs kvs).isEmpty = kvs.isEmpty := by
  match kvs with
  | [] => rfl
  | (_, _) :: _ => rfl

theorem head_wrap (b : Bool) (t : PTree) : (Grammar.flat b (wrap t)).head? = some tLParen := by
  rcases wrap_cases t with ⟨u, rfl, h⟩ | h <;> rw [h] <;> simp only [Grammar.flat, List.cons_append, List.head?_cons]

theorem startsWithIdent_fullParen {r : PTree} (hr : Q r) (hw : wp false r = true) (hl : lvlDot < llevel r)
    (hs : startsWithIdent r = true) : startsWithIdent (fullParen r) = true := by
  have h7 : lvlMul < llevel r := by simp only [lvlDot, lvlMul] at *; omega
  have := (hr false hw (fun hb => by cases hb)).2.2 h7
  unfold startsWithIdent at hs ⊢
  rw [this]; exact hs

theorem fullParen_all : ∀ t, P t := by
  apply PTree.ind
  case h_icur => exact pr_of_q (fun b h => by simp [wp] at h) (fun _ h => by cases h)
  case h_atom =>
    exact fun t => pr_of_q (fun b h _ => ⟨by simpa only [fullParen] using h, Nat.le_refl _, fun _ => rfl⟩)
      (fun _ h => by cases h)
  case h_paren =>
    refine fun t ht => pr_of_q (fun b h _ => ?_) (fun _ h => by cases h)
    simp only [wp, Bool.and_eq_true] at h
    have := (ht.1 false h.2 (fun hb => by cases hb)).1
    refine ⟨by simp only [fullParen, wp, Bool.and_eq_true]; exact ⟨h.1, this⟩, Nat.le_refl _, fun _ => ?_⟩
    simp only [fullParen, Grammar.flat, List.cons_append, List.head?_cons]
  case h_not =>
    refine fun t ht => pr_of_q (fun b h _ => ?_) (fun _ h => by cases h)
    simp only [wp, Bool.and_eq_true, decide_eq_true_eq] at h
    have := wp_wrap (ht.1 false h.1.2 (fun hb => by cases hb)).1
    refine ⟨?_, Nat.le_refl _, fun _ => ?_⟩
    · simp only [fullParen, wp, Bool.and_eq_true, decide_eq_true_eq, llevel_wrap]
      exact ⟨⟨h.1.1, this⟩, by decide⟩
    · simp only [fullParen, Grammar.flat]; rfl
  case h_neg =>
    refine fun tok t ht => pr_of_q (fun b h _ => ?_) (fun _ h => by cases h)
    simp only [wp, Bool.and_eq_true, decide_eq_true_eq] at h
    have := wp_wrap (ht.1 false h.1.2 (fun hb => by cases hb)).1
    refine ⟨?_, Nat.le_refl _, fun _ => ?_⟩
    · simp only [fullParen, wp, Bool.and_eq_true, decide_eq_true_eq, llevel_wrap]
      exact ⟨⟨h.1.1, this⟩, by decide⟩
    · simp only [fullParen, Grammar.flat]; rfl
  case h_pos =>
    refine fun t ht => pr_of_q (fun b h _ => ?_) (fun _ h => by cases h)
    simp only [wp, Bool.and_eq_true, decide_eq_true_eq] at h
    have := wp_wrap (ht.1 false h.1.2 (fun hb => by cases hb)).1
    refine ⟨?_, Nat.le_refl _, fun _ => ?_⟩
    · simp only [fullParen, wp, Bool.and_eq_true, decide_eq_true_eq, llevel_wrap]
      exact ⟨⟨h.1.1, this⟩, by decide⟩
    · simp only [fullParen, Grammar.flat]; rfl
  case h_bin =>
    refine fun op l r hl hr => pr_of_q (fun b h hb => ?_) (fun _ h => by cases h)
    simp only [wp] at h
    split at h
    · cases h
    · rename_i lvl hlvl
      simp only [Bool.and_eq_true, Bool.not_eq_true', decide_eq_true_eq] at h
      obtain ⟨⟨⟨⟨hi, hwl⟩, hle⟩, hwr⟩, hlt⟩ := h
      have hrange := binLevel_range hlvl
      have hll : llevel (.bin op l r) = min lvl (llevel l) := by
        simp only [llevel, hlvl, Option.getD_some, lmin_of_ne hi]
      have h7 : ¬ lvlMul < llevel (.bin op l r) := by rw [hll]; simp only [lvlMul]; omega
      cases b
      · have w1 := wp_wrap (hl.1 false hwl (fun hb => by cases hb)).1
        have w2 := wp_wrap (hr.1 false hwr (fun hb => by cases hb)).1
        refine ⟨?_, ?_, fun h => absurd h h7⟩
        · simp only [fullParen, wp, hlvl, Bool.and_eq_true, Bool.not_eq_true', decide_eq_true_eq, isIcur_wrap,
            rlevel_wrap, llevel_wrap, w1, w2, top]
          exact ⟨⟨⟨⟨trivial, trivial⟩, by omega⟩, trivial⟩, by omega⟩
        · rw [hll]
          simp only [fullParen, llevel, hlvl, Option.getD_some, lmin_of_ne (isIcur_wrap _), llevel_wrap, top]
          omega
      · exact absurd (hb rfl) h7
  case h_dotId =>
    refine fun l r hl hr => pr_of_q (fun b h hb => ?_) (fun _ h => by cases h)
    simp only [wp, Bool.and_eq_true, decide_eq_true_eq] at h
    obtain ⟨⟨⟨hleft, hwr⟩, hlt⟩, hs⟩ := h
    obtain ⟨l1, l2, l3⟩ := left_ok (L := lvlDot) hl.1 hleft hb
    obtain ⟨q1, q2, _⟩ := hr.1 false hwr (fun hb => by cases hb)
    refine ⟨?_, l2, fun h7 => ?_⟩
    · simp only [fullParen, wp, Bool.and_eq_true, decide_eq_true_eq]
      exact ⟨⟨⟨l1, q1⟩, Nat.lt_of_lt_of_le hlt q2⟩, startsWithIdent_fullParen hr.1 hwr hlt hs⟩
    · simp only [fullParen, Grammar.flat, List.append_assoc]
      exact l3 h7 _ _ (by rfl)
  case h_dotList =>
    refine fun l es hl hes => pr_of_q (fun b h hb => ?_) (fun _ h => by cases h)
    simp only [wp, Bool.and_eq_true] at h
    obtain ⟨⟨hleft, hne⟩, hw⟩ := h
    obtain ⟨l1, l2, l3⟩ := left_ok (L := lvlDot) hl.1 hleft hb
    refine ⟨?_, l2, fun h7 => ?_⟩
    · simp only [fullParen, wp, Bool.and_eq_true, isEmpty_fullParenL]
      exact ⟨⟨l1, hne⟩, wpL_fullParen hes hw⟩
    · simp only [fullParen, Grammar.flat, List.append_assoc]
      exact l3 h7 _ _ (by rfl)
  case h_dotHash =>
    refine fun l kvs hl hes => pr_of_q (fun b h hb => ?_) (fun _ h => by cases h)
    simp only [wp, Bool.and_eq_true] at h
    obtain ⟨⟨hleft, hne⟩, hw⟩ := h
    obtain ⟨l1, l2, l3⟩ := left_ok (L := lvlDot) hl.1 hleft hb
    refine ⟨?_, l2, fun h7 => ?_⟩
    · simp only [fullParen, wp, Bool.and_eq_true, isEmpty_fullParenKVs]
      exact ⟨⟨l1, hne⟩, wpKVs_fullParen hes hw⟩
    · simp only [fullParen, Grammar.flat, List.append_assoc]
      exact l3 h7 _ _ (by rfl)
  case h_dotStarList =>
    refine fun l hl => pr_of_q (fun b h hb => ?_) (fun _ h => by cases h)
    simp only [wp] at h
    obtain ⟨l1, l2, l3⟩ := left_ok (L := lvlDot) hl.1 h hb
    refine ⟨?_, l2, fun h7 => ?_⟩
    · simp only [fullParen, wp]
      exact l1
    · simp only [fullParen, Grammar.flat, List.append_assoc]
      exact l3 h7 _ _ (by rfl)
  case h_index =>
    refine fun l n hl => pr_of_q (fun b h hb => ?_) (fun _ h => by cases h)
    simp only [wp, Bool.and_eq_true] at h
    obtain ⟨l1, l2, l3⟩ := left_ok (L := lvlBracket) hl.1 h.1 hb
    refine ⟨?_, l2, fun h7 => ?_⟩
    · simp only [fullParen, wp, Bool.and_eq_true]
      exact ⟨l1, h.2⟩
    · simp only [fullParen, Grammar.flat, List.append_assoc]
      exact l3 h7 _ _ (by rfl)
  case h_call =>
    refine fun name args hargs => pr_of_q (fun b h _ => ?_) (fun _ h => by cases h)
    simp only [wp, Bool.and_eq_true] at h
    obtain ⟨⟨⟨hb', hn⟩, hspec⟩, hw⟩ := h
    refine ⟨?_, Nat.le_refl _, fun _ => ?_⟩
    · simp only [fullParen, wp, Bool.and_eq_true]
      refine ⟨⟨⟨hb', hn⟩, ?_⟩, wpArgs_fullParen hargs hw⟩
      cases hlk : lookupBuiltin name.value with
      | none => rw [hlk] at hspec; cases hspec
      | some spec =>
        rw [hlk] at hspec
        simp only []
        rw [fullParenL_eq_map, argsOK_map _ isRef_fullParen]
        exact hspec
    · simp only [fullParen, Grammar.flat]; rfl
  case h_ref =>
    exact fun t ht => ⟨fun b h => by simp [wp] at h, fun x hx => by cases hx; exact ht.1⟩
  case h_letIn =>
    refine fun bs body hbs hb => pr_of_q (fun b h _ => ?_) (fun _ h => by cases h)
    simp only [wp, Bool.and_eq_true] at h
    obtain ⟨⟨⟨hb', hne⟩, hw⟩, hwb⟩ := h
    refine ⟨?_, Nat.le_refl _, fun _ => ?_⟩
    · simp only [fullParen, wp, Bool.and_eq_true, isEmpty_fullParenKVs]
      exact ⟨⟨⟨hb', hne⟩, wpKVs_fullParen hbs hw⟩, (hb.1 false hwb (fun hb => by cases hb)).1⟩
    · simp only [fullParen, Grammar.flat]; rfl
  case h_multiList =>
    refine fun es hes => pr_of_q (fun b h _ => ?_) (fun _ h => by cases h)
    simp only [wp, Bool.and_eq_true] at h
    refine ⟨?_, Nat.le_refl _, fun _ => ?_⟩
    · simp only [fullParen, wp, Bool.and_eq_true, isEmpty_fullParenL]
      exact ⟨h.1, wpL_fullParen hes h.2⟩
    · simp only [fullParen, Grammar.flat]; rfl
  case h_multiHash =>
    refine fun kvs hes => pr_of_q (fun b h _ => ?_) (fun _ h => by cases h)
    simp only [wp, Bool.and_eq_true] at h
    refine ⟨?_, Nat.le_refl _, fun _ => ?_⟩
    · simp only [fullParen, wp, Bool.and_eq_true, isEmpty_fullParenKVs]
      exact ⟨h.1, wpKVs_fullParen hes h.2⟩
    · simp only [fullParen, Grammar.flat]; rfl
  case h_star =>
    refine fun l rhs hl hr => pr_of_q (fun b h hb => ?_) (fun _ h => by cases h)
    simp only [wp, Bool.and_eq_true] at h
    obtain ⟨l1, l2, l3⟩ := left_ok (L := lvlBracket) hl.1 h.1 hb
    refine ⟨?_, l2, fun h7 => ?_⟩
    · simp only [fullParen, wp, Bool.and_eq_true]
      exact ⟨l1, rhs_ok hr.1 h.2⟩
    · simp only [fullParen, Grammar.flat, List.append_assoc]
      exact l3 h7 _ _ (by rfl)
  case h_ostar =>
    refine fun l rhs hl hr => pr_of_q (fun b h hb => ?_) (fun _ h => by cases h)
    simp only [wp, Bool.and_eq_true] at h
    obtain ⟨l1, l2, l3⟩ := left_ok (L := lvlDot) hl.1 h.1 hb
    refine ⟨?_, l2, fun h7 => ?_⟩
    · simp only [fullParen, wp, Bool.and_eq_true]
      exact ⟨l1, rhs_ok hr.1 h.2⟩
    · simp only [fullParen, Grammar.flat, isIcur_fullParen]
      cases hi : l.isIcur
      · simp only [Bool.false_eq_true, if_false, List.append_assoc]
        exact l3 h7 _ _ (by rfl)
      · cases b <;> simp only [if_true, Bool.false_eq_true, if_false, List.cons_append, List.head?_cons]
  case h_flat =>
    refine fun l rhs hl hr => pr_of_q (fun b h hb => ?_) (fun _ h => by cases h)
    simp only [wp, Bool.and_eq_true] at h
    obtain ⟨l1, l2, l3⟩ := left_ok (L := lvlFlatten) hl.1 h.1 hb
    refine ⟨?_, l2, fun h7 => ?_⟩
    · simp only [fullParen, wp, Bool.and_eq_true]
      exact ⟨l1, rhs_ok hr.1 h.2⟩
    · simp only [fullParen, Grammar.flat, List.append_assoc]
      exact l3 h7 _ _ (by rfl)
  case h_filt =>
    refine fun l c rhs hl hc hr => pr_of_q (fun b h hb => ?_) (fun _ h => by cases h)
    simp only [wp, Bool.and_eq_true] at h
    obtain ⟨l1, l2, l3⟩ := left_ok (L := lvlFilter) hl.1 h.1.1 hb
    refine ⟨?_, l2, fun h7 => ?_⟩
    · simp only [fullParen, wp, Bool.and_eq_true]
      exact ⟨⟨l1, (hc.1 false h.1.2 (fun hb => by cases hb)).1⟩, rhs_ok hr.1 h.2⟩
    · simp only [fullParen, Grammar.flat, List.append_assoc]
      exact l3 h7 _ _ (by rfl)
  case h_slice =>
    refine fun l a bb c rhs hl hr => pr_of_q (fun b h hb => ?_) (fun _ h => by cases h)
    simp only [wp, Bool.and_eq_true] at h
    obtain ⟨l1, l2, l3⟩ := left_ok (L := lvlBracket) hl.1 h.1.1 hb
    refine ⟨?_, l2, fun h7 => ?_⟩
    · simp only [fullParen, wp, Bool.and_eq_true]
      exact ⟨⟨l1, h.1.2⟩, rhs_ok hr.1 h.2⟩
    · simp only [fullParen, Grammar.flat, List.append_assoc]
      exact l3 h7 _ _ (by rfl)

/-! ## `strip`: removing parentheses from a well-formed tree does not change the node -/

def S (t : PTree) : Prop := ∀ b, wp b t = true → erase (strip t) = erase t ∧ (strip t).isIcur = t.isIcur

def SP (x : PTree) : Prop := S x ∧ ∀ t, x = .ref t → S t

theorem sp_of_s {t : PTree} (h : S t) (hn : ∀ x, t ≠ .ref x) : SP t := ⟨h, fun x hx => absurd hx (hn x)⟩

theorem wp_not_icur {b : Bool} {t : PTree} (h : wp b t = true) : t.isIcur = false := by
  cases t <;> first | rfl | (simp [wp] at h)

theorem left_strip {b : Bool} {l : PTree} {X : Bool} {lvl : Nat} (hl : S l)
    (h : (if l.isIcur = true then X else wp b l && decide (lvl ≤ rlevel l)) = true) :
    optNode (strip l) (erase (strip l)) = optNode l (erase l) := by
  rcases left_cases h with ⟨rfl, _⟩ | ⟨_, hw, _⟩
  · rfl
  · obtain ⟨h1, h2⟩ := hl b hw
    simp only [optNode, h1, h2]

theorem rhs_strip {rhs : PTree} (hr : S rhs)
    (h : (rhs.isIcur || (wp true rhs && decide (lvlProj < llevel rhs))) = true) :
    optNode (strip rhs) (erase (strip rhs)) = optNode rhs (erase rhs) := by
  cases hi : rhs.isIcur
  · simp only [hi, Bool.false_or, Bool.and_eq_true] at h
    obtain ⟨h1, h2⟩ := hr true h.1
    simp only [optNode, h1, h2]
  · rw [isIcur_eq hi]; rfl

theorem eraseL_strip {es : List PTree} (hp : ∀ e ∈ es, SP e) (hw : wpL es = true) :
    eraseL (stripL es) = eraseL es := by
  rw [stripL_eq_map]
  exact eraseL_congr strip fun e he => ((hp e he).1 false (mem_wpL hw e he)).1

theorem eraseKVs_strip {ok : Token → Bool} (key : Token → Bytes) {kvs : List (Token × PTree)}
    (hp : ∀ kv ∈ kvs, SP kv.2) (hw : wpKVs ok kvs = true) : eraseKVs key (stripKVs kvs) = eraseKVs key kvs := by
  rw [stripKVs_eq_map]
  exact eraseKVs_congr key strip fun kv hkv => ((hp kv hkv).1 false (mem_wpKVs hw kv hkv).2).1

theorem eraseL_strip_args : ∀ {es : List PTree}, (∀ e ∈ es, SP e) → wpArgs es = true →
    eraseL (stripL es) = eraseL es
  | [], _, _ => rfl
  | e :: es, hp, hw => by
    rw [wpArgs_cons, Bool.and_eq_true] at hw
    simp only [stripL, eraseL]
    rw [eraseL_strip_args (fun x hx => hp x (by simp [hx])) hw.2]
    congr 1
    have he := hp e (by simp)
    cases hr : e.isRef
    · rw [unref_of_not hr] at hw
      exact (he.1 false hw.1).1
    · obtain ⟨x, rfl⟩ := isRef_eq hr
      simp only [strip, erase]
      exact (he.2 x rfl false hw.1).1

theorem strip_all : ∀ t, SP t := by
  apply PTree.ind
  case h_icur => exact sp_of_s (fun b h => by simp [wp] at h) (fun _ h => by cases h)
  case h_atom => exact fun t => sp_of_s (fun b _ => ⟨rfl, rfl⟩) (fun _ h => by cases h)
  case h_paren =>
    refine fun t ht => sp_of_s (fun b h => ?_) (fun _ h => by cases h)
    simp only [wp, Bool.and_eq_true] at h
    obtain ⟨h1, h2⟩ := ht.1 false h.2
    exact ⟨by simp only [strip, erase, h1], by rw [strip, h2, wp_not_icur h.2]; rfl⟩
  case h_not =>
    refine fun t ht => sp_of_s (fun b h => ?_) (fun _ h => by cases h)
    simp only [wp, Bool.and_eq_true] at h
    exact ⟨by simp only [strip, erase, (ht.1 false h.1.2).1], rfl⟩
  case h_neg =>
    refine fun tok t ht => sp_of_s (fun b h => ?_) (fun _ h => by cases h)
    simp only [wp, Bool.and_eq_true] at h
    exact ⟨by simp only [strip, erase, (ht.1 false h.1.2).1], rfl⟩
  case h_pos =>
    refine fun t ht => sp_of_s (fun b h => ?_) (fun _ h => by cases h)
    simp only [wp, Bool.and_eq_true] at h
    exact ⟨by simp only [strip, erase, (ht.1 false h.1.2).1], rfl⟩
  case h_bin =>
    refine fun op l r hl hr => sp_of_s (fun b h => ?_) (fun _ h => by cases h)
    simp only [wp] at h
    split at h
    · cases h
    · simp only [Bool.and_eq_true] at h
      exact ⟨by simp only [strip, erase, (hl.1 b h.1.1.1.2).1, (hr.1 false h.1.2).1], rfl⟩
  case h_dotId =>
    refine fun l r hl hr => sp_of_s (fun b h => ?_) (fun _ h => by cases h)
    simp only [wp, Bool.and_eq_true] at h
    exact ⟨by simp only [strip, erase, left_strip hl.1 h.1.1.1, (hr.1 false h.1.1.2).1], rfl⟩
  case h_dotList =>
    refine fun l es hl hes => sp_of_s (fun b h => ?_) (fun _ h => by cases h)
    simp only [wp, Bool.and_eq_true] at h
    exact ⟨by simp only [strip, erase, left_strip hl.1 h.1.1, eraseL_strip hes h.2], rfl⟩
  case h_dotHash =>
    refine fun l kvs hl hes => sp_of_s (fun b h => ?_) (fun _ h => by cases h)
    simp only [wp, Bool.and_eq_true] at h
    exact ⟨by simp only [strip, erase, left_strip hl.1 h.1.1, eraseKVs_strip _ hes h.2], rfl⟩
  case h_dotStarList =>
    refine fun l hl => sp_of_s (fun b h => ?_) (fun _ h => by cases h)
    simp only [wp] at h
    exact ⟨by simp only [strip, erase, left_strip hl.1 h], rfl⟩
  case h_index =>
    refine fun l n hl => sp_of_s (fun b h => ?_) (fun _ h => by cases h)
    simp only [wp, Bool.and_eq_true] at h
    exact ⟨by simp only [strip, erase, left_strip hl.1 h.1], rfl⟩
  case h_call =>
    refine fun name args hargs => sp_of_s (fun b h => ?_) (fun _ h => by cases h)
    simp only [wp, Bool.and_eq_true] at h
    exact ⟨by simp only [strip, erase, eraseL_strip_args hargs h.2], rfl⟩
  case h_ref =>
    exact fun t ht => ⟨fun b h => by simp [wp] at h, fun x hx => by cases hx; exact ht.1⟩
  case h_letIn =>
    refine fun bs body hbs hb => sp_of_s (fun b h => ?_) (fun _ h => by cases h)
    simp only [wp, Bool.and_eq_true] at h
    exact ⟨by simp only [strip, erase, eraseKVs_strip _ hbs h.1.2, (hb.1 false h.2).1], rfl⟩
  case h_multiList =>
    refine fun es hes => sp_of_s (fun b h => ?_) (fun _ h => by cases h)
    simp only [wp, Bool.and_eq_true] at h
    exact ⟨by simp only [strip, erase, eraseL_strip hes h.2], rfl⟩
  case h_multiHash =>
    refine fun kvs hes => sp_of_s (fun b h => ?_) (fun _ h => by cases h)
    simp only [wp, Bool.and_eq_true] at h
    exact ⟨by simp only [strip, erase, eraseKVs_strip _ hes h.2], rfl⟩
  case h_star =>
    refine fun l rhs hl hr => sp_of_s (fun b h => ?_) (fun _ h => by cases h)
    simp only [wp, Bool.and_eq_true] at h
    exact ⟨by simp only [strip, erase, left_strip hl.1 h.1, rhs_strip hr.1 h.2], rfl⟩
  case h_ostar =>
    refine fun l rhs hl hr => sp_of_s (fun b h => ?_) (fun _ h => by cases h)
    simp only [wp, Bool.and_eq_true] at h
    exact ⟨by simp only [strip, erase, left_strip hl.1 h.1, rhs_strip hr.1 h.2], rfl⟩
  case h_flat =>
    refine fun l rhs hl hr => sp_of_s (fun b h => ?_) (fun _ h => by cases h)
    simp only [wp, Bool.and_eq_true] at h
    exact ⟨by simp only [strip, erase, left_strip hl.1 h.1, rhs_strip hr.1 h.2], rfl⟩
  case h_filt =>
    refine fun l c rhs hl hc hr => sp_of_s (fun b h => ?_) (fun _ h => by cases h)
    simp only [wp, Bool.and_eq_true] at h
    exact ⟨by simp only [strip, erase, left_strip hl.1 h.1.1, (hc.1 false h.1.2).1, rhs_strip hr.1 h.2], rfl⟩
  case h_slice =>
    refine fun l a bb c rhs hl hr => sp_of_s (fun b h => ?_) (fun _ h => by cases h)
    simp only [wp, Bool.and_eq_true] at h
    exact ⟨by simp only [strip, erase, left_strip hl.1 h.1.1, rhs_strip hr.1 h.2], rfl⟩

end Jmes.C10C
