/-
  C04 (fourth part), helpers, continued: the shapes of a static fault (`FaultSeg`), and the witness `W` for the
  thirteen parser functions (see `C04EFault.lean`).
-/
import Jmes.Proofs.C04EFault
namespace Jmes.C04EFault
open Jmes Jmes.Parser Jmes.Pratt Jmes.Grammar Jmes.GrammarF0 Jmes.GrammarS
set_option linter.unusedSimpArgs false

/-! ## The shapes of a static fault -/

/-- the four errors of `Compile` that are not syntax errors -/
def IsStatic : PErr → Bool
  | .invalidFunctionArgument | .invalidFunctionCall | .invalidSliceStep | .unknownFunction => true
  | _ => false

/-- **the shapes of a static fault**: `FaultSeg e seg post` — the token segment `seg`, followed by the tokens `post`,
    is where the error `e` is raised -/
inductive FaultSeg : PErr → List Token → List Token → Prop
  /-- `name (` with a name that is not a builtin -/
  | unknown {name : Token} {post : List Token} : name.type = .unquotedIdentifier → lookupBuiltin name.value = none →
      FaultSeg .unknownFunction [name, tLParen] post
  /-- `a : b : 0 ]`: what stands between the brackets of a slice whose step is zero -/
  | stepZero {a b : Option Token} {z : Token} {post : List Token} : optIntTok a = true → optIntTok b = true →
      isIntTok z = true → intOf z = some 0 →
      FaultSeg .invalidSliceStep (sliceToks a b (some (some z)) ++ [tRBracket]) post
  /-- `name ( )`: no builtin takes no arguments -/
  | noArgs {name : Token} {spec : ArgSpec} {post : List Token} : name.type = .unquotedIdentifier →
      lookupBuiltin name.value = some spec → FaultSeg .invalidFunctionCall [name, tLParen, tRParen] post
  /-- `name ( e1 , … , ek )` with fewer arguments than the builtin's minimum -/
  | tooFew {name : Token} {mn mx : Nat} {mk} {es : List PTree} {post : List Token} : name.type = .unquotedIdentifier →
      lookupBuiltin name.value = some (.fixed mn mx mk) → es ≠ [] → wpL es = true → es.length < mn →
      FaultSeg .invalidFunctionCall (name :: tLParen :: flatSep es ++ [tRParen]) post
  /-- `name ( e1 , … , ek ,` with `k` the builtin's maximum -/
  | tooMany {name : Token} {mn mx : Nat} {mk} {es : List PTree} {post : List Token} : name.type = .unquotedIdentifier →
      lookupBuiltin name.value = some (.fixed mn mx mk) → es ≠ [] → wpL es = true → es.length = mx →
      FaultSeg .invalidFunctionCall (name :: tLParen :: flatSep es ++ [tComma]) post
  /-- `sort_by ( a )` -/
  | expFew {name : Token} {mk} {a : PTree} {post : List Token} : name.type = .unquotedIdentifier →
      lookupBuiltin name.value = some (.expArg mk) → wp false a = true →
      FaultSeg .invalidFunctionCall (name :: tLParen :: flat false a ++ [tRParen]) post
  /-- `sort_by ( a , & e ,` -/
  | expMany {name : Token} {mk} {a e : PTree} {post : List Token} : name.type = .unquotedIdentifier →
      lookupBuiltin name.value = some (.expArg mk) → wp false a = true → wp false e = true →
      FaultSeg .invalidFunctionCall (name :: tLParen :: flat false a ++ tComma :: tAmp :: flat false e ++ [tComma]) post
  /-- `sort_by ( a ,` not followed by `&` -/
  | expNoRef {name : Token} {mk} {a : PTree} {post : List Token} : name.type = .unquotedIdentifier →
      lookupBuiltin name.value = some (.expArg mk) → wp false a = true → (stOf post).curr.type ≠ .expression →
      FaultSeg .invalidFunctionArgument (name :: tLParen :: flat false a ++ [tComma]) post
  /-- `map (` followed neither by `&` nor by `)` -/
  | mapNoRef {name : Token} {mk} {post : List Token} : name.type = .unquotedIdentifier →
      lookupBuiltin name.value = some (.mapArg mk) → (stOf post).curr.type ≠ .expression →
      (stOf post).curr.type ≠ .closeParen → FaultSeg .invalidFunctionArgument [name, tLParen] post
  /-- `map ( & e )` -/
  | mapFew {name : Token} {mk} {e : PTree} {post : List Token} : name.type = .unquotedIdentifier →
      lookupBuiltin name.value = some (.mapArg mk) → wp false e = true →
      FaultSeg .invalidFunctionCall (name :: tLParen :: tAmp :: flat false e ++ [tRParen]) post
  /-- `map ( & e , a ,` -/
  | mapMany {name : Token} {mk} {e a : PTree} {post : List Token} : name.type = .unquotedIdentifier →
      lookupBuiltin name.value = some (.mapArg mk) → wp false e = true → wp false a = true →
      FaultSeg .invalidFunctionCall (name :: tLParen :: tAmp :: flat false e ++ tComma :: flat false a ++ [tComma]) post

/-- the token list contains a static fault of kind `e` -/
def StaticWit (e : PErr) (ts : List Token) : Prop :=
  ∃ pre seg post, ts = pre ++ seg ++ post ∧ FaultSeg e seg post

theorem StaticWit.append_left {e : PErr} {b : List Token} (a : List Token) (h : StaticWit e b) :
    StaticWit e (a ++ b) := by
  obtain ⟨pre, seg, post, rfl, hf⟩ := h
  exact ⟨a ++ pre, seg, post, by simp only [List.append_assoc], hf⟩

theorem StaticWit.cons {e : PErr} {b : List Token} (a : Token) (h : StaticWit e b) : StaticWit e (a :: b) :=
  StaticWit.append_left [a] h

theorem StaticWit.drop {e : PErr} {ts : List Token} {k : Nat} (h : StaticWit e (ts.drop k)) : StaticWit e ts := by
  have := StaticWit.append_left (ts.take k) h
  rwa [List.take_append_drop] at this

theorem StaticWit.here {e : PErr} {seg post : List Token} (h : FaultSeg e seg post) : StaticWit e (seg ++ post) :=
  ⟨[], seg, post, rfl, h⟩

theorem allCanon_drop {ts : List Token} (h : AllCanon ts) (k : Nat) : AllCanon (ts.drop k) :=
  fun t ht => h t (List.mem_of_mem_drop ht)

/-! ## The witness, compositionally -/

structure WAt {α} (e : PErr) (ts : List Token) (x : PM α) : Prop where
  h : AllCanon ts → x (stOf ts) = .error e → StaticWit e ts

structure W {α} (e : PErr) (x : PM α) : Prop where
  h : ∀ ts, WAt e ts x

section
variable {e : PErr}

theorem W.pure {α} (a : α) : W e (pure a : PM α) := ⟨fun _ => ⟨fun _ h => by cases h⟩⟩
theorem W.currType : W e Parser.currType := ⟨fun _ => ⟨fun _ h => by cases h⟩⟩
theorem W.nextType : W e Parser.nextType := ⟨fun _ => ⟨fun _ h => by cases h⟩⟩
theorem W.currValue : W e Parser.currValue := ⟨fun _ => ⟨fun _ h => by cases h⟩⟩
/-- a syntax error is not a static fault -/
theorem W.fail_syn {α} {e' : PErr} (h' : IsStatic e' = false) (hs : IsStatic e = true) :
    W e (Parser.fail e' : PM α) := ⟨fun _ => ⟨fun _ h => by
  have : e' = e := by injection h
  subst this; rw [hs] at h'; cases h'⟩⟩

theorem W.advance : W e Parser.advance := by
  constructor
  intro ts
  constructor
  intro _ h
  cases ts with
  | nil => rw [advance_stOf_nil] at h; cases h
  | cons t ts => rw [advance_stOf] at h; cases h

theorem W.advance2 : W e Parser.advance2 := by
  constructor
  intro ts
  constructor
  intro _ h
  match ts, h with
  | [], h => cases h
  | [_], h => cases h
  | t :: t' :: ts, h => rw [advance2_stOf] at h; cases h

theorem W.bind {α β} {x : PM α} {f : α → PM β} (h0 : Suf x) (h1 : W e x) (h2 : ∀ a, W e (f a)) : W e (x >>= f) := by
  constructor
  intro ts
  constructor
  intro hC h
  rw [bind_run] at h
  cases hx : x (stOf ts) with
  | error e' =>
    rw [hx] at h
    have : e' = e := by injection h
    subst this
    exact (h1.h ts).h hC hx
  | ok p =>
    obtain ⟨a, s1⟩ := p
    rw [hx] at h
    obtain ⟨k, rfl⟩ := h0.h ts a s1 hx
    exact (((h2 a).h _).h (allCanon_drop hC k) h).drop

theorem W.get_bind {α} {f : PState → PM α} (h : ∀ ts, WAt e ts (f (stOf ts))) : W e ((get : PM PState) >>= f) := by
  constructor
  intro ts
  constructor
  intro hC hr
  rw [bind_ok (get_run _)] at hr
  exact (h ts).h hC hr

theorem W.ite {α} {c : Prop} [Decidable c] {a b : PM α} (h1 : W e a) (h2 : W e b) : W e (if c then a else b) := by
  split <;> assumption

theorem WAt.ite {α} {ts : List Token} {c : Prop} [Decidable c] {a b : PM α} (h1 : c → WAt e ts a)
    (h2 : ¬ c → WAt e ts b) : WAt e ts (if c then a else b) := by
  split
  · exact h1 ‹_›
  · exact h2 ‹_›

end


/-! ## `indexP`: the step of zero -/

theorem atoiP_err {t : Token} {ts : List Token} {e : PErr} (h : atoiP (stOf (t :: ts)) = .error e) :
    e = .invalidIndex := by
  unfold atoiP at h
  pm_at h []
  cases hp : parseInt64 t.value with
  | none => simp only [hp, fail_run] at h; injection h with h; exact h.symm
  | some i => simp only [hp, pure_run, reduceCtorEq] at h

theorem advance2_stOf_ok (ts : List Token) : ∃ s', advance2 (stOf ts) = .ok ((), s') := by
  match ts with
  | [] => exact ⟨_, rfl⟩
  | [_] => exact ⟨_, rfl⟩
  | t :: t' :: ts => exact ⟨_, advance2_stOf _ _ _⟩

theorem finishP_ne_err (child : Option INode) (a b c : Int) (ts : List Token) (e : PErr) :
    finishP child a b c (stOf ts) ≠ .error e := by
  unfold finishP
  obtain ⟨s', hs⟩ := advance2_stOf_ok ts
  rw [bind_ok hs]
  split
  · intro h; cases h
  · cases child <;> (intro h; cases h)

theorem stepP_fault {child : Option INode} {hs hp : Bool} {start stop : Int} {ts : List Token} {e : PErr}
    (hC : AllCanon ts) (he : IsStatic e = true) (h : stepP child hs hp start stop (stOf ts) = .error e) :
    e = .invalidSliceStep ∧ ∃ z post, ts = z :: tRBracket :: post ∧ isIntTok z = true ∧ intOf z = some 0 := by
  have nostat : ∀ {e' : PErr}, IsStatic e' = false → (Except.error e' : Except PErr ((INode × Bool) × PState)) = .error e → False := by
    intro e' h1 h2
    injection h2 with h2; subst h2; rw [he] at h1; cases h1
  unfold stepP at h
  pm_at h []
  by_cases c1 : (stOf ts).curr.type = TokenType.integerLiteral
  · simp only [c1, if_true] at h
    obtain ⟨t, ts1, rfl, ht⟩ := curr_cons c1 (by decide)
    pm_at h []
    by_cases c2 : (stOf ts1).curr.type = TokenType.closeSqBrace
    case neg =>
      simp only [c2, not_false_eq_true, if_true] at h
      exact (nostat rfl h).elim
    simp only [c2, not_true_eq_false, if_false] at h
    obtain ⟨rest, rfl, hCr⟩ := curr_canon hC.tail c2 rfl
    split at h
    · rename_i i s1 heq
      obtain ⟨i', hi, hr⟩ := atoiP_run heq
      cases hr
      by_cases h0 : i = 0
      · simp only [h0, if_true] at h
        injection h with h
        subst h0
        exact ⟨h.symm, t, rest, rfl, by simp [isIntTok, intOf, ht, hi], by simp [intOf, hi]⟩
      · simp only [h0, if_false] at h
        exfalso
        repeat' split at h
        all_goals exact finishP_ne_err _ _ _ _ _ _ h
    · rename_i e' heq
      have := atoiP_err heq
      subst this
      exact (nostat rfl h).elim
  · simp only [c1, if_false] at h
    by_cases c2 : (stOf ts).curr.type = TokenType.closeSqBrace
    · simp only [c2, if_true] at h
      obtain ⟨rest, rfl, hCr⟩ := curr_canon hC c2 rfl
      pm_at h []
    · simp only [c2, if_false] at h
      exact (nostat rfl h).elim


theorem stopP_fault {child : Option INode} {hs : Bool} {start : Int} {ts : List Token} {e : PErr}
    (hC : AllCanon ts) (he : IsStatic e = true) (h : stopP child hs start (stOf ts) = .error e) :
    e = .invalidSliceStep ∧ ∃ (b : Option Token) (z : Token) (post : List Token),
      ts = b.toList ++ tColon :: z :: tRBracket :: post ∧ optIntTok b = true ∧ isIntTok z = true ∧ intOf z = some 0 := by
  have nostat : ∀ {e' : PErr}, IsStatic e' = false → (Except.error e' : Except PErr ((INode × Bool) × PState)) = .error e → False := by
    intro e' h1 h2
    injection h2 with h2; subst h2; rw [he] at h1; cases h1
  unfold stopP at h
  pm_at h []
  by_cases c1 : (stOf ts).curr.type = TokenType.integerLiteral
  · simp only [c1, if_true] at h
    obtain ⟨t, ts1, rfl, ht⟩ := curr_cons c1 (by decide)
    split at h
    · rename_i j s1 heq
      obtain ⟨j', hj, hr⟩ := atoiP_run heq
      cases hr
      have hbt : isIntTok t = true := by simp [isIntTok, intOf, ht, hj]
      pm_at h []
      by_cases c2 : (stOf ts1).curr.type = TokenType.closeSqBrace
      · simp only [c2, if_true] at h
        obtain ⟨rest, rfl, hCr⟩ := curr_canon hC.tail c2 rfl
        pm_at h []
      · simp only [c2, if_false] at h
        by_cases c3 : (stOf ts1).curr.type = TokenType.colon
        case neg => simp only [c3, if_false] at h; exact (nostat rfl h).elim
        simp only [c3, if_true] at h
        obtain ⟨ts2, rfl, hC2⟩ := curr_canon hC.tail c3 rfl
        pm_at h []
        obtain ⟨h1, z, post, rfl, hz, hz0⟩ := stepP_fault hC2 he h
        exact ⟨h1, some t, z, post, rfl, hbt, hz, hz0⟩
    · rename_i e' heq
      have := atoiP_err heq
      subst this
      exact (nostat rfl h).elim
  · simp only [c1, if_false] at h
    by_cases c2 : (stOf ts).curr.type = TokenType.closeSqBrace
    · simp only [c2, if_true] at h
      obtain ⟨rest, rfl, hCr⟩ := curr_canon hC c2 rfl
      pm_at h []
    · simp only [c2, if_false] at h
      by_cases c3 : (stOf ts).curr.type = TokenType.colon
      case neg => simp only [c3, if_false] at h; exact (nostat rfl h).elim
      simp only [c3, if_true] at h
      obtain ⟨ts2, rfl, hC2⟩ := curr_canon hC c3 rfl
      pm_at h []
      obtain ⟨h1, z, post, rfl, hz, hz0⟩ := stepP_fault hC2 he h
      exact ⟨h1, none, z, post, rfl, rfl, hz, hz0⟩

theorem startP_fault {child : Option INode} {ts : List Token} {e : PErr}
    (hC : AllCanon ts) (he : IsStatic e = true) (h : startP child (stOf ts) = .error e) :
    e = .invalidSliceStep ∧ ∃ (a b : Option Token) (z : Token) (post : List Token),
      ts = sliceToks a b (some (some z)) ++ tRBracket :: post ∧ optIntTok a = true ∧ optIntTok b = true ∧
        isIntTok z = true ∧ intOf z = some 0 := by
  have nostat : ∀ {e' : PErr}, IsStatic e' = false → (Except.error e' : Except PErr ((INode × Bool) × PState)) = .error e → False := by
    intro e' h1 h2
    injection h2 with h2; subst h2; rw [he] at h1; cases h1
  unfold startP at h
  pm_at h []
  by_cases c1 : (stOf ts).curr.type = TokenType.integerLiteral
  · simp only [c1, if_true] at h
    obtain ⟨t, ts1, rfl, ht⟩ := curr_cons c1 (by decide)
    split at h
    · rename_i j s1 heq
      obtain ⟨j', hj, hr⟩ := atoiP_run heq
      cases hr
      have hbt : isIntTok t = true := by simp [isIntTok, intOf, ht, hj]
      pm_at h []
      by_cases c2 : (stOf ts1).curr.type = TokenType.closeSqBrace
      · simp only [c2, if_true] at h
        obtain ⟨rest, rfl, hCr⟩ := curr_canon hC.tail c2 rfl
        pm_at h []
        cases child <;> simp only [pure_run] at h
        · split at h <;> cases h
        · cases h
      · simp only [c2, if_false] at h
        by_cases c3 : (stOf ts1).curr.type = TokenType.colon
        case neg => simp only [c3, if_false] at h; exact (nostat rfl h).elim
        simp only [c3, if_true] at h
        obtain ⟨ts2, rfl, hC2⟩ := curr_canon hC.tail c3 rfl
        pm_at h []
        obtain ⟨h1, b, z, post, rfl, hb, hz, hz0⟩ := stopP_fault hC2 he h
        refine ⟨h1, some t, b, z, post, ?_, hbt, hb, hz, hz0⟩
        simp only [sliceToks, Option.toList, List.cons_append, List.nil_append, List.append_assoc]; rfl
    · rename_i e' heq
      have := atoiP_err heq
      subst this
      exact (nostat rfl h).elim
  · simp only [c1, if_false] at h
    by_cases c3 : (stOf ts).curr.type = TokenType.colon
    case neg => simp only [c3, if_false] at h; exact (nostat rfl h).elim
    simp only [c3, if_true] at h
    obtain ⟨ts2, rfl, hC2⟩ := curr_canon hC c3 rfl
    pm_at h []
    obtain ⟨h1, b, z, post, rfl, hb, hz, hz0⟩ := stopP_fault hC2 he h
    refine ⟨h1, none, b, z, post, ?_, rfl, hb, hz, hz0⟩
    simp only [sliceToks, Option.toList, List.cons_append, List.nil_append, List.append_assoc]; rfl

theorem W.indexP {e : PErr} (he : IsStatic e = true) (child : Option INode) : W e (Parser.indexP child) := by
  constructor
  intro ts
  constructor
  intro hC h
  rw [indexP_eq] at h
  obtain ⟨rfl, a, b, z, post, rfl, ha, hb, hz, hz0⟩ := startP_fault hC he h
  have := StaticWit.here (post := post) (FaultSeg.stepZero ha hb hz hz0)
  simpa only [List.append_assoc, List.singleton_append] using this


/-! ## The thirteen functions -/

/-- what `fnArgs` reports when it fails with a static error: a fault inside an argument, or the argument list ends too
    early / goes on too long -/
def ArgsFault (e : PErr) (mn mx : Nat) (n0 : Nat) (ts : List Token) : Prop :=
  StaticWit e ts ∨ (e = .invalidFunctionCall ∧ ∃ (es : List PTree) (closer : Token) (post : List Token),
    es ≠ [] ∧ ts = flatSep es ++ closer :: post ∧ wpL es = true ∧
      ((closer = tRParen ∧ n0 + es.length < mn) ∨ (closer = tComma ∧ n0 + es.length = mx)))

structure WAll (e : PErr) (f : Nat) : Prop where
  expr : ∀ p, W e (expression f p)
  loop : ∀ n p, W e (exprLoop f n p)
  filt : W e (filterP f)
  args : ∀ mn mx acc ts, AllCanon ts → acc.length < mx → mn ≤ mx → fnArgs f mn mx acc (stOf ts) = .error e →
    ArgsFault e mn mx acc.length ts
  vargs : ∀ a, W e (fnVarArgs f a)
  func : ∀ ts, (stOf ts).curr.type = .unquotedIdentifier → ((stOf ts).next.type == TokenType.openParen) = true →
    WAt e ts (function f)
  letp : ∀ a, W e (letP f a)
  prim : W e (primaryExpression f)
  proj : ∀ p, W e (projection f p)
  sarr : ∀ c, W e (selectArray f c)
  sarrl : ∀ c l, W e (selectArrayLoop f c l)
  sobj : ∀ c, W e (selectObject f c)
  sobjl : ∀ c l, W e (selectObjectLoop f c l)

macro "w_tac" ih:ident hs:ident sf:ident : tactic => `(tactic|
  repeat (first
    | exact W.pure _
    | exact W.fail_syn rfl $hs
    | exact W.currType
    | exact W.nextType
    | exact W.currValue
    | exact W.advance
    | exact W.advance2
    | exact W.indexP $hs _
    | exact WAll.expr $ih _
    | exact WAll.loop $ih _ _
    | exact WAll.filt $ih
    | exact WAll.vargs $ih _
    | exact WAll.func $ih _ (by assumption) (by assumption)
    | exact WAll.letp $ih _
    | exact WAll.prim $ih
    | exact WAll.proj $ih _
    | exact WAll.sarr $ih _
    | exact WAll.sarrl $ih _ _
    | exact WAll.sobj $ih _
    | exact WAll.sobjl $ih _ _
    | exact Suf.pure _
    | exact Suf.fail _
    | exact Suf.currType
    | exact Suf.nextType
    | exact Suf.currValue
    | exact Suf.advance
    | exact Suf.advance2
    | exact Suf.indexP _
    | exact SufAll.expr $sf _
    | exact SufAll.loop $sf _ _
    | exact SufAll.filt $sf
    | exact SufAll.vargs $sf _
    | exact SufAll.letp $sf _
    | exact SufAll.prim $sf
    | exact SufAll.proj $sf _
    | exact SufAll.sarr $sf _
    | exact SufAll.sarrl $sf _ _
    | exact SufAll.sobj $sf _
    | exact SufAll.sobjl $sf _ _
    | apply WAt.ite
    | apply W.bind
    | apply W.ite
    | apply Suf.bind
    | apply Suf.ite
    | intro _
    | split
    | apply W.h))

theorem wAll_zero {e : PErr} (hs : IsStatic e = true) : WAll e 0 where
  expr p := by rw [expression.eq_1]; exact W.fail_syn rfl hs
  loop n p := by rw [exprLoop.eq_1]; exact W.fail_syn rfl hs
  filt := by rw [filterP.eq_1]; exact W.fail_syn rfl hs
  args mn mx acc ts _ _ _ h := by
    rw [fnArgs.eq_1] at h
    have : PErr.fuel = e := by injection h
    subst this; cases hs
  vargs a := by rw [fnVarArgs.eq_1]; exact W.fail_syn rfl hs
  func ts _ _ := by rw [function.eq_1]; exact (W.fail_syn rfl hs).h ts
  letp a := by rw [letP.eq_1]; exact W.fail_syn rfl hs
  prim := by rw [primaryExpression.eq_1]; exact W.fail_syn rfl hs
  proj p := by rw [projection.eq_1]; exact W.fail_syn rfl hs
  sarr c := by rw [selectArray.eq_1]; exact W.fail_syn rfl hs
  sarrl c l := by rw [selectArrayLoop.eq_1]; exact W.fail_syn rfl hs
  sobj c := by rw [selectObject.eq_1]; exact W.fail_syn rfl hs
  sobjl c l := by rw [selectObjectLoop.eq_1]; exact W.fail_syn rfl hs

end Jmes.C04EFault
