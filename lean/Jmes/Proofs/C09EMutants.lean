/-
  C09, fifth wave — THE GUARD-DELETION DEMOS, RESTATED HONESTLY.

  `Jmes/Proofs/C09CTick*.lean` contain "mutants": mirrors of a Go loop with one protection deleted, to show that the
  cost theorems really use that protection (result unchanged, cost = the magnitude of an integer argument).  A review
  found four defects in them; this file repairs each:

  1. `startOffsetMutantT` deletes BOTH protections of the offset loop of `find_*` (the pre-check `i > len(s)`,
     string.go:130/:218, and the exit `if sz == 0 { return nil, nil }`) at once, while the text around it spoke of "each
     of the two".  Here: one mutant per SINGLE deletion (`startOffsetNoPreT`, `startOffsetNoExitT`, and the same two for
     the `finish` offset), each still bounded by the string; deleting the exit alone CHANGES A RESULT
     (`find_first('é', '', `2`)`: `null` becomes `1` — checked against Go with a mutated copy of string.go:216-240), and
     this is proved; deleting both is the unbounded one.
  2. `revNoGuardT` is not "functions.go:96 without its guard": that loop, `for len(s) > 0 { … }`, has no counter, so
     without its guard it is `for { … }` and does not terminate.  What is true — and stated here — is that the unguarded
     loop has no finite cost: it performs any number of iterations on any string.
  3. The unboundedness theorems used the witness `s = []`, which Go never lets reach the mutated line of `split`
     (string.go:933 returns before) and which, for `slice`/`find_*`, hides whether a non-empty subject matters.  Here
     every unboundedness statement is for a FIXED NON-EMPTY subject (`"a"`, `"ab"`) that reaches the mutated line in Go,
     and for the skipping loops the mutant is carried through the whole of `sliceStep` on a string.
  4. There was no mutant for slice.go:266 (backward skipping loop) nor for the clamp string.go:938 (`split` with an
     empty separator).  Both are added.  Deleting the clamp string.go:938 CHANGES THE RESULT (`split('ab', '', `5`)`
     yields `["a","b","","","",""]` instead of `["a","b"]` — checked against Go with a mutated copy of string.go:937-954),
     and costs `2n + 1`.

  Every theorem has a plain-words doc comment and a concrete `example`.
-/
import Jmes.Proofs.C09CTickStr2
import Jmes.Proofs.C09CTickSplit2
set_option linter.unusedSimpArgs false
set_option linter.unusedVariables false
namespace Jmes.C09E
open Jmes Jmes.C09C

/-! ## 1. The offset loop of `find_*` (string.go:128-144 / :146-162 and their three copies)

  Go:   `if i < 0 { i = 0 } else if i > len(s) { return nil, nil } else {
           n := 0; for k := 0; k < i; k++ { _, sz := utf8.DecodeRuneInString(s[n:]); if sz == 0 { return nil, nil }; n += sz }; i = n }`

  Two protections: (P) the pre-check `i > len(s)`, (E) the exit `sz == 0`. -/

/-! ### auxiliary facts on `runeOffset` / `runesLen` -/

/-- within the string the model's `runeOffset` is the byte length of the first `i` code points -/
theorem runeOffset_eq_runesLen : ∀ (i : Nat) (s : Bytes) (acc : Nat), i ≤ runeCount s →
    runeOffset i s acc = some (acc + runesLen i s) := by
  intro i
  induction i with
  | zero => intro s acc _; simp [runeOffset, runesLen]
  | succ i ih =>
    intro s acc h
    have hne : s ≠ [] := by intro c; subst c; rw [C09.runeCount_nil] at h; omega
    rw [C09.runeCount_step s hne] at h
    rw [Utf8.runeOffset_succ _ _ _ hne, Utf8.runesLen_succ _ _ hne, ih _ _ (by omega)]
    simp only [Option.some.injEq]; omega

/-- asking for at least as many code points as there are measures the whole string -/
theorem runesLen_all : ∀ (i : Nat) (s : Bytes), runeCount s ≤ i → runesLen i s = s.length := by
  intro i
  induction i with
  | zero =>
    intro s h
    have : s = [] := C09.runeCount_eq_zero s (by omega)
    subst this; rfl
  | succ i ih =>
    intro s h
    by_cases hne : s = []
    · subst hne; rfl
    · rw [C09.runeCount_step s hne] at h
      have := C09.decodeRune_le s
      rw [Utf8.runesLen_succ _ _ hne, ih _ (by omega), List.length_drop]; omega

/-- the loop WITHOUT the exit (E), `i` iterations from byte offset `n`: it never leaves early, it ends at the byte
    offset of code point `i` — or at `len(s)`, where decoding the empty rest yields size 0 and `n` stops moving —
    and it costs exactly `i` iterations whatever the string -/
theorem findOffNoExit_eq (s : Bytes) : ∀ (i n : Nat),
    forBrkT (findOffNoExitBody s) i n = ⟨.next (n + runesLen i (s.drop n)), i⟩ := by
  intro i
  induction i with
  | zero => intro n; simp [forBrkT, runesLen]; rfl
  | succ i ih =>
    intro n
    have e : runesLen (i + 1) (s.drop n)
        = (decodeRune (s.drop n)).2 + runesLen i (s.drop (n + (decodeRune (s.drop n)).2)) := by
      by_cases hne : s.drop n = []
      · rw [hne, Utf8.runesLen_nil]
        have h0 : (decodeRune ([] : Bytes)).2 = 0 := rfl
        rw [h0, Nat.add_zero, hne, Utf8.runesLen_nil]
      · rw [Utf8.runesLen_succ _ _ hne, List.drop_drop]
    have hb : findOffNoExitBody s n = ⟨.next (n + (decodeRune (s.drop n)).2), 0⟩ := rfl
    apply T.ext
    · rw [forBrkT_succ_fst, hb, mk_fst]
      simp only
      rw [ih, e, mk_fst]
      congr 1; omega
    · rw [forBrkT_succ_snd, hb, mk_fst, mk_snd]
      simp only
      rw [ih, mk_snd]; omega

/-! ### (i) pre-check (P) deleted, exit (E) kept -/

/-- string.go:128-144 WITHOUT `else if i > len(s) { return nil, nil }`: the loop is entered for every `i ≥ 0` -/
def startOffsetNoPreT (s : Bytes) (i : Int) : T (Option Nat) :=
  if i < 0 then pure (some 0)
  else do
    let r ← findOffLoopT s i.toNat 0                       -- string.go:134, now for every `i ≥ 0`
    pure (match r with
      | .next n => some n
      | .brk _ => none)

/-- deleting the pre-check alone keeps EVERY result: an `i > len(s)` is also `> runeCount s`, and the loop returns
    null through its `sz == 0` exit -/
theorem startOffsetNoPreT_fst (s : Bytes) (i : Int) : (startOffsetNoPreT s i).1 = startOffset s i := by
  unfold startOffsetNoPreT startOffset
  by_cases h1 : i < 0
  · simp [h1]
  · simp only [h1, if_false, bind_fst, pure_fst]
    rw [findOffLoopT_eq s _ 0 (Nat.zero_le _), mk_fst, List.drop_zero]
    by_cases h2 : i > s.length
    · have hr := C09.runeCount_le_length _ s (Nat.le_refl _)
      rw [if_pos h2, C09.runeOffset_none _ s 0 (by omega)]
    · rw [if_neg h2]
      cases runeOffset i.toNat s 0 <;> rfl

/-- its cost, exactly: `min i (runeCount s + 1)` iterations for every `i ≥ 0` -/
theorem startOffsetNoPreT_snd (s : Bytes) (i : Int) :
    (startOffsetNoPreT s i).2 = if i < 0 then 0 else min i.toNat (runeCount s + 1) := by
  unfold startOffsetNoPreT
  by_cases h1 : i < 0
  · simp [h1]
  · simp only [h1, if_false, bind_snd, pure_snd]
    rw [findOffLoopT_eq s _ 0 (Nat.zero_le _), mk_snd, List.drop_zero]; omega

/-- … hence, ∀ i : Int, at most `runeCount s + 1` iterations: the exit (E) ALONE bounds the loop by the string -/
theorem startOffsetNoPreT_snd_le (s : Bytes) : ∀ i : Int, (startOffsetNoPreT s i).2 ≤ runeCount s + 1 := by
  intro i
  rw [startOffsetNoPreT_snd]
  split <;> omega

/-- "héllo", start = 2^62: null after 6 iterations (5 code points, then the `sz == 0` exit) — where Go with the
    pre-check spends none -/
example : startOffsetNoPreT [0x68, 0xC3, 0xA9, 0x6C, 0x6C, 0x6F] (2 ^ 62) = ⟨none, 6⟩ := by
  apply T.ext
  · rw [startOffsetNoPreT_fst]; decide
  · rw [startOffsetNoPreT_snd]; decide

/-! ### (ii) exit (E) deleted, pre-check (P) kept -/

/-- string.go:128-144 WITHOUT `if sz == 0 { return nil, nil }`: the loop always runs its `i ≤ len(s)` iterations
    and then sets `i = n` -/
def startOffsetNoExitT (s : Bytes) (i : Int) : T (Option Nat) :=
  if i < 0 then pure (some 0)
  else if i > s.length then pure none
  else do
    let r ← forBrkT (findOffNoExitBody s) i.toNat 0        -- string.go:134 without the exit
    pure (match r with
      | .next n => some n
      | .brk _ => none)

/-- what the mutant returns: inside `0 ≤ i ≤ len(s)` always an offset, `len(s)` when the string has fewer than `i`
    code points -/
theorem startOffsetNoExitT_fst (s : Bytes) (i : Int) :
    (startOffsetNoExitT s i).1 =
      if i < 0 then some 0 else if i > s.length then none else some (runesLen i.toNat s) := by
  unfold startOffsetNoExitT
  by_cases h1 : i < 0
  · simp [h1]
  · by_cases h2 : i > s.length
    · simp [h1, h2]
    · simp only [h1, h2, if_false, bind_fst, pure_fst]
      rw [findOffNoExit_eq, mk_fst, List.drop_zero, Nat.zero_add]

/-- deleting the exit alone keeps the result of the conversion EXCEPT for `runeCount s < i ≤ len(s)` (only possible
    when `s` has multi-byte code points or invalid bytes … or simply more bytes than code points): there Go returns null
    and the mutant goes on with the offset `len(s)` -/
theorem startOffsetNoExitT_fst_cases (s : Bytes) (i : Int) :
    ((runeCount s : Int) < i ∧ i ≤ s.length →
      startOffset s i = none ∧ (startOffsetNoExitT s i).1 = some s.length) ∧
    (¬ ((runeCount s : Int) < i ∧ i ≤ s.length) → (startOffsetNoExitT s i).1 = startOffset s i) := by
  rw [startOffsetNoExitT_fst]
  unfold startOffset
  refine ⟨fun ⟨h1, h2⟩ => ?_, fun h => ?_⟩
  · have h3 : ¬ i < 0 := by omega
    have h4 : ¬ i > s.length := by omega
    simp only [h3, h4, if_false]
    rw [C09.runeOffset_none _ s 0 (by omega), runesLen_all _ s (by omega)]
    exact ⟨rfl, rfl⟩
  · by_cases h1 : i < 0
    · simp [h1]
    · by_cases h2 : i > s.length
      · simp [h1, h2]
      · simp only [h1, h2, if_false]
        rw [runeOffset_eq_runesLen _ s 0 (by omega), Nat.zero_add]

/-- its cost, exactly: the counter, `i` iterations for `0 ≤ i ≤ len(s)` -/
theorem startOffsetNoExitT_snd (s : Bytes) (i : Int) :
    (startOffsetNoExitT s i).2 = if i < 0 then 0 else if i > s.length then 0 else i.toNat := by
  unfold startOffsetNoExitT
  by_cases h1 : i < 0
  · simp [h1]
  · by_cases h2 : i > s.length
    · simp [h1, h2]
    · simp only [h1, h2, if_false, bind_snd, pure_snd]
      rw [findOffNoExit_eq, mk_snd]; omega

/-- … hence, ∀ i : Int, at most `|s|` iterations: the pre-check (P) ALONE bounds the loop by the string -/
theorem startOffsetNoExitT_snd_le (s : Bytes) : ∀ i : Int, (startOffsetNoExitT s i).2 ≤ s.length := by
  intro i
  rw [startOffsetNoExitT_snd]
  split
  · omega
  · split <;> omega

/-- "é" (2 bytes, 1 code point), start = 2: Go's conversion returns null (second iteration, `sz == 0`); without the
    exit it yields the offset 2 after 2 iterations.  start = 2^62: the pre-check answers, no iteration. -/
example : startOffset [0xC3, 0xA9] 2 = none ∧ startOffsetNoExitT [0xC3, 0xA9] 2 = ⟨some 2, 2⟩ ∧
    startOffsetNoExitT [0xC3, 0xA9] (2 ^ 62) = ⟨none, 0⟩ := by decide

/-- `findFirstFrom` / `findLastFrom` after the argument decoding (string.go:216-240 / :429-453) with the exit (E) of
    their offset loop deleted -/
def findFromCoreNoExitT (last : Bool) (s p : Bytes) (i : Int) : T (Res Val) := do
  let o ← startOffsetNoExitT s i
  match o with
  | none => pure (.ok .null)
  | some i => do
    let r ← findSearchT last (s.drop i) p
    findTailT s i r

/-- nothing is found in the empty string, unless the empty string is searched for -/
theorem indexOf_nil (p : Bytes) (hp : p ≠ []) : indexOf [] p = none ∧ lastIndexOf [] p = none := by
  cases p with
  | nil => exact absurd rfl hp
  | cons a t => exact ⟨by simp [indexOf, indexOfAux], by simp [lastIndexOf, lastIndexOfAux]⟩

/-- for a NON-EMPTY `sub` the function-level result is unchanged by deleting the exit: where the conversion differs
    the search runs on the empty rest `s[len(s):]` and finds nothing -/
theorem findFromCoreNoExitT_fst (last : Bool) (s p : Bytes) (hp : p ≠ []) (i : Int) :
    (findFromCoreNoExitT last s p i).1 = (findFromCoreT last s p i).1 := by
  by_cases h : (runeCount s : Int) < i ∧ i ≤ s.length
  · obtain ⟨h1, h2⟩ := (startOffsetNoExitT_fst_cases s i).1 h
    simp only [findFromCoreNoExitT, findFromCoreT, bind_fst, startOffsetT_fst, h1, h2]
    rw [List.drop_length, findTailT_fst, findSearchT_fst]
    cases last
    · simp [(indexOf_nil p hp).1]
    · simp [(indexOf_nil p hp).2]
  · have := (startOffsetNoExitT_fst_cases s i).2 h
    simp only [findFromCoreNoExitT, findFromCoreT, bind_fst, startOffsetT_fst, this]
    cases startOffset s i <;> rfl

/-- … but for the EMPTY `sub` it is not: `find_first('é', '', `2`)` is `null` in Go and in the model, and `1` with
    the exit deleted (Go, mutated copy of string.go:216-240: `1`).  A single deletion that changes a result. -/
theorem findFromCoreNoExitT_differs :
    (findFromCoreT false [0xC3, 0xA9] [] 2).1 = .ok .null ∧
    findFrom false (.str [0xC3, 0xA9]) (.str []) (.num (.int .i64 2)) = .ok .null ∧
    (findFromCoreNoExitT false [0xC3, 0xA9] [] 2).1 = .ok (.num (.int .i64 1)) := by
  refine ⟨?_, by rfl, ?_⟩
  · rw [findFromCoreT_fst]; rfl
  · have h := (startOffsetNoExitT_fst_cases [0xC3, 0xA9] 2).1 (by decide)
    simp only [findFromCoreNoExitT, bind_fst, h.2]
    rw [findTailT_fst, findSearchT_fst]
    rfl

/-! ### both deleted: the unbounded one, with a reachable witness -/

/-- with NEITHER protection (`C09C.startOffsetMutantT`) the loop costs exactly `i` iterations for every `i ≥ 0` and
    every string -/
theorem startOffsetMutantT_snd (s : Bytes) (i : Int) (h : 0 ≤ i) : (startOffsetMutantT s i).2 = i.toNat := by
  unfold startOffsetMutantT
  rw [if_neg (by omega), findOffNoExit_cost]

/-- … so for the FIXED one-byte subject "a" (any subject would do) no bound exists at all: the cost is the magnitude
    of `start`.  (`C09C.startOffsetMutantT_unbounded` used the empty subject as its witness; a non-empty one shows
    that the string does not help.) -/
theorem startOffsetMutantT_unbounded_nonempty :
    ¬ ∃ c : Nat, ∀ i : Int, (startOffsetMutantT [0x61] i).2 ≤ c := by
  intro ⟨c, h⟩
  have := h ((c + 1 : Nat) : Int)
  rw [startOffsetMutantT_snd _ _ (by omega)] at this
  omega

example : (startOffsetMutantT [0x61] (2 ^ 62)).2 = 2 ^ 62 ∧ (startOffsetNoPreT [0x61] (2 ^ 62)).2 = 2 ∧
    (startOffsetNoExitT [0x61] (2 ^ 62)).2 = 0 ∧ (startOffsetT [0x61] (2 ^ 62)).2 = 0 := by
  refine ⟨startOffsetMutantT_snd _ _ (by decide), ?_, by decide, by decide⟩
  rw [startOffsetNoPreT_snd]; decide

/-! ### the `finish` offset (string.go:146-162): clamp `j > len(s) → j = len(s)`, exit `break` -/

/-- string.go:146-162 WITHOUT `else if j > len(s) { j = len(s) }` -/
def finishOffsetNoPreT (s : Bytes) (j : Int) : T (Option Nat) :=
  if j < 0 then pure none
  else do
    let r ← findOffLoopT s j.toNat 0
    pure (match r with
      | .next n => some n
      | .brk n => some n)

/-- string.go:146-162 WITHOUT `if sz == 0 { break }` -/
def finishOffsetNoExitT (s : Bytes) (j : Int) : T (Option Nat) :=
  if j < 0 then pure none
  else if j > s.length then pure (some s.length)
  else do
    let r ← forBrkT (findOffNoExitBody s) j.toNat 0
    pure (match r with
      | .next n => some n
      | .brk n => some n)

/-- deleting the clamp alone keeps every result (the `break` leaves at `n = len(s)`), at `≤ runeCount s + 1`
    iterations -/
theorem finishOffsetNoPreT_spec (s : Bytes) (j : Int) :
    (finishOffsetNoPreT s j).1 = finishOffset s j ∧ (finishOffsetNoPreT s j).2 ≤ runeCount s + 1 := by
  unfold finishOffsetNoPreT finishOffset
  by_cases h1 : j < 0
  · simp [h1]
  · simp only [h1, if_false, bind_fst, bind_snd, pure_fst, pure_snd]
    rw [findOffLoopT_eq s _ 0 (Nat.zero_le _), mk_fst, mk_snd, List.drop_zero]
    refine ⟨?_, by omega⟩
    by_cases h2 : j > s.length
    · have hr := C09.runeCount_le_length _ s (Nat.le_refl _)
      rw [if_pos h2, C09.runeOffset_none _ s 0 (by omega)]
    · rw [if_neg h2]
      cases runeOffset j.toNat s 0 <;> rfl

/-- deleting the `break` alone ALSO keeps every result of the `finish` conversion (without the `break` `n` stops at
    `len(s)` by itself, which is what the `break` path assigns), at `≤ |s|` iterations -/
theorem finishOffsetNoExitT_spec (s : Bytes) (j : Int) :
    (finishOffsetNoExitT s j).1 = finishOffset s j ∧ (finishOffsetNoExitT s j).2 ≤ s.length := by
  unfold finishOffsetNoExitT finishOffset
  by_cases h1 : j < 0
  · simp [h1]
  · by_cases h2 : j > s.length
    · simp [h1, h2]
    · simp only [h1, h2, if_false, bind_fst, bind_snd, pure_fst, pure_snd]
      rw [findOffNoExit_eq, mk_fst, mk_snd, List.drop_zero, Nat.zero_add]
      refine ⟨?_, by omega⟩
      by_cases h3 : j.toNat ≤ runeCount s
      · rw [runeOffset_eq_runesLen _ s 0 h3]; simp
      · rw [C09.runeOffset_none _ s 0 (by omega), runesLen_all _ s (by omega)]; rfl

example : finishOffsetNoPreT [0xC3, 0xA9] (2 ^ 62) = ⟨some 2, 2⟩ := by
  apply T.ext
  · rw [(finishOffsetNoPreT_spec _ _).1]; decide
  · simp only [finishOffsetNoPreT, findOffLoopT_eq _ _ 0 (Nat.zero_le _)]; decide
example : finishOffsetNoExitT [0xC3, 0xA9] 2 = ⟨some 2, 2⟩ := by decide

/-! ### the property-level statement -/

/-- THE OFFSET LOOPS OF `find_*`, each protection on its own.
    (a) With the pre-check / clamp `> len(s)` DELETED and the `sz == 0` exit kept, the conversions of `start` and `finish`
        return what they returned, in at most `runeCount s + 1` iterations for every integer.
    (b) With the exit DELETED and the pre-check kept, they cost at most `|s|` iterations for every integer; `finish`
        returns what it returned; `start` returns what it returned unless `runeCount s < i ≤ len(s)`, where Go returns
        null and the mutant continues with offset `len(s)` — for a non-empty `sub` the function result is still the same,
        for the empty `sub` it is not (`findFromCoreNoExitT_differs`).
    (c) With BOTH deleted the loop costs exactly `i` iterations whatever the string.
    So each protection suffices for the cost bound, only the two deleted together leave the magnitude of the argument. -/
theorem find_offset_each_guard_suffices (s : Bytes) :
    (∀ i : Int, (startOffsetNoPreT s i).1 = startOffset s i ∧ (startOffsetNoPreT s i).2 ≤ runeCount s + 1) ∧
    (∀ j : Int, (finishOffsetNoPreT s j).1 = finishOffset s j ∧ (finishOffsetNoPreT s j).2 ≤ runeCount s + 1) ∧
    (∀ i : Int, (startOffsetNoExitT s i).2 ≤ s.length ∧
      (¬ ((runeCount s : Int) < i ∧ i ≤ s.length) → (startOffsetNoExitT s i).1 = startOffset s i) ∧
      (∀ (last : Bool) (p : Bytes), p ≠ [] → (findFromCoreNoExitT last s p i).1 = (findFromCoreT last s p i).1)) ∧
    (∀ j : Int, (finishOffsetNoExitT s j).1 = finishOffset s j ∧ (finishOffsetNoExitT s j).2 ≤ s.length) ∧
    (∀ i : Int, 0 ≤ i → (startOffsetMutantT s i).2 = i.toNat) :=
  ⟨fun i => ⟨startOffsetNoPreT_fst s i, startOffsetNoPreT_snd_le s i⟩,
   fun j => finishOffsetNoPreT_spec s j,
   fun i => ⟨startOffsetNoExitT_snd_le s i, (startOffsetNoExitT_fst_cases s i).2,
     fun last p hp => findFromCoreNoExitT_fst last s p hp i⟩,
   fun j => finishOffsetNoExitT_spec s j,
   fun i h => startOffsetMutantT_snd s i h⟩

/-- "é", every protection combination at start = 2^62: 0, 2, 0 and 2^62 iterations -/
example : (startOffsetT [0xC3, 0xA9] (2 ^ 62)).2 = 0 ∧ (startOffsetNoPreT [0xC3, 0xA9] (2 ^ 62)).2 = 2 ∧
    (startOffsetNoExitT [0xC3, 0xA9] (2 ^ 62)).2 = 0 ∧ (startOffsetMutantT [0xC3, 0xA9] (2 ^ 62)).2 = 2 ^ 62 := by
  refine ⟨by decide, ?_, by decide, startOffsetMutantT_snd _ _ (by decide)⟩
  rw [startOffsetNoPreT_snd]; decide

/-! ## 2. `reverse` (functions.go:96 `for len(s) > 0 { … }`)

  This Go loop has NO counter: its guard is its only loop condition.  "Deleting the guard" therefore does not give a
  Go program with a large but finite cost, it gives `for { … }`, which does not terminate (decoding the empty string
  yields size 0, `s` stays empty, `b.WriteRune(utf8.RuneError)` is appended for ever — until memory runs out).
  `C09C.revNoGuardT f` is NOT a Go-expressible mutant: it is the unguarded loop cut off after `f` iterations by the
  mirror's own counter.  What can be said of the unguarded loop, and is said here: it performs ANY number `f` of
  iterations on ANY string, so it has no finite cost. -/

/-- the unguarded loop of `reverse` has no finite cost: for every string, every builder and every budget `c` there is
    a number of iterations it does perform whose cost exceeds `c` -/
theorem revNoGuard_no_finite_cost (s b : Bytes) : ∀ c : Nat, ∃ f : Nat, c < (revNoGuardT f s b).2 :=
  fun c => ⟨c + 1, revNoGuardT_cost_ge (c + 1) s b⟩

/-- … whereas the guarded loop, whatever counter bound `f ≥ len(s)` the mirror is given, costs at most `5·|s|` -/
theorem revGuard_cost_le (f : Nat) (s b : Bytes) (h : s.length ≤ f) : (revStrLoopT f s b).2 ≤ 5 * s.length := by
  rw [revStrLoop f s b h]
  have := revStr_length_le f s h
  have := C09.backCount_le_length _ s (Nat.le_refl _)
  simp only [mk_snd]; omega

/-- "hé": the guarded loop costs 5 at every bound; the unguarded one exceeds 2^62 -/
example : (revStrLoopT (2 ^ 62) [0x68, 0xC3, 0xA9] []).2 ≤ 15 ∧
    ∃ f, 2 ^ 62 < (revNoGuardT f [0x68, 0xC3, 0xA9] []).2 :=
  ⟨revGuard_cost_le _ _ _ (by decide), revNoGuard_no_finite_cost _ _ _⟩

/-! ## 3. The skipping loops of `sliceStep` on a string (slice.go:250 and slice.go:266) -/

/-- slice.go:266 `for j := -1; j > step && len(s) > 0; j--` WITHOUT `&& len(s) > 0` -/
def skipBwdNoGuardT (k : Nat) (s : Bytes) : T Bytes :=
  forT (fun _ => true) (fun s => pure (s.take (s.length - (decodeLastRune s).2))) k s

/-- the backward mutant returns the same string (decoding the empty string from the back yields size 0) at a cost
    equal to the magnitude of the step -/
theorem skipBwdNoGuardT_eq (k : Nat) (s : Bytes) : skipBwdNoGuardT k s = ⟨dropLastRunes k s, k⟩ := dropBwdT_eq k s

/-- slice.go:266 with and without its guard: same string, `min k (backCount s)` ticks against `k` ticks -/
theorem skip_bwd_guard_matters (k : Nat) (s : Bytes) :
    (skipBwdT k s).1 = dropLastRunes k s ∧ (skipBwdT k s).2 = min k (Cost.backCount s) ∧
    (skipBwdNoGuardT k s).1 = dropLastRunes k s ∧ (skipBwdNoGuardT k s).2 = k := by
  rw [skipBwdT_eq, skipBwdNoGuardT_eq]; exact ⟨rfl, rfl, rfl, rfl⟩

/-- for the FIXED non-empty subject "a" neither unguarded skipping loop has a bound: the cost is `k = |step| - 1` -/
theorem skipNoGuard_unbounded_nonempty :
    (¬ ∃ c : Nat, ∀ k : Nat, (skipNoGuardT k [0x61]).2 ≤ c) ∧
    (¬ ∃ c : Nat, ∀ k : Nat, (skipBwdNoGuardT k [0x61]).2 ≤ c) := by
  refine ⟨fun ⟨c, h⟩ => ?_, fun ⟨c, h⟩ => ?_⟩
  · have := h (c + 1); rw [skipNoGuardT_eq] at this; simp only [mk_snd] at this; omega
  · have := h (c + 1); rw [skipBwdNoGuardT_eq] at this; simp only [mk_snd] at this; omega

example : (skipBwdNoGuardT (2 ^ 62) [0x61]).1 = (skipBwdT (2 ^ 62) [0x61]).1 ∧
    (skipBwdNoGuardT (2 ^ 62) [0x61]).2 = 2 ^ 62 ∧ (skipBwdT (2 ^ 62) [0x61]).2 = 1 := by
  rw [skipBwdNoGuardT_eq, skipBwdT_eq]; exact ⟨rfl, rfl, by decide⟩

/-! ### the mutants carried through the whole string branch of `sliceStep` (slice.go:169-274) -/

/-- the body of slice.go:245 with the inner loop slice.go:250 unguarded -/
def walkFwdNoGuardBody (step : Nat) (p : Bytes × Bytes) : T (Bytes × Bytes) := do
  let (r, sz) := decodeRune p.1
  let s := p.1.drop sz
  let b ← writeRuneT p.2 r
  let s ← skipNoGuardT (step - 1) s                      -- slice.go:250 without `&& len(s) > 0`
  pure (s, b)

/-- slice.go:245 around the unguarded slice.go:250 -/
def walkFwdNoGuardT (step : Nat) (n : Nat) (s b : Bytes) : T (Bytes × Bytes) :=
  forT (fun _ => true) (walkFwdNoGuardBody step) n (s, b)

/-- the body of slice.go:261 with the inner loop slice.go:266 unguarded -/
def walkBwdNoGuardBody (step : Nat) (p : Bytes × Bytes) : T (Bytes × Bytes) := do
  let (r, sz) := decodeLastRune p.1
  let s := p.1.take (p.1.length - sz)
  let b ← writeRuneT p.2 r
  let s ← skipBwdNoGuardT (step - 1) s                   -- slice.go:266 without `&& len(s) > 0`
  pure (s, b)

/-- slice.go:261 around the unguarded slice.go:266 -/
def walkBwdNoGuardT (step : Nat) (n : Nat) (s b : Bytes) : T (Bytes × Bytes) :=
  forT (fun _ => true) (walkBwdNoGuardBody step) n (s, b)

theorem walkFwdNoGuardBody_eq (step : Nat) (s b : Bytes) : walkFwdNoGuardBody step (s, b) =
    ⟨(dropRunes (step - 1) (s.drop (decodeRune s).2), b ++ encodeRune (decodeRune s).1),
     (encodeRune (decodeRune s).1).length + (step - 1)⟩ := by
  apply T.ext <;> simp [walkFwdNoGuardBody, skipNoGuardT_eq]

theorem walkBwdNoGuardBody_eq (step : Nat) (s b : Bytes) : walkBwdNoGuardBody step (s, b) =
    ⟨(dropLastRunes (step - 1) (s.take (s.length - (decodeLastRune s).2)), b ++ encodeRune (decodeLastRune s).1),
     (encodeRune (decodeLastRune s).1).length + (step - 1)⟩ := by
  apply T.ext <;> simp [walkBwdNoGuardBody, skipBwdNoGuardT_eq]

/-- the selecting loop around the unguarded skip appends what the model's `walkFwd` produces: same result -/
theorem walkFwdNoGuardT_fst (step : Nat) : ∀ (n : Nat) (s b : Bytes),
    (walkFwdNoGuardT step n s b).1.2 = b ++ walkFwd step n s := by
  intro n
  induction n with
  | zero => intro s b; simp [walkFwdNoGuardT, forT, walkFwd]
  | succ n ih =>
    intro s b
    unfold walkFwdNoGuardT at ih ⊢
    rw [forT_succ_fst _ _ _ _ rfl, walkFwdNoGuardBody_eq, mk_fst, ih, Utf8.walkFwd_succ, List.append_assoc]

theorem walkBwdNoGuardT_fst (step : Nat) : ∀ (n : Nat) (s b : Bytes),
    (walkBwdNoGuardT step n s b).1.2 = b ++ walkBwd step n s := by
  intro n
  induction n with
  | zero => intro s b; simp [walkBwdNoGuardT, forT, walkBwd]
  | succ n ih =>
    intro s b
    unfold walkBwdNoGuardT at ih ⊢
    rw [forT_succ_fst _ _ _ _ rfl, walkBwdNoGuardBody_eq, mk_fst, ih, Utf8.walkBwd_succ, List.append_assoc]

/-- as soon as one code point is selected the unguarded skip is run once: at least `step - 1` ticks -/
theorem walkFwdNoGuardT_snd_ge (step n : Nat) (s b : Bytes) (hn : 0 < n) :
    step - 1 ≤ (walkFwdNoGuardT step n s b).2 := by
  obtain ⟨m, rfl⟩ : ∃ m, n = m + 1 := ⟨n - 1, by omega⟩
  unfold walkFwdNoGuardT
  rw [forT_succ_snd _ _ _ _ rfl, walkFwdNoGuardBody_eq, mk_snd]; omega

theorem walkBwdNoGuardT_snd_ge (step n : Nat) (s b : Bytes) (hn : 0 < n) :
    step - 1 ≤ (walkBwdNoGuardT step n s b).2 := by
  obtain ⟨m, rfl⟩ : ∃ m, n = m + 1 := ⟨n - 1, by omega⟩
  unfold walkBwdNoGuardT
  rw [forT_succ_snd _ _ _ _ rfl, walkBwdNoGuardBody_eq, mk_snd]; omega

/-- `sliceStep(v, start, stop, step)` on a string (slice.go:169-274) with ONE of the two guards deleted:
    `fwd = true`: slice.go:250 unguarded (slice.go:266 as it is); `fwd = false`: slice.go:266 unguarded (slice.go:250
    as it is).  (The two loops sit in the two branches of `if step > 0`: no call runs both.) -/
def sliceStepStrMutT (fwd : Bool) (s : Bytes) (start stop step : Int) : T Bytes := do
  let l ← runeCountT s                                   -- slice.go:170
  match clampStep l start stop step with                 -- slice.go:172-234
  | none => pure []
  | some (a, n) => do
    allocT n.toNat                                       -- slice.go:237
    if step > 0 then do
      let s ← dropFwdT a.toNat s                         -- slice.go:240
      let p ← (if fwd then walkFwdNoGuardT step.toNat n.toNat s [] else walkFwdT step.toNat n.toNat s [])
      pure p.2
    else do
      let s ← dropBwdT ((l : Int) - 1 - a).toNat s       -- slice.go:256
      let p ← (if fwd then walkBwdT (-step).toNat n.toNat s [] else walkBwdNoGuardT (-step).toNat n.toNat s [])
      pure p.2

/-- either single deletion keeps EVERY result of `sliceStep` on a string, for all `start stop step : Int` -/
theorem sliceStepStrMutT_fst (fwd : Bool) (s : Bytes) (start stop step : Int) :
    (sliceStepStrMutT fwd s start stop step).1 = (sliceStepStrT s start stop step).1 := by
  simp only [sliceStepStrMutT, sliceStepStrT, bind_fst, runeCountT_fst]
  cases clampStep (runeCount s) start stop step with
  | none => rfl
  | some p =>
    obtain ⟨a, n⟩ := p
    simp only
    by_cases hp : step > 0
    · cases fwd <;> simp [hp, dropFwdT_eq, walkFwdT_fst, walkFwdNoGuardT_fst]
    · cases fwd <;> simp [hp, dropBwdT_eq, walkBwdT_fst, walkBwdNoGuardT_fst]

/-- … but as soon as at least one code point is selected, the mutant costs at least `|step| - 1` ticks -/
theorem sliceStepStrMutT_snd_ge (fwd : Bool) (s : Bytes) (start stop step a n : Int)
    (hc : clampStep (runeCount s) start stop step = some (a, n)) (hn : 0 < n) :
    (step > 0 → fwd = true → step.toNat - 1 ≤ (sliceStepStrMutT fwd s start stop step).2) ∧
    (¬ step > 0 → fwd = false → (-step).toNat - 1 ≤ (sliceStepStrMutT fwd s start stop step).2) := by
  have hn' : 0 < n.toNat := by omega
  refine ⟨fun hp hf => ?_, fun hp hf => ?_⟩
  · subst hf
    simp only [sliceStepStrMutT, bind_snd, bind_fst, runeCountT_fst, hc, hp, if_true, pure_snd]
    have := walkFwdNoGuardT_snd_ge step.toNat n.toNat (dropFwdT a.toNat s).1 [] hn'
    omega
  · subst hf
    simp only [sliceStepStrMutT, bind_snd, bind_fst, runeCountT_fst, hc, hp, if_false, pure_snd, Bool.false_eq_true]
    have := walkBwdNoGuardT_snd_ge (-step).toNat n.toNat (dropBwdT ((runeCount s : Int) - 1 - a).toNat s).1 [] hn'
    omega

/-- `"ab"[0:2:step]` selects one code point for every `step > 2` … -/
theorem clampStep_ab_fwd (step : Int) (h : 2 < step) : clampStep 2 0 2 step = some (0, 1) := by
  have h1 : Int.tdiv 2 step = 0 := Int.tdiv_eq_zero_of_lt (by omega) h
  have h2 : Int.tmod 2 step = 2 := Int.tmod_eq_of_lt (by omega) h
  have hp : step > 0 := by omega
  simp [clampStep, hp, h1, h2]

/-- … and `"ab"[1:-3:step]` (from the last code point down past the first) for every 64-bit `step < -2` -/
theorem clampStep_ab_bwd (step : Int) (h : step < -2) (hmin : -(2 ^ 63) < step) :
    clampStep 2 1 (-3) step = some (1, 1) := by
  have hw : wrap64 (-step) = -step := by unfold wrap64; omega
  have h1 : Int.tdiv 2 (-step) = 0 := Int.tdiv_eq_zero_of_lt (by omega) (by omega)
  have h2 : Int.tmod 2 (-step) = 2 := Int.tmod_eq_of_lt (by omega) (by omega)
  have hp : ¬ step > 0 := by omega
  simp [clampStep, hp, hw, h1, h2]

/-- THE SKIPPING LOOPS, reachable witness: on the two-byte subject "ab" the result of `"ab"[0:2:step]` is "a" with
    either loop, guarded or not — and with slice.go:250 unguarded the cost is at least `step - 1`, for every
    `step > 2`: it grows with the magnitude of `step` (in Go up to `2^63 - 2` iterations), while the guarded loop stays
    within `8·2 + 2` ticks (`C09C.sliceStepStrT_snd_le`) -/
theorem sliceStep_fwd_guard_matters (step : Int) (h : 2 < step) :
    (sliceStepStrMutT true [0x61, 0x62] 0 2 step).1 = (sliceStepStrT [0x61, 0x62] 0 2 step).1 ∧
    (sliceStepStrT [0x61, 0x62] 0 2 step).2 ≤ 18 ∧
    step.toNat - 1 ≤ (sliceStepStrMutT true [0x61, 0x62] 0 2 step).2 := by
  have e : runeCount [0x61, 0x62] = 2 := by decide
  refine ⟨sliceStepStrMutT_fst _ _ _ _ _, ?_, ?_⟩
  · have := sliceStepStrT_snd_le [0x61, 0x62] 0 2 step
    rw [e] at this; exact this
  · exact (sliceStepStrMutT_snd_ge true [0x61, 0x62] 0 2 step 0 1
      (by rw [e]; exact clampStep_ab_fwd step h) (by omega)).1 (by omega) rfl

/-- … so no bound exists for the forward mutant on the FIXED subject "ab" -/
theorem sliceStep_fwd_mutant_unbounded :
    ¬ ∃ c : Nat, ∀ step : Int, (sliceStepStrMutT true [0x61, 0x62] 0 2 step).2 ≤ c := by
  intro ⟨c, h⟩
  have h1 := h ((c : Int) + 4)
  have h2 := (sliceStep_fwd_guard_matters ((c : Int) + 4) (by omega)).2.2
  omega

/-- the same for slice.go:266: `"ab"[1:-3:step]` is "b" either way; unguarded, the cost is at least `|step| - 1` for
    every 64-bit `step < -2` (up to `2^63 - 2` iterations for `step = -(2^63 - 1)`) -/
theorem sliceStep_bwd_guard_matters (step : Int) (h : step < -2) (hmin : -(2 ^ 63) < step) :
    (sliceStepStrMutT false [0x61, 0x62] 1 (-3) step).1 = (sliceStepStrT [0x61, 0x62] 1 (-3) step).1 ∧
    (sliceStepStrT [0x61, 0x62] 1 (-3) step).2 ≤ 18 ∧
    (-step).toNat - 1 ≤ (sliceStepStrMutT false [0x61, 0x62] 1 (-3) step).2 := by
  have e : runeCount [0x61, 0x62] = 2 := by decide
  refine ⟨sliceStepStrMutT_fst _ _ _ _ _, ?_, ?_⟩
  · have := sliceStepStrT_snd_le [0x61, 0x62] 1 (-3) step
    rw [e] at this; exact this
  · exact (sliceStepStrMutT_snd_ge false [0x61, 0x62] 1 (-3) step 1 1
      (by rw [e]; exact clampStep_ab_bwd step h hmin) (by omega)).2 (by omega) rfl

/-- "ab"[0:2:2^62] = "a" and "ab"[1:-3:-2^62] = "b": at least 2^62 - 1 ticks without the guard, at most 18 with it -/
example : (sliceStepStrMutT true [0x61, 0x62] 0 2 (2 ^ 62)).1 = [0x61] ∧
    2 ^ 62 - 1 ≤ (sliceStepStrMutT true [0x61, 0x62] 0 2 (2 ^ 62)).2 ∧
    (sliceStepStrMutT false [0x61, 0x62] 1 (-3) (-(2 ^ 62))).1 = [0x62] ∧
    2 ^ 62 - 1 ≤ (sliceStepStrMutT false [0x61, 0x62] 1 (-3) (-(2 ^ 62))).2 ∧
    (sliceStepStrT [0x61, 0x62] 0 2 (2 ^ 62)).2 ≤ 18 := by
  have f := sliceStep_fwd_guard_matters (2 ^ 62) (by decide)
  have g := sliceStep_bwd_guard_matters (-(2 ^ 62)) (by decide) (by decide)
  have e1 : sliceStep (.str [0x61, 0x62]) 0 2 (2 ^ 62) = .ok (.str [0x61]) := by rfl
  have e2 : sliceStep (.str [0x61, 0x62]) 1 (-3) (-(2 ^ 62)) = .ok (.str [0x62]) := by rfl
  have r1 := sliceStepStrT_fst [0x61, 0x62] 0 2 (2 ^ 62)
  have r2 := sliceStepStrT_fst [0x61, 0x62] 1 (-3) (-(2 ^ 62))
  rw [e1] at r1; rw [e2] at r2
  injection r1 with r1; injection r1 with r1
  injection r2 with r2; injection r2 with r2
  refine ⟨by rw [f.1, r1], ?_, by rw [g.1, r2], ?_, f.2.1⟩
  · have := f.2.2; omega
  · have := g.2.2; omega

/-! ## 4. `split(value, sep, count)` — the two clamps (string.go:956 and string.go:938)

  Before either clamp Go has returned for `n < 0` (string.go:923), `n == 0` (:929) and `len(s) == 0` (:933); the branch
  with the clamp string.go:938 is taken for `len(p) == 0`, the one with string.go:956 otherwise.  So the mutated lines
  are reached exactly with a NON-EMPTY subject and a count `n ≥ 1`. -/

/-- string.go:956 deleted (`C09C.splitSepNoClampT`): `make([]any, n+1)` alone charges `n + 1` cells -/
theorem splitSepNoClampT_snd_ge (s p : Bytes) (n : Nat) : n + 1 ≤ (splitSepNoClampT s p n).2 := by
  simp only [splitSepNoClampT, bind_snd, allocT_snd]; omega

/-- … so for the FIXED subject "a" and every non-empty separator (inputs that do reach string.go:956 in Go, with every
    count `n ≥ 1`) no bound exists, while the pieces are those of the clamped function.
    (`C09C.splitSepNoClampT_unbounded` used the empty subject, which Go answers at string.go:933.) -/
theorem splitSepNoClampT_unbounded_reachable (p : Bytes) (hp : p ≠ []) :
    (∀ n : Nat, (splitSepNoClampT [0x61] p n).1 = (splitSepT [0x61] p (some n)).1) ∧
    ¬ ∃ c : Nat, ∀ n : Nat, 0 < n → (splitSepNoClampT [0x61] p n).2 ≤ c := by
  refine ⟨fun n => by rw [splitSepNoClampT_fst _ _ hp, splitSepT_fst _ _ hp], fun ⟨c, h⟩ => ?_⟩
  have h1 := h (c + 1) (by omega)
  have h2 := splitSepNoClampT_snd_ge [0x61] p (c + 1)
  omega

/-- split('a', ',', 2^62): one piece either way; `≥ 2^62 + 1` ticks without the clamp, `≤ 10` with it -/
example : (splitSepNoClampT [0x61] [0x2C] (2 ^ 62)).1 = [[0x61]] ∧
    2 ^ 62 + 1 ≤ (splitSepNoClampT [0x61] [0x2C] (2 ^ 62)).2 ∧ (splitSepT [0x61] [0x2C] (some (2 ^ 62))).2 ≤ 10 := by
  refine ⟨?_, splitSepNoClampT_snd_ge _ _ _, splitSepT_snd_le' _ _ (by decide) _⟩
  rw [splitSepNoClampT_fst _ _ (by decide)]; decide

/-- string.go:937-954 WITHOUT the clamp `if c := utf8.RuneCountInString(s) - 1; n > c { n = c }` (string.go:938):
    `r := make([]any, n+1)`, then the unguarded loop `for i < n { _, l := utf8.DecodeRuneInString(s); r[i] = s[:l];
    s = s[l:]; i++ }` runs `n` times, then `r[i] = s; return r[:i+1]` -/
def splitEmptyNoClampT (s : Bytes) (n : Nat) : T (List Bytes) := do
  allocT (n + 1)                                          -- string.go:942 with the caller's `n`
  let st ← splitRunesLoopT n s []                         -- string.go:945
  pure (st.2 ++ [st.1])                                   -- string.go:952

/-- the unguarded loop string.go:945 appends one piece per iteration, whatever the string -/
theorem splitRunesLoopT_length : ∀ (n : Nat) (s : Bytes) (r : List Bytes),
    (splitRunesLoopT n s r).1.2.length = r.length + n := by
  intro n
  induction n with
  | zero => intro s r; rfl
  | succ n ih =>
    intro s r
    unfold splitRunesLoopT at ih ⊢
    rw [forT_succ_fst _ _ _ _ rfl]
    simp only [splitRunesBody, pure_fst]
    rw [ih]; simp; omega

/-- without the clamp the function returns EXACTLY `n + 1` pieces … -/
theorem splitEmptyNoClampT_length (s : Bytes) (n : Nat) : (splitEmptyNoClampT s n).1.length = n + 1 := by
  simp only [splitEmptyNoClampT, bind_fst, pure_fst, List.length_append, splitRunesLoopT_length]
  simp

/-- … at a cost of exactly `2 n + 1` ticks (`make`: `n + 1`, the loop: `n`): the magnitude of the count -/
theorem splitEmptyNoClampT_snd (s : Bytes) (n : Nat) : (splitEmptyNoClampT s n).2 = 2 * n + 1 := by
  simp only [splitEmptyNoClampT, bind_snd, allocT_snd, splitRunesLoopT_snd, pure_snd]; omega

/-- up to `runeCount s - 1` (where the clamp does nothing) the mutant returns the model's pieces … -/
theorem splitEmptyNoClampT_fst_of_le (s : Bytes) (hne : s ≠ []) (n : Nat) (hn : n ≤ runeCount s - 1) :
    (splitEmptyNoClampT s n).1 = splitRunes s (some n) := by
  simp only [splitEmptyNoClampT, bind_fst, pure_fst]
  rw [splitRunesLoopT_fst _ s.length s [] (Nat.le_refl _) (by omega)]
  simp only [List.nil_append]
  have := splitRunes_go s hne n hn
  unfold runePieces at this
  exact this

/-- … and beyond it the RESULT CHANGES: the model (and Go) return `runeCount s` pieces, the mutant `n + 1` (the
    surplus pieces are empty strings: decoding the exhausted string yields size 0).  Deleting this clamp is visible
    in results, unlike deleting the clamp string.go:956. -/
theorem splitEmptyNoClampT_differs (s : Bytes) (n : Nat) (hn : runeCount s ≤ n) :
    (splitEmptyNoClampT s n).1 ≠ splitRunes s (some n) ∧
    (splitRunes s (some n)).length = runeCount s ∧ (splitEmptyNoClampT s n).1.length = n + 1 := by
  have h1 := splitEmptyNoClampT_length s n
  have h2 : (splitRunes s (some n)).length = runeCount s := by rw [C09.splitRunes_length]; omega
  refine ⟨fun c => ?_, h2, h1⟩
  rw [c] at h1; omega

/-- split('ab', '', `5`): Go and the model answer `["a","b"]`; with string.go:938 deleted the answer is
    `["a","b","","","",""]` (Go, mutated copy of string.go:937-954: the same six pieces) at 11 ticks -/
theorem splitEmptyNoClampT_example :
    splitCount (.str [0x61, 0x62]) (.str []) (.num (.int .i64 5)) = .ok (.arr .plain [.str [0x61], .str [0x62]]) ∧
    (splitEmptyT [0x61, 0x62] (some 5)).1 = [[0x61], [0x62]] ∧
    splitEmptyNoClampT [0x61, 0x62] 5 = ⟨[[0x61], [0x62], [], [], [], []], 11⟩ := by
  refine ⟨by rfl, ?_, by decide⟩
  rw [splitEmptyT_fst _ (by decide)]; decide

/-- THE CLAMP string.go:938: with it, `≤ 3·(|s| + 1)` ticks for every count; without it, on the FIXED subject "ab"
    (which reaches the line in Go with every count `n ≥ 1`), `2 n + 1` ticks and `n + 1` pieces: no bound exists,
    neither on the time nor on the size of what is allocated and returned -/
theorem split_empty_clamp_matters :
    (∀ (s : Bytes) (count : Option Nat), (splitEmptyT s count).2 ≤ 3 * (s.length + 1)) ∧
    (∀ n : Nat, (splitEmptyNoClampT [0x61, 0x62] n).2 = 2 * n + 1 ∧
      (splitEmptyNoClampT [0x61, 0x62] n).1.length = n + 1) ∧
    (¬ ∃ c : Nat, ∀ n : Nat, 0 < n → (splitEmptyNoClampT [0x61, 0x62] n).2 ≤ c) := by
  refine ⟨fun s count => splitEmptyT_snd_le s count,
    fun n => ⟨splitEmptyNoClampT_snd _ n, splitEmptyNoClampT_length _ n⟩, fun ⟨c, h⟩ => ?_⟩
  have := h (c + 1) (by omega)
  rw [splitEmptyNoClampT_snd] at this
  omega

example : (splitEmptyNoClampT [0x61, 0x62] (2 ^ 62)).2 = 2 ^ 63 + 1 ∧ (splitEmptyT [0x61, 0x62] (some (2 ^ 62))).2 ≤ 9 := by
  refine ⟨by rw [splitEmptyNoClampT_snd], splitEmptyT_snd_le _ _⟩

end Jmes.C09E
