/-
  C03D — checked mirrors of `index` (array.go:564) and of `slice` / `sliceStep` (slice.go:22, slice.go:93).

  Each Go function is re-transliterated statement by statement over the CHECKED primitives of `C03DChecked`
  (`idx?`, `set?`, `slice?`, `sliceFrom?`, `sliceTo?`, `make?`, `div?`, `mod?`): where Go indexes, slices, divides or
  calls `make`, the mirror answers `Res.panic …` exactly when the Go runtime would panic.  The theorems
  `indexC_eq`, `sliceC_eq`, `sliceStepC_eq` say that the mirror equals the (total) model function: the checks never
  fire, the guards in the Go code suffice.

  Conventions (see `C03DChecked`): Go `int`s are `Int`, `len(x)` is `(x.length : Int)`, a Go string is `Bytes`.
  The early `return`s of Go are rendered with local continuations (`k1`, `k2`, …: "the rest of the function body").
  Loops are recursions on a fuel that carry the Go loop variables and test the Go loop condition; running out of fuel
  is `.panic fuelMsg`, and the theorems show that this never happens either.
  The model answers `.nondet` for a map-ordered array of two or more elements (`enum2 t xs`: the element ORDER is not
  determined).  That is the model's nondeterminism marker, not a Go branch: the mirrors therefore perform the CHECKED
  operation first (`idx?`, `slice?`, `make?` and the copy loop — their success depends on the length only, not on the
  order) and consult the marker only afterwards, to decide whether the value read can be reported.  So the bound
  check is evaluated for map-ordered arrays too (`values(@)[7]`), and deleting the Go guard falsifies the `…_eq`
  theorem on those inputs as well.
-/
import Jmes.Proofs.C03DChecked
import Jmes.Properties.C09
import Jmes.Properties.C04
import Jmes.Proofs.Utf8
import Jmes.Proofs.C11CSliceLemmas
namespace Jmes.C03D.SliceGo
open Jmes Jmes.C03D

/-- the mirror's own "loop ran out of fuel" marker (not a Go panic; shown unreachable) -/
def fuelMsg : String := "mirror: out of fuel"

/-- the JSON array `["a","b","c"]` of the examples -/
def abc : List Val := [.str [0x61], .str [0x62], .str [0x63]]

/-! ## `index` (array.go:564) -/

/-- `index(v, i)`, array.go:564-580, with one flag per Go guard (`true` = guard present as in the source).
    Sites: array.go:565 `v.([]any)` (comma-ok form, cannot panic); array.go:579 `a[i]` → `idx?`.
    Guards: `gNeg` = array.go:572 `if i < 0 { return nil }` (after `i += len(a)`); `gHi` = array.go:575
    `else if i >= len(a) { return nil }`. -/
def indexG (gNeg gHi : Bool) (v : Val) (i : Int) : Res Val :=
  match v with
  | .arr t a =>
    -- `return a[i]` (array.go:579)
    let ret (i : Int) : Res Val := do
      let x ← idx? a i                            -- a[i]: the bound check comes first, whatever the order of `a`
      if enum2 t a then .nondet else .ok x        -- (model marker: which element sits at `i` is not determined)
    if i < 0 then
      let i := i + a.length                       -- i += len(a)
      if gNeg && decide (i < 0) then .ok .null    -- if i < 0 { return nil }
      else ret i
    else if gHi && decide (i ≥ a.length) then .ok .null   -- else if i >= len(a) { return nil }
    else ret i
  | _ => .ok .null                                -- if !ok { return nil }

/-- the checked mirror of `index` as it is in the source -/
def indexC (v : Val) (i : Int) : Res Val := indexG true true v i

/-- **`index` never indexes out of range**: for every value and every integer the checked mirror equals the model
    function `Jmes.index` (whose `getD` therefore never uses its default). -/
theorem indexC_eq (v : Val) (i : Int) : indexC v i = index v i := by
  cases v with
  | arr t a =>
    simp only [indexC, indexG, index, Bool.true_and, decide_eq_true_eq]
    by_cases h1 : i < 0
    · rw [if_pos h1, if_pos h1]
      by_cases h2 : i + (a.length : Int) < 0
      · rw [if_pos h2, if_pos (Or.inl h2)]
      · have h3 : ¬ (i + (a.length : Int) < 0 ∨ i + (a.length : Int) ≥ a.length) := by omega
        rw [if_neg h2, if_neg h3, idx?_ok a _ (by omega) (by omega) .null, Res.ok_bind]
    · rw [if_neg h1, if_neg h1]
      by_cases h2 : i ≥ (a.length : Int)
      · rw [if_pos h2, if_pos (Or.inr h2)]
      · have h3 : ¬ (i < 0 ∨ i ≥ (a.length : Int)) := by omega
        rw [if_neg h2, if_neg h3, idx?_ok a _ (by omega) (by omega) .null, Res.ok_bind]
  | _ => rfl

/-- `["a","b","c"][-1]` is `"c"`; `["a","b","c"][3]` and `["a","b","c"][-4]` are `null` -/
example : indexC (.arr .plain abc) (-1) = .ok (.str [0x63]) := by
  rw [indexC_eq]; rfl
example : indexC (.arr .plain abc) 3 = .ok .null := by
  rw [indexC_eq]; rfl
example : indexC (.arr .plain abc) (-4) = .ok .null := by
  rw [indexC_eq]; rfl

/-- guard deletion: without `else if i >= len(a) { return nil }` (array.go:575) the JMESPath expression `[3]` on
    `["a","b","c"]` reaches `a[3]` and panics -/
example : indexG true false (.arr .plain abc) 3 = .panic idxMsg := rfl
/-- guard deletion: without the inner `if i < 0 { return nil }` (array.go:572) the expression `[-4]` on `["a","b","c"]`
    reaches `a[-1]` and panics -/
example : indexG false true (.arr .plain abc) (-4) = .panic idxMsg := rfl
/-- the same on a MAP-ORDERED array (`values(@)[3]`, `values(@)[-4]` on an object of three members): the bound check is
    evaluated before the nondeterminism marker, so the guard-less mirror panics there too … -/
example : indexG true false (.arr .enum abc) 3 = .panic idxMsg := rfl
example : indexG false true (.arr .enum abc) (-4) = .panic idxMsg := rfl
/-- … while the mirror of the source answers `null` out of range and the marker within range -/
example : indexC (.arr .enum abc) 3 = .ok .null := rfl
example : indexC (.arr .enum abc) 1 = .nondet := rfl

/-! ## `slice` (slice.go:22), array branch -/

/-- the clamp of `slice` (slice.go:26-44 and again slice.go:56-74), written in continuation style — `E` is the early
    `return` of the empty result, `K start stop` the rest of the function body — computes `clamp1` -/
theorem clamp1_cps {β : Type} (l start stop : Int) (E : β) (K : Int → Int → β) :
    (let k1 (start : Int) : β :=
      if stop < 0 then
        if stop < -l then E
        else K start (stop + l)
      else if stop ≥ l then K start l
      else K start stop
    if start < 0 then
      if start < -l then k1 0
      else k1 (start + l)
    else if start ≥ l then E
    else k1 start)
    = match clamp1 l start stop with
      | none => E
      | some (a, b) => K a b := by
  simp only [clamp1]
  by_cases h1 : start < 0 <;> by_cases h2 : start < -l <;> by_cases h3 : start ≥ l <;>
  by_cases h4 : stop < 0 <;> by_cases h5 : stop < -l <;> by_cases h6 : stop ≥ l <;>
  simp only [h1, h2, h3, h4, h5, h6, if_true, if_false]

example : clamp1 3 (-1) 5 = some (2, 3) := by decide

/-- slice.go:46-50, the end of the array branch of `slice`: `if start >= stop { return []any{} }` (flag `gCmp`) and
    `return a[start:stop]` → `slice?` -/
def sliceArrTail (gCmp : Bool) (t : ATag) (a : List Val) (start stop : Int) : Res Val :=
  if gCmp && decide (start ≥ stop) then .ok (.arr .plain [])   -- if start >= stop { return []any{} }
  else do
    let r ← slice? a start stop                             -- return a[start:stop]  (checked first: length only)
    if enum2 t a then .nondet else .ok (.arr .plain r)      -- (model marker: the order of `a` is not determined)

/-- `slice(v, start, stop)`, array branch slice.go:23-51, with a flag for the guard slice.go:46
    `if start >= stop { return []any{} }` (`true` = present as in the source).
    Sites: slice.go:23 `v.([]any)` (comma-ok); slice.go:50 `a[start:stop]` → `slice?` (in `sliceArrTail`).
    `start += l` / `stop += l` cannot overflow: the operand is negative and `l ≥ 0`. -/
def sliceArrG (gCmp : Bool) (t : ATag) (a : List Val) (start stop : Int) : Res Val :=
  let l : Int := a.length                                   -- l := len(a)
  -- slice.go:36-44, then slice.go:46-50
  let k1 (start : Int) : Res Val :=
    if stop < 0 then
      if stop < -l then .ok (.arr .plain [])                -- return []any{}
      else sliceArrTail gCmp t a start (stop + l)           -- stop += l
    else if stop ≥ l then sliceArrTail gCmp t a start l     -- stop = l
    else sliceArrTail gCmp t a start stop
  -- slice.go:26-34
  if start < 0 then
    if start < -l then k1 0                                 -- start = 0
    else k1 (start + l)                                     -- start += l
  else if start ≥ l then .ok (.arr .plain [])               -- return []any{}
  else k1 start

/-- the array branch of `slice`: `a[start:stop]` is always within bounds (`0 ≤ start ≤ stop ≤ len(a)`) -/
theorem sliceArrC_eq (t : ATag) (a : List Val) (start stop : Int) :
    sliceArrG true t a start stop = slice (.arr t a) start stop := by
  refine (clamp1_cps (a.length : Int) start stop (Res.ok (Val.arr .plain [])) (sliceArrTail true t a)).trans ?_
  simp only [slice]
  cases h : clamp1 (a.length : Int) start stop with
  | none => rfl
  | some ab =>
    obtain ⟨x, y⟩ := ab
    have hb := C09.clamp1_bounds _ _ _ _ _ (by omega) h
    simp only [sliceArrTail, Bool.true_and, decide_eq_true_eq]
    by_cases hxy : x ≥ y
    · rw [if_pos hxy, if_pos hxy]
    · rw [if_neg hxy, if_neg hxy, slice?_ok a x y (by omega) (by omega) (by omega), Res.ok_bind]

/-- `[1:3]` on `["a","b","c"]` is `["b","c"]`; `[2:1]` is `[]` -/
example : sliceArrG true .plain abc 1 3 = .ok (.arr .plain [.str [0x62], .str [0x63]]) := rfl
example : sliceArrG true .plain abc 2 1 = .ok (.arr .plain []) := rfl

/-- guard deletion: without `if start >= stop { return []any{} }` (slice.go:46) the expression `[2:1]` on
    `["a","b","c"]` reaches `a[2:1]` and panics -/
example : sliceArrG false .plain abc 2 1 = .panic sliceMsg := rfl
/-- … also on a map-ordered array (`values(@)[2:1]`): the bounds are checked before the nondeterminism marker -/
example : sliceArrG false .enum abc 2 1 = .panic sliceMsg := rfl
example : sliceArrG true .enum abc 2 1 = .ok (.arr .plain []) := rfl
example : sliceArrG true .enum abc 0 2 = .nondet := rfl

/-! ## `slice`, string branch -/

/-- slice.go:76-79 `for i := 0; i < start; i++ { _, sz := utf8.DecodeRuneInString(s); s = s[sz:] }`
    (also slice.go:240-243 in `sliceStep`).  Site: slice.go:78 / slice.go:242 `s[sz:]` → `sliceFrom?`.
    State: loop variable `i`, the string `s`. -/
def dropLoopC (start : Int) : Nat → Int → Bytes → Res Bytes
  | 0, i, s => if i < start then .panic fuelMsg else .ok s
  | f + 1, i, s =>
    if i < start then do
      let sz : Int := (decodeRune s).2          -- _, sz := utf8.DecodeRuneInString(s)
      let s ← sliceFrom? s sz                   -- s = s[sz:]
      dropLoopC start f (i + 1) s               -- i++
    else .ok s

/-- the loop equals the model's `dropRunes` with the remaining number of iterations; no slice fails, whatever the
    bytes (on the empty string Go decodes `(RuneError, 0)` and `s[0:]` is fine) -/
theorem dropLoopC_eq (start : Int) : ∀ (f : Nat) (i : Int) (s : Bytes), (start - i).toNat ≤ f →
    dropLoopC start f i s = .ok (dropRunes (start - i).toNat s) := by
  intro f
  induction f with
  | zero =>
    intro i s h
    have e : (start - i).toNat = 0 := by omega
    rw [dropLoopC, if_neg (by omega), e]; rfl
  | succ f ih =>
    intro i s h
    rw [dropLoopC]
    by_cases hi : i < start
    · rw [if_pos hi]
      have e : (start - i).toNat = (start - (i + 1)).toNat + 1 := by omega
      rw [e]
      by_cases hs : s = []
      · subst hs
        have : sliceFrom? ([] : Bytes) ((decodeRune []).2 : Int) = .ok [] := rfl
        simp only [this, Res.ok_bind]
        rw [ih _ _ (by omega), Utf8.dropRunes_nil, Utf8.dropRunes_nil]
      · have hle := C09.decodeRune_le s
        simp only [sliceFrom?_ok_nat s _ hle, Res.ok_bind]
        rw [ih _ _ (by omega), Utf8.dropRunes_succ _ _ hs]
    · have e : (start - i).toNat = 0 := by omega
      rw [if_neg hi, e]; rfl

/-- dropping two runes of `"aéb"` leaves `"b"`; dropping five leaves `""` (the loop goes on decoding the empty string) -/
example : dropLoopC 2 2 0 [0x61, 0xC3, 0xA9, 0x62] = .ok [0x62] := rfl
example : dropLoopC 5 5 0 [0x61, 0xC3, 0xA9, 0x62] = .ok [] := rfl

/-- slice.go:81-85 `idx := 0; for i := start; i < stop; i++ { _, sz := utf8.DecodeRuneInString(s[idx:]); idx += sz }`.
    Site: slice.go:83 `s[idx:]` → `sliceFrom?`.  State: loop variable `i`, the byte position `idx`. -/
def measureLoopC (stop : Int) (s : Bytes) : Nat → Int → Int → Res Int
  | 0, i, idx => if i < stop then .panic fuelMsg else .ok idx
  | f + 1, i, idx =>
    if i < stop then do
      let t ← sliceFrom? s idx                  -- s[idx:]
      let sz : Int := (decodeRune t).2          -- _, sz := utf8.DecodeRuneInString(s[idx:])
      measureLoopC stop s f (i + 1) (idx + sz)  -- idx += sz; i++
    else .ok idx

/-- the first `n` code points of `s` are at most the whole of `s` -/
theorem runesLen_le : ∀ (n : Nat) (s : Bytes), runesLen n s ≤ s.length := by
  intro n
  induction n with
  | zero => intro s; simp [runesLen]
  | succ n ih =>
    intro s
    by_cases hs : s = []
    · subst hs; simp [Utf8.runesLen_nil]
    · rw [Utf8.runesLen_succ _ _ hs]
      have := ih (s.drop (decodeRune s).2)
      have := C09.decodeRune_le s
      rw [List.length_drop] at *
      omega

/-- the position loop stays within the string and computes the model's `runesLen` -/
theorem measureLoopC_eq (stop : Int) (s : Bytes) : ∀ (f : Nat) (i : Int) (k : Nat), k ≤ s.length →
    (stop - i).toNat ≤ f →
    measureLoopC stop s f i (k : Int) = .ok ((k + runesLen (stop - i).toNat (s.drop k) : Nat) : Int) := by
  intro f
  induction f with
  | zero =>
    intro i k hk h
    have e : (stop - i).toNat = 0 := by omega
    rw [measureLoopC, if_neg (by omega), e]; rfl
  | succ f ih =>
    intro i k hk h
    rw [measureLoopC]
    by_cases hi : i < stop
    · rw [if_pos hi]
      have e : (stop - i).toNat = (stop - (i + 1)).toNat + 1 := by omega
      rw [e]
      simp only [sliceFrom?_ok_nat s k hk, Res.ok_bind]
      have hle := C09.decodeRune_le (s.drop k)
      rw [List.length_drop] at hle
      have hc : ((k : Int) + ((decodeRune (s.drop k)).2 : Int)) = ((k + (decodeRune (s.drop k)).2 : Nat) : Int) := by
        omega
      rw [hc, ih _ _ (by omega) (by omega)]
      by_cases hs : s.drop k = []
      · have : (decodeRune ([] : Bytes)).2 = 0 := rfl
        simp only [hs, this, Nat.add_zero, Utf8.runesLen_nil]
      · rw [Utf8.runesLen_succ _ _ hs, List.drop_drop, Nat.add_assoc]
    · have e : (stop - i).toNat = 0 := by omega
      rw [if_neg hi, e]; rfl

/-- the first two runes of `"aéb"` take three bytes -/
example : measureLoopC 2 [0x61, 0xC3, 0xA9, 0x62] 2 0 0 = .ok 3 := rfl

/-- slice.go:76-87, the end of the string branch of `slice`: the two loops and `return s[:idx]` → `sliceTo?`.
    (There is no `start >= stop` guard in the string branch: the second loop then runs zero times and `s[:0]` is `""`.) -/
def sliceStrTail (s : Bytes) (start stop : Int) : Res Val := do
  let s ← dropLoopC start start.toNat 0 s                         -- for i := 0; i < start; i++ { … }
  let idx ← measureLoopC stop s (stop - start).toNat start 0      -- idx := 0; for i := start; i < stop; i++ { … }
  let r ← sliceTo? s idx                                          -- return s[:idx]
  .ok (.str r)

/-- `slice(v, start, stop)`, string branch slice.go:53-88.
    Sites: slice.go:53 `v.(string)` (comma-ok); slice.go:78 `s[sz:]`, slice.go:83 `s[idx:]`, slice.go:87 `s[:idx]`
    (in `sliceStrTail`). -/
def sliceStrC (s : Bytes) (start stop : Int) : Res Val :=
  let l : Int := runeCount s                                -- l := utf8.RuneCountInString(s)
  -- slice.go:66-74, then slice.go:76-87
  let k1 (start : Int) : Res Val :=
    if stop < 0 then
      if stop < -l then .ok (.str [])                       -- return ""
      else sliceStrTail s start (stop + l)                  -- stop += l
    else if stop ≥ l then sliceStrTail s start l            -- stop = l
    else sliceStrTail s start stop
  -- slice.go:56-64
  if start < 0 then
    if start < -l then k1 0                                 -- start = 0
    else k1 (start + l)                                     -- start += l
  else if start ≥ l then .ok (.str [])                      -- return ""
  else k1 start

/-- the string branch of `slice`: the three slicing sites are within bounds for all bytes and all integers -/
theorem sliceStrC_eq (s : Bytes) (start stop : Int) : sliceStrC s start stop = slice (.str s) start stop := by
  refine (clamp1_cps (runeCount s : Int) start stop (Res.ok (Val.str [])) (sliceStrTail s)).trans ?_
  simp only [slice]
  cases h : clamp1 (runeCount s : Int) start stop with
  | none => rfl
  | some ab =>
    obtain ⟨x, y⟩ := ab
    have hb := C09.clamp1_bounds _ _ _ _ _ (by omega) h
    simp only [sliceStrTail]
    have e1 := dropLoopC_eq x x.toNat 0 s (by omega)
    rw [Int.sub_zero] at e1
    rw [e1, Res.ok_bind]
    have e2 := measureLoopC_eq y (dropRunes x.toNat s) (y - x).toNat x 0 (by omega) (by omega)
    rw [Nat.zero_add, List.drop_zero] at e2
    rw [show (0 : Int) = ((0 : Nat) : Int) from rfl, e2, Res.ok_bind,
      sliceTo?_ok_nat _ _ (runesLen_le _ _), Res.ok_bind]

/-- the checked mirror of `slice` (slice.go:22-91) -/
def sliceC (v : Val) (start stop : Int) : Res Val :=
  match v with
  | .arr t a => sliceArrG true t a start stop               -- if a, ok := v.([]any); ok { … }
  | .str s => sliceStrC s start stop                        -- if s, ok := v.(string); ok { … }
  | _ => .ok .null                                          -- return nil

/-- **`slice` never slices out of bounds**: for every value (arrays; strings of arbitrary bytes, valid UTF-8 or not)
    and all integers `start`, `stop` the checked mirror equals the model function `Jmes.slice`. -/
theorem sliceC_eq (v : Val) (start stop : Int) : sliceC v start stop = slice v start stop := by
  cases v with
  | arr t a => exact sliceArrC_eq t a start stop
  | str s => exact sliceStrC_eq s start stop
  | _ => rfl

/-- `"aé\xffb"[1:3]` (a two-byte rune, then an invalid byte) is `"é\xff"`; huge bounds are clamped -/
example : sliceC (.str [0x61, 0xC3, 0xA9, 0xFF, 0x62]) 1 3 = .ok (.str [0xC3, 0xA9, 0xFF]) := rfl
example : sliceC (.str [0x61, 0xC3, 0xA9, 0xFF, 0x62]) (-(2 ^ 63)) (2 ^ 63 - 1)
    = .ok (.str [0x61, 0xC3, 0xA9, 0xFF, 0x62]) := rfl

/-! ## `sliceStep` (slice.go:93): the clamp and the count -/

/-- continuation on the outcome of `clampStep`: `E` when nothing is selected, else `K first count` -/
def optK {β : Type} (E : β) (K : Int → Int → β) : Option (Int × Int) → β
  | none => E
  | some (a, n) => K a n

/-- `optK` of a guarded result is the guarded continuation -/
theorem optK_ite {β : Type} (E : β) (K : Int → Int → β) (c : Prop) [Decidable c] (a n : Int) :
    optK E K (if c then none else some (a, n)) = if c then E else K a n := by
  by_cases h : c
  · rw [if_pos h, if_pos h]; rfl
  · rw [if_neg h, if_neg h]; rfl

/-- the negated step `s := step * -1` (slice.go:153, slice.go:228; it wraps for `step = MinInt`) of a negative Go
    `int` is not zero -/
theorem wrap64_neg_ne_zero (step : Int) (hs : step ≠ 0) (hmin : -2 ^ 63 ≤ step) (hneg : ¬ step > 0) :
    wrap64 (step * -1) ≠ 0 := by
  unfold wrap64; omega

/-- the clamp-and-count part of `sliceStep` (slice.go:97-159 and again slice.go:172-234), in continuation style —
    `E` is the early `return` of the empty result, `K start n` the rest of the function body — computes `clampStep`,
    and its divisions `c / step`, `c % step`, `c / s`, `c % s` (→ `div?`, `mod?`) do not divide by zero,
    PROVIDED `step ≠ 0` (established by the parser: parser.go:1502 rejects a zero step with `invalidSliceStep`,
    `Jmes.C04.stepPhase_zero`) and `step` is a Go `int` (`-2^63 ≤ step`). -/
theorem clampStep_cps {β : Type} (l start stop step : Int) (hs : step ≠ 0) (hmin : -2 ^ 63 ≤ step)
    (E : Res β) (K : Int → Int → Res β) :
    (if step > 0 then
      let k2 (start stop : Int) : Res β :=
        if start ≥ stop then E
        else do
          let c := stop - start
          let n ← div? c step
          let m ← mod? c step
          K start (if m > 0 then n + 1 else n)
      let k1 (start : Int) : Res β :=
        if stop < 0 then
          if stop < -l then E
          else k2 start (stop + l)
        else if stop > l then k2 start l
        else k2 start stop
      if start < 0 then
        if start < -l then k1 0
        else k1 (start + l)
      else if start ≥ l then E
      else k1 start
    else
      let k2 (start stop : Int) : Res β :=
        if start ≤ stop then E
        else do
          let s := wrap64 (step * -1)
          let c := start - stop
          let n ← div? c s
          let m ← mod? c s
          K start (if m > 0 then n + 1 else n)
      let k1 (start : Int) : Res β :=
        if stop < 0 then
          if stop < -l then k2 start (-1)
          else k2 start (stop + l)
        else if stop ≥ l then E
        else k2 start stop
      if start < 0 then
        if start < -l then E
        else k1 (start + l)
      else if start ≥ l then k1 (l - 1)
      else k1 start)
    = optK E K (clampStep l start stop step) := by
  by_cases hpos : step > 0
  · simp only [clampStep, if_pos hpos, div?_ok _ _ hs, mod?_ok _ _ hs, Res.ok_bind]
    by_cases h1 : start < 0 <;> by_cases h2 : start < -l <;> by_cases h3 : start ≥ l <;>
    by_cases h4 : stop < 0 <;> by_cases h5 : stop < -l <;> by_cases h6 : stop > l <;>
    simp only [h1, h2, h3, h4, h5, h6, if_true, if_false] <;>
    first
    | rfl
    | (simp only [optK_ite])
  · have hw := wrap64_neg_ne_zero step hs hmin hpos
    simp only [clampStep, if_neg hpos, div?_ok _ _ hw, mod?_ok _ _ hw, Res.ok_bind]
    by_cases h1 : start < 0 <;> by_cases h2 : start < -l <;> by_cases h3 : start ≥ l <;>
    by_cases h4 : stop < 0 <;> by_cases h5 : stop < -l <;> by_cases h6 : stop ≥ l <;>
    simp only [h1, h2, h3, h4, h5, h6, if_true, if_false] <;>
    first
    | rfl
    | (simp only [optK_ite])

/-- the rounded-up quotient `n = c / s; if c%s > 0 { n++ }` of positive numbers is not negative -/
theorem ceilDiv_nonneg (c s : Int) (hc : 0 < c) (hs : 0 < s) :
    0 ≤ (if Int.tmod c s > 0 then Int.tdiv c s + 1 else Int.tdiv c s) := by
  have q0 : 0 ≤ Int.tdiv c s := Int.tdiv_nonneg (by omega) (by omega)
  split <;> omega

example : (if Int.tmod 5 2 > 0 then Int.tdiv 5 2 + 1 else Int.tdiv 5 2) = 3 := by decide

/-- the number of elements `n` that `sliceStep` computes is not negative, for every non-zero Go `int` step and every
    length below 2^63 (for `step = MinInt` the negated step wraps to `MinInt` and the count is 1) -/
theorem clampStep_cnt_nonneg (l start stop step a n : Int) (hs : step ≠ 0) (hmin : -2 ^ 63 ≤ step)
    (hl : l < 2 ^ 63) (h : clampStep l start stop step = some (a, n)) : 0 ≤ n := by
  unfold clampStep at h
  by_cases hpos : step > 0
  · simp only [hpos, if_true] at h
    split at h
    · cases h
    · split at h
      · cases h
      · split at h
        · cases h
        · injection h with h; injection h with h1 h2
          rw [← h2]
          exact ceilDiv_nonneg _ _ (by omega) hpos
  · simp only [hpos, if_false] at h
    split at h
    · cases h
    · rename_i a' ha'
      split at h
      · cases h
      · rename_i b' hb'
        split at h
        · cases h
        · rename_i hab
          injection h with h; injection h with h1 h2
          rw [← h2]
          by_cases e : step = -2 ^ 63
          · have fa : a' < l := by
              split at ha'
              · split at ha'
                · cases ha'
                · injection ha' with ha'; omega
              · split at ha' <;> (injection ha' with ha'; omega)
            have fb : -1 ≤ b' := by
              split at hb'
              · split at hb' <;> (injection hb' with hb'; omega)
              · split at hb'
                · cases hb'
                · injection hb' with hb'; omega
            subst e
            rw [Utf8.wrap64_min, Utf8.count_min _ (by omega) (by omega)]
            decide
          · rw [Utf8.wrap64_neg step (by omega) (by omega)]
            exact ceilDiv_nonneg _ _ (by omega) (by omega)

example : clampStep 5 (2 ^ 63 - 1) (-(2 ^ 63)) (-(2 ^ 63)) = some (4, 1) := by decide

/-! ## `sliceStep`, array branch -/

/-- slice.go:162-164 `for i, j := 0, start; i < n; i, j = i+1, j+step { r[i] = a[j] }`.
    Sites: slice.go:163 `a[j]` → `idx?`, `r[i] = …` → `set?`.  State: the loop variables `i`, `j`, the slice `r`.
    (`j + step` is computed once more after the last element and may wrap in Go; that value is never used.  As in the
    model, `j` is an unwrapped `Int`: every `j` that is used is a valid index, far from the 64-bit limits.) -/
def fillLoopC (a : List Val) (step n : Int) : Nat → Int → Int → List Val → Res (List Val)
  | 0, i, _, r => if i < n then .panic fuelMsg else .ok r
  | f + 1, i, j, r =>
    if i < n then do
      let x ← idx? a j                          -- a[j]
      let r ← set? r i x                        -- r[i] = a[j]
      fillLoopC a step n f (i + 1) (j + step) r -- i, j = i+1, j+step
    else .ok r

/-- writing at position `len(pre)` of `pre ++ [nil, nil, …]` -/
theorem set_append_replicate (pre : List Val) (m : Nat) (x : Val) :
    (pre ++ List.replicate (m + 1) Val.null).set pre.length x = (pre ++ [x]) ++ List.replicate m Val.null := by
  rw [List.set_append_right _ _ (Nat.le_refl _), Nat.sub_self, List.replicate_succ, List.set_cons_zero,
    List.append_assoc]
  rfl

/-- when every `j + k·step` (`k < n - i`) is a valid index of `a`, the copy loop fills the rest of `r` with the
    model's `pickStep` and neither `a[j]` nor `r[i] = …` is out of range -/
theorem fillLoopC_eq (a : List Val) (step n : Int) : ∀ (f : Nat) (i j : Int) (pre : List Val),
    (pre.length : Int) = i → (n - i).toNat ≤ f →
    (∀ k : Int, 0 ≤ k → k < n - i → 0 ≤ j + k * step ∧ j + k * step < a.length) →
    fillLoopC a step n f i j (pre ++ List.replicate (n - i).toNat .null)
      = .ok (pre ++ pickStep a j step (n - i).toNat) := by
  intro f
  induction f with
  | zero =>
    intro i j pre hp h _
    have e : (n - i).toNat = 0 := by omega
    rw [fillLoopC, if_neg (by omega), e]; rfl
  | succ f ih =>
    intro i j pre hp h hr
    rw [fillLoopC]
    by_cases hi : i < n
    · rw [if_pos hi]
      have e : (n - i).toNat = (n - (i + 1)).toNat + 1 := by omega
      have h0 := hr 0 (by omega) (by omega)
      rw [Int.zero_mul, Int.add_zero] at h0
      rw [e, idx?_ok a j h0.1 h0.2 .null, Res.ok_bind,
        set?_ok _ _ _ (by omega) (by rw [List.length_append, List.length_replicate]; omega), Res.ok_bind]
      have ei : i.toNat = pre.length := by omega
      rw [ei, set_append_replicate]
      rw [ih (i + 1) (j + step) (pre ++ [a.getD j.toNat .null])
        (by rw [List.length_append, List.length_singleton]; omega) (by omega) ?_]
      · rw [pickStep, List.append_assoc]; rfl
      · intro k hk0 hk
        have := hr (k + 1) (by omega) (by omega)
        rw [Int.add_mul, Int.one_mul] at this
        omega
    · have e : (n - i).toNat = 0 := by omega
      rw [if_neg hi, e]; rfl

/-- every second element of `["a","b","c"]` from 0 -/
example : fillLoopC abc 2 2 2 0 0 [.null, .null] = .ok [.str [0x61], .str [0x63]] := rfl
/-- a `j` out of range does panic in the mirror -/
example : fillLoopC abc 2 3 3 0 0 [.null, .null, .null] = .panic idxMsg := rfl

/-- slice.go:161-166, the end of the array branch of `sliceStep`: `r := make([]any, n)` → `make?`, the copy loop,
    `return r` -/
def sliceStepArrTail (t : ATag) (a : List Val) (step start n : Int) : Res Val :=
  do
    let r ← make? n                                         -- r := make([]any, n)
    let r ← fillLoopC a step n n.toNat 0 start r            -- for i, j := 0, start; i < n; i, j = i+1, j+step { … }
    if enum2 t a then .nondet                               -- (model marker, AFTER the checked allocation and copy)
    else .ok (.arr .plain r)                                -- return r

/-- `sliceStep(v, start, stop, step)`, array branch slice.go:94-167.
    Sites: slice.go:94 `v.([]any)` (comma-ok); slice.go:124 `c / step`, slice.go:125 `c%step`, slice.go:155 `c / s`,
    slice.go:156 `c%s` → `div?`, `mod?`; slice.go:153 `step * -1` wraps (`wrap64`, as in the model);
    slice.go:161 `make([]any, n)` → `make?`; slice.go:163 `r[i] = a[j]` → `set?`, `idx?` (in `sliceStepArrTail`).
    `start += l`, `stop += l`, `stop - start`, `start - stop` cannot overflow (operands within `[-l, l]`).
    Flags (`true` = as in the source): `gCmp` = slice.go:119 `if start >= stop { return []any{} }`;
    `gHi` = slice.go:135 `else if start >= l { start = l - 1 }`. -/
def sliceStepArrG (gCmp gHi : Bool) (t : ATag) (a : List Val) (start stop step : Int) : Res Val :=
  let l : Int := a.length                                   -- l := len(a)
  if step > 0 then
    -- slice.go:119-127
    let k2 (start stop : Int) : Res Val :=
      if gCmp && decide (start ≥ stop) then .ok (.arr .plain [])   -- if start >= stop { return []any{} }
      else do
        let c := stop - start                               -- c := stop - start
        let n ← div? c step                                 -- n = c / step
        let m ← mod? c step                                 -- if c%step > 0 { n++ }
        sliceStepArrTail t a step start (if m > 0 then n + 1 else n)
    -- slice.go:109-117
    let k1 (start : Int) : Res Val :=
      if stop < 0 then
        if stop < -l then .ok (.arr .plain [])              -- return []any{}
        else k2 start (stop + l)                            -- stop += l
      else if stop > l then k2 start l                      -- stop = l
      else k2 start stop
    -- slice.go:99-107
    if start < 0 then
      if start < -l then k1 0                               -- start = 0
      else k1 (start + l)                                   -- start += l
    else if start ≥ l then .ok (.arr .plain [])             -- return []any{}
    else k1 start
  else
    -- slice.go:149-158
    let k2 (start stop : Int) : Res Val :=
      if start ≤ stop then .ok (.arr .plain [])             -- if start <= stop { return []any{} }
      else do
        let s := wrap64 (step * -1)                         -- s := step * -1
        let c := start - stop                               -- c := start - stop
        let n ← div? c s                                    -- n = c / s
        let m ← mod? c s                                    -- if c%s > 0 { n++ }
        sliceStepArrTail t a step start (if m > 0 then n + 1 else n)
    -- slice.go:139-147
    let k1 (start : Int) : Res Val :=
      if stop < 0 then
        if stop < -l then k2 start (-1)                     -- stop = -1
        else k2 start (stop + l)                            -- stop += l
      else if stop ≥ l then .ok (.arr .plain [])            -- return []any{}
      else k2 start stop
    -- slice.go:129-137
    if start < 0 then
      if start < -l then .ok (.arr .plain [])               -- return []any{}
      else k1 (start + l)                                   -- start += l
    else if gHi && decide (start ≥ l) then k1 (l - 1)       -- else if start >= l { start = l - 1 }
    else k1 start

/-- the checked mirror of the array branch as it is in the source -/
def sliceStepArrC (t : ATag) (a : List Val) (start stop step : Int) : Res Val :=
  sliceStepArrG true true t a start stop step

/-- the array branch of `sliceStep`: no division by zero, `make` gets a count in `[0, len(a)]`, every `a[j]` and
    `r[i]` is in range — for a non-zero Go `int` step and an array no longer than `makeLimit` -/
theorem sliceStepArrC_eq (t : ATag) (a : List Val) (start stop step : Int) (hs : step ≠ 0) (hmin : -2 ^ 63 ≤ step)
    (hlen : (a.length : Int) ≤ makeLimit) :
    sliceStepArrC t a start stop step = sliceStep (.arr t a) start stop step := by
  simp only [sliceStepArrC, sliceStepArrG, Bool.true_and, decide_eq_true_eq]
  refine (clampStep_cps (a.length : Int) start stop step hs hmin (Res.ok (Val.arr .plain []))
    (sliceStepArrTail t a step)).trans ?_
  simp only [sliceStep]
  cases h : clampStep (a.length : Int) start stop step with
  | none => rfl
  | some ab =>
    obtain ⟨x, n⟩ := ab
    have hb := C09.clampStep_bounds _ _ _ _ _ _ h
    have hr := C11C.clampStep_inRange' _ _ _ _ _ _ (by omega) hs hmin h
    have hlim : makeLimit = 2 ^ 44 := rfl
    have hn := clampStep_cnt_nonneg _ _ _ _ _ _ hs hmin (by omega) h
    simp only [optK, sliceStepArrTail]
    rw [make?_ok n hn (by omega), Res.ok_bind]
    have := fillLoopC_eq a step n n.toNat 0 x [] rfl (by omega) (by
      intro k hk0 hk; exact hr.2.2 k hk0 (by omega))
    rw [Int.sub_zero, List.nil_append, List.nil_append] at this
    rw [this, Res.ok_bind]

/-- `[::2]` on `["a","b","c"]` is `["a","c"]`; `[::-1]` (the parser passes `start = MaxInt`, `stop = MinInt`) is
    `["c","b","a"]`; `step = MinInt` selects one element -/
example : sliceStepArrC .plain abc 0 (2 ^ 63 - 1) 2 = .ok (.arr .plain [.str [0x61], .str [0x63]]) := rfl
example : sliceStepArrC .plain abc (2 ^ 63 - 1) (-(2 ^ 63)) (-1)
    = .ok (.arr .plain [.str [0x63], .str [0x62], .str [0x61]]) := rfl
example : sliceStepArrC .plain abc (2 ^ 63 - 1) (-(2 ^ 63)) (-(2 ^ 63)) = .ok (.arr .plain [.str [0x63]]) := rfl

/-- the hypothesis `step ≠ 0` is needed: with a zero step (which parser.go:1502 rejects) `sliceStep(a, 2, 0, 0)`
    reaches `c / s` with `s = 0` (slice.go:155) and panics — while the total model answers `["c"]` -/
example : sliceStepArrC .plain abc 2 0 0 = .panic divMsg := rfl
example : sliceStep (.arr .plain abc) 2 0 0 = .ok (.arr .plain [.str [0x63]]) := rfl
/-- the hypothesis `-2^63 ≤ step` (a Go `int`) is needed: for the non-`int` step `-2^64 - 1` the negated step wraps
    to 1, the count is 2 and the second `a[j]` is out of range -/
example : sliceStepArrC .plain abc 2 0 (-(2 ^ 64) - 1) = .panic idxMsg := rfl
/-- `make` refuses lengths above the limit of the hypothesis `len(a) ≤ makeLimit` (no concrete array is that long) -/
example : make? (makeLimit + 1) = .panic makeMsg := rfl

/-- guard deletion: without `if start >= stop { return []any{} }` (slice.go:119) the slice `[2:0:2]` of
    `["a","b","c"]` computes `c = -2`, `n = -1` and `make([]any, -1)` panics -/
example : sliceStepArrG false true .plain abc 2 0 2 = .panic makeMsg := rfl
/-- guard deletion: without `else if start >= l { start = l - 1 }` (slice.go:135) the slice `[5::-1]` of
    `["a","b","c"]` reads `a[5]` and panics -/
example : sliceStepArrG true false .plain abc 5 (-(2 ^ 63)) (-1) = .panic idxMsg := rfl
/-- … both also on a map-ordered array (`values(@)[2:0:2]`, `values(@)[5::-1]`): allocation and copy are checked before the
    nondeterminism marker is consulted -/
example : sliceStepArrG false true .enum abc 2 0 2 = .panic makeMsg := rfl
example : sliceStepArrG true false .enum abc 5 (-(2 ^ 63)) (-1) = .panic idxMsg := rfl
example : sliceStepArrC .enum abc 0 (2 ^ 63 - 1) 2 = .nondet := rfl

/-! ## `sliceStep`, string branch -/

/- `b.Grow(n)` (slice.go:237) is `grow?` of `C03DChecked`: `strings.Builder.Grow` panics on a negative count. -/

/-- slice.go:250-253 `for j := 1; j < step && len(s) > 0; j++ { _, sz = utf8.DecodeRuneInString(s); s = s[sz:] }`.
    Site: slice.go:252 `s[sz:]` → `sliceFrom?`.  State: `j`, `s`.  Fuel: `len(s)` (each round removes a byte). -/
def skipFwdC (step : Int) : Nat → Int → Bytes → Res Bytes
  | 0, j, s => if j < step ∧ (s.length : Int) > 0 then .panic fuelMsg else .ok s
  | f + 1, j, s =>
    if j < step ∧ (s.length : Int) > 0 then do
      let sz : Int := (decodeRune s).2          -- _, sz = utf8.DecodeRuneInString(s)
      let s ← sliceFrom? s sz                   -- s = s[sz:]
      skipFwdC step f (j + 1) s                 -- j++
    else .ok s

/-- the forward skip loop equals the model's `dropRunes` (which also stops at the end of the string); `s[sz:]` is in
    bounds because a decoded rune is never longer than the string -/
theorem skipFwdC_eq (step : Int) : ∀ (f : Nat) (j : Int) (s : Bytes), s.length ≤ f →
    skipFwdC step f j s = .ok (dropRunes (step - j).toNat s) := by
  intro f
  induction f with
  | zero =>
    intro j s h
    have hs : s = [] := List.eq_nil_of_length_eq_zero (by omega)
    subst hs
    rw [skipFwdC, if_neg (by simp), Utf8.dropRunes_nil]
  | succ f ih =>
    intro j s h
    rw [skipFwdC]
    by_cases hc : j < step ∧ (s.length : Int) > 0
    · rw [if_pos hc]
      have hs : s ≠ [] := by intro e; subst e; simp at hc
      have hle := C09.decodeRune_le s
      have hpos := C09.decodeRune_pos s hs
      have e : (step - j).toNat = (step - (j + 1)).toNat + 1 := by omega
      simp only [sliceFrom?_ok_nat s _ hle, Res.ok_bind]
      rw [ih _ _ (by rw [List.length_drop]; omega), e, Utf8.dropRunes_succ _ _ hs]
    · rw [if_neg hc]
      by_cases hj : j < step
      · have hs : s = [] := List.eq_nil_of_length_eq_zero (by omega)
        subst hs
        rw [Utf8.dropRunes_nil]
      · have e : (step - j).toNat = 0 := by omega
        rw [e]; rfl

/-- `j` runs from 1 to `step - 1`: two runes of `"éab"` are skipped for `step = 3`; a huge step stops at the end -/
example : skipFwdC 3 4 1 [0xC3, 0xA9, 0x61, 0x62] = .ok [0x62] := rfl
example : skipFwdC (2 ^ 62) 4 1 [0xC3, 0xA9, 0x61, 0x62] = .ok [] := rfl

/-- slice.go:245-254 `for i := 0; i < n; i++ { r, sz := utf8.DecodeRuneInString(s); s = s[sz:]; b.WriteRune(r); <skip loop> }`.
    Site: slice.go:247 `s[sz:]` → `sliceFrom?` (and the skip loop).  State: `i`, `s`, the builder contents `b`. -/
def walkFwdC (step n : Int) : Nat → Int → Bytes → Bytes → Res Bytes
  | 0, i, _, b => if i < n then .panic fuelMsg else .ok b
  | f + 1, i, s, b =>
    if i < n then do
      let d := decodeRune s                     -- r, sz := utf8.DecodeRuneInString(s)
      let s ← sliceFrom? s (d.2 : Int)          -- s = s[sz:]
      let b := b ++ encodeRune d.1              -- b.WriteRune(r)
      let s ← skipFwdC step s.length 1 s        -- for j := 1; j < step && len(s) > 0; j++ { … }
      walkFwdC step n f (i + 1) s b             -- i++
    else .ok b

/-- the forward selecting loop appends the model's `walkFwd` to the builder; no slice fails -/
theorem walkFwdC_eq (step n : Int) : ∀ (f : Nat) (i : Int) (s b : Bytes), (n - i).toNat ≤ f →
    walkFwdC step n f i s b = .ok (b ++ walkFwd step.toNat (n - i).toNat s) := by
  intro f
  induction f with
  | zero =>
    intro i s b h
    have e : (n - i).toNat = 0 := by omega
    rw [walkFwdC, if_neg (by omega), e, walkFwd, List.append_nil]
  | succ f ih =>
    intro i s b h
    rw [walkFwdC]
    by_cases hi : i < n
    · rw [if_pos hi]
      have e : (n - i).toNat = (n - (i + 1)).toNat + 1 := by omega
      have e1 : (step - 1).toNat = step.toNat - 1 := by omega
      simp only [sliceFrom?_ok_nat s _ (C09.decodeRune_le s), Res.ok_bind, skipFwdC_eq step _ 1 _ (Nat.le_refl _)]
      rw [ih _ _ _ (by omega), e, Utf8.walkFwd_succ, List.append_assoc, e1]
    · have e : (n - i).toNat = 0 := by omega
      rw [if_neg hi, e, walkFwd, List.append_nil]

example : walkFwdC 2 2 2 0 [0x61, 0xC3, 0xA9, 0x62] [] = .ok [0x61, 0x62] := rfl

/-- slice.go:256-259 `for i := l - 1; i > start; i-- { _, sz := utf8.DecodeLastRuneInString(s); s = s[:len(s)-sz] }`.
    Site: slice.go:258 `s[:len(s)-sz]` → `sliceTo?`.  State: `i`, `s`. -/
def dropLastLoopC (start : Int) : Nat → Int → Bytes → Res Bytes
  | 0, i, s => if i > start then .panic fuelMsg else .ok s
  | f + 1, i, s =>
    if i > start then do
      let sz : Int := (decodeLastRune s).2      -- _, sz := utf8.DecodeLastRuneInString(s)
      let s ← sliceTo? s ((s.length : Int) - sz)  -- s = s[:len(s)-sz]
      dropLastLoopC start f (i - 1) s           -- i--
    else .ok s

/-- `s[:len(s)-sz]` with `sz` the size of the last rune is in bounds (`sz ≤ len(s)`), for every byte string -/
theorem sliceTo_last (s : Bytes) :
    sliceTo? s ((s.length : Int) - ((decodeLastRune s).2 : Int)) = .ok (s.take (s.length - (decodeLastRune s).2)) := by
  have hle := C09.decodeLastRune_le s
  rw [sliceTo?_ok s _ (by omega) (by omega)]
  have e : ((s.length : Int) - ((decodeLastRune s).2 : Int)).toNat = s.length - (decodeLastRune s).2 := by omega
  rw [e]

/-- the backward positioning loop equals the model's `dropLastRunes` -/
theorem dropLastLoopC_eq (start : Int) : ∀ (f : Nat) (i : Int) (s : Bytes), (i - start).toNat ≤ f →
    dropLastLoopC start f i s = .ok (dropLastRunes (i - start).toNat s) := by
  intro f
  induction f with
  | zero =>
    intro i s h
    have e : (i - start).toNat = 0 := by omega
    rw [dropLastLoopC, if_neg (by omega), e]; rfl
  | succ f ih =>
    intro i s h
    rw [dropLastLoopC]
    by_cases hi : i > start
    · rw [if_pos hi]
      have e : (i - start).toNat = (i - 1 - start).toNat + 1 := by omega
      simp only [sliceTo_last, Res.ok_bind]
      rw [ih _ _ (by omega), e]
      by_cases hs : s = []
      · subst hs
        rw [List.take_nil, Utf8.dropLastRunes_nil, Utf8.dropLastRunes_nil]
      · rw [Utf8.dropLastRunes_succ _ _ hs]
    · have e : (i - start).toNat = 0 := by omega
      rw [if_neg hi, e]; rfl

example : dropLastLoopC 0 2 2 [0x61, 0xC3, 0xA9, 0x62] = .ok [0x61] := rfl
example : sliceTo? [0x61, 0xC3, 0xA9] ((3 : Int) - ((decodeLastRune [0x61, 0xC3, 0xA9]).2 : Int)) = .ok [0x61] := rfl

/-- slice.go:266-269 `for j := -1; j > step && len(s) > 0; j-- { _, sz = utf8.DecodeLastRuneInString(s); s = s[:len(s)-sz] }`.
    Site: slice.go:268 `s[:len(s)-sz]` → `sliceTo?`.  State: `j`, `s`.  Fuel: `len(s)`. -/
def skipBwdC (step : Int) : Nat → Int → Bytes → Res Bytes
  | 0, j, s => if j > step ∧ (s.length : Int) > 0 then .panic fuelMsg else .ok s
  | f + 1, j, s =>
    if j > step ∧ (s.length : Int) > 0 then do
      let sz : Int := (decodeLastRune s).2      -- _, sz = utf8.DecodeLastRuneInString(s)
      let s ← sliceTo? s ((s.length : Int) - sz)  -- s = s[:len(s)-sz]
      skipBwdC step f (j - 1) s                 -- j--
    else .ok s

/-- the backward skip loop equals the model's `dropLastRunes` -/
theorem skipBwdC_eq (step : Int) : ∀ (f : Nat) (j : Int) (s : Bytes), s.length ≤ f →
    skipBwdC step f j s = .ok (dropLastRunes (j - step).toNat s) := by
  intro f
  induction f with
  | zero =>
    intro j s h
    have hs : s = [] := List.eq_nil_of_length_eq_zero (by omega)
    subst hs
    rw [skipBwdC, if_neg (by simp), Utf8.dropLastRunes_nil]
  | succ f ih =>
    intro j s h
    rw [skipBwdC]
    by_cases hc : j > step ∧ (s.length : Int) > 0
    · rw [if_pos hc]
      have hs : s ≠ [] := by intro e; subst e; simp at hc
      have hle := C09.decodeLastRune_le s
      have hpos := C09.decodeLastRune_pos s hs
      have e : (j - step).toNat = (j - 1 - step).toNat + 1 := by omega
      simp only [sliceTo_last, Res.ok_bind]
      rw [ih _ _ (by rw [List.length_take]; omega), e, Utf8.dropLastRunes_succ _ _ hs]
    · rw [if_neg hc]
      by_cases hj : j > step
      · have hs : s = [] := List.eq_nil_of_length_eq_zero (by omega)
        subst hs
        rw [Utf8.dropLastRunes_nil]
      · have e : (j - step).toNat = 0 := by omega
        rw [e]; rfl

example : skipBwdC (-3) 4 (-1) [0x61, 0xC3, 0xA9, 0x62] = .ok [0x61] := rfl

/-- slice.go:261-270 `for i := 0; i < n; i++ { r, sz := utf8.DecodeLastRuneInString(s); s = s[:len(s)-sz]; b.WriteRune(r); <skip loop> }`.
    Site: slice.go:263 `s[:len(s)-sz]` → `sliceTo?` (and the skip loop).  State: `i`, `s`, the builder contents `b`. -/
def walkBwdC (step n : Int) : Nat → Int → Bytes → Bytes → Res Bytes
  | 0, i, _, b => if i < n then .panic fuelMsg else .ok b
  | f + 1, i, s, b =>
    if i < n then do
      let d := decodeLastRune s                 -- r, sz := utf8.DecodeLastRuneInString(s)
      let s ← sliceTo? s ((s.length : Int) - (d.2 : Int))   -- s = s[:len(s)-sz]
      let b := b ++ encodeRune d.1              -- b.WriteRune(r)
      let s ← skipBwdC step s.length (-1) s     -- for j := -1; j > step && len(s) > 0; j-- { … }
      walkBwdC step n f (i + 1) s b             -- i++
    else .ok b

/-- the backward selecting loop appends the model's `walkBwd` to the builder; no slice fails -/
theorem walkBwdC_eq (step n : Int) : ∀ (f : Nat) (i : Int) (s b : Bytes), (n - i).toNat ≤ f →
    walkBwdC step n f i s b = .ok (b ++ walkBwd (-step).toNat (n - i).toNat s) := by
  intro f
  induction f with
  | zero =>
    intro i s b h
    have e : (n - i).toNat = 0 := by omega
    rw [walkBwdC, if_neg (by omega), e, walkBwd, List.append_nil]
  | succ f ih =>
    intro i s b h
    rw [walkBwdC]
    by_cases hi : i < n
    · rw [if_pos hi]
      have e : (n - i).toNat = (n - (i + 1)).toNat + 1 := by omega
      have e1 : (-1 - step).toNat = (-step).toNat - 1 := by omega
      simp only [sliceTo_last, Res.ok_bind, skipBwdC_eq step _ (-1) _ (Nat.le_refl _)]
      rw [ih _ _ _ (by omega), e, Utf8.walkBwd_succ, List.append_assoc, e1]
    · have e : (n - i).toNat = 0 := by omega
      rw [if_neg hi, e, walkBwd, List.append_nil]

example : walkBwdC (-2) 2 2 0 [0x61, 0xC3, 0xA9, 0x62] [] = .ok [0x62, 0x61] := rfl

/-- slice.go:236-273, the end of the string branch of `sliceStep`: `b.Grow(n)` → `grow?`, then the forward loops
    (slice.go:239-254) or the backward loops (slice.go:255-271), `return b.String()`.  `l` is the rune count. -/
def sliceStepStrTail (s : Bytes) (l step start n : Int) : Res Val := do
  grow? n                                                   -- var b strings.Builder; b.Grow(n)
  if step > 0 then do
    let s ← dropLoopC start start.toNat 0 s                 -- for i := 0; i < start; i++ { … }
    let b ← walkFwdC step n n.toNat 0 s []                  -- for i := 0; i < n; i++ { … }
    .ok (.str b)                                            -- return b.String()
  else do
    let s ← dropLastLoopC start (l - 1 - start).toNat (l - 1) s   -- for i := l - 1; i > start; i-- { … }
    let b ← walkBwdC step n n.toNat 0 s []                  -- for i := 0; i < n; i++ { … }
    .ok (.str b)                                            -- return b.String()

/-- `sliceStep(v, start, stop, step)`, string branch slice.go:169-274.
    Sites: slice.go:169 `v.(string)` (comma-ok); slice.go:199/200 `c / step`, `c%step`, slice.go:230/231 `c / s`,
    `c%s` → `div?`, `mod?`; slice.go:228 `step * -1` wraps; slice.go:237 `b.Grow(n)` → `grow?`; slice.go:242, 247, 252
    `s[sz:]` → `sliceFrom?`; slice.go:258, 263, 268 `s[:len(s)-sz]` → `sliceTo?` (in `sliceStepStrTail`). -/
def sliceStepStrC (s : Bytes) (start stop step : Int) : Res Val :=
  let l : Int := runeCount s                                -- l := utf8.RuneCountInString(s)
  if step > 0 then
    -- slice.go:194-202
    let k2 (start stop : Int) : Res Val :=
      if start ≥ stop then .ok (.str [])                    -- if start >= stop { return "" }
      else do
        let c := stop - start                               -- c := stop - start
        let n ← div? c step                                 -- n = c / step
        let m ← mod? c step                                 -- if c%step > 0 { n++ }
        sliceStepStrTail s l step start (if m > 0 then n + 1 else n)
    -- slice.go:184-192
    let k1 (start : Int) : Res Val :=
      if stop < 0 then
        if stop < -l then .ok (.str [])                     -- return ""
        else k2 start (stop + l)                            -- stop += l
      else if stop > l then k2 start l                      -- stop = l
      else k2 start stop
    -- slice.go:174-182
    if start < 0 then
      if start < -l then k1 0                               -- start = 0
      else k1 (start + l)                                   -- start += l
    else if start ≥ l then .ok (.str [])                    -- return ""
    else k1 start
  else
    -- slice.go:224-233
    let k2 (start stop : Int) : Res Val :=
      if start ≤ stop then .ok (.str [])                    -- if start <= stop { return "" }
      else do
        let s' := wrap64 (step * -1)                        -- s := step * -1   (shadows the string in Go's inner scope)
        let c := start - stop                               -- c := start - stop
        let n ← div? c s'                                   -- n = c / s
        let m ← mod? c s'                                   -- if c%s > 0 { n++ }
        sliceStepStrTail s l step start (if m > 0 then n + 1 else n)
    -- slice.go:214-222
    let k1 (start : Int) : Res Val :=
      if stop < 0 then
        if stop < -l then k2 start (-1)                     -- stop = -1
        else k2 start (stop + l)                            -- stop += l
      else if stop ≥ l then .ok (.str [])                   -- return ""
      else k2 start stop
    -- slice.go:204-212
    if start < 0 then
      if start < -l then .ok (.str [])                      -- return ""
      else k1 (start + l)                                   -- start += l
    else if start ≥ l then k1 (l - 1)                       -- start = l - 1
    else k1 start

/-- the string branch of `sliceStep`: no division by zero, `Grow` gets a non-negative count, the eight slicing sites
    are in bounds for all bytes — for a non-zero Go `int` step and a string shorter than 2^63 bytes -/
theorem sliceStepStrC_eq (s : Bytes) (start stop step : Int) (hs : step ≠ 0) (hmin : -2 ^ 63 ≤ step)
    (hlen : (s.length : Int) < 2 ^ 63) :
    sliceStepStrC s start stop step = sliceStep (.str s) start stop step := by
  refine (clampStep_cps (runeCount s : Int) start stop step hs hmin (Res.ok (Val.str []))
    (sliceStepStrTail s (runeCount s : Int) step)).trans ?_
  simp only [sliceStep]
  cases h : clampStep (runeCount s : Int) start stop step with
  | none => rfl
  | some ab =>
    obtain ⟨x, n⟩ := ab
    have hb := C09.clampStep_bounds _ _ _ _ _ _ h
    have hrl := C09.runeCount_le_length s.length s (Nat.le_refl _)
    have hn := clampStep_cnt_nonneg _ _ _ _ _ _ hs hmin (by omega) h
    have hg : grow? n = .ok () := grow?_ok n hn
    simp only [optK, sliceStepStrTail, hg, Res.ok_bind]
    by_cases hpos : step > 0
    · rw [if_pos hpos, if_pos hpos]
      have e1 := dropLoopC_eq x x.toNat 0 s (by omega)
      rw [Int.sub_zero] at e1
      have e2 := walkFwdC_eq step n n.toNat 0 (dropRunes x.toNat s) [] (by omega)
      rw [Int.sub_zero, List.nil_append] at e2
      rw [e1, Res.ok_bind, e2, Res.ok_bind]
    · rw [if_neg hpos, if_neg hpos]
      have e1 := dropLastLoopC_eq x ((runeCount s : Int) - 1 - x).toNat ((runeCount s : Int) - 1) s (by omega)
      have e2 := walkBwdC_eq step n n.toNat 0 (dropLastRunes ((runeCount s : Int) - 1 - x).toNat s) [] (by omega)
      rw [Int.sub_zero, List.nil_append] at e2
      rw [e1, Res.ok_bind, e2, Res.ok_bind]

/-- the checked mirror of `sliceStep` (slice.go:93-277) -/
def sliceStepC (v : Val) (start stop step : Int) : Res Val :=
  match v with
  | .arr t a => sliceStepArrC t a start stop step           -- if a, ok := v.([]any); ok { … }
  | .str s => sliceStepStrC s start stop step               -- if s, ok := v.(string); ok { … }
  | _ => .ok .null                                          -- return nil

/-- what the Go runtime guarantees about the size of the operand: an array is no longer than `makeLimit` (else
    `make([]any, n)` could refuse a count `n ≤ len(a)`; `makeLimit = 2^44 = maxAlloc / 16` is the longest `[]any` the Go runtime allocates), a string is
    shorter than 2^63 bytes (`len` returns an `int`; needed for `step = MinInt` only, where a longer string would
    give a negative count and `b.Grow(n)` would panic) -/
def SizeOK : Val → Prop
  | .arr _ a => (a.length : Int) ≤ makeLimit
  | .str s => (s.length : Int) < 2 ^ 63
  | _ => True

/-- **`sliceStep` never indexes or slices out of range, never divides by zero, never calls `make` or `Grow` with a bad
    count**: for every value (arrays; strings of arbitrary bytes) and all integers `start`, `stop`, and every step that
    is a non-zero Go `int` — `step ≠ 0` is what parser.go:1502 guarantees (`Jmes.C04.stepPhase_zero`: a zero step is
    the syntax error `invalidSliceStep`), `-2^63 ≤ step` is the type `int` — the checked mirror equals the model
    function `Jmes.sliceStep`. -/
theorem sliceStepC_eq (v : Val) (start stop step : Int) (hs : step ≠ 0) (hmin : -2 ^ 63 ≤ step) (hsz : SizeOK v) :
    sliceStepC v start stop step = sliceStep v start stop step := by
  cases v with
  | arr t a => exact sliceStepArrC_eq t a start stop step hs hmin hsz
  | str s => exact sliceStepStrC_eq s start stop step hs hmin hsz
  | _ => rfl

/-- `"aé\xffbc"[::2]` is `"a\xffc"` with the invalid byte `\xff` decoded as U+FFFD and re-encoded (`EF BF BD`);
    `[::-2]` is the same backwards; a step of `2^62` selects the first rune and the skip loop stops at the end of the
    string (`len(s) > 0`) -/
example : sliceStepC (.str [0x61, 0xC3, 0xA9, 0xFF, 0x62, 0x63]) 0 (2 ^ 63 - 1) 2
    = .ok (.str [0x61, 0xEF, 0xBF, 0xBD, 0x63]) := rfl
example : sliceStepC (.str [0x61, 0xC3, 0xA9, 0xFF, 0x62, 0x63]) (2 ^ 63 - 1) (-(2 ^ 63)) (-2)
    = .ok (.str [0x63, 0xEF, 0xBF, 0xBD, 0x61]) := rfl
example : sliceStepC (.str [0x61, 0xC3, 0xA9, 0xFF, 0x62, 0x63]) 0 (2 ^ 63 - 1) (2 ^ 62) = .ok (.str [0x61]) := rfl
example : sliceStepC (.str [0x61, 0xC3, 0xA9, 0xFF, 0x62, 0x63]) 1 4 2
    = sliceStep (.str [0x61, 0xC3, 0xA9, 0xFF, 0x62, 0x63]) 1 4 2 :=
  sliceStepC_eq _ _ _ _ (by decide) (by decide) (by simp [SizeOK])
/-- with a zero step the string branch divides by zero as well (slice.go:230) -/
example : sliceStepC (.str [0x61, 0x62, 0x63]) 2 0 0 = .panic divMsg := rfl

/-! ## the caller of `sliceStep`: the parser only builds steps that are non-zero Go `int`s -/

section Caller
open Jmes.Parser Jmes.Pratt Jmes.Lexical Jmes.C04

/-- a node is a stepped slice with step `st` -/
def IsStep (n : INode) (st : Int) : Prop :=
  (∃ c x y, n = .sliceStep c x y st) ∨ (∃ x y, n = .sliceStepCurrent x y st)

/-- the last statements of the parser's slice code (parser.go:1516-1555): consume `]`, build the node — a stepped
    node carries exactly the step `i` -/
theorem stepFin (child : Option INode) (a b i : Int) (s : PState) (n : INode) (bb : Bool) (s' : PState)
    (h : (do advance2
             if i = 1 then pure (mkSliceP child a b, true)
             else match child with
               | none => pure (INode.sliceStepCurrent a b i, true)
               | some c => pure (c.sliceStep a b i, true) : PM (INode × Bool)) s = .ok ((n, bb), s')) :
    ∀ st, IsStep n st → st = i := by
  rw [bind_run] at h
  cases ha : advance2 s with
  | error e => rw [ha] at h; cases h
  | ok r =>
    obtain ⟨u, s1⟩ := r
    rw [ha] at h
    simp only at h
    intro st hst
    by_cases h1 : i = 1
    · rw [if_pos h1, pure_run] at h
      injection h with h; injection h with h _; injection h with h _
      subst h
      cases child <;> rcases hst with ⟨c, x, y, e⟩ | ⟨x, y, e⟩ <;> cases e
    · rw [if_neg h1] at h
      cases child with
      | none =>
        simp only [pure_run] at h
        injection h with h; injection h with h _; injection h with h _
        subst h
        rcases hst with ⟨c, x, y, e⟩ | ⟨x, y, e⟩
        · cases e
        · injection e with _ _ e; exact e.symm
      | some c0 =>
        simp only [pure_run] at h
        injection h with h; injection h with h _; injection h with h _
        subst h
        rcases hst with ⟨c, x, y, e⟩ | ⟨x, y, e⟩
        · injection e with _ _ _ e; exact e.symm
        · cases e

/-- **the caller establishes the hypotheses on `step`**: the third part of a slice expression (parser.go:1490-1555;
    `Jmes.C04.stepPhase`, which is definitionally the tail of the model parser's `indexP`, `C04.indexP_eq`, and the only
    place where the parser builds `sliceStep` / `sliceStepCurrent` nodes) only produces stepped-slice nodes whose step
    is a non-zero Go `int`: the literal is read with `strconv.ParseInt(…, 64)` (`parseInt64`, in range by
    `C09.parseInt64_in_range`) and parser.go:1502 rejects zero.  These are the hypotheses `hs`, `hmin` of `sliceStepC_eq`
    for the calls `sliceStep v a b s` of `ieval` on `.sliceStep _ a b s` / `.sliceStepCurrent a b s`. -/
theorem stepPhase_step (child : Option INode) (hs hp : Bool) (start stop : Int) (s : PState)
    (n : INode) (b : Bool) (s' : PState)
    (h : stepPhase child hs hp start stop s = .ok ((n, b), s')) :
    ∀ st : Int, IsStep n st → st ≠ 0 ∧ -2 ^ 63 ≤ st := by
  by_cases h1 : s.curr.type = .integerLiteral
  · by_cases h2 : s.next.type = .closeSqBrace
    · cases hi : parseInt64 s.curr.value with
      | none =>
        simp [stepPhase, atoiP, bind_run, currType_run, nextType_run, currValue_run, fail_run, h1, h2, hi] at h
      | some i =>
        have hr := C09.parseInt64_in_range _ _ hi
        have hm : MinInt = -2 ^ 63 := rfl
        by_cases hz : i = 0
        · subst hz; rw [stepPhase_zero child hs hp start stop s h1 h2 hi] at h; cases h
        · simp [stepPhase, atoiP, bind_run, currType_run, nextType_run, currValue_run, pure_run, h1, h2, hi, hz] at h
          intro st hst
          have : st = i := by
            split at h
            · split at h
              · split at h
                · exact stepFin _ _ _ _ _ _ _ _ h st hst
                · exact stepFin _ _ _ _ _ _ _ _ h st hst
              · split at h
                · exact stepFin _ _ _ _ _ _ _ _ h st hst
                · exact stepFin _ _ _ _ _ _ _ _ h st hst
            · exact stepFin _ _ _ _ _ _ _ _ h st hst
          subst this
          exact ⟨hz, by omega⟩
    · rw [stepPhase_unexpected_after_int child hs hp start stop s h1 h2] at h; cases h
  · by_cases h2 : s.curr.type = .closeSqBrace
    · simp [stepPhase, bind_run, currType_run, h2] at h
      rw [map_run] at h
      cases ha : advance s with
      | error e => rw [ha] at h; cases h
      | ok r =>
        obtain ⟨u, s1⟩ := r
        rw [ha] at h
        injection h with h; injection h with h _; injection h with h _
        subst h
        intro st hst
        cases child <;> rcases hst with ⟨c, x, y, e⟩ | ⟨x, y, e⟩ <;> cases e
    · rw [stepPhase_unexpected child hs hp start stop s h1 h2] at h; cases h

example : IsStep (.sliceStepCurrent 0 5 2) 2 := Or.inr ⟨0, 5, rfl⟩
/-- `a[1:2:0]` does not compile -/
example : compile [0x61, 0x5B, 0x31, 0x3A, 0x32, 0x3A, 0x30, 0x5D] = .error .invalidSliceStep := C04.w_slice_step_zero

end Caller


end Jmes.C03D.SliceGo
