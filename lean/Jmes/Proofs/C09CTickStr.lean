/-
  C09, third wave — the string functions of string.go / functions.go in the tick-writer monad of `C09CTick.lean`:
  the `find_*` family, the `pad_*` family, `join`, `reverse`.

  For every Go function `f`: an instrumented `fT : … → T (Res Val)` whose loops are `forT` / `forBrkT` loops (one tick
  per iteration entered, by construction) with the trip count and the guard of the Go loop named in the doc comment
  (file:line as of the current /repo), a theorem `fT_fst : (fT x).1 = f x` with `f` the EXISTING model function, and a
  theorem `fT_snd_le` bounding the ticks for ALL integer arguments.

  The argument decoding (`value.(string)`, `toInt`, `toDecimal` — branches without any loop) is taken from the model
  as it is: `argT r k` runs the continuation `k` on a successfully decoded argument and otherwise returns the model's
  failure at no cost.
-/
import Jmes.Proofs.C09CTick
set_option linter.unusedSimpArgs false
set_option linter.unusedVariables false
namespace Jmes.C09C
open Jmes

/-! ## straight-line argument decoding -/

/-- a decoded argument (`strArg`, `intArg` of the model: type switches and `toInt`, no loop): continue with the value,
    or return the model's failure — no tick either way -/
def argT {α β : Type} (r : Res α) (k : α → T (Res β)) : T (Res β) :=
  match r with
  | .ok a => k a
  | .err c => pure (.err c)
  | .panic w => pure (.panic w)
  | .nondet => pure .nondet
  | .unmodelled w => pure (.unmodelled w)

theorem argT_fst {α β : Type} (r : Res α) (k : α → T (Res β)) : (argT r k).1 = (r >>= fun a => (k a).1) := by
  cases r <;> rfl

theorem argT_snd_le {α β : Type} (r : Res α) (k : α → T (Res β)) (c : Nat) (h : ∀ a, r = .ok a → (k a).2 ≤ c) :
    (argT r k).2 ≤ c := by
  cases r with
  | ok a => exact h a rfl
  | _ => simp [argT]

@[simp] theorem argT_ok {α β : Type} (a : α) (k : α → T (Res β)) : argT (.ok a) k = k a := rfl

example : argT (strArg (.bool true)) (fun s => (⟨.ok (.str s), 7⟩ : T (Res Val))) = ⟨errType, 0⟩ := rfl

/-! ## `strings.Index` / `strings.LastIndex` — one tick per candidate offset -/

/-- the state of the search: next candidate offset, rest of the subject from that offset, answer so far -/
abbrev FindSt := Nat × Bytes × Option Nat

/-- one candidate offset of the model's `indexOfAux`: is `p` a prefix of the rest?  -/
def findIndexBody (p : Bytes) (st : FindSt) : T (Ctl FindSt) :=
  if p.isPrefixOf st.2.1 then pure (.brk (st.1, st.2.1, some st.1))
  else match st.2.1 with
    | [] => pure (.brk (st.1, [], none))
    | _ :: t => pure (.next (st.1 + 1, t, none))

/-- `strings.Index(s, p)` (string.go:51, :168, :234) as the model's naive search `indexOfAux`: the loop
    `for off := 0; off <= len(s); off++ { if HasPrefix(s[off:], p) { return off } }`, ONE TICK PER CANDIDATE OFFSET
    examined.  A candidate costs at most `|p|` byte comparisons in this naive search; Go's real `strings.Index` is
    `O(|s| + |p|)`.  The unit is "candidate offsets". -/
def findIndexLoopT (p : Bytes) (off : Nat) (s : Bytes) : T (Ctl FindSt) :=
  forBrkT (findIndexBody p) (s.length + 1) (off, s, none)

/-- the answer carried by the final state of a search loop -/
def findAnswer : Ctl FindSt → Option Nat
  | .brk st => st.2.2
  | .next st => st.2.2

def findIndexT (s p : Bytes) : T (Option Nat) := do
  let r ← findIndexLoopT p 0 s
  pure (findAnswer r)

/-- the naive search returns the model's `indexOfAux` in at most `|s| + 1` candidates -/
theorem findIndexLoopT_spec (p : Bytes) : ∀ (s : Bytes) (off : Nat),
    findAnswer (findIndexLoopT p off s).1 = indexOfAux off s p ∧ (findIndexLoopT p off s).2 ≤ s.length + 1 := by
  intro s
  induction s with
  | nil =>
    intro off
    unfold findIndexLoopT
    rw [forBrkT_succ_fst, forBrkT_succ_snd]
    unfold indexOfAux findIndexBody
    by_cases h : p.isPrefixOf ([] : Bytes) = true
    · simp [h, findAnswer]
    · simp [h, findAnswer]
  | cons b t ih =>
    intro off
    unfold findIndexLoopT at ih ⊢
    rw [List.length_cons, forBrkT_succ_fst, forBrkT_succ_snd]
    unfold indexOfAux
    by_cases h : p.isPrefixOf (b :: t) = true
    · simp [findIndexBody, h, findAnswer]
    · have e : findIndexBody p (off, b :: t, none) = pure (.next (off + 1, t, none)) := by
        simp [findIndexBody, h]
      rw [e]
      simp only [pure_fst, pure_snd, h]
      have := ih (off + 1)
      refine ⟨this.1, ?_⟩
      have := this.2
      omega

/-- `strings.Index`, instrumented, is the model's `indexOf` … -/
theorem findIndexT_fst (s p : Bytes) : (findIndexT s p).1 = indexOf s p := by
  simp only [findIndexT, bind_fst, pure_fst]; exact (findIndexLoopT_spec p s 0).1
/-- … and examines at most `|s| + 1` candidate offsets -/
theorem findIndexT_snd_le (s p : Bytes) : (findIndexT s p).2 ≤ s.length + 1 := by
  simp only [findIndexT, bind_snd, pure_snd]; have := (findIndexLoopT_spec p s 0).2; omega

example : findIndexT [0x61, 0x62, 0x63] [0x62] = ⟨some 1, 2⟩ := by decide
example : findIndexT [0x61, 0x62, 0x63] [0x7A] = ⟨none, 4⟩ := by decide

/-- one candidate offset of the model's `lastIndexOfAux` (which visits every offset and remembers the last hit) -/
def findLastIndexBody (p : Bytes) (st : FindSt) : T FindSt :=
  pure (st.1 + 1, st.2.1.tail, if p.isPrefixOf st.2.1 then some st.1 else st.2.2)

/-- `strings.LastIndex(s, p)` (string.go:264, :381, :447) as the model's `lastIndexOfAux`: every one of the
    `len(s) + 1` candidate offsets is examined, one tick each (Go's real `strings.LastIndex` scans from the end and
    stops at the first hit; a candidate costs at most `|p|` byte comparisons; the unit is "candidate offsets") -/
def findLastIndexLoopT (p : Bytes) (off : Nat) (s : Bytes) (best : Option Nat) : T FindSt :=
  forT (fun _ => true) (findLastIndexBody p) (s.length + 1) (off, s, best)

def findLastIndexT (s p : Bytes) : T (Option Nat) := do
  let r ← findLastIndexLoopT p 0 s none
  pure r.2.2

theorem findLastIndexLoopT_spec (p : Bytes) : ∀ (s : Bytes) (off : Nat) (best : Option Nat),
    (findLastIndexLoopT p off s best).1.2.2 = lastIndexOfAux off s p best ∧
    (findLastIndexLoopT p off s best).2 = s.length + 1 := by
  intro s
  induction s with
  | nil =>
    intro off best
    unfold findLastIndexLoopT
    rw [forT_succ_fst _ _ _ _ rfl, forT_succ_snd _ _ _ _ rfl]
    unfold lastIndexOfAux
    simp [findLastIndexBody, forT]
  | cons b t ih =>
    intro off best
    unfold findLastIndexLoopT at ih ⊢
    rw [List.length_cons, forT_succ_fst _ _ _ _ rfl, forT_succ_snd _ _ _ _ rfl]
    unfold lastIndexOfAux
    have e : findLastIndexBody p (off, b :: t, best)
        = ⟨(off + 1, t, if p.isPrefixOf (b :: t) then some off else best), 0⟩ := rfl
    rw [e, mk_fst, mk_snd]
    have := ih (off + 1) (if p.isPrefixOf (b :: t) then some off else best)
    refine ⟨this.1, ?_⟩
    rw [this.2]; omega

/-- `strings.LastIndex`, instrumented, is the model's `lastIndexOf` … -/
theorem findLastIndexT_fst (s p : Bytes) : (findLastIndexT s p).1 = lastIndexOf s p := by
  simp only [findLastIndexT, bind_fst, pure_fst]; exact (findLastIndexLoopT_spec p s 0 none).1
/-- … and examines exactly `|s| + 1` candidate offsets -/
theorem findLastIndexT_snd (s p : Bytes) : (findLastIndexT s p).2 = s.length + 1 := by
  simp only [findLastIndexT, bind_snd, pure_snd]; have := (findLastIndexLoopT_spec p s 0 none).2; omega

example : findLastIndexT [0x61, 0x62, 0x61] [0x61] = ⟨some 2, 4⟩ := by decide

/-- `strings.Index` or `strings.LastIndex` -/
def findSearchT (last : Bool) (w p : Bytes) : T (Option Nat) :=
  if last then findLastIndexT w p else findIndexT w p

theorem findSearchT_fst (last : Bool) (w p : Bytes) :
    (findSearchT last w p).1 = (if last then lastIndexOf w p else indexOf w p) := by
  cases last
  · exact findIndexT_fst w p
  · exact findLastIndexT_fst w p

theorem findSearchT_snd_le (last : Bool) (w p : Bytes) : (findSearchT last w p).2 ≤ w.length + 1 := by
  cases last
  · exact findIndexT_snd_le w p
  · exact Nat.le_of_eq (findLastIndexT_snd w p)

/-! ## the rune-offset conversion loops of `find_*` -/

/-- the body of string.go:134 / :152 / :222 / :347 / :365 / :435:
    `_, sz := utf8.DecodeRuneInString(s[n:]); if sz == 0 { return nil, nil  /  break }; n += sz`; the state is `n` -/
def findOffBody (s : Bytes) (n : Nat) : T (Ctl Nat) :=
  let sz := (decodeRune (s.drop n)).2
  if sz = 0 then pure (.brk n) else pure (.next (n + sz))

/-- string.go:134 (`findFirstBetween`), :222 (`findFirstFrom`), :347 (`findLastBetween`), :435 (`findLastFrom`):
    `n := 0; for k := 0; k < i; k++ { _, sz := utf8.DecodeRuneInString(s[n:]); if sz == 0 { return nil, nil }; n += sz }`
    and string.go:152, :365, the same loop with `break` for `return`.  `.next n`: the counter ran out, `n` is the byte
    offset of code point `i`; `.brk n`: the string ended first (at offset `n = len(s)`). -/
def findOffLoopT (s : Bytes) (i : Nat) (n : Nat) : T (Ctl Nat) :=
  forBrkT (findOffBody s) i n

theorem findOffBody_nil (s : Bytes) (n : Nat) (h : s.drop n = []) : findOffBody s n = ⟨.brk n, 0⟩ := by
  simp [findOffBody, h, decodeRune]; rfl

theorem findOffBody_cons (s : Bytes) (n : Nat) (h : s.drop n ≠ []) :
    findOffBody s n = ⟨.next (n + (decodeRune (s.drop n)).2), 0⟩ := by
  have := C09.decodeRune_pos _ h
  have e : ¬ (decodeRune (s.drop n)).2 = 0 := by omega
  simp [findOffBody, e]; rfl

/-- the loop computes the model's `runeOffset`; when it leaves early it does so at the end of the string; and it
    costs `min i (runeCount rest + 1)` iterations: the `sz == 0` exit bounds it by the string whatever `i` -/
theorem findOffLoopT_eq (s : Bytes) : ∀ (i n : Nat), n ≤ s.length →
    findOffLoopT s i n = ⟨(match runeOffset i (s.drop n) n with
        | some m => .next m
        | none => .brk s.length), min i (runeCount (s.drop n) + 1)⟩ := by
  intro i
  induction i with
  | zero => intro n _; simp [findOffLoopT, forBrkT, runeOffset]; rfl
  | succ i ih =>
    intro n hn
    unfold findOffLoopT at ih ⊢
    by_cases hne : s.drop n = []
    · have hlen : n = s.length := by
        have := congrArg List.length hne
        rw [List.length_drop] at this; simp at this; omega
      apply T.ext
      · rw [forBrkT_succ_fst, findOffBody_nil s n hne, hne, C09.runeOffset_nil]; simp [hlen]
      · rw [forBrkT_succ_snd, findOffBody_nil s n hne, hne, C09.runeCount_nil]; simp
    · have hle := C09.decodeRune_le (s.drop n)
      rw [List.length_drop] at hle
      have hrec := ih (n + (decodeRune (s.drop n)).2) (by omega)
      have hd : s.drop (n + (decodeRune (s.drop n)).2) = (s.drop n).drop (decodeRune (s.drop n)).2 := by
        rw [List.drop_drop]
      apply T.ext
      · rw [forBrkT_succ_fst, findOffBody_cons s n hne, mk_fst]
        simp only
        rw [hrec, Utf8.runeOffset_succ _ _ _ hne, hd]
      · rw [forBrkT_succ_snd, findOffBody_cons s n hne, mk_fst, mk_snd]
        simp only
        rw [hrec, C09.runeCount_step _ hne, hd]
        simp only [mk_snd]; omega

/-- the `start` argument, string.go:128-144 (and :216-232, :341-357, :429-445): `none` = the function returns null.
    The pre-check `else if i > len(s) { return nil, nil }` (string.go:130) is mirrored: the loop is only entered
    with `0 ≤ i ≤ len(s)`. -/
def startOffsetT (s : Bytes) (i : Int) : T (Option Nat) :=
  if i < 0 then pure (some 0)
  else if i > s.length then pure none
  else do
    let r ← findOffLoopT s i.toNat 0                       -- string.go:134
    pure (match r with
      | .next n => some n                                  -- `i = n`
      | .brk _ => none)                                    -- `return nil, nil`

/-- the `finish` argument, string.go:146-162 (and :359-375); `j > len(s)` is clamped before the loop -/
def finishOffsetT (s : Bytes) (j : Int) : T (Option Nat) :=
  if j < 0 then pure none
  else if j > s.length then pure (some s.length)
  else do
    let r ← findOffLoopT s j.toNat 0                       -- string.go:152
    pure (match r with
      | .next n => some n
      | .brk n => some n)                                  -- `break`, then `j = n`

/-- the conversion of `start` is the model's `startOffset` -/
theorem startOffsetT_fst (s : Bytes) (i : Int) : (startOffsetT s i).1 = startOffset s i := by
  unfold startOffsetT startOffset
  by_cases h1 : i < 0
  · simp [h1]
  · by_cases h2 : i > s.length
    · simp [h1, h2]
    · simp only [h1, h2, if_false, bind_fst, pure_fst]
      rw [findOffLoopT_eq s _ 0 (Nat.zero_le _), mk_fst, List.drop_zero]
      cases runeOffset i.toNat s 0 <;> rfl

/-- its cost, exactly: nothing outside `0 ≤ i ≤ len(s)`, else `min i (runeCount s + 1)` iterations -/
theorem startOffsetT_snd (s : Bytes) (i : Int) :
    (startOffsetT s i).2 = if i < 0 then 0 else if i > s.length then 0 else min i.toNat (runeCount s + 1) := by
  unfold startOffsetT
  by_cases h1 : i < 0
  · simp [h1]
  · by_cases h2 : i > s.length
    · simp [h1, h2]
    · simp only [h1, h2, if_false, bind_snd, pure_snd]
      rw [findOffLoopT_eq s _ 0 (Nat.zero_le _), mk_snd, List.drop_zero]; omega

/-- ∀ i : Int, at most `|s|` iterations.  THIS bound comes from the pre-check `i > len(s)` of string.go:130 alone:
    inside the loop the counter bound is `i ≤ len(s)` (`forBrkT` never runs more than its counter). -/
theorem startOffsetT_snd_le (s : Bytes) : ∀ i : Int, (startOffsetT s i).2 ≤ s.length := by
  intro i
  rw [startOffsetT_snd]
  split
  · omega
  · split <;> omega

/-- ∀ i : Int, at most `runeCount s + 1` iterations.  THIS bound comes from the `sz == 0` exit alone. -/
theorem startOffsetT_snd_le_runes (s : Bytes) : ∀ i : Int, (startOffsetT s i).2 ≤ runeCount s + 1 := by
  intro i
  rw [startOffsetT_snd]
  split
  · omega
  · split <;> omega

theorem finishOffsetT_fst (s : Bytes) (j : Int) : (finishOffsetT s j).1 = finishOffset s j := by
  unfold finishOffsetT finishOffset
  by_cases h1 : j < 0
  · simp [h1]
  · by_cases h2 : j > s.length
    · simp [h1, h2]
    · simp only [h1, h2, if_false, bind_fst, pure_fst]
      rw [findOffLoopT_eq s _ 0 (Nat.zero_le _), mk_fst, List.drop_zero]
      cases runeOffset j.toNat s 0 <;> rfl

theorem finishOffsetT_snd (s : Bytes) (j : Int) :
    (finishOffsetT s j).2 = if j < 0 then 0 else if j > s.length then 0 else min j.toNat (runeCount s + 1) := by
  unfold finishOffsetT
  by_cases h1 : j < 0
  · simp [h1]
  · by_cases h2 : j > s.length
    · simp [h1, h2]
    · simp only [h1, h2, if_false, bind_snd, pure_snd]
      rw [findOffLoopT_eq s _ 0 (Nat.zero_le _), mk_snd, List.drop_zero]; omega

/-- ∀ j : Int, at most `|s|` iterations (from the clamp `j > len(s)` of string.go:148) -/
theorem finishOffsetT_snd_le (s : Bytes) : ∀ j : Int, (finishOffsetT s j).2 ≤ s.length := by
  intro j
  rw [finishOffsetT_snd]
  split
  · omega
  · split <;> omega

/-- ∀ j : Int, at most `runeCount s + 1` iterations (from the `sz == 0` exit) -/
theorem finishOffsetT_snd_le_runes (s : Bytes) : ∀ j : Int, (finishOffsetT s j).2 ≤ runeCount s + 1 := by
  intro j
  rw [finishOffsetT_snd]
  split
  · omega
  · split <;> omega

/-- "héllo" (6 bytes, 5 code points): offset of code point 2 is byte 3, two iterations; 2^62 and -2^63 cost nothing;
    6 (≤ len, > code points) leaves through `sz == 0` in the sixth iteration -/
example : startOffsetT [0x68, 0xC3, 0xA9, 0x6C, 0x6C, 0x6F] 2 = ⟨some 3, 2⟩ := by decide
example : startOffsetT [0x68, 0xC3, 0xA9, 0x6C, 0x6C, 0x6F] 6 = ⟨none, 6⟩ := by decide
example : finishOffsetT [0x68, 0xC3, 0xA9, 0x6C, 0x6C, 0x6F] 6 = ⟨some 6, 6⟩ := by decide
example : startOffsetT [0x68, 0xC3, 0xA9, 0x6C, 0x6C, 0x6F] (2 ^ 62) = ⟨none, 0⟩ := by decide
example : startOffsetT [0x68, 0xC3, 0xA9, 0x6C, 0x6C, 0x6F] (-(2 ^ 63)) = ⟨some 0, 0⟩ := by decide
example : finishOffsetT [0x68, 0xC3, 0xA9, 0x6C, 0x6C, 0x6F] (2 ^ 63 - 1) = ⟨some 6, 0⟩ := by decide

/-! ### the offset loop without its two protections

  `findOffNoExitBody` is the loop body with the `if sz == 0 { return }` deleted.  Decoding the empty string yields size
  0, so `n` stays at `len(s)`: called without the pre-check `i > len(s)` the loop would spin `i` times.

  `startOffsetMutantT` below deletes BOTH protections AT ONCE (the pre-check string.go:130/:218 and the `sz == 0` exit).
  The two SINGLE deletions — each of which leaves the loop bounded by the string, and one of which (the exit) changes the
  result of `find_first('é', '', `2`)` — are `startOffsetNoPreT` / `startOffsetNoExitT` in
  `Jmes/Proofs/C09EMutants.lean` (`find_offset_each_guard_suffices`). -/

/-- string.go:134 WITHOUT `if sz == 0 { return nil, nil }` -/
def findOffNoExitBody (s : Bytes) (n : Nat) : T (Ctl Nat) :=
  pure (.next (n + (decodeRune (s.drop n)).2))

/-- a counted loop that never breaks costs its counter -/
theorem findOffNoExit_cost (s : Bytes) : ∀ (i n : Nat), (forBrkT (findOffNoExitBody s) i n).2 = i := by
  intro i
  induction i with
  | zero => intro n; rfl
  | succ i ih =>
    intro n
    rw [forBrkT_succ_snd]
    simp only [findOffNoExitBody, pure_fst, pure_snd, ih]; omega

/-- the conversion of `start` with NEITHER the pre-check NOR the exit — BOTH protections deleted together (for each
    deleted alone see `C09E.startOffsetNoPreT`, `C09E.startOffsetNoExitT`): -/
def startOffsetMutantT (s : Bytes) (i : Int) : T (Ctl Nat) :=
  if i < 0 then pure (.next 0) else forBrkT (findOffNoExitBody s) i.toNat 0

/-- … its cost is the magnitude of `i`: no bound in the size of the string exists (the witness here is the empty
    subject; `C09E.startOffsetMutantT_unbounded_nonempty` has the fixed non-empty subject "a", and
    `C09E.startOffsetMutantT_snd` the exact cost `i` on every string) -/
theorem startOffsetMutantT_unbounded :
    ¬ ∃ c : Nat, ∀ (s : Bytes) (i : Int), (startOffsetMutantT s i).2 ≤ c * (s.length + 1) := by
  intro ⟨c, h⟩
  have := h [] ((c + 1 : Nat) : Int)
  unfold startOffsetMutantT at this
  rw [if_neg (by omega), findOffNoExit_cost] at this
  simp at this
  omega

example : (startOffsetMutantT [0x61] (2 ^ 62)).2 = 2 ^ 62 ∧ (startOffsetT [0x61] (2 ^ 62)).2 = 0 := by
  refine ⟨?_, by decide⟩
  unfold startOffsetMutantT
  rw [if_neg (by decide), findOffNoExit_cost]; rfl

/-! ## `find_first` / `find_last` with and without offsets -/

/-- the epilogue `if r == -1 { return nil, nil }; r = utf8.RuneCountInString(s[:r+i]); return int64(r), nil`
    (string.go:52-57, :169-174, :235-240, :265-270, :382-387, :448-453) -/
def findTailT (s : Bytes) (i : Nat) (r : Option Nat) : T (Res Val) :=
  match r with
  | none => pure (.ok .null)
  | some r => do
    let c ← runeCountT (s.take (r + i))
    pure (.ok (.num (.int .i64 c)))

theorem findTailT_fst (s : Bytes) (i : Nat) (r : Option Nat) :
    (findTailT s i r).1 = (match r with
      | none => .ok .null
      | some r => .ok (runeIndexVal s (r + i))) := by
  cases r with
  | none => rfl
  | some r => simp [findTailT, runeCountT_fst, runeIndexVal]

theorem findTailT_snd_le (s : Bytes) (i : Nat) (r : Option Nat) : (findTailT s i r).2 ≤ s.length := by
  cases r with
  | none => simp [findTailT]
  | some r =>
    simp only [findTailT, bind_snd, runeCountT_snd, pure_snd]
    have := C09.runeCount_le_length _ (s.take (r + i)) (Nat.le_refl _)
    rw [List.length_take] at this
    omega

/-- size of a string argument (0 for anything else: those calls fail in the type switch, at no cost) -/
def strLen : Val → Nat
  | .str s => s.length
  | _ => 0

/-- `findFirst(value, sub)`, string.go:30-58 -/
def findFirstT (value sub : Val) : T (Res Val) :=
  argT (strArg value) fun s =>
  argT (strArg sub) fun p =>
    if s.isEmpty || p.isEmpty then pure (.ok .null)        -- string.go:47
    else do
      let r ← findIndexT s p                               -- string.go:51 strings.Index
      findTailT s 0 r                                      -- string.go:56 utf8.RuneCountInString

/-- `findLast(value, sub)`, string.go:243-271 -/
def findLastT (value sub : Val) : T (Res Val) :=
  argT (strArg value) fun s =>
  argT (strArg sub) fun p =>
    if s.isEmpty || p.isEmpty then pure (.ok .null)        -- string.go:260
    else do
      let r ← findLastIndexT s p                           -- string.go:264 strings.LastIndex
      findTailT s 0 r                                      -- string.go:269

/-- the instrumented `find_first(value, sub)` returns the model's `findFirst`, on ALL values -/
theorem findFirstT_fst (value sub : Val) : (findFirstT value sub).1 = findFirst value sub := by
  unfold findFirstT findFirst
  rw [argT_fst]
  cases strArg value with
  | ok s =>
    show (argT (strArg sub) _).1 = _
    rw [argT_fst]
    cases strArg sub with
    | ok p =>
      show (if s.isEmpty || p.isEmpty then _ else _ : T (Res Val)).1 = (if s.isEmpty || p.isEmpty then _ else _)
      cases h : (s.isEmpty || p.isEmpty)
      · simp only [Bool.false_eq_true, if_false, bind_fst, findTailT_fst, findIndexT_fst]
        cases indexOf s p <;> rfl
      · rfl
    | _ => rfl
  | _ => rfl

/-- the instrumented `find_last(value, sub)` returns the model's `findLast`, on ALL values -/
theorem findLastT_fst (value sub : Val) : (findLastT value sub).1 = findLast value sub := by
  unfold findLastT findLast
  rw [argT_fst]
  cases strArg value with
  | ok s =>
    show (argT (strArg sub) _).1 = _
    rw [argT_fst]
    cases strArg sub with
    | ok p =>
      show (if s.isEmpty || p.isEmpty then _ else _ : T (Res Val)).1 = (if s.isEmpty || p.isEmpty then _ else _)
      cases h : (s.isEmpty || p.isEmpty)
      · simp only [Bool.false_eq_true, if_false, bind_fst, findTailT_fst, findLastIndexT_fst]
        cases lastIndexOf s p <;> rfl
      · rfl
    | _ => rfl
  | _ => rfl

theorem strArg_ok (v : Val) (s : Bytes) (h : strArg v = .ok s) : v = .str s := by
  cases v <;> simp [strArg, errType] at h
  · subst h; rfl

theorem strArg_len (v : Val) (s : Bytes) (h : strArg v = .ok s) : s.length = strLen v := by
  rw [strArg_ok v s h]; rfl

/-- `find_first(value, sub)`: at most `|s| + 1` candidate offsets and `|s|` counting steps -/
theorem findFirstT_snd_le (value sub : Val) : (findFirstT value sub).2 ≤ 2 * (strLen value + 1) := by
  unfold findFirstT
  apply argT_snd_le; intro s hs
  apply argT_snd_le; intro p _
  rw [← strArg_len value s hs]
  split
  · simp
  · simp only [bind_snd]
    have := findIndexT_snd_le s p
    have := findTailT_snd_le s 0 (findIndexT s p).1
    omega

/-- `find_last(value, sub)`: `|s| + 1` candidate offsets and at most `|s|` counting steps -/
theorem findLastT_snd_le (value sub : Val) : (findLastT value sub).2 ≤ 2 * (strLen value + 1) := by
  unfold findLastT
  apply argT_snd_le; intro s hs
  apply argT_snd_le; intro p _
  rw [← strArg_len value s hs]
  split
  · simp
  · simp only [bind_snd]
    have := findLastIndexT_snd s p
    have := findTailT_snd_le s 0 (findLastIndexT s p).1
    omega

/-- find_first("héllo", "l") = 2 after 3 candidates and 2 counting steps -/
example : findFirstT (.str [0x68, 0xC3, 0xA9, 0x6C, 0x6C, 0x6F]) (.str [0x6C]) = ⟨.ok (.num (.int .i64 2)), 4 + 2⟩ :=
  T.ext (by rfl) (by decide)
example : findLastT (.str [0x68, 0xC3, 0xA9, 0x6C, 0x6C, 0x6F]) (.str [0x6C]) = ⟨.ok (.num (.int .i64 3)), 7 + 3⟩ :=
  T.ext (by rfl) (by decide)
example : findFirstT (.bool true) (.str [0x6C]) = ⟨errType, 0⟩ := rfl

/-- string.go:128-174 / :216-240 after the argument decoding, with one offset -/
def findFromCoreT (last : Bool) (s p : Bytes) (i : Int) : T (Res Val) := do
  let o ← startOffsetT s i                                 -- string.go:216-232 (loop :222) / :429-445 (loop :435)
  match o with
  | none => pure (.ok .null)
  | some i => do
    let r ← findSearchT last (s.drop i) p                  -- string.go:234 strings.Index / :447 strings.LastIndex
    findTailT s i r                                        -- string.go:239 / :452

/-- `findFirstFrom` (string.go:177-241, `last = false`) and `findLastFrom` (string.go:390-454, `last = true`) -/
def findFromT (last : Bool) (value sub start : Val) : T (Res Val) :=
  argT (strArg value) fun s =>
  argT (strArg sub) fun p =>
  argT (intArg start) fun i =>
    findFromCoreT last s p i

theorem findFromCoreT_fst (last : Bool) (s p : Bytes) (i : Int) :
    (findFromCoreT last s p i).1 = (match startOffset s i with
      | none => .ok .null
      | some i =>
        match (if last then lastIndexOf (s.drop i) p else indexOf (s.drop i) p) with
        | none => .ok .null
        | some r => .ok (runeIndexVal s (r + i))) := by
  simp only [findFromCoreT, bind_fst, startOffsetT_fst]
  cases startOffset s i with
  | none => rfl
  | some i => simp only [bind_fst, findTailT_fst, findSearchT_fst]

/-- ∀ i : Int: at most `|s|` offset iterations, `|s| + 1` candidates, `|s|` counting steps -/
theorem findFromCoreT_snd_le (last : Bool) (s p : Bytes) : ∀ i : Int,
    (findFromCoreT last s p i).2 ≤ 3 * (s.length + 1) := by
  intro i
  simp only [findFromCoreT, bind_snd]
  have h1 := startOffsetT_snd_le s i
  cases (startOffsetT s i).1 with
  | none => simp only [pure_snd]; omega
  | some k =>
    simp only [bind_snd]
    have h2 := findSearchT_snd_le last (s.drop k) p
    have h3 := findTailT_snd_le s k (findSearchT last (s.drop k) p).1
    rw [List.length_drop] at h2
    omega

/-- the instrumented `find_first(value, sub, start)` / `find_last(value, sub, start)` return the model's
    `findFrom last`, on ALL argument values -/
theorem findFromT_fst (last : Bool) (value sub start : Val) :
    (findFromT last value sub start).1 = findFrom last value sub start := by
  unfold findFromT findFrom
  rw [argT_fst]
  cases strArg value with
  | ok s =>
    show (argT (strArg sub) _).1 = _
    rw [argT_fst]
    cases strArg sub with
    | ok p =>
      show (argT (intArg start) _).1 = _
      rw [argT_fst]
      cases intArg start with
      | ok i =>
        show (findFromCoreT last s p i).1 = _
        rw [findFromCoreT_fst]
        simp only [bind, Res.bind, pure]
        cases startOffset s i with
        | none => rfl
        | some k =>
          simp only
          cases (if last then lastIndexOf (s.drop k) p else indexOf (s.drop k) p) <;> rfl
      | _ => rfl
    | _ => rfl
  | _ => rfl

theorem findFirstFromT_fst (value sub start : Val) :
    (findFromT false value sub start).1 = findFirstFrom value sub start := findFromT_fst false value sub start
theorem findLastFromT_fst (value sub start : Val) :
    (findFromT true value sub start).1 = findLastFrom value sub start := findFromT_fst true value sub start

/-- `find_first/find_last(value, sub, start)`, ANY three values — in particular any integer `start`, 2^62 or -2^63:
    at most `3·(|value| + 1)` ticks (bytes; candidate offsets as the unit of the search) -/
theorem findFromT_snd_le (last : Bool) (value sub : Val) : ∀ start : Val,
    (findFromT last value sub start).2 ≤ 3 * (strLen value + 1) := by
  intro start
  unfold findFromT
  apply argT_snd_le; intro s hs
  apply argT_snd_le; intro p _
  apply argT_snd_le; intro i _
  rw [← strArg_len value s hs]
  exact findFromCoreT_snd_le last s p i

/-- find_first("héllo", "l", 3) = 3: 3 offset iterations, 1 candidate, 3 counting steps; start = 2^62: nothing -/
example : findFromT false (.str [0x68, 0xC3, 0xA9, 0x6C, 0x6C, 0x6F]) (.str [0x6C]) (.num (.int .i64 3))
    = ⟨.ok (.num (.int .i64 3)), 3 + (1 + 3)⟩ := T.ext (by rfl) (by decide)
example : findFromT false (.str [0x68, 0xC3, 0xA9, 0x6C, 0x6C, 0x6F]) (.str [0x6C]) (.num (.int .i64 (2 ^ 62)))
    = ⟨.ok .null, 0⟩ := T.ext (by rfl) (by decide)
example : findFromT true (.str [0x68, 0xC3, 0xA9, 0x6C, 0x6C, 0x6F]) (.str [0x6C]) (.num (.int .i64 (-(2 ^ 63))))
    = ⟨.ok (.num (.int .i64 3)), 7 + 3⟩ := T.ext (by rfl) (by decide)

/-- the decoding of `start` in `findFirstBetween` / `findLastBetween` (string.go:77-104, :290-317), which looks at
    `finish` when `start` is a non-integral number: the model's expression, verbatim -/
def findBetweenStartArg (start finish : Val) : Res Int :=
  match toInt start with
  | .int i => (.ok i : Res Int)
  | .notNum => errType
  | .notInt =>
    (match toInt finish with
     | .notNum => errType
     | .panic => .panic "Decimal(NaN).Int64()"
     | .unmodelled => .unmodelled "strconv.ParseFloat on a hexadecimal literal"
     | _ => (match toDecimal start with
       | none => errType
       | some _ => errValue))
  | .panic => .panic "Decimal(NaN).Int64()"
  | .unmodelled => .unmodelled "strconv.ParseFloat on a hexadecimal literal"

/-- string.go:128-174 / :341-387 after the argument decoding, with two offsets -/
def findBetweenCoreT (last : Bool) (s p : Bytes) (i j : Int) : T (Res Val) := do
  let o ← startOffsetT s i                                 -- string.go:128-144 (loop :134) / :341-357 (loop :347)
  match o with
  | none => pure (.ok .null)
  | some i => do
    let o ← finishOffsetT s j                              -- string.go:146-162 (loop :152) / :359-375 (loop :365)
    match o with
    | none => pure (.ok .null)
    | some j =>
      if i > j then pure (.ok .null)                       -- string.go:164 / :377
      else do
        let r ← findSearchT last ((s.drop i).take (j - i)) p   -- string.go:168 / :381 on `s[i:j]`
        findTailT s i r                                    -- string.go:173 / :386

/-- `findFirstBetween` (string.go:60-175, `last = false`) and `findLastBetween` (string.go:273-388, `last = true`) -/
def findBetweenT (last : Bool) (value sub start finish : Val) : T (Res Val) :=
  argT (strArg value) fun s =>
  argT (strArg sub) fun p =>
  argT (findBetweenStartArg start finish) fun i =>
  argT (intArg finish) fun j =>
    findBetweenCoreT last s p i j

theorem findBetweenCoreT_fst (last : Bool) (s p : Bytes) (i j : Int) :
    (findBetweenCoreT last s p i j).1 = (match startOffset s i with
      | none => .ok .null
      | some i =>
        match finishOffset s j with
        | none => .ok .null
        | some j =>
          if i > j then .ok .null
          else
            match (if last then lastIndexOf ((s.drop i).take (j - i)) p else indexOf ((s.drop i).take (j - i)) p) with
            | none => .ok .null
            | some r => .ok (runeIndexVal s (r + i))) := by
  simp only [findBetweenCoreT, bind_fst, startOffsetT_fst]
  cases startOffset s i with
  | none => rfl
  | some i =>
    simp only [bind_fst, finishOffsetT_fst]
    cases finishOffset s j with
    | none => rfl
    | some j =>
      simp only
      by_cases h : i > j
      · simp only [h, if_true]; rfl
      · simp only [h, if_false, bind_fst, findTailT_fst, findSearchT_fst]

/-- ∀ i j : Int: at most `|s|` iterations for each offset, `|s| + 1` candidates, `|s|` counting steps -/
theorem findBetweenCoreT_snd_le (last : Bool) (s p : Bytes) : ∀ i j : Int,
    (findBetweenCoreT last s p i j).2 ≤ 4 * (s.length + 1) := by
  intro i j
  simp only [findBetweenCoreT, bind_snd]
  have h1 := startOffsetT_snd_le s i
  cases (startOffsetT s i).1 with
  | none => simp only [pure_snd]; omega
  | some a =>
    simp only [bind_snd]
    have h2 := finishOffsetT_snd_le s j
    cases (finishOffsetT s j).1 with
    | none => simp only [pure_snd]; omega
    | some b =>
      simp only
      by_cases h : a > b
      · simp only [h, if_true, pure_snd]; omega
      · simp only [h, if_false, bind_snd]
        have h3 := findSearchT_snd_le last ((s.drop a).take (b - a)) p
        have h4 := findTailT_snd_le s a (findSearchT last ((s.drop a).take (b - a)) p).1
        have h5 := C09.find_window_le s a b
        omega

/-- the instrumented `find_first(value, sub, start, finish)` / `find_last(…)` return the model's `findBetween last`,
    on ALL argument values -/
theorem findBetweenT_fst (last : Bool) (value sub start finish : Val) :
    (findBetweenT last value sub start finish).1 = findBetween last value sub start finish := by
  unfold findBetweenT findBetween
  rw [argT_fst]
  cases strArg value with
  | ok s =>
    show (argT (strArg sub) _).1 = _
    rw [argT_fst]
    cases strArg sub with
    | ok p =>
      show (argT (findBetweenStartArg start finish) _).1 = (findBetweenStartArg start finish >>= _)
      rw [argT_fst]
      cases findBetweenStartArg start finish with
      | ok i =>
        show (argT (intArg finish) _).1 = (intArg finish >>= _)
        rw [argT_fst]
        cases intArg finish with
        | ok j =>
          show (findBetweenCoreT last s p i j).1 = _
          rw [findBetweenCoreT_fst]
          simp only [bind, Res.bind, pure]
          cases startOffset s i with
          | none => rfl
          | some a =>
            simp only
            cases finishOffset s j with
            | none => rfl
            | some b =>
              simp only
              by_cases h : a > b
              · simp only [h, if_true]
              · simp only [h, if_false]
                cases (if last then lastIndexOf ((s.drop a).take (b - a)) p
                  else indexOf ((s.drop a).take (b - a)) p) <;> rfl
        | _ => rfl
      | _ => rfl
    | _ => rfl
  | _ => rfl

theorem findFirstBetweenT_fst (value sub start finish : Val) :
    (findBetweenT false value sub start finish).1 = findFirstBetween value sub start finish :=
  findBetweenT_fst false value sub start finish
theorem findLastBetweenT_fst (value sub start finish : Val) :
    (findBetweenT true value sub start finish).1 = findLastBetween value sub start finish :=
  findBetweenT_fst true value sub start finish

/-- `find_first/find_last(value, sub, start, finish)`, ANY four values — any integers `start`, `finish`, 2^62 or
    -2^63: at most `4·(|value| + 1)` ticks (bytes; candidate offsets as the unit of the search) -/
theorem findBetweenT_snd_le (last : Bool) (value sub : Val) : ∀ start finish : Val,
    (findBetweenT last value sub start finish).2 ≤ 4 * (strLen value + 1) := by
  intro start finish
  unfold findBetweenT
  apply argT_snd_le; intro s hs
  apply argT_snd_le; intro p _
  apply argT_snd_le; intro i _
  apply argT_snd_le; intro j _
  rw [← strArg_len value s hs]
  exact findBetweenCoreT_snd_le last s p i j

/-- the same, spelled for the integers: ∀ i j : Int -/
theorem findBetweenT_snd_le_int (last : Bool) (s p : Bytes) : ∀ i j : Int,
    (findBetweenT last (.str s) (.str p) (.num (.int .i64 i)) (.num (.int .i64 j))).2 ≤ 4 * (s.length + 1) :=
  fun i j => findBetweenT_snd_le last (.str s) (.str p) _ _

theorem findFromT_snd_le_int (last : Bool) (s p : Bytes) : ∀ i : Int,
    (findFromT last (.str s) (.str p) (.num (.int .i64 i))).2 ≤ 3 * (s.length + 1) :=
  fun i => findFromT_snd_le last (.str s) (.str p) _

/-- find_first("héllo", "l", 1, 4) = 2: 1 + 4 offset iterations, 2 candidates in the window "éll", 2 counting steps;
    finish = 2^63 - 1 is clamped without a loop; start = 2^62 returns null before any loop; a non-integral start
    with a non-number finish is the model's type error at no cost -/
example : findBetweenT false (.str [0x68, 0xC3, 0xA9, 0x6C, 0x6C, 0x6F]) (.str [0x6C]) (.num (.int .i64 1))
    (.num (.int .i64 4)) = ⟨.ok (.num (.int .i64 2)), 1 + (4 + (3 + 2))⟩ := T.ext (by rfl) (by decide)
example : findBetweenT true (.str [0x68, 0xC3, 0xA9, 0x6C, 0x6C, 0x6F]) (.str [0x6C]) (.num (.int .i64 (-(2 ^ 63))))
    (.num (.int .i64 (2 ^ 63 - 1))) = ⟨.ok (.num (.int .i64 3)), 0 + (0 + (7 + 3))⟩ := T.ext (by rfl) (by decide)
example : findBetweenT false (.str [0x68, 0xC3, 0xA9, 0x6C, 0x6C, 0x6F]) (.str [0x6C]) (.num (.int .i64 (2 ^ 62)))
    (.num (.int .i64 (2 ^ 62))) = ⟨.ok .null, 0⟩ := T.ext (by rfl) (by decide)
example : findBetweenT false (.str [0x61]) (.str [0x61]) (.str []) (.num (.int .i64 1)) = ⟨errType, 0⟩ :=
  T.ext (by rfl) (by decide)

/-! ## `pad_left` / `pad_right` and their space variants -/

/-- the body of string.go:562 / :630: `b.WriteString(p); n--`; the state is `(n, b)` -/
def padFillBody (p : Bytes) (st : Nat × Bytes) : T (Nat × Bytes) := do
  let b ← writeT st.2 p
  pure (st.1 - 1, b)

/-- string.go:562 and :630 `for n > 0 { b.WriteString(p); n-- }` (and string.go:682, :736 with
    `b.WriteByte(' ')`, i.e. `p = " "`).  A guard-only loop: the counter bound `n` of `forT` is never the reason it
    stops (`padFillLoop` is proved for every bound `f ≥ n`). -/
def padFillT (n : Nat) (p b : Bytes) : T (Nat × Bytes) :=
  forT (fun st => decide (st.1 > 0)) (padFillBody p) n (n, b)

theorem padFillBody_eq (p : Bytes) (n : Nat) (b : Bytes) : padFillBody p (n, b) = ⟨(n - 1, b ++ p), p.length⟩ := by
  apply T.ext <;> simp [padFillBody]

/-- the fill loop, for ALL `n` and every counter bound `f ≥ n`: `n` copies of `p` are appended, at `n·(1 + |p|)`
    ticks — it is the guard `n > 0` that ends the loop -/
theorem padFillLoop (p : Bytes) : ∀ (f n : Nat) (b : Bytes), n ≤ f →
    forT (fun (st : Nat × Bytes) => decide (st.1 > 0)) (padFillBody p) f (n, b)
      = ⟨(0, b ++ (List.replicate n p).foldr (· ++ ·) []), n * (1 + p.length)⟩ := by
  intro f
  induction f with
  | zero =>
    intro n b h
    have : n = 0 := by omega
    subst this; simp [forT]; rfl
  | succ f ih =>
    intro n b h
    cases n with
    | zero => rw [forT_stop _ _ _ _ (by simp)]; simp; rfl
    | succ n =>
      have hg : (fun (st : Nat × Bytes) => decide (st.1 > 0)) (n + 1, b) = true := by simp
      apply T.ext
      · rw [forT_succ_fst (fun (st : Nat × Bytes) => decide (st.1 > 0)) _ _ _ hg, padFillBody_eq, mk_fst,
          Nat.add_sub_cancel, ih n _ (by omega)]
        simp [List.replicate_succ]
      · rw [forT_succ_snd (fun (st : Nat × Bytes) => decide (st.1 > 0)) _ _ _ hg, padFillBody_eq, mk_fst, mk_snd,
          Nat.add_sub_cancel, ih n _ (by omega)]
        simp only [mk_snd, Nat.succ_mul]
        omega

/-- for ALL `n` (no `padLimit` here): the builder receives `n` copies of `p` … -/
theorem padFillT_fst (n : Nat) (p b : Bytes) :
    (padFillT n p b).1.2 = b ++ (List.replicate n p).foldr (· ++ ·) [] := by
  unfold padFillT; rw [padFillLoop p n n b (Nat.le_refl _)]
/-- … at `n·(1 + |p|)` ticks: one per iteration, `|p|` per write -/
theorem padFillT_snd (n : Nat) (p b : Bytes) : (padFillT n p b).2 = n * (1 + p.length) := by
  unfold padFillT; rw [padFillLoop p n n b (Nat.le_refl _)]

example : padFillT 3 [0x2E] [0x61] = ⟨(0, [0x61, 0x2E, 0x2E, 0x2E]), 6⟩ := by decide
example : (padFillT (2 ^ 62) [0x2E] []).2 = 2 ^ 62 * 2 := by rw [padFillT_snd]; rfl

/-- the two ways of assembling the result: string.go:560-568 (`padLeft`: fill, then `b.WriteString(s)`) and
    string.go:627-635 (`padRight`: `b.WriteString(s)`, then fill) -/
def padBuildT (left : Bool) (n : Nat) (s p : Bytes) : T Bytes :=
  if left then do
    let st ← padFillT n p []                               -- string.go:562 (:682)
    writeT st.2 s                                          -- string.go:567 (:687)
  else do
    let b ← writeT [] s                                    -- string.go:628 (:734)
    let st ← padFillT n p b                                -- string.go:630 (:736)
    pure st.2

theorem padBuildT_fst (left : Bool) (n : Nat) (s p : Bytes) :
    (padBuildT left n s p).1 = (if left then (List.replicate n p).foldr (· ++ ·) [] ++ s
      else s ++ (List.replicate n p).foldr (· ++ ·) []) := by
  cases left <;> simp [padBuildT, padFillT_fst]

theorem padBuildT_snd (left : Bool) (n : Nat) (s p : Bytes) :
    (padBuildT left n s p).2 = n * (1 + p.length) + s.length := by
  cases left <;> simp [padBuildT, padFillT_snd] <;> omega

/-- `padLeft` / `padRight` after the argument decoding: string.go:543-568 / :610-635.
    The model declines (`unmodelled`) to materialise more than `padLimit` copies; the instrumented function runs the
    Go loop for every `n` (and is charged for it) and then returns what the model returns. -/
def padWithT (left : Bool) (s : Bytes) (w : Int) (p : Bytes) (orig : Val) : T (Res Val) :=
  if w < 0 then pure errValue                              -- string.go:543
  else do
    let cp ← runeCountT p                                  -- string.go:549
    if cp ≠ 1 then pure errValue
    else do
      let cs ← runeCountT s                                -- string.go:555
      let n := w - cs
      if n ≤ 0 then pure (.ok orig)                        -- string.go:556
      else do
        let r ← padBuildT left n.toNat s p                 -- string.go:560-568
        pure (if n.toNat > padLimit then .unmodelled "padding wider than the model materialises"
              else .ok (.str r))

/-- `padSpaceLeft` / `padSpaceRight` after the argument decoding: string.go:669-688 / :722-741 — no pad argument, no
    `RuneCountInString(p)`; `b.WriteByte(' ')` is a one-byte write -/
def padSpaceWithT (left : Bool) (s : Bytes) (w : Int) (orig : Val) : T (Res Val) :=
  if w < 0 then pure errValue                              -- string.go:669
  else do
    let cs ← runeCountT s                                  -- string.go:675
    let n := w - cs
    if n ≤ 0 then pure (.ok orig)                          -- string.go:676
    else do
      let r ← padBuildT left n.toNat s [0x20]              -- string.go:680-688
      pure (if n.toNat > padLimit then .unmodelled "padding wider than the model materialises"
            else .ok (.str r))

/-- the instrumented padding returns exactly the model's `padWith`, for all `w : Int` and all bytes -/
theorem padWithT_fst (left : Bool) (s : Bytes) (w : Int) (p : Bytes) (orig : Val) :
    (padWithT left s w p orig).1 = padWith left s w p orig := by
  unfold padWithT padWith
  by_cases h1 : w < 0
  · simp only [h1, if_true]; rfl
  · simp only [h1, if_false, bind_fst, runeCountT_fst]
    by_cases h2 : runeCount p = 1
    rotate_left
    · simp only [h2, ne_eq, not_false_eq_true, if_true]; rfl
    · simp only [h2, ne_eq, not_true_eq_false, if_false, bind_fst, runeCountT_fst]
      by_cases h3 : w - (runeCount s : Int) ≤ 0
      · simp only [h3, if_true]; rfl
      · simp only [h3, if_false, bind_fst, pure_fst, padBuildT_fst]

theorem padSpaceWithT_fst (left : Bool) (s : Bytes) (w : Int) (orig : Val) :
    (padSpaceWithT left s w orig).1 = padWith left s w [0x20] orig := by
  unfold padSpaceWithT padWith
  have e : runeCount [0x20] = 1 := by decide
  by_cases h1 : w < 0
  · simp only [h1, if_true]; rfl
  · simp only [h1, if_false, bind_fst, runeCountT_fst, e, ne_eq, not_true_eq_false]
    by_cases h3 : w - (runeCount s : Int) ≤ 0
    · simp only [h3, if_true]; rfl
    · simp only [h3, if_false, bind_fst, pure_fst, padBuildT_fst]

/-- the cost of padding, exactly: the two counting passes, and — only when the string has to grow — `n` iterations
    and the bytes of the result, `n = w - runeCount s` -/
theorem padWithT_snd (left : Bool) (s : Bytes) (w : Int) (p : Bytes) (orig : Val) :
    (padWithT left s w p orig).2 =
      if w < 0 then 0
      else runeCount p + (if runeCount p ≠ 1 then 0
        else runeCount s + (if w - (runeCount s : Int) ≤ 0 then 0
          else (w - (runeCount s : Int)).toNat * (1 + p.length) + s.length)) := by
  unfold padWithT
  by_cases h1 : w < 0
  · simp only [h1, if_true]; rfl
  · simp only [h1, if_false, bind_snd, bind_fst, runeCountT_fst, runeCountT_snd]
    by_cases h2 : runeCount p = 1
    rotate_left
    · simp only [h2, ne_eq, not_false_eq_true, if_true]; rfl
    · simp only [h2, ne_eq, not_true_eq_false, if_false, bind_snd, bind_fst, runeCountT_fst, runeCountT_snd]
      by_cases h3 : w - (runeCount s : Int) ≤ 0
      · simp only [h3, if_true]; rfl
      · simp only [h3, if_false, bind_snd, pure_snd, padBuildT_snd]; omega

theorem padSpaceWithT_snd (left : Bool) (s : Bytes) (w : Int) (orig : Val) :
    (padSpaceWithT left s w orig).2 =
      if w < 0 then 0
      else runeCount s + (if w - (runeCount s : Int) ≤ 0 then 0
          else (w - (runeCount s : Int)).toNat * 2 + s.length) := by
  unfold padSpaceWithT
  by_cases h1 : w < 0
  · simp only [h1, if_true]; rfl
  · simp only [h1, if_false, bind_snd, bind_fst, runeCountT_fst, runeCountT_snd]
    by_cases h3 : w - (runeCount s : Int) ≤ 0
    · simp only [h3, if_true]; rfl
    · simp only [h3, if_false, bind_snd, pure_snd, padBuildT_snd, List.length_singleton]; omega

/-- a decoding step consumes at most four bytes -/
theorem padDecodeRune_le4 (s : Bytes) : (decodeRune s).2 ≤ 4 := by
  match s with
  | [] => simp [decodeRune]
  | b0 :: rest =>
    simp only [decodeRune]
    split
    · simp
    · split
      · split
        · apply C09.snd_ite_le <;> simp
        · simp
      · split
        · split
          · apply C09.snd_ite_le <;> simp
          · simp
        · split
          · split
            · apply C09.snd_ite_le <;> simp
            · simp
          · simp

/-- a pad string that passes the check of string.go:549 has at most four bytes -/
theorem padOneRune_length (p : Bytes) (h : runeCount p = 1) : p.length ≤ 4 := by
  have hne : p ≠ [] := by intro c; subst c; simp [C09.runeCount_nil] at h
  have h1 := C09.runeCount_step p hne
  have h2 : runeCount (p.drop (decodeRune p).2) = 0 := by omega
  have h3 := congrArg List.length (C09.runeCount_eq_zero _ h2)
  rw [List.length_drop] at h3
  have := padDecodeRune_le4 p
  simp at h3; omega

/-- `padWith`, ALL `w : Int`, all bytes: the ticks are linear in the requested width plus the sizes of the inputs,
    i.e. linear in the size of the RESULT (which has `max w (runeCount s)` code points on valid UTF-8:
    `C09.padWith_codepoints`; `|s| + (w - runeCount s)·|p|` bytes: `C09.padWith_size`).  HERE the integer argument
    legitimately IS the size of the result — this is the one operation of the language where the magnitude of an
    integer shows up in the cost, because it shows up in the output. -/
theorem padWithT_snd_le (left : Bool) (s p : Bytes) (orig : Val) : ∀ w : Int,
    (padWithT left s w p orig).2 ≤ 5 * (w.toNat + s.length + p.length + 1) := by
  intro w
  rw [padWithT_snd]
  have hp := C09.runeCount_le_length _ p (Nat.le_refl _)
  have hs := C09.runeCount_le_length _ s (Nat.le_refl _)
  split
  · omega
  · split
    · omega
    · rename_i h2
      have h4 := padOneRune_length p (by omega)
      split
      · omega
      · have h5 : (w - (runeCount s : Int)).toNat ≤ w.toNat := by omega
        have h6 : (w - (runeCount s : Int)).toNat * (1 + p.length) ≤ w.toNat * 5 :=
          Nat.mul_le_mul h5 (by omega)
        omega

/-- when nothing has to be added (`w ≤ runeCount s`, including every negative `w` and -2^63) the cost is the two
    counting passes only: `≤ |s| + |p|` -/
theorem padWithT_snd_le_small (left : Bool) (s p : Bytes) (orig : Val) (w : Int) (h : w ≤ runeCount s) :
    (padWithT left s w p orig).2 ≤ s.length + p.length := by
  rw [padWithT_snd]
  have hp := C09.runeCount_le_length _ p (Nat.le_refl _)
  have hs := C09.runeCount_le_length _ s (Nat.le_refl _)
  split
  · omega
  · split
    · omega
    · rw [if_pos (by omega)]; omega

/-- in terms of the result: whenever the model returns a string `b`, the ticks are at most `|p| + |s|` (counting)
    plus the iterations `w - runeCount s` plus the bytes of `b` -/
theorem padWithT_snd_le_result (left : Bool) (s p : Bytes) (w : Int) (b : Bytes)
    (h : padWith left s w p (.str s) = .ok (.str b)) :
    (padWithT left s w p (.str s)).2 ≤ p.length + s.length + (w - (runeCount s : Int)).toNat + b.length := by
  obtain ⟨b', hb, hl⟩ := C09.padWith_size left s p w _ h
  cases hb
  rw [padWithT_snd, hl]
  have hp := C09.runeCount_le_length _ p (Nat.le_refl _)
  have hs := C09.runeCount_le_length _ s (Nat.le_refl _)
  unfold Cost.padCost
  split
  · omega
  · split
    · omega
    · split
      · omega
      · rw [Nat.mul_add, Nat.mul_one]; omega

theorem padSpaceWithT_snd_le (left : Bool) (s : Bytes) (orig : Val) : ∀ w : Int,
    (padSpaceWithT left s w orig).2 ≤ 2 * (w.toNat + s.length + 1) := by
  intro w
  rw [padSpaceWithT_snd]
  have hs := C09.runeCount_le_length _ s (Nat.le_refl _)
  split
  · omega
  · split <;> omega

theorem padSpaceWithT_snd_le_small (left : Bool) (s : Bytes) (orig : Val) (w : Int) (h : w ≤ runeCount s) :
    (padSpaceWithT left s w orig).2 ≤ s.length := by
  rw [padSpaceWithT_snd]
  have hs := C09.runeCount_le_length _ s (Nat.le_refl _)
  split
  · omega
  · rw [if_pos (by omega)]; omega

/-- pad_left("a", 5, ".") = "....a": 1 + 1 counting steps, 4 iterations writing 1 byte each, 1 byte for `s` -/
example : padWithT true [0x61] 5 [0x2E] (.str [0x61]) = ⟨.ok (.str [0x2E, 0x2E, 0x2E, 0x2E, 0x61]), 1 + 1 + 4 * 2 + 1⟩ :=
  T.ext (by rfl) (by decide)
example : padWithT false [0x61] (-(2 ^ 63)) [0x2E] (.str [0x61]) = ⟨errValue, 0⟩ := T.ext (by rfl) (by decide)
example : (padWithT true [0x61] 0 [0x2E] (.str [0x61])).2 = 2 := by decide
/-- a width of 2^62 asks for 2^62 - 1 pad characters: the model declines, the cost is that of the 2^62 - 1 writes -/
example : (padWithT true [0x61] (2 ^ 62) [0x2E] (.str [0x61])).1 = .unmodelled "padding wider than the model materialises" ∧
    (padWithT true [0x61] (2 ^ 62) [0x2E] (.str [0x61])).2 = 1 + (1 + ((2 ^ 62 - 1) * 2 + 1)) := by
  refine ⟨?_, ?_⟩
  · rw [padWithT_fst]; rfl
  · rw [padWithT_snd]; decide

/-- `padLeft` (string.go:504-569, `left = true`) and `padRight` (string.go:571-636, `left = false`) -/
def padT (left : Bool) (value width pad : Val) : T (Res Val) :=
  argT (strArg value) fun s =>
  argT (strArg pad) fun p =>
  argT (intArg width) fun w =>
    padWithT left s w p value

/-- `padSpaceLeft` (string.go:638-689, `left = true`) and `padSpaceRight` (string.go:691-742, `left = false`) -/
def padSpaceT (left : Bool) (value width : Val) : T (Res Val) :=
  argT (strArg value) fun s =>
  argT (intArg width) fun w =>
    padSpaceWithT left s w value

theorem padT_fst_aux (left : Bool) (value width pad : Val) :
    (padT left value width pad).1 = (do
      let s ← strArg value
      let p ← strArg pad
      let w ← intArg width
      padWith left s w p value) := by
  unfold padT
  rw [argT_fst]
  cases strArg value with
  | ok s =>
    show (argT (strArg pad) _).1 = (strArg pad >>= _)
    rw [argT_fst]
    cases strArg pad with
    | ok p =>
      show (argT (intArg width) _).1 = (intArg width >>= _)
      rw [argT_fst]
      cases intArg width with
      | ok w => exact padWithT_fst left s w p value
      | _ => rfl
    | _ => rfl
  | _ => rfl

theorem padSpaceT_fst_aux (left : Bool) (value width : Val) :
    (padSpaceT left value width).1 = (do
      let s ← strArg value
      let w ← intArg width
      padWith left s w [0x20] value) := by
  unfold padSpaceT
  rw [argT_fst]
  cases strArg value with
  | ok s =>
    show (argT (intArg width) _).1 = (intArg width >>= _)
    rw [argT_fst]
    cases intArg width with
    | ok w => exact padSpaceWithT_fst left s w value
    | _ => rfl
  | _ => rfl

/-- the instrumented `pad_left` returns the model's `padLeft`, on ALL argument values -/
theorem padLeftT_fst (value width pad : Val) : (padT true value width pad).1 = padLeft value width pad :=
  padT_fst_aux true value width pad
/-- the instrumented `pad_right` returns the model's `padRight`, on ALL argument values -/
theorem padRightT_fst (value width pad : Val) : (padT false value width pad).1 = padRight value width pad :=
  padT_fst_aux false value width pad
/-- the instrumented one-argument `pad_left` (spaces) returns the model's `padSpaceLeft` -/
theorem padSpaceLeftT_fst (value width : Val) : (padSpaceT true value width).1 = padSpaceLeft value width :=
  padSpaceT_fst_aux true value width
/-- the instrumented one-argument `pad_right` (spaces) returns the model's `padSpaceRight` -/
theorem padSpaceRightT_fst (value width : Val) : (padSpaceT false value width).1 = padSpaceRight value width :=
  padSpaceT_fst_aux false value width

/-- the requested width as a natural number (0 when the argument is not an integer: those calls fail at no cost) -/
def padWidth (width : Val) : Nat :=
  match intArg width with
  | .ok w => w.toNat
  | _ => 0

/-- `pad_left/pad_right(value, width, pad)`, ANY three values: the ticks are at most
    `5·(width + |value| + |pad| + 1)` — linear in the size of the RESULT, whose number of code points the width is
    (`C09.padWith_codepoints`).  The width is the one integer of the language that legitimately appears in a cost
    bound, because it is the size of the output. -/
theorem padT_snd_le (left : Bool) (value pad : Val) : ∀ width : Val,
    (padT left value width pad).2 ≤ 5 * (padWidth width + strLen value + strLen pad + 1) := by
  intro width
  unfold padT
  apply argT_snd_le; intro s hs
  apply argT_snd_le; intro p hp
  apply argT_snd_le; intro w hw
  rw [← strArg_len value s hs, ← strArg_len pad p hp]
  have : padWidth width = w.toNat := by unfold padWidth; rw [hw]
  rw [this]
  exact padWithT_snd_le left s p value w

/-- spelled for an integer width: ∀ w : Int -/
theorem padT_snd_le_int (left : Bool) (s p : Bytes) : ∀ w : Int,
    (padT left (.str s) (.num (.int .i64 w)) (.str p)).2 ≤ 5 * (w.toNat + s.length + p.length + 1) :=
  fun w => padT_snd_le left (.str s) (.str p) (.num (.int .i64 w))

/-- no growth, no loop: for `w ≤ runeCount s` (every negative width, -2^63) at most `|s| + |p|` ticks -/
theorem padT_snd_le_small (left : Bool) (s p : Bytes) (w : Int) (h : w ≤ runeCount s) :
    (padT left (.str s) (.num (.int .i64 w)) (.str p)).2 ≤ s.length + p.length :=
  padWithT_snd_le_small left s p _ w h

/-- `pad_left/pad_right(value, width)`: at most `2·(width + |value| + 1)` ticks -/
theorem padSpaceT_snd_le (left : Bool) (value : Val) : ∀ width : Val,
    (padSpaceT left value width).2 ≤ 2 * (padWidth width + strLen value + 1) := by
  intro width
  unfold padSpaceT
  apply argT_snd_le; intro s hs
  apply argT_snd_le; intro w hw
  rw [← strArg_len value s hs]
  have : padWidth width = w.toNat := by unfold padWidth; rw [hw]
  rw [this]
  exact padSpaceWithT_snd_le left s value w

theorem padSpaceT_snd_le_int (left : Bool) (s : Bytes) : ∀ w : Int,
    (padSpaceT left (.str s) (.num (.int .i64 w))).2 ≤ 2 * (w.toNat + s.length + 1) :=
  fun w => padSpaceT_snd_le left (.str s) (.num (.int .i64 w))

theorem padSpaceT_snd_le_small (left : Bool) (s : Bytes) (w : Int) (h : w ≤ runeCount s) :
    (padSpaceT left (.str s) (.num (.int .i64 w))).2 ≤ s.length :=
  padSpaceWithT_snd_le_small left s _ w h

/-- pad_right("hé", 4, "é") = "hééé" (3 + 2·2 bytes): counting 1 + 2, two iterations of 1 + 2 ticks, 3 bytes of `s` -/
example : padT false (.str [0x68, 0xC3, 0xA9]) (.num (.int .i64 4)) (.str [0xC3, 0xA9])
    = ⟨.ok (.str [0x68, 0xC3, 0xA9, 0xC3, 0xA9, 0xC3, 0xA9]), 1 + (2 + (2 * 3 + 3))⟩ := T.ext (by rfl) (by decide)
example : padT true (.str [0x68]) (.num (.int .i64 (-(2 ^ 63)))) (.str [0x2E]) = ⟨errValue, 0⟩ :=
  T.ext (by rfl) (by decide)
example : padSpaceT true (.str [0x68]) (.num (.int .i64 3)) = ⟨.ok (.str [0x20, 0x20, 0x68]), 1 + (2 * 2 + 1)⟩ :=
  T.ext (by rfl) (by decide)
example : padWidth (.num (.int .i64 (2 ^ 62))) = 2 ^ 62 := by rfl

/-! ### the fill loop is the ONLY place where the width is spent

  Without the early return `if n <= 0 { return value, nil }` nothing changes (the loop guard `n > 0` fails at once);
  the cost of a call that does not grow the string never depends on `w` (`padT_snd_le_small`).  And the growth
  itself cannot be cheaper than the output: the result has `n·|p|` more bytes than the subject. -/

/-- a lower bound: every tick of the fill loop is matched by output — the ticks of a growing `pad` are at least the
    number of bytes added -/
theorem padWithT_snd_ge_output (left : Bool) (s p : Bytes) (w : Int) (b : Bytes)
    (h : padWith left s w p (.str s) = .ok (.str b)) : b.length - s.length ≤ (padWithT left s w p (.str s)).2 := by
  obtain ⟨b', hb, hl⟩ := C09.padWith_size left s p w _ h
  cases hb
  rw [padWithT_snd, hl]
  unfold Cost.padCost
  unfold padWith at h
  split
  · rename_i h1; simp [h1] at h; cases h
  · split
    · rename_i h1 h2; simp [h1, h2] at h; cases h
    · split
      · rename_i h3
        have : (w - (runeCount s : Int)).toNat = 0 := by omega
        rw [this]; omega
      · rw [Nat.mul_add, Nat.mul_one]; omega

end Jmes.C09C
