/-
  Order-theoretic helper lemmas for C13: `bytesLt` is a strict total order, `Dec.compare` is a total preorder
  (NaN below everything), the `Key` comparators, and generic facts about `List.mergeSort`.
-/
import Jmes.Model.Array
namespace Jmes

/-! ### `bytesLt` is a strict total order -/

theorem bytesLt_irrefl : ∀ a : Bytes, bytesLt a a = false
  | [] => rfl
  | x :: xs => by simp [bytesLt, bytesLt_irrefl xs]

theorem bytesLt_trans : ∀ {a b c : Bytes}, bytesLt a b = true → bytesLt b c = true → bytesLt a c = true
  | [], [], _, h, _ => by simp [bytesLt] at h
  | [], _ :: _, [], _, h => by simp [bytesLt] at h
  | [], _ :: _, _ :: _, _, _ => rfl
  | _ :: _, [], _, h, _ => by simp [bytesLt] at h
  | _ :: _, _ :: _, [], _, h => by simp [bytesLt] at h
  | x :: xs, y :: ys, z :: zs, h1, h2 => by
    simp only [bytesLt] at h1 h2 ⊢
    by_cases hxy : x < y
    · by_cases hyz : y < z
      · have : x < z := by omega
        simp [this]
      · by_cases hzy : y > z
        · simp [hyz, hzy] at h2
        · have : x < z := by omega
          simp [this]
    · by_cases hyx : x > y
      · simp [hxy, hyx] at h1
      · simp only [hxy, hyx, if_false] at h1
        by_cases hyz : y < z
        · have : x < z := by omega
          simp [this]
        · by_cases hzy : y > z
          · simp [hyz, hzy] at h2
          · simp only [hyz, hzy, if_false] at h2
            have h3 : ¬ x < z := by omega
            have h4 : ¬ x > z := by omega
            simp only [h3, h4, if_false]
            exact bytesLt_trans h1 h2

/-- trichotomy -/
theorem bytesLt_total : ∀ a b : Bytes, bytesLt a b = true ∨ a = b ∨ bytesLt b a = true
  | [], [] => .inr (.inl rfl)
  | [], _ :: _ => .inl rfl
  | _ :: _, [] => .inr (.inr rfl)
  | x :: xs, y :: ys => by
    simp only [bytesLt]
    by_cases hxy : x < y
    · simp [hxy]
    · by_cases hyx : x > y
      · have : y < x := hyx
        simp [this]
      · have : x = y := by omega
        subst this
        simp only [Nat.lt_irrefl, gt_iff_lt, if_false]
        rcases bytesLt_total xs ys with h | h | h
        · exact .inl h
        · exact .inr (.inl (by rw [h]))
        · exact .inr (.inr h)

theorem bytesLt_asymm {a b : Bytes} (h : bytesLt a b = true) : bytesLt b a = false := by
  cases h' : bytesLt b a
  · rfl
  · have := bytesLt_trans h h'
    rw [bytesLt_irrefl] at this
    cases this

/-- `a ≤ b` as `!(b < a)` -/
def bytesLe (a b : Bytes) : Bool := !bytesLt b a

theorem bytesLe_total (a b : Bytes) : (bytesLe a b || bytesLe b a) = true := by
  unfold bytesLe
  rcases bytesLt_total a b with h | h | h
  · simp [bytesLt_asymm h]
  · subst h; simp [bytesLt_irrefl]
  · simp [bytesLt_asymm h]

theorem bytesLe_trans {a b c : Bytes} (h1 : bytesLe a b = true) (h2 : bytesLe b c = true) :
    bytesLe a c = true := by
  unfold bytesLe at *
  simp only [Bool.not_eq_eq_eq_not, Bool.not_true] at *
  -- ¬ b < a, ¬ c < b ⊢ ¬ c < a
  cases h : bytesLt c a
  · rfl
  · rcases bytesLt_total a b with hab | hab | hab
    · have := bytesLt_trans h hab
      rw [h2] at this; cases this
    · subst hab; rw [h] at h2; cases h2
    · rw [h1] at hab; cases hab

theorem bytesLe_antisymm {a b : Bytes} (h1 : bytesLe a b = true) (h2 : bytesLe b a = true) : a = b := by
  unfold bytesLe at *
  rcases bytesLt_total a b with h | h | h
  · simp [h] at h2
  · exact h
  · simp [h] at h1

/-! ### the decimal order -/

namespace Dec

def expo : Dec → Int
  | .fin _ _ e => e
  | _ => 0

/-- signed coefficient of a finite value at exponent `m` (exact when `m ≤ e`) -/
def sv (n : Bool) (c : Nat) (e m : Int) : Int := (if n then -1 else 1) * ((c * pow10 (e - m).toNat : Nat) : Int)

/-- `(rank, value at exponent m)`: NaN < -Inf < finite < +Inf -/
def key (m : Int) : Dec → Int × Int
  | .nan => (-2, 0)
  | .inf true => (-1, 0)
  | .inf false => (1, 0)
  | .fin n c e => (0, sv n c e m)

def lexcmp (p q : Int × Int) : Int :=
  if p.1 < q.1 then -1 else if q.1 < p.1 then 1
  else if p.2 < q.2 then -1 else if p.2 = q.2 then 0 else 1

theorem lexcmp_zero (x y : Int) : lexcmp (0, x) (0, y) = if x < y then -1 else if x = y then 0 else 1 := by
  simp [lexcmp]

theorem sv_rescale (n : Bool) (c : Nat) (e e' m : Int) (h1 : m ≤ e') (h2 : e' ≤ e) :
    sv n c e m = sv n c e e' * ((pow10 (e' - m).toNat : Nat) : Int) := by
  unfold sv pow10
  have : (e - m).toNat = (e - e').toNat + (e' - m).toNat := by omega
  rw [this, Nat.pow_add, ← Nat.mul_assoc, Int.natCast_mul (c * 10 ^ (e - e').toNat), Int.mul_assoc]

theorem pow10_pos (k : Nat) : 0 < ((pow10 k : Nat) : Int) := by
  unfold pow10
  exact Int.natCast_pos.mpr (Nat.pow_pos (by decide))

theorem cmpFin_eq (n1 : Bool) (c1 : Nat) (e1 : Int) (n2 : Bool) (c2 : Nat) (e2 m : Int)
    (h1 : m ≤ e1) (h2 : m ≤ e2) :
    cmpFin n1 c1 e1 n2 c2 e2 =
      (if sv n1 c1 e1 m < sv n2 c2 e2 m then -1 else if sv n1 c1 e1 m = sv n2 c2 e2 m then 0 else 1) := by
  have hm : m ≤ min e1 e2 := by omega
  rw [sv_rescale n1 c1 e1 (min e1 e2) m hm (by omega), sv_rescale n2 c2 e2 (min e1 e2) m hm (by omega)]
  have hk := pow10_pos (min e1 e2 - m).toNat
  generalize ((pow10 (min e1 e2 - m).toNat : Nat) : Int) = k at hk
  show (if sv n1 c1 e1 (min e1 e2) < sv n2 c2 e2 (min e1 e2) then (-1 : Int)
        else if sv n1 c1 e1 (min e1 e2) = sv n2 c2 e2 (min e1 e2) then 0 else 1) = _
  generalize sv n1 c1 e1 (min e1 e2) = a
  generalize sv n2 c2 e2 (min e1 e2) = b
  have hlt : a * k < b * k ↔ a < b := Int.mul_lt_mul_right hk
  have heq : a * k = b * k ↔ a = b := by
    constructor
    · intro h; exact Int.eq_of_mul_eq_mul_right (by omega) h
    · intro h; rw [h]
  simp only [hlt, heq]

theorem compare_eq_key (a b : Dec) (m : Int) (ha : m ≤ expo a) (hb : m ≤ expo b) :
    compare a b = lexcmp (key m a) (key m b) := by
  cases a with
  | nan => cases b with
    | nan => rfl
    | inf n => cases n <;> rfl
    | fin n c e => rfl
  | inf n => cases b with
    | nan => cases n <;> rfl
    | inf n' => cases n <;> cases n' <;> rfl
    | fin n' c e => cases n <;> rfl
  | fin n c e => cases b with
    | nan => rfl
    | inf n' => cases n' <;> rfl
    | fin n' c' e' =>
      show cmpFin n c e n' c' e' = _
      rw [cmpFin_eq n c e n' c' e' m ha hb]
      show _ = lexcmp (0, sv n c e m) (0, sv n' c' e' m)
      rw [lexcmp_zero]

/-- an exponent below those of three values -/
def expo3 (a b c : Dec) : Int := min (expo a) (min (expo b) (expo c))

theorem compare_self (a : Dec) : compare a a = 0 := by
  rw [compare_eq_key a a (expo a) (Int.le_refl _) (Int.le_refl _)]
  simp [lexcmp]

theorem compare_antisymm (a b : Dec) : compare b a = - compare a b := by
  have h1 := compare_eq_key a b (min (expo a) (expo b)) (by omega) (by omega)
  have h2 := compare_eq_key b a (min (expo a) (expo b)) (by omega) (by omega)
  rw [h1, h2]
  unfold lexcmp
  generalize key (min (expo a) (expo b)) a = p
  generalize key (min (expo a) (expo b)) b = q
  split <;> split <;> (try split) <;> (try split) <;> (try split) <;> (try split) <;> omega

theorem compare_range (a b : Dec) : compare a b = -1 ∨ compare a b = 0 ∨ compare a b = 1 := by
  rw [compare_eq_key a b (min (expo a) (expo b)) (by omega) (by omega)]
  unfold lexcmp
  split <;> (try split) <;> (try split) <;> (try split) <;> simp

/-- **transitivity of the decimal order** (`Compare(a,b) ≤ 0`) -/
theorem compare_trans {a b c : Dec} (h1 : compare a b ≤ 0) (h2 : compare b c ≤ 0) : compare a c ≤ 0 := by
  have ka := compare_eq_key a b (expo3 a b c) (by unfold expo3; omega) (by unfold expo3; omega)
  have kb := compare_eq_key b c (expo3 a b c) (by unfold expo3; omega) (by unfold expo3; omega)
  have kc := compare_eq_key a c (expo3 a b c) (by unfold expo3; omega) (by unfold expo3; omega)
  rw [ka] at h1; rw [kb] at h2; rw [kc]
  revert h1 h2
  unfold lexcmp
  generalize key (expo3 a b c) a = p
  generalize key (expo3 a b c) b = q
  generalize key (expo3 a b c) c = r
  intro h1 h2
  split at h1 <;> (try split at h1) <;> (try split at h1) <;> (try split at h1) <;>
  split at h2 <;> (try split at h2) <;> (try split at h2) <;> (try split at h2) <;>
  split <;> (try split) <;> (try split) <;> (try split) <;> omega

/-- strict version: `a < b ≤ c → a < c` and `a ≤ b < c → a < c` -/
theorem compare_lt_of_lt_of_le {a b c : Dec} (h1 : compare a b < 0) (h2 : compare b c ≤ 0) : compare a c < 0 := by
  have ka := compare_eq_key a b (expo3 a b c) (by unfold expo3; omega) (by unfold expo3; omega)
  have kb := compare_eq_key b c (expo3 a b c) (by unfold expo3; omega) (by unfold expo3; omega)
  have kc := compare_eq_key a c (expo3 a b c) (by unfold expo3; omega) (by unfold expo3; omega)
  rw [ka] at h1; rw [kb] at h2; rw [kc]
  revert h1 h2
  unfold lexcmp
  generalize key (expo3 a b c) a = p
  generalize key (expo3 a b c) b = q
  generalize key (expo3 a b c) c = r
  intro h1 h2
  split at h1 <;> (try split at h1) <;> (try split at h1) <;> (try split at h1) <;>
  split at h2 <;> (try split at h2) <;> (try split at h2) <;> (try split at h2) <;>
  split <;> (try split) <;> (try split) <;> (try split) <;> omega

theorem compare_total (a b : Dec) : compare a b ≤ 0 ∨ compare b a ≤ 0 := by
  rw [compare_antisymm a b]; omega

/-- the comparator of `sort` on numbers -/
def le (a b : Dec) : Bool := decide (compare a b ≤ 0)

theorem le_total (a b : Dec) : (le a b || le b a) = true := by
  unfold le
  rcases compare_total a b with h | h <;> simp [h]

theorem le_trans {a b c : Dec} (h1 : le a b = true) (h2 : le b c = true) : le a c = true := by
  unfold le at *
  simp only [decide_eq_true_eq] at *
  exact compare_trans h1 h2

/-! `greater` / `less` (NaN is incomparable) in terms of `compare` -/

theorem greater_iff (a b : Dec) : greater a b = true ↔ (a.isNaN = false ∧ b.isNaN = false ∧ compare a b = 1) := by
  cases a with
  | nan => simp [greater, cmp, isNaN]
  | inf n => cases b with
    | nan => simp [greater, cmp, isNaN]
    | inf n' => simp [greater, cmp, isNaN, compare]
    | fin n' c e => simp [greater, cmp, isNaN, compare]
  | fin n c e => cases b with
    | nan => simp [greater, cmp, isNaN]
    | inf n' => simp [greater, cmp, isNaN, compare]
    | fin n' c' e' => simp [greater, cmp, isNaN, compare]

theorem less_iff (a b : Dec) : less a b = true ↔ (a.isNaN = false ∧ b.isNaN = false ∧ compare a b = -1) := by
  cases a with
  | nan => simp [less, cmp, isNaN]
  | inf n => cases b with
    | nan => simp [less, cmp, isNaN]
    | inf n' => simp [less, cmp, isNaN, compare]
    | fin n' c e => simp [less, cmp, isNaN, compare]
  | fin n c e => cases b with
    | nan => simp [less, cmp, isNaN]
    | inf n' => simp [less, cmp, isNaN, compare]
    | fin n' c' e' => simp [less, cmp, isNaN, compare]

theorem greater_trans {a b c : Dec} (h1 : greater a b = true) (h2 : greater b c = true) : greater a c = true := by
  rw [greater_iff] at *
  refine ⟨h1.1, h2.2.1, ?_⟩
  have h3 : compare c b < 0 := by rw [compare_antisymm b c]; omega
  have h4 : compare b a ≤ 0 := by rw [compare_antisymm a b]; omega
  have := compare_lt_of_lt_of_le h3 h4
  rw [compare_antisymm a c] at this
  rcases compare_range a c with h | h | h <;> omega

theorem less_trans {a b c : Dec} (h1 : less a b = true) (h2 : less b c = true) : less a c = true := by
  rw [less_iff] at *
  refine ⟨h1.1, h2.2.1, ?_⟩
  have := compare_lt_of_lt_of_le (a := a) (b := b) (c := c) (by omega) (by omega)
  rcases compare_range a c with h | h | h <;> omega

theorem greater_irrefl (a : Dec) : greater a a = false := by
  cases h : greater a a
  · rfl
  · rw [greater_iff, compare_self] at h; omega

theorem less_irrefl (a : Dec) : less a a = false := by
  cases h : less a a
  · rfl
  · rw [less_iff, compare_self] at h; omega

end Dec

/-! ### keys -/

def Key.isStr : Key → Bool
  | .s _ => true
  | .n _ => false

/-- all keys strings, or all keys numbers (what `keysOf` produces) -/
def Key.Homog (ks : List Key) : Prop := (∀ k ∈ ks, k.isStr = true) ∨ (∀ k ∈ ks, k.isStr = false)

/-- the comparator of `sortByKeys` on keys: `a ≤ b` as "not `b < a`" -/
def Key.le (a b : Key) : Bool := !Key.lt b a

/-- a total preorder on *all* keys that agrees with `Key.le` on keys of the same kind
    (`Key.le` itself is not transitive across kinds) -/
def Key.leT : Key → Key → Bool
  | .s a, .s b => bytesLe a b
  | .n a, .n b => Dec.le a b
  | .s _, .n _ => true
  | .n _, .s _ => false

theorem Key.leT_total (a b : Key) : (Key.leT a b || Key.leT b a) = true := by
  cases a <;> cases b <;> simp [Key.leT, bytesLe_total, Dec.le_total]

theorem Key.leT_trans {a b c : Key} (h1 : Key.leT a b = true) (h2 : Key.leT b c = true) : Key.leT a c = true := by
  cases a <;> cases b <;> cases c <;> simp_all [Key.leT]
  · exact bytesLe_trans h1 h2
  · exact Dec.le_trans h1 h2

theorem Dec.not_lt_eq_le (a b : Dec) : (!decide (Dec.compare b a < 0)) = Dec.le a b := by
  unfold Dec.le
  rw [Dec.compare_antisymm a b]
  by_cases h : Dec.compare a b ≤ 0
  · have h' : ¬ (-Dec.compare a b < 0) := by omega
    rw [decide_eq_false h', decide_eq_true h]; rfl
  · have h' : (-Dec.compare a b < 0) := by omega
    rw [decide_eq_true h', decide_eq_false h]; rfl

theorem Key.leT_eq_le {a b : Key} (h : a.isStr = b.isStr) : Key.leT a b = Key.le a b := by
  cases a <;> cases b <;> simp_all [Key.isStr, Key.leT, Key.le, Key.lt, bytesLe]
  exact (Dec.not_lt_eq_le _ _).symm

theorem Key.Homog.isStr_eq {ks : List Key} (h : Key.Homog ks) {a b : Key} (ha : a ∈ ks) (hb : b ∈ ks) :
    a.isStr = b.isStr := by
  rcases h with h | h <;> rw [h a ha, h b hb]

/-! `max_by` / `min_by` comparators -/

theorem Dec.greater_eq_false_iff {a b : Dec} (ha : a.isNaN = false) (hb : b.isNaN = false) :
    Dec.greater a b = false ↔ Dec.compare a b ≤ 0 := by
  have := Dec.greater_iff a b
  have hr := Dec.compare_range a b
  constructor
  · intro h
    rcases hr with h' | h' | h'
    · omega
    · omega
    · have := this.mpr ⟨ha, hb, h'⟩
      rw [h] at this; cases this
  · intro h
    cases hg : Dec.greater a b
    · rfl
    · have := (this.mp hg).2.2; omega

theorem Dec.less_eq_false_iff {a b : Dec} (ha : a.isNaN = false) (hb : b.isNaN = false) :
    Dec.less a b = false ↔ Dec.compare b a ≤ 0 := by
  have := Dec.less_iff a b
  have hr := Dec.compare_range a b
  rw [Dec.compare_antisymm a b]
  constructor
  · intro h
    rcases hr with h' | h' | h'
    · have := this.mpr ⟨ha, hb, h'⟩
      rw [h] at this; cases this
    · omega
    · omega
  · intro h
    cases hg : Dec.less a b
    · rfl
    · have := (this.mp hg).2.2; omega

def Key.notNaN : Key → Prop
  | .n d => d.isNaN = false
  | .s _ => True

theorem Key.gtMax_irrefl (a : Key) : Key.gtMax a a = false := by
  cases a <;> simp [Key.gtMax, bytesLt_irrefl, Dec.greater_irrefl]

theorem Key.gtMax_trans {a b c : Key} (h1 : Key.gtMax a b = true) (h2 : Key.gtMax b c = true) :
    Key.gtMax a c = true := by
  cases a <;> cases b <;> cases c <;> simp_all [Key.gtMax]
  · exact bytesLt_trans h2 h1
  · exact Dec.greater_trans h1 h2

theorem Key.gtMax_negtrans {a b c : Key} (hab : a.isStr = b.isStr) (hbc : b.isStr = c.isStr)
    (ha : a.notNaN) (hb : b.notNaN) (hc : c.notNaN)
    (h1 : Key.gtMax a b = false) (h2 : Key.gtMax b c = false) : Key.gtMax a c = false := by
  cases a <;> cases b <;> cases c <;> simp_all [Key.gtMax, Key.isStr, Key.notNaN]
  · have := bytesLe_trans (a := _) (b := _) (c := _) (show bytesLe _ _ = true by simpa [bytesLe] using h1)
      (show bytesLe _ _ = true by simpa [bytesLe] using h2)
    simpa [bytesLe] using this
  · rw [Dec.greater_eq_false_iff ha hb] at h1
    rw [Dec.greater_eq_false_iff hb hc] at h2
    rw [Dec.greater_eq_false_iff ha hc]
    exact Dec.compare_trans h1 h2

theorem Key.ltMin_irrefl (a : Key) : Key.ltMin a a = false := by
  cases a <;> simp [Key.ltMin, bytesLt_irrefl, Dec.less_irrefl]

theorem Key.ltMin_trans {a b c : Key} (h1 : Key.ltMin a b = true) (h2 : Key.ltMin b c = true) :
    Key.ltMin a c = true := by
  cases a <;> cases b <;> cases c <;> simp_all [Key.ltMin]
  · exact bytesLt_trans h1 h2
  · exact Dec.less_trans h1 h2

theorem Key.ltMin_negtrans {a b c : Key} (hab : a.isStr = b.isStr) (hbc : b.isStr = c.isStr)
    (ha : a.notNaN) (hb : b.notNaN) (hc : c.notNaN)
    (h1 : Key.ltMin a b = false) (h2 : Key.ltMin b c = false) : Key.ltMin a c = false := by
  cases a <;> cases b <;> cases c <;> simp_all [Key.ltMin, Key.isStr, Key.notNaN]
  · have := bytesLe_trans (a := _) (b := _) (c := _) (show bytesLe _ _ = true by simpa [bytesLe] using h2)
      (show bytesLe _ _ = true by simpa [bytesLe] using h1)
    simpa [bytesLe] using this
  · rw [Dec.less_eq_false_iff ha hb] at h1
    rw [Dec.less_eq_false_iff hb hc] at h2
    rw [Dec.less_eq_false_iff ha hc]
    exact Dec.compare_trans h2 h1

/-! ### generic facts on lists and `mergeSort` -/

section Lists
variable {α : Type _}

theorem mergeSort_congr {r s : α → α → Bool} {l : List α} (h : ∀ a ∈ l, ∀ b ∈ l, r a b = s a b) :
    l.mergeSort r = l.mergeSort s := by
  have := List.map_mergeSort (r := r) (s := s) (f := id) (l := l) (by simpa using h)
  simpa using this

/-- `mergeSort` with a comparator that coincides *on the members of the list* with a total preorder sorts -/
theorem pairwise_mergeSort_of_agree {r s : α → α → Bool} {l : List α}
    (agree : ∀ a ∈ l, ∀ b ∈ l, r a b = s a b)
    (trans : ∀ a b c, s a b = true → s b c = true → s a c = true)
    (total : ∀ a b, (s a b || s b a) = true) :
    (l.mergeSort r).Pairwise (fun a b => r a b = true) := by
  rw [mergeSort_congr agree]
  have := List.pairwise_mergeSort (le := s) trans total l
  refine this.imp_of_mem ?_
  intro a b ha hb hab
  rw [List.mem_mergeSort] at ha hb
  rw [agree a ha b hb]; exact hab

/-- …and is stable -/
theorem sublist_mergeSort_of_agree {r s : α → α → Bool} {l c : List α}
    (agree : ∀ a ∈ l, ∀ b ∈ l, r a b = s a b)
    (trans : ∀ a b c, s a b = true → s b c = true → s a c = true)
    (total : ∀ a b, (s a b || s b a) = true)
    (hc : c.Pairwise (fun a b => r a b = true)) (hs : c.Sublist l) : c.Sublist (l.mergeSort r) := by
  rw [mergeSort_congr agree]
  refine List.sublist_mergeSort (le := s) trans total ?_ hs
  refine hc.imp_of_mem ?_
  intro a b ha hb hab
  rw [← agree a (hs.subset ha) b (hs.subset hb)]; exact hab

theorem getElem_pair_sublist : ∀ (l : List α) (i j : Nat) (_ : i < j) (hj : j < l.length),
    [l[i]'(by omega), l[j]].Sublist l
  | [], _, _, _, hj => by simp at hj
  | x :: t, 0, j + 1, _, hj => by
    simp only [List.getElem_cons_zero, List.getElem_cons_succ]
    exact List.Sublist.cons_cons x (List.singleton_sublist.mpr (List.getElem_mem _))
  | x :: t, i + 1, j + 1, hij, hj => by
    simp only [List.getElem_cons_succ]
    exact (getElem_pair_sublist t i j (by omega) (by simpa using hj)).cons x

/-- the linear scan shared by `max`, `min`, `max_by`, `min_by`: keep the current best unless the next one is
    strictly better -/
def scan (better : α → α → Bool) : α → List α → α
  | m, [] => m
  | m, x :: rest => if better x m then scan better x rest else scan better m rest

theorem scan_spec_aux (better : α → α → Bool)
    (irrefl : ∀ a, better a a = false)
    (trans : ∀ a b c, better a b = true → better b c = true → better a c = true)
    (nt : Prop) (S : α → Prop)
    (negtrans : nt → ∀ a b c, S a → S b → S c → better a b = false → better b c = false → better a c = false) :
    ∀ (rest pre mid : List α) (m : α),
      (∀ p, (p ∈ pre ∨ p = m ∨ p ∈ mid ∨ p ∈ rest) → S p) →
      (∀ p ∈ pre, better p m = false) → (∀ p ∈ mid, better p m = false) →
      (nt → ∀ p ∈ pre, better m p = true) →
      ∃ pre' post, pre ++ (m :: (mid ++ rest)) = pre' ++ (scan better m rest :: post) ∧
        (∀ p, (p ∈ pre ∨ p = m ∨ p ∈ mid ∨ p ∈ rest) → better p (scan better m rest) = false) ∧
        (nt → ∀ p ∈ pre', better (scan better m rest) p = true)
  | [], pre, mid, m, _, h1, h2, h3 => by
    refine ⟨pre, mid, by simp [scan], ?_, by simpa [scan] using h3⟩
    intro p hp
    simp only [scan]
    rcases hp with hp | hp | hp | hp
    · exact h1 p hp
    · rw [hp]; exact irrefl m
    · exact h2 p hp
    · cases hp
  | x :: rest, pre, mid, m, hS, h1, h2, h3 => by
    by_cases hx : better x m = true
    · have key := scan_spec_aux better irrefl trans nt S negtrans rest (pre ++ (m :: mid)) [] x
        (by
          intro p hp; apply hS
          simp only [List.mem_append, List.mem_cons, List.not_mem_nil, false_or] at hp ⊢
          rcases hp with (hp | hp | hp) | hp | hp <;> simp [hp])
        (by
          intro p hp
          simp only [List.mem_append, List.mem_cons] at hp
          cases hpx : better p x
          · rfl
          · have hpm := trans p x m hpx hx
            rcases hp with hp | hp | hp
            · rw [h1 p hp] at hpm; cases hpm
            · rw [hp, irrefl] at hpm; cases hpm
            · rw [h2 p hp] at hpm; cases hpm)
        (by simp)
        (by
          intro hnt p hp
          simp only [List.mem_append, List.mem_cons] at hp
          rcases hp with hp | hp | hp
          · exact trans x m p hx (h3 hnt p hp)
          · rw [hp]; exact hx
          · cases hxp : better x p
            · have := negtrans hnt x p m (hS x (by simp)) (hS p (by simp [hp])) (hS m (by simp)) hxp (h2 p hp)
              rw [hx] at this; cases this
            · rfl)
      obtain ⟨pre', post, e1, e2, e3⟩ := key
      refine ⟨pre', post, ?_, ?_, ?_⟩
      · simp only [scan, hx, if_true]
        rw [← e1]; simp
      · intro p hp
        simp only [scan, hx, if_true]
        apply e2
        simp only [List.mem_append, List.mem_cons, List.not_mem_nil, false_or] at hp ⊢
        rcases hp with hp | hp | hp | hp | hp <;> simp [hp]
      · simpa only [scan, hx, if_true] using e3
    · have hx' : better x m = false := by simpa using hx
      have key := scan_spec_aux better irrefl trans nt S negtrans rest pre (mid ++ [x]) m
        (by
          intro p hp; apply hS
          simp only [List.mem_append, List.mem_cons, List.not_mem_nil, or_false] at hp ⊢
          rcases hp with hp | hp | (hp | hp) | hp <;> simp [hp])
        h1
        (by
          intro p hp
          simp only [List.mem_append, List.mem_cons, List.not_mem_nil, or_false] at hp
          rcases hp with hp | hp
          · exact h2 p hp
          · rw [hp]; exact hx')
        h3
      obtain ⟨pre', post, e1, e2, e3⟩ := key
      refine ⟨pre', post, ?_, ?_, ?_⟩
      · simp only [scan, hx', Bool.false_eq_true, if_false]
        rw [← e1]; simp
      · intro p hp
        simp only [scan, hx', Bool.false_eq_true, if_false]
        apply e2
        simp only [List.mem_append, List.mem_cons, List.not_mem_nil, or_false] at hp ⊢
        rcases hp with hp | hp | hp | hp | hp <;> simp [hp]
      · simpa only [scan, hx', Bool.false_eq_true, if_false] using e3

/-- The scan returns a member of the list that no member beats; when "not better" is transitive on the members
    (a strict weak order) it is the *first* such member: it beats every earlier one. -/
theorem scan_spec (better : α → α → Bool)
    (irrefl : ∀ a, better a a = false)
    (trans : ∀ a b c, better a b = true → better b c = true → better a c = true)
    (m : α) (l : List α) :
    ∃ pre post, m :: l = pre ++ scan better m l :: post ∧
      (∀ p ∈ m :: l, better p (scan better m l) = false) ∧
      (∀ S : α → Prop, (∀ p ∈ m :: l, S p) →
        (∀ a b c, S a → S b → S c → better a b = false → better b c = false → better a c = false) →
        ∀ p ∈ pre, better (scan better m l) p = true) := by
  classical
  let S : α → Prop := fun p => p ∈ m :: l
  let NT : Prop := ∀ a b c, S a → S b → S c → better a b = false → better b c = false → better a c = false
  obtain ⟨pre, post, h1, h2, h3⟩ := scan_spec_aux better irrefl trans NT S (fun h => h) l [] [] m
    (by intro p hp; simpa [S] using hp) (by simp) (by simp) (by simp)
  refine ⟨pre, post, by simpa using h1, ?_, ?_⟩
  · intro p hp; apply h2; simpa using hp
  · intro S' hS' hnt
    apply h3
    intro a b c ha hb hc
    exact hnt a b c (hS' a ha) (hS' b hb) (hS' c hc)

/-! #### uniqueness of the stable sort -/

/-- `l'` keeps every `le`-sorted subsequence of `l` (the strong form of stability, `List.sublist_mergeSort`) -/
def StableWrt (le : α → α → Bool) (l l' : List α) : Prop :=
  ∀ c : List α, c.Sublist l → c.Pairwise (fun a b => le a b = true) → c.Sublist l'

/-- `l'` keeps the relative order of every pair of `l` that is in order (`List.pair_sublist_mergeSort`) -/
def PairStableWrt (le : α → α → Bool) (l l' : List α) : Prop :=
  ∀ a b : α, [a, b].Sublist l → le a b = true → [a, b].Sublist l'

/-- equivalence under a preorder -/
def eqv (le : α → α → Bool) (a x : α) : Bool := le a x && le x a

theorem filter_eqv_eq_of_stable {le : α → α → Bool}
    (trans : ∀ a b c, le a b = true → le b c = true → le a c = true)
    {l l' : List α} (hp : l'.Perm l) (hs : StableWrt le l l') (a : α) :
    l'.filter (eqv le a) = l.filter (eqv le a) := by
  have hsub : (l.filter (eqv le a)).Sublist l' := by
    apply hs _ List.filter_sublist
    rw [List.pairwise_filter]
    apply List.pairwise_of_forall
    intro x y hx hy
    simp only [eqv, Bool.and_eq_true] at hx hy
    exact trans x a y hx.2 hy.1
  have h2 := hsub.filter (eqv le a)
  rw [List.filter_filter] at h2
  simp only [Bool.and_self] at h2
  exact (h2.eq_of_length (hp.filter _).length_eq.symm).symm

theorem sorted_eq_of_filter_eqv_eq {le : α → α → Bool}
    (total : ∀ a b, (le a b || le b a) = true) :
    ∀ (l1 l2 : List α), l1.Pairwise (fun a b => le a b = true) → l2.Pairwise (fun a b => le a b = true) →
      (∀ a, l1.filter (eqv le a) = l2.filter (eqv le a)) → l1 = l2 := by
  have refl : ∀ a, le a a = true := fun a => by simpa using total a a
  have erefl : ∀ a, eqv le a a = true := fun a => by simp [eqv, refl]
  intro l1
  induction l1 with
  | nil =>
    intro l2 _ _ h
    cases l2 with
    | nil => rfl
    | cons b t2 =>
      have := h b
      simp [erefl] at this
  | cons a t1 ih =>
    intro l2 s1 s2 h
    cases l2 with
    | nil =>
      have := h a
      simp [erefl] at this
    | cons b t2 =>
      have hba : le b a = true := by
        have : a ∈ (b :: t2).filter (eqv le a) := by rw [← h a]; simp [erefl]
        rcases List.mem_cons.mp (List.mem_filter.mp this).1 with e | e
        · rw [e]; exact refl b
        · exact List.rel_of_pairwise_cons s2 e
      have hab : le a b = true := by
        have : b ∈ (a :: t1).filter (eqv le b) := by rw [h b]; simp [erefl]
        rcases List.mem_cons.mp (List.mem_filter.mp this).1 with e | e
        · rw [e]; exact refl a
        · exact List.rel_of_pairwise_cons s1 e
      have heab : eqv le a b = true := by simp [eqv, hab, hba]
      have e : a = b := by
        have := h a
        simp only [List.filter_cons, erefl, heab, if_true] at this
        exact (List.cons.inj this).1
      subst e
      congr 1
      apply ih t2 (List.pairwise_cons.mp s1).2 (List.pairwise_cons.mp s2).2
      intro c
      have := h c
      simp only [List.filter_cons] at this
      split at this
      · exact (List.cons.inj this).2
      · exact this

/-- **The stable sort is unique**: for a total preorder, two sorted permutations of `l` that both keep every sorted
    subsequence of `l` are equal. So specifying `sort.Stable` as `List.mergeSort` only says "it is stable". -/
theorem stable_sort_unique {le : α → α → Bool}
    (trans : ∀ a b c, le a b = true → le b c = true → le a c = true)
    (total : ∀ a b, (le a b || le b a) = true)
    {l l1 l2 : List α} (p1 : l1.Perm l) (p2 : l2.Perm l)
    (s1 : l1.Pairwise (fun a b => le a b = true)) (s2 : l2.Pairwise (fun a b => le a b = true))
    (st1 : StableWrt le l l1) (st2 : StableWrt le l l2) : l1 = l2 := by
  apply sorted_eq_of_filter_eqv_eq total l1 l2 s1 s2
  intro a
  rw [filter_eqv_eq_of_stable trans p1 st1, filter_eqv_eq_of_stable trans p2 st2]

/-- `mergeSort` is such a list. -/
theorem mergeSort_is_stable_sort {le : α → α → Bool}
    (trans : ∀ a b c, le a b = true → le b c = true → le a c = true)
    (total : ∀ a b, (le a b || le b a) = true) (l : List α) :
    (l.mergeSort le).Perm l ∧ (l.mergeSort le).Pairwise (fun a b => le a b = true) ∧
      StableWrt le l (l.mergeSort le) :=
  ⟨List.mergeSort_perm l le, List.pairwise_mergeSort trans total l,
    fun _ hs hc => List.sublist_mergeSort trans total hc hs⟩

/-! pair-wise stability is enough when the elements are distinct (e.g. tagged with their positions) -/

theorem pair_sublist_or {x y : α} (hne : x ≠ y) : ∀ {l : List α}, x ∈ l → y ∈ l →
    [x, y].Sublist l ∨ [y, x].Sublist l
  | [], hx, _ => by cases hx
  | z :: t, hx, hy => by
    rcases List.mem_cons.mp hx with ex | ex
    · rcases List.mem_cons.mp hy with ey | ey
      · exact absurd (ex.trans ey.symm) hne
      · left; rw [ex]; exact List.Sublist.cons_cons z (List.singleton_sublist.mpr ey)
    · rcases List.mem_cons.mp hy with ey | ey
      · right; rw [ey]; exact List.Sublist.cons_cons z (List.singleton_sublist.mpr ex)
      · rcases pair_sublist_or hne ex ey with h | h
        · exact .inl (h.cons z)
        · exact .inr (h.cons z)

theorem not_both_pair_sublist {x y : α} : ∀ {l : List α}, l.Nodup → [x, y].Sublist l → [y, x].Sublist l → False
  | [], _, h, _ => by cases h
  | z :: t, hn, h1, h2 => by
    obtain ⟨hz, hn'⟩ := List.nodup_cons.mp hn
    rcases List.sublist_cons_iff.mp h1 with h1 | ⟨r, e, h1⟩
    · rcases List.sublist_cons_iff.mp h2 with h2 | ⟨r', e', h2⟩
      · exact not_both_pair_sublist hn' h1 h2
      · have ey : y = z := (List.cons.inj e').1
        exact hz (ey ▸ h1.subset (by simp))
    · have ex : x = z := (List.cons.inj e).1
      have er : [y] = r := (List.cons.inj e).2
      rcases List.sublist_cons_iff.mp h2 with h2 | ⟨r', e', h2⟩
      · exact hz (ex ▸ h2.subset (by simp))
      · have ey : y = z := (List.cons.inj e').1
        subst er
        exact hz (ey ▸ h1.subset (by simp))

theorem eq_of_same_pair_order : ∀ (l1 l2 : List α), l1.Nodup → l2.Nodup → l1.Perm l2 →
    (∀ x y, [x, y].Sublist l1 → [x, y].Sublist l2) → l1 = l2
  | [], l2, _, _, hp, _ => (List.nil_perm.mp hp).symm
  | a :: t1, [], _, _, hp, _ => by have := hp.length_eq; simp at this
  | a :: t1, b :: t2, n1, n2, hp, h => by
    obtain ⟨ha, n1'⟩ := List.nodup_cons.mp n1
    obtain ⟨hb, n2'⟩ := List.nodup_cons.mp n2
    have e : a = b := by
      apply Classical.byContradiction
      intro hne
      have hbt : b ∈ t1 := by
        have : b ∈ a :: t1 := hp.mem_iff.mpr (by simp)
        rcases List.mem_cons.mp this with e | e
        · exact absurd e.symm hne
        · exact e
      have h1 : [a, b].Sublist (a :: t1) := List.Sublist.cons_cons a (List.singleton_sublist.mpr hbt)
      rcases List.sublist_cons_iff.mp (h a b h1) with h2 | ⟨r, e, _⟩
      · exact hb (h2.subset (by simp))
      · exact hne (List.cons.inj e).1
    subst e
    congr 1
    apply eq_of_same_pair_order t1 t2 n1' n2' hp.cons_inv
    intro x y hxy
    rcases List.sublist_cons_iff.mp (h x y (hxy.cons a)) with h2 | ⟨r, e, _⟩
    · exact h2
    · have : x = a := (List.cons.inj e).1
      exact absurd (this ▸ hxy.subset (by simp)) ha

/-- For a list without duplicates, keeping the order of every in-order *pair* already determines the sorted
    permutation. (With duplicates it does not: see `C13.pair_stability_not_enough`.) -/
theorem stable_sort_unique_of_nodup {le : α → α → Bool}
    {l l1 l2 : List α} (hn : l.Nodup) (p1 : l1.Perm l) (p2 : l2.Perm l)
    (s1 : l1.Pairwise (fun a b => le a b = true)) (s2 : l2.Pairwise (fun a b => le a b = true))
    (st1 : PairStableWrt le l l1) (st2 : PairStableWrt le l l2) : l1 = l2 := by
  have n1 : l1.Nodup := p1.nodup_iff.mpr hn
  have n2 : l2.Nodup := p2.nodup_iff.mpr hn
  have key : ∀ (l1 l2 : List α), l1.Nodup → l2.Nodup → l1.Perm l → l2.Perm l →
      l1.Pairwise (fun a b => le a b = true) → l2.Pairwise (fun a b => le a b = true) →
      PairStableWrt le l l1 → PairStableWrt le l l2 → ∀ x y, [x, y].Sublist l1 → [x, y].Sublist l2 := by
    intro l1 l2 n1 n2 p1 p2 s1 s2 st1 st2 x y hxy
    have hne : x ≠ y := by
      intro e; subst e; exact not_both_pair_sublist n1 hxy hxy
    have hx1 : x ∈ l1 := hxy.subset (by simp)
    have hy1 : y ∈ l1 := hxy.subset (by simp)
    have hle : le x y = true := by
      have := List.Pairwise.sublist hxy s1
      simpa using this
    rcases pair_sublist_or hne (p1.mem_iff.mp hx1) (p1.mem_iff.mp hy1) with h | h
    · exact st2 x y h hle
    · cases hyx : le y x
      · rcases pair_sublist_or hne (p2.mem_iff.mpr (p1.mem_iff.mp hx1)) (p2.mem_iff.mpr (p1.mem_iff.mp hy1))
          with h' | h'
        · exact h'
        · have := List.Pairwise.sublist h' s2
          simp [hyx] at this
      · exact absurd (st1 y x h hyx) (fun h' => not_both_pair_sublist n1 hxy h')
  exact eq_of_same_pair_order l1 l2 n1 n2 (p1.trans p2.symm) (key l1 l2 n1 n2 p1 p2 s1 s2 st1 st2)

end Lists

/-! ### bytewise order of UTF-8 = code point order -/

theorem encodeRune_lt (r s : Nat) (hr : isScalar r = true) (hs : isScalar s = true) (h : r < s) (A B : Bytes) :
    bytesLt (encodeRune r ++ A) (encodeRune s ++ B) = true := by
  unfold encodeRune
  simp only [hr, hs, not_true_eq_false, if_false]
  split <;> split <;> (try split) <;> (try split) <;> (try split) <;> (try split) <;>
    simp only [List.cons_append, List.nil_append, bytesLt] <;>
    (try omega) <;>
    (repeat' split) <;> (try rfl) <;> omega

theorem encodeRune_cons (r : Nat) : ∃ b t, encodeRune r = b :: t := by
  unfold encodeRune
  split
  · exact ⟨_, _, rfl⟩
  · split
    · exact ⟨_, _, rfl⟩
    · split
      · exact ⟨_, _, rfl⟩
      · split <;> exact ⟨_, _, rfl⟩

theorem bytesLt_append_left : ∀ (p a b : Bytes), bytesLt (p ++ a) (p ++ b) = bytesLt a b
  | [], _, _ => rfl
  | x :: p, a, b => by
    simp only [List.cons_append, bytesLt, Nat.lt_irrefl, gt_iff_lt, if_false]
    exact bytesLt_append_left p a b

theorem encodeAll_cons' (c : Nat) (cs : List Nat) : encodeAll (c :: cs) = encodeRune c ++ encodeAll cs := by
  simp [encodeAll]

/-- For valid UTF-8 (the encoding of a list of scalar values), Go's bytewise string `<` is the lexicographic order
    of the code point sequences (`bytesLt` on `List Nat` *is* lexicographic order). -/
theorem bytesLt_codepoint_order : ∀ (ra rb : List Nat),
    (∀ r ∈ ra, isScalar r = true) → (∀ r ∈ rb, isScalar r = true) →
    bytesLt (encodeAll ra) (encodeAll rb) = bytesLt ra rb
  | [], [], _, _ => rfl
  | [], s :: rb, _, _ => by
    rw [encodeAll_cons']
    obtain ⟨b, t, e⟩ := encodeRune_cons s
    rw [e]; rfl
  | r :: ra, [], _, _ => by
    rw [encodeAll_cons']
    obtain ⟨b, t, e⟩ := encodeRune_cons r
    rw [e]; rfl
  | r :: ra, s :: rb, ha, hb => by
    have hr := ha r (by simp)
    have hs := hb s (by simp)
    rw [encodeAll_cons', encodeAll_cons']
    simp only [bytesLt]
    by_cases h1 : r < s
    · simp only [h1, if_true]
      exact encodeRune_lt r s hr hs h1 _ _
    · by_cases h2 : r > s
      · simp only [h1, h2, if_true, if_false]
        exact bytesLt_asymm (encodeRune_lt s r hs hr h2 _ _)
      · have e : r = s := by omega
        subst e
        simp only [h1, if_false]
        rw [bytesLt_append_left]
        exact bytesLt_codepoint_order ra rb (fun x hx => ha x (List.mem_cons_of_mem _ hx))
          (fun x hx => hb x (List.mem_cons_of_mem _ hx))

end Jmes
