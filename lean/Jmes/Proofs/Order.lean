/-
  Order-theoretic helper lemmas for C13: `bytesLt` is a strict total order, `Dec.compare` is a total preorder
  (NaN below everything), the `Key` comparators, and generic facts about `List.mergeSort`.
-/
import Jmes.Model.Array
namespace Jmes

/-! ### `bytesLt` is a strict total order -/

theorem bytesLt_irrefl : ∀ a : Bytes, bytesLt a a = false
  | [] => rfl
  | x :: xs => by simp [bytesLt, bytesLt_irrefl xs]

theorem bytesLt_trans : ∀ {a b c : Bytes}, bytesLt a b = true → bytesLt b c = true → bytesLt a c = true
  | [], [], _, h, _ => by simp [bytesLt] at h
  | [], _ :: _, [], _, h => by simp [bytesLt] at h
  | [], _ :: _, _ :: _, _, _ => rfl
  | _ :: _, [], _, h, _ => by simp [bytesLt] at h
  | _ :: _, _ :: _, [], _, h => by simp [bytesLt] at h
  | x :: xs, y :: ys, z :: zs, h1, h2 => by
    simp only [bytesLt] at h1 h2 ⊢
    by_cases hxy : x < y
    · by_cases hyz : y < z
      · have : x < z := by omega
        simp [this]
      · by_cases hzy : y > z
        · simp [hyz, hzy] at h2
        · have : x < z := by omega
          simp [this]
    · by_cases hyx : x > y
      · simp [hxy, hyx] at h1
      · simp only [hxy, hyx, if_false] at h1
        by_cases hyz : y < z
        · have : x < z := by omega
          simp [this]
        · by_cases hzy : y > z
          · simp [hyz, hzy] at h2
          · simp only [hyz, hzy, if_false] at h2
            have h3 : ¬ x < z := by omega
            have h4 : ¬ x > z := by omega
            simp only [h3, h4, if_false]
            exact bytesLt_trans h1 h2

/-- trichotomy -/
theorem bytesLt_total : ∀ a b : Bytes, bytesLt a b = true ∨ a = b ∨ bytesLt b a = true
  | [], [] => .inr (.inl rfl)
  | [], _ :: _ => .inl rfl
  | _ :: _, [] => .inr (.inr rfl)
  | x :: xs, y :: ys => by
    simp only [bytesLt]
    by_cases hxy : x < y
    · simp [hxy]
    · by_cases hyx : x > y
      · have : y < x := hyx
        simp [this]
      · have : x = y := by omega
        subst this
        simp only [Nat.lt_irrefl, gt_iff_lt, if_false]
        rcases bytesLt_total xs ys with h | h | h
        · exact .inl h
        · exact .inr (.inl (by rw [h]))
        · exact .inr (.inr h)

theorem bytesLt_asymm {a b : Bytes} (h : bytesLt a b = true) : bytesLt b a = false := by
  cases h' : bytesLt b a
  · rfl
  · have := bytesLt_trans h h'
    rw [bytesLt_irrefl] at this
    cases this

/-- `a ≤ b` as `!(b < a)` -/
def bytesLe (a b : Bytes) : Bool := !bytesLt b a

theorem bytesLe_total (a b : Bytes) : (bytesLe a b || bytesLe b a) = true := by
  unfold bytesLe
  rcases bytesLt_total a b with h | h | h
  · simp [bytesLt_asymm h]
  · subst h; simp [bytesLt_irrefl]
  · simp [bytesLt_asymm h]

theorem bytesLe_trans {a b c : Bytes} (h1 : bytesLe a b = true) (h2 : bytesLe b c = true) :
    bytesLe a c = true := by
  unfold bytesLe at *
  simp only [Bool.not_eq_eq_eq_not, Bool.not_true] at *
  -- ¬ b < a, ¬ c < b ⊢ ¬ c < a
  cases h : bytesLt c a
  · rfl
  · rcases bytesLt_total a b with hab | hab | hab
    · have := bytesLt_trans h hab
      rw [h2] at this; cases this
    · subst hab; rw [h] at h2; cases h2
    · rw [h1] at hab; cases hab

theorem bytesLe_antisymm {a b : Bytes} (h1 : bytesLe a b = true) (h2 : bytesLe b a = true) : a = b := by
  unfold bytesLe at *
  rcases bytesLt_total a b with h | h | h
  · simp [h] at h2
  · exact h
  · simp [h] at h1

/-! ### the decimal order -/

namespace Dec

def expo : Dec → Int
  | .fin _ _ e => e
  | _ => 0

/-- signed coefficient of a finite value at exponent `m` (exact when `m ≤ e`) -/
def sv (n : Bool) (c : Nat) (e m : Int) : Int := (if n then -1 else 1) * ((c * pow10 (e - m).toNat : Nat) : Int)

/-- `(rank, value at exponent m)`: NaN < -Inf < finite < +Inf -/
def key (m : Int) : Dec → Int × Int
  | .nan => (-2, 0)
  | .inf true => (-1, 0)
  | .inf false => (1, 0)
  | .fin n c e => (0, sv n c e m)

def lexcmp (p q : Int × Int) : Int :=
  if p.1 < q.1 then -1 else if q.1 < p.1 then 1
  else if p.2 < q.2 then -1 else if p.2 = q.2 then 0 else 1

theorem sv_rescale (n : Bool) (c : Nat) (e e' m : Int) (h1 : m ≤ e') (h2 : e' ≤ e) :
    sv n c e m = sv n c e e' * ((pow10 (e' - m).toNat : Nat) : Int) := by
  unfold sv pow10
  have : (e - m).toNat = (e - e').toNat + (e' - m).toNat := by omega
  rw [this, Nat.pow_add, ← Nat.mul_assoc, Int.natCast_mul (c * 10 ^ (e - e').toNat), Int.mul_assoc]

theorem pow10_pos (k : Nat) : 0 < ((pow10 k : Nat) : Int) := by
  unfold pow10
  exact Int.natCast_pos.mpr (Nat.pow_pos (by decide))

theorem cmpFin_eq (n1 : Bool) (c1 : Nat) (e1 : Int) (n2 : Bool) (c2 : Nat) (e2 m : Int)
    (h1 : m ≤ e1) (h2 : m ≤ e2) :
    cmpFin n1 c1 e1 n2 c2 e2 =
      (if sv n1 c1 e1 m < sv n2 c2 e2 m then -1 else if sv n1 c1 e1 m = sv n2 c2 e2 m then 0 else 1) := by
  have hm : m ≤ min e1 e2 := by omega
  rw [sv_rescale n1 c1 e1 (min e1 e2) m hm (by omega), sv_rescale n2 c2 e2 (min e1 e2) m hm (by omega)]
  have hk := pow10_pos (min e1 e2 - m).toNat
  generalize ((pow10 (min e1 e2 - m).toNat : Nat) : Int) = k at hk
  show (if sv n1 c1 e1 (min e1 e2) < sv n2 c2 e2 (min e1 e2) then (-1 : Int)
        else if sv n1 c1 e1 (min e1 e2) = sv n2 c2 e2 (min e1 e2) then 0 else 1) = _
  generalize sv n1 c1 e1 (min e1 e2) = a
  generalize sv n2 c2 e2 (min e1 e2) = b
  have hlt : a * k < b * k ↔ a < b := Int.mul_lt_mul_right hk
  have heq : a * k = b * k ↔ a = b := by
    constructor
    · intro h; exact Int.eq_of_mul_eq_mul_right (by omega) h
    · intro h; rw [h]
  simp only [hlt, heq]

theorem compare_eq_key (a b : Dec) (m : Int) (ha : m ≤ expo a) (hb : m ≤ expo b) :
    compare a b = lexcmp (key m a) (key m b) := by
  cases a with
  | nan => cases b with
    | nan => rfl
    | inf n => cases n <;> rfl
    | fin n c e => rfl
  | inf n => cases b with
    | nan => cases n <;> rfl
    | inf n' => cases n <;> cases n' <;> rfl
    | fin n' c e => cases n <;> rfl
  | fin n c e => cases b with
    | nan => rfl
    | inf n' => cases n' <;> rfl
    | fin n' c' e' =>
      show cmpFin n c e n' c' e' = _
      rw [cmpFin_eq n c e n' c' e' m ha hb]
      simp only [lexcmp, key, Int.lt_irrefl, if_false]
      split
      · rename_i h; rw [if_pos h]
      · rename_i h; rw [if_neg h]
        split
        · rename_i h'; rw [if_pos h']
        · rename_i h'; rw [if_neg h']

/-- an exponent below those of three values -/
def expo3 (a b c : Dec) : Int := min (expo a) (min (expo b) (expo c))

theorem compare_self (a : Dec) : compare a a = 0 := by
  rw [compare_eq_key a a (expo a) (Int.le_refl _) (Int.le_refl _)]
  simp [lexcmp]

theorem compare_antisymm (a b : Dec) : compare b a = - compare a b := by
  have h1 := compare_eq_key a b (min (expo a) (expo b)) (by omega) (by omega)
  have h2 := compare_eq_key b a (min (expo a) (expo b)) (by omega) (by omega)
  rw [h1, h2]
  unfold lexcmp
  generalize key (min (expo a) (expo b)) a = p
  generalize key (min (expo a) (expo b)) b = q
  split <;> split <;> (try split) <;> (try split) <;> (try split) <;> (try split) <;> omega

theorem compare_range (a b : Dec) : compare a b = -1 ∨ compare a b = 0 ∨ compare a b = 1 := by
  rw [compare_eq_key a b (min (expo a) (expo b)) (by omega) (by omega)]
  unfold lexcmp
  split <;> (try split) <;> (try split) <;> (try split) <;> simp

/-- **transitivity of the decimal order** (`Compare(a,b) ≤ 0`) -/
theorem compare_trans {a b c : Dec} (h1 : compare a b ≤ 0) (h2 : compare b c ≤ 0) : compare a c ≤ 0 := by
  have ka := compare_eq_key a b (expo3 a b c) (by unfold expo3; omega) (by unfold expo3; omega)
  have kb := compare_eq_key b c (expo3 a b c) (by unfold expo3; omega) (by unfold expo3; omega)
  have kc := compare_eq_key a c (expo3 a b c) (by unfold expo3; omega) (by unfold expo3; omega)
  rw [ka] at h1; rw [kb] at h2; rw [kc]
  revert h1 h2
  unfold lexcmp
  generalize key (expo3 a b c) a = p
  generalize key (expo3 a b c) b = q
  generalize key (expo3 a b c) c = r
  intro h1 h2
  split at h1 <;> (try split at h1) <;> (try split at h1) <;> (try split at h1) <;>
  split at h2 <;> (try split at h2) <;> (try split at h2) <;> (try split at h2) <;>
  split <;> (try split) <;> (try split) <;> (try split) <;> omega

/-- strict version: `a < b ≤ c → a < c` and `a ≤ b < c → a < c` -/
theorem compare_lt_of_lt_of_le {a b c : Dec} (h1 : compare a b < 0) (h2 : compare b c ≤ 0) : compare a c < 0 := by
  have ka := compare_eq_key a b (expo3 a b c) (by unfold expo3; omega) (by unfold expo3; omega)
  have kb := compare_eq_key b c (expo3 a b c) (by unfold expo3; omega) (by unfold expo3; omega)
  have kc := compare_eq_key a c (expo3 a b c) (by unfold expo3; omega) (by unfold expo3; omega)
  rw [ka] at h1; rw [kb] at h2; rw [kc]
  revert h1 h2
  unfold lexcmp
  generalize key (expo3 a b c) a = p
  generalize key (expo3 a b c) b = q
  generalize key (expo3 a b c) c = r
  intro h1 h2
  split at h1 <;> (try split at h1) <;> (try split at h1) <;> (try split at h1) <;>
  split at h2 <;> (try split at h2) <;> (try split at h2) <;> (try split at h2) <;>
  split <;> (try split) <;> (try split) <;> (try split) <;> omega

theorem compare_total (a b : Dec) : compare a b ≤ 0 ∨ compare b a ≤ 0 := by
  rw [compare_antisymm a b]; omega

/-- the comparator of `sort` on numbers -/
def le (a b : Dec) : Bool := decide (compare a b ≤ 0)

theorem le_total (a b : Dec) : (le a b || le b a) = true := by
  unfold le
  rcases compare_total a b with h | h <;> simp [h]

theorem le_trans {a b c : Dec} (h1 : le a b = true) (h2 : le b c = true) : le a c = true := by
  unfold le at *
  simp only [decide_eq_true_eq] at *
  exact compare_trans h1 h2

/-! `greater` / `less` (NaN is incomparable) in terms of `compare` -/

theorem greater_iff (a b : Dec) : greater a b = true ↔ (a.isNaN = false ∧ b.isNaN = false ∧ compare a b = 1) := by
  cases a with
  | nan => simp [greater, cmp, isNaN]
  | inf n => cases b with
    | nan => simp [greater, cmp, isNaN]
    | inf n' => simp [greater, cmp, isNaN, compare]
    | fin n' c e => simp [greater, cmp, isNaN, compare]
  | fin n c e => cases b with
    | nan => simp [greater, cmp, isNaN]
    | inf n' => simp [greater, cmp, isNaN, compare]
    | fin n' c' e' => simp [greater, cmp, isNaN, compare]

theorem less_iff (a b : Dec) : less a b = true ↔ (a.isNaN = false ∧ b.isNaN = false ∧ compare a b = -1) := by
  cases a with
  | nan => simp [less, cmp, isNaN]
  | inf n => cases b with
    | nan => simp [less, cmp, isNaN]
    | inf n' => simp [less, cmp, isNaN, compare]
    | fin n' c e => simp [less, cmp, isNaN, compare]
  | fin n c e => cases b with
    | nan => simp [less, cmp, isNaN]
    | inf n' => simp [less, cmp, isNaN, compare]
    | fin n' c' e' => simp [less, cmp, isNaN, compare]

theorem greater_trans {a b c : Dec} (h1 : greater a b = true) (h2 : greater b c = true) : greater a c = true := by
  rw [greater_iff] at *
  refine ⟨h1.1, h2.2.1, ?_⟩
  have h3 : compare c b < 0 := by rw [compare_antisymm b c]; omega
  have h4 : compare b a ≤ 0 := by rw [compare_antisymm a b]; omega
  have := compare_lt_of_lt_of_le h3 h4
  rw [compare_antisymm a c] at this
  rcases compare_range a c with h | h | h <;> omega

theorem less_trans {a b c : Dec} (h1 : less a b = true) (h2 : less b c = true) : less a c = true := by
  rw [less_iff] at *
  refine ⟨h1.1, h2.2.1, ?_⟩
  have := compare_lt_of_lt_of_le (a := a) (b := b) (c := c) (by omega) (by omega)
  rcases compare_range a c with h | h | h <;> omega

theorem greater_irrefl (a : Dec) : greater a a = false := by
  cases h : greater a a
  · rfl
  · rw [greater_iff, compare_self] at h; omega

theorem less_irrefl (a : Dec) : less a a = false := by
  cases h : less a a
  · rfl
  · rw [less_iff, compare_self] at h; omega

end Dec
end Jmes
