/-
  C17 (third part, helper) — evaluation is COMPOSITIONAL: `ieval` of a node depends on its sub-nodes only through
  their `ieval`.

  For a fixed root document two relations on nodes are considered:

    * `NEq root n1 n2`      the two nodes evaluate to the same outcome on every current value and environment;
    * `NAgree root n1 n2`   … to `C17.Agree`-ing outcomes: the same value, or both fail (the relation in which the
                            C17 identities "projection then selector = projection | [*] selector" hold).

  Both are shown to be congruences for EVERY constructor of `INode` in EVERY child position (section 3 and 4), with one
  side condition: `.projectArray l r` inspects `l.isSlice` syntactically (a string produced by a slice node is handed to
  `r` whole), so its congruence in `l` needs `l1.isSlice = l2.isSlice`; `projectArray_left_needs_isSlice` is the
  counterexample without it.  The facts are bundled in the structure `Cong R` ("`R` is a congruence on nodes"),
  instantiated by `NEq.cong` and `NAgree.cong`; `Proofs/C17CCtx.lean` lifts any `Cong R` through one-hole contexts of
  parse trees.

    1. `Agree` is an equivalence; `agree_bind` (both the computation and the continuation may change)
    2. value level: the higher-order loops of the evaluator (`mapPrune`, `projectArray`, `filterLoop`, `filterArray`,
       `filterMapPrune`, `filterAndProjectArray`, `flattenAndProjectArray`, `mapAll`, `mapArray`, `projectObject`,
       `keysFrom`, `keysOf`, `arrayPickBy`, `arrayMaxBy`, `arrayMinBy`, `sortArrayBy`, `groupLoop`, `groupBy`) respect
       `Agree` of their function arguments; `widen` and `combineUnordered` respect `Agree`
    3. node lists: `ievalList`, `ievalFields`, `ievalMerge`, `ievalNotNull`, `ievalZip`
    4. one congruence lemma per constructor: `NAgree.pipe`, `NAgree.call`, … and `NEq.pipe`, `NEq.call`, …
    5. `Cong`, `NEq.cong`, `NAgree.cong`
    6. `projectArray_left_needs_isSlice` (the counterexample), examples
    7. `eq_cong`: syntactic equality of nodes is a congruence too

  `INode` has 53 constructors: 12 without a child node (reflexivity) and 41 with children, each with its lemma.
  Lists are related element-wise by `Forall₂` (defined here: the core library has no `List.Forall₂`), member lists
  by `Forall₂ (FRel R)`: equal keys and related nodes.
-/
import Jmes.Properties.C17
namespace Jmes.C17C.Congr
open Jmes Jmes.C17
set_option linter.unusedSimpArgs false
set_option linter.unusedVariables false

/-! ## 0. The two relations -/

/-- the two nodes evaluate to the same outcome, whatever the current value and the bindings -/
def NEq (root : Val) (n1 n2 : INode) : Prop := ∀ cur env, ieval root n1 cur env = ieval root n2 cur env

/-- the two nodes evaluate to agreeing outcomes (the same value, or both fail), whatever the current value and the
    bindings -/
def NAgree (root : Val) (n1 n2 : INode) : Prop := ∀ cur env, Agree (ieval root n1 cur env) (ieval root n2 cur env)

/-- two lists related element-wise (the core library has no `List.Forall₂`) -/
inductive Forall₂ {α β : Type} (R : α → β → Prop) : List α → List β → Prop
  | nil : Forall₂ R [] []
  | cons {a : α} {b : β} {l1 : List α} {l2 : List β} : R a b → Forall₂ R l1 l2 → Forall₂ R (a :: l1) (b :: l2)

/-- related lists have the same length -/
theorem Forall₂.length_eq {α β : Type} {R : α → β → Prop} {l1 : List α} {l2 : List β} (h : Forall₂ R l1 l2) :
    l1.length = l2.length := by
  induction h with
  | nil => rfl
  | cons _ _ ih => simp only [List.length_cons, ih]

/-- a weaker relation -/
theorem Forall₂.imp {α β : Type} {R S : α → β → Prop} (hRS : ∀ a b, R a b → S a b) {l1 : List α} {l2 : List β}
    (h : Forall₂ R l1 l2) : Forall₂ S l1 l2 := by
  induction h with
  | nil => exact .nil
  | cons hx _ ih => exact .cons (hRS _ _ hx) ih

example : Forall₂ (fun (a b : Nat) => a ≤ b) [1, 2] [1, 3] := .cons (Nat.le_refl _) (.cons (by decide) .nil)

/-! ## 1. `Agree` is an equivalence and is respected by `>>=` -/

/-- `Agree` is symmetric -/
theorem agree_symm {α} {x y : Res α} (h : Agree x y) : Agree y x := by
  rcases h with ⟨b, h1, h2⟩ | ⟨h1, h2⟩
  · exact Or.inl ⟨b, h2, h1⟩
  · exact Or.inr ⟨h2, h1⟩

/-- `Agree` is transitive -/
theorem agree_trans {α} {x y z : Res α} (h1 : Agree x y) (h2 : Agree y z) : Agree x z := by
  rcases h1 with ⟨b, a1, a2⟩ | ⟨a1, a2⟩
  · rcases h2 with ⟨c, b1, b2⟩ | ⟨b1, b2⟩
    · rw [a2] at b1
      cases b1
      exact Or.inl ⟨b, a1, b2⟩
    · rw [a2] at b1; exact Bool.noConfusion b1
  · rcases h2 with ⟨c, b1, b2⟩ | ⟨b1, b2⟩
    · rw [b1] at a2; exact Bool.noConfusion a2
    · exact Or.inr ⟨a1, b2⟩

/-- equal outcomes agree -/
theorem agree_of_eq {α} {x y : Res α} (h : x = y) : Agree x y := h ▸ Agree.refl x

/-- two failures agree -/
theorem agree_of_not_ok {α} {x y : Res α} (h1 : isOk x = false) (h2 : isOk y = false) : Agree x y := Or.inr ⟨h1, h2⟩

/-- agreeing outcomes succeed together -/
theorem agree_isOk {α} {x y : Res α} (h : Agree x y) : isOk x = isOk y := by
  rcases h with ⟨b, h1, h2⟩ | ⟨h1, h2⟩
  · rw [h1, h2]
  · rw [h1, h2]

/-- **`>>=` respects `Agree`** in both arguments -/
theorem agree_bind {α β} {x y : Res α} {f g : α → Res β} (h : Agree x y) (hf : ∀ a, Agree (f a) (g a)) :
    Agree (x >>= f) (y >>= g) := by
  rcases h with ⟨b, h1, h2⟩ | ⟨h1, h2⟩
  · rw [h1, h2]; exact hf b
  · exact Or.inr ⟨isOk_bind_left _ _ h1, isOk_bind_left _ _ h2⟩

example : Agree ((Res.err [Cat.invalidType] : Res Val) >>= fun v => Res.ok (Val.arr .plain [v]))
    ((Res.nondet : Res Val) >>= fun v => Res.ok (Val.arr .plain [v])) :=
  agree_bind (Or.inr ⟨rfl, rfl⟩) fun _ => Agree.refl _

/-- `widen` never changes whether the outcome is a value, and is the identity on a value: it respects `Agree`,
    whatever the element lists, function lists and extra categories on the two sides -/
theorem agree_widen {α} {r1 r2 : Res α} (h : Agree r1 r2) (t1 t2 : ATag) (xs1 xs2 : List Val)
    (fs1 fs2 : List (Val → Res Val)) (e1 e2 : List Cat) : Agree (widen t1 xs1 fs1 e1 r1) (widen t2 xs2 fs2 e2 r2) := by
  rcases h with ⟨b, h1, h2⟩ | ⟨h1, h2⟩
  · rw [h1, h2]; exact Or.inl ⟨b, rfl, rfl⟩
  · exact Or.inr ⟨by rw [isOk_widen]; exact h1, by rw [isOk_widen]; exact h2⟩

example : Agree (widen .enum [.null, .null] [fun _ => Res.nondet] [] (Res.err [Cat.invalidType] : Res Val))
    (widen .plain [] [] [] (Res.err [Cat.invalidValue] : Res Val)) :=
  agree_widen (Or.inr ⟨rfl, rfl⟩) _ _ _ _ _ _ _ _

/-- `combineUnordered acc k r` is a value iff both `acc` and `r` are … -/
theorem isOk_combineUnordered (acc : Res (List (Bytes × Val))) (k : Bytes) (r : Res Val) :
    isOk (combineUnordered acc k r) = (isOk acc && isOk r) := by
  cases acc <;> cases r <;> rfl

/-- … and then it is `objInsert` -/
theorem combineUnordered_ok (kvs : List (Bytes × Val)) (k : Bytes) (v : Val) :
    combineUnordered (Res.ok kvs) k (Res.ok v) = Res.ok (objInsert k v kvs) := rfl

/-- `combineUnordered` respects `Agree` -/
theorem agree_combineUnordered {a1 a2 : Res (List (Bytes × Val))} {r1 r2 : Res Val} (ha : Agree a1 a2)
    (hr : Agree r1 r2) (k : Bytes) : Agree (combineUnordered a1 k r1) (combineUnordered a2 k r2) := by
  rcases ha with ⟨kvs, h1, h2⟩ | ⟨h1, h2⟩
  · rcases hr with ⟨v, g1, g2⟩ | ⟨g1, g2⟩
    · rw [h1, h2, g1, g2]; exact Agree.refl _
    · refine Or.inr ⟨?_, ?_⟩ <;> rw [isOk_combineUnordered]
      · rw [g1]; exact Bool.and_false _
      · rw [g2]; exact Bool.and_false _
  · refine Or.inr ⟨?_, ?_⟩ <;> rw [isOk_combineUnordered]
    · rw [h1]; rfl
    · rw [h2]; rfl

example : combineUnordered (Res.ok []) [97] (Res.ok (.bool true)) = Res.ok [([97], .bool true)] := rfl

/-! ## 2. Value level: the evaluator's loops respect `Agree` of the functions they are given -/

section Loops
variable {f g : Val → Res Val} (h : ∀ x, Agree (f x) (g x))
include h

/-- the loop of `projectArray` (apply `f`, drop null results) respects `Agree` of the function(s) it is given -/
theorem mapPrune_agree : ∀ xs, Agree (mapPrune f xs) (mapPrune g xs)
  | [] => Agree.refl _
  | x :: xs => by
    simp only [mapPrune]
    exact agree_bind (h x) fun p => agree_bind (mapPrune_agree xs) fun rest => Agree.refl _

/-- `projectArray` (`[*]`) respects `Agree` of the function(s) it is given -/
theorem projectArray_agree (v : Val) : Agree (projectArray f v) (projectArray g v) := by
  cases v <;> simp only [projectArray] <;> try exact Agree.refl _
  exact agree_widen (agree_bind (mapPrune_agree h _) fun _ => Agree.refl _) _ _ _ _ _ _ _ _

/-- the loop of `filterArray` respects `Agree` of the function(s) it is given -/
theorem filterLoop_agree : ∀ xs, Agree (filterLoop f xs) (filterLoop g xs)
  | [] => Agree.refl _
  | x :: xs => by
    simp only [filterLoop]
    exact agree_bind (h x) fun p => agree_bind (filterLoop_agree xs) fun rest => Agree.refl _

/-- `filterArray` (`[?c]`) respects `Agree` of the function(s) it is given -/
theorem filterArray_agree (v : Val) : Agree (filterArray f v) (filterArray g v) := by
  cases v <;> simp only [filterArray] <;> try exact Agree.refl _
  exact agree_widen (agree_bind (filterLoop_agree h _) fun _ => Agree.refl _) _ _ _ _ _ _ _ _

/-- `flattenAndProjectArray` (`[] rhs`) respects `Agree` of the function(s) it is given -/
theorem flattenAndProjectArray_agree (v : Val) :
    Agree (flattenAndProjectArray f v) (flattenAndProjectArray g v) := by
  cases v <;> simp only [flattenAndProjectArray] <;> try exact Agree.refl _
  exact agree_widen (agree_bind (mapPrune_agree h _) fun _ => Agree.refl _) _ _ _ _ _ _ _ _

/-- the loop of `mapArray` respects `Agree` of the function(s) it is given -/
theorem mapAll_agree : ∀ xs, Agree (mapAll f xs) (mapAll g xs)
  | [] => Agree.refl _
  | x :: xs => by
    simp only [mapAll]
    exact agree_bind (h x) fun p => agree_bind (mapAll_agree xs) fun rest => Agree.refl _

/-- `mapArray` (`map(&e, x)`) respects `Agree` of the function(s) it is given -/
theorem mapArray_agree (v : Val) : Agree (mapArray f v) (mapArray g v) := by
  cases v <;> simp only [mapArray] <;> try exact Agree.refl _
  exact agree_widen (agree_bind (mapAll_agree h _) fun _ => Agree.refl _) _ _ _ _ _ _ _ _

/-- `projectObject` (`.* rhs`) respects `Agree` of the function(s) it is given -/
theorem projectObject_agree (v : Val) : Agree (projectObject f v) (projectObject g v) := by
  cases v <;> simp only [projectObject] <;> try exact Agree.refl _
  exact agree_widen (agree_bind (mapPrune_agree h _) fun _ => Agree.refl _) _ _ _ _ _ _ _ _

/-- the key loop of `sort_by` / `max_by` / `min_by` after the first element respects `Agree` of the function(s) it is given -/
theorem keysFrom_agree (isStr : Bool) : ∀ xs, Agree (keysFrom f isStr xs) (keysFrom g isStr xs)
  | [] => Agree.refl _
  | x :: xs => by
    simp only [keysFrom]
    exact agree_bind (h x) fun rv => agree_bind (Agree.refl _) fun k =>
      agree_bind (keysFrom_agree isStr xs) fun rest => Agree.refl _

/-- the key loop of `sort_by` / `max_by` / `min_by` respects `Agree` of the function(s) it is given -/
theorem keysOf_agree : ∀ xs, Agree (keysOf f xs) (keysOf g xs)
  | [] => Agree.refl _
  | x :: xs => by
    simp only [keysOf]
    refine agree_bind (h x) fun first => ?_
    cases first <;> simp only []
    case str s => exact agree_bind (keysFrom_agree h true xs) fun _ => Agree.refl _
    all_goals
      cases toDecimal _ <;> simp only []
      · exact Agree.refl _
      · exact agree_bind (keysFrom_agree h false xs) fun _ => Agree.refl _

/-- `max_by` / `min_by`, generically respects `Agree` of the function(s) it is given -/
theorem arrayPickBy_agree (better : Key → Key → Bool) (v : Val) :
    Agree (arrayPickBy better f v) (arrayPickBy better g v) := by
  cases v <;> simp only [arrayPickBy] <;> try exact Agree.refl _
  rename_i t xs
  cases xs <;> simp only []
  · exact Agree.refl _
  · exact agree_widen (agree_bind (keysOf_agree h _) fun _ => Agree.refl _) _ _ _ _ _ _ _ _

/-- `max_by` respects `Agree` of the function(s) it is given -/
theorem arrayMaxBy_agree (v : Val) : Agree (arrayMaxBy f v) (arrayMaxBy g v) := arrayPickBy_agree h _ v
/-- `min_by` respects `Agree` of the function(s) it is given -/
theorem arrayMinBy_agree (v : Val) : Agree (arrayMinBy f v) (arrayMinBy g v) := arrayPickBy_agree h _ v

/-- `sort_by` respects `Agree` of the function(s) it is given -/
theorem sortArrayBy_agree (v : Val) : Agree (sortArrayBy f v) (sortArrayBy g v) := by
  cases v <;> simp only [sortArrayBy] <;> try exact Agree.refl _
  split
  · exact Agree.refl _
  · exact agree_widen (agree_bind (keysOf_agree h _) fun _ => Agree.refl _) _ _ _ _ _ _ _ _

/-- the loop of `group_by`, with any accumulator respects `Agree` of the function(s) it is given -/
theorem groupLoop_agree : ∀ xs acc, Agree (groupLoop f xs acc) (groupLoop g xs acc)
  | [], _ => Agree.refl _
  | x :: xs, acc => by
    simp only [groupLoop]
    refine agree_bind (h x) fun rv => ?_
    cases rv <;> simp only [] <;> first | exact Agree.refl _ | exact groupLoop_agree xs _

/-- `group_by` respects `Agree` of the function(s) it is given -/
theorem groupBy_agree (v : Val) : Agree (groupBy f v) (groupBy g v) := by
  cases v <;> simp only [groupBy] <;> try exact Agree.refl _
  split
  · exact Agree.refl _
  · exact agree_widen (agree_bind (groupLoop_agree h _ _) fun _ => Agree.refl _) _ _ _ _ _ _ _ _

end Loops

section Loops2
variable {c1 c2 f1 f2 : Val → Res Val} (hc : ∀ x, Agree (c1 x) (c2 x)) (hf : ∀ x, Agree (f1 x) (f2 x))
include hc hf

/-- the loop of `filterAndProjectArray` respects `Agree` of the function(s) it is given -/
theorem filterMapPrune_agree : ∀ xs, Agree (filterMapPrune c1 f1 xs) (filterMapPrune c2 f2 xs)
  | [] => Agree.refl _
  | x :: xs => by
    simp only [filterMapPrune]
    refine agree_bind (hc x) fun b => ?_
    split
    · exact agree_bind (hf x) fun p => agree_bind (filterMapPrune_agree xs) fun rest => Agree.refl _
    · exact filterMapPrune_agree xs

/-- `filterAndProjectArray` (`[?c] rhs`) respects `Agree` of the function(s) it is given -/
theorem filterAndProjectArray_agree (v : Val) :
    Agree (filterAndProjectArray c1 f1 v) (filterAndProjectArray c2 f2 v) := by
  cases v <;> simp only [filterAndProjectArray] <;> try exact Agree.refl _
  exact agree_widen (agree_bind (filterMapPrune_agree hc hf _) fun _ => Agree.refl _) _ _ _ _ _ _ _ _

end Loops2

/-- non-vacuity: an element on which `f` reports a type error and `g` an undefined variable: the two projections
    fail with different reports, and agree -/
example :
    projectArray (fun v => if v.isNull then Res.err [Cat.invalidType] else Res.ok v) (.arr .plain [.bool true, .null])
      = .err [Cat.invalidType] ∧
    projectArray (fun v => if v.isNull then Res.err [Cat.undefinedVariable] else Res.ok v) (.arr .plain [.bool true, .null])
      = .err [Cat.undefinedVariable] ∧
    Agree (projectArray (fun v => if v.isNull then Res.err [Cat.invalidType] else Res.ok v) (.arr .plain [.bool true, .null]))
      (projectArray (fun v => if v.isNull then Res.err [Cat.undefinedVariable] else Res.ok v) (.arr .plain [.bool true, .null])) :=
  ⟨rfl, rfl, projectArray_agree (fun x => by cases x <;> first | exact Agree.refl _ | exact Or.inr ⟨rfl, rfl⟩) _⟩

/-! ## 3. The relations; lists of nodes -/

/-- `NEq` is reflexive -/
theorem NEq.refl {root : Val} (n : INode) : NEq root n n := fun _ _ => rfl
/-- `NEq` is symmetric -/
theorem NEq.symm {root : Val} {a b : INode} (h : NEq root a b) : NEq root b a := fun cur env => (h cur env).symm
/-- `NEq` is transitive -/
theorem NEq.trans {root : Val} {a b c : INode} (h1 : NEq root a b) (h2 : NEq root b c) : NEq root a c :=
  fun cur env => (h1 cur env).trans (h2 cur env)
/-- `NAgree` is reflexive -/
theorem NAgree.refl {root : Val} (n : INode) : NAgree root n n := fun _ _ => Agree.refl _
/-- `NAgree` is symmetric -/
theorem NAgree.symm {root : Val} {a b : INode} (h : NAgree root a b) : NAgree root b a :=
  fun cur env => agree_symm (h cur env)
/-- `NAgree` is transitive -/
theorem NAgree.trans {root : Val} {a b c : INode} (h1 : NAgree root a b) (h2 : NAgree root b c) : NAgree root a c :=
  fun cur env => agree_trans (h1 cur env) (h2 cur env)
/-- equal evaluation is agreeing evaluation -/
theorem NEq.toNAgree {root : Val} {a b : INode} (h : NEq root a b) : NAgree root a b :=
  fun cur env => agree_of_eq (h cur env)
/-- the same node built twice -/
theorem NEq.of_eq {root : Val} {a b : INode} (h : a = b) : NEq root a b := h ▸ NEq.refl a

/-- `a.b` and `a | b` are the same node -/
example (root : Val) : NEq root (.pipe (.field [97]) (.field [98])) (.pipe (.field [97]) (.field [98])) := NEq.refl _
/-- `l | @` against `l`: different nodes, equal evaluation -/
example (root : Val) (l : INode) : NEq root (.pipe l .current) l := fun cur env => pipe_current_right root l cur env
/-- `[*].a.b` against `[*].a | [*].b`: agreeing, not always equal (the error reports may differ) -/
example (root : Val) : NAgree root (.projectArray .current (.pipe (.field [97]) (.field [98])))
    (.pipe (.projectArray .current (.field [97])) (.projectArrayCurrent (.field [98]))) :=
  fun cur env => projection_then_selector_node root _ _ _ cur env rfl rfl

/-- members related key-wise: equal keys, related nodes -/
@[reducible] def FRel (R : INode → INode → Prop) (p q : Bytes × INode) : Prop := p.1 = q.1 ∧ R p.2 q.2

section Lists
variable {root : Val}

/-- arguments / multi-select members, left to right -/
theorem ievalList_agree {ns1 ns2 : List INode} (h : Forall₂ (NAgree root) ns1 ns2) (cur : Val) (env : Env) :
    Agree (ievalList root ns1 cur env) (ievalList root ns2 cur env) := by
  induction h with
  | nil => exact Agree.refl _
  | cons hx _ ih =>
    simp only [ievalList]
    exact agree_bind (hx cur env) fun v => agree_bind ih fun _ => Agree.refl _

/-- members of a multi-select hash / bindings of a `let` -/
theorem ievalFields_agree {fs1 fs2 : List (Bytes × INode)}
    (h : Forall₂ (fun p q => p.1 = q.1 ∧ NAgree root p.2 q.2) fs1 fs2) (cur : Val) (env : Env) :
    Agree (ievalFields root fs1 cur env) (ievalFields root fs2 cur env) := by
  induction h with
  | nil => exact Agree.refl _
  | @cons p q _ _ hx _ ih =>
    obtain ⟨k1, n1⟩ := p
    obtain ⟨k2, n2⟩ := q
    obtain ⟨hk, hn⟩ := hx
    simp only at hk hn
    subst hk
    simp only [ievalFields]
    exact agree_combineUnordered ih (hn cur env) _

/-- the arguments of `merge`, with any accumulator -/
theorem ievalMerge_agree {ns1 ns2 : List INode} (h : Forall₂ (NAgree root) ns1 ns2) (cur : Val) (env : Env) :
    ∀ acc, Agree (ievalMerge root ns1 cur env acc) (ievalMerge root ns2 cur env acc) := by
  induction h with
  | nil => exact fun _ => Agree.refl _
  | cons hx _ ih =>
    intro acc
    simp only [ievalMerge]
    refine agree_bind (hx cur env) fun v => ?_
    cases v <;> simp only [] <;> first | exact Agree.refl _ | exact ih _

/-- the arguments of `not_null` -/
theorem ievalNotNull_agree {ns1 ns2 : List INode} (h : Forall₂ (NAgree root) ns1 ns2) (cur : Val) (env : Env) :
    Agree (ievalNotNull root ns1 cur env) (ievalNotNull root ns2 cur env) := by
  induction h with
  | nil => exact Agree.refl _
  | cons hx _ ih =>
    simp only [ievalNotNull]
    refine agree_bind (hx cur env) fun v => ?_
    split
    · exact ih
    · exact Agree.refl _

/-- the arguments of `zip` -/
theorem ievalZip_agree {ns1 ns2 : List INode} (h : Forall₂ (NAgree root) ns1 ns2) (cur : Val) (env : Env) :
    Agree (ievalZip root ns1 cur env) (ievalZip root ns2 cur env) := by
  induction h with
  | nil => exact Agree.refl _
  | cons hx _ ih =>
    simp only [ievalZip]
    refine agree_bind (hx cur env) fun v => ?_
    cases v <;> simp only [] <;> first | exact Agree.refl _ | exact agree_bind ih fun _ => Agree.refl _

/-- arguments / multi-select members: equal evaluation -/
theorem ievalList_eq {ns1 ns2 : List INode} (h : Forall₂ (NEq root) ns1 ns2) (cur : Val) (env : Env) :
    ievalList root ns1 cur env = ievalList root ns2 cur env := by
  induction h with
  | nil => rfl
  | cons hx _ ih => simp only [ievalList, hx cur env, ih]

/-- members of a multi-select hash / bindings of a `let`: equal evaluation -/
theorem ievalFields_eq {fs1 fs2 : List (Bytes × INode)}
    (h : Forall₂ (fun p q => p.1 = q.1 ∧ NEq root p.2 q.2) fs1 fs2) (cur : Val) (env : Env) :
    ievalFields root fs1 cur env = ievalFields root fs2 cur env := by
  induction h with
  | nil => rfl
  | @cons p q _ _ hx _ ih =>
    obtain ⟨k1, n1⟩ := p
    obtain ⟨k2, n2⟩ := q
    obtain ⟨hk, hn⟩ := hx
    simp only at hk hn
    subst hk
    simp only [ievalFields, hn cur env, ih]

/-- the arguments of `merge`: equal evaluation, with any accumulator -/
theorem ievalMerge_eq {ns1 ns2 : List INode} (h : Forall₂ (NEq root) ns1 ns2) (cur : Val) (env : Env) :
    ∀ acc, ievalMerge root ns1 cur env acc = ievalMerge root ns2 cur env acc := by
  induction h with
  | nil => exact fun _ => rfl
  | cons hx _ ih =>
    intro acc
    simp only [ievalMerge, hx cur env, ih]

/-- the arguments of `not_null`: equal evaluation -/
theorem ievalNotNull_eq {ns1 ns2 : List INode} (h : Forall₂ (NEq root) ns1 ns2) (cur : Val) (env : Env) :
    ievalNotNull root ns1 cur env = ievalNotNull root ns2 cur env := by
  induction h with
  | nil => rfl
  | cons hx _ ih => simp only [ievalNotNull, hx cur env, ih]

/-- the arguments of `zip`: equal evaluation -/
theorem ievalZip_eq {ns1 ns2 : List INode} (h : Forall₂ (NEq root) ns1 ns2) (cur : Val) (env : Env) :
    ievalZip root ns1 cur env = ievalZip root ns2 cur env := by
  induction h with
  | nil => rfl
  | cons hx _ ih => simp only [ievalZip, hx cur env, ih]

end Lists

/-- two argument lists whose second members fail differently, whatever the current value and the bindings -/
example : NAgree .null (.merge [.lit .null]) (.call .fromItems [.lit (.arr .plain [.arr .plain []])]) :=
  fun _ _ => Or.inr ⟨rfl, rfl⟩
example (cur : Val) (env : Env) :
    Agree (ievalList .null [.current, .merge [.lit .null]] cur env)
      (ievalList .null [.current, .call .fromItems [.lit (.arr .plain [.arr .plain []])]] cur env) :=
  ievalList_agree (.cons (NAgree.refl _) (.cons (fun _ _ => Or.inr ⟨rfl, rfl⟩) .nil)) _ _
example : ievalList .null [.current, .merge [.lit .null]] .null [] = .err [Cat.invalidType] ∧
    ievalList .null [.current, .call .fromItems [.lit (.arr .plain [.arr .plain []])]] .null [] = .err [Cat.invalidValue] :=
  ⟨rfl, rfl⟩

/-! ## 4a. `NAgree` is a congruence: one lemma per constructor (all children may change at once; a single position is the
  special case where the other hypotheses are `NAgree.refl`) -/


theorem NAgree.binop {root : Val} (op : BinOp) {l1 l2 : INode} {r1 r2 : INode} (hl : NAgree root l1 l2) (hr : NAgree root r1 r2) :
    NAgree root (.binop op l1 r1) (.binop op l2 r2) := by
  intro cur env
  simp only [ieval]
  exact agree_bind (hl cur env) fun a => agree_bind (hr cur env) fun b => Agree.refl _


/-- agreeing evaluation is respected by `.and` -/
theorem NAgree.and {root : Val} {l1 l2 : INode} {r1 r2 : INode} (hl : NAgree root l1 l2) (hr : NAgree root r1 r2) :
    NAgree root (.and l1 r1) (.and l2 r2) := by
  intro cur env
  simp only [ieval]
  refine agree_bind (hl cur env) fun a => ?_
  split
  · exact Agree.refl _
  · exact hr cur env


/-- agreeing evaluation is respected by `.or` -/
theorem NAgree.or {root : Val} {l1 l2 : INode} {r1 r2 : INode} (hl : NAgree root l1 l2) (hr : NAgree root r1 r2) :
    NAgree root (.or l1 r1) (.or l2 r2) := by
  intro cur env
  simp only [ieval]
  refine agree_bind (hl cur env) fun a => ?_
  split
  · exact Agree.refl _
  · exact hr cur env


/-- agreeing evaluation is respected by `.not` -/
theorem NAgree.not {root : Val} {c1 c2 : INode} (hc : NAgree root c1 c2) :
    NAgree root (.not c1) (.not c2) := by
  intro cur env
  simp only [ieval]
  exact agree_bind (hc cur env) fun a => Agree.refl _


/-- agreeing evaluation is respected by `.negate` -/
theorem NAgree.negate {root : Val} {c1 c2 : INode} (hc : NAgree root c1 c2) :
    NAgree root (.negate c1) (.negate c2) := by
  intro cur env
  simp only [ieval]
  exact agree_bind (hc cur env) fun a => Agree.refl _


/-- agreeing evaluation is respected by `.assertNumber` -/
theorem NAgree.assertNumber {root : Val} {c1 c2 : INode} (hc : NAgree root c1 c2) :
    NAgree root (.assertNumber c1) (.assertNumber c2) := by
  intro cur env
  simp only [ieval]
  exact agree_bind (hc cur env) fun a => Agree.refl _


/-- agreeing evaluation is respected by `.call` -/
theorem NAgree.call {root : Val} (f : Fn) {args1 args2 : List INode} (hargs : Forall₂ (NAgree root) args1 args2) :
    NAgree root (.call f args1) (.call f args2) := by
  intro cur env
  simp only [ieval]
  exact agree_bind (ievalList_agree hargs cur env) fun vs => Agree.refl _


/-- agreeing evaluation is respected by `.defineVariables` -/
theorem NAgree.defineVariables {root : Val} {vars1 vars2 : List (Bytes × INode)} {child1 child2 : INode} (hvars : Forall₂ (FRel (NAgree root)) vars1 vars2) (hchild : NAgree root child1 child2) :
    NAgree root (.defineVariables vars1 child1) (.defineVariables vars2 child2) := by
  intro cur env
  simp only [ieval]
  exact agree_bind (ievalFields_agree hvars cur env) fun bs => hchild cur (bs ++ env)


/-- agreeing evaluation is respected by `.filter` -/
theorem NAgree.filter {root : Val} {c1 c2 : INode} {f1 f2 : INode} (hc : NAgree root c1 c2) (hf : NAgree root f1 f2) :
    NAgree root (.filter c1 f1) (.filter c2 f2) := by
  intro cur env
  simp only [ieval]
  exact agree_bind (hc cur env) fun a => filterArray_agree (fun v => hf v env) a


/-- agreeing evaluation is respected by `.filterCurrent` -/
theorem NAgree.filterCurrent {root : Val} {f1 f2 : INode} (hf : NAgree root f1 f2) :
    NAgree root (.filterCurrent f1) (.filterCurrent f2) := by
  intro cur env
  simp only [ieval]
  exact filterArray_agree (fun v => hf v env) cur


/-- agreeing evaluation is respected by `.filterAndProject` -/
theorem NAgree.filterAndProject {root : Val} {l1 l2 : INode} {f1 f2 : INode} {r1 r2 : INode} (hl : NAgree root l1 l2) (hf : NAgree root f1 f2) (hr : NAgree root r1 r2) :
    NAgree root (.filterAndProject l1 f1 r1) (.filterAndProject l2 f2 r2) := by
  intro cur env
  simp only [ieval]
  exact agree_bind (hl cur env) fun a => filterAndProjectArray_agree (fun v => hf v env) (fun v => hr v env) a


/-- agreeing evaluation is respected by `.filterAndProjectCurrent` -/
theorem NAgree.filterAndProjectCurrent {root : Val} {f1 f2 : INode} {c1 c2 : INode} (hf : NAgree root f1 f2) (hc : NAgree root c1 c2) :
    NAgree root (.filterAndProjectCurrent f1 c1) (.filterAndProjectCurrent f2 c2) := by
  intro cur env
  simp only [ieval]
  exact filterAndProjectArray_agree (fun v => hf v env) (fun v => hc v env) cur


/-- agreeing evaluation is respected by `.flatten` -/
theorem NAgree.flatten {root : Val} {c1 c2 : INode} (hc : NAgree root c1 c2) :
    NAgree root (.flatten c1) (.flatten c2) := by
  intro cur env
  simp only [ieval]
  exact agree_bind (hc cur env) fun a => Agree.refl _


/-- agreeing evaluation is respected by `.flattenAndProject` -/
theorem NAgree.flattenAndProject {root : Val} {l1 l2 : INode} {r1 r2 : INode} (hl : NAgree root l1 l2) (hr : NAgree root r1 r2) :
    NAgree root (.flattenAndProject l1 r1) (.flattenAndProject l2 r2) := by
  intro cur env
  simp only [ieval]
  exact agree_bind (hl cur env) fun a => flattenAndProjectArray_agree (fun v => hr v env) a


/-- agreeing evaluation is respected by `.flattenAndProjectCurrent` -/
theorem NAgree.flattenAndProjectCurrent {root : Val} {c1 c2 : INode} (hc : NAgree root c1 c2) :
    NAgree root (.flattenAndProjectCurrent c1) (.flattenAndProjectCurrent c2) := by
  intro cur env
  simp only [ieval]
  exact flattenAndProjectArray_agree (fun v => hc v env) cur


/-- agreeing evaluation is respected by `.index` -/
theorem NAgree.index {root : Val} {c1 c2 : INode} (i : Int) (hc : NAgree root c1 c2) :
    NAgree root (.index c1 i) (.index c2 i) := by
  intro cur env
  simp only [ieval]
  exact agree_bind (hc cur env) fun a => Agree.refl _


/-- agreeing evaluation is respected by `.objectValues` -/
theorem NAgree.objectValues {root : Val} {c1 c2 : INode} (hc : NAgree root c1 c2) :
    NAgree root (.objectValues c1) (.objectValues c2) := by
  intro cur env
  simp only [ieval]
  exact agree_bind (hc cur env) fun a => Agree.refl _


/-- agreeing evaluation is respected by `.pipe` -/
theorem NAgree.pipe {root : Val} {l1 l2 : INode} {r1 r2 : INode} (hl : NAgree root l1 l2) (hr : NAgree root r1 r2) :
    NAgree root (.pipe l1 r1) (.pipe l2 r2) := by
  intro cur env
  simp only [ieval]
  exact agree_bind (hl cur env) fun a => hr a env

/-- `l[*].r`: in `l` the congruence needs `l1.isSlice = l2.isSlice` (the evaluator asks whether `l` is a slice NODE when its
    value is a string); in `r` there is no condition -/

theorem NAgree.projectArray {root : Val} {l1 l2 : INode} {r1 r2 : INode} (hl : NAgree root l1 l2) (hs : l1.isSlice = l2.isSlice) (hr : NAgree root r1 r2) :
    NAgree root (.projectArray l1 r1) (.projectArray l2 r2) := by
  intro cur env
  simp only [ieval]
  rw [hs]
  refine agree_bind (hl cur env) fun a => ?_
  cases a <;> simp only [] <;> try exact projectArray_agree (fun v => hr v env) _
  split
  · exact hr _ env
  · exact projectArray_agree (fun v => hr v env) _


/-- agreeing evaluation is respected by `.projectArrayCurrent` -/
theorem NAgree.projectArrayCurrent {root : Val} {c1 c2 : INode} (hc : NAgree root c1 c2) :
    NAgree root (.projectArrayCurrent c1) (.projectArrayCurrent c2) := by
  intro cur env
  simp only [ieval]
  exact projectArray_agree (fun v => hc v env) cur


/-- agreeing evaluation is respected by `.projectObject` -/
theorem NAgree.projectObject {root : Val} {l1 l2 : INode} {r1 r2 : INode} (hl : NAgree root l1 l2) (hr : NAgree root r1 r2) :
    NAgree root (.projectObject l1 r1) (.projectObject l2 r2) := by
  intro cur env
  simp only [ieval]
  exact agree_bind (hl cur env) fun a => projectObject_agree (fun v => hr v env) a


/-- agreeing evaluation is respected by `.projectObjectCurrent` -/
theorem NAgree.projectObjectCurrent {root : Val} {c1 c2 : INode} (hc : NAgree root c1 c2) :
    NAgree root (.projectObjectCurrent c1) (.projectObjectCurrent c2) := by
  intro cur env
  simp only [ieval]
  exact projectObject_agree (fun v => hc v env) cur


/-- agreeing evaluation is respected by `.pruneArray` -/
theorem NAgree.pruneArray {root : Val} {c1 c2 : INode} (hc : NAgree root c1 c2) :
    NAgree root (.pruneArray c1) (.pruneArray c2) := by
  intro cur env
  simp only [ieval]
  exact agree_bind (hc cur env) fun a => Agree.refl _


/-- agreeing evaluation is respected by `.selectArray` -/
theorem NAgree.selectArray {root : Val} {c1 c2 : INode} {fs1 fs2 : List INode} (hc : NAgree root c1 c2) (hfs : Forall₂ (NAgree root) fs1 fs2) :
    NAgree root (.selectArray c1 fs1) (.selectArray c2 fs2) := by
  intro cur env
  simp only [ieval]
  refine agree_bind (hc cur env) fun a => ?_
  split
  · exact Agree.refl _
  · exact agree_bind (ievalList_agree hfs a env) fun vs => Agree.refl _


/-- agreeing evaluation is respected by `.selectArrayCurrent` -/
theorem NAgree.selectArrayCurrent {root : Val} {fs1 fs2 : List INode} (hfs : Forall₂ (NAgree root) fs1 fs2) :
    NAgree root (.selectArrayCurrent fs1) (.selectArrayCurrent fs2) := by
  intro cur env
  simp only [ieval]
  split
  · exact Agree.refl _
  · exact agree_bind (ievalList_agree hfs cur env) fun vs => Agree.refl _


/-- agreeing evaluation is respected by `.selectArraySingle` -/
theorem NAgree.selectArraySingle {root : Val} {c1 c2 : INode} {f1 f2 : INode} (hc : NAgree root c1 c2) (hf : NAgree root f1 f2) :
    NAgree root (.selectArraySingle c1 f1) (.selectArraySingle c2 f2) := by
  intro cur env
  simp only [ieval]
  refine agree_bind (hc cur env) fun a => ?_
  split
  · exact Agree.refl _
  · exact agree_bind (hf a env) fun v => Agree.refl _


/-- agreeing evaluation is respected by `.selectArraySingleCurrent` -/
theorem NAgree.selectArraySingleCurrent {root : Val} {f1 f2 : INode} (hf : NAgree root f1 f2) :
    NAgree root (.selectArraySingleCurrent f1) (.selectArraySingleCurrent f2) := by
  intro cur env
  simp only [ieval]
  exact agree_bind (hf cur env) fun v => Agree.refl _


/-- agreeing evaluation is respected by `.selectObject` -/
theorem NAgree.selectObject {root : Val} {c1 c2 : INode} {fs1 fs2 : List (Bytes × INode)} (hc : NAgree root c1 c2) (hfs : Forall₂ (FRel (NAgree root)) fs1 fs2) :
    NAgree root (.selectObject c1 fs1) (.selectObject c2 fs2) := by
  intro cur env
  simp only [ieval]
  refine agree_bind (hc cur env) fun a => ?_
  split
  · exact Agree.refl _
  · exact agree_bind (ievalFields_agree hfs a env) fun vs => Agree.refl _


/-- agreeing evaluation is respected by `.selectObjectCurrent` -/
theorem NAgree.selectObjectCurrent {root : Val} {fs1 fs2 : List (Bytes × INode)} (hfs : Forall₂ (FRel (NAgree root)) fs1 fs2) :
    NAgree root (.selectObjectCurrent fs1) (.selectObjectCurrent fs2) := by
  intro cur env
  simp only [ieval]
  split
  · exact Agree.refl _
  · exact agree_bind (ievalFields_agree hfs cur env) fun vs => Agree.refl _


/-- agreeing evaluation is respected by `.selectObjectSingle` -/
theorem NAgree.selectObjectSingle {root : Val} {c1 c2 : INode} (k : Bytes) {f1 f2 : INode} (hc : NAgree root c1 c2) (hf : NAgree root f1 f2) :
    NAgree root (.selectObjectSingle c1 k f1) (.selectObjectSingle c2 k f2) := by
  intro cur env
  simp only [ieval]
  refine agree_bind (hc cur env) fun a => ?_
  split
  · exact Agree.refl _
  · exact agree_bind (hf a env) fun v => Agree.refl _


/-- agreeing evaluation is respected by `.selectObjectSingleCurrent` -/
theorem NAgree.selectObjectSingleCurrent {root : Val} (k : Bytes) {f1 f2 : INode} (hf : NAgree root f1 f2) :
    NAgree root (.selectObjectSingleCurrent k f1) (.selectObjectSingleCurrent k f2) := by
  intro cur env
  simp only [ieval]
  exact agree_bind (hf cur env) fun v => Agree.refl _


/-- agreeing evaluation is respected by `.slice` -/
theorem NAgree.slice {root : Val} {c1 c2 : INode} (start : Int) (stop : Int) (hc : NAgree root c1 c2) :
    NAgree root (.slice c1 start stop) (.slice c2 start stop) := by
  intro cur env
  simp only [ieval]
  exact agree_bind (hc cur env) fun a => Agree.refl _


/-- agreeing evaluation is respected by `.sliceStep` -/
theorem NAgree.sliceStep {root : Val} {c1 c2 : INode} (start : Int) (stop : Int) (step : Int) (hc : NAgree root c1 c2) :
    NAgree root (.sliceStep c1 start stop step) (.sliceStep c2 start stop step) := by
  intro cur env
  simp only [ieval]
  exact agree_bind (hc cur env) fun a => Agree.refl _


/-- agreeing evaluation is respected by `.groupBy` -/
theorem NAgree.groupBy {root : Val} {a1 a2 : INode} {e1 e2 : INode} (ha : NAgree root a1 a2) (he : NAgree root e1 e2) :
    NAgree root (.groupBy a1 e1) (.groupBy a2 e2) := by
  intro cur env
  simp only [ieval]
  exact agree_bind (ha cur env) fun v => groupBy_agree (fun x => he x env) v


/-- agreeing evaluation is respected by `.map` -/
theorem NAgree.map {root : Val} {e1 e2 : INode} {a1 a2 : INode} (he : NAgree root e1 e2) (ha : NAgree root a1 a2) :
    NAgree root (.map e1 a1) (.map e2 a2) := by
  intro cur env
  simp only [ieval]
  exact agree_bind (ha cur env) fun v => mapArray_agree (fun x => he x env) v


/-- agreeing evaluation is respected by `.maxBy` -/
theorem NAgree.maxBy {root : Val} {a1 a2 : INode} {e1 e2 : INode} (ha : NAgree root a1 a2) (he : NAgree root e1 e2) :
    NAgree root (.maxBy a1 e1) (.maxBy a2 e2) := by
  intro cur env
  simp only [ieval]
  exact agree_bind (ha cur env) fun v => arrayMaxBy_agree (fun x => he x env) v


/-- agreeing evaluation is respected by `.minBy` -/
theorem NAgree.minBy {root : Val} {a1 a2 : INode} {e1 e2 : INode} (ha : NAgree root a1 a2) (he : NAgree root e1 e2) :
    NAgree root (.minBy a1 e1) (.minBy a2 e2) := by
  intro cur env
  simp only [ieval]
  exact agree_bind (ha cur env) fun v => arrayMinBy_agree (fun x => he x env) v


/-- agreeing evaluation is respected by `.sortBy` -/
theorem NAgree.sortBy {root : Val} {a1 a2 : INode} {e1 e2 : INode} (ha : NAgree root a1 a2) (he : NAgree root e1 e2) :
    NAgree root (.sortBy a1 e1) (.sortBy a2 e2) := by
  intro cur env
  simp only [ieval]
  exact agree_bind (ha cur env) fun v => sortArrayBy_agree (fun x => he x env) v


/-- agreeing evaluation is respected by `.merge` -/
theorem NAgree.merge {root : Val} {args1 args2 : List INode} (hargs : Forall₂ (NAgree root) args1 args2) :
    NAgree root (.merge args1) (.merge args2) := by
  intro cur env
  simp only [ieval]
  exact agree_bind (ievalMerge_agree hargs cur env []) fun kvs => Agree.refl _


/-- agreeing evaluation is respected by `.notNull` -/
theorem NAgree.notNull {root : Val} {args1 args2 : List INode} (hargs : Forall₂ (NAgree root) args1 args2) :
    NAgree root (.notNull args1) (.notNull args2) := by
  intro cur env
  simp only [ieval]
  exact ievalNotNull_agree hargs cur env


/-- agreeing evaluation is respected by `.zip` -/
theorem NAgree.zip {root : Val} {args1 args2 : List INode} (hargs : Forall₂ (NAgree root) args1 args2) :
    NAgree root (.zip args1) (.zip args2) := by
  intro cur env
  simp only [ieval]
  exact agree_bind (ievalZip_agree hargs cur env) fun vs => Agree.refl _

/-! ## 4b. `NEq` is a congruence: one lemma per constructor -/


theorem NEq.binop {root : Val} (op : BinOp) {l1 l2 : INode} {r1 r2 : INode} (hl : NEq root l1 l2) (hr : NEq root r1 r2) :
    NEq root (.binop op l1 r1) (.binop op l2 r2) := by
  intro cur env
  have hl' : ∀ cur env, ieval root l1 cur env = ieval root l2 cur env := hl
  have hr' : ∀ cur env, ieval root r1 cur env = ieval root r2 cur env := hr
  simp only [ieval, hl', hr']


/-- equal evaluation is respected by `.and` -/
theorem NEq.and {root : Val} {l1 l2 : INode} {r1 r2 : INode} (hl : NEq root l1 l2) (hr : NEq root r1 r2) :
    NEq root (.and l1 r1) (.and l2 r2) := by
  intro cur env
  have hl' : ∀ cur env, ieval root l1 cur env = ieval root l2 cur env := hl
  have hr' : ∀ cur env, ieval root r1 cur env = ieval root r2 cur env := hr
  simp only [ieval, hl', hr']


/-- equal evaluation is respected by `.or` -/
theorem NEq.or {root : Val} {l1 l2 : INode} {r1 r2 : INode} (hl : NEq root l1 l2) (hr : NEq root r1 r2) :
    NEq root (.or l1 r1) (.or l2 r2) := by
  intro cur env
  have hl' : ∀ cur env, ieval root l1 cur env = ieval root l2 cur env := hl
  have hr' : ∀ cur env, ieval root r1 cur env = ieval root r2 cur env := hr
  simp only [ieval, hl', hr']


/-- equal evaluation is respected by `.not` -/
theorem NEq.not {root : Val} {c1 c2 : INode} (hc : NEq root c1 c2) :
    NEq root (.not c1) (.not c2) := by
  intro cur env
  have hc' : ∀ cur env, ieval root c1 cur env = ieval root c2 cur env := hc
  simp only [ieval, hc']


/-- equal evaluation is respected by `.negate` -/
theorem NEq.negate {root : Val} {c1 c2 : INode} (hc : NEq root c1 c2) :
    NEq root (.negate c1) (.negate c2) := by
  intro cur env
  have hc' : ∀ cur env, ieval root c1 cur env = ieval root c2 cur env := hc
  simp only [ieval, hc']


/-- equal evaluation is respected by `.assertNumber` -/
theorem NEq.assertNumber {root : Val} {c1 c2 : INode} (hc : NEq root c1 c2) :
    NEq root (.assertNumber c1) (.assertNumber c2) := by
  intro cur env
  have hc' : ∀ cur env, ieval root c1 cur env = ieval root c2 cur env := hc
  simp only [ieval, hc']


/-- equal evaluation is respected by `.call` -/
theorem NEq.call {root : Val} (f : Fn) {args1 args2 : List INode} (hargs : Forall₂ (NEq root) args1 args2) :
    NEq root (.call f args1) (.call f args2) := by
  intro cur env
  have hargs' : ∀ cur env, ievalList root args1 cur env = ievalList root args2 cur env := ievalList_eq hargs
  simp only [ieval, hargs']


/-- equal evaluation is respected by `.defineVariables` -/
theorem NEq.defineVariables {root : Val} {vars1 vars2 : List (Bytes × INode)} {child1 child2 : INode} (hvars : Forall₂ (FRel (NEq root)) vars1 vars2) (hchild : NEq root child1 child2) :
    NEq root (.defineVariables vars1 child1) (.defineVariables vars2 child2) := by
  intro cur env
  have hvars' : ∀ cur env, ievalFields root vars1 cur env = ievalFields root vars2 cur env := ievalFields_eq hvars
  have hchild' : ∀ cur env, ieval root child1 cur env = ieval root child2 cur env := hchild
  simp only [ieval, hvars', hchild']


/-- equal evaluation is respected by `.filter` -/
theorem NEq.filter {root : Val} {c1 c2 : INode} {f1 f2 : INode} (hc : NEq root c1 c2) (hf : NEq root f1 f2) :
    NEq root (.filter c1 f1) (.filter c2 f2) := by
  intro cur env
  have hc' : ∀ cur env, ieval root c1 cur env = ieval root c2 cur env := hc
  have hf' : ∀ cur env, ieval root f1 cur env = ieval root f2 cur env := hf
  simp only [ieval, hc', hf']


/-- equal evaluation is respected by `.filterCurrent` -/
theorem NEq.filterCurrent {root : Val} {f1 f2 : INode} (hf : NEq root f1 f2) :
    NEq root (.filterCurrent f1) (.filterCurrent f2) := by
  intro cur env
  have hf' : ∀ cur env, ieval root f1 cur env = ieval root f2 cur env := hf
  simp only [ieval, hf']


/-- equal evaluation is respected by `.filterAndProject` -/
theorem NEq.filterAndProject {root : Val} {l1 l2 : INode} {f1 f2 : INode} {r1 r2 : INode} (hl : NEq root l1 l2) (hf : NEq root f1 f2) (hr : NEq root r1 r2) :
    NEq root (.filterAndProject l1 f1 r1) (.filterAndProject l2 f2 r2) := by
  intro cur env
  have hl' : ∀ cur env, ieval root l1 cur env = ieval root l2 cur env := hl
  have hf' : ∀ cur env, ieval root f1 cur env = ieval root f2 cur env := hf
  have hr' : ∀ cur env, ieval root r1 cur env = ieval root r2 cur env := hr
  simp only [ieval, hl', hf', hr']


/-- equal evaluation is respected by `.filterAndProjectCurrent` -/
theorem NEq.filterAndProjectCurrent {root : Val} {f1 f2 : INode} {c1 c2 : INode} (hf : NEq root f1 f2) (hc : NEq root c1 c2) :
    NEq root (.filterAndProjectCurrent f1 c1) (.filterAndProjectCurrent f2 c2) := by
  intro cur env
  have hf' : ∀ cur env, ieval root f1 cur env = ieval root f2 cur env := hf
  have hc' : ∀ cur env, ieval root c1 cur env = ieval root c2 cur env := hc
  simp only [ieval, hf', hc']


/-- equal evaluation is respected by `.flatten` -/
theorem NEq.flatten {root : Val} {c1 c2 : INode} (hc : NEq root c1 c2) :
    NEq root (.flatten c1) (.flatten c2) := by
  intro cur env
  have hc' : ∀ cur env, ieval root c1 cur env = ieval root c2 cur env := hc
  simp only [ieval, hc']


/-- equal evaluation is respected by `.flattenAndProject` -/
theorem NEq.flattenAndProject {root : Val} {l1 l2 : INode} {r1 r2 : INode} (hl : NEq root l1 l2) (hr : NEq root r1 r2) :
    NEq root (.flattenAndProject l1 r1) (.flattenAndProject l2 r2) := by
  intro cur env
  have hl' : ∀ cur env, ieval root l1 cur env = ieval root l2 cur env := hl
  have hr' : ∀ cur env, ieval root r1 cur env = ieval root r2 cur env := hr
  simp only [ieval, hl', hr']


/-- equal evaluation is respected by `.flattenAndProjectCurrent` -/
theorem NEq.flattenAndProjectCurrent {root : Val} {c1 c2 : INode} (hc : NEq root c1 c2) :
    NEq root (.flattenAndProjectCurrent c1) (.flattenAndProjectCurrent c2) := by
  intro cur env
  have hc' : ∀ cur env, ieval root c1 cur env = ieval root c2 cur env := hc
  simp only [ieval, hc']


/-- equal evaluation is respected by `.index` -/
theorem NEq.index {root : Val} {c1 c2 : INode} (i : Int) (hc : NEq root c1 c2) :
    NEq root (.index c1 i) (.index c2 i) := by
  intro cur env
  have hc' : ∀ cur env, ieval root c1 cur env = ieval root c2 cur env := hc
  simp only [ieval, hc']


/-- equal evaluation is respected by `.objectValues` -/
theorem NEq.objectValues {root : Val} {c1 c2 : INode} (hc : NEq root c1 c2) :
    NEq root (.objectValues c1) (.objectValues c2) := by
  intro cur env
  have hc' : ∀ cur env, ieval root c1 cur env = ieval root c2 cur env := hc
  simp only [ieval, hc']


/-- equal evaluation is respected by `.pipe` -/
theorem NEq.pipe {root : Val} {l1 l2 : INode} {r1 r2 : INode} (hl : NEq root l1 l2) (hr : NEq root r1 r2) :
    NEq root (.pipe l1 r1) (.pipe l2 r2) := by
  intro cur env
  have hl' : ∀ cur env, ieval root l1 cur env = ieval root l2 cur env := hl
  have hr' : ∀ cur env, ieval root r1 cur env = ieval root r2 cur env := hr
  simp only [ieval, hl', hr']

/-- `l[*].r`: in `l` the congruence needs `l1.isSlice = l2.isSlice` (the evaluator asks whether `l` is a slice NODE when its
    value is a string); in `r` there is no condition -/

theorem NEq.projectArray {root : Val} {l1 l2 : INode} {r1 r2 : INode} (hl : NEq root l1 l2) (hs : l1.isSlice = l2.isSlice) (hr : NEq root r1 r2) :
    NEq root (.projectArray l1 r1) (.projectArray l2 r2) := by
  intro cur env
  have hl' : ∀ cur env, ieval root l1 cur env = ieval root l2 cur env := hl
  have hr' : ∀ cur env, ieval root r1 cur env = ieval root r2 cur env := hr
  simp only [ieval, hl', hr', hs]


/-- equal evaluation is respected by `.projectArrayCurrent` -/
theorem NEq.projectArrayCurrent {root : Val} {c1 c2 : INode} (hc : NEq root c1 c2) :
    NEq root (.projectArrayCurrent c1) (.projectArrayCurrent c2) := by
  intro cur env
  have hc' : ∀ cur env, ieval root c1 cur env = ieval root c2 cur env := hc
  simp only [ieval, hc']


/-- equal evaluation is respected by `.projectObject` -/
theorem NEq.projectObject {root : Val} {l1 l2 : INode} {r1 r2 : INode} (hl : NEq root l1 l2) (hr : NEq root r1 r2) :
    NEq root (.projectObject l1 r1) (.projectObject l2 r2) := by
  intro cur env
  have hl' : ∀ cur env, ieval root l1 cur env = ieval root l2 cur env := hl
  have hr' : ∀ cur env, ieval root r1 cur env = ieval root r2 cur env := hr
  simp only [ieval, hl', hr']


/-- equal evaluation is respected by `.projectObjectCurrent` -/
theorem NEq.projectObjectCurrent {root : Val} {c1 c2 : INode} (hc : NEq root c1 c2) :
    NEq root (.projectObjectCurrent c1) (.projectObjectCurrent c2) := by
  intro cur env
  have hc' : ∀ cur env, ieval root c1 cur env = ieval root c2 cur env := hc
  simp only [ieval, hc']


/-- equal evaluation is respected by `.pruneArray` -/
theorem NEq.pruneArray {root : Val} {c1 c2 : INode} (hc : NEq root c1 c2) :
    NEq root (.pruneArray c1) (.pruneArray c2) := by
  intro cur env
  have hc' : ∀ cur env, ieval root c1 cur env = ieval root c2 cur env := hc
  simp only [ieval, hc']


/-- equal evaluation is respected by `.selectArray` -/
theorem NEq.selectArray {root : Val} {c1 c2 : INode} {fs1 fs2 : List INode} (hc : NEq root c1 c2) (hfs : Forall₂ (NEq root) fs1 fs2) :
    NEq root (.selectArray c1 fs1) (.selectArray c2 fs2) := by
  intro cur env
  have hc' : ∀ cur env, ieval root c1 cur env = ieval root c2 cur env := hc
  have hfs' : ∀ cur env, ievalList root fs1 cur env = ievalList root fs2 cur env := ievalList_eq hfs
  simp only [ieval, hc', hfs']


/-- equal evaluation is respected by `.selectArrayCurrent` -/
theorem NEq.selectArrayCurrent {root : Val} {fs1 fs2 : List INode} (hfs : Forall₂ (NEq root) fs1 fs2) :
    NEq root (.selectArrayCurrent fs1) (.selectArrayCurrent fs2) := by
  intro cur env
  have hfs' : ∀ cur env, ievalList root fs1 cur env = ievalList root fs2 cur env := ievalList_eq hfs
  simp only [ieval, hfs']


/-- equal evaluation is respected by `.selectArraySingle` -/
theorem NEq.selectArraySingle {root : Val} {c1 c2 : INode} {f1 f2 : INode} (hc : NEq root c1 c2) (hf : NEq root f1 f2) :
    NEq root (.selectArraySingle c1 f1) (.selectArraySingle c2 f2) := by
  intro cur env
  have hc' : ∀ cur env, ieval root c1 cur env = ieval root c2 cur env := hc
  have hf' : ∀ cur env, ieval root f1 cur env = ieval root f2 cur env := hf
  simp only [ieval, hc', hf']


/-- equal evaluation is respected by `.selectArraySingleCurrent` -/
theorem NEq.selectArraySingleCurrent {root : Val} {f1 f2 : INode} (hf : NEq root f1 f2) :
    NEq root (.selectArraySingleCurrent f1) (.selectArraySingleCurrent f2) := by
  intro cur env
  have hf' : ∀ cur env, ieval root f1 cur env = ieval root f2 cur env := hf
  simp only [ieval, hf']


/-- equal evaluation is respected by `.selectObject` -/
theorem NEq.selectObject {root : Val} {c1 c2 : INode} {fs1 fs2 : List (Bytes × INode)} (hc : NEq root c1 c2) (hfs : Forall₂ (FRel (NEq root)) fs1 fs2) :
    NEq root (.selectObject c1 fs1) (.selectObject c2 fs2) := by
  intro cur env
  have hc' : ∀ cur env, ieval root c1 cur env = ieval root c2 cur env := hc
  have hfs' : ∀ cur env, ievalFields root fs1 cur env = ievalFields root fs2 cur env := ievalFields_eq hfs
  simp only [ieval, hc', hfs']


/-- equal evaluation is respected by `.selectObjectCurrent` -/
theorem NEq.selectObjectCurrent {root : Val} {fs1 fs2 : List (Bytes × INode)} (hfs : Forall₂ (FRel (NEq root)) fs1 fs2) :
    NEq root (.selectObjectCurrent fs1) (.selectObjectCurrent fs2) := by
  intro cur env
  have hfs' : ∀ cur env, ievalFields root fs1 cur env = ievalFields root fs2 cur env := ievalFields_eq hfs
  simp only [ieval, hfs']


/-- equal evaluation is respected by `.selectObjectSingle` -/
theorem NEq.selectObjectSingle {root : Val} {c1 c2 : INode} (k : Bytes) {f1 f2 : INode} (hc : NEq root c1 c2) (hf : NEq root f1 f2) :
    NEq root (.selectObjectSingle c1 k f1) (.selectObjectSingle c2 k f2) := by
  intro cur env
  have hc' : ∀ cur env, ieval root c1 cur env = ieval root c2 cur env := hc
  have hf' : ∀ cur env, ieval root f1 cur env = ieval root f2 cur env := hf
  simp only [ieval, hc', hf']


/-- equal evaluation is respected by `.selectObjectSingleCurrent` -/
theorem NEq.selectObjectSingleCurrent {root : Val} (k : Bytes) {f1 f2 : INode} (hf : NEq root f1 f2) :
    NEq root (.selectObjectSingleCurrent k f1) (.selectObjectSingleCurrent k f2) := by
  intro cur env
  have hf' : ∀ cur env, ieval root f1 cur env = ieval root f2 cur env := hf
  simp only [ieval, hf']


/-- equal evaluation is respected by `.slice` -/
theorem NEq.slice {root : Val} {c1 c2 : INode} (start : Int) (stop : Int) (hc : NEq root c1 c2) :
    NEq root (.slice c1 start stop) (.slice c2 start stop) := by
  intro cur env
  have hc' : ∀ cur env, ieval root c1 cur env = ieval root c2 cur env := hc
  simp only [ieval, hc']


/-- equal evaluation is respected by `.sliceStep` -/
theorem NEq.sliceStep {root : Val} {c1 c2 : INode} (start : Int) (stop : Int) (step : Int) (hc : NEq root c1 c2) :
    NEq root (.sliceStep c1 start stop step) (.sliceStep c2 start stop step) := by
  intro cur env
  have hc' : ∀ cur env, ieval root c1 cur env = ieval root c2 cur env := hc
  simp only [ieval, hc']


/-- equal evaluation is respected by `.groupBy` -/
theorem NEq.groupBy {root : Val} {a1 a2 : INode} {e1 e2 : INode} (ha : NEq root a1 a2) (he : NEq root e1 e2) :
    NEq root (.groupBy a1 e1) (.groupBy a2 e2) := by
  intro cur env
  have ha' : ∀ cur env, ieval root a1 cur env = ieval root a2 cur env := ha
  have he' : ∀ cur env, ieval root e1 cur env = ieval root e2 cur env := he
  simp only [ieval, ha', he']


/-- equal evaluation is respected by `.map` -/
theorem NEq.map {root : Val} {e1 e2 : INode} {a1 a2 : INode} (he : NEq root e1 e2) (ha : NEq root a1 a2) :
    NEq root (.map e1 a1) (.map e2 a2) := by
  intro cur env
  have he' : ∀ cur env, ieval root e1 cur env = ieval root e2 cur env := he
  have ha' : ∀ cur env, ieval root a1 cur env = ieval root a2 cur env := ha
  simp only [ieval, he', ha']


/-- equal evaluation is respected by `.maxBy` -/
theorem NEq.maxBy {root : Val} {a1 a2 : INode} {e1 e2 : INode} (ha : NEq root a1 a2) (he : NEq root e1 e2) :
    NEq root (.maxBy a1 e1) (.maxBy a2 e2) := by
  intro cur env
  have ha' : ∀ cur env, ieval root a1 cur env = ieval root a2 cur env := ha
  have he' : ∀ cur env, ieval root e1 cur env = ieval root e2 cur env := he
  simp only [ieval, ha', he']


/-- equal evaluation is respected by `.minBy` -/
theorem NEq.minBy {root : Val} {a1 a2 : INode} {e1 e2 : INode} (ha : NEq root a1 a2) (he : NEq root e1 e2) :
    NEq root (.minBy a1 e1) (.minBy a2 e2) := by
  intro cur env
  have ha' : ∀ cur env, ieval root a1 cur env = ieval root a2 cur env := ha
  have he' : ∀ cur env, ieval root e1 cur env = ieval root e2 cur env := he
  simp only [ieval, ha', he']


/-- equal evaluation is respected by `.sortBy` -/
theorem NEq.sortBy {root : Val} {a1 a2 : INode} {e1 e2 : INode} (ha : NEq root a1 a2) (he : NEq root e1 e2) :
    NEq root (.sortBy a1 e1) (.sortBy a2 e2) := by
  intro cur env
  have ha' : ∀ cur env, ieval root a1 cur env = ieval root a2 cur env := ha
  have he' : ∀ cur env, ieval root e1 cur env = ieval root e2 cur env := he
  simp only [ieval, ha', he']


/-- equal evaluation is respected by `.merge` -/
theorem NEq.merge {root : Val} {args1 args2 : List INode} (hargs : Forall₂ (NEq root) args1 args2) :
    NEq root (.merge args1) (.merge args2) := by
  intro cur env
  have hargs' : ∀ cur env acc, ievalMerge root args1 cur env acc = ievalMerge root args2 cur env acc := ievalMerge_eq hargs
  simp only [ieval, hargs']


/-- equal evaluation is respected by `.notNull` -/
theorem NEq.notNull {root : Val} {args1 args2 : List INode} (hargs : Forall₂ (NEq root) args1 args2) :
    NEq root (.notNull args1) (.notNull args2) := by
  intro cur env
  have hargs' : ∀ cur env, ievalNotNull root args1 cur env = ievalNotNull root args2 cur env := ievalNotNull_eq hargs
  simp only [ieval, hargs']


/-- equal evaluation is respected by `.zip` -/
theorem NEq.zip {root : Val} {args1 args2 : List INode} (hargs : Forall₂ (NEq root) args1 args2) :
    NEq root (.zip args1) (.zip args2) := by
  intro cur env
  have hargs' : ∀ cur env, ievalZip root args1 cur env = ievalZip root args2 cur env := ievalZip_eq hargs
  simp only [ieval, hargs']

/-! ## 5. Congruences on nodes, bundled -/

/-- `R` is a congruence on nodes: reflexive, and respected by every constructor of `INode` in all its child positions
    (node lists element-wise, member lists element-wise with equal keys).  The one side condition is that of
    `.projectArray`: the left operands are both slice nodes or both not. -/
structure Cong (R : INode → INode → Prop) : Prop where
  refl : ∀ n, R n n
  binop : ∀ (op : BinOp) {l1 l2 : INode} {r1 r2 : INode}, R l1 l2 → R r1 r2 → R (.binop op l1 r1) (.binop op l2 r2)
  and : ∀ {l1 l2 : INode} {r1 r2 : INode}, R l1 l2 → R r1 r2 → R (.and l1 r1) (.and l2 r2)
  or : ∀ {l1 l2 : INode} {r1 r2 : INode}, R l1 l2 → R r1 r2 → R (.or l1 r1) (.or l2 r2)
  not : ∀ {c1 c2 : INode}, R c1 c2 → R (.not c1) (.not c2)
  negate : ∀ {c1 c2 : INode}, R c1 c2 → R (.negate c1) (.negate c2)
  assertNumber : ∀ {c1 c2 : INode}, R c1 c2 → R (.assertNumber c1) (.assertNumber c2)
  call : ∀ (f : Fn) {args1 args2 : List INode}, Forall₂ R args1 args2 → R (.call f args1) (.call f args2)
  defineVariables : ∀ {vars1 vars2 : List (Bytes × INode)} {child1 child2 : INode}, Forall₂ (FRel R) vars1 vars2 → R child1 child2 → R (.defineVariables vars1 child1) (.defineVariables vars2 child2)
  filter : ∀ {c1 c2 : INode} {f1 f2 : INode}, R c1 c2 → R f1 f2 → R (.filter c1 f1) (.filter c2 f2)
  filterCurrent : ∀ {f1 f2 : INode}, R f1 f2 → R (.filterCurrent f1) (.filterCurrent f2)
  filterAndProject : ∀ {l1 l2 : INode} {f1 f2 : INode} {r1 r2 : INode}, R l1 l2 → R f1 f2 → R r1 r2 → R (.filterAndProject l1 f1 r1) (.filterAndProject l2 f2 r2)
  filterAndProjectCurrent : ∀ {f1 f2 : INode} {c1 c2 : INode}, R f1 f2 → R c1 c2 → R (.filterAndProjectCurrent f1 c1) (.filterAndProjectCurrent f2 c2)
  flatten : ∀ {c1 c2 : INode}, R c1 c2 → R (.flatten c1) (.flatten c2)
  flattenAndProject : ∀ {l1 l2 : INode} {r1 r2 : INode}, R l1 l2 → R r1 r2 → R (.flattenAndProject l1 r1) (.flattenAndProject l2 r2)
  flattenAndProjectCurrent : ∀ {c1 c2 : INode}, R c1 c2 → R (.flattenAndProjectCurrent c1) (.flattenAndProjectCurrent c2)
  index : ∀ {c1 c2 : INode} (i : Int), R c1 c2 → R (.index c1 i) (.index c2 i)
  objectValues : ∀ {c1 c2 : INode}, R c1 c2 → R (.objectValues c1) (.objectValues c2)
  pipe : ∀ {l1 l2 : INode} {r1 r2 : INode}, R l1 l2 → R r1 r2 → R (.pipe l1 r1) (.pipe l2 r2)
  projectArray : ∀ {l1 l2 : INode} {r1 r2 : INode}, R l1 l2 → l1.isSlice = l2.isSlice → R r1 r2 → R (.projectArray l1 r1) (.projectArray l2 r2)
  projectArrayCurrent : ∀ {c1 c2 : INode}, R c1 c2 → R (.projectArrayCurrent c1) (.projectArrayCurrent c2)
  projectObject : ∀ {l1 l2 : INode} {r1 r2 : INode}, R l1 l2 → R r1 r2 → R (.projectObject l1 r1) (.projectObject l2 r2)
  projectObjectCurrent : ∀ {c1 c2 : INode}, R c1 c2 → R (.projectObjectCurrent c1) (.projectObjectCurrent c2)
  pruneArray : ∀ {c1 c2 : INode}, R c1 c2 → R (.pruneArray c1) (.pruneArray c2)
  selectArray : ∀ {c1 c2 : INode} {fs1 fs2 : List INode}, R c1 c2 → Forall₂ R fs1 fs2 → R (.selectArray c1 fs1) (.selectArray c2 fs2)
  selectArrayCurrent : ∀ {fs1 fs2 : List INode}, Forall₂ R fs1 fs2 → R (.selectArrayCurrent fs1) (.selectArrayCurrent fs2)
  selectArraySingle : ∀ {c1 c2 : INode} {f1 f2 : INode}, R c1 c2 → R f1 f2 → R (.selectArraySingle c1 f1) (.selectArraySingle c2 f2)
  selectArraySingleCurrent : ∀ {f1 f2 : INode}, R f1 f2 → R (.selectArraySingleCurrent f1) (.selectArraySingleCurrent f2)
  selectObject : ∀ {c1 c2 : INode} {fs1 fs2 : List (Bytes × INode)}, R c1 c2 → Forall₂ (FRel R) fs1 fs2 → R (.selectObject c1 fs1) (.selectObject c2 fs2)
  selectObjectCurrent : ∀ {fs1 fs2 : List (Bytes × INode)}, Forall₂ (FRel R) fs1 fs2 → R (.selectObjectCurrent fs1) (.selectObjectCurrent fs2)
  selectObjectSingle : ∀ {c1 c2 : INode} (k : Bytes) {f1 f2 : INode}, R c1 c2 → R f1 f2 → R (.selectObjectSingle c1 k f1) (.selectObjectSingle c2 k f2)
  selectObjectSingleCurrent : ∀ (k : Bytes) {f1 f2 : INode}, R f1 f2 → R (.selectObjectSingleCurrent k f1) (.selectObjectSingleCurrent k f2)
  slice : ∀ {c1 c2 : INode} (start : Int) (stop : Int), R c1 c2 → R (.slice c1 start stop) (.slice c2 start stop)
  sliceStep : ∀ {c1 c2 : INode} (start : Int) (stop : Int) (step : Int), R c1 c2 → R (.sliceStep c1 start stop step) (.sliceStep c2 start stop step)
  groupBy : ∀ {a1 a2 : INode} {e1 e2 : INode}, R a1 a2 → R e1 e2 → R (.groupBy a1 e1) (.groupBy a2 e2)
  map : ∀ {e1 e2 : INode} {a1 a2 : INode}, R e1 e2 → R a1 a2 → R (.map e1 a1) (.map e2 a2)
  maxBy : ∀ {a1 a2 : INode} {e1 e2 : INode}, R a1 a2 → R e1 e2 → R (.maxBy a1 e1) (.maxBy a2 e2)
  minBy : ∀ {a1 a2 : INode} {e1 e2 : INode}, R a1 a2 → R e1 e2 → R (.minBy a1 e1) (.minBy a2 e2)
  sortBy : ∀ {a1 a2 : INode} {e1 e2 : INode}, R a1 a2 → R e1 e2 → R (.sortBy a1 e1) (.sortBy a2 e2)
  merge : ∀ {args1 args2 : List INode}, Forall₂ R args1 args2 → R (.merge args1) (.merge args2)
  notNull : ∀ {args1 args2 : List INode}, Forall₂ R args1 args2 → R (.notNull args1) (.notNull args2)
  zip : ∀ {args1 args2 : List INode}, Forall₂ R args1 args2 → R (.zip args1) (.zip args2)

/-- equality of evaluation is a congruence -/
theorem NEq.cong (root : Val) : Cong (NEq root) where
  refl := NEq.refl
  binop := fun op => NEq.binop op
  and := NEq.and
  or := NEq.or
  not := NEq.not
  negate := NEq.negate
  assertNumber := NEq.assertNumber
  call := fun f => NEq.call f
  defineVariables := NEq.defineVariables
  filter := NEq.filter
  filterCurrent := NEq.filterCurrent
  filterAndProject := NEq.filterAndProject
  filterAndProjectCurrent := NEq.filterAndProjectCurrent
  flatten := NEq.flatten
  flattenAndProject := NEq.flattenAndProject
  flattenAndProjectCurrent := NEq.flattenAndProjectCurrent
  index := fun i => NEq.index i
  objectValues := NEq.objectValues
  pipe := NEq.pipe
  projectArray := NEq.projectArray
  projectArrayCurrent := NEq.projectArrayCurrent
  projectObject := NEq.projectObject
  projectObjectCurrent := NEq.projectObjectCurrent
  pruneArray := NEq.pruneArray
  selectArray := NEq.selectArray
  selectArrayCurrent := NEq.selectArrayCurrent
  selectArraySingle := NEq.selectArraySingle
  selectArraySingleCurrent := NEq.selectArraySingleCurrent
  selectObject := NEq.selectObject
  selectObjectCurrent := NEq.selectObjectCurrent
  selectObjectSingle := fun k => NEq.selectObjectSingle k
  selectObjectSingleCurrent := fun k => NEq.selectObjectSingleCurrent k
  slice := fun start stop => NEq.slice start stop
  sliceStep := fun start stop step => NEq.sliceStep start stop step
  groupBy := NEq.groupBy
  map := NEq.map
  maxBy := NEq.maxBy
  minBy := NEq.minBy
  sortBy := NEq.sortBy
  merge := NEq.merge
  notNull := NEq.notNull
  zip := NEq.zip

/-- agreement of evaluation is a congruence -/
theorem NAgree.cong (root : Val) : Cong (NAgree root) where
  refl := NAgree.refl
  binop := fun op => NAgree.binop op
  and := NAgree.and
  or := NAgree.or
  not := NAgree.not
  negate := NAgree.negate
  assertNumber := NAgree.assertNumber
  call := fun f => NAgree.call f
  defineVariables := NAgree.defineVariables
  filter := NAgree.filter
  filterCurrent := NAgree.filterCurrent
  filterAndProject := NAgree.filterAndProject
  filterAndProjectCurrent := NAgree.filterAndProjectCurrent
  flatten := NAgree.flatten
  flattenAndProject := NAgree.flattenAndProject
  flattenAndProjectCurrent := NAgree.flattenAndProjectCurrent
  index := fun i => NAgree.index i
  objectValues := NAgree.objectValues
  pipe := NAgree.pipe
  projectArray := NAgree.projectArray
  projectArrayCurrent := NAgree.projectArrayCurrent
  projectObject := NAgree.projectObject
  projectObjectCurrent := NAgree.projectObjectCurrent
  pruneArray := NAgree.pruneArray
  selectArray := NAgree.selectArray
  selectArrayCurrent := NAgree.selectArrayCurrent
  selectArraySingle := NAgree.selectArraySingle
  selectArraySingleCurrent := NAgree.selectArraySingleCurrent
  selectObject := NAgree.selectObject
  selectObjectCurrent := NAgree.selectObjectCurrent
  selectObjectSingle := fun k => NAgree.selectObjectSingle k
  selectObjectSingleCurrent := fun k => NAgree.selectObjectSingleCurrent k
  slice := fun start stop => NAgree.slice start stop
  sliceStep := fun start stop step => NAgree.sliceStep start stop step
  groupBy := NAgree.groupBy
  map := NAgree.map
  maxBy := NAgree.maxBy
  minBy := NAgree.minBy
  sortBy := NAgree.sortBy
  merge := NAgree.merge
  notNull := NAgree.notNull
  zip := NAgree.zip

/-! ## 6. The side condition of `.projectArray` is needed; examples -/

/-- **without `l1.isSlice = l2.isSlice` the congruence of `.projectArray` in its left operand is FALSE**: `[0:1]` and
    `[0:1] | @` evaluate equally everywhere, but on the string `"ab"` the projection `[0:1].@` hands the sliced string
    `"a"` to its right-hand side (the left operand is a slice node) while `([0:1] | @)[*].@` projects a string: null -/
theorem projectArray_left_needs_isSlice :
    NEq .null (.sliceCurrent 0 1) (.pipe (.sliceCurrent 0 1) .current) ∧
    ¬ NAgree .null (.projectArray (.sliceCurrent 0 1) .current) (.projectArray (.pipe (.sliceCurrent 0 1) .current) .current) := by
  refine ⟨fun cur env => (pipe_current_right _ _ cur env).symm, fun h => ?_⟩
  have h1 : ieval .null (.projectArray (.sliceCurrent 0 1) .current) (.str [97, 98]) [] = .ok (.str [97]) := rfl
  have h2 : ieval .null (.projectArray (.pipe (.sliceCurrent 0 1) .current) .current) (.str [97, 98]) [] = .ok .null := rfl
  have := h (.str [97, 98]) []
  rw [h1, h2] at this
  rcases this with ⟨b, e1, e2⟩ | ⟨e1, _⟩
  · cases e1; cases e2
  · exact Bool.noConfusion e1

/-- the congruence lemmas at work: `sort_by(x, &e1)` against `sort_by(x, &e2)`, `[c, e1]` against `[c, e2]`,
    `let $v = e1 in $v` against `let $v = e2 in $v` for agreeing `e1`, `e2` -/
example (root : Val) (x c e1 e2 : INode) (h : NAgree root e1 e2) :
    NAgree root (.sortBy x e1) (.sortBy x e2) ∧
    NAgree root (.selectArrayCurrent [c, e1]) (.selectArrayCurrent [c, e2]) ∧
    NAgree root (.defineVariables [([118], e1)] (.variable [118])) (.defineVariables [([118], e2)] (.variable [118])) :=
  ⟨NAgree.sortBy (NAgree.refl _) h,
   NAgree.selectArrayCurrent (.cons (NAgree.refl _) (.cons h .nil)),
   NAgree.defineVariables (.cons ⟨rfl, h⟩ .nil) (NAgree.refl _)⟩

/-- … and for equal evaluation: `l | @` may replace `l` as the left operand of a pipe, of `[*]` (neither is a slice
    node), as an argument, as a filter condition -/
example (root : Val) (r : INode) :
    NEq root (.pipe (.pipe (.field [97]) .current) r) (.pipe (.field [97]) r) ∧
    NEq root (.projectArray (.pipe (.field [97]) .current) r) (.projectArray (.field [97]) r) ∧
    NEq root (.call .length [.pipe (.field [97]) .current]) (.call .length [.field [97]]) ∧
    NEq root (.filterCurrent (.pipe (.field [97]) .current)) (.filterCurrent (.field [97])) :=
  have h : NEq root (.pipe (.field [97]) .current) (.field [97]) := fun cur env => pipe_current_right root _ cur env
  ⟨NEq.pipe h (NEq.refl _), NEq.projectArray h rfl (NEq.refl _), NEq.call _ (.cons h .nil), NEq.filterCurrent h⟩

/-- a congruence gives every single-position congruence, e.g. in the filter condition -/
theorem Cong.filterAndProject_cond {R : INode → INode → Prop} (hR : Cong R) (l r : INode) {f1 f2 : INode}
    (h : R f1 f2) : R (.filterAndProject l f1 r) (.filterAndProject l f2 r) :=
  hR.filterAndProject (hR.refl l) h (hR.refl r)

example (root : Val) {f1 f2 : INode} (h : NAgree root f1 f2) :
    NAgree root (.filterAndProject .current f1 (.field [97])) (.filterAndProject .current f2 (.field [97])) :=
  (NAgree.cong root).filterAndProject_cond _ _ h

/-- reflexive lists -/
theorem forall₂_refl {α : Type} {R : α → α → Prop} (h : ∀ a, R a a) : ∀ l : List α, Forall₂ R l l
  | [] => .nil
  | a :: l => .cons (h a) (forall₂_refl h l)

/-- a member is related to itself -/
theorem Cong.frel_refl {R : INode → INode → Prop} (hR : Cong R) (p : Bytes × INode) : FRel R p p := ⟨rfl, hR.refl _⟩

/-! ## 7. Syntactic equality is a congruence -/

theorem forall₂_eq {α : Type} {l1 l2 : List α} (h : Forall₂ Eq l1 l2) : l1 = l2 := by
  induction h with
  | nil => rfl
  | cons hx _ ih => rw [hx, ih]

/-- member lists related key-wise by equality are equal -/
theorem forall₂_frel_eq {l1 l2 : List (Bytes × INode)} (h : Forall₂ (FRel Eq) l1 l2) : l1 = l2 := by
  induction h with
  | nil => rfl
  | @cons p q _ _ hx _ ih =>
    obtain ⟨k1, n1⟩ := p
    obtain ⟨k2, n2⟩ := q
    obtain ⟨hk, hn⟩ := hx
    simp only at hk hn
    rw [hk, hn, ih]

/-- equality of nodes is (trivially) a congruence: used to transport "the two sub-expressions build the same node"
    through a context -/
theorem eq_cong : Cong (@Eq INode) where
  refl := fun _ => rfl
  binop := by intro op l1 l2 r1 r2 hl hr; cases (hl); cases (hr); rfl
  and := by intro l1 l2 r1 r2 hl hr; cases (hl); cases (hr); rfl
  or := by intro l1 l2 r1 r2 hl hr; cases (hl); cases (hr); rfl
  not := by intro c1 c2 hc; cases (hc); rfl
  negate := by intro c1 c2 hc; cases (hc); rfl
  assertNumber := by intro c1 c2 hc; cases (hc); rfl
  call := by intro f args1 args2 hargs; cases (forall₂_eq hargs); rfl
  defineVariables := by intro vars1 vars2 child1 child2 hvars hchild; cases (forall₂_frel_eq hvars); cases (hchild); rfl
  filter := by intro c1 c2 f1 f2 hc hf; cases (hc); cases (hf); rfl
  filterCurrent := by intro f1 f2 hf; cases (hf); rfl
  filterAndProject := by intro l1 l2 f1 f2 r1 r2 hl hf hr; cases (hl); cases (hf); cases (hr); rfl
  filterAndProjectCurrent := by intro f1 f2 c1 c2 hf hc; cases (hf); cases (hc); rfl
  flatten := by intro c1 c2 hc; cases (hc); rfl
  flattenAndProject := by intro l1 l2 r1 r2 hl hr; cases (hl); cases (hr); rfl
  flattenAndProjectCurrent := by intro c1 c2 hc; cases (hc); rfl
  index := by intro c1 c2 i hc; cases (hc); rfl
  objectValues := by intro c1 c2 hc; cases (hc); rfl
  pipe := by intro l1 l2 r1 r2 hl hr; cases (hl); cases (hr); rfl
  projectArray := by intro l1 l2 r1 r2 hl _ hr; cases (hl); cases (hr); rfl
  projectArrayCurrent := by intro c1 c2 hc; cases (hc); rfl
  projectObject := by intro l1 l2 r1 r2 hl hr; cases (hl); cases (hr); rfl
  projectObjectCurrent := by intro c1 c2 hc; cases (hc); rfl
  pruneArray := by intro c1 c2 hc; cases (hc); rfl
  selectArray := by intro c1 c2 fs1 fs2 hc hfs; cases (hc); cases (forall₂_eq hfs); rfl
  selectArrayCurrent := by intro fs1 fs2 hfs; cases (forall₂_eq hfs); rfl
  selectArraySingle := by intro c1 c2 f1 f2 hc hf; cases (hc); cases (hf); rfl
  selectArraySingleCurrent := by intro f1 f2 hf; cases (hf); rfl
  selectObject := by intro c1 c2 fs1 fs2 hc hfs; cases (hc); cases (forall₂_frel_eq hfs); rfl
  selectObjectCurrent := by intro fs1 fs2 hfs; cases (forall₂_frel_eq hfs); rfl
  selectObjectSingle := by intro c1 c2 k f1 f2 hc hf; cases (hc); cases (hf); rfl
  selectObjectSingleCurrent := by intro k f1 f2 hf; cases (hf); rfl
  slice := by intro c1 c2 start stop hc; cases (hc); rfl
  sliceStep := by intro c1 c2 start stop step hc; cases (hc); rfl
  groupBy := by intro a1 a2 e1 e2 ha he; cases (ha); cases (he); rfl
  map := by intro e1 e2 a1 a2 he ha; cases (he); cases (ha); rfl
  maxBy := by intro a1 a2 e1 e2 ha he; cases (ha); cases (he); rfl
  minBy := by intro a1 a2 e1 e2 ha he; cases (ha); cases (he); rfl
  sortBy := by intro a1 a2 e1 e2 ha he; cases (ha); cases (he); rfl
  merge := by intro args1 args2 hargs; cases (forall₂_eq hargs); rfl
  notNull := by intro args1 args2 hargs; cases (forall₂_eq hargs); rfl
  zip := by intro args1 args2 hargs; cases (forall₂_eq hargs); rfl

example : Cong (@Eq INode) := eq_cong

end Jmes.C17C.Congr
