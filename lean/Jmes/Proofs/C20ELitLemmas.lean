/-
  Property C20, fourth pass — helper: the side conditions of the closure theorem of `C20E`.

    * `Band t`          the `json.Number` text `t` is `Regular` or `Tiny` (C20B): what `C20C.Covered` asks of a text;
    * `CovLit v`        (Bool) a literal of the shape the parser builds whose numbers are `Band`;
    * `litsJV_of_all`   the Bool traversal `n.all (INode.litOk B)` implies `INode.LitsJV n` (the hypothesis of
                        `C20B.evaluate_jv`) when `B` implies `JV`;
    * `AllCovered v`    every number inside `v` is `NumOk` and `Covered` — the two hypotheses of every theorem of C20C;
    * `allCovered_of`   `JV v → Jn Band v → AllCovered v`.
-/
import Jmes.Proofs.C20ELemmas
import Jmes.Proofs.C20EEqLemmas
namespace Jmes.C20E
open Jmes Jmes.C20 Jmes.C20B Jmes.C20C Jmes.C18CR

/-- the `json.Number` texts whose value C20C establishes: regular (compared by the value rounded to the format) or tiny
    (zero) -/
def Band (t : Bytes) : Prop := Regular t ∨ Tiny t

instance (t : Bytes) : Decidable (Band t) := by unfold Band; exact inferInstance

example : Band [0x31, 0x2E, 0x35] ∧ Band [0x31, 0x65, 0x2D, 0x37, 0x30, 0x30, 0x30] ∧
    ¬ Band [0x31, 0x65, 0x37, 0x30, 0x30, 0x30] ∧ ¬ Band [0x31, 0x65, 0x2D, 0x36, 0x31, 0x38, 0x30] ∧ ¬ Band [0x78] := by
  decide

theorem band_numOk {t : Bytes} (h : Band t) : NumOk (.jnum t) := h.elim numOk_regular numOk_tiny

theorem band_covered {t : Bytes} (h : Band t) : Covered (.jnum t) := h

mutual
/-- a literal as the parser builds it (`` `…` `` through `Json.decode`, or a raw string) whose numbers are `Band`:
    unique keys, no Go numeric kind, no foreign value (decidable: `by decide` on a concrete literal) -/
def CovLit : Val → Bool
  | .null => true
  | .bool _ => true
  | .str _ => true
  | .num (.jnum t) => decide (Band t)
  | .num _ => false
  | .arr _ xs => CovLitL xs
  | .obj kvs => decide ((kvs.map Prod.fst).Nodup) && CovLitF kvs
  | .foreign _ => false
def CovLitL : List Val → Bool
  | [] => true
  | x :: xs => CovLit x && CovLitL xs
def CovLitF : List (Bytes × Val) → Bool
  | [] => true
  | (_, x) :: kvs => CovLit x && CovLitF kvs
end

mutual
theorem covLit_jv : ∀ v : Val, CovLit v = true → JV v
  | .null, _ => by simp
  | .bool _, _ => by simp
  | .str _, _ => by simp
  | .num (.jnum t), h => by
    simp only [CovLit, decide_eq_true_eq] at h
    exact ⟨band_numOk h, by simp⟩
  | .num (.dec _), h => by simp [CovLit] at h
  | .num (.int _ _), h => by simp [CovLit] at h
  | .num (.f64 _), h => by simp [CovLit] at h
  | .num (.f32 _), h => by simp [CovLit] at h
  | .arr _ xs, h => by simp only [CovLit] at h; exact jv_arr.mpr (covLitL_jv xs h)
  | .obj kvs, h => by
    simp only [CovLit, Bool.and_eq_true, decide_eq_true_eq] at h
    exact jv_obj.mpr ⟨h.1, covLitF_jv kvs h.2⟩
  | .foreign _, h => by simp [CovLit] at h
theorem covLitL_jv : ∀ xs : List Val, CovLitL xs = true → ∀ x ∈ xs, JV x
  | [], _ => by simp
  | x :: xs, h => by
    simp only [CovLitL, Bool.and_eq_true] at h
    intro y hy
    rcases List.mem_cons.mp hy with e | hy
    · rw [e]; exact covLit_jv x h.1
    · exact covLitL_jv xs h.2 y hy
theorem covLitF_jv : ∀ kvs : List (Bytes × Val), CovLitF kvs = true → ∀ k x, (k, x) ∈ kvs → JV x
  | [], _ => by simp
  | (k0, x0) :: kvs, h => by
    simp only [CovLitF, Bool.and_eq_true] at h
    intro k x hm
    rcases List.mem_cons.mp hm with e | hm
    · rw [(Prod.mk.inj e).2]; exact covLit_jv x0 h.1
    · exact covLitF_jv kvs h.2 k x hm
end

mutual
theorem covLit_jn : ∀ v : Val, CovLit v = true → Jn Band v
  | .null, _ => by simp
  | .bool _, _ => by simp
  | .str _, _ => by simp
  | .num (.jnum t), h => by
    simp only [CovLit, decide_eq_true_eq] at h
    exact jn_jnum.mpr h
  | .num (.dec _), _ => by simp
  | .num (.int _ _), _ => by simp
  | .num (.f64 _), h => by simp [CovLit] at h
  | .num (.f32 _), h => by simp [CovLit] at h
  | .arr _ xs, h => by simp only [CovLit] at h; simp only [Jn]; exact covLitL_jn xs h
  | .obj kvs, h => by
    simp only [CovLit, Bool.and_eq_true] at h
    simp only [Jn]; exact covLitF_jn kvs h.2
  | .foreign _, _ => by simp
theorem covLitL_jn : ∀ xs : List Val, CovLitL xs = true → JnL Band xs
  | [], _ => trivial
  | x :: xs, h => by
    simp only [CovLitL, Bool.and_eq_true] at h
    simp only [JnL]; exact ⟨covLit_jn x h.1, covLitL_jn xs h.2⟩
theorem covLitF_jn : ∀ kvs : List (Bytes × Val), CovLitF kvs = true → JnF Band kvs
  | [], _ => trivial
  | (_, x) :: kvs, h => by
    simp only [CovLitF, Bool.and_eq_true] at h
    simp only [JnF]; exact ⟨covLit_jn x h.1, covLitF_jn kvs h.2⟩
end

/-- `` `{"a": [1, 2.50]}` `` is such a literal; `` `1e7000` `` (huge) and `` `1e-6180` `` (subnormal) are not -/
example : CovLit (.obj [([0x61], .arr .plain [.num (.jnum [0x31]), .num (.jnum [0x32, 0x2E, 0x35, 0x30])])]) = true ∧
    CovLit (.num (.jnum [0x31, 0x65, 0x37, 0x30, 0x30, 0x30])) = false ∧
    CovLit (.num (.jnum [0x31, 0x65, 0x2D, 0x36, 0x31, 0x38, 0x30])) = false := by decide

mutual
/-- a value of the shape `Json.decode` produces whose numbers are `Band` is such a literal -/
theorem decoded_covLit : ∀ v : Val, Decoded v → Jn Band v → CovLit v = true
  | .null, _, _ => rfl
  | .bool _, _, _ => rfl
  | .str _, _, _ => rfl
  | .num (.jnum t), _, hb => by simp only [CovLit, decide_eq_true_eq]; exact jn_jnum.mp hb
  | .num (.dec _), hd, _ => by simp [Decoded] at hd
  | .num (.int _ _), hd, _ => by simp [Decoded] at hd
  | .num (.f64 _), hd, _ => by simp [Decoded] at hd
  | .num (.f32 _), hd, _ => by simp [Decoded] at hd
  | .arr _ xs, hd, hb => by
    simp only [Decoded] at hd
    simp only [Jn] at hb
    simp only [CovLit]; exact decodedL_covLit xs hd.2 hb
  | .obj kvs, hd, hb => by
    simp only [Decoded] at hd
    simp only [Jn] at hb
    simp only [CovLit, Bool.and_eq_true, decide_eq_true_eq]; exact ⟨hd.1, decodedF_covLit kvs hd.2 hb⟩
  | .foreign _, hd, _ => by simp [Decoded] at hd
theorem decodedL_covLit : ∀ xs : List Val, DecodedL xs → JnL Band xs → CovLitL xs = true
  | [], _, _ => rfl
  | x :: xs, hd, hb => by
    simp only [DecodedL] at hd
    simp only [JnL] at hb
    simp only [CovLitL, Bool.and_eq_true]; exact ⟨decoded_covLit x hd.1 hb.1, decodedL_covLit xs hd.2 hb.2⟩
theorem decodedF_covLit : ∀ kvs : List (Bytes × Val), DecodedF kvs → JnF Band kvs → CovLitF kvs = true
  | [], _, _ => rfl
  | (_, x) :: kvs, hd, hb => by
    simp only [DecodedF] at hd
    simp only [JnF] at hb
    simp only [CovLitF, Bool.and_eq_true]; exact ⟨decoded_covLit x hd.1 hb.1, decodedF_covLit kvs hd.2 hb.2⟩
end

/-! ### from the Bool traversal to `INode.LitsJV` -/

mutual
/-- if every literal of the compiled expression passes a Boolean check that implies `JV`, the expression is
    `INode.LitsJV` (the hypothesis of `C20B.evaluate_jv`) -/
theorem litsJV_of_all {B : Val → Bool} (hB : ∀ v, B v = true → JV v) :
    (n : INode) → n.all (INode.litOk B) = true → INode.LitsJV n
  | .lit v, h => by
    simp only [INode.all, INode.litOk] at h
    simp only [INode.LitsJV]
    exact hB v h
  | .current, _ | .root, _ | .field _, _ | .variable _, _ | .flattenCurrent, _ | .indexCurrent _, _
  | .smallIndexCurrent _, _ | .objectValuesCurrent, _ | .pruneArrayCurrent, _ | .sliceCurrent _ _, _
  | .sliceStepCurrent _ _ _, _ => by simp [INode.LitsJV]
  | .binop _ l r, h | .and l r, h | .or l r, h | .filter l r, h | .filterAndProjectCurrent l r, h
  | .flattenAndProject l r, h | .pipe l r, h | .projectArray l r, h | .projectObject l r, h
  | .selectArraySingle l r, h | .selectObjectSingle l _ r, h
  | .groupBy l r, h | .map l r, h | .maxBy l r, h | .minBy l r, h | .sortBy l r, h => by
    simp only [INode.all, Bool.and_eq_true] at h
    simp only [INode.LitsJV]
    exact ⟨litsJV_of_all hB l h.1.2, litsJV_of_all hB r h.2⟩
  | .not c, h | .negate c, h | .assertNumber c, h | .filterCurrent c, h | .flatten c, h
  | .flattenAndProjectCurrent c, h | .index c _, h | .objectValues c, h | .projectArrayCurrent c, h
  | .projectObjectCurrent c, h | .pruneArray c, h | .selectArraySingleCurrent c, h
  | .selectObjectSingleCurrent _ c, h | .slice c _ _, h | .sliceStep c _ _ _, h => by
    simp only [INode.all, Bool.and_eq_true] at h
    simp only [INode.LitsJV]
    exact litsJV_of_all hB c h.2
  | .filterAndProject l f r, h => by
    simp only [INode.all, Bool.and_eq_true] at h
    simp only [INode.LitsJV]
    exact ⟨litsJV_of_all hB l h.1.1.2, litsJV_of_all hB f h.1.2, litsJV_of_all hB r h.2⟩
  | .call _ args, h | .selectArrayCurrent args, h | .merge args, h | .notNull args, h | .zip args, h => by
    simp only [INode.all, Bool.and_eq_true] at h
    simp only [INode.LitsJV]
    exact litsJVL_of_all hB args h.2
  | .selectArray c fs, h => by
    simp only [INode.all, Bool.and_eq_true] at h
    simp only [INode.LitsJV]
    exact ⟨litsJV_of_all hB c h.1.2, litsJVL_of_all hB fs h.2⟩
  | .selectObject c fs, h => by
    simp only [INode.all, Bool.and_eq_true] at h
    simp only [INode.LitsJV]
    exact ⟨litsJV_of_all hB c h.1.2, litsJVF_of_all hB fs h.2⟩
  | .selectObjectCurrent fs, h => by
    simp only [INode.all, Bool.and_eq_true] at h
    simp only [INode.LitsJV]
    exact litsJVF_of_all hB fs h.2
  | .defineVariables vars child, h => by
    simp only [INode.all, Bool.and_eq_true] at h
    simp only [INode.LitsJV]
    exact ⟨litsJVF_of_all hB vars h.1.2, litsJV_of_all hB child h.2⟩
theorem litsJVL_of_all {B : Val → Bool} (hB : ∀ v, B v = true → JV v) :
    (ns : List INode) → INode.allL (INode.litOk B) ns = true → INode.LitsJVL ns
  | [], _ => by simp [INode.LitsJVL]
  | n :: ns, h => by
    simp only [INode.allL, Bool.and_eq_true] at h
    simp only [INode.LitsJVL]
    exact ⟨litsJV_of_all hB n h.1, litsJVL_of_all hB ns h.2⟩
theorem litsJVF_of_all {B : Val → Bool} (hB : ∀ v, B v = true → JV v) :
    (fs : List (Bytes × INode)) → INode.allF (INode.litOk B) fs = true → INode.LitsJVF fs
  | [], _ => by simp [INode.LitsJVF]
  | (_, n) :: rest, h => by
    simp only [INode.allF, Bool.and_eq_true] at h
    simp only [INode.LitsJVF]
    exact ⟨litsJV_of_all hB n h.1, litsJVF_of_all hB rest h.2⟩
end

example : INode.LitsJV (.binop .eq (.field [0x61]) (.lit (.num (.jnum [0x31])))) :=
  litsJV_of_all covLit_jv _ (by decide)

/-! ### every number inside is `NumOk` and `Covered` -/

/-- every number inside the value satisfies the two hypotheses of the theorems of C20C: `toDecimal` understands it
    (not NaN), and its value is established (`C20C.Covered`) -/
def AllCovered (v : Val) : Prop := NumsAll (fun a => NumOk a ∧ Covered a) v

theorem allCovered_num {a : Num} : AllCovered (.num a) ↔ NumOk a ∧ Covered a := by simp [AllCovered, NumsAll]

theorem numsAllL_iff' {P : Num → Prop} : ∀ {xs : List Val}, NumsAllL P xs ↔ ∀ x ∈ xs, NumsAll P x
  | [] => by simp [NumsAllL]
  | x :: xs => by simp [NumsAllL, numsAllL_iff' (xs := xs)]

theorem allCovered_arr {t : ATag} {xs : List Val} : AllCovered (.arr t xs) ↔ ∀ x ∈ xs, AllCovered x := by
  simp only [AllCovered, NumsAll]; exact numsAllL_iff'

theorem numsAllF_iff' {P : Num → Prop} : ∀ {kvs : List (Bytes × Val)},
    NumsAllF P kvs ↔ ∀ k x, (k, x) ∈ kvs → NumsAll P x
  | [] => by simp [NumsAllF]
  | (k, x) :: kvs => by
    simp only [NumsAllF, numsAllF_iff' (kvs := kvs), List.mem_cons, Prod.mk.injEq]
    constructor
    · rintro ⟨h1, h2⟩ k' x' (⟨_, rfl⟩ | hm)
      · exact h1
      · exact h2 k' x' hm
    · intro h
      exact ⟨h k x (Or.inl ⟨rfl, rfl⟩), fun k' x' hm => h k' x' (Or.inr hm)⟩

theorem allCovered_obj {kvs : List (Bytes × Val)} : AllCovered (.obj kvs) ↔ ∀ k x, (k, x) ∈ kvs → AllCovered x := by
  simp only [AllCovered, NumsAll]; exact numsAllF_iff'

/-- a JSON value (C20B's `JV`) all of whose `json.Number` texts are `Band` has every number `NumOk` and `Covered` -/
theorem allCovered_of : ∀ v : Val, JV v → Jn Band v → AllCovered v := by
  intro v
  induction v using Val.ind_mem with
  | null | bool | str | foreign => intro _ _; trivial
  | num a =>
    intro hj hb
    refine allCovered_num.mpr ⟨hj.1, ?_⟩
    cases a with
    | jnum t => exact jn_jnum.mp hb
    | dec d => trivial
    | int k v => trivial
    | f64 f => exact absurd hb (jn_f64 f)
    | f32 f => exact absurd hb (jn_f32 f)
  | arr t xs ih =>
    intro hj hb
    exact allCovered_arr.mpr fun x hx => ih x hx (jv_arr.mp hj x hx) (jn_arr.mp hb x hx)
  | obj kvs ih =>
    intro hj hb
    exact allCovered_obj.mpr fun k x hm => ih k x hm ((jv_obj.mp hj).2 k x hm) (jn_obj.mp hb k x hm)

/-- a decoded value whose number texts are `Band` is a `JV` -/
theorem decoded_band_jv {v : Val} (hd : Decoded v) (hb : Jn Band v) : JV v := covLit_jv v (decoded_covLit v hd hb)

/-! ### `Val.Fin` (C18B: what JSON input and the literals of every compiled expression are) implies `Jn JNumber` -/

mutual
/-- a `Fin` value — every decoded JSON document, every literal of every compiled expression — holds only `json.Number`s
    of the JSON grammar, and no binary float -/
theorem fin_jn : ∀ v : Val, v.Fin = true → Jn Lexical.JNumber v
  | .null, _ => by simp
  | .bool _, _ => by simp
  | .str _, _ => by simp
  | .num (.jnum t), h => jn_jnum.mpr ((JsonGrammar.isValidNumber_iff t).mp (Val.fin_jnum.mp h))
  | .num (.dec _), _ => by simp
  | .num (.int _ _), _ => by simp
  | .num (.f64 _), h => by simp [Val.Fin, Num.Fin] at h
  | .num (.f32 _), h => by simp [Val.Fin, Num.Fin] at h
  | .arr _ xs, h => by simp only [Val.Fin] at h; simp only [Jn]; exact finL_jn xs h
  | .obj kvs, h => by simp only [Val.Fin] at h; simp only [Jn]; exact finF_jn kvs h
  | .foreign _, _ => by simp
theorem finL_jn : ∀ xs : List Val, Val.FinL xs = true → JnL Lexical.JNumber xs
  | [], _ => trivial
  | x :: xs, h => by
    simp only [Val.FinL, Bool.and_eq_true] at h
    simp only [JnL]; exact ⟨fin_jn x h.1, finL_jn xs h.2⟩
theorem finF_jn : ∀ kvs : List (Bytes × Val), Val.FinF kvs = true → JnF Lexical.JNumber kvs
  | [], _ => trivial
  | (_, x) :: kvs, h => by
    simp only [Val.FinF, Bool.and_eq_true] at h
    simp only [JnF]; exact ⟨fin_jn x h.1, finF_jn kvs h.2⟩
end

example : Jn Lexical.JNumber (.arr .plain [.num (.jnum [0x31, 0x65, 0x37, 0x30, 0x30, 0x30]), .num (.int .i64 2)]) :=
  fin_jn _ (by decide)

end Jmes.C20E
