/-
  C02 (third part) — helper lemmas for `Jmes/Properties/C02C.lean`.

  * the declarative signature table `Sig` / `SigOK` (defined through `jsonType` only),
  * the representation hypothesis `NumOK` / `ArgOK` (a `json.Number` that is looked at carries a text
    `decimal128.Parse` accepts) and the bridges from the model's helpers (`toDecimal`, `intArg`, `allStrings`,
    `allDecimals`, `sumDec`) to `jsonType`,
  * the key lemmas of `sort_by` / `max_by` / `min_by` / `group_by` when every key evaluates.
-/
import Jmes.Properties.C02
import Jmes.Properties.C03
import Jmes.Proofs.C08BArity
namespace Jmes.C02C
open Jmes
open Jmes.C02 (JType jsonType)

/-! ## The signature table -/

/-- the elements of an array (nothing for a non-array) -/
def elems : Val → List Val
  | .arr _ xs => xs
  | _ => []

/-- a parameter type of the function specifications -/
inductive PT where
  /-- `any`: every value, also a Go value that is not JSON data -/
  | any
  /-- `any` restricted to JSON data (`type` names the JSON type) -/
  | json
  /-- `number`, `string`, `string|array`, `string|array|object`, `object`: the type is one of the listed ones -/
  | oneOf (ts : List JType)
  /-- `array[t]`: an array all of whose elements are of type `t` -/
  | arrayOf (t : JType)
  /-- `array[t₁]|array[t₂]|…`: an array all of whose elements are of one and the same of the listed types -/
  | arrayHom (ts : List JType)
  deriving Repr

/-- does the value fit the parameter type? Only `jsonType` of the value and of its elements is looked at. -/
def PT.ok : PT → Val → Bool
  | .any, _ => true
  | .json, v => jsonType v != .other
  | .oneOf ts, v => ts.contains (jsonType v)
  | .arrayOf t, v => jsonType v == .array && (elems v).all (fun x => jsonType x == t)
  | .arrayHom ts, v => jsonType v == .array && ts.any (fun t => (elems v).all (fun x => jsonType x == t))

abbrev tNumber : PT := .oneOf [.number]
abbrev tString : PT := .oneOf [.string]
abbrev tObject : PT := .oneOf [.object]

/-- **the signature table**, transcribed from the function specifications (JMESPath Community edition); one
    parameter type per position.  Optional parameters are separate entries of `Fn` (`find_first` with 2, 3, 4
    arguments is `findFirst`, `findFirstFrom`, `findFirstBetween`; `pad_left(s, w)` is `padSpaceLeft`, …). -/
def Sig : Fn → List PT
  | .abs | .ceil | .floor => [tNumber]
  | .avg | .sum => [.arrayOf .number]
  | .contains => [.oneOf [.string, .array], .any]
  | .endsWith | .startsWith => [tString, tString]
  | .findFirst | .findLast => [tString, tString]
  | .findFirstFrom | .findLastFrom => [tString, tString, tNumber]
  | .findFirstBetween | .findLastBetween => [tString, tString, tNumber, tNumber]
  | .fromItems => [.arrayOf .array]
  | .items | .keys | .values => [tObject]
  | .join => [tString, .arrayOf .string]
  | .length => [.oneOf [.string, .array, .object]]
  | .lower | .upper => [tString]
  | .max | .min | .sort => [.arrayHom [.number, .string]]
  | .padLeft | .padRight => [tString, tNumber, tString]
  | .padSpaceLeft | .padSpaceRight => [tString, tNumber]
  | .replace => [tString, tString, tString]
  | .replaceCount => [tString, tString, tString, tNumber]
  | .reverse => [.oneOf [.string, .array]]
  | .split => [tString, tString]
  | .splitCount => [tString, tString, tNumber]
  | .toArray | .toNumber | .toString => [.any]
  | .trim | .trimLeft | .trimRight => [tString, tString]
  | .trimSpace | .trimSpaceLeft | .trimSpaceRight => [tString]
  | .type => [.json]

/-- position by position -/
def allOK : List PT → List Val → Bool
  | [], [] => true
  | p :: ps, v :: vs => p.ok v && allOK ps vs
  | _, _ => false

/-- **every argument's type is within the signature** -/
def SigOK (f : Fn) (args : List Val) : Bool := allOK (Sig f) args

/-- the table has one entry per parameter -/
theorem Sig_length (f : Fn) : (Sig f).length = fnArity f := by cases f <;> rfl

/-! ## The representation hypothesis -/

/-- a `json.Number` carries a text `decimal128.Parse` accepts (true of every number that fits the decimal128 range;
    a text such as `1e7000` does not: KF02 / KF09) -/
def NumOK : Val → Prop
  | .num (.jnum t) => ∃ d, Dec.parse t = .ok d
  | _ => True

/-- an argument, and the elements of an argument that is an array -/
def ArgOK (v : Val) : Prop := NumOK v ∧ ∀ x ∈ elems v, NumOK x

theorem numOK_of_not_jnum {v : Val} (h : ∀ t, v ≠ .num (.jnum t)) : NumOK v := by
  cases v with
  | num n => cases n with
    | jnum t => exact absurd rfl (h t)
    | _ => trivial
  | _ => trivial

theorem toDecimal_none_iff {v : Val} (h : NumOK v) : toDecimal v = none ↔ jsonType v ≠ .number := by
  cases v with
  | num n =>
    cases n with
    | jnum t =>
      obtain ⟨d, hd⟩ := h
      simp [toDecimal, hd, jsonType]
    | _ => simp [toDecimal, jsonType]
  | _ => simp [toDecimal, jsonType]

theorem toDecimal_some_iff {v : Val} (h : NumOK v) : (∃ d, toDecimal v = some d) ↔ jsonType v = .number := by
  have := toDecimal_none_iff h
  cases hd : toDecimal v with
  | none => simp [hd] at this ⊢; exact this
  | some d => simp [hd] at this ⊢; exact this

theorem intArg_errType_iff' {v : Val} (h : NumOK v) :
    intArg v = .err [Cat.invalidType] ↔ jsonType v ≠ .number := by
  rw [← toDecimal_none_iff h]
  constructor
  · intro he; exact ((C02.intArg_errType_iff v).mp he).1
  · intro hd
    cases v with
    | num n =>
      cases n with
      | jnum t => obtain ⟨d, hd'⟩ := h; simp [toDecimal, hd'] at hd
      | _ => cases hd
    | _ => rfl

theorem toInt_ne_notNum {v : Val} (h : NumOK v) (hn : jsonType v = .number) : toInt v ≠ .notNum := by
  intro hi
  have := C02.toInt_notNum v hi
  exact (toDecimal_none_iff h).mp this hn

theorem toInt_ne_unmodelled {v : Val} (h : NumOK v) : toInt v ≠ .unmodelled := by
  cases v with
  | num n =>
    cases n with
    | jnum t =>
      obtain ⟨d, hd⟩ := h
      simp only [toInt, hd]
      cases parseInt64 t with
      | some i => intro h; cases h
      | none =>
        simp only [decToInt]
        split
        · intro h; cases h
        · split
          · intro h; cases h
          · intro h; cases h
          · split <;> (intro h; cases h)
    | dec d =>
      simp only [toInt, decToInt]
      split
      · intro h; cases h
      · split
        · intro h; cases h
        · intro h; cases h
        · split <;> (intro h; cases h)
    | f64 f => simp only [toInt]; split <;> (intro h; cases h)
    | f32 f => simp only [toInt]; split <;> (intro h; cases h)
    | int k i =>
      simp only [toInt]
      cases k <;> simp only <;> first | (intro h; cases h; done) | (split <;> (intro h; cases h))
  | _ => intro h; cases h

theorem toInt_nonNumber {v : Val} (hn : jsonType v ≠ .number) : toInt v = .notNum := by
  cases v <;> first | rfl | exact absurd rfl hn

/-! ### arrays of strings / of numbers -/

theorem allStrings_none_iff : ∀ xs : List Val,
    allStrings xs = none ↔ xs.all (fun x => jsonType x == .string) = false
  | [] => by simp [allStrings]
  | x :: xs => by
    cases x with
    | str s =>
      rw [C02.allStrings_cons_str, allStrings_none_iff xs]
      simp [jsonType]
    | _ => simp [allStrings, jsonType]

theorem exists_toDecimal_none_iff : ∀ xs : List Val, (∀ x ∈ xs, NumOK x) →
    ((∃ x ∈ xs, toDecimal x = none) ↔ xs.all (fun x => jsonType x == .number) = false)
  | [], _ => by simp
  | x :: xs, h => by
    have hx := toDecimal_none_iff (h x (by simp))
    have ih := exists_toDecimal_none_iff xs (fun y hy => h y (by simp [hy]))
    simp only [List.mem_cons, exists_eq_or_imp, hx, ih, List.all_cons, Bool.and_eq_false_iff, beq_eq_false_iff_ne]

theorem allDecimals_none_iff : ∀ xs : List Val, allDecimals xs = none ↔ ∃ x ∈ xs, toDecimal x = none
  | [] => by simp [allDecimals]
  | x :: xs => by
    simp only [allDecimals, List.mem_cons, exists_eq_or_imp]
    cases hd : toDecimal x with
    | none => simp
    | some d =>
      have ih := allDecimals_none_iff xs
      cases ha : allDecimals xs with
      | none => rw [ha] at ih; simp [ih.mp rfl]
      | some ds =>
        rw [ha] at ih
        simp only [Option.map_some, reduceCtorEq, false_or, false_iff]
        intro hex
        have := ih.mpr hex
        cases this

theorem allDecimals_none_iff' (xs : List Val) (h : ∀ x ∈ xs, NumOK x) :
    allDecimals xs = none ↔ xs.all (fun x => jsonType x == .number) = false :=
  (allDecimals_none_iff xs).trans (exists_toDecimal_none_iff xs h)

/-! ## Keys of `sort_by` / `max_by` / `min_by` / `group_by` when every key evaluates -/

/-- the keys are all strings, or all numbers -/
def KeysOK (ks : List Val) : Bool :=
  ks.all (fun k => jsonType k == .string) || ks.all (fun k => jsonType k == .number)

theorem keysFrom_str (f : Val → Res Val) (k : Val → Val) : ∀ (xs : List Val), (∀ x ∈ xs, f x = .ok (k x)) →
    (xs.all (fun x => jsonType (k x) == .string) = true → ∃ ks, keysFrom f true xs = .ok ks) ∧
    (xs.all (fun x => jsonType (k x) == .string) = false → keysFrom f true xs = .err [Cat.invalidType])
  | [], _ => ⟨fun _ => ⟨[], rfl⟩, fun h => by simp at h⟩
  | x :: xs, h => by
    have hx := h x (by simp)
    obtain ⟨ih1, ih2⟩ := keysFrom_str f k xs (fun y hy => h y (by simp [hy]))
    simp only [keysFrom, hx, Res.ok_bind, if_true, List.all_cons]
    cases hk : k x with
    | str s =>
      simp only [jsonType, beq_self_eq_true, Bool.true_and, Res.ok_bind]
      constructor
      · intro ha; obtain ⟨ks, hks⟩ := ih1 ha; exact ⟨_, by rw [hks]; rfl⟩
      · intro ha; rw [ih2 ha]; rfl
    | _ => simp [jsonType, errType]

theorem keysFrom_num (f : Val → Res Val) (k : Val → Val) : ∀ (xs : List Val), (∀ x ∈ xs, f x = .ok (k x)) →
    (∀ x ∈ xs, NumOK (k x)) →
    (xs.all (fun x => jsonType (k x) == .number) = true → ∃ ks, keysFrom f false xs = .ok ks) ∧
    (xs.all (fun x => jsonType (k x) == .number) = false → keysFrom f false xs = .err [Cat.invalidType])
  | [], _, _ => ⟨fun _ => ⟨[], rfl⟩, fun h => by simp at h⟩
  | x :: xs, h, hn => by
    have hx := h x (by simp)
    obtain ⟨ih1, ih2⟩ := keysFrom_num f k xs (fun y hy => h y (by simp [hy])) (fun y hy => hn y (by simp [hy]))
    have hdn := toDecimal_none_iff (hn x (by simp))
    simp only [keysFrom, hx, Res.ok_bind, Bool.false_eq_true, if_false, List.all_cons]
    cases hd : toDecimal (k x) with
    | none =>
      have : jsonType (k x) ≠ .number := hdn.mp hd
      simp [this, errType]
    | some d =>
      have : jsonType (k x) = .number := by
        by_cases hj : jsonType (k x) = .number
        · exact hj
        · have := hdn.mpr hj; rw [hd] at this; cases this
      simp only [this, beq_self_eq_true, Bool.true_and, Res.ok_bind]
      constructor
      · intro ha; obtain ⟨ks, hks⟩ := ih1 ha; exact ⟨_, by rw [hks]; rfl⟩
      · intro ha; rw [ih2 ha]; rfl

/-- **the key rule**: when the key expression evaluates on every element, `keysOf` succeeds iff the keys are all
    strings or all numbers, and reports invalid-type otherwise -/
theorem keysOf_spec (f : Val → Res Val) (k : Val → Val) (xs : List Val) (h : ∀ x ∈ xs, f x = .ok (k x))
    (hn : ∀ x ∈ xs, NumOK (k x)) :
    (KeysOK (xs.map k) = true → ∃ ks, keysOf f xs = .ok ks) ∧
    (KeysOK (xs.map k) = false → keysOf f xs = .err [Cat.invalidType]) := by
  cases xs with
  | nil => exact ⟨fun _ => ⟨[], rfl⟩, fun h => by simp [KeysOK] at h⟩
  | cons x xs =>
    have hx := h x (by simp)
    obtain ⟨s1, s2⟩ := keysFrom_str f k xs (fun y hy => h y (by simp [hy]))
    obtain ⟨n1, n2⟩ := keysFrom_num f k xs (fun y hy => h y (by simp [hy])) (fun y hy => hn y (by simp [hy]))
    have hdn := toDecimal_none_iff (hn x (by simp))
    simp only [keysOf, hx, Res.ok_bind, KeysOK, List.map_cons, List.all_cons, List.all_map, Function.comp_def]
    cases hk : k x with
    | str s =>
      simp only [jsonType, beq_self_eq_true, Bool.true_and]
      have e1 : ((JType.string == JType.number) = false) := by decide
      simp only [e1, Bool.false_and, Bool.or_false]
      constructor
      · intro ha; obtain ⟨ks, hks⟩ := s1 ha; exact ⟨_, by rw [hks]; rfl⟩
      · intro ha; rw [s2 ha]; rfl
    | null | bool _ | arr _ _ | obj _ | foreign _ =>
      simp [toDecimal, jsonType, errType]
    | num n =>
      rw [hk] at hdn
      have hj : jsonType (Val.num n) = .number := rfl
      cases hd : toDecimal (Val.num n) with
      | none => exact absurd hj (hdn.mp hd)
      | some d =>
        have e1 : ((JType.number == JType.string) = false) := by decide
        simp only [jsonType, e1, Bool.false_and, Bool.false_or, beq_self_eq_true, Bool.true_and]
        constructor
        · intro ha; obtain ⟨ks, hks⟩ := n1 ha; exact ⟨_, by rw [hks]; rfl⟩
        · intro ha; rw [n2 ha]; rfl

theorem groupLoop_spec (f : Val → Res Val) (k : Val → Val) : ∀ (xs : List Val) (acc : List (Bytes × List Val)),
    (∀ x ∈ xs, f x = .ok (k x)) →
    (xs.all (fun x => jsonType (k x) == .string) = true → ∃ gs, groupLoop f xs acc = .ok gs) ∧
    (xs.all (fun x => jsonType (k x) == .string) = false → groupLoop f xs acc = .err [Cat.invalidType])
  | [], acc, _ => ⟨fun _ => ⟨acc, rfl⟩, fun h => by simp at h⟩
  | x :: xs, acc, h => by
    have hx := h x (by simp)
    simp only [groupLoop, hx, Res.ok_bind, List.all_cons]
    cases hk : k x with
    | str s =>
      simp only [jsonType, beq_self_eq_true, Bool.true_and]
      exact groupLoop_spec f k xs _ (fun y hy => h y (by simp [hy]))
    | _ => simp [jsonType, errType]

/-- `widen` leaves a success alone … -/
theorem widen_ok {α} (t : ATag) (xs : List Val) (fs : List (Val → Res Val)) (extra : List Cat) (a : α) :
    widen t xs fs extra (.ok a) = .ok a := rfl

/-- … and, when the key expression evaluates on every element, an invalid-type error stays the single category
    invalid-type (whatever the order in which Go visits the elements) -/
theorem widen_errType {α} (t : ATag) (xs : List Val) (f : Val → Res Val) (k : Val → Val)
    (h : ∀ x ∈ xs, f x = .ok (k x)) :
    widen (α := α) t xs [f] [Cat.invalidType] (.err [Cat.invalidType]) = .err [Cat.invalidType] := by
  simp only [widen, List.any_cons, List.any_nil, Bool.or_false, List.flatMap_cons, List.flatMap_nil, List.append_nil]
  split
  · split
    · rename_i hany
      obtain ⟨x, hx, hp⟩ := List.any_eq_true.mp hany
      rw [h x hx] at hp
      cases hp
    · rw [List.flatMap_eq_nil_iff.mpr (fun x hx => by rw [h x hx])]
      rfl
  · rfl

end Jmes.C02C
