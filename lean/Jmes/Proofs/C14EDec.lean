/-
  Helper for property C14, fourth round: decimals holding dyadic fractions `z·2^-s`.

  The integer lemmas of `C14CLemmas.lean` (section "decimals holding integers": `IsInt`, `canon`, `isInt_add`, …)
  generalised from integers `z` to dyadics `z·2^-s = z·5^s·10^-s`.  `dyc z s` (of `C14EDyDefs.lean`) is the canonical
  decimal of that value, `IsDy d z s` says that the decimal `d` has that value.  As long as the exact result
  `|z|·5^s` has at most 34 digits, `+`, `-`, `*` and negation on decimals are exact on such values.

  No side condition on the exponent is needed: `|z|·5^s ≤ MAXSIG` forces `z = 0` (a zero always fits) or `s ≤ 48`.
-/
import Jmes.Proofs.C14EDyDefs
namespace Jmes
namespace C14E
open C14 C14B C14C

/-! ### the canonical decimal `dyc z s` -/

/-- the scaled signed coefficient of a decimal `±|z|·p · 10^e` -/
theorem sval_scaled (z : Int) (p : Nat) (e m : Int) :
    Dec.sval (decide (z < 0)) (z.natAbs * p) e m = z * (p : Int) * ((10 ^ (e - m).toNat : Nat) : Int) := by
  unfold Dec.sval Dec.pow10
  rw [Int.natCast_mul, Int.natCast_mul]
  by_cases h : z < 0
  · simp only [h, decide_true, if_true]
    have : (z.natAbs : Int) = -z := by omega
    rw [this]
    simp [Int.neg_mul]
  · simp only [h, decide_false, Bool.false_eq_true, if_false]
    have : (z.natAbs : Int) = z := by omega
    rw [this]; simp

/-- the signed coefficient of `dyc z s` at its own exponent is `z·5^s` -/
theorem sval_dyc (z : Int) (s : Nat) :
    Dec.sval (decide (z < 0)) (z.natAbs * 5 ^ s) (-(s : Int)) (-(s : Int)) = z * ((5 ^ s : Nat) : Int) := by
  rw [sval_scaled, Int.sub_self]; simp

theorem dyc_zero (z : Int) : dyc z 0 = canon z := by simp [dyc, canon]

theorem dyc_fin (z : Int) (s : Nat) : (dyc z s).isSpecial = false := rfl

/-- `z·p < 0` iff `z < 0`, for a positive `p` -/
theorem mul_pos_neg_iff (z : Int) (p : Nat) (hp : 0 < p) : z * (p : Int) < 0 ↔ z < 0 := by
  constructor
  · intro h
    apply Classical.byContradiction
    intro hz
    have : 0 ≤ z * (p : Int) := Int.mul_nonneg (by omega) (by omega)
    omega
  · intro h
    exact Int.mul_neg_of_neg_of_pos h (by omega)

/-- `dyc` written with the signed coefficient `z·5^s` -/
theorem dyc_signed (z : Int) (s : Nat) :
    Dec.fin (decide (z * ((5 ^ s : Nat) : Int) < 0)) (z * ((5 ^ s : Nat) : Int)).natAbs (-(s : Int)) = dyc z s := by
  unfold dyc
  have hp : 0 < 5 ^ s := Nat.pow_pos (by decide)
  congr 1
  · exact decide_eq_decide.mpr (mul_pos_neg_iff z _ hp)
  · rw [Int.natAbs_mul, Int.natAbs_natCast]

/-- `|z|·5^s` with at most 34 digits fits the format at exponent `-s` -/
theorem fits_dy {c s : Nat} (h : c * 5 ^ s ≤ Dec.MAXSIG) : Dec.Fits (c * 5 ^ s) (-(s : Int)) := by
  by_cases hc : c = 0
  · left; simp [hc]
  · have h1 : 5 ^ s ≤ c * 5 ^ s := Nat.le_mul_of_pos_left _ (Nat.pos_of_ne_zero hc)
    have hs : s ≤ 48 := by
      apply Classical.byContradiction
      intro hn
      have h2 : 5 ^ 49 ≤ 5 ^ s := Nat.pow_le_pow_right (by decide) (by omega)
      have h3 : Dec.MAXSIG < 5 ^ 49 := by decide
      omega
    exact fits_of_lt h (by unfold Dec.EMIN; omega) (by unfold Dec.EMAX; omega)

/-! ### basic facts about `IsDy` -/

/-- a decimal of equal value has the same dyadic value -/
theorem IsDy.congr {d d' : Dec} {z : Int} {s : Nat} (h : IsDy d z s) (hc : Dec.cmp d d' = some 0) : IsDy d' z s :=
  Dec.cmp_zero_trans (Dec.cmp_zero_symm hc) h

example : IsDy (.fin false 375 (-3)) 3 3 := IsDy.congr (d := .fin false 3750 (-4)) (by unfold IsDy; decide) (by decide)

theorem dyc_inj {z z' : Int} {s : Nat} (h : Dec.cmp (dyc z s) (dyc z' s) = some 0) : z = z' := by
  simp only [dyc, Dec.cmp, Option.some.injEq] at h
  rw [Dec.cmpFin_eq_zero_iff_value _ _ _ _ _ _ (-(s : Int)) (Int.le_refl _) (Int.le_refl _), sval_dyc, sval_dyc] at h
  have hp : ((5 ^ s : Nat) : Int) ≠ 0 := by
    have : 0 < 5 ^ s := Nat.pow_pos (by decide)
    omega
  exact Int.eq_of_mul_eq_mul_right hp h

/-- at a given scale, the numerator is determined by the decimal -/
theorem IsDy.unique {d : Dec} {z z' : Int} {s : Nat} (h : IsDy d z s) (h' : IsDy d z' s) : z = z' :=
  dyc_inj (Dec.cmp_zero_trans (Dec.cmp_zero_symm h) h')

example : ∀ z : Int, IsDy (.fin false 3750 (-4)) z 3 → z = 3 :=
  fun _ h => IsDy.unique h (by unfold IsDy; decide)

/-- two decimals of the same dyadic value compare equal -/
theorem IsDy.same_value {d d' : Dec} {z : Int} {s : Nat} (h : IsDy d z s) (h' : IsDy d' z s) : Dec.cmp d d' = some 0 :=
  Dec.cmp_zero_trans h (Dec.cmp_zero_symm h')

example : Dec.cmp (.fin false 3750 (-4)) (.fin false 375 (-3)) = some 0 :=
  IsDy.same_value (z := 3) (s := 3) (by unfold IsDy; decide) (by unfold IsDy; decide)

/-- a decimal of dyadic value is finite -/
theorem fin_of_isDy {d : Dec} {z : Int} {s : Nat} (h : IsDy d z s) : ∃ n c e, d = .fin n c e :=
  Dec.fin_of_cmp_zero_fin (Dec.cmp_zero_symm h)

example : ∃ n c e, (Dec.fin false 3750 (-4)) = .fin n c e := fin_of_isDy (z := 3) (s := 3) (by unfold IsDy; decide)

theorem dyc_rescale (z : Int) (s j : Nat) : Dec.cmp (dyc z s) (dyc (z * 2 ^ j) (s + j)) = some 0 := by
  simp only [dyc, Dec.cmp, Option.some.injEq]
  rw [Dec.cmpFin_eq_zero_iff_value _ _ _ _ _ _ (-((s + j : Nat) : Int)) (by omega) (Int.le_refl _), sval_dyc, sval_scaled]
  have e1 : (-(s : Int) - -((s + j : Nat) : Int)).toNat = j := by omega
  rw [e1, Nat.pow_add, Int.natCast_mul, Int.natCast_pow 10 j]
  have e2 : ((10 : Nat) : Int) = 2 * 5 := rfl
  rw [e2, Int.mul_pow, Int.natCast_pow 5 j, Int.natCast_pow 5 s]
  have e3 : ((5 : Nat) : Int) = 5 := rfl
  rw [e3]
  generalize (5 : Int) ^ s = A
  generalize (5 : Int) ^ j = B
  generalize (2 : Int) ^ j = C
  rw [Int.mul_assoc, Int.mul_assoc, Int.mul_left_comm A C B]

/-- the same value at a finer scale: `z·2^-s = (z·2^j)·2^-(s+j)` -/
theorem IsDy.rescale {d : Dec} {z : Int} {s : Nat} (h : IsDy d z s) (j : Nat) : IsDy d (z * 2 ^ j) (s + j) :=
  Dec.cmp_zero_trans h (dyc_rescale z s j)

-- 1.5 = 3·2^-1 = 12·2^-3
example : IsDy (.fin false 15 (-1)) (3 * 2 ^ 2) (1 + 2) := IsDy.rescale (by unfold IsDy; decide) 2

/-- scale 0 is the integer case of `C14C` -/
theorem isDy_zero_iff {d : Dec} {z : Int} : IsDy d z 0 ↔ IsInt d z := by
  unfold IsDy
  rw [dyc_zero]
  exact ⟨isInt_of_canon, IsInt.canon⟩

example : IsDy (.fin false 70 (-1)) 7 0 ∧ IsInt (.fin false 70 (-1)) 7 :=
  ⟨by unfold IsDy; decide, isDy_zero_iff.mp (by unfold IsDy; decide)⟩

/-- an integer `z` is the dyadic `z·2^s·2^-s` -/
theorem isDy_of_isInt {d : Dec} {z : Int} (h : IsInt d z) (s : Nat) : IsDy d (z * 2 ^ s) s := by
  have := (isDy_zero_iff.mpr h).rescale s
  rwa [Nat.zero_add] at this

example : IsDy (.fin false 3 0) (3 * 2 ^ 2) 2 := isDy_of_isInt (by unfold IsInt; decide) 2

/-! ### negation, `+`, `-`, `*` -/

theorem dyc_neg (z : Int) (s : Nat) : Dec.cmp (dyc z s).neg (dyc (-z) s) = some 0 := by
  simp only [dyc, Dec.neg, Dec.cmp, Option.some.injEq]
  rw [Dec.cmpFin_eq_zero_iff_value _ _ _ _ _ _ (-(s : Int)) (Int.le_refl _) (Int.le_refl _), Dec.sval_neg, sval_dyc,
    sval_dyc, Int.neg_mul]

/-- negation on decimals holding dyadics -/
theorem isDy_neg {b : Dec} {z : Int} {s : Nat} (hb : IsDy b z s) : IsDy b.neg (-z) s :=
  Dec.cmp_zero_trans (Dec.neg_cmp hb) (dyc_neg z s)

example : IsDy (Dec.fin false 3750 (-4)).neg (-3) 3 := by unfold IsDy; decide
example : IsDy (Dec.fin false 3750 (-4)).neg (-3) 3 := isDy_neg (by unfold IsDy; decide)

theorem dyc_add (z1 z2 : Int) (s : Nat) (h : (z1 + z2).natAbs * 5 ^ s ≤ Dec.MAXSIG) :
    Dec.cmp (Dec.add (dyc z1 s) (dyc z2 s)) (dyc (z1 + z2) s) = some 0 := by
  have hmin : min (-(s : Int)) (-(s : Int)) = -(s : Int) := Int.min_self _
  have hsum : z1 * ((5 ^ s : Nat) : Int) + z2 * ((5 ^ s : Nat) : Int) = (z1 + z2) * ((5 ^ s : Nat) : Int) :=
    (Int.add_mul _ _ _).symm
  have hf : Dec.AddFits (dyc z1 s) (dyc z2 s) := by
    simp only [dyc, Dec.AddFits, hmin, sval_dyc, hsum]
    rw [Int.natAbs_mul, Int.natAbs_natCast]
    exact fits_dy h
  have := Dec.addFin_raw _ _ _ _ _ _ hf
  simp only [Dec.addRaw, hmin, sval_dyc, hsum, dyc_signed] at this
  exact this

/-- `+` on decimals holding dyadics of the same scale -/
theorem isDy_add {a b : Dec} {z1 z2 : Int} {s : Nat} (ha : IsDy a z1 s) (hb : IsDy b z2 s)
    (h : (z1 + z2).natAbs * 5 ^ s ≤ Dec.MAXSIG) : IsDy (Dec.add a b) (z1 + z2) s :=
  same_to_cmp (Dec.add_same ha hb) (dyc_add z1 z2 s h) rfl

-- 0.375 + (-1.25) = -0.875 = -7·2^-3
example : IsDy (Dec.add (.fin false 3750 (-4)) (.fin true 125 (-2))) (3 + -10) 3 := by unfold IsDy; decide
example : IsDy (Dec.add (.fin false 3750 (-4)) (.fin true 125 (-2))) (3 + -10) 3 :=
  isDy_add (by unfold IsDy; decide) (by unfold IsDy; decide) (by decide)

/-- `-` on decimals holding dyadics of the same scale -/
theorem isDy_sub {a b : Dec} {z1 z2 : Int} {s : Nat} (ha : IsDy a z1 s) (hb : IsDy b z2 s)
    (h : (z1 - z2).natAbs * 5 ^ s ≤ Dec.MAXSIG) : IsDy (Dec.sub a b) (z1 - z2) s := by
  rw [Dec.sub_eq_add_neg, Int.sub_eq_add_neg]
  exact isDy_add ha (isDy_neg hb) (by rw [← Int.sub_eq_add_neg]; exact h)

-- 0.375 - 1.25 = -0.875
example : IsDy (Dec.sub (.fin false 3750 (-4)) (.fin false 125 (-2))) (3 - 10) 3 := by unfold IsDy; decide
example : IsDy (Dec.sub (.fin false 3750 (-4)) (.fin false 125 (-2))) (3 - 10) 3 :=
  isDy_sub (by unfold IsDy; decide) (by unfold IsDy; decide) (by decide)

theorem dyc_mul (z1 z2 : Int) (s1 s2 : Nat) (h : (z1 * z2).natAbs * 5 ^ (s1 + s2) ≤ Dec.MAXSIG) :
    Dec.cmp (Dec.mul (dyc z1 s1) (dyc z2 s2)) (dyc (z1 * z2) (s1 + s2)) = some 0 := by
  have hc : z1.natAbs * 5 ^ s1 * (z2.natAbs * 5 ^ s2) = (z1 * z2).natAbs * 5 ^ (s1 + s2) := by
    rw [Int.natAbs_mul, Nat.pow_add, Nat.mul_mul_mul_comm]
  have he : -(s1 : Int) + -(s2 : Int) = -((s1 + s2 : Nat) : Int) := by omega
  have hf : Dec.MulFits (dyc z1 s1) (dyc z2 s2) := by
    simp only [dyc, Dec.MulFits]
    rw [hc, he]
    exact fits_dy h
  refine Dec.cmp_zero_trans (Dec.mul_raw _ _ _ _ _ _ hf) ?_
  simp only [dyc, Dec.cmp, Option.some.injEq]
  rw [← he, Dec.cmpFin_eq_zero_iff_value _ _ _ _ _ _ (-(s1 : Int) + -(s2 : Int)) (Int.le_refl _) (Int.le_refl _),
    Dec.sval_mul _ _ _ _ _ _ _ _ (Int.le_refl _) (Int.le_refl _), sval_dyc, sval_dyc, he, sval_dyc,
    Nat.pow_add, Int.natCast_mul]
  ac_rfl

/-- `*` on decimals holding dyadics: the scales add -/
theorem isDy_mul {a b : Dec} {z1 z2 : Int} {s1 s2 : Nat} (ha : IsDy a z1 s1) (hb : IsDy b z2 s2)
    (h : (z1 * z2).natAbs * 5 ^ (s1 + s2) ≤ Dec.MAXSIG) : IsDy (Dec.mul a b) (z1 * z2) (s1 + s2) :=
  same_to_cmp (Dec.mul_same ha hb) (dyc_mul z1 z2 s1 s2 h) rfl

-- 0.375 · (-1.5) = -0.5625 = -9·2^-4
example : IsDy (Dec.mul (.fin false 3750 (-4)) (.fin true 15 (-1))) (3 * -3) (3 + 1) := by unfold IsDy; decide
example : IsDy (Dec.mul (.fin false 3750 (-4)) (.fin true 15 (-1))) (3 * -3) (3 + 1) :=
  isDy_mul (by unfold IsDy; decide) (by unfold IsDy; decide) (by decide)

/-- a decimal of dyadic value passes the "not a number" check unchanged -/
theorem checkD_isDy {d : Dec} {z : Int} {s : Nat} (h : IsDy d z s) : checkD d = .ok (.num (.dec d)) := by
  obtain ⟨n, c, e, rfl⟩ := fin_of_isDy h; rfl

example : checkD (Dec.fin false 3750 (-4)) = .ok (.num (.dec (.fin false 3750 (-4)))) :=
  checkD_isDy (z := 3) (s := 3) (by unfold IsDy; decide)

end C14E
end Jmes
