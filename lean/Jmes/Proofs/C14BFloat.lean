/-
  C14 (representation independence of numbers): the float fast path of `/`, `//`, `%` and the `float32` kind.
-/
import Jmes.Properties.C14
namespace Jmes
namespace C14BF
open F64

/-! ## 1. what `roundPos` computes for quotients below `2^53` -/

/-- round-half-even of `n/d` to an integer -/
def rnd (n d : Nat) : Nat :=
  if 2 * (n % d) > d ∨ (2 * (n % d) = d ∧ (n / d) % 2 = 1) then n / d + 1 else n / d

/-- the trial quotient of `fixExp` at the exponent `-s` -/
theorem qAt (num den s : Nat) :
    (if (-(s : Int)) ≥ 0 then num / (den * 2 ^ (-(s : Int)).toNat) else (num * 2 ^ (-(-(s : Int))).toNat) / den)
      = num * 2 ^ s / den := by
  by_cases hs : s = 0
  · subst hs; simp
  · have h1 : ¬ (-(s : Int)) ≥ 0 := by omega
    have h2 : (-(-(s : Int))).toNat = s := by omega
    simp only [h1, if_false, h2]

theorem pairAt (num den s : Nat) :
    (if (-(s : Int)) ≥ 0 then (num, den * 2 ^ (-(s : Int)).toNat) else (num * 2 ^ (-(-(s : Int))).toNat, den))
      = (num * 2 ^ s, den) := by
  by_cases hs : s = 0
  · subst hs; simp
  · have h1 : ¬ (-(s : Int)) ≥ 0 := by omega
    have h2 : (-(-(s : Int))).toNat = s := by omega
    simp only [h1, if_false, h2]

/-- `fixExp` stops where the scaled quotient has exactly 53 bits -/
theorem fixExp_stop (fuel num den s : Nat) (hd : 0 < den) (h1 : 2 ^ 52 * den ≤ num * 2 ^ s)
    (h2 : num * 2 ^ s < 2 ^ 53 * den) : fixExp (fuel + 1) num den (-(s : Int)) = -(s : Int) := by
  unfold fixExp
  simp only [qAt]
  have a1 : ¬ num * 2 ^ s / den ≥ 2 ^ 53 := by
    have := (Nat.div_lt_iff_lt_mul (x := num * 2 ^ s) (y := 2 ^ 53) hd).mpr h2
    omega
  have a2 : ¬ (num * 2 ^ s / den < 2 ^ 52 ∧ -(s : Int) > -1074) := by
    have := (Nat.le_div_iff_mul_le (x := 2 ^ 52) (y := num * 2 ^ s) hd).mpr h1
    omega
  rw [if_neg a1, if_neg a2]

theorem pow_split {a b : Nat} (h : a ≤ b) : 2 ^ b = 2 ^ a * 2 ^ (b - a) := by
  rw [← Nat.pow_add]; congr 1; omega

/-- **`roundPos` on a quotient below `2^53`** (and not absurdly small): the quotient is scaled by the power of two
    that gives it 53 bits, rounded half-even to an integer, and scaled back -/
theorem roundPos_spec (neg : Bool) (num den : Nat) (h0 : num ≠ 0) (h : num < 2 ^ 53) (hd0 : den ≠ 0)
    (hd : den < 2 ^ 1022) :
    ∃ s : Nat, 2 ^ 52 * den ≤ num * 2 ^ s ∧ num * 2 ^ s < 2 ^ 53 * den ∧
      roundPos neg num den = mk neg (rnd (num * 2 ^ s) den) (-(s : Int)) := by
  have hL : Nat.log2 num < 53 := (Nat.log2_lt h0).mpr h
  have hlo : 2 ^ Nat.log2 num ≤ num := Nat.log2_self_le h0
  have hhi : num < 2 ^ (Nat.log2 num + 1) := Nat.lt_log2_self
  have hD : Nat.log2 den < 1022 := (Nat.log2_lt hd0).mpr hd
  have hdlo : 2 ^ Nat.log2 den ≤ den := Nat.log2_self_le hd0
  have hdhi : den < 2 ^ (Nat.log2 den + 1) := Nat.lt_log2_self
  have hdpos : 0 < den := by omega
  generalize hLn : Nat.log2 num = L at hL hlo hhi
  generalize hDn : Nat.log2 den = D at hD hdlo hdhi
  -- first guess: s0 = 52 + D - L
  have e0 : (if ((L : Int) - (D : Int) - 52) < -1074 then (-1074 : Int) else (L : Int) - (D : Int) - 52)
      = -((52 + D - L : Nat) : Int) := by
    rw [if_neg (by omega)]; omega
  -- bounds at s0
  have b1 : 2 ^ 51 * den < num * 2 ^ (52 + D - L) := by
    have e : 2 ^ (52 + D) = 2 ^ L * 2 ^ (52 + D - L) := pow_split (by omega)
    have : 2 ^ (52 + D) ≤ num * 2 ^ (52 + D - L) := by rw [e]; exact Nat.mul_le_mul_right _ hlo
    have e' : 2 ^ (52 + D) = 2 ^ 51 * 2 ^ (D + 1) := by rw [← Nat.pow_add]; congr 1; omega
    have : 2 ^ 51 * den < 2 ^ 51 * 2 ^ (D + 1) := Nat.mul_lt_mul_of_pos_left hdhi (Nat.pow_pos (by decide))
    omega
  have b2 : num * 2 ^ (52 + D - L) < 2 ^ 53 * den := by
    have e : 2 ^ (53 + D) = 2 ^ (L + 1) * 2 ^ (52 + D - L) := by rw [← Nat.pow_add]; congr 1; omega
    have : num * 2 ^ (52 + D - L) < 2 ^ (53 + D) := by
      rw [e]; exact Nat.mul_lt_mul_of_pos_right hhi (Nat.pow_pos (by decide))
    have e' : 2 ^ (53 + D) = 2 ^ 53 * 2 ^ D := by rw [← Nat.pow_add]
    have : 2 ^ 53 * 2 ^ D ≤ 2 ^ 53 * den := Nat.mul_le_mul_left _ hdlo
    omega
  -- the exponent `fixExp` settles on
  have hfix : ∃ s : Nat, 2 ^ 52 * den ≤ num * 2 ^ s ∧ num * 2 ^ s < 2 ^ 53 * den ∧
      fixExp 6 num den (-((52 + D - L : Nat) : Int)) = -(s : Int) := by
    by_cases hq : 2 ^ 52 * den ≤ num * 2 ^ (52 + D - L)
    · exact ⟨52 + D - L, hq, b2, fixExp_stop 5 num den _ hdpos hq b2⟩
    · have hS : num * 2 ^ (52 + D - L + 1) = num * 2 ^ (52 + D - L) * 2 := by
        rw [Nat.mul_assoc]; rfl
      have c1 : 2 ^ 52 * den ≤ num * 2 ^ (52 + D - L + 1) := by rw [hS]; omega
      have c2 : num * 2 ^ (52 + D - L + 1) < 2 ^ 53 * den := by rw [hS]; omega
      refine ⟨52 + D - L + 1, c1, c2, ?_⟩
      · skip
        have step : fixExp 6 num den (-((52 + D - L : Nat) : Int)) =
            fixExp 5 num den (-((52 + D - L + 1 : Nat) : Int)) := by
          conv => lhs; unfold fixExp
          simp only [qAt]
          have a1 : ¬ num * 2 ^ (52 + D - L) / den ≥ 2 ^ 53 := by
            have := (Nat.div_lt_iff_lt_mul (x := num * 2 ^ (52 + D - L)) (y := 2 ^ 53) hdpos).mpr b2
            omega
          have a2 : num * 2 ^ (52 + D - L) / den < 2 ^ 52 ∧ -((52 + D - L : Nat) : Int) > -1074 := by
            refine ⟨(Nat.div_lt_iff_lt_mul hdpos).mpr (by omega), by omega⟩
          rw [if_neg a1, if_pos a2]
          congr 1
          omega
        rw [step]; exact fixExp_stop 4 num den _ hdpos c1 c2
  obtain ⟨s, hs1, hs2, hs3⟩ := hfix
  refine ⟨s, hs1, hs2, ?_⟩
  unfold roundPos
  simp only [h0, if_false, hLn, hDn, e0, hs3, pairAt]
  have n1 : ¬ (-(s : Int)) + 1 > 971 := by omega
  have n2 : ¬ (-(s : Int)) > 971 := by omega
  simp only [n1, n2, and_false, if_false]
  rfl

example : roundPos false 1 3 = mk false (rnd (1 * 2 ^ 54) 3) (-54) := by decide

theorem two53_lt : (2 : Nat) ^ 53 < 2 ^ 1022 :=
  Nat.pow_lt_pow_right (a := 2) (m := 53) (n := 1022) (by decide) (by decide)

theorem rnd_mul (q d : Nat) (hd : 0 < d) : rnd (q * d) d = q := by
  unfold rnd
  rw [Nat.mul_mod_left, Nat.mul_div_cancel _ hd, if_neg (by omega)]

/-- **a quotient that is a dyadic number with at most 53 significant bits is computed exactly**:
    `num/den = M·2^(-k)` with `M < 2^53` (`k = 0`: the quotient is an integer) -/
theorem roundPos_dyadic (neg : Bool) (num den M k : Nat) (h0 : num ≠ 0) (h : num < 2 ^ 53) (hd0 : den ≠ 0)
    (hd : den < 2 ^ 1022) (hM : M < 2 ^ 53) (hv : num * 2 ^ k = M * den) :
    roundPos neg num den = mk neg M (-(k : Int)) := by
  obtain ⟨s, h1, h2, h3⟩ := roundPos_spec neg num den h0 h hd0 hd
  have hdpos : 0 < den := by omega
  have hks : k ≤ s := by
    apply Classical.byContradiction
    intro hn
    have e1 : num * 2 ^ k = num * 2 ^ s * 2 ^ (k - s) := by rw [Nat.mul_assoc, ← pow_split (by omega)]
    have e2 : 2 ^ 1 ≤ 2 ^ (k - s) := Nat.pow_le_pow_right (by decide) (by omega)
    have e3 : num * 2 ^ s * 2 ^ 1 ≤ num * 2 ^ s * 2 ^ (k - s) := Nat.mul_le_mul_left _ e2
    have e4 : M * den < 2 ^ 53 * den := Nat.mul_lt_mul_of_pos_right hM hdpos
    omega
  have e1 : num * 2 ^ s = M * 2 ^ (s - k) * den := by
    rw [pow_split hks, ← Nat.mul_assoc, hv, Nat.mul_right_comm]
  rw [h3, e1, rnd_mul _ _ hdpos]
  have := mk_shift neg M (s - k) (-(k : Int))
  have e2 : (-(k : Int)) - ((s - k : Nat) : Int) = -(s : Int) := by omega
  rw [e2] at this
  exact this

-- 3/8 = 3·2^-3, 10/4 = 5·2^-1, 84/7 = 12
example : roundPos false 3 8 = .fin false 3 (-3) ∧ roundPos true 10 4 = .fin true 5 (-1) ∧
    roundPos false 84 7 = .fin false 3 2 := by decide

/-- the shape of a quotient of two floats holding non-zero integers: `|a|/|b|` with common powers of two removed -/
theorem div_ofInt_shape (a b : Int) (ha : a ≠ 0) (hb : b ≠ 0) :
    ∃ num den c : Nat, 0 < c ∧ a.natAbs = num * c ∧ b.natAbs = den * c ∧
      div (ofInt a) (ofInt b) = roundPos (decide (a < 0) != decide (b < 0)) num den := by
  obtain ⟨m1, k1, ha1, ha2, ha3⟩ := ofInt_spec a ha
  obtain ⟨m2, k2, hb1, hb2, hb3⟩ := ofInt_spec b hb
  rw [ha1, hb1]
  have hm1 : m1 ≠ 0 := by omega
  have hm2 : m2 ≠ 0 := by omega
  simp only [div, hm1, hm2, if_false]
  by_cases he : (k1 : Int) - (k2 : Int) ≥ 0
  · simp only [he, if_true]
    have : ((k1 : Int) - (k2 : Int)).toNat = k1 - k2 := by omega
    rw [this]
    refine ⟨_, _, 2 ^ k2, Nat.pow_pos (by decide), ?_, hb2, rfl⟩
    rw [ha2, Nat.mul_assoc, ← Nat.pow_add]
    congr 2; omega
  · simp only [he, if_false]
    have : (-((k1 : Int) - (k2 : Int))).toNat = k2 - k1 := by omega
    rw [this]
    refine ⟨_, _, 2 ^ k1, Nat.pow_pos (by decide), ha2, ?_, rfl⟩
    rw [hb2, Nat.mul_assoc, ← Nat.pow_add]
    congr 2; omega

/-- `math.Trunc` of a float given as `X·2^(-s)` -/
theorem trunc_mk (n : Bool) (X s : Nat) : trunc (mk n X (-(s : Int))) = mk n (X / 2 ^ s) 0 := by
  by_cases hX : X = 0
  · subst hX; simp [mk, trunc]
  · obtain ⟨m', k, h1, h2, h3⟩ := mk_spec n X (-(s : Int)) hX
    rw [h1]
    have hm : m' ≠ 0 := by omega
    by_cases he : (-(s : Int)) + (k : Int) ≥ 0
    · simp only [trunc, he, true_or, if_true]
      have hks : s ≤ k := by omega
      have e : X / 2 ^ s = m' * 2 ^ (k - s) := by
        rw [h2, pow_split hks, Nat.mul_comm (2 ^ s), ← Nat.mul_assoc, Nat.mul_div_cancel _ (Nat.pow_pos (by decide))]
      rw [mk_of n (X / 2 ^ s) m' (k - s) 0 h3 e]
      congr 1; omega
    · simp only [trunc, he, hm, or_self, if_false]
      have hks : k < s := by omega
      have e1 : (-(-(s : Int) + (k : Int))).toNat = s - k := by omega
      have e2 : X / 2 ^ s = m' / 2 ^ (s - k) := by
        rw [h2, pow_split (Nat.le_of_lt hks), Nat.mul_comm (2 ^ k), Nat.mul_div_mul_right _ _ (Nat.pow_pos (by decide))]
      rw [e1, e2]

example : trunc (mk true 22 (-2)) = mk true 5 0 ∧ trunc (mk false 24 (-2)) = mk false 6 0 := by decide

/-- **rounding to 53 bits never carries a non-integral quotient `num/den`, `num < 2^53`, up to the next integer** -/
theorem rnd_no_cross (num den s : Nat) (hd : 0 < den) (hnum : num < 2 ^ 53) (h1 : 2 ^ 52 * den ≤ num * 2 ^ s) :
    rnd (num * 2 ^ s) den / 2 ^ s = num / den := by
  have hP : 0 < 2 ^ s := Nat.pow_pos (by decide)
  have hq : num * 2 ^ s / den / 2 ^ s = num / den := by
    rw [Nat.div_div_eq_div_mul, Nat.mul_div_mul_right _ _ hP]
  unfold rnd
  split
  · next hup =>
    have hrem : den ≤ 2 * (num * 2 ^ s % den) := by omega
    apply Nat.div_eq_of_lt_le
    · have := Nat.div_mul_le_self (num * 2 ^ s / den) (2 ^ s)
      rw [hq] at this; omega
    · apply Classical.byContradiction
      intro hn
      have hge : (num / den + 1) * 2 ^ s ≤ num * 2 ^ s / den + 1 := by omega
      generalize hPn : 2 ^ s = P at *
      have dm1 := Nat.div_add_mod (num * P) den
      have dm2 := Nat.div_add_mod num den
      have hr : num % den < den := Nat.mod_lt _ hd
      generalize num * P / den = qf at *
      generalize num * P % den = rem at *
      generalize num / den = Q at *
      generalize num % den = r at *
      -- den·(qf+1) ≥ den·(Q+1)·P
      have g1 : den * ((Q + 1) * P) ≤ den * (qf + 1) := Nat.mul_le_mul_left _ hge
      rw [Nat.mul_add, Nat.mul_one, Nat.add_mul, Nat.one_mul, Nat.mul_add, ← Nat.mul_assoc] at g1
      -- num·P = den·Q·P + r·P
      have g2 : num * P = den * Q * P + r * P := by rw [← dm2, Nat.add_mul]
      -- (r+1)·P ≤ den·P
      have g3 : (r + 1) * P ≤ den * P := Nat.mul_le_mul_right _ (by omega)
      rw [Nat.add_mul, Nat.one_mul] at g3
      have g4 : num * P < 2 ^ 53 * P := Nat.mul_lt_mul_of_pos_right hnum hP
      omega
  · exact hq

example : rnd (7 * 2 ^ 51) 2 / 2 ^ 51 = 7 / 2 := by decide

/-! ## 2. `F64.div`, `trunc ∘ div`, `F64.mod` on floats holding integers -/

/-- sign of a non-zero truncated quotient -/
theorem tdiv_neg_iff (a b : Int) (h : a.tdiv b ≠ 0) : a.tdiv b < 0 ↔ ((a < 0) ≠ (b < 0)) := by
  by_cases h1 : a < 0 <;> by_cases h2 : b < 0 <;> simp only [h1, h2, ne_eq, not_true, not_false_iff, iff_false, iff_true,
    eq_iff_iff]
  · have e : a.tdiv b = (-a).tdiv (-b) := by rw [Int.neg_tdiv, Int.tdiv_neg, Int.neg_neg]
    have := Int.tdiv_nonneg (a := -a) (b := -b) (by omega) (by omega)
    omega
  · have e : a.tdiv b = -((-a).tdiv b) := by rw [Int.neg_tdiv, Int.neg_neg]
    have := Int.tdiv_nonneg (a := -a) (b := b) (by omega) (by omega)
    omega
  · have e : a.tdiv b = -(a.tdiv (-b)) := by rw [Int.tdiv_neg, Int.neg_neg]
    have := Int.tdiv_nonneg (a := a) (b := -b) (by omega) (by omega)
    omega
  · have := Int.tdiv_nonneg (a := a) (b := b) (by omega) (by omega)
    omega

theorem natAbs_tdiv' (a b : Int) : (a.tdiv b).natAbs = a.natAbs / b.natAbs := Int.natAbs_tdiv a b

/-- the float of the truncated quotient, unless that is zero with a negative sign -/
theorem mk_tdiv (a b : Int) (h : a.tdiv b ≠ 0) :
    mk (decide (a < 0) != decide (b < 0)) (a.natAbs / b.natAbs) 0 = ofInt (a.tdiv b) := by
  unfold ofInt
  rw [natAbs_tdiv']
  congr 1
  have := tdiv_neg_iff a b h
  by_cases h1 : a < 0 <;> by_cases h2 : b < 0 <;> simp [h1, h2] at this ⊢ <;> omega

/-- the float of the truncated remainder, unless that is zero with a negative sign -/
theorem mk_tmod (a b : Int) (h : a.tmod b ≠ 0 ∨ 0 ≤ a) :
    mk (decide (a < 0)) (a.natAbs % b.natAbs) 0 = ofInt (a.tmod b) := by
  unfold ofInt
  rw [Int.natAbs_tmod]
  congr 1
  by_cases h1 : a < 0
  · have e : a.tmod b = -((-a).tmod b) := by rw [Int.neg_tmod, Int.neg_neg]
    have := Int.tmod_nonneg (a := -a) b (by omega)
    have : a.tmod b < 0 := by omega
    simp [h1, this]
  · have := Int.tmod_nonneg (a := a) b (by omega)
    simp [h1]; omega

/-- **`/` on floats holding integers, quotient a dyadic number of at most 53 bits**: `|a|/|b| = M·2^(-k)` -/
theorem div_ofInt_dyadic (a b : Int) (M k : Nat) (ha0 : a ≠ 0) (hb0 : b ≠ 0) (ha : a.natAbs < 2 ^ 53)
    (hb : b.natAbs < 2 ^ 53) (hM : M < 2 ^ 53) (hv : a.natAbs * 2 ^ k = M * b.natAbs) :
    div (ofInt a) (ofInt b) = mk (decide (a < 0) != decide (b < 0)) M (-(k : Int)) := by
  obtain ⟨num, den, c, hc, e1, e2, e3⟩ := div_ofInt_shape a b ha0 hb0
  have hn0 : num ≠ 0 := by intro h; rw [h] at e1; simp at e1; omega
  have hd0 : den ≠ 0 := by intro h; rw [h] at e2; simp at e2; omega
  have hn : num ≤ a.natAbs := by rw [e1]; exact Nat.le_mul_of_pos_right _ hc
  have hd : den ≤ b.natAbs := by rw [e2]; exact Nat.le_mul_of_pos_right _ hc
  have hv' : num * 2 ^ k = M * den := by
    apply Nat.eq_of_mul_eq_mul_right hc
    rw [Nat.mul_right_comm, ← e1, Nat.mul_assoc, ← e2]; exact hv
  rw [e3]
  exact roundPos_dyadic _ num den M k hn0 (by omega) hd0
    (Nat.lt_of_le_of_lt hd (Nat.lt_trans hb two53_lt)) hM hv'

/-- **exact-quotient `/` on floats holding integers** -/
theorem div_ofInt_dvd (q b : Int) (hq : q ≠ 0) (hb0 : b ≠ 0) (ha : (q * b).natAbs < 2 ^ 53) (hb : b.natAbs < 2 ^ 53) :
    div (ofInt (q * b)) (ofInt b) = ofInt q := by
  have hbp : 0 < b.natAbs := by omega
  have hqp : 0 < q.natAbs := by omega
  have hqb : q.natAbs ≤ (q * b).natAbs := by rw [Int.natAbs_mul]; exact Nat.le_mul_of_pos_right _ hbp
  have h := div_ofInt_dyadic (q * b) b q.natAbs 0 (Int.mul_ne_zero hq hb0) hb0 ha hb (by omega)
    (by rw [Int.natAbs_mul]; simp)
  rw [h]
  have e : (q * b).tdiv b = q := Int.mul_tdiv_cancel _ hb0
  have := mk_tdiv (q * b) b (by rw [e]; exact hq)
  rw [e, Int.natAbs_mul, Nat.mul_div_cancel _ hbp] at this
  simpa using this

/-- a zero dividend gives a zero with the sign of the divisor -/
theorem div_zero_ofInt (b : Int) (hb0 : b ≠ 0) : div (ofInt 0) (ofInt b) = .fin (decide (b < 0)) 0 0 := by
  obtain ⟨m2, k2, hb1, hb2, hb3⟩ := ofInt_spec b hb0
  have hm2 : m2 ≠ 0 := by omega
  rw [ofInt_zero, hb1]
  simp [div, hm2]

/-- **`//` on floats holding integers, no divisibility needed**: the binary64 quotient of `|a| < 2^53` by any
    `|b| < 2^53` truncates to `trunc(a/b)` (rounding never reaches the next integer) -/
theorem trunc_div_ofInt (a b : Int) (hb0 : b ≠ 0) (ha : a.natAbs < 2 ^ 53) (hb : b.natAbs < 2 ^ 53) :
    trunc (div (ofInt a) (ofInt b)) = mk (decide (a < 0) != decide (b < 0)) (a.natAbs / b.natAbs) 0 := by
  by_cases ha0 : a = 0
  · subst ha0
    rw [div_zero_ofInt b hb0]
    simp [trunc, mk]
  · obtain ⟨num, den, c, hc, e1, e2, e3⟩ := div_ofInt_shape a b ha0 hb0
    have hn0 : num ≠ 0 := by intro h; rw [h] at e1; simp at e1; omega
    have hd0 : den ≠ 0 := by intro h; rw [h] at e2; simp at e2; omega
    have hn : num ≤ a.natAbs := by rw [e1]; exact Nat.le_mul_of_pos_right _ hc
    have hd : den ≤ b.natAbs := by rw [e2]; exact Nat.le_mul_of_pos_right _ hc
    obtain ⟨s, h1, h2, h3⟩ := roundPos_spec (decide (a < 0) != decide (b < 0)) num den hn0 (by omega) hd0
      (Nat.lt_of_le_of_lt hd (Nat.lt_trans hb two53_lt))
    rw [e3, h3, trunc_mk, rnd_no_cross num den s (by omega) (by omega) h1, e1, e2, Nat.mul_div_mul_right _ _ hc]

theorem trunc_div_ofInt' (a b : Int) (hb0 : b ≠ 0) (ha : a.natAbs < 2 ^ 53) (hb : b.natAbs < 2 ^ 53)
    (hq : a.tdiv b ≠ 0) : trunc (div (ofInt a) (ofInt b)) = ofInt (a.tdiv b) := by
  rw [trunc_div_ofInt a b hb0 ha hb, mk_tdiv a b hq]

/-- **`%` on floats holding integers is exact** (no bound needed: `math.Mod` is an exact operation) -/
theorem mod_ofInt (a b : Int) (hb0 : b ≠ 0) :
    mod (ofInt a) (ofInt b) = mk (decide (a < 0)) (a.natAbs % b.natAbs) 0 := by
  obtain ⟨m2, k2, hb1, hb2, hb3⟩ := ofInt_spec b hb0
  have hm2 : m2 ≠ 0 := by omega
  by_cases ha0 : a = 0
  · subst ha0
    rw [ofInt_zero, hb1]
    simp [mod, hm2, mk]
  · obtain ⟨m1, k1, ha1, ha2, ha3⟩ := ofInt_spec a ha0
    have hm1 : m1 ≠ 0 := by omega
    rw [ha1, hb1]
    simp only [mod, hm1, hm2, if_false]
    generalize he : min (k1 : Int) (k2 : Int) = e
    have he0 : 0 ≤ e := by omega
    have eA : a.natAbs = m1 * 2 ^ ((k1 : Int) - e).toNat * 2 ^ e.toNat := by
      rw [ha2, Nat.mul_assoc, ← Nat.pow_add]; congr 2; omega
    have eB : b.natAbs = m2 * 2 ^ ((k2 : Int) - e).toNat * 2 ^ e.toNat := by
      rw [hb2, Nat.mul_assoc, ← Nat.pow_add]; congr 2; omega
    rw [eA, eB, Nat.mul_mod_mul_right]
    generalize m1 * 2 ^ ((k1 : Int) - e).toNat % (m2 * 2 ^ ((k2 : Int) - e).toNat) = r
    by_cases hr : r = 0
    · subst hr; simp [mk]
    · simp only [hr, if_false]
      have := mk_shift (decide (a < 0)) r e.toNat e
      have e2 : e - (e.toNat : Int) = 0 := by omega
      rw [e2] at this
      exact this.symm

theorem mod_ofInt' (a b : Int) (hb0 : b ≠ 0) (h : a.tmod b ≠ 0 ∨ 0 ≤ a) :
    mod (ofInt a) (ofInt b) = ofInt (a.tmod b) := by
  rw [mod_ofInt a b hb0, mk_tmod a b h]

example : div (ofInt 84) (ofInt (-7)) = ofInt (-12) ∧ div (ofInt 3) (ofInt 8) = .fin false 3 (-3) ∧
    trunc (div (ofInt (-22)) (ofInt 7)) = ofInt (-3) ∧ mod (ofInt (-22)) (ofInt 7) = ofInt (-1) ∧
    mod (ofInt 22) (ofInt (-7)) = ofInt 1 := by decide

/-- the sign of zero is why the conclusions above are stated with `mk`: `-1 // 2`, `-4 % 2` and `0 / -1` are
    `-0` in binary64 (as in Go), which is not the float `ofInt 0 = +0` (it has the same value) -/
example : trunc (div (ofInt (-1)) (ofInt 2)) = .fin true 0 0 ∧ mod (ofInt (-4)) (ofInt 2) = .fin true 0 0 ∧
    div (ofInt 0) (ofInt (-1)) = .fin true 0 0 ∧ ofInt 0 = .fin false 0 0 := by decide

/-! ## 3. the evaluator's `/`, `//`, `%` on float operands -/

theorem checkF_mk (n : Bool) (m : Nat) (e : Int) : checkF (mk n m e) = .ok (.num (.f64 (mk n m e))) := by
  unfold mk checkF
  split <;> simp [F64.isInf, F64.isNaN]

theorem checkF_ofInt (a : Int) : checkF (ofInt a) = .ok (.num (.f64 (ofInt a))) := checkF_mk _ _ _

theorem checkF_fin (n : Bool) (m : Nat) (e : Int) : checkF (.fin n m e) = .ok (.num (.f64 (.fin n m e))) := rfl

/-- two `float64` operands: the operator is computed in binary64 -/
theorem arith_f64 (fop : F64 → F64 → F64) (dop : Dec → Dec → Dec) (x y : F64) :
    arith fop dop (.num (.f64 x)) (.num (.f64 y)) = checkF (fop x y) := rfl

/-- two integer operands: the operator is computed in decimal128 -/
theorem arith_int (fop : F64 → F64 → F64) (dop : Dec → Dec → Dec) (k k' : IntKind) (a b : Int) :
    arith fop dop (.num (.int k a)) (.num (.int k' b)) = checkD (dop (Dec.ofInt a) (Dec.ofInt b)) := rfl

/-- **`a / b` on `float64` operands holding integers with `b ∣ a`** (`a = q·b`, `q ≠ 0`, `|a|, |b| < 2^53`): the result
    is the float holding the exact quotient `q`, with no rounding. -/
theorem float_div_exact (a b q : Int) (hab : a = q * b) (hq : q ≠ 0) (hb0 : b ≠ 0) (ha : a.natAbs < 2 ^ 53)
    (hb : b.natAbs < 2 ^ 53) :
    divide (.num (.f64 (ofInt a))) (.num (.f64 (ofInt b))) = .ok (.num (.f64 (ofInt q))) := by
  subst hab
  rw [divide, arith_f64, div_ofInt_dvd q b hq hb0 ha hb, checkF_ofInt]

/-- `0 / b` on `float64` operands is a zero carrying the sign of `b` (binary64 has `-0`) -/
theorem float_div_zero (b : Int) (hb0 : b ≠ 0) :
    divide (.num (.f64 (ofInt 0))) (.num (.f64 (ofInt b))) = .ok (.num (.f64 (.fin (decide (b < 0)) 0 0))) := by
  rw [divide, arith_f64, div_zero_ofInt b hb0, checkF_fin]

/-- **`a / b` on `float64` operands holding integers whose quotient is a dyadic number `M·2^(-k)`, `M < 2^53`**
    (1/4, 3/8, 5/2, …, and `k = 0`: integer quotients): the result is the float of exactly that value. -/
theorem float_div_dyadic (a b : Int) (M k : Nat) (ha0 : a ≠ 0) (hb0 : b ≠ 0) (ha : a.natAbs < 2 ^ 53)
    (hb : b.natAbs < 2 ^ 53) (hM : M < 2 ^ 53) (hv : a.natAbs * 2 ^ k = M * b.natAbs) :
    divide (.num (.f64 (ofInt a))) (.num (.f64 (ofInt b))) =
      .ok (.num (.f64 (mk (decide (a < 0) != decide (b < 0)) M (-(k : Int))))) := by
  rw [divide, arith_f64, div_ofInt_dyadic a b M k ha0 hb0 ha hb hM hv, checkF_mk]

example : divide (.num (.f64 (ofInt 84))) (.num (.f64 (ofInt (-7)))) = .ok (.num (.f64 (ofInt (-12)))) :=
  float_div_exact 84 (-7) (-12) (by decide) (by decide) (by decide) (by decide) (by decide)

/-- 3/8 on floats is the float `3·2^-3`; on integers it is the decimal `0.375`; both have the same value -/
example : divide (.num (.f64 (ofInt 3))) (.num (.f64 (ofInt 8))) = .ok (.num (.f64 (.fin false 3 (-3)))) ∧
    divide (.num (.int .i64 3)) (.num (.int .i64 8)) = .ok (.num (.dec (.fin false 375 (-3)))) ∧
    Num.SameValue (.f64 (.fin false 3 (-3))) (.dec (.fin false 375 (-3))) :=
  ⟨by rw [float_div_dyadic 3 8 3 3 (by decide) (by decide) (by decide) (by decide) (by decide) (by decide)]
      have : mk (decide ((3 : Int) < 0) != decide ((8 : Int) < 0)) 3 (-((3 : Nat) : Int)) = .fin false 3 (-3) := by decide
      rw [this],
   by rw [divide, arith_int]
      have : Dec.quo (Dec.ofInt 3) (Dec.ofInt 8) = .fin false 375 (-3) := by decide
      rw [this]; rfl,
   ⟨_, _, rfl, rfl, by decide⟩⟩

/-- **`a // b` on `float64` operands holding integers, `|a|, |b| < 2^53`, `b ≠ 0`, no divisibility assumed**: the
    result is the float holding `trunc(a/b) = Int.tdiv a b` (as sign and magnitude: a zero quotient of operands of
    opposite signs is `-0`).  The binary64 quotient may be rounded, but never up to the next integer. -/
theorem float_idiv (a b : Int) (hb0 : b ≠ 0) (ha : a.natAbs < 2 ^ 53) (hb : b.natAbs < 2 ^ 53) :
    integerDivide (.num (.f64 (ofInt a))) (.num (.f64 (ofInt b))) =
      .ok (.num (.f64 (mk (decide (a < 0) != decide (b < 0)) (a.natAbs / b.natAbs) 0))) := by
  rw [integerDivide, arith_f64, trunc_div_ofInt a b hb0 ha hb, checkF_mk]

/-- … which is the float `ofInt (a.tdiv b)` whenever the quotient is not zero -/
theorem float_idiv_exact (a b : Int) (hb0 : b ≠ 0) (ha : a.natAbs < 2 ^ 53) (hb : b.natAbs < 2 ^ 53)
    (hq : a.tdiv b ≠ 0) :
    integerDivide (.num (.f64 (ofInt a))) (.num (.f64 (ofInt b))) = .ok (.num (.f64 (ofInt (a.tdiv b)))) := by
  rw [float_idiv a b hb0 ha hb, mk_tdiv a b hq]

example : integerDivide (.num (.f64 (ofInt (-22)))) (.num (.f64 (ofInt 7))) = .ok (.num (.f64 (ofInt (-3)))) :=
  float_idiv_exact (-22) 7 (by decide) (by decide) (by decide) (by decide)

-- (2^53 − 1)/3 = 3002399751580330.33… is rounded by `div` (to …330.5, the spacing there is 1/2), and still truncates
-- to the exact integer quotient
example : div (ofInt 9007199254740991) (ofInt 3) = .fin false 6004799503160661 (-1) ∧
    trunc (div (ofInt 9007199254740991) (ofInt 3)) = ofInt 3002399751580330 ∧
    (9007199254740991 : Int).tdiv 3 = 3002399751580330 := by decide

/-- the statement with `ofInt (a.tdiv b)` is false when the quotient is zero and the signs differ: `-1 // 2 = -0` -/
example : integerDivide (.num (.f64 (ofInt (-1)))) (.num (.f64 (ofInt 2))) = .ok (.num (.f64 (.fin true 0 0))) ∧
    F64.fin true 0 0 ≠ ofInt ((-1 : Int).tdiv 2) := by
  refine ⟨?_, by decide⟩
  rw [integerDivide, arith_f64]
  have : trunc (div (ofInt (-1)) (ofInt 2)) = .fin true 0 0 := by decide
  rw [this]; rfl

/-- **`a % b` on `float64` operands holding integers, `b ≠ 0`** (no size bound, no divisibility): the result is the
    float holding `Int.tmod a b` (sign of `a`; a zero remainder of a negative `a` is `-0`). -/
theorem float_mod (a b : Int) (hb0 : b ≠ 0) :
    modulo (.num (.f64 (ofInt a))) (.num (.f64 (ofInt b))) =
      .ok (.num (.f64 (mk (decide (a < 0)) (a.natAbs % b.natAbs) 0))) := by
  rw [modulo, arith_f64, mod_ofInt a b hb0, checkF_mk]

theorem float_mod_exact (a b : Int) (hb0 : b ≠ 0) (h : a.tmod b ≠ 0 ∨ 0 ≤ a) :
    modulo (.num (.f64 (ofInt a))) (.num (.f64 (ofInt b))) = .ok (.num (.f64 (ofInt (a.tmod b)))) := by
  rw [float_mod a b hb0, mk_tmod a b h]

example : modulo (.num (.f64 (ofInt (-22)))) (.num (.f64 (ofInt 7))) = .ok (.num (.f64 (ofInt (-1)))) :=
  float_mod_exact (-22) 7 (by decide) (by decide)

example : modulo (.num (.f64 (ofInt (-4)))) (.num (.f64 (ofInt 2))) = .ok (.num (.f64 (.fin true 0 0))) ∧
    F64.fin true 0 0 ≠ ofInt ((-4 : Int).tmod 2) := by
  refine ⟨?_, by decide⟩
  rw [modulo, arith_f64]
  have : mod (ofInt (-4)) (ofInt 2) = .fin true 0 0 := by decide
  rw [this]; rfl

/-! ## 4. the recorded divergence: `9007199254740991 // 1.5`

  `a = 2^53 − 1`, `b = 1.5`.  The exact quotient `a/b = 6004799503160660.666…` is not a binary64 number: the float
  path rounds it to `6004799503160661` *before* truncating, the decimal path (34 digits) truncates the exact quotient
  to `6004799503160660`.  The intermediate value is not exactly representable in binary64, so the case is excluded by
  the proviso of C14 ("as long as all intermediate values are exactly representable in each representation"); with an
  integral divisor and `|a| < 2^53` it cannot happen (`float_idiv`).  Confirmed against the Go code
  (`jmespath.Search("a // b", …)`): `float64` operands give `6.004799503160661e+15`, `json.Number` operands give the
  decimal `6.00479950316066e+15`. -/

/-- the text `9007199254740991` -/
def aText : Bytes := [0x39, 0x30, 0x30, 0x37, 0x31, 0x39, 0x39, 0x32, 0x35, 0x34, 0x37, 0x34, 0x30, 0x39, 0x39, 0x31]
/-- the text `1.5` -/
def bText : Bytes := [0x31, 0x2E, 0x35]

/-- neither operand a float: the operator is computed on the decimals -/
theorem arith_decimal (fop : F64 → F64 → F64) (dop : Dec → Dec → Dec) {x y : Val} {dx dy : Dec}
    (hf : toFloatPair x y = none) (hx : toDecimal x = some dx) (hy : toDecimal y = some dy) :
    arith fop dop x y = checkD (dop dx dy) := by
  simp only [arith, hf, hx, hy]

/-- both operand pairs denote the same two values … -/
example : Num.SameValue (.f64 (ofInt 9007199254740991)) (.jnum aText) ∧
    Num.SameValue (.f64 (.fin false 3 (-1))) (.jnum bText) :=
  ⟨⟨.fin false 9007199254740991 0, .fin false 9007199254740991 0, by decide, by decide, by decide⟩,
   ⟨.fin false 15 (-1), .fin false 15 (-1), by decide, by decide, by decide⟩⟩

/-- … on `float64` operands `a // b` is the float `6004799503160661` … -/
example : integerDivide (.num (.f64 (ofInt 9007199254740991))) (.num (.f64 (.fin false 3 (-1)))) =
    .ok (.num (.f64 (ofInt 6004799503160661))) := by
  rw [integerDivide, arith_f64]
  have : trunc (div (ofInt 9007199254740991) (.fin false 3 (-1))) = ofInt 6004799503160661 := by decide
  rw [this, checkF_ofInt]

/-- … on `json.Number` operands it is a decimal of value `6004799503160660` … -/
example : ∃ d, integerDivide (.num (.jnum aText)) (.num (.jnum bText)) = .ok (.num (.dec d)) ∧
    Dec.cmp d (Dec.ofInt 6004799503160660) = some 0 := by
  refine ⟨.fin false 600479950316066 1, ?_, by decide⟩
  have hA : toDecimal (.num (.jnum aText)) = some (.fin false 9007199254740991 0) := by decide
  have hB : toDecimal (.num (.jnum bText)) = some (.fin false 15 (-1)) := by decide
  rw [integerDivide, arith_decimal _ _ rfl hA hB]
  have : (Dec.quoRem (.fin false 9007199254740991 0) (.fin false 15 (-1))).1 = .fin false 600479950316066 1 := by
    decide
  rw [this]; rfl

/-- … and the two results differ in value (they are not `SameValue`): the float quotient `a / b` was rounded,
    `6004799503160661 ≠ a/b`, whereas `float_idiv` shows this cannot happen for an integral divisor -/
example : ¬ Num.SameValue (.f64 (ofInt 6004799503160661)) (.dec (.fin false 600479950316066 1)) := by
  rintro ⟨da, db, h1, h2, h3⟩
  have e1 : toDecimal (.num (.f64 (ofInt 6004799503160661))) = some (.fin false 6004799503160661 0) := by decide
  rw [e1] at h1; cases h1
  simp only [toDecimal, Option.some.injEq] at h2; subst h2
  revert h3; decide

example : div (ofInt 9007199254740991) (.fin false 3 (-1)) = ofInt 6004799503160661 := by decide

/-! ## 5. `float32` operands

  Go converts a `float32` to `float64` (exactly) before any arithmetic; the model's `toFloat` and `toDecimal` treat
  `.f32 f` as `.f64 f`.  So a `float32` operand behaves in every arithmetic operator, with any other operand, exactly
  as the `float64` of the same value. -/

theorem toFloat_f32 (f : F64) : toFloat (.num (.f32 f)) = toFloat (.num (.f64 f)) := rfl
theorem toDecimal_f32 (f : F64) : toDecimal (.num (.f32 f)) = toDecimal (.num (.f64 f)) := rfl

/-- **a `float32` left operand may be replaced by the `float64` of the same value** (whatever the other operand) -/
theorem arith_f32_left (fop : F64 → F64 → F64) (dop : Dec → Dec → Dec) (x : F64) (y : Val) :
    arith fop dop (.num (.f32 x)) y = arith fop dop (.num (.f64 x)) y := rfl

/-- **… and a `float32` right operand** -/
theorem arith_f32_right (fop : F64 → F64 → F64) (dop : Dec → Dec → Dec) (x : Val) (y : F64) :
    arith fop dop x (.num (.f32 y)) = arith fop dop x (.num (.f64 y)) := by
  simp only [arith, toFloatPair, toFloat_f32, toDecimal_f32]

theorem arith_f32_f32 (fop : F64 → F64 → F64) (dop : Dec → Dec → Dec) (x y : F64) :
    arith fop dop (.num (.f32 x)) (.num (.f32 y)) = checkF (fop x y) := rfl
theorem arith_f32_f64 (fop : F64 → F64 → F64) (dop : Dec → Dec → Dec) (x y : F64) :
    arith fop dop (.num (.f32 x)) (.num (.f64 y)) = checkF (fop x y) := rfl
theorem arith_f64_f32 (fop : F64 → F64 → F64) (dop : Dec → Dec → Dec) (x y : F64) :
    arith fop dop (.num (.f64 x)) (.num (.f32 y)) = checkF (fop x y) := rfl

/-- a `float32` and the `float64` of the same value are the same number (for every float but NaN) -/
theorem sameValue_f32_f64 (f : F64) (h : f.toDec ≠ .nan) : Num.SameValue (.f32 f) (.f64 f) :=
  ⟨_, _, rfl, rfl, Dec.cmp_self h⟩

theorem equiv_f32_f64 (f : F64) (h : f.toDec ≠ .nan) : Val.Equiv (.num (.f32 f)) (.num (.f64 f)) := by
  simp only [Val.Equiv]; exact sameValue_f32_f64 f h

theorem normalize_fin_ne_nan (n : Bool) (c : Nat) (e : Int) : Dec.normalize (.fin n c e) ≠ .nan := by
  simp only [Dec.normalize]
  split <;> intro h <;> cases h

theorem ite_ne_nan {p : Prop} [Decidable p] {a b : Dec} (ha : a ≠ .nan) (hb : b ≠ .nan) :
    (if p then a else b) ≠ .nan := by
  split <;> assumption

theorem reduce_ne_nan (n : Bool) (c : Nat) (e : Int) (st : Bool) : Dec.reduce n c e st ≠ .nan := by
  unfold Dec.reduce
  split
  · intro h; cases h
  · simp only
    exact ite_ne_nan (fun h => Dec.noConfusion h) (normalize_fin_ne_nan _ _ _)

/-- every finite float converts to a decimal other than NaN -/
theorem toDec_fin_ne_nan (n : Bool) (m : Nat) (e : Int) : (F64.fin n m e).toDec ≠ .nan := by
  simp only [toDec, Dec.ofBinary]
  split
  · intro h; cases h
  · split <;> exact reduce_ne_nan _ _ _ _

theorem sameValue_f32_f64_fin (n : Bool) (m : Nat) (e : Int) : Num.SameValue (.f32 (.fin n m e)) (.f64 (.fin n m e)) :=
  sameValue_f32_f64 _ (toDec_fin_ne_nan n m e)

example : Num.SameValue (.f32 (ofInt 3)) (.f64 (ofInt 3)) := sameValue_f32_f64 _ (by decide)

/-- the unary numeric functions likewise -/
theorem numAbs_f32 (f : F64) : numAbs (.num (.f32 f)) = numAbs (.num (.f64 f)) := rfl
theorem numCeil_f32 (f : F64) : numCeil (.num (.f32 f)) = numCeil (.num (.f64 f)) := rfl
theorem numFloor_f32 (f : F64) : numFloor (.num (.f32 f)) = numFloor (.num (.f64 f)) := rfl

/-- **`+`, `-`, `*` on `float32` operands holding integers** (both `float32`, or mixed with `float64`): the result is
    the `float64` holding the exact result when that fits in 53 bits -/
theorem float32_add_exact (a b : Int) (h : (a + b).natAbs < 2 ^ 53) :
    add (.num (.f32 (ofInt a))) (.num (.f32 (ofInt b))) = .ok (.num (.f64 (ofInt (a + b)))) ∧
    add (.num (.f32 (ofInt a))) (.num (.f64 (ofInt b))) = .ok (.num (.f64 (ofInt (a + b)))) ∧
    add (.num (.f64 (ofInt a))) (.num (.f32 (ofInt b))) = .ok (.num (.f64 (ofInt (a + b)))) :=
  ⟨C14.float_add_exact a b h, C14.float_add_exact a b h, C14.float_add_exact a b h⟩

theorem float32_sub_exact (a b : Int) (h : (a - b).natAbs < 2 ^ 53) :
    subtract (.num (.f32 (ofInt a))) (.num (.f32 (ofInt b))) = .ok (.num (.f64 (ofInt (a - b)))) ∧
    subtract (.num (.f32 (ofInt a))) (.num (.f64 (ofInt b))) = .ok (.num (.f64 (ofInt (a - b)))) ∧
    subtract (.num (.f64 (ofInt a))) (.num (.f32 (ofInt b))) = .ok (.num (.f64 (ofInt (a - b)))) :=
  ⟨C14.float_sub_exact a b h, C14.float_sub_exact a b h, C14.float_sub_exact a b h⟩

theorem float32_mul_exact (a b : Int) (ha : a ≠ 0) (hb : b ≠ 0) (h : (a * b).natAbs < 2 ^ 53) :
    multiply (.num (.f32 (ofInt a))) (.num (.f32 (ofInt b))) = .ok (.num (.f64 (ofInt (a * b)))) ∧
    multiply (.num (.f32 (ofInt a))) (.num (.f64 (ofInt b))) = .ok (.num (.f64 (ofInt (a * b)))) ∧
    multiply (.num (.f64 (ofInt a))) (.num (.f32 (ofInt b))) = .ok (.num (.f64 (ofInt (a * b)))) :=
  ⟨C14.float_mul_exact a b ha hb h, C14.float_mul_exact a b ha hb h, C14.float_mul_exact a b ha hb h⟩

/-- `/`, `//`, `%` on `float32` operands: as on `float64` operands -/
theorem float32_div_exact (a b q : Int) (hab : a = q * b) (hq : q ≠ 0) (hb0 : b ≠ 0) (ha : a.natAbs < 2 ^ 53)
    (hb : b.natAbs < 2 ^ 53) :
    divide (.num (.f32 (ofInt a))) (.num (.f32 (ofInt b))) = .ok (.num (.f64 (ofInt q))) :=
  float_div_exact a b q hab hq hb0 ha hb

theorem float32_idiv (a b : Int) (hb0 : b ≠ 0) (ha : a.natAbs < 2 ^ 53) (hb : b.natAbs < 2 ^ 53) :
    integerDivide (.num (.f32 (ofInt a))) (.num (.f32 (ofInt b))) =
      .ok (.num (.f64 (mk (decide (a < 0) != decide (b < 0)) (a.natAbs / b.natAbs) 0))) :=
  float_idiv a b hb0 ha hb

theorem float32_mod (a b : Int) (hb0 : b ≠ 0) :
    modulo (.num (.f32 (ofInt a))) (.num (.f32 (ofInt b))) =
      .ok (.num (.f64 (mk (decide (a < 0)) (a.natAbs % b.natAbs) 0))) :=
  float_mod a b hb0

-- float32(3) + float32(4) = float64(7); float32(3) * 5.0 = 15.0; float32(4) % float32(3) = 1.0
example : add (.num (.f32 (ofInt 3))) (.num (.f32 (ofInt 4))) = .ok (.num (.f64 (ofInt 7))) :=
  (float32_add_exact 3 4 (by decide)).1
example : multiply (.num (.f32 (ofInt 3))) (.num (.f64 (ofInt 5))) = .ok (.num (.f64 (ofInt 15))) :=
  (float32_mul_exact 3 5 (by decide) (by decide) (by decide)).2.1
example : modulo (.num (.f32 (ofInt 4))) (.num (.f32 (ofInt 3))) = .ok (.num (.f64 (ofInt 1))) := by
  rw [float32_mod 4 3 (by decide)]
  have : mk (decide ((4 : Int) < 0)) ((4 : Int).natAbs % (3 : Int).natAbs) 0 = ofInt 1 := by decide
  rw [this]
-- a float32 against a non-float operand goes to the decimal path exactly as the float64 does
example : add (.num (.f32 (ofInt 3))) (.num (.int .i8 4)) = add (.num (.f64 (ofInt 3))) (.num (.int .i8 4)) :=
  arith_f32_left _ _ _ _

/-! ## 6. the decimal path of `//` and `%` on integer operands, and its agreement with the float path -/

theorem tdiv_intVal (a b : Int) :
    a.tdiv b = Dec.intVal (decide (a < 0) != decide (b < 0)) (a.natAbs / b.natAbs) := by
  by_cases h : a.tdiv b = 0
  · have : a.natAbs / b.natAbs = 0 := by rw [← natAbs_tdiv', h]; rfl
    rw [h, this]; unfold Dec.intVal; split <;> rfl
  · have h1 := tdiv_neg_iff a b h
    have h2 := natAbs_tdiv' a b
    unfold Dec.intVal
    by_cases ha : a < 0 <;> by_cases hb : b < 0 <;> simp [ha, hb] at h1 ⊢ <;> omega

theorem tmod_intVal (a b : Int) : a.tmod b = Dec.intVal (decide (a < 0)) (a.natAbs % b.natAbs) := by
  have h2 := Int.natAbs_tmod a b
  unfold Dec.intVal
  by_cases ha : a < 0
  · have e : a.tmod b = -((-a).tmod b) := by rw [Int.neg_tmod, Int.neg_neg]
    have := Int.tmod_nonneg (a := -a) b (by omega)
    simp [ha]; omega
  · have := Int.tmod_nonneg (a := a) b (by omega)
    simp [ha]; omega

/-- a decimal of the same value as a finite one passes the evaluator's NaN/Inf check -/
theorem checkD_of_cmp_fin {d : Dec} {n : Bool} {c : Nat} {e : Int} (h : Dec.cmp d (.fin n c e) = some 0) :
    checkD d = .ok (.num (.dec d)) := by
  cases d with
  | nan => simp [Dec.cmp_nan_left] at h
  | inf m => cases m <;> simp [Dec.cmp] at h
  | fin m c' e' => rfl

/-- the shape of the decimal of a non-zero integer -/
theorem dec_ofInt_spec (a : Int) (ha : a ≠ 0) :
    ∃ c k : Nat, Dec.ofInt a = .fin (decide (a < 0)) c (k : Int) ∧ a.natAbs = c * 10 ^ k ∧ c ≠ 0 := by
  obtain ⟨c, k, h1, h2, h3⟩ := Dec.normalize_spec (decide (a < 0)) a.natAbs 0 (by omega)
  refine ⟨c, k, ?_, h2, by omega⟩
  unfold Dec.ofInt
  rw [if_neg ha, h1]; simp

theorem pow10_le_MAXSIG {e : Nat} (h : 10 ^ e ≤ Dec.MAXSIG) : e < 35 := by
  apply Classical.byContradiction
  intro hn
  have : 10 ^ 35 ≤ 10 ^ e := Nat.pow_le_pow_right (by decide) (by omega)
  have : ¬ (10 ^ 35 ≤ Dec.MAXSIG) := by decide
  omega

/-- `Dec.quoRem` on the decimals of two integers: truncated quotient and remainder, as values -/
theorem quoRem_ofInt (a b : Int) (hb0 : b ≠ 0) (ha : a.natAbs ≤ Dec.MAXSIG) :
    Dec.cmp (Dec.quoRem (Dec.ofInt a) (Dec.ofInt b)).1 (Dec.ofInt (a.tdiv b)) = some 0 ∧
    Dec.cmp (Dec.quoRem (Dec.ofInt a) (Dec.ofInt b)).2 (Dec.ofInt (a.tmod b)) = some 0 := by
  obtain ⟨c2, k2, hb1, hb2, hb3⟩ := dec_ofInt_spec b hb0
  by_cases ha0 : a = 0
  · subst ha0
    have e0 : Dec.ofInt 0 = .fin false 0 0 := rfl
    rw [hb1, e0]
    simp only [Dec.quoRem, hb3, if_false, if_true, Int.zero_tdiv, Int.zero_tmod, e0]
    exact ⟨Dec.cmp_zero_zero .., Dec.cmp_zero_zero ..⟩
  · obtain ⟨c1, k1, ha1, ha2, ha3⟩ := dec_ofInt_spec a ha0
    rw [ha1, hb1, Dec.quoRem_fin _ _ _ _ _ _ ha3 hb3]
    generalize he : min (k1 : Int) (k2 : Int) = e
    have he0 : 0 ≤ e := by omega
    have eA : a.natAbs = Dec.alignL c1 k1 k2 * 10 ^ e.toNat := by
      unfold Dec.alignL Dec.pow10
      rw [ha2, he, Nat.mul_assoc, ← Nat.pow_add]; congr 2; omega
    have eB : b.natAbs = Dec.alignR c2 k1 k2 * 10 ^ e.toNat := by
      unfold Dec.alignR Dec.pow10
      rw [hb2, he, Nat.mul_assoc, ← Nat.pow_add]; congr 2; omega
    have hP : 0 < 10 ^ e.toNat := Nat.pow_pos (by decide)
    have hQ : Dec.alignL c1 k1 k2 / Dec.alignR c2 k1 k2 = a.natAbs / b.natAbs := by
      rw [eA, eB, Nat.mul_div_mul_right _ _ hP]
    have hR : Dec.alignL c1 k1 k2 % Dec.alignR c2 k1 k2 * 10 ^ e.toNat = a.natAbs % b.natAbs := by
      rw [eA, eB, Nat.mul_mod_mul_right]
    have hbp : 0 < b.natAbs := by omega
    constructor
    · rw [hQ]
      have hle : a.natAbs / b.natAbs ≤ Dec.MAXSIG := Nat.le_trans (Nat.div_le_self _ _) ha
      rw [Dec.reduce_of_fits _ _ _ (C14.fits_of_lt hle (by decide) (by decide))]
      refine Dec.cmp_zero_trans (Dec.cmp_normalize ..) (Dec.cmp_zero_symm ?_)
      exact (Dec.cmp_ofInt_fin_iff _ _ _).mpr (tdiv_intVal a b)
    · generalize Dec.alignL c1 k1 k2 % Dec.alignR c2 k1 k2 = R at hR
      have hM : a.natAbs % b.natAbs ≤ Dec.MAXSIG := Nat.le_trans (Nat.mod_le _ _) ha
      have hfit : Dec.Fits R e := by
        by_cases hR0 : R = 0
        · exact .inl hR0
        · have h1 : R ≤ R * 10 ^ e.toNat := Nat.le_mul_of_pos_right _ hP
          have h2 : 10 ^ e.toNat ≤ R * 10 ^ e.toNat := Nat.le_mul_of_pos_left _ (by omega)
          have h3 := pow10_le_MAXSIG (e := e.toNat) (by omega)
          refine .inr ⟨R, 0, by simp, hR0, by omega, ?_, ?_⟩
          · unfold Dec.EMIN; omega
          · unfold Dec.EMAX; omega
      rw [Dec.reduce_of_fits _ _ _ hfit]
      have hsh := Dec.normalize_shift (decide (a < 0)) R e.toNat 0
      have e2 : (0 : Int) + (e.toNat : Int) = e := by omega
      rw [e2, hR] at hsh
      rw [← hsh]
      refine Dec.cmp_zero_trans (Dec.cmp_normalize ..) (Dec.cmp_zero_symm ?_)
      exact (Dec.cmp_ofInt_fin_iff _ _ _).mpr (tmod_intVal a b)

/-- **`a // b` on integer operands** (any integer kinds, `b ≠ 0`): a decimal of value `Int.tdiv a b` -/
theorem int_idiv_value (k k' : IntKind) (a b : Int) (hb0 : b ≠ 0) (ha : a.natAbs ≤ Dec.MAXSIG) :
    ∃ d, integerDivide (.num (.int k a)) (.num (.int k' b)) = .ok (.num (.dec d)) ∧
      Dec.cmp d (Dec.ofInt (a.tdiv b)) = some 0 := by
  have h := (quoRem_ofInt a b hb0 ha).1
  refine ⟨_, ?_, h⟩
  rw [integerDivide, arith_int]
  exact checkD_of_cmp_fin (Dec.cmp_zero_trans h (Dec.cmp_ofInt _))

/-- **`a % b` on integer operands**: a decimal of value `Int.tmod a b` -/
theorem int_mod_value (k k' : IntKind) (a b : Int) (hb0 : b ≠ 0) (ha : a.natAbs ≤ Dec.MAXSIG) :
    ∃ d, modulo (.num (.int k a)) (.num (.int k' b)) = .ok (.num (.dec d)) ∧
      Dec.cmp d (Dec.ofInt (a.tmod b)) = some 0 := by
  have h := (quoRem_ofInt a b hb0 ha).2
  refine ⟨_, ?_, h⟩
  rw [modulo, arith_int]
  exact checkD_of_cmp_fin (Dec.cmp_zero_trans h (Dec.cmp_ofInt _))

example : ∃ d, integerDivide (.num (.int .i8 (-22))) (.num (.int .u16 7)) = .ok (.num (.dec d)) ∧
    Dec.cmp d (Dec.ofInt (-3)) = some 0 := int_idiv_value _ _ (-22) 7 (by decide) (by decide)

/-- the float `mk n v 0` has the value of the integer `±v` -/
theorem sameValue_mk_dec {n : Bool} {v : Nat} {d : Dec} {t : Int} (hv : v ≤ Dec.MAXSIG) (ht : t = Dec.intVal n v)
    (hd : Dec.cmp d (Dec.ofInt t) = some 0) : Num.SameValue (.f64 (mk n v 0)) (.dec d) := by
  refine ⟨_, _, rfl, rfl, ?_⟩
  have := toDec_mk_int n v hv
  rw [← ht] at this
  exact Dec.cmp_zero_symm (Dec.cmp_zero_trans hd this)

/-- **`//` is representation independent between float and integer operands**: for integers `|a|, |b| < 2^53`,
    `b ≠ 0` (no divisibility assumed), `a // b` on `float64` operands and on integer operands of any kind both
    succeed, with results of the same value `Int.tdiv a b`. -/
theorem float_idiv_sameValue (k k' : IntKind) (a b : Int) (hb0 : b ≠ 0) (ha : a.natAbs < 2 ^ 53)
    (hb : b.natAbs < 2 ^ 53) :
    C14.ResEquiv (integerDivide (.num (.f64 (ofInt a))) (.num (.f64 (ofInt b))))
      (integerDivide (.num (.int k a)) (.num (.int k' b))) := by
  have h53 := two53_le_MAXSIG
  obtain ⟨d, h1, h2⟩ := int_idiv_value k k' a b hb0 (by omega)
  right
  refine ⟨_, _, float_idiv a b hb0 ha hb, h1, ?_⟩
  simp only [Val.Equiv]
  exact sameValue_mk_dec (Nat.le_trans (Nat.div_le_self _ _) (by omega)) (tdiv_intVal a b) h2

/-- **`%` is representation independent between float and integer operands** (`|a| < 2^53`, `b ≠ 0`): both succeed
    with results of the same value `Int.tmod a b` -/
theorem float_mod_sameValue (k k' : IntKind) (a b : Int) (hb0 : b ≠ 0) (ha : a.natAbs < 2 ^ 53) :
    C14.ResEquiv (modulo (.num (.f64 (ofInt a))) (.num (.f64 (ofInt b))))
      (modulo (.num (.int k a)) (.num (.int k' b))) := by
  have h53 := two53_le_MAXSIG
  obtain ⟨d, h1, h2⟩ := int_mod_value k k' a b hb0 (by omega)
  right
  refine ⟨_, _, float_mod a b hb0, h1, ?_⟩
  simp only [Val.Equiv]
  exact sameValue_mk_dec (Nat.le_trans (Nat.mod_le _ _) (by omega)) (tmod_intVal a b) h2

example : C14.ResEquiv (integerDivide (.num (.f64 (ofInt (-1)))) (.num (.f64 (ofInt 2))))
    (integerDivide (.num (.int .i64 (-1))) (.num (.int .i64 2))) :=
  float_idiv_sameValue _ _ (-1) 2 (by decide) (by decide) (by decide)

example : C14.ResEquiv (modulo (.num (.f64 (ofInt (-22)))) (.num (.f64 (ofInt 7))))
    (modulo (.num (.int .i64 (-22))) (.num (.int .u8 7))) :=
  float_mod_sameValue _ _ (-22) 7 (by decide) (by decide)

/-! ### exact quotients: `/` on integer operands, and its agreement with the float path -/

/-- sign of the quotient `q` from the signs of `q·b` and `b` -/
theorem sign_of_mul (q b : Int) (hq : q ≠ 0) (hb0 : b ≠ 0) :
    (decide (q * b < 0) != decide (b < 0)) = decide (q < 0) := by
  have e : (q * b).tdiv b = q := Int.mul_tdiv_cancel _ hb0
  have := tdiv_neg_iff (q * b) b (by rw [e]; exact hq)
  rw [e] at this
  by_cases h1 : q * b < 0 <;> by_cases h2 : b < 0 <;> simp [h1, h2] at this ⊢ <;> omega

/-- `Dec.quo` on the decimals of `q·b` and `b`: the value `q` (the decimal quotient is exact) -/
theorem quo_ofInt_dvd (q b : Int) (hq : q ≠ 0) (hb0 : b ≠ 0) (ha : (q * b).natAbs ≤ Dec.MAXSIG) :
    Dec.cmp (Dec.quo (Dec.ofInt (q * b)) (Dec.ofInt b)) (Dec.ofInt q) = some 0 := by
  have ha0 : q * b ≠ 0 := Int.mul_ne_zero hq hb0
  obtain ⟨c1, k1, ha1, ha2, ha3⟩ := dec_ofInt_spec (q * b) ha0
  obtain ⟨c2, k2, hb1, hb2, hb3⟩ := dec_ofInt_spec b hb0
  rw [ha1, hb1]
  generalize hK : 40 + Dec.ndigits c2 = K
  have hk1 : k1 < 35 := by
    apply pow10_le_MAXSIG
    have : 10 ^ k1 ≤ c1 * 10 ^ k1 := Nat.le_mul_of_pos_left _ (by omega)
    omega
  have hbp : 0 < b.natAbs := by omega
  have hqle : q.natAbs ≤ Dec.MAXSIG := by
    have : q.natAbs ≤ (q * b).natAbs := by rw [Int.natAbs_mul]; exact Nat.le_mul_of_pos_right _ hbp
    omega
  -- c1·10^K = (|q|·10^j)·c2 with j = K + k2 − k1
  have hX : c1 * 10 ^ K = q.natAbs * 10 ^ (K + k2 - k1) * c2 := by
    apply Nat.eq_of_mul_eq_mul_right (Nat.pow_pos (n := k1) (by decide : 0 < 10))
    have e1 : c1 * 10 ^ K * 10 ^ k1 = (c1 * 10 ^ k1) * 10 ^ K := Nat.mul_right_comm _ _ _
    have e2 : q.natAbs * 10 ^ (K + k2 - k1) * c2 * 10 ^ k1 = q.natAbs * (c2 * 10 ^ k2) * 10 ^ K := by
      have : 10 ^ (K + k2 - k1) * 10 ^ k1 = 10 ^ k2 * 10 ^ K := by
        rw [← Nat.pow_add, ← Nat.pow_add]; congr 1; omega
      calc q.natAbs * 10 ^ (K + k2 - k1) * c2 * 10 ^ k1
          = q.natAbs * c2 * (10 ^ (K + k2 - k1) * 10 ^ k1) := by
            rw [Nat.mul_right_comm q.natAbs, Nat.mul_assoc (q.natAbs * c2)]
        _ = q.natAbs * (c2 * 10 ^ k2) * 10 ^ K := by
            rw [this, Nat.mul_assoc q.natAbs, Nat.mul_assoc q.natAbs, Nat.mul_assoc c2]
    rw [e1, e2, ← ha2, ← hb2, Int.natAbs_mul]
  have hfit : Dec.QuoFits (.fin (decide (q * b < 0)) c1 k1) (.fin (decide (b < 0)) c2 k2) := by
    simp only [Dec.QuoFits, hK]
    rw [hX, Nat.mul_mod_left, Nat.mul_div_cancel _ (by omega : 0 < c2)]
    refine ⟨rfl, .inr ⟨q.natAbs, K + k2 - k1, rfl, by omega, hqle, ?_, ?_⟩⟩
    · unfold Dec.EMIN; omega
    · unfold Dec.EMAX; omega
  have h := Dec.quo_raw _ _ _ _ _ _ ha3 hb3 hfit
  rw [hK, hX, Nat.mul_div_cancel _ (by omega : 0 < c2), sign_of_mul q b hq hb0] at h
  refine Dec.cmp_zero_trans h ?_
  refine Dec.cmp_zero_trans (Dec.cmp_normalize' ..) ?_
  rw [Dec.normalize_shift]
  have e : (k1 : Int) - (k2 : Int) - (K : Int) + ((K + k2 - k1 : Nat) : Int) = 0 := by omega
  rw [e]
  refine Dec.cmp_zero_trans (Dec.cmp_normalize ..) (Dec.cmp_zero_symm ?_)
  exact (Dec.cmp_ofInt_fin_iff _ _ _).mpr (signed_natAbs q).symm

/-- **`a / b` on integer operands with `b ∣ a`**: a decimal of value `q = a/b` -/
theorem int_div_value (k k' : IntKind) (a b q : Int) (hab : a = q * b) (hq : q ≠ 0) (hb0 : b ≠ 0)
    (ha : a.natAbs ≤ Dec.MAXSIG) :
    ∃ d, divide (.num (.int k a)) (.num (.int k' b)) = .ok (.num (.dec d)) ∧ Dec.cmp d (Dec.ofInt q) = some 0 := by
  subst hab
  have h := quo_ofInt_dvd q b hq hb0 ha
  refine ⟨_, ?_, h⟩
  rw [divide, arith_int]
  exact checkD_of_cmp_fin (Dec.cmp_zero_trans h (Dec.cmp_ofInt _))

/-- **`/` with an exact quotient is representation independent between float and integer operands**: for integers
    `a = q·b`, `q ≠ 0`, `|a|, |b| < 2^53`, `a / b` on `float64` operands is the float `q`, on integer operands a
    decimal of value `q`. -/
theorem float_div_sameValue (k k' : IntKind) (a b q : Int) (hab : a = q * b) (hq : q ≠ 0) (hb0 : b ≠ 0)
    (ha : a.natAbs < 2 ^ 53) (hb : b.natAbs < 2 ^ 53) :
    C14.ResEquiv (divide (.num (.f64 (ofInt a))) (.num (.f64 (ofInt b))))
      (divide (.num (.int k a)) (.num (.int k' b))) := by
  have h53 := two53_le_MAXSIG
  obtain ⟨d, h1, h2⟩ := int_div_value k k' a b q hab hq hb0 (by omega)
  right
  refine ⟨_, _, float_div_exact a b q hab hq hb0 ha hb, h1, ?_⟩
  simp only [Val.Equiv]
  have hqle : q.natAbs ≤ a.natAbs := by
    rw [hab, Int.natAbs_mul]; exact Nat.le_mul_of_pos_right _ (by omega)
  exact sameValue_mk_dec (by omega) (signed_natAbs q).symm h2

example : C14.ResEquiv (divide (.num (.f64 (ofInt 84))) (.num (.f64 (ofInt (-7)))))
    (divide (.num (.int .i64 84)) (.num (.int .i8 (-7)))) :=
  float_div_sameValue _ _ 84 (-7) (-12) (by decide) (by decide) (by decide) (by decide) (by decide)

end C14BF
end Jmes

section AxiomCheck
open Jmes.C14BF
#print axioms roundPos_spec
#print axioms roundPos_dyadic
#print axioms rnd_no_cross
#print axioms div_ofInt_dyadic
#print axioms div_ofInt_dvd
#print axioms trunc_div_ofInt
#print axioms mod_ofInt
#print axioms float_div_exact
#print axioms float_div_zero
#print axioms float_div_dyadic
#print axioms float_idiv
#print axioms float_idiv_exact
#print axioms float_mod
#print axioms float_mod_exact
#print axioms arith_f32_left
#print axioms arith_f32_right
#print axioms sameValue_f32_f64
#print axioms sameValue_f32_f64_fin
#print axioms float32_add_exact
#print axioms float32_sub_exact
#print axioms float32_mul_exact
#print axioms float32_div_exact
#print axioms float32_idiv
#print axioms float32_mod
#print axioms quoRem_ofInt
#print axioms int_idiv_value
#print axioms int_mod_value
#print axioms float_idiv_sameValue
#print axioms float_mod_sameValue
#print axioms quo_ofInt_dvd
#print axioms int_div_value
#print axioms float_div_sameValue
end AxiomCheck
