/-
  C11 (fourth wave), parts 2b and 2c: the renamed parse tree is again well formed, and the renamed text lexes.

  (2b) `wellPrec_renT`: `WellPrec t → WellPrec (renT σ t)` when the token substitution `σ` sends atoms to atoms,
       identifiers to identifiers and member keys to member keys (`SigWP σ`).
  (2c) `lexes_renT`: if every token is either kept by `σ` or replaced by a well-shaped DELIMITED token (quoted identifier,
       raw string, JSON literal: `Rep tok (σ tok)`), then the text of `t` with the renamed tokens re-spelt and all the
       whitespace kept lexes to the tokens of `renT σ t` — a delimited token never merges with its neighbours.
-/
import Jmes.Proofs.C11ETokA
import Jmes.Properties.C04C
set_option linter.unusedSectionVars false
set_option linter.unusedSimpArgs false
namespace Jmes.C11E.Tok
open Jmes Jmes.Utf8 Jmes.C11C Jmes.Grammar Jmes.Lexical

/-! ## (2b) well-formedness -/

/-- the token is an identifier (quoted or not) -/
def isIdentTok (t : Token) : Bool := t.type == .unquotedIdentifier || t.type == .quotedIdentifier

/-- what `wellPrec_renT` asks of the token substitution -/
structure SigWP (σ : Token → Token) : Prop where
  /-- an atom token stays an atom token (a literal that decodes stays one that decodes) -/
  atom : ∀ t, (atomNode t).isSome = true → (atomNode (σ t)).isSome = true
  /-- an identifier stays an identifier -/
  ident : ∀ t, isIdentTok t = true → isIdentTok (σ t) = true
  /-- a member key stays a member key -/
  key : ∀ k, keyOK k = true → keyOK (σ k) = true

section WP
variable {σ : Token → Token}

theorem isIcur_eq {t : PTree} (h : t.isIcur = true) : t = .icur := by
  cases t <;> first | rfl | cases h

theorem llevel_renT (σ : Token → Token) : ∀ t : PTree, llevel (renT σ t) = llevel t
  | .icur => by simp only [renT]
  | .atom _ => by simp only [renT, llevel]
  | .paren _ => by simp only [renT, llevel]
  | .not _ => by simp only [renT, llevel]
  | .neg _ _ => by simp only [renT, llevel]
  | .pos _ => by simp only [renT, llevel]
  | .bin op l r => by simp only [renT, llevel, lmin, isIcur_renT, llevel_renT σ l]
  | .dotId l r => by simp only [renT, llevel, lmin, isIcur_renT, llevel_renT σ l]
  | .dotList l es => by simp only [renT, llevel, lmin, isIcur_renT, llevel_renT σ l]
  | .dotHash l kvs => by simp only [renT, llevel, lmin, isIcur_renT, llevel_renT σ l]
  | .dotStarList l => by simp only [renT, llevel, lmin, isIcur_renT, llevel_renT σ l]
  | .index l n => by simp only [renT, llevel, lmin, isIcur_renT, llevel_renT σ l]
  | .call _ _ => by simp only [renT, llevel]
  | .ref _ => by simp only [renT, llevel]
  | .letIn _ _ => by simp only [renT, llevel]
  | .multiList _ => by simp only [renT, llevel]
  | .multiHash _ => by simp only [renT, llevel]
  | .star l rhs => by simp only [renT, llevel, lmin, isIcur_renT, llevel_renT σ l]
  | .ostar l rhs => by simp only [renT, llevel, lmin, isIcur_renT, llevel_renT σ l]
  | .flat l rhs => by simp only [renT, llevel, lmin, isIcur_renT, llevel_renT σ l]
  | .filt l c rhs => by simp only [renT, llevel, lmin, isIcur_renT, llevel_renT σ l]
  | .slice l a b c rhs => by simp only [renT, llevel, lmin, isIcur_renT, llevel_renT σ l]

theorem rlevel_renT (σ : Token → Token) : ∀ t : PTree, rlevel (renT σ t) = rlevel t
  | .icur => by simp only [renT]
  | .atom _ => by simp only [renT, rlevel]
  | .paren _ => by simp only [renT, rlevel]
  | .not t => by simp only [renT, rlevel, rlevel_renT σ t]
  | .neg _ t => by simp only [renT, rlevel, rlevel_renT σ t]
  | .pos t => by simp only [renT, rlevel, rlevel_renT σ t]
  | .bin op l r => by simp only [renT, rlevel, rlevel_renT σ r]
  | .dotId l r => by simp only [renT, rlevel, rlevel_renT σ r]
  | .dotList _ _ => by simp only [renT, rlevel]
  | .dotHash _ _ => by simp only [renT, rlevel]
  | .dotStarList _ => by simp only [renT, rlevel]
  | .index _ _ => by simp only [renT, rlevel]
  | .call _ _ => by simp only [renT, rlevel]
  | .ref _ => by simp only [renT, rlevel]
  | .letIn _ _ => by simp only [renT, rlevel]
  | .multiList _ => by simp only [renT, rlevel]
  | .multiHash _ => by simp only [renT, rlevel]
  | .star _ _ => by simp only [renT, rlevel]
  | .ostar _ _ => by simp only [renT, rlevel]
  | .flat _ _ => by simp only [renT, rlevel]
  | .filt _ _ _ => by simp only [renT, rlevel]
  | .slice _ _ _ _ _ => by simp only [renT, rlevel]

end WP

section WP2
variable {σ : Token → Token}

theorem flat_ne_nil : ∀ (b : Bool) (t : PTree), t.isIcur = false → flat b t ≠ []
  | _, .icur, h => by cases h
  | _, .atom _, _ => by simp [flat]
  | _, .paren _, _ => by simp [flat]
  | _, .not _, _ => by simp [flat]
  | _, .neg _ _, _ => by simp [flat]
  | _, .pos _, _ => by simp [flat]
  | _, .bin _ _ _, _ => by simp [flat]
  | _, .dotId _ _, _ => by simp [flat]
  | _, .dotList _ _, _ => by simp [flat]
  | _, .dotHash _ _, _ => by simp [flat]
  | _, .dotStarList _, _ => by simp [flat]
  | _, .index _ _, _ => by simp [flat]
  | _, .call _ _, _ => by simp [flat]
  | _, .ref _, _ => by simp [flat]
  | _, .letIn _ _, _ => by simp [flat]
  | _, .multiList _, _ => by simp [flat]
  | _, .multiHash _, _ => by simp [flat]
  | _, .star _ _, _ => by simp [flat]
  | b, .ostar l _, _ => by
    simp only [flat]
    split
    · cases b <;> simp
    · simp
  | _, .flat _ _, _ => by simp [flat]
  | _, .filt _ _ _, _ => by simp [flat]
  | _, .slice _ _ _ _ _, _ => by simp [flat]

/-- "the first token is an identifier" through a left operand -/
theorem head_app (b : Bool) {l : PTree} {X : Token} {rest rest' : List Token}
    (ih : ∀ tok, (flat b l).head? = some tok → isIdentTok tok = true →
      ∃ tok', (flat b (renT σ l)).head? = some tok' ∧ isIdentTok tok' = true) :
    ∀ tok, (flat b l ++ X :: rest).head? = some tok → isIdentTok tok = true →
      ∃ tok', (flat b (renT σ l) ++ X :: rest').head? = some tok' ∧ isIdentTok tok' = true := by
  intro tok h hi
  by_cases hl : l.isIcur = true
  · have := isIcur_eq hl; subst this
    simp only [renT, flat, List.nil_append, List.head?_cons] at h ⊢
    exact ⟨X, rfl, by cases h; exact hi⟩
  · have hl' : l.isIcur = false := by simpa using hl
    have h1 := flat_ne_nil b l hl'
    have h2 := flat_ne_nil b (renT σ l) (by rw [isIcur_renT]; exact hl')
    have e1 : ∀ (a r : List Token), a ≠ [] → (a ++ r).head? = a.head? := by
      intro a r ha; cases a with
      | nil => exact absurd rfl ha
      | cons x xs => rfl
    rw [e1 _ _ h1] at h
    rw [e1 _ _ h2]
    exact ih tok h hi

theorem head_flat_renT (hσ : ∀ t, isIdentTok t = true → isIdentTok (σ t) = true) :
    ∀ (b : Bool) (t : PTree) (tok : Token), (flat b t).head? = some tok → isIdentTok tok = true →
      ∃ tok', (flat b (renT σ t)).head? = some tok' ∧ isIdentTok tok' = true
  | _, .icur, tok, h, _ => by simp [flat] at h
  | _, .atom t, tok, h, hi => by
    simp only [flat, List.head?_cons] at h; cases h
    exact ⟨σ t, by simp only [renT, flat, List.head?_cons], hσ t hi⟩
  | _, .paren _, tok, h, hi => by
    simp only [flat, List.head?_cons] at h; cases h
    exact ⟨_, by simp [renT, flat], hi⟩
  | _, .not _, tok, h, hi => by
    simp only [flat, List.head?_cons] at h; cases h
    exact ⟨_, by simp [renT, flat], hi⟩
  | _, .neg _ _, tok, h, hi => by
    simp only [flat, List.head?_cons] at h; cases h
    exact ⟨_, by simp [renT, flat], hi⟩
  | _, .pos _, tok, h, hi => by
    simp only [flat, List.head?_cons] at h; cases h
    exact ⟨_, by simp [renT, flat], hi⟩
  | b, .bin op l r, tok, h, hi => by
    simp only [renT, flat, List.append_assoc, List.cons_append] at h ⊢; exact head_app b (head_flat_renT hσ b l) tok h hi
  | b, .dotId l r, tok, h, hi => by
    simp only [renT, flat, List.append_assoc, List.cons_append] at h ⊢; exact head_app b (head_flat_renT hσ b l) tok h hi
  | b, .dotList l es, tok, h, hi => by
    simp only [renT, flat, List.append_assoc, List.cons_append] at h ⊢; exact head_app b (head_flat_renT hσ b l) tok h hi
  | b, .dotHash l kvs, tok, h, hi => by
    simp only [renT, flat, List.append_assoc, List.cons_append] at h ⊢; exact head_app b (head_flat_renT hσ b l) tok h hi
  | b, .dotStarList l, tok, h, hi => by
    simp only [renT, flat, List.append_assoc, List.cons_append] at h ⊢; exact head_app b (head_flat_renT hσ b l) tok h hi
  | b, .index l n, tok, h, hi => by
    simp only [renT, flat, List.append_assoc, List.cons_append] at h ⊢; exact head_app b (head_flat_renT hσ b l) tok h hi
  | _, .call _ _, tok, h, hi => by
    simp only [flat, List.head?_cons] at h; cases h
    exact ⟨_, by simp [renT, flat], hi⟩
  | _, .ref _, tok, h, hi => by
    simp only [flat, List.head?_cons] at h; cases h
    exact ⟨_, by simp [renT, flat], hi⟩
  | _, .letIn _ _, tok, h, hi => by
    simp only [flat, List.head?_cons] at h; cases h
    exact ⟨_, by simp [renT, flat], hi⟩
  | _, .multiList _, tok, h, hi => by
    simp only [flat, List.head?_cons] at h; cases h
    exact ⟨_, by simp [renT, flat], hi⟩
  | _, .multiHash _, tok, h, hi => by
    simp only [flat, List.head?_cons] at h; cases h
    exact ⟨_, by simp [renT, flat], hi⟩
  | b, .star l rhs, tok, h, hi => by
    simp only [renT, flat, List.append_assoc, List.cons_append] at h ⊢; exact head_app b (head_flat_renT hσ b l) tok h hi
  | b, .ostar l rhs, tok, h, hi => by
    simp only [renT, flat, isIcur_renT] at h ⊢
    by_cases hl : l.isIcur = true
    · simp only [hl, if_true] at h ⊢
      cases b <;> simp only [Bool.false_eq_true, if_false, if_true, List.cons_append, List.nil_append,
        List.head?_cons] at h ⊢ <;> (cases h; exact ⟨_, rfl, hi⟩)
    · have hl' : l.isIcur = false := by simpa using hl
      simp only [hl', Bool.false_eq_true, if_false, List.append_assoc, List.cons_append, List.nil_append] at h ⊢
      exact head_app b (head_flat_renT hσ b l) tok h hi
  | b, .flat l rhs, tok, h, hi => by
    simp only [renT, flat, List.append_assoc, List.cons_append] at h ⊢; exact head_app b (head_flat_renT hσ b l) tok h hi
  | b, .filt l c rhs, tok, h, hi => by
    simp only [renT, flat, List.append_assoc, List.cons_append] at h ⊢; exact head_app b (head_flat_renT hσ b l) tok h hi
  | b, .slice l a bb c rhs, tok, h, hi => by
    simp only [renT, flat, List.append_assoc, List.cons_append] at h ⊢; exact head_app b (head_flat_renT hσ b l) tok h hi

theorem startsWithIdent_renT (hσ : ∀ t, isIdentTok t = true → isIdentTok (σ t) = true) {t : PTree}
    (h : startsWithIdent t = true) : startsWithIdent (renT σ t) = true := by
  unfold startsWithIdent at h ⊢
  cases hh : (flat false t).head? with
  | none => rw [hh] at h; cases h
  | some tok =>
    rw [hh] at h
    obtain ⟨tok', h1, h2⟩ := head_flat_renT hσ false t tok hh h
    rw [h1]; exact h2

end WP2

section WP3
variable {σ : Token → Token}

/-- the left-operand condition of `wp` transfers -/
theorem left_ren (X : Bool) (b : Bool) (lvl : Nat) {l : PTree}
    (ih : wp b l = true → wp b (renT σ l) = true)
    (h : (if l.isIcur = true then X else wp b l && decide (lvl ≤ rlevel l)) = true) :
    (if (renT σ l).isIcur = true then X else wp b (renT σ l) && decide (lvl ≤ rlevel (renT σ l))) = true := by
  rw [isIcur_renT, rlevel_renT]
  split at h
  · rename_i hl; rw [if_pos hl]; exact h
  · rename_i hl; rw [if_neg hl]
    simp only [Bool.and_eq_true] at h ⊢
    exact ⟨ih h.1, h.2⟩

/-- the right-hand-side condition of `wp` transfers -/
theorem rhs_ren {rhs : PTree} (ih : wp true rhs = true → wp true (renT σ rhs) = true)
    (h : (rhs.isIcur || (wp true rhs && decide (lvlProj < llevel rhs))) = true) :
    ((renT σ rhs).isIcur || (wp true (renT σ rhs) && decide (lvlProj < llevel (renT σ rhs)))) = true := by
  rw [isIcur_renT, llevel_renT]
  simp only [Bool.or_eq_true, Bool.and_eq_true] at h ⊢
  rcases h with h | h
  · exact Or.inl h
  · exact Or.inr ⟨ih h.1, h.2⟩

theorem isEmpty_renTL (es : List PTree) : (renTL σ es).isEmpty = es.isEmpty := by
  cases es <;> simp [renTL]
theorem isEmpty_renTK (keys : Bool) (kvs : List (Token × PTree)) : (renTK σ keys kvs).isEmpty = kvs.isEmpty := by
  cases kvs with
  | nil => simp [renTK]
  | cons kv r => obtain ⟨k, e⟩ := kv; simp [renTK]

theorem renTL_length (es : List PTree) : (renTL σ es).length = es.length := by
  induction es with
  | nil => simp [renTL]
  | cons e es ih => simp [renTL, ih]

theorem isRef_renT (t : PTree) : (renT σ t).isRef = t.isRef := by
  cases t <;> simp only [renT] <;> rfl

theorem all_notRef_renTL : ∀ es : List PTree, (renTL σ es).all (!·.isRef) = es.all (!·.isRef)
  | [] => by simp [renTL]
  | e :: es => by simp only [renTL, List.all_cons, isRef_renT, all_notRef_renTL es]

theorem argsOK_renTL (spec : Parser.ArgSpec) (args : List PTree) :
    argsOK spec (renTL σ args) = argsOK spec args := by
  cases spec with
  | fixed mn mx mk => simp only [argsOK, renTL_length, all_notRef_renTL]
  | varArg mk => simp only [argsOK, renTL_length, all_notRef_renTL]
  | expArg mk =>
    rcases args with _ | ⟨a, _ | ⟨e, _ | ⟨c, r⟩⟩⟩ <;> simp only [renTL, argsOK, isRef_renT]
  | mapArg mk =>
    rcases args with _ | ⟨a, _ | ⟨e, _ | ⟨c, r⟩⟩⟩ <;> simp only [renTL, argsOK, isRef_renT]

mutual
theorem wp_renT (hσ : SigWP σ) : ∀ (b : Bool) (t : PTree), wp b t = true → wp b (renT σ t) = true
  | _, .icur, h => by cases h
  | b, .atom t, h => by
    simp only [renT, wp, Bool.and_eq_true] at h ⊢
    exact ⟨h.1, hσ.atom t h.2⟩
  | b, .paren t, h => by
    simp only [renT, wp, Bool.and_eq_true] at h ⊢
    exact ⟨h.1, wp_renT hσ false t h.2⟩
  | b, .not t, h => by
    simp only [renT, wp, Bool.and_eq_true, llevel_renT] at h ⊢
    exact ⟨⟨h.1.1, wp_renT hσ false t h.1.2⟩, h.2⟩
  | b, .neg tok t, h => by
    simp only [renT, wp, Bool.and_eq_true, llevel_renT] at h ⊢
    exact ⟨⟨⟨h.1.1.1, h.1.1.2⟩, wp_renT hσ false t h.1.2⟩, h.2⟩
  | b, .pos t, h => by
    simp only [renT, wp, Bool.and_eq_true, llevel_renT] at h ⊢
    exact ⟨⟨h.1.1, wp_renT hσ false t h.1.2⟩, h.2⟩
  | b, .bin op l r, h => by
    simp only [renT, wp] at h ⊢
    cases hb : binLevel op.type with
    | none => rw [hb] at h; cases h
    | some lvl =>
      rw [hb] at h
      simp only [Bool.and_eq_true, isIcur_renT, llevel_renT, rlevel_renT] at h ⊢
      exact ⟨⟨⟨⟨h.1.1.1.1, wp_renT hσ b l h.1.1.1.2⟩, h.1.1.2⟩, wp_renT hσ false r h.1.2⟩, h.2⟩
  | b, .dotId l r, h => by
    simp only [renT, wp, Bool.and_eq_true, llevel_renT] at h ⊢
    exact ⟨⟨⟨left_ren b b lvlDot (wp_renT hσ b l) h.1.1.1, wp_renT hσ false r h.1.1.2⟩, h.1.2⟩,
      startsWithIdent_renT hσ.ident h.2⟩
  | b, .dotList l es, h => by
    simp only [renT, wp, Bool.and_eq_true, isEmpty_renTL] at h ⊢
    exact ⟨⟨left_ren b b lvlDot (wp_renT hσ b l) h.1.1, h.1.2⟩, wpL_renT hσ es h.2⟩
  | b, .dotHash l kvs, h => by
    simp only [renT, wp, Bool.and_eq_true, isEmpty_renTK] at h ⊢
    exact ⟨⟨left_ren b b lvlDot (wp_renT hσ b l) h.1.1, h.1.2⟩, wpKVs_renT_keys hσ kvs h.2⟩
  | b, .dotStarList l, h => by
    simp only [renT, wp] at h ⊢
    exact left_ren b b lvlDot (wp_renT hσ b l) h
  | b, .index l n, h => by
    simp only [renT, wp, Bool.and_eq_true] at h ⊢
    exact ⟨left_ren true b lvlBracket (wp_renT hσ b l) h.1, h.2⟩
  | b, .call name args, h => by
    simp only [renT, wp] at h ⊢
    cases hl : Parser.lookupBuiltin name.value with
    | none => rw [hl] at h; simp at h
    | some spec =>
      rw [hl] at h
      simp only [Bool.and_eq_true, argsOK_renTL] at h ⊢
      exact ⟨h.1, wpArgs_renT hσ args h.2⟩
  | _, .ref _, h => by cases h
  | b, .letIn bs body, h => by
    simp only [renT, wp, Bool.and_eq_true, isEmpty_renTK] at h ⊢
    exact ⟨⟨h.1.1, wpKVs_renT_vars hσ bs h.1.2⟩, wp_renT hσ false body h.2⟩
  | b, .multiList es, h => by
    simp only [renT, wp, Bool.and_eq_true, isEmpty_renTL] at h ⊢
    exact ⟨h.1, wpL_renT hσ es h.2⟩
  | b, .multiHash kvs, h => by
    simp only [renT, wp, Bool.and_eq_true, isEmpty_renTK] at h ⊢
    exact ⟨h.1, wpKVs_renT_keys hσ kvs h.2⟩
  | b, .star l rhs, h => by
    simp only [renT, wp, Bool.and_eq_true] at h ⊢
    exact ⟨left_ren true b lvlBracket (wp_renT hσ b l) h.1, rhs_ren (wp_renT hσ true rhs) h.2⟩
  | b, .ostar l rhs, h => by
    simp only [renT, wp, Bool.and_eq_true] at h ⊢
    exact ⟨left_ren true b lvlDot (wp_renT hσ b l) h.1, rhs_ren (wp_renT hσ true rhs) h.2⟩
  | b, .flat l rhs, h => by
    simp only [renT, wp, Bool.and_eq_true] at h ⊢
    exact ⟨left_ren (!b) b lvlFlatten (wp_renT hσ b l) h.1, rhs_ren (wp_renT hσ true rhs) h.2⟩
  | b, .filt l c rhs, h => by
    simp only [renT, wp, Bool.and_eq_true] at h ⊢
    exact ⟨⟨left_ren true b lvlFilter (wp_renT hσ b l) h.1.1, wp_renT hσ false c h.1.2⟩,
      rhs_ren (wp_renT hσ true rhs) h.2⟩
  | b, .slice l a bb c rhs, h => by
    simp only [renT, wp, Bool.and_eq_true] at h ⊢
    exact ⟨⟨left_ren true b lvlBracket (wp_renT hσ b l) h.1.1, h.1.2⟩, rhs_ren (wp_renT hσ true rhs) h.2⟩
theorem wpL_renT (hσ : SigWP σ) : ∀ es : List PTree, wpL es = true → wpL (renTL σ es) = true
  | [], _ => by simp only [renTL, wpL]
  | e :: es, h => by
    simp only [renTL, wpL, Bool.and_eq_true] at h ⊢
    exact ⟨wp_renT hσ false e h.1, wpL_renT hσ es h.2⟩
theorem wpArgs_renT (hσ : SigWP σ) : ∀ es : List PTree, wpArgs es = true → wpArgs (renTL σ es) = true
  | [], _ => by simp only [renTL, wpArgs]
  | .ref t :: es, h => by
    simp only [renTL, renT, wpArgs, Bool.and_eq_true] at h ⊢
    exact ⟨wp_renT hσ false t h.1, wpArgs_renT hσ es h.2⟩
  | .icur :: es, h => by simp [wpArgs, wp] at h
  | .atom t :: es, h => by
    have := wp_renT hσ false (.atom t)
    simp only [renTL, renT, wpArgs, Bool.and_eq_true] at h this ⊢
    exact ⟨this h.1, wpArgs_renT hσ es h.2⟩
  | .paren a0 :: es, h => by
    have := wp_renT hσ false (.paren a0)
    simp only [renTL, renT, wpArgs, Bool.and_eq_true] at h this ⊢
    exact ⟨this h.1, wpArgs_renT hσ es h.2⟩
  | .not a0 :: es, h => by
    have := wp_renT hσ false (.not a0)
    simp only [renTL, renT, wpArgs, Bool.and_eq_true] at h this ⊢
    exact ⟨this h.1, wpArgs_renT hσ es h.2⟩
  | .neg a0 a1 :: es, h => by
    have := wp_renT hσ false (.neg a0 a1)
    simp only [renTL, renT, wpArgs, Bool.and_eq_true] at h this ⊢
    exact ⟨this h.1, wpArgs_renT hσ es h.2⟩
  | .pos a0 :: es, h => by
    have := wp_renT hσ false (.pos a0)
    simp only [renTL, renT, wpArgs, Bool.and_eq_true] at h this ⊢
    exact ⟨this h.1, wpArgs_renT hσ es h.2⟩
  | .bin a0 a1 a2 :: es, h => by
    have := wp_renT hσ false (.bin a0 a1 a2)
    simp only [renTL, renT, wpArgs, Bool.and_eq_true] at h this ⊢
    exact ⟨this h.1, wpArgs_renT hσ es h.2⟩
  | .dotId a0 a1 :: es, h => by
    have := wp_renT hσ false (.dotId a0 a1)
    simp only [renTL, renT, wpArgs, Bool.and_eq_true] at h this ⊢
    exact ⟨this h.1, wpArgs_renT hσ es h.2⟩
  | .dotList a0 a1 :: es, h => by
    have := wp_renT hσ false (.dotList a0 a1)
    simp only [renTL, renT, wpArgs, Bool.and_eq_true] at h this ⊢
    exact ⟨this h.1, wpArgs_renT hσ es h.2⟩
  | .dotHash a0 a1 :: es, h => by
    have := wp_renT hσ false (.dotHash a0 a1)
    simp only [renTL, renT, wpArgs, Bool.and_eq_true] at h this ⊢
    exact ⟨this h.1, wpArgs_renT hσ es h.2⟩
  | .dotStarList a0 :: es, h => by
    have := wp_renT hσ false (.dotStarList a0)
    simp only [renTL, renT, wpArgs, Bool.and_eq_true] at h this ⊢
    exact ⟨this h.1, wpArgs_renT hσ es h.2⟩
  | .index a0 a1 :: es, h => by
    have := wp_renT hσ false (.index a0 a1)
    simp only [renTL, renT, wpArgs, Bool.and_eq_true] at h this ⊢
    exact ⟨this h.1, wpArgs_renT hσ es h.2⟩
  | .call a0 a1 :: es, h => by
    have := wp_renT hσ false (.call a0 a1)
    simp only [renTL, renT, wpArgs, Bool.and_eq_true] at h this ⊢
    exact ⟨this h.1, wpArgs_renT hσ es h.2⟩
  | .letIn a0 a1 :: es, h => by
    have := wp_renT hσ false (.letIn a0 a1)
    simp only [renTL, renT, wpArgs, Bool.and_eq_true] at h this ⊢
    exact ⟨this h.1, wpArgs_renT hσ es h.2⟩
  | .multiList a0 :: es, h => by
    have := wp_renT hσ false (.multiList a0)
    simp only [renTL, renT, wpArgs, Bool.and_eq_true] at h this ⊢
    exact ⟨this h.1, wpArgs_renT hσ es h.2⟩
  | .multiHash a0 :: es, h => by
    have := wp_renT hσ false (.multiHash a0)
    simp only [renTL, renT, wpArgs, Bool.and_eq_true] at h this ⊢
    exact ⟨this h.1, wpArgs_renT hσ es h.2⟩
  | .star a0 a1 :: es, h => by
    have := wp_renT hσ false (.star a0 a1)
    simp only [renTL, renT, wpArgs, Bool.and_eq_true] at h this ⊢
    exact ⟨this h.1, wpArgs_renT hσ es h.2⟩
  | .ostar a0 a1 :: es, h => by
    have := wp_renT hσ false (.ostar a0 a1)
    simp only [renTL, renT, wpArgs, Bool.and_eq_true] at h this ⊢
    exact ⟨this h.1, wpArgs_renT hσ es h.2⟩
  | .flat a0 a1 :: es, h => by
    have := wp_renT hσ false (.flat a0 a1)
    simp only [renTL, renT, wpArgs, Bool.and_eq_true] at h this ⊢
    exact ⟨this h.1, wpArgs_renT hσ es h.2⟩
  | .filt a0 a1 a2 :: es, h => by
    have := wp_renT hσ false (.filt a0 a1 a2)
    simp only [renTL, renT, wpArgs, Bool.and_eq_true] at h this ⊢
    exact ⟨this h.1, wpArgs_renT hσ es h.2⟩
  | .slice a0 a1 a2 a3 a4 :: es, h => by
    have := wp_renT hσ false (.slice a0 a1 a2 a3 a4)
    simp only [renTL, renT, wpArgs, Bool.and_eq_true] at h this ⊢
    exact ⟨this h.1, wpArgs_renT hσ es h.2⟩
theorem wpKVs_renT_keys (hσ : SigWP σ) : ∀ kvs : List (Token × PTree),
    wpKVs keyOK kvs = true → wpKVs keyOK (renTK σ true kvs) = true
  | [], _ => by simp only [renTK, wpKVs]
  | (k, e) :: rest, h => by
    simp only [renTK, wpKVs, Bool.and_eq_true, if_true] at h ⊢
    exact ⟨⟨hσ.key k h.1.1, wp_renT hσ false e h.1.2⟩, wpKVs_renT_keys hσ rest h.2⟩
theorem wpKVs_renT_vars (hσ : SigWP σ) : ∀ kvs : List (Token × PTree),
    wpKVs isVarTok kvs = true → wpKVs isVarTok (renTK σ false kvs) = true
  | [], _ => by simp only [renTK, wpKVs]
  | (k, e) :: rest, h => by
    simp only [renTK, wpKVs, Bool.and_eq_true, Bool.false_eq_true, if_false] at h ⊢
    exact ⟨⟨h.1.1, wp_renT hσ false e h.1.2⟩, wpKVs_renT_vars hσ rest h.2⟩
end

end WP3

/-- **(2b) the renamed tree is well formed** -/
theorem wellPrec_renT {σ : Token → Token} (hσ : SigWP σ) {t : PTree} (h : WellPrec t) : WellPrec (renT σ t) :=
  wp_renT hσ false t h

/-! ## (2c) the renamed text lexes -/

open Jmes.C04C

/-- the delimited token types: quoted identifier, raw string, JSON literal -/
def isDelimTy : TokenType → Bool
  | .quotedIdentifier | .stringLiteral | .jsonLiteral => true
  | _ => false

/-- `a'` takes the place of `a`: the same token, or a well-shaped delimited token -/
def Rep (a a' : Token) : Prop := a' = a ∨ (isDelimTy a'.type = true ∧ TokShape a'.type a'.value)

/-- token lists related position by position -/
inductive RepL : List Token → List Token → Prop
  | nil : RepL [] []
  | cons {a a' : Token} {ts ts' : List Token} : Rep a a' → RepL ts ts' → RepL (a :: ts) (a' :: ts')

theorem RepL.refl : ∀ ts : List Token, RepL ts ts
  | [] => .nil
  | _ :: ts => .cons (Or.inl rfl) (RepL.refl ts)

theorem RepL.append {as as' bs bs' : List Token} (h1 : RepL as as') (h2 : RepL bs bs') :
    RepL (as ++ bs) (as' ++ bs') := by
  induction h1 with
  | nil => exact h2
  | cons h _ ih => exact .cons h ih

/-- nothing is forbidden after a delimited token -/
theorem fuses_delim_left {a b : Token} (h : isDelimTy a.type = true) : Fuses a b = false := by
  unfold Fuses
  split
  · rfl
  · unfold forbiddenNext
    cases ha : a.type <;> rw [ha] at h <;> first | cases h | rfl

/-- the opening delimiter of a delimited token continues no token -/
theorem fuses_delim_right (a : Token) {b : Token} (h : isDelimTy b.type = true) (hs : TokShape b.type b.value) :
    Fuses a b = false := by
  have hd : ∃ d r, b.value = d :: r ∧ (d = 0x22 ∨ d = 0x27 ∨ d = 0x60) := by
    cases hb : b.type <;> rw [hb] at h hs <;> first | cases h | skip
    all_goals (obtain ⟨w, hw, _⟩ := hs; exact ⟨_, w, hw, by simp⟩)
  obtain ⟨d, r, hv, hd⟩ := hd
  unfold Fuses
  rw [hv]
  simp only
  unfold forbiddenNext
  rcases hd with rfl | rfl | rfl <;> split <;> simp [isIdCharB, isIdStartB, isDigitB]

/-- re-spell the tokens of a layout, keeping every whitespace run -/
def retok : List (Token × Bytes) → List Token → List (Token × Bytes)
  | (_, w) :: l, a' :: ts => (a', w) :: retok l ts
  | _, _ => []

theorem layoutOK_retok : ∀ (l : List (Token × Bytes)) (ts' : List Token), LayoutOK l → RepL (l.map (·.1)) ts' →
    LayoutOK (retok l ts') ∧ (retok l ts').map (·.1) = ts'
  | [], ts', _, hr => by cases hr; exact ⟨trivial, rfl⟩
  | (a, w) :: rest, ts', hl, hr => by
    cases hr with
    | @cons _ a' _ ts2 ha hrest =>
    obtain ⟨hsh, hw, hmid, hl'⟩ := hl
    obtain ⟨ih1, ih2⟩ := layoutOK_retok rest ts2 hl' hrest
    have hsh' : TokShape a'.type a'.value := by
      rcases ha with rfl | ⟨_, h⟩
      · exact hsh
      · exact h
    refine ⟨⟨hsh', hw, ?_, ih1⟩, by simp only [retok, List.map_cons, ih2]⟩
    -- the spacing condition
    cases rest with
    | nil => cases hrest; trivial
    | cons bw rest' =>
      obtain ⟨b, w'⟩ := bw
      cases hrest with
      | @cons _ b' _ ts3 hb hrest' =>
      simp only [retok]
      intro hwe
      obtain ⟨hsep, hstar⟩ := hmid hwe
      obtain ⟨hshb, _, _, _⟩ := hl'
      refine ⟨?_, ?_⟩
      · show Fuses a' b' = false
        rcases ha with rfl | ⟨hda, _⟩
        · rcases hb with rfl | ⟨hdb, hsb⟩
          · exact hsep
          · exact fuses_delim_right _ hdb hsb
        · exact fuses_delim_left hda
      · rintro ⟨h1, h2, h3, c', wc, r2, hr2, h4⟩
        rcases ha with rfl | ⟨hda, _⟩
        · rcases hb with rfl | ⟨hdb, _⟩
          · -- both kept: the third token is kept too
            cases rest' with
            | nil => cases hrest'; simp [retok] at hr2
            | cons cw rest2 =>
              obtain ⟨c, wc0⟩ := cw
              cases hrest' with
              | @cons _ c2 _ ts4 hc hrest2 =>
              simp only [retok, List.cons.injEq, Prod.mk.injEq] at hr2
              obtain ⟨⟨rfl, rfl⟩, _⟩ := hr2
              have : c2 = c := by
                rcases hc with rfl | ⟨hdc, _⟩
                · rfl
                · rw [h4] at hdc; cases hdc
              subst this
              exact hstar ⟨h1, h2, h3, c2, wc0, rest2, rfl, h4⟩
          · rw [h2] at hdb; cases hdb
        · rw [h1] at hda; cases hda

/-! ### the tokens of the renamed tree, position by position -/

section RepFlat
variable {σ : Token → Token}

set_option hygiene false in
macro "repl_step" : tactic =>
  `(tactic| first
    | exact repL_flat hσ _ _
    | exact repL_flatSep hσ _
    | exact repL_flatKVs hσ _ _ _
    | exact RepL.refl _
    | exact RepL.nil
    | apply RepL.cons (Or.inl rfl)
    | apply RepL.cons (hσ _)
    | apply RepL.append)

mutual
theorem repL_flat (hσ : ∀ tok, Rep tok (σ tok)) : ∀ (b : Bool) (t : PTree), RepL (flat b t) (flat b (renT σ t))
  | _, .icur => by simp only [renT, flat]; exact RepL.nil
  | _, .atom t => by simp only [renT, flat]; exact .cons (hσ t) .nil
  | _, .paren t => by simp only [renT, flat]; repeat' repl_step
  | _, .not t => by simp only [renT, flat]; repeat' repl_step
  | _, .neg tok t => by simp only [renT, flat]; repeat' repl_step
  | _, .pos t => by simp only [renT, flat]; repeat' repl_step
  | b, .bin op l r => by simp only [renT, flat]; repeat' repl_step
  | b, .dotId l r => by simp only [renT, flat]; repeat' repl_step
  | b, .dotList l es => by simp only [renT, flat]; repeat' repl_step
  | b, .dotHash l kvs => by simp only [renT, flat]; repeat' repl_step
  | b, .dotStarList l => by simp only [renT, flat]; repeat' repl_step
  | b, .index l n => by simp only [renT, flat]; repeat' repl_step
  | _, .call name args => by simp only [renT, flat]; repeat' repl_step
  | _, .ref t => by simp only [renT, flat]; repeat' repl_step
  | _, .letIn bs body => by simp only [renT, flat]; repeat' repl_step
  | _, .multiList es => by simp only [renT, flat]; repeat' repl_step
  | _, .multiHash kvs => by simp only [renT, flat]; repeat' repl_step
  | b, .star l rhs => by simp only [renT, flat]; repeat' repl_step
  | b, .ostar l rhs => by
    simp only [renT, flat, isIcur_renT]
    split <;> repeat' repl_step
  | b, .flat l rhs => by simp only [renT, flat]; repeat' repl_step
  | b, .filt l c rhs => by simp only [renT, flat]; repeat' repl_step
  | b, .slice l a bb c rhs => by simp only [renT, flat]; repeat' repl_step
theorem repL_flatSep (hσ : ∀ tok, Rep tok (σ tok)) : ∀ es : List PTree, RepL (flatSep es) (flatSep (renTL σ es))
  | [] => by simp only [renTL, flatSep]; exact RepL.nil
  | [e] => by simp only [renTL, flatSep]; exact repL_flat hσ false e
  | e :: e' :: es => by
    have ih := repL_flatSep hσ (e' :: es)
    simp only [renTL, flatSep] at ih ⊢
    exact RepL.append (repL_flat hσ false e) (.cons (Or.inl rfl) ih)
theorem repL_flatKVs (hσ : ∀ tok, Rep tok (σ tok)) (sep : Token) (keys : Bool) : ∀ kvs : List (Token × PTree),
    RepL (flatKVs sep kvs) (flatKVs sep (renTK σ keys kvs))
  | [] => by simp only [renTK, flatKVs]; exact RepL.nil
  | [(k, e)] => by
    simp only [renTK, flatKVs]
    refine .cons ?_ (.cons (Or.inl rfl) (repL_flat hσ false e))
    cases keys
    · exact Or.inl rfl
    · exact hσ k
  | (k, e) :: kv' :: rest => by
    have ih := repL_flatKVs hσ sep keys (kv' :: rest)
    obtain ⟨k', e'⟩ := kv'
    simp only [renTK, flatKVs] at ih ⊢
    refine .cons ?_ (.cons (Or.inl rfl) (RepL.append (repL_flat hσ false e) (.cons (Or.inl rfl) ih)))
    cases keys
    · exact Or.inl rfl
    · exact hσ k
end

end RepFlat

/-- **(2c) the renamed text lexes.**  If `e` lexes to the tokens of `t`, then `e` is a layout `w0 t1 w1 … tk wk` of them,
    and the text with the same whitespace runs `w0 … wk` and the tokens of `renT σ t` lexes to the tokens of
    `renT σ t` — provided `σ` keeps a token or replaces it by a well-shaped delimited token (`Rep`). -/
theorem lexes_renT {σ : Token → Token} (hσ : ∀ tok, Rep tok (σ tok)) {t : PTree} {e : Bytes}
    (he : C17B.Lexes e (Grammar.flatten t)) :
    ∃ (w0 : Bytes) (l : List (Token × Bytes)), Ws w0 ∧ e = layout w0 l ∧ l.map (·.1) = Grammar.flatten t ∧
      C17B.Lexes (layout w0 (retok l (Grammar.flatten (renT σ t)))) (Grammar.flatten (renT σ t)) := by
  obtain ⟨w0, l, hw0, hl, hmap, rfl⟩ := (C04C.lex_layout_iff e (Grammar.flatten t)).mp he
  refine ⟨w0, l, hw0, rfl, hmap, ?_⟩
  have hr : RepL (l.map (·.1)) (Grammar.flatten (renT σ t)) := by
    rw [hmap]; exact repL_flat hσ false t
  obtain ⟨h1, h2⟩ := layoutOK_retok l _ hl hr
  have := C04C.lex_layout hw0 h1
  rw [h2] at this
  exact this

end Jmes.C11E.Tok
